#!/bin/sh
# Build the framework from files on disk only (offline): the Coq development (full .vo build),
# the extracted model + OCaml comparator, the Rust harness and the repository's binaries.
set -e
cd "$(dirname "$0")"
export CARGO_NET_OFFLINE=true CARGO_TARGET_DIR="$PWD/_build/target" RUSTFLAGS="--cfg rsbdd_verif"
mkdir -p _build evidence replays
( cd coq && coq_makefile -f _CoqProject -o Makefile >/dev/null && timeout 3000 make -j16 >/dev/null 2>_make.err || { cat _make.err; exit 1; } )
rm -f _build/ocaml/stamp
( cd harness && cargo build --offline -q --release && cargo build --offline -q )
( cd /repo && CARGO_TARGET_DIR="$OLDPWD/_build/target-ws" cargo build --offline -q --workspace --bins )
python3 - <<'PY'
import sys, os
sys.path.insert(0, 'lib')
from vlib import build, report
ctx = report.Ctx(os.getcwd(), os.path.join(os.getcwd(), '_build'), '/repo', os.path.join(os.getcwd(), '_build', 'target'), 'setup', 'quick', 1)
print('model driver:', build.model_driver(ctx))
PY
echo setup done
