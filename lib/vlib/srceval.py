"""Source-derived evaluator (tie by translation, C01 / C06): `ParsedFormula::replace_var` and `ParsedFormula::eval_recursive`
of /repo/src/parser.rs are re-read on every run and emitted as Gallina functions over the model's syntax trees:

  src_replace_var formula var replacement : form              (structural recursion on the formula)
  src_eval fuel root : option bdd                             (fuel only because `fp` may diverge; None = out of fuel)

The arms of each match are taken in source order (first match wins, as in Rust: for every constructor the guarded arms that
mention it become an if-chain ending in the first unguarded one); binder names are normalised by position.  In
eval_recursive every `self.eval_recursive(x)` becomes a bind in the option monad, `l.iter().map(|b| self.eval_recursive(b))
.collect()` a `map_opt`, `self.env.<m>(..)` the model function of that library call (the library calls themselves are tied by
lib/vlib/srcfun.py), `env.fp(a, |x| ..)` the fuelled iteration `fp_opt`, `(*n).min(len + 1) as i64` arithmetic over N / Z
(types tracked: usize = N, i64 = Z), `match op { .. }` a Gallina match over the operator constructors (every constructor
must be matched).  coqc then checks

  src_replace_var_ok : forall f x r, src_replace_var f x r = replace_var x r f
  src_eval_ok        : forall n f, src_eval n f = eval_f n f

so the theorems of Props/C01.v and Props/C06.v, which are about eval_f, are about the evaluator as it is written today.
The arms for defined references (`{name}`; the CLI never defines one) are compared with their pinned text.  Not modelled:
wrap-around of `len + 1` in usize and of the conversion to i64 (a list of 2^63 operands).  Trusted: this translator."""
import os
import re

from . import build
from .srcfun import Shape, lex
from .srcfree import fn_text

CTOR = {'Var': ('FVar', 1), 'Quantifier': ('FQuant', 3), 'Ite': ('FIte', 3), 'Not': ('FNot', 1), 'BinaryOp': ('FBin', 3),
        'CountableConst': ('FCountC', 3), 'CountableVariable': ('FCountV', 3), 'FixedPoint': ('FFix', 3), 'Subtree': ('FSub', 1),
        'True': ('FTrue', 0), 'False': ('FFalse', 0), 'Reference': ('FRef', 1)}
ORDER = ['False', 'True', 'Var', 'Not', 'Quantifier', 'CountableConst', 'CountableVariable', 'FixedPoint', 'Ite', 'BinaryOp', 'Subtree', 'Reference']
ENUMS = {
    'QuantifierType': {'Exists': 'QExists', 'Forall': 'QForall'},
    'CountableOperator': {'AtMost': 'AtMost', 'AtLeast': 'AtLeast', 'Exactly': 'Exactly', 'LessThan': 'LessThan', 'MoreThan': 'MoreThan'},
    'BinaryOperator': {'And': 'BAnd', 'Or': 'BOr', 'Xor': 'BXor', 'Nor': 'BNor', 'Nand': 'BNand', 'Implies': 'BImplies',
                       'ImpliesInv': 'BImpliesInv', 'Iff': 'BIff'},
}
# library call -> (model function, argument kinds)
ENV = {'not': ('bnot', 'b'), 'exists': ('bex', 'vb'), 'all': ('ball', 'vb'), 'amn': ('amn', 'lz'), 'aln': ('aln', 'lz'), 'exn': ('exn', 'lz'),
       'count_leq': ('count_leq', 'll'), 'count_geq': ('count_geq', 'll'), 'count_eq': ('count_eq', 'll'), 'count_lt': ('count_lt', 'll'),
       'count_gt': ('count_gt', 'll'), 'ite': ('bite', 'bbb'), 'and': ('band', 'bb'), 'or': ('bor', 'bb'), 'xor': ('bxor', 'bb'),
       'nor': ('bnor', 'bb'), 'nand': ('bnand', 'bb'), 'implies': ('bimplies', 'bb'), 'eq': ('beq', 'bb'), 'mk_const': ('bconst', 'o'),
       'var': ('bvar', 'n')}
REF_REPLACE = ('self . get_definition ( name ) . map_or_else ( || formula . clone ( ) , | t | match t { ReferenceContents :: Syntax ( syntax ) => '
               '{ self . replace_var ( & syntax , var , replacement ) } ReferenceContents :: BDD ( _ ) => unimplemented! ( '
               '"variable replacement in referenced BDDs is not supported (yet)" ) , } , )')
REF_EVAL = ('self . get_definition ( name ) . map_or_else ( || self . env . mk_const ( false ) , | t | match t { ReferenceContents :: Syntax ( syntax ) => '
            'self . eval_recursive ( & syntax ) , ReferenceContents :: BDD ( bdd ) => bdd , } , )')
IDENT = re.compile(r'[A-Za-z_]\w*$')


class P:
    """token cursor"""
    def __init__(self, toks):
        self.t, self.i = toks, 0

    def peek(self, k=0):
        return self.t[self.i + k] if self.i + k < len(self.t) else None

    def eat(self, x=None):
        tok = self.peek()
        if tok is None or (x is not None and tok != x):
            raise Shape('expected %r, got %r near %s' % (x, tok, ' '.join(self.t[max(0, self.i - 6):self.i + 3])))
        self.i += 1
        return tok

    def opt(self, x):
        if self.peek() == x:
            self.i += 1
            return True
        return False

    def ident(self):
        tok = self.eat()
        if not IDENT.match(tok):
            raise Shape('identifier expected, got %r' % tok)
        return tok


def skip_arm(p):
    """the tokens of one arm body (up to the comma / closing brace of the match at depth 0), as text"""
    start, depth = p.i, 0
    if p.peek() == '{':                                       # a block body ends with its brace
        while True:
            tok = p.eat()
            depth += tok in ('(', '{', '[')
            depth -= tok in (')', '}', ']')
            if depth == 0:
                break
        text = ' '.join(p.t[start + 1:p.i - 1]).strip()
    else:
        while True:
            tok = p.peek()
            if tok is None:
                raise Shape('unterminated arm')
            if tok in ('(', '{', '['):
                depth += 1
            elif tok in (')', '}', ']'):
                if depth == 0:
                    break
                depth -= 1
            elif tok == ',' and depth == 0:
                break
            p.i += 1
        text = ' '.join(p.t[start:p.i]).strip()
    p.opt(',')
    return text


def read_arms(p, scrut, params):
    """match <scrut> { SymbolicBDD::C(binders) [| ..] [if guard] => body , .. }  ->  [(ctor, binders, guard tokens|None, body tokens)]"""
    p.eat('match')
    if p.eat() != scrut:
        raise Shape('match on %s expected' % scrut)
    p.eat('{')
    arms = []
    while p.peek() != '}':
        pats = []
        while True:
            if p.eat() != 'SymbolicBDD' or p.eat() != '::':
                raise Shape('pattern')
            c = p.eat()
            if c not in CTOR:
                raise Shape('constructor %s' % c)
            subs = []
            if p.opt('('):
                while p.peek() != ')':
                    if p.peek(1) == '::':                      # nested enum constant, e.g. QuantifierType::Exists
                        en = p.eat(); p.eat('::'); k = p.eat()
                        if en not in ENUMS or k not in ENUMS[en]:
                            raise Shape('enum constant %s::%s' % (en, k))
                        subs.append(('const', ENUMS[en][k]))
                    else:
                        n = p.ident()
                        if n in params:
                            raise Shape('a pattern variable shadows a parameter')
                        subs.append(('var', n))
                    p.opt(',')
                p.eat(')')
            if len(subs) != CTOR[c][1]:
                raise Shape('arity of %s' % c)
            pats.append((c, subs))
            if not p.opt('|'):
                break
        guard = None
        if p.opt('if'):
            start = p.i
            while p.peek() != '=>':
                p.eat()
            guard = p.t[start:p.i]
        p.eat('=>')
        start = p.i
        skip_arm(p)
        body = p.t[start:p.i]
        if body and body[-1] == ',':
            body = body[:-1]
        for c, subs in pats:
            arms.append((c, subs, guard, body))
    p.eat('}')
    return arms


def positional(c, subs):
    """binder names by position; constants in patterns become conditions"""
    ren, conds = {}, []
    for k, (kind, n) in enumerate(subs):
        pos = 'x%s%d' % (c[:2].lower(), k + 1)
        if kind == 'var':
            if not n.startswith('_'):
                ren[n] = pos
        else:
            conds.append((pos, n))
    return ren, conds


def rename(toks, ren):
    out = []
    for k, t in enumerate(toks):
        if t in ren and (k == 0 or toks[k - 1] not in ('.', '::')):
            out.append(ren[t])
        else:
            out.append(t)
    return out


def per_ctor(arms, xlate_guard, xlate_body, enum_of_pos):
    """Gallina clauses: for every constructor the arms that mention it, in source order, as an if-chain"""
    clauses = []
    for c in ORDER:
        g, ar = CTOR[c]
        names = ['x%s%d' % (c[:2].lower(), k + 1) for k in range(ar)]
        chain, closed = [], False
        for (c2, subs, guard, body) in arms:
            if c2 != c or closed:
                continue
            ren, conds = positional(c, subs)
            cond = []
            for pos, const in conds:
                cond.append('(match %s with %s => true | _ => false end)' % (pos, const))
            if guard is not None:
                cond.append(xlate_guard(rename(guard, ren)))
            e = xlate_body(c, body if c == 'Reference' else rename(body, ren), names)
            if cond:
                chain.append((' && '.join(cond), e))
            else:
                chain.append((None, e))
                closed = True
        if not closed:
            # constants in patterns may cover the constructor without an unguarded arm: all constants of one enum at one position
            consts = {}
            for (c2, subs, guard, body) in arms:
                if c2 == c and guard is None:
                    cs = [(k, n) for k, (kind, n) in enumerate(subs) if kind == 'const']
                    if len(cs) == 1:
                        consts.setdefault(cs[0][0], set()).add(cs[0][1])
            ok = any(any(vals == set(tab.values()) for tab in ENUMS.values()) for vals in consts.values())
            if not ok:
                raise Shape('no arm covers %s' % c)
            last = chain.pop()
            chain.append((None, last[1]))
        e = chain[-1][1]
        for cond, body in reversed(chain[:-1]):
            e = '(if %s then %s else %s)' % (cond, body, e)
        pat = g if c == 'Reference' or ar == 0 else '%s %s' % (g, ' '.join(names))
        clauses.append('| %s => %s' % (pat, e))
    return clauses


# ------------------------------------------------------------------------------------------------ replace_var

class Rep:
    def __init__(self, params):
        self.fo, self.va, self.re = params

    def guard(self, toks):
        p = P(toks)
        e = self.cond(p)
        if p.peek() is not None:
            raise Shape('guard: trailing %r' % p.peek())
        return e

    def cond(self, p):
        neg = p.opt('!')
        a = p.ident()
        if p.opt('.'):
            if p.eat() != 'contains':
                raise Shape('condition method')
            p.eat('('); p.opt('&'); b = p.ident(); p.eat(')')
            e = '(mem_nat %s %s)' % (b, a)
        else:
            op = p.eat()
            if op not in ('==', '!='):
                raise Shape('condition operator %s' % op)
            b = p.ident()
            e = '(Nat.eqb %s %s)' % (a, b)
            if op == '!=':
                e = '(negb %s)' % e
        return '(negb %s)' % e if neg else e

    def body(self, c, toks, names):
        if c == 'Reference':
            if ' '.join(toks).strip() != REF_REPLACE:
                raise Shape('the replace_var arm for references changed')
            return self.fo
        p = P(toks)
        e = self.expr(p)
        if p.peek() is not None:
            raise Shape('replace_var arm: trailing %r' % p.peek())
        return e

    def expr(self, p):
        tok = p.peek()
        if tok == '{':
            p.eat('{'); e = self.expr(p); p.eat('}')
            return e
        if tok == 'if':
            p.eat('if'); c = self.cond(p)
            p.eat('{'); a = self.expr(p); p.eat('}'); p.eat('else'); p.eat('{'); b = self.expr(p); p.eat('}')
            return '(if %s then %s else %s)' % (c, a, b)
        if tok in ('*', '&'):
            p.eat()
            return self.expr(p)
        if tok == 'Box':
            p.eat(); p.eat('::'); p.eat('new'); p.eat('(')
            e = self.expr(p); p.opt(','); p.eat(')')
            return e
        if tok == 'SymbolicBDD':
            p.eat(); p.eat('::'); c = p.eat()
            if c not in CTOR or c == 'Reference':
                raise Shape('constructor %s' % c)
            args = []
            if p.opt('('):
                while p.peek() != ')':
                    args.append(self.expr(p)); p.opt(',')
                p.eat(')')
            if len(args) != CTOR[c][1]:
                raise Shape('arity of %s' % c)
            return '(%s)' % ' '.join([CTOR[c][0]] + args)
        if tok == 'self':
            p.eat(); p.eat('.')
            if p.eat() != 'replace_var':
                raise Shape('call of another method')
            p.eat('(')
            args = []
            while p.peek() != ')':
                args.append(self.expr(p)); p.opt(',')
            p.eat(')')
            if len(args) != 3:
                raise Shape('replace_var arguments')
            return '(src_replace_var %s)' % ' '.join(args)
        x = p.ident()
        while p.opt('.'):
            m = p.eat()
            if m == 'clone':
                p.eat('('); p.eat(')')
            elif m == 'iter':
                p.eat('('); p.eat(')'); p.eat('.')
                if p.eat() != 'map':
                    raise Shape('iterator adaptor')
                p.eat('('); p.eat('|'); v = p.ident(); p.eat('|')
                if v in (self.fo, self.va, self.re):
                    raise Shape('closure parameter shadows')
                e = self.expr(p); p.opt(','); p.eat(')')
                p.eat('.')
                if p.eat() != 'collect':
                    raise Shape('collect expected')
                p.eat('('); p.eat(')')
                x = '(map (fun %s => %s) %s)' % (v, e, x)
            else:
                raise Shape('method .%s' % m)
        return x


def gallina_replace(src):
    params, body = fn_text(src, 'replace_var')
    if len(params) != 3:
        raise Shape('replace_var takes %s' % params)
    toks = lex(body)
    p = P(toks)
    p.eat('{')
    arms = read_arms(p, params[0], params)
    p.eat('}')
    r = Rep(params)
    clauses = per_ctor(arms, r.guard, r.body, None)
    return params, '''Fixpoint src_replace_var (%s : form) (%s : nat) (%s : form) {struct %s} : form :=
  match %s with
  %s
  end.
''' % (params[0], params[1], params[2], params[0], params[0], '\n  '.join(clauses))


# ------------------------------------------------------------------------------------------------ eval_recursive

class Ev:
    def __init__(self, root, rep_params):
        self.root, self.rep_params = root, rep_params
        self.n = 0

    def fresh(self):
        self.n += 1
        return 'r%d' % self.n

    def body(self, c, toks, names):
        if c == 'Reference':
            if ' '.join(toks).strip() != REF_EVAL:
                raise Shape('the eval_recursive arm for references changed')
            return '(Some (bconst false))'
        ty = {}
        if c == 'CountableConst':
            ty[names[2]] = 'N'
        self.alias = set()
        p = P(toks)
        e = self.block(p, ty)
        if p.peek() is not None:
            raise Shape('eval_recursive arm: trailing %r' % p.peek())
        return e

    def wrap(self, binds, inner):
        for (v, e) in reversed(binds):
            inner = '(match %s with Some %s => %s | None => None end)' % (e, v, inner)
        return inner

    def block(self, p, ty):
        """[{] let ..; .. tail [}]  ->  option-valued Gallina"""
        braces = p.opt('{')
        ty = dict(ty)
        pre = []                                               # ('bind', v, e) | ('let', v, e)
        while p.peek() == 'let':
            p.eat('let'); name = p.ident()
            if p.opt(':'):                                      # type annotation
                depth = 0
                while not (p.peek() == '=' and depth == 0):
                    tok = p.eat(); depth += tok == '<'; depth -= tok == '>'
            p.eat('=')
            if p.peek() == '&' and p.peek(1) == 'self' and p.peek(3) == 'env' and p.peek(4) == ';':
                p.i += 4; p.eat(';')
                self.alias.add(name)
                continue
            binds, term, t = self.value(p, ty)
            p.eat(';')
            pre += [('bind', v, e) for v, e in binds]
            pre.append(('let', name, term))
            ty[name] = t
        tail = self.tail(p, ty)
        if braces:
            p.eat('}')
        for kind, v, e in reversed(pre):
            if kind == 'bind':
                tail = '(match %s with Some %s => %s | None => None end)' % (e, v, tail)
            else:
                tail = '(let %s := %s in %s)' % (v, e, tail)
        return tail

    def tail(self, p, ty):
        if p.peek() == 'match':
            p.eat('match'); x = p.ident(); p.eat('{')
            arms, enum = [], None
            while p.peek() != '}':
                en = p.eat(); p.eat('::'); k = p.eat(); p.eat('=>')
                if en not in ENUMS or k not in ENUMS[en] or (enum and en != enum):
                    raise Shape('enum constant %s::%s' % (en, k))
                enum = en
                if p.peek() == '{':
                    e = self.block(p, ty)
                else:
                    e = self.tail(p, ty)
                p.opt(',')
                arms.append((ENUMS[en][k], e))
            p.eat('}')
            if sorted(a for a, _ in arms) != sorted(ENUMS[enum].values()):
                raise Shape('match over %s does not name every constructor exactly once' % enum)
            return '(match %s with %s end)' % (x, ' '.join('| %s => %s' % a for a in arms))
        binds, term, t = self.value(p, ty)
        if t != 'bdd':
            raise Shape('the arm does not end in a diagram')
        if binds and binds[-1][0] == term:                     # tail call: no re-wrapping
            return self.wrap(binds[:-1], binds[-1][1])
        return self.wrap(binds, '(Some %s)' % term)

    def args(self, p, ty):
        p.eat('(')
        out = []
        while p.peek() != ')':
            out.append(self.value(p, ty)); p.opt(',')
        p.eat(')')
        return out

    def value(self, p, ty):
        """-> (binds, term, type)"""
        binds, term, t = self.atom(p, ty)
        while p.peek() in ('+', '-'):
            op = p.eat()
            b2, t2, ty2 = self.atom(p, ty)
            if t == 'lit' and ty2 == 'lit':
                raise Shape('arithmetic on two literals')
            tt = ty2 if t == 'lit' else t
            if tt not in ('N', 'Z') or ty2 not in ('lit', tt):
                raise Shape('arithmetic on %s and %s' % (t, ty2))
            binds += b2
            term, t = '(%s %s %s)%%%s' % (term, op, t2, tt), tt
        if p.peek() == 'as':
            p.eat('as'); target = p.eat()
            if target == 'i64' and t == 'N':
                term, t = '(Z.of_N %s)' % term, 'Z'
            else:
                raise Shape('conversion of %s to %s' % (t, target))
        return binds, term, t

    def form(self, p):
        """a syntax-tree expression (argument of eval_recursive)"""
        r = Rep(self.rep_params)
        tok = p.peek()
        if tok == '&':
            p.eat(); return self.form(p)
        if tok == 'self' and p.peek(2) == 'replace_var':
            p.eat(); p.eat('.'); p.eat(); p.eat('(')
            args = []
            while p.peek() != ')':
                args.append(self.form(p)); p.opt(',')
            p.eat(')')
            if len(args) != 3:
                raise Shape('replace_var arguments')
            return '(src_replace_var %s)' % ' '.join(args)
        if tok == 'SymbolicBDD':
            p.eat(); p.eat('::')
            if p.eat() != 'Subtree':
                raise Shape('only Subtree is built by the evaluator')
            p.eat('('); x = p.ident(); p.eat(')')
            return '(FSub %s)' % x
        return p.ident()

    def atom(self, p, ty):
        tok = p.peek()
        if tok == '(':
            p.eat('('); r = self.value(p, ty); p.eat(')')
            return self.postfix(p, ty, *r)
        if tok in ('*', '&'):
            p.eat(); return self.atom(p, ty)
        if tok == '!':
            p.eat(); b, term, t = self.atom(p, ty)
            if t != 'bool':
                raise Shape('negation of a %s' % t)
            return b, '(negb %s)' % term, 'bool'
        if tok == 'true' or tok == 'false':
            p.eat(); return [], tok, 'bool'
        if tok is not None and tok.isdigit():
            p.eat(); return [], tok, 'lit'
        if tok == 'Rc':
            p.eat(); p.eat('::'); p.eat('clone'); p.eat('('); r = self.value(p, ty); p.eat(')')
            return r
        if tok == 'self' and p.peek(2) == 'eval_recursive':
            p.eat(); p.eat('.'); p.eat(); p.eat('(')
            f = self.form(p); p.opt(','); p.eat(')')
            v = self.fresh()
            return [(v, '(src_eval k %s)' % f)], v, 'bdd'
        if (tok == 'self' and p.peek(2) == 'env') or tok in self.alias:
            if tok == 'self':
                p.eat(); p.eat('.'); p.eat('env')
            else:
                p.eat()
            p.eat('.')
            m = p.eat()
            if m == 'as_ref':
                p.eat('('); p.eat(')'); p.eat('.'); m = p.eat()
            if m == 'fp':
                p.eat('(')
                b1, start, t1 = self.value(p, ty)
                p.eat(',')
                p.eat('|'); x = p.ident(); p.eat('|')
                inner = self.block(p, dict(ty, **{x: 'bdd'}))
                p.opt(','); p.eat(')')
                if t1 != 'bdd':
                    raise Shape('fp starts from a %s' % t1)
                v = self.fresh()
                return b1 + [(v, '(fp_opt k %s (fun %s => %s))' % (start, x, inner))], v, 'bdd'
            if m not in ENV:
                raise Shape('library call .%s' % m)
            fn, kinds = ENV[m]
            args = self.args(p, ty)
            if len(args) != len(kinds):
                raise Shape('arguments of .%s' % m)
            binds, terms = [], []
            want = {'b': 'bdd', 'v': 'vars', 'l': 'list', 'z': 'Z', 'o': 'bool', 'n': 'var'}
            for (b, term, t), k in zip(args, kinds):
                if t != want[k]:
                    raise Shape('argument of .%s is a %s, not a %s' % (m, t, want[k]))
                binds += b; terms.append(term)
            return binds, '(%s %s)' % (fn, ' '.join(terms)), 'bdd'
        x = p.ident()
        t = ty.get(x)
        if t is None:                                          # a pattern binder: its type follows from its position
            t = {'xva1': 'var', 'xqu2': 'vars', 'xfi1': 'var', 'xfi2': 'bool', 'xsu1': 'bdd'}.get(x, 'form')
            if re.match(r'xco[23]$', x) and x not in ty:
                t = 'forms'
        return self.postfix(p, ty, [], x, t)

    def postfix(self, p, ty, binds, term, t):
        while p.peek() == '.':
            p.eat('.')
            m = p.eat()
            if m == 'clone':
                p.eat('('); p.eat(')')
            elif m == 'len' and t == 'list':
                p.eat('('); p.eat(')')
                term, t = '(N.of_nat (length %s))' % term, 'N'
            elif m == 'min' and t == 'N':
                p.eat('('); b2, t2, ty2 = self.value(p, ty); p.eat(')')
                if ty2 != 'N':
                    raise Shape('min of N and %s' % ty2)
                binds, term = binds + b2, '(N.min %s %s)' % (term, t2)
            elif m == 'iter' and t == 'forms':
                p.eat('('); p.eat(')'); p.eat('.')
                if p.eat() != 'map':
                    raise Shape('iterator adaptor')
                p.eat('('); p.eat('|'); v = p.ident(); p.eat('|')
                if not (p.eat() == 'self' and p.eat() == '.' and p.eat() == 'eval_recursive' and p.eat() == '(' and p.peek() in (v, '&')):
                    raise Shape('closure over the operands')
                p.opt('&')
                if p.eat() != v:
                    raise Shape('closure over the operands')
                p.eat(')'); p.eat(')'); p.eat('.')
                if p.eat() != 'collect':
                    raise Shape('collect expected')
                p.eat('('); p.eat(')')
                r = self.fresh()
                binds, term, t = binds + [(r, '(map_opt (fun %s => src_eval k %s) %s)' % (v, v, term))], r, 'list'
            else:
                raise Shape('method .%s on a %s' % (m, t))
        return binds, term, t


def gallina_eval(src, rep_params):
    params, body = fn_text(src, 'eval_recursive')
    if len(params) != 1:
        raise Shape('eval_recursive takes %s' % params)
    root = params[0]
    toks = lex(body)
    p = P(toks)
    p.eat('{')
    arms = read_arms(p, root, params)
    p.eat('}')
    ev = Ev(root, rep_params)

    def no_guard(toks):
        raise Shape('guarded arm in eval_recursive')
    clauses = per_ctor(arms, no_guard, ev.body, None)
    return '''Fixpoint src_eval (fuel : nat) (%s : form) {struct fuel} : option bdd :=
  match fuel with
  | 0 => None
  | S k =>
  match %s with
  %s
  end
  end.
''' % (root, root, '\n  '.join(clauses))


# ------------------------------------------------------------------------------------------------ the loop of fp (src/bdd.rs)

def skip_attr(p):
    """#[cfg(..)] and the statement or block it guards (the verification hooks are compiled out of the shipped code)"""
    p.eat('#'); p.eat('[')
    depth = 1
    while depth:
        tok = p.eat(); depth += tok == '['; depth -= tok == ']'
    if p.peek() == '{':
        depth = 0
        while True:
            tok = p.eat(); depth += tok == '{'; depth -= tok == '}'
            if depth == 0:
                return
    depth = 0
    while True:
        tok = p.eat()
        depth += tok in ('(', '{', '['); depth -= tok in (')', '}', ']')
        if tok == ';' and depth == 0:
            return


def fp_value(p, fun):
    tok = p.peek()
    if tok == 'Rc':
        p.eat(); p.eat('::'); p.eat('clone'); p.eat('('); p.opt('&'); e = fp_value(p, fun); p.eat(')')
        return e
    if tok == '&':
        p.eat(); return fp_value(p, fun)
    x = p.ident()
    if p.peek() == '(':
        if x != fun:
            raise Shape('call of %s inside fp' % x)
        p.eat('('); a = fp_value(p, fun); p.opt(','); p.eat(')')
        return '(%s %s)' % (x, a)
    while p.opt('.'):
        if p.eat() != 'clone':
            raise Shape('method inside fp')
        p.eat('('); p.eat(')')
    return x


def gallina_fp(src):
    from .srcfun import fn_body
    params, body = fn_body(src, 'fp')
    if len(params) != 2:
        raise Shape('fp takes %s' % params)
    a, t = params
    p = P(lex(body))
    p.eat('{')
    state = None
    while p.peek() != 'loop':
        if p.peek() == '#':
            skip_attr(p); continue
        p.eat('let'); p.eat('mut'); name = p.ident()
        if state is not None:
            raise Shape('a second mutable variable in fp')
        p.eat('='); init = fp_value(p, t); p.eat(';')
        state = name
    if state is None or state in params:
        raise Shape('no loop variable in fp')
    p.eat('loop'); p.eat('{')
    stmts = []
    while p.peek() != '}':
        if p.peek() == '#':
            skip_attr(p); continue
        if p.peek() == 'let':
            p.eat('let'); x = p.ident()
            if x in (a, t, state):
                raise Shape('shadowing inside fp')
            p.eat('='); stmts.append(('let', x, fp_value(p, t))); p.eat(';')
        elif p.peek() == 'if':
            p.eat('if'); l = fp_value(p, t); op = p.eat(); r = fp_value(p, t)
            if op not in ('==', '!='):
                raise Shape('loop condition %s' % op)
            c = '(bdd_eqb %s %s)' % (l, r)
            if op == '!=':
                c = '(negb %s)' % c
            p.eat('{'); p.eat('break'); p.opt(';'); p.eat('}')
            stmts.append(('break', c, None))
        else:
            x = p.ident()
            if x != state:
                raise Shape('assignment to %s' % x)
            p.eat('='); stmts.append(('let', x, fp_value(p, t))); p.eat(';')
    p.eat('}')
    result = fp_value(p, t)
    p.eat('}')
    e = '(src_fp_loop k %s %s)' % (state, t)
    for kind, x, v in reversed(stmts):
        e = '(let %s := %s in %s)' % (x, v, e) if kind == 'let' else '(if %s then Some %s else %s)' % (x, result, e)
    return """Fixpoint src_fp_loop (fuel : nat) (%s : bdd) (%s : bdd -> bdd) {struct fuel} : option bdd :=
  match fuel with
  | 0 => None
  | S k => %s
  end.
Definition src_fp (fuel : nat) (%s : bdd) (%s : bdd -> bdd) : option bdd := let %s := %s in src_fp_loop fuel %s %s.
""" % (state, t, e, a, t, state, init, state, t)


FP_PROOFS = r"""
Lemma src_fp_ok : forall n a t, src_fp n a t = fp_f n a t.
Proof.
  unfold src_fp. cbv zeta. induction n as [|k IH]; intros a t; cbn [src_fp_loop fp_f]; [reflexivity|]. cbv zeta.
  repeat match goal with |- context [bdd_eqb ?x ?y] => destruct (bdd_eqb_spec x y) end; cbn [negb];
    try congruence; try (exfalso; congruence); apply IH.
Qed.
Print Assumptions src_fp_ok.
Lemma src_fp_opt : forall n a t, fp_opt n a (fun b => Some (t b)) = src_fp n a t.
Proof.
  intros n a t. rewrite src_fp_ok. revert a. induction n as [|k IH]; intros a; cbn [fp_opt fp_f]; [reflexivity|].
  cbv zeta. destruct (bdd_eqb (t a) a); [reflexivity | apply IH].
Qed.
Print Assumptions src_fp_opt.
"""

PROOFS = r'''
Lemma map_ext_Forall {A B} (f g : A -> B) l : Forall (fun x => f x = g x) l -> map f l = map g l.
Proof. induction 1 as [|x l Hx Hl IH]; cbn [map]; [reflexivity | rewrite Hx, IH; reflexivity]. Qed.
Lemma src_replace_var_ok : forall f x r, src_replace_var f x r = replace_var x r f.
Proof.
  intros f x r. induction f using form_ind'; cbn [src_replace_var replace_var];
    repeat match goal with
    | H : src_replace_var _ x r = replace_var x r _ |- _ => rewrite H; clear H
    | H : Forall _ _ |- _ => rewrite (map_ext_Forall _ _ _ H); clear H
    end;
    try reflexivity;
    repeat match goal with |- context [mem_nat ?a ?b] => destruct (mem_nat a b)
                         | |- context [Nat.eqb ?a ?b] => destruct (Nat.eqb a b) end;
    cbn [negb andb orb]; reflexivity.
Qed.
Print Assumptions src_replace_var_ok.

Lemma map_opt_ext {A B} (f g : A -> option B) l : (forall x, f x = g x) -> map_opt f l = map_opt g l.
Proof. intros H. induction l as [|x l IH]; cbn [map_opt]; [reflexivity | rewrite H, IH; reflexivity]. Qed.
Lemma fp_opt_ext n : forall s t1 t2, (forall b, t1 b = t2 b) -> fp_opt n s t1 = fp_opt n s t2.
Proof.
  induction n as [|n IH]; intros s t1 t2 H; cbn [fp_opt]; [reflexivity|].
  rewrite H. destruct (t2 s) as [s'|]; [|reflexivity]. destruct (bdd_eqb s' s); [reflexivity|]. apply IH, H.
Qed.
Lemma src_eval_ok : forall n f, src_eval n f = eval_f n f.
Proof.
  induction n as [|k IH]; intros f; [reflexivity|].
  assert (IHm : forall l, map_opt (fun b => src_eval k b) l = map_opt (eval_f k) l) by (intros l; apply map_opt_ext, IH).
  destruct f; cbn [src_eval eval_f];
    repeat match goal with
    | |- context [fp_opt k ?s (fun b => src_eval k (@?g b))] =>
        rewrite (fp_opt_ext k s (fun b => src_eval k (g b)) (fun b => eval_f k (g b))) by (intros ?; apply IH)
    end;
    rewrite ?IH, ?IHm;
    repeat match goal with
    | |- context [fp_opt k ?s (fun b => eval_f k (src_replace_var ?a ?x (@?r b)))] =>
        rewrite (fp_opt_ext k s (fun b => eval_f k (src_replace_var a x (r b))) (fun b => eval_f k (replace_var x (r b) a)))
          by (intros ?; rewrite src_replace_var_ok; reflexivity)
    end;
    repeat match goal with
    | |- context [match ?q with QExists => _ | QForall => _ end] => destruct q
    | |- context [match ?o with AtMost => _ | _ => _ end] => destruct o
    | |- context [match ?o with BAnd => _ | _ => _ end] => destruct o
    end;
    cbn [andb]; unfold eval_countc, eval_countv, eval_binop, clamp;
    repeat match goal with
    | |- context [match eval_f k ?a with _ => _ end] => destruct (eval_f k a)
    | |- context [match map_opt (eval_f k) ?a with _ => _ end] => destruct (map_opt (eval_f k) a)
    | |- context [match fp_opt k ?a ?b with _ => _ end] => destruct (fp_opt k a b)
    end;
    try reflexivity;
    repeat f_equal; lia.
Qed.
Print Assumptions src_eval_ok.
'''


def gallina(src, bdd_src=None):
    rep_params, rep = gallina_replace(src)
    ev = gallina_eval(src, rep_params)
    text = ('(* generated by lib/vlib/srceval.py from /repo/src/parser.rs and /repo/src/bdd.rs on every run; do not edit *)\n'
            'From Coq Require Import List Arith Bool PeanoNat ZArith NArith Lia.\nImport ListNotations.\n'
            'From Rsbdd Require Import Core.Bdd Core.Ops Core.OpsFacts Lang.Ast Lang.AstFacts Lang.Eval.\n' + rep + ev + PROOFS)
    names = ['src_replace_var_ok', 'src_eval_ok']
    if bdd_src is not None:
        text += gallina_fp(bdd_src) + FP_PROOFS
        names += ['src_fp_ok', 'src_fp_opt']
    return text, names


def run(ctx):
    parser_rs = os.path.join(ctx.repo, 'src', 'parser.rs')
    info = {'source': 'src/parser.rs (replace_var, eval_recursive), src/bdd.rs (fp)'}
    status, detail, names = 'proved', '', []
    try:
        text, names = gallina(open(parser_rs, encoding='utf-8').read(), open(os.path.join(ctx.repo, 'src', 'bdd.rs'), encoding='utf-8').read())
        info.update(obligations=len(names))
        gdir = os.path.join(ctx.build, 'gen')
        os.makedirs(gdir, exist_ok=True)
        gen = os.path.join(gdir, 'SrcEval_%s.v' % ctx.pid)
        with open(gen, 'w') as f:
            f.write(text)
        coq = os.path.join(ctx.root, 'coq')
        rc0, out0 = build.coq_make(ctx, ['theories/Lang/Eval.vo', 'theories/Lang/AstFacts.vo', 'theories/Core/OpsFacts.vo'])
        if rc0 != 0:
            raise build.BuildError('Lang/Eval.vo does not build:\n' + out0[-1500:])
        rc, out = build.sh(['timeout', '600', 'coqc', '-Q', os.path.join(coq, 'theories'), 'Rsbdd', '-o',
                            os.path.join(gdir, 'SrcEval_%s.vo' % ctx.pid), gen], cwd=gdir)
        if rc != 0 or out.count('Closed under the global context') != len(names):
            status, detail = 'obligation-failed', out[-1500:]
    except Shape as e:
        status, detail = 'shape-not-recognised', str(e)
    except build.BuildError:
        raise
    except Exception as e:                       # whatever the source looks like, the translator must not take the check down
        status, detail = 'shape-not-recognised', 'the translator could not read the source: %s: %s' % (type(e).__name__, e)
    info['status'] = status
    if detail:
        info['detail'] = detail[-800:]
    if status != 'shape-not-recognised':
        for t in (names or ['src_replace_var_ok', 'src_eval_ok']):
            ctx.obligations.append(('generated:' + t, 'closed' if status == 'proved' else 'failed'))
    ctx.trusted.append('translator lib/vlib/srceval.py (replace_var and eval_recursive of src/parser.rs -> Gallina functions over the syntax trees, in the option monad with fuel for fp; status this run: %s)' % status)
    return status, detail, info
