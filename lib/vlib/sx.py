"""s-expressions (the canonical syntax shared by harness and driver)"""


def parse(s):
    pos = 0
    n = len(s)

    def skip():
        nonlocal pos
        while pos < n and s[pos] == ' ':
            pos += 1

    def one():
        nonlocal pos
        skip()
        if pos >= n:
            raise ValueError('eof')
        if s[pos] == '(':
            pos += 1
            items = []
            while True:
                skip()
                if pos >= n:
                    raise ValueError('unclosed')
                if s[pos] == ')':
                    pos += 1
                    return items
                items.append(one())
        if s[pos] == ')':
            raise ValueError('unexpected )')
        st = pos
        while pos < n and s[pos] not in ' ()':
            pos += 1
        return s[st:pos]

    r = one()
    skip()
    if pos != n:
        raise ValueError('trailing')
    return r


def show(x):
    if isinstance(x, str):
        return x
    return '(' + ' '.join(show(y) for y in x) + ')'


def size(x):
    if isinstance(x, str):
        return 1
    return 1 + sum(size(y) for y in x)
