"""Running the correspondence suites of a property and turning differences into verdicts."""
import os, json, subprocess, time
from . import build, config, coqside, sx, report

MAX_KEEP_PER_OP = 20     # differences kept for analysis per (operation, verdict class); all are counted
MAX_ANALYSE = 12        # analysed per (operation, verdict class)


def pipeline(ctx, harness_cmd, drv, stdin_data=None):
    """harness | driver ; returns (summary dict, mismatch list, harness rc)"""
    env = dict(os.environ)
    env.update(RUST_BACKTRACE='0')
    import tempfile
    os.makedirs(os.path.join(ctx.build, 'tmp'), exist_ok=True)
    fd, lastfile = tempfile.mkstemp(prefix='last-', dir=os.path.join(ctx.build, 'tmp'))
    os.close(fd)
    env['VERIF_LASTFILE'] = lastfile
    limit = '14000' if ctx.tier == 'thorough' else '1500'
    harness_cmd = ['timeout', '-k', '5', limit] + list(harness_cmd)
    p1 = subprocess.Popen(harness_cmd, stdin=subprocess.PIPE if stdin_data is not None else subprocess.DEVNULL,
                          stdout=subprocess.PIPE, stderr=subprocess.DEVNULL, env=env)
    p2 = subprocess.Popen([drv], stdin=p1.stdout, stdout=subprocess.PIPE)
    p1.stdout.close()
    if stdin_data is not None:
        try:
            p1.stdin.write(stdin_data.encode())
            p1.stdin.close()
        except BrokenPipeError:
            pass
    mism, total, summary = [], 0, None
    per_op = {}
    for raw in p2.stdout:
        line = raw.decode('utf-8', 'replace').rstrip('\n')
        if line.startswith('MISMATCH\t'):
            total += 1
            f = line.split('\t')
            if len(f) >= 7:
                # keep a bounded number per operation, so that a flood of one kind does not hide the others
                key = f[2] + ':' + (f[6].split() or ['?'])[0]
                k = per_op.get(key, 0)
                if k < MAX_KEEP_PER_OP:
                    per_op[key] = k + 1
                    mism.append(dict(op=f[2], args=f[3], real=f[4], model=f[5], verdict=f[6]))
        elif line.startswith('SUMMARY\t'):
            summary = json.loads(line.split('\t', 1)[1])
    p2.wait()
    p1.wait()
    if summary is None:
        summary = dict(cases=0, mismatches=total, distinct_nontrivial=0, samples=[])
    rc = p1.returncode
    # the harness process itself died (stack overflow, failed allocation: these do not unwind): the case it had announced
    # is a concrete input on which the implementation does not answer
    try:
        last = open(lastfile).read()
    except OSError:
        last = ''
    try:
        os.remove(lastfile)
    except OSError:
        pass
    if rc not in (0, None) and rc != 124 and '\t' in last:
        op, args = last.split('\t', 1)
        mism.append(dict(op=op, args=args, real='(panic)', model='?', verdict='panic (the process died with status %s on this case)' % rc))
        total += 1
        rc = 0
    summary['mismatches'] = total
    return summary, mism, rc


def model_print(ctx, drv, cases):
    """model results for (op,args) pairs"""
    data = ''.join('%s\t%s\n' % (o, a) for o, a in cases)
    p = subprocess.run([drv, '--print'], input=data.encode(), stdout=subprocess.PIPE)
    out = []
    for line in p.stdout.decode('utf-8', 'replace').split('\n'):
        f = line.split('\t')
        if len(f) >= 3:
            out.append(f[2])
    return out


def real_run(ctx, hbin, cases, extra=()):
    data = ''.join('%s\t%s\n' % (o, a) for o, a in cases)
    p = subprocess.run([hbin, 'replay'] + list(extra), input=data.encode(), stdout=subprocess.PIPE,
                       stderr=subprocess.DEVNULL, env=dict(os.environ, RUST_BACKTRACE='0'))
    out = []
    for line in p.stdout.decode('utf-8', 'replace').split('\n'):
        f = line.split('\t')
        if len(f) >= 3:
            out.append(f[2])
    return out


def compare_cases(ctx, hbin, drv, cases, extra=()):
    """re-run (op,args) pairs on both sides through the comparator; returns mismatch dicts"""
    data = ''.join('%s\t%s\n' % (o, a) for o, a in cases)
    summary, mism, _ = pipeline(ctx, [hbin, 'replay'] + list(extra), drv, stdin_data=data)
    return summary, mism


# ---------------------------------------------------------------------------------------------
# localisation of a differing operation program (suite S-bdd): the innermost sub-program whose
# operands agree on both sides but whose own result differs, with the operands replaced by literals

def has_x(e):
    if isinstance(e, str):
        return e == 'X'
    return any(has_x(y) for y in e)


def subterms(e, acc):
    """post-order, closed sub-programs only (the body of an fp is not evaluable on its own)"""
    if isinstance(e, str) or not e or not isinstance(e[0], str):
        return
    h = e[0]
    if h in ('tt', 'N', 'R', 'var', 'const'):
        return
    if h in ('aln', 'amn', 'exn'):
        kids = list(e[1])
    elif h in ('cleq', 'clt', 'cgeq', 'cgt', 'ceq'):
        kids = list(e[1]) + list(e[2])
    elif h in ('ex', 'all', 'ex1', 'retain'):
        kids = [e[2]]
    elif h == 'fp':
        kids = [e[1]]
    elif h == 'mk':
        kids = [e[1], e[3]]
    else:
        kids = list(e[1:])
    for k in kids:
        if not has_x(k):
            subterms(k, acc)
    if not has_x(e):
        acc.append(e)


def localise_run(ctx, hbin, drv, args_text):
    try:
        e = sx.parse(args_text)
    except ValueError:
        return args_text
    if isinstance(e, list) and e and e[0] == 'infer':
        return args_text
    acc = []
    subterms(e, acc)
    if len(acc) <= 1:
        return args_text
    texts = []
    for t in acc:
        s = sx.show(t)
        if s not in texts:
            texts.append(s)
    cases = [('run', t) for t in texts]
    real = real_run(ctx, hbin, cases)
    model = model_print(ctx, drv, cases)
    if len(real) != len(cases) or len(model) != len(cases):
        return args_text
    val = {}
    first = None
    for t, r, m in zip(texts, real, model):
        if r == m and r.startswith('(ok '):
            val[t] = r[4:-1]
        elif first is None:
            first = t
    if first is None:
        return args_text

    def subst(x, top):
        if isinstance(x, str):
            return x
        s = sx.show(x)
        if not top and s in val:
            return sx.parse(val[s])
        return [subst(y, False) for y in x]

    small = sx.show(subst(sx.parse(first), True))
    # keep the smaller form only if it still differs
    _, mm = compare_cases(ctx, hbin, drv, [('run', small)])
    if mm:
        return small
    _, mm = compare_cases(ctx, hbin, drv, [('run', first)])
    return first if mm else args_text


# ---------------------------------------------------------------------------------------------

def is_failure(pid, verdict):
    toks = config.FAIL.get(pid, ())
    v = verdict.split()
    return any(t in v for t in toks)


def analyse(ctx, spec, hbin, drv, mism, extra=()):
    """search the differing cases for a concrete input on which the property fails; report once"""
    suite = spec['suite']
    cands = []
    seen_per_op = {}
    selected = []
    for m in mism:
        key = m['op'] + ':' + (m['verdict'].split() or ['?'])[0]
        k = seen_per_op.get(key, 0)
        if k < MAX_ANALYSE:
            seen_per_op[key] = k + 1
            selected.append(m)
    for m in selected:
        case = dict(m)
        if suite == 'bdd' and m['op'] == 'run':
            small = localise_run(ctx, hbin, drv, m['args'])
            if small != m['args']:
                _, mm = compare_cases(ctx, hbin, drv, [('run', small)])
                if mm:
                    case = dict(mm[0])
                    case['original'] = m['args']
        cands.append(case)
    failing = [c for c in cands if is_failure(ctx.pid, c['verdict'])]
    pool = failing if failing else cands
    pool.sort(key=lambda c: len(c['args']))
    c = pool[0]
    rec = {
        'kind': 'correspondence',
        'suite': suite,
        'key': '%s/%s:%s' % (suite, c['op'], c['args']),
        'case': {'op': c['op'], 'args': c['args']},
        'extra': list(extra),
        'real': c['real'],
        'model': c['model'],
        'verdict': c['verdict'],
        'original_case': c.get('original'),
        'differing_cases_total': len(mism),
        'readable': report.pretty_sample('%s %s => %s' % (c['op'], c['args'], c['real'])),
    }
    if failing:
        rec['failed_clause'] = c['verdict']
        rec['broken_correspondence'] = None
        ctx.violation(rec, no_input=False)
    else:
        rec['failed_clause'] = None
        rec['broken_correspondence'] = 'S-%s/%s: implementation and model differ on %d case(s); the property\'s checker accepts the implementation\'s output on every analysed one (verdict %s)' % (
            suite, ','.join(spec.get('parts', [])), len(mism), c['verdict'])
        ctx.violation(rec, no_input=True)


def run_corpus(ctx, spec, hbin, drv, extra=()):
    path = os.path.join(ctx.root, 'corpus', spec['suite'] + '.corpus')
    if not os.path.exists(path):
        return None, []
    ops = spec.get('corpus_ops')
    cases = []
    for line in open(path):
        line = line.rstrip('\n')
        if not line or line.startswith('#'):
            continue
        f = line.split('\t')
        if len(f) >= 2 and (ops is None or f[0] in ops):
            cases.append((f[0], f[1]))
    if not cases:
        return None, []
    return compare_cases(ctx, hbin, drv, cases, extra)


def cross_sample(ctx, spec, hbin, drv, extra):
    """the vm_compute cross-run on a deterministic sample of this suite's cases"""
    from . import cross
    k = 2000 if ctx.tier == 'thorough' else 240
    cmd = [hbin, spec['suite'], '--tier', 'quick', '--seed', str(ctx.seed)]
    if spec.get('parts'):
        cmd += ['--parts', ','.join(spec['parts'])]
    cmd += list(extra)
    p = subprocess.Popen(['timeout', '600'] + cmd, stdout=subprocess.PIPE, stderr=subprocess.DEVNULL)
    lines = []
    want = set()
    # a spread over the stream: the first 40 lines, then every line whose index is a multiple of a stride
    total_guess = 4000 * k
    for i, raw in enumerate(p.stdout):
        if raw.startswith(b'#'):
            continue
        if i < 40 or i % 997 == 0:
            f = raw.decode('utf-8', 'replace').rstrip('\n').split('\t')
            if len(f) >= 2 and f[0] in ('run', 'eval', 'set') and len(f[1]) < 1500:
                lines.append((f[0], f[1]))
        if len(lines) >= k:
            break
    p.kill()
    p.wait()
    n, bad = cross.cross_run(ctx, drv, lines)
    return n, bad


def merge_pipelines(results):
    """sum of the per-part summaries; the first non-zero harness status"""
    summary = dict(cases=0, mismatches=0, distinct_nontrivial=0, samples=[], ops={}, dist={})
    mism, rc = [], 0
    for sm, mm, r in results:
        for k in ('cases', 'mismatches', 'distinct_nontrivial'):
            summary[k] += sm.get(k, 0)
        for k in ('ops', 'dist'):
            for a, b in (sm.get(k) or {}).items():
                summary[k][a] = summary[k].get(a, 0) + b
        summary['samples'] += (sm.get('samples') or [])[:3]
        mism += mm
        if r != 0 and rc == 0:
            rc = r
    if not summary['dist']:
        del summary['dist']
    return summary, mism, rc


def run_suite(ctx, spec):
    t0 = time.time()
    hbin = build.harness(ctx, spec.get('profile', 'release'))
    drv = build.model_driver(ctx)
    extra = []
    if spec.get('bins'):
        extra += ['--bindir', build.workspace_bins(ctx, spec['bins'])]
    csum, cmm = run_corpus(ctx, spec, hbin, drv, extra)
    base = [hbin, spec['suite'], '--tier', ctx.tier, '--seed', str(ctx.seed)]
    parts = spec.get('parts') or []
    if len(parts) > 1 and spec['suite'] in ('text', 'bdd', 'gen'):
        # the parts of a suite are independent (each derives its own generator state from the seed): one pipeline per part
        from concurrent.futures import ThreadPoolExecutor
        with ThreadPoolExecutor(max_workers=min(len(parts), 8)) as ex:
            results = list(ex.map(lambda pt: pipeline(ctx, base + ['--parts', pt] + extra, drv), parts))
        summary, mism, rc = merge_pipelines(results)
    else:
        cmd = list(base)
        if parts:
            cmd += ['--parts', ','.join(parts)]
        cmd += extra
        summary, mism, rc = pipeline(ctx, cmd, drv)
    stat = dict(suite='S-%s/%s' % (spec['suite'], ','.join(spec.get('parts', []))), cases=summary.get('cases', 0),
                distinct_nontrivial=summary.get('distinct_nontrivial', 0), mismatches=summary.get('mismatches', 0),
                ops=summary.get('ops', {}), samples=summary.get('samples', []), rule=spec.get('rule', ''),
                exhaustive=bool(spec.get('exhaustive')), profile=spec.get('profile', 'release'),
                corpus_cases=(csum or {}).get('cases', 0), wall_s=round(time.time() - t0, 2))
    if summary.get('dist'):
        stat['distribution'] = summary['dist']
    if spec['suite'] in ('bdd', 'text', 'set'):
        n, bad = cross_sample(ctx, spec, hbin, drv, extra)
        stat['vm_compute_cross_run'] = {'cases': n, 'disagreements': len(bad)}
        if bad:
            ctx.violation({'kind': 'correspondence', 'suite': spec['suite'], 'key': 'cross:%s' % spec['suite'],
                           'broken_correspondence': 'the extracted model (OCaml driver) and the same definitions evaluated by vm_compute inside Coq disagree: the model-execution route itself is broken',
                           'detail': [list(b) for b in bad[:5]]}, no_input=True)
    ctx.suite_stats.append(stat)
    if rc != 0:
        ctx.violation({'kind': 'correspondence', 'suite': spec['suite'], 'key': 'harness-exit:%s' % spec['suite'],
                       'broken_correspondence': 'the harness for suite %s exited with status %s' % (spec['suite'], rc)},
                      no_input=True)
        return
    if summary.get('cases', 0) == 0:
        ctx.violation({'kind': 'correspondence', 'suite': spec['suite'], 'key': 'empty:%s' % spec['suite'],
                       'broken_correspondence': 'suite %s produced no cases' % spec['suite']}, no_input=True)
        return
    allmm = (cmm or []) + mism
    if allmm:
        ctx.log('%d differing case(s) in %s' % (len(cmm or []) + summary.get('mismatches', 0), stat['suite']))
        analyse(ctx, spec, hbin, drv, allmm, extra)


STATE_CONE = {
    # source files whose state can influence what the property speaks about
    'C19': ('set.rs', 'bdd.rs', 'symbols.rs'),
    'C13': ('set.rs', 'bdd.rs', 'parser.rs', 'symbols.rs'),
    'default': ('bdd.rs', 'parser.rs', 'symbols.rs'),
}


def _is_plain_counter(name, decl, lines):
    """an integer Cell / atomic that is only ever bumped and read out by an accessor: every line that mentions it is its
    declaration, an increment, or a bare read (no comparison, no branch, no arithmetic other than + 1 on that line)"""
    import re
    # a Cell (not a RefCell) can only hold Copy data: numbers, flags, small structs of them - never a diagram or a table
    if re.search(r'\b(?:RefCell|Mutex|RwLock)\b', decl) or not re.search(r'\bCell\s*<|\bAtomic\w+', decl):
        return False
    for code in lines:
        if not re.search(r'\b%s\b' % re.escape(name), code):
            continue
        c = re.sub(r'->|=>|<[A-Za-z0-9_:,& \'<>]*>|::<', ' ', code)          # arrows and generic arguments are not comparisons
        if re.search(r'\bif\b|\bmatch\b|\bwhile\b|[<>]|==|!=|%|\bmin\b|\bmax\b|\bcmp\b', c):
            return False
    return True


def lint_state(ctx):
    """No persistent mutable state besides the unique table (and the two documented RefCells of BDDSet / ParsedFormula) in
    the files the property depends on: a memo table or a cache keyed by hash can make results depend on history in ways no
    finite run is guaranteed to reach (only after 65536 calls, only on a hash collision).  The tree model has no such state.
    Not counted: integer counters that are only bumped and read out (statistics), and lazily initialised immutable tables."""
    import re, glob
    problems, benign = [], []
    allowed_state = {('bdd.rs', 'nodes'), ('set.rs', 'bdd'), ('parser.rs', 'definitions')}
    cone = STATE_CONE.get(ctx.pid, STATE_CONE['default'])
    for path in sorted(glob.glob(os.path.join(ctx.repo, 'src', '*.rs'))):
        base = os.path.basename(path)
        if base not in cone:
            continue
        rel = os.path.relpath(path, ctx.repo)
        lines = [l.split('//')[0] for l in open(path)]
        in_cfg_verif = 0
        in_lazy = 0
        for ln, code in enumerate(lines, 1):
            if 'cfg(rsbdd_verif)' in code:
                in_cfg_verif = 40       # the hook module is compiled only for verification
            elif in_cfg_verif:
                in_cfg_verif -= 1
            if in_cfg_verif:
                continue
            mutable_ty = re.search(r'\b(?:RefCell|Cell|Mutex|RwLock|Atomic\w+)\b', code)
            # struct fields
            m = re.match(r'\s*(?:pub(?:\([a-z]+\))?\s+)?(\w+)\s*:\s*((?:[A-Za-z_][\w:]*\s*<\s*)*(?:(?:RefCell|Cell|Mutex|RwLock)\s*<|Atomic(?:Usize|U64|U32|U16|U8|Bool|Isize|I64|I32)\b).*)', code)
            if m and '(' not in code.split(':')[0] and 'fn ' not in code and not re.match(r'\s*(?:pub\s+)?static\b', code):
                if (base, m.group(1)) not in allowed_state:
                    if _is_plain_counter(m.group(1), m.group(2), lines):
                        benign.append('%s:%d: counter `%s` (only incremented and read out)' % (rel, ln, m.group(1)))
                    else:
                        problems.append('%s:%d: interior-mutable state `%s` besides the unique table' % (rel, ln, m.group(1)))
            # globals: static mut, thread_local!, lazy_static! / OnceLock holding something mutable
            if re.search(r'\bstatic\s+mut\b', code):
                problems.append('%s:%d: static mut' % (rel, ln))
            if re.search(r'thread_local!|lazy_static!', code):
                in_lazy = 12
            sm = re.match(r'\s*(?:pub(?:\([a-z]+\))?\s+)?static\s+(?:ref\s+)?(\w+)\s*:\s*(.*)', code)
            if sm:
                name, decl = sm.group(1), sm.group(2)
                if re.search(r'\b(?:RefCell|Cell|Mutex|RwLock|Atomic\w+)\b', decl):
                    if _is_plain_counter(name, decl, lines):
                        benign.append('%s:%d: global counter `%s` (only incremented and read out)' % (rel, ln, name))
                    else:
                        problems.append('%s:%d: global mutable state `%s`' % (rel, ln, name))
                else:
                    benign.append('%s:%d: immutable global `%s`' % (rel, ln, name))
            if in_lazy:
                in_lazy -= 1
    ctx.notes.append('state lint (no interior-mutable state besides the unique table in %s): %d finding(s), %d benign (%s)'
                     % (', '.join(cone), len(problems), len(benign), '; '.join(benign[:6])))
    if problems:
        ctx.violation({'kind': 'lint', 'key': 'lint:state', 'broken_correspondence':
                       'state lint: the implementation keeps mutable state that the model does not have (results may depend on history)',
                       'detail': problems[:20]}, no_input=True)


def lint_c13(ctx):
    """C13 (b): every public operation is a client of the unique-table ADT.  Syntactic check on /repo/src:
    the field `nodes` is touched only by size / mk_choice / mk_const / find / new (and the read-only
    `duplicates`), and Choice nodes are allocated only in mk_choice (and in the From conversion)."""
    import re, glob
    allowed_nodes = {'size', 'mk_choice', 'mk_const', 'find', 'new', 'default'}
    allowed_alloc = {'mk_choice', 'from'}
    problems = []
    for path in sorted(glob.glob(os.path.join(ctx.repo, 'src', '*.rs'))):
        fn = None
        for ln, line in enumerate(open(path), 1):
            code = line.split('//')[0]
            m = re.search(r'\bfn\s+(\w+)', code)
            if m:
                fn = m.group(1)
            if not path.endswith('parser_io.rs') and re.search(r'\.nodes\b', code):
                if not (path.endswith('bdd.rs') and fn in allowed_nodes):
                    problems.append('%s:%d: `nodes` touched in fn %s' % (os.path.relpath(path, ctx.repo), ln, fn))
            if re.search(r'Rc::new\(\s*(BDD|Self)(::<[^>]*>)?::Choice|(BDD|Self)(::<[^>]*>)?::Choice\(\s*Rc::new', code) or \
               re.search(r'=\s*(BDD|Self)::Choice\(', code):
                if not (path.endswith('bdd.rs') and fn in allowed_alloc):
                    problems.append('%s:%d: a Choice node is allocated in fn %s' % (os.path.relpath(path, ctx.repo), ln, fn))
    ctx.notes.append('C13(b) source lint: %d finding(s)' % len(problems))
    if problems:
        ctx.violation({'kind': 'lint', 'key': 'lint:c13', 'broken_correspondence':
                       'C13(b) source lint: an operation bypasses the unique-table ADT (the theorem C13_histories covers mk_choice/mk_const/find call sequences only)',
                       'detail': problems[:20]}, no_input=True)


def lint_c14(ctx):
    """C14: the exported identity of a test node must be its allocation address.  C14_nodes_once speaks about structures;
    C13 makes structure and address coincide; any other id (a hash, a counter per visit) can declare one node twice or
    merge two nodes, on inputs no finite run is guaranteed to reach (hash collisions)."""
    import re
    path = os.path.join(ctx.repo, 'src', 'bdd_io.rs')
    src = open(path).read()
    m = re.search(r'fn node_id\b.*?\n    }\n', src, re.S)
    body = '\n'.join(l.split('//')[0] for l in (m.group(0) if m else '').split('\n'))
    ok = bool(m) and ('{:p}' in body or 'as_ptr' in body or 'into_raw' in body) and 'get_hash' not in body
    ctx.notes.append('C14 source lint (node ids are allocation addresses): %s' % ('ok' if ok else 'FAILED'))
    if not ok:
        ctx.violation({'kind': 'lint', 'key': 'lint:c14', 'broken_correspondence':
                       'C14 source lint: BDDGraph::node_id no longer derives a test node\'s id from its allocation address; the model identifies nodes with structures, which C13 ties to addresses only',
                       'detail': body[:1500]}, no_input=True)


def run_property(ctx):
    spec = config.PROPS[ctx.pid]
    try:
        coqside.check_obligations(ctx)
        ctx.trusted += [
            'extraction: ExtrOcamlBasic only (bool, option, unit, list, prod, sumbool, sumor), no Extract Constant; ocamlfind ocamlopt 4.13.1',
            'OCaml comparator ocaml/{base,suites,driver}.ml (s-expression reader/printer, no semantics)',
            'Rust harness /verif/harness (generators, serialisers, catch_unwind runner) and this Python driver',
            'correspondence between hand-written model and implementation is established by testing on the inputs listed under suites[] only',
        ]
        ctx.assumptions += [
            'the Gallina model in coq/theories mirrors /repo/src as validated by the correspondence suites of this run (exhaustive on the finite spaces named in suites[].rule, sampled beyond)',
            "Rust's derive(PartialEq, Eq, Hash) on BDD is structural; that a NamedSymbol is compared, ordered and hashed by its id alone is exercised by S-text/sym in the properties that run it",
        ] + spec.get('assumptions', [])
        if spec.get('lint') == 'c13':
            lint_c13(ctx)
        if spec.get('state_lint'):
            lint_state(ctx)
            if spec.get('lint') != 'c13':
                lint_c13(ctx)
        if spec.get('lint') == 'c14':
            lint_c14(ctx)
        if spec.get('srctab'):
            from . import srctab
            srctab.run(ctx)
        loops = None
        if spec.get('srcloops'):
            from . import srcloops
            loops = srcloops.run(ctx, spec['srcloops'])
        funs = None
        if spec.get('srcfun'):
            from . import srcfun
            funs = srcfun.run(ctx)
        free = None
        if spec.get('srcfree'):
            from . import srcfree
            free = srcfree.run(ctx)
        evl = None
        if spec.get('srceval'):
            from . import srceval
            evl = srceval.run(ctx)
        sset = None
        if spec.get('srcset'):
            from . import srcset
            sset = srcset.run(ctx)
        for s in spec['suites']:
            run_suite(ctx, s)
        if sset:
            status, detail, info = sset
            ctx.suite_stats.append(dict(suite='S-srcset', cases=0, distinct_nontrivial=0, mismatches=0, ops={}, samples=[],
                                        rule='no inputs: categorize, insert, union, intersect and complement of src/set.rs, translated, are proved equal to the model operations for all diagrams, widths and elements', exhaustive=False, profile='-', source_function=info))
            if status == 'obligation-failed' and not any(not no_input for _, no_input in ctx.violations):
                ctx.violation({'kind': 'proof-obligation', 'key': 'srcset:' + ctx.pid,
                               'broken': 'src_categorize_ok / src_insert_ok / src_union_ok / src_intersect_ok / src_complement_ok: an operation of src/set.rs as regenerated from the source is no longer the model operation',
                               'detail': detail}, no_input=True)
            elif status == 'shape-not-recognised':
                ctx.notes.append('source functions of src/set.rs: the translator does not recognise their shape any more (%s); the obligations were not re-derived in this run' % detail)
        if evl:
            status, detail, info = evl
            ctx.suite_stats.append(dict(suite='S-srceval', cases=0, distinct_nontrivial=0, mismatches=0, ops={}, samples=[],
                                        rule='no inputs: replace_var and eval_recursive of src/parser.rs, translated, are proved equal to the model functions for all formulas, variables and fuels', exhaustive=False, profile='-', source_function=info))
            if status == 'obligation-failed' and not any(not no_input for _, no_input in ctx.violations):
                ctx.violation({'kind': 'proof-obligation', 'key': 'srceval:' + ctx.pid,
                               'broken': 'src_replace_var_ok / src_eval_ok: replace_var or eval_recursive as regenerated from src/parser.rs is no longer the model function',
                               'detail': detail}, no_input=True)
            elif status == 'shape-not-recognised':
                ctx.notes.append('source functions replace_var / eval_recursive: the translator does not recognise their shape any more (%s); the obligations were not re-derived in this run' % detail)
        if free:
            status, detail, info = free
            ctx.suite_stats.append(dict(suite='S-srcfree', cases=0, distinct_nontrivial=0, mismatches=0, ops={}, samples=[],
                                        rule='no inputs: var_is_free of src/parser.rs, translated, is proved equal to the model function for all formulas and variables', exhaustive=False, profile='-', source_function=info))
            if status == 'obligation-failed' and not any(not no_input for _, no_input in ctx.violations):
                ctx.violation({'kind': 'proof-obligation', 'key': 'srcfree:' + ctx.pid,
                               'broken': 'src_var_is_free_ok: var_is_free as regenerated from src/parser.rs is no longer the model function',
                               'detail': detail}, no_input=True)
            elif status == 'shape-not-recognised':
                ctx.notes.append('source function var_is_free: the translator does not recognise its shape any more (%s); the obligation was not re-derived in this run' % detail)
        if funs:
            status, detail, info = funs
            ctx.suite_stats.append(dict(suite='S-srcfun', cases=0, distinct_nontrivial=0, mismatches=0, ops={}, samples=[],
                                        rule='no inputs: the connectives of src/bdd.rs, translated, are proved equal to the model functions for all operands', exhaustive=False, profile='-', source_functions=info))
            if status == 'obligation-failed' and not any(not no_input for _, no_input in ctx.violations):
                ctx.violation({'kind': 'proof-obligation', 'key': 'srcfun:' + ctx.pid,
                               'broken': 'an obligation about the connectives regenerated from src/bdd.rs no longer checks (src_bnot_ok / src_band_ok / src_bor_ok / *_guards_total / src_<op>_ok)',
                               'detail': detail}, no_input=True)
            elif status == 'shape-not-recognised':
                ctx.notes.append('source functions: the translator does not recognise the shape of the connectives any more (%s); the obligations were not re-derived in this run' % detail)
        if loops:
            status, detail, info = loops
            ctx.suite_stats.append(dict(suite='S-srcloops', cases=0, distinct_nontrivial=0, mismatches=0, ops={}, samples=[],
                                        rule='no inputs: the loop nests of the source, translated, are proved equal to the model for all n', exhaustive=False, profile='-', source_loops=info))
            if status == 'obligation-failed' and not any(not no_input for _, no_input in ctx.violations):
                ctx.violation({'kind': 'proof-obligation', 'key': 'srcloops:' + ctx.pid,
                               'broken': 'an obligation about the loop nests regenerated from %s no longer checks (no_underflow_* / fam_* / source_loops / source_queens, Gen/SrcLoops.v)' % info.get('source'),
                               'detail': detail}, no_input=True)
            elif status == 'shape-not-recognised':
                ctx.notes.append('source loops: the translator does not recognise the shape of the generator any more (%s); the obligations were not re-derived in this run' % detail)
    except build.BuildError as e:
        ctx.log('cannot run: ' + str(e))
        ctx.notes.append('build error: ' + str(e)[:2000])
        ctx.write_evidence()
        return 2
    ctx.write_evidence()
    evals = sum(s.get('cases', 0) for s in ctx.suite_stats)
    if ctx.violations:
        return 1
    print('OK property=%s tier=%s theorems=%d cases=%d known=%d wall=%.1fs' % (
        ctx.pid, ctx.tier, len(ctx.obligations), evals, len(ctx.known_hits), time.time() - ctx.t0), flush=True)
    return 0


def replay(ctx, path):
    rec = json.load(open(path))
    if rec.get('kind') != 'correspondence' or 'case' not in rec:
        print('replay: this record names a broken obligation, not an input:', rec.get('broken') or rec.get('broken_correspondence'))
        print(json.dumps(rec.get('detail'), indent=1)[:3000])
        return 1
    suite = rec.get('suite', 'bdd')
    spec = None
    for s in config.PROPS[ctx.pid]['suites']:
        if s['suite'] == suite:
            spec = s
    spec = spec or dict(suite=suite)
    try:
        hbin = build.harness(ctx, spec.get('profile', 'release'))
        drv = build.model_driver(ctx)
        extra = []
        if spec.get('bins'):
            extra += ['--bindir', build.workspace_bins(ctx, spec['bins'])]
    except build.BuildError as e:
        print('cannot run:', e)
        return 2
    c = rec['case']
    _, mm = compare_cases(ctx, hbin, drv, [(c['op'], c['args'])], extra)
    if not mm:
        print('replay: implementation and model agree on this case now')
        return 0
    m = mm[0]
    print('replay: case    %s %s' % (c['op'], c['args']))
    print('replay: real    %s' % m['real'])
    print('replay: model   %s' % m['model'])
    print('replay: verdict %s' % m['verdict'])
    fails = is_failure(ctx.pid, m['verdict'])
    print('VIOLATION property=%s replay=%s%s' % (ctx.pid, path, '' if fails else ' no-failing-input-found'))
    return 1
