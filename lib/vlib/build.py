"""Building the three executables a check needs: Coq objects, the extracted model + comparator,
and the harness / workspace binaries compiled against /repo's current working tree."""
import os, subprocess, hashlib, fcntl, glob, time

GUARD = 'rsbdd_verif'


class BuildError(Exception):
    pass


class Lock:
    def __init__(self, build, name):
        self.path = os.path.join(build, '.lock.' + name)

    def __enter__(self):
        self.f = open(self.path, 'w')
        fcntl.flock(self.f, fcntl.LOCK_EX)
        return self

    def __exit__(self, *a):
        fcntl.flock(self.f, fcntl.LOCK_UN)
        self.f.close()


def sh(cmd, cwd=None, env=None, timeout=3600):
    e = dict(os.environ)
    if env:
        e.update(env)
    p = subprocess.run(cmd, cwd=cwd, env=e, shell=isinstance(cmd, str), stdout=subprocess.PIPE,
                       stderr=subprocess.STDOUT, timeout=timeout)
    return p.returncode, p.stdout.decode('utf-8', 'replace')


def tree_hash(paths):
    h = hashlib.sha1()
    for p in sorted(paths):
        h.update(p.encode())
        with open(p, 'rb') as f:
            h.update(f.read())
    return h.hexdigest()


def coq_make(ctx, targets):
    """full .vo build of the given targets through coq_makefile's Makefile (never -vos)"""
    coq = os.path.join(ctx.root, 'coq')
    with Lock(ctx.build, 'coq'):
        mk = os.path.join(coq, 'Makefile')
        if not os.path.exists(mk) or os.path.getmtime(mk) < os.path.getmtime(os.path.join(coq, '_CoqProject')):
            rc, out = sh(['coq_makefile', '-f', '_CoqProject', '-o', 'Makefile'], cwd=coq)
            if rc != 0:
                raise BuildError('coq_makefile failed:\n' + out)
        rc, out = sh(['timeout', '3000', 'make', '-j16'] + targets, cwd=coq)
    return rc, out


def model_driver(ctx):
    """extract the model and build the OCaml comparator when any source changed"""
    coq = os.path.join(ctx.root, 'coq')
    srcs = glob.glob(os.path.join(coq, 'theories', '*', '*.v')) + glob.glob(os.path.join(coq, 'extract', '*.v')) \
        + glob.glob(os.path.join(ctx.root, 'ocaml', '*.ml')) + [os.path.join(ctx.root, 'ocaml', 'build.sh')]
    srcs = [s for s in srcs if '/Props/' not in s]
    with Lock(ctx.build, 'model'):
        h = tree_hash(srcs)
        stamp = os.path.join(ctx.build, 'ocaml', 'stamp')
        drv = os.path.join(ctx.build, 'ocaml', 'driver')
        if os.path.exists(stamp) and os.path.exists(drv) and open(stamp).read() == h:
            return drv
        import re
        ex = open(os.path.join(coq, 'extract', 'Extract.v')).read()
        mods = []
        for m in re.finditer(r'^From Rsbdd Require (?:Import|Export) (.*)\.\s*$', ex, re.M):
            mods += m.group(1).split()
        rc, out = coq_make(ctx, ['theories/%s.vo' % x.replace('.', '/') for x in mods])
        if rc != 0:
            raise BuildError('the model does not compile:\n' + out[-3000:])
        rc, out = sh([os.path.join(ctx.root, 'ocaml', 'build.sh')], cwd=ctx.root)
        if rc != 0:
            raise BuildError('extraction / driver build failed:\n' + out[-3000:])
        with open(stamp, 'w') as f:
            f.write(h)
        return drv


def cargo_env(ctx):
    return {'CARGO_TARGET_DIR': ctx.target, 'CARGO_NET_OFFLINE': 'true', 'RUSTFLAGS': '--cfg ' + GUARD,
            'RUST_BACKTRACE': '0'}


def harness(ctx, profile='release'):
    """(re)build the harness against /repo's working tree; returns the binary path"""
    with Lock(ctx.build, 'cargo'):
        cmd = ['cargo', 'build', '--offline', '-q']
        if profile == 'release':
            cmd.append('--release')
        env = cargo_env(ctx)
        rc, out = sh(cmd, cwd=os.path.join(ctx.root, 'harness'), env=env)
        if rc != 0:
            raise BuildError('harness / repository does not compile (%s):\n%s' % (profile, out[-4000:]))
    return os.path.join(ctx.target, profile if profile == 'release' else 'debug', 'rsbdd-corr')


def workspace_bins(ctx, profile='debug'):
    """build rsbdd and the four generators from /repo's working tree; returns the directory"""
    tdir = ctx.target + '-ws'
    with Lock(ctx.build, 'cargo-ws'):
        cmd = ['cargo', 'build', '--offline', '-q', '--workspace', '--bins']
        if profile == 'release':
            cmd.append('--release')
        env = cargo_env(ctx)
        env['CARGO_TARGET_DIR'] = tdir
        rc, out = sh(cmd, cwd=ctx.repo, env=env)
        if rc != 0:
            raise BuildError('repository workspace does not compile (%s):\n%s' % (profile, out[-4000:]))
    return os.path.join(tdir, profile if profile == 'release' else 'debug')
