"""The proof half of a check: rebuild the property's theorem file, list its theorems, ask Coq for the
assumptions of each, and scan the development for anything that would make a theorem hollow."""
import os, re, glob, subprocess
from . import build

FORBIDDEN = [r'\bAdmitted\b', r'\badmit\b', r'\bAxiom\b', r'\bAxioms\b', r'\bParameter\b', r'\bParameters\b',
             r'\bConjecture\b', r'\bUnset\s+Guard', r'\bbypass_check\b', r'type-in-type', r'impredicative-set',
             r'\bAdmit\s+Obligations\b', r'Unset\s+Positivity', r'Unset\s+Universe', r'\bgive_up\b']
# standard-library axioms that a theorem may depend on; none is needed at present
ALLOWED_AXIOMS = set()


def strip_comments(src):
    out, depth, i, n = [], 0, 0, len(src)
    in_str = False
    while i < n:
        c = src[i]
        if depth == 0 and c == '"':
            in_str = not in_str
            out.append(c); i += 1; continue
        if not in_str and src.startswith('(*', i):
            depth += 1; i += 2; continue
        if not in_str and depth > 0 and src.startswith('*)', i):
            depth -= 1; i += 2; continue
        if depth == 0:
            out.append(c)
        elif c == '\n':
            out.append('\n')
        i += 1
    return ''.join(out)


def scan_sources(ctx):
    """returns a list of 'file:line: token' for forbidden constructs"""
    bad = []
    files = glob.glob(os.path.join(ctx.root, 'coq', 'theories', '*', '*.v')) + \
        glob.glob(os.path.join(ctx.root, 'coq', 'extract', '*.v'))
    for f in sorted(files):
        src = strip_comments(open(f).read())
        depth = 0
        for ln, line in enumerate(src.split('\n'), 1):
            for pat in FORBIDDEN:
                if re.search(pat, line):
                    bad.append('%s:%d: %s' % (os.path.relpath(f, ctx.root), ln, pat))
            if re.match(r'\s*(Section|Module\s+Type)\s', line):
                depth += 1
            elif re.match(r'\s*End\s', line) and depth > 0:
                depth -= 1
            if depth == 0 and re.match(r'\s*(Variable|Variables|Hypothesis|Hypotheses|Context)\b', line):
                bad.append('%s:%d: Variable/Hypothesis outside a section' % (os.path.relpath(f, ctx.root), ln))
    proj = open(os.path.join(ctx.root, 'coq', '_CoqProject')).read()
    for pat in ('type-in-type', 'impredicative-set', '-noinit', 'bypass'):
        if pat in proj:
            bad.append('_CoqProject: ' + pat)
    return bad


def theorems_of(path):
    src = strip_comments(open(path).read())
    return re.findall(r'^\s*(?:Theorem|Corollary)\s+([A-Za-z0-9_\']+)', src, re.M)


def check_obligations(ctx):
    """returns True when every obligation of the property is discharged"""
    pid = ctx.pid
    coq = os.path.join(ctx.root, 'coq')
    vfile = os.path.join(coq, 'theories', 'Props', pid + '.v')
    ok = True
    rc, out = build.coq_make(ctx, ['theories/Props/%s.vo' % pid])
    thms = theorems_of(vfile)
    if rc != 0:
        m = re.search(r'File "([^"]+)", line (\d+).*?\n(Error:.*?)(?:\n\n|\Z)', out, re.S)
        what = ('%s line %s: %s' % (m.group(1), m.group(2), m.group(3)[:400])) if m else out[-800:]
        for t in thms:
            ctx.obligations.append((t, 'unchecked'))
        ctx.violation({'kind': 'proof-obligation', 'key': 'coq:' + pid, 'broken': 'theories/Props/%s.vo does not build' % pid,
                       'detail': what}, no_input=True)
        return False
    bad = scan_sources(ctx)
    if bad:
        for t in thms:
            ctx.obligations.append((t, 'tainted'))
        ctx.violation({'kind': 'proof-obligation', 'key': 'scan:' + pid, 'broken': 'forbidden construct in the development',
                       'detail': bad[:20]}, no_input=True)
        return False
    # assumptions of every theorem, from a generated file evaluated against the compiled objects
    pdir = os.path.join(ctx.build, 'props')
    os.makedirs(pdir, exist_ok=True)
    gen = os.path.join(pdir, pid + '_assumptions.v')
    with open(gen, 'w') as f:
        f.write('From Rsbdd Require Import Props.%s.\n' % pid)
        for t in thms:
            f.write('Goal True. idtac "@@ %s". exact I. Qed.\nPrint Assumptions %s.\n' % (t, t))
    rc, out = build.sh(['timeout', '600', 'coqc', '-Q', os.path.join(coq, 'theories'), 'Rsbdd', '-o',
                        os.path.join(pdir, pid + '_assumptions.vo'), gen], cwd=pdir)
    if rc != 0:
        ctx.violation({'kind': 'proof-obligation', 'key': 'assum:' + pid, 'broken': 'Print Assumptions run failed',
                       'detail': out[-800:]}, no_input=True)
        return False
    chunks = re.split(r'^@@ ', out, flags=re.M)[1:]
    axioms_used = set()
    for ch in chunks:
        name, _, rest = ch.partition('\n')
        name = name.strip()
        if 'Closed under the global context' in rest:
            ctx.obligations.append((name, 'closed'))
        else:
            axs = re.findall(r'^([A-Za-z0-9_.\']+)\s*:', rest, re.M)
            extra = [a for a in axs if a not in ALLOWED_AXIOMS]
            axioms_used.update(axs)
            if extra:
                ctx.obligations.append((name, 'axioms:' + ','.join(extra)))
                ok = False
            else:
                ctx.obligations.append((name, 'closed'))
    seen = set(t for t, _ in ctx.obligations)
    for t in thms:
        if t not in seen:
            ctx.obligations.append((t, 'missing'))
            ok = False
    if not thms:
        ok = False
    if not ok:
        ctx.violation({'kind': 'proof-obligation', 'key': 'assum:' + pid,
                       'broken': 'a theorem of Props/%s.v depends on an axiom outside the allow-list or is missing' % pid,
                       'detail': [o for o in ctx.obligations if o[1] != 'closed']}, no_input=True)
    ctx.trusted += ['Coq 8.16.1 kernel (coqc, full .vo build; no native_compute)',
                    'axioms: none (Print Assumptions: Closed under the global context for every theorem)'
                    if not axioms_used else 'axioms: ' + ', '.join(sorted(axioms_used))]
    if ctx.tier == 'thorough':
        rc, out = build.sh(['timeout', '1500', 'coqchk', '-silent', '-o', '-Q', os.path.join(coq, 'theories'), 'Rsbdd',
                            'Rsbdd.Props.' + pid], cwd=coq)
        tail = out.strip().split('\n')[-12:]
        ctx.notes.append('coqchk: rc=%d %s' % (rc, ' | '.join(tail)))
        if rc != 0:
            ctx.violation({'kind': 'proof-obligation', 'key': 'coqchk:' + pid, 'broken': 'coqchk rejects Props/%s.vo' % pid,
                           'detail': tail}, no_input=True)
            ok = False
        else:
            ctx.trusted.append('coqchk -o re-check passed')
    return ok
