"""Second route for running the model: a deterministic sample of the cases of a suite run is evaluated
by `coqc` with vm_compute (the same Gallina definitions, no extraction, no OCaml) and compared with what
the extracted driver computed.  This keeps extraction and the OCaml glue from being a silent single
point of failure.  Supported ops: run (S-bdd programs), eval (ASCII texts), set."""
import os, re, subprocess
from . import sx, build


# ---------------------------------------------------------------------------- s-expr -> Gallina
def g_nat_list(l):
    return '[' + '; '.join(str(int(x)) for x in l) + ']'


def g_expr(e):
    if isinstance(e, str):
        return {'X': 'EX', 'F': '(ELit F)', 'T': '(ELit T)'}[e]
    h, a = e[0], e[1:]
    if h == 'N':
        return '(ELit %s)' % g_bdd(e)
    if h == 'R':
        return '(ERaw %s)' % g_bdd(e)
    if h == 'tt':
        return '(ELit (build_tt %s %s%%N 0%%N))' % (g_nat_list(a[0]), int(a[1]))
    if h == 'var':
        return '(EVar %d)' % int(a[0])
    if h == 'const':
        return '(EConst %s)' % ('true' if a[0] == '1' else 'false')
    un = {'not': 'ENot', 'model': 'EModel', 'clean': 'EClean'}
    if h in un:
        return '(%s %s)' % (un[h], g_expr(a[0]))
    bi = {'and': 'EAnd', 'or': 'EOr', 'imp': 'EImp', 'eq': 'EEq', 'xor': 'EXor', 'nor': 'ENor', 'nand': 'ENand', 'fp': 'EFp'}
    if h in bi:
        return '(%s %s %s)' % (bi[h], g_expr(a[0]), g_expr(a[1]))
    if h == 'ite':
        return '(EIte %s %s %s)' % tuple(g_expr(x) for x in a)
    cn = {'aln': 'EAln', 'amn': 'EAmn', 'exn': 'EExn'}
    if h in cn:
        return '(%s [%s] (%d)%%Z)' % (cn[h], '; '.join(g_expr(x) for x in a[0]), int(a[1]))
    cv = {'cleq': 'ELeq', 'clt': 'ELt', 'cgeq': 'EGeq', 'cgt': 'EGt', 'ceq': 'ECeq'}
    if h in cv:
        return '(%s [%s] [%s])' % (cv[h], '; '.join(g_expr(x) for x in a[0]), '; '.join(g_expr(x) for x in a[1]))
    if h == 'ex':
        return '(EEx %s %s)' % (g_nat_list(a[0]), g_expr(a[1]))
    if h == 'all':
        return '(EAll %s %s)' % (g_nat_list(a[0]), g_expr(a[1]))
    if h == 'ex1':
        return '(EEx1 %d %s)' % (int(a[0]), g_expr(a[1]))
    if h == 'retain':
        return '(ERetain %s %s)' % ({'t': 'TTrue', 'f': 'TFalse', 'a': 'TAny'}[a[0]], g_expr(a[1]))
    if h == 'mk':
        return '(EMk %s %d %s)' % (g_expr(a[0]), int(a[1]), g_expr(a[2]))
    raise ValueError('expr ' + h)


def g_bdd(b):
    if b == 'F' or b == 'T':
        return b
    return '(Nd %s %d %s)' % (g_bdd(b[1]), int(b[2]), g_bdd(b[3]))


def g_sop(o):
    b = lambda x: 'true' if x == '1' else 'false'
    h = o[0]
    if h == 'ins':
        return '(SInsert %s %d)' % (b(o[1]), int(o[2]))
    if h == 'has':
        return '(SContains %s %d)' % (b(o[1]), int(o[2]))
    if h in ('uni', 'int', 'cmp'):
        return '(%s %s %s)' % ({'uni': 'SUnion', 'int': 'SIntersect', 'cmp': 'SComplement'}[h], b(o[1]), b(o[2]))
    return '(%s %s)' % ({'emp': 'SEmpty', 'univ': 'SUniverse'}[h], b(o[1]))


def gallina_for(op, args):
    """returns a Gallina term whose vm_compute value determines the model result, or None"""
    a = sx.parse(args)
    if op == 'run':
        if isinstance(a, list) and a and a[0] == 'infer':
            return '(run_infer 400 %s %d)' % (g_expr(a[1]), int(a[2]))
        return '(run 400 F %s)' % g_expr(a)
    if op == 'eval':
        ordn, txt = a
        if ordn or any(':' in x for x in txt):
            return None
        cps = '[' + '; '.join('%d%%N' % int(x) for x in txt) + ']'
        return ('(match parsed_formula (fun _ => UOther) [] %s with Done p => match eval_f (%d) (pf_form p) with '
                'Some b => Some (Some (b, pf_vars p, pf_free p)) | None => Some None end | _ => None end)' % (cps, 700 + len(txt)))
    if op == 'set':
        return '(set_run %d [%s])' % (int(a[0]), '; '.join(g_sop(o) for o in a[1]))
    return None


# ---------------------------------------------------------------------------- Coq output -> canonical
TOK = re.compile(r'\s*(\(|\)|\[|\]|;|,|[A-Za-z_][A-Za-z0-9_\']*|-?\d+)')


def parse_coq(s):
    toks = TOK.findall(s)
    pos = 0

    def atom():
        nonlocal pos
        t = toks[pos]
        if t == '(':
            pos += 1
            items = [app()]
            while toks[pos] == ',':
                pos += 1
                items.append(app())
            assert toks[pos] == ')', toks[pos:pos + 5]
            pos += 1
            return items[0] if len(items) == 1 else ('tuple', items)
        if t == '[':
            pos += 1
            items = []
            while toks[pos] != ']':
                items.append(app())
                if toks[pos] == ';':
                    pos += 1
            pos += 1
            return ('list', items)
        pos += 1
        return t

    def app():
        nonlocal pos
        head = atom()
        args = []
        while pos < len(toks) and toks[pos] not in (')', ']', ';', ','):
            args.append(atom())
        return (head, args) if args else head

    r = app()
    return r


def c_bdd(t):
    if t in ('F', 'T'):
        return t
    h, a = t
    assert h == 'Nd'
    return '(N %s %s %s)' % (c_bdd(a[0]), a[1], c_bdd(a[2]))


def c_ids(t):
    return '(' + ' '.join(t[1]) + ')'


def canonical(op, args, t):
    """the driver's result string for the Coq value t"""
    if op == 'run':
        if t == 'None':
            return '(diverge)'
        v = t[1][0]
        if isinstance(v, tuple) and v[0] == 'tuple':
            return '(ok (%d %d))' % (v[1][0] == 'true', v[1][1] == 'true')
        return '(ok %s)' % c_bdd(v)
    if op == 'eval':
        if t == 'None':
            return '(err)'
        inner = t[1][0]
        if inner == 'None':
            return '(diverge)'
        b, vs, fv = inner[1][0][1]
        return ('(ok %s %s %s ' % (c_bdd(b), c_ids(vs), c_ids(fv)))
    if op == 'set':
        ans, st = t[1]
        b0, b1 = st[1]
        bits = ' '.join('1' if x[1][0] == 'true' else '0' for x in ans[1] if x != 'None')
        return '(ok (%s) %s %s)' % (bits, c_bdd(b0), c_bdd(b1))
    return None


def cross_run(ctx, drv, sample):
    """sample: list of (op, args).  Returns (n_checked, disagreements) where each disagreement is
    (op, args, driver_result, coq_result)"""
    from .suites import model_print
    todo = []
    for op, args in sample:
        try:
            g = gallina_for(op, args)
        except Exception:
            g = None
        if g is not None:
            todo.append((op, args, g))
    if not todo:
        return 0, []
    d = os.path.join(ctx.build, 'cross')
    os.makedirs(d, exist_ok=True)
    path = os.path.join(d, '%s_cases.v' % ctx.pid)
    with open(path, 'w') as f:
        f.write('From Coq Require Import List ZArith NArith.\nImport ListNotations.\n')
        f.write('From Rsbdd Require Import Core.Bdd Core.Ops Check.Prog Lang.Ast Lang.Eval Syntax.Lexer Syntax.Tokenize Syntax.Parser Cli.Pipeline Sets.BddSet.\n')
        for i, (_, _, g) in enumerate(todo):
            f.write('Goal True. idtac "@@ %d". exact I. Qed.\nEval vm_compute in %s.\n' % (i, g))
    rc, out = build.sh(['timeout', '900', 'coqc', '-Q', os.path.join(ctx.root, 'coq', 'theories'), 'Rsbdd', '-o',
                        os.path.join(d, '%s_cases.vo' % ctx.pid), path], cwd=d)
    if rc != 0:
        return 0, [('coqc', path, 'exit %d' % rc, out[-600:])]
    chunks = re.split(r'^@@ ', out, flags=re.M)[1:]
    coq = {}
    for ch in chunks:
        idx, _, rest = ch.partition('\n')
        m = re.search(r'=\s*(.*?)\n\s*:\s', rest, re.S)
        if m:
            coq[int(idx)] = ' '.join(m.group(1).split())
    drv_res = model_print(ctx, drv, [(o, a) for o, a, _ in todo])
    bad = []
    n = 0
    for i, (op, args, _) in enumerate(todo):
        if i not in coq or i >= len(drv_res):
            bad.append((op, args, drv_res[i] if i < len(drv_res) else '?', 'no value printed by coqc'))
            continue
        try:
            c = canonical(op, args, parse_coq(coq[i]))
        except Exception as e:
            bad.append((op, args, drv_res[i], 'unreadable Coq value: %s' % coq[i][:200]))
            continue
        n += 1
        d_ = drv_res[i]
        same = d_.startswith(c) if op == 'eval' and c.startswith('(ok') else d_ == c
        if not same:
            bad.append((op, args, d_, c))
    return n, bad
