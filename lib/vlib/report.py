"""Context of one check run: violations, replays, known findings, evidence."""
import os, json, time, hashlib, re


class Ctx:
    def __init__(self, root, build, repo, target, pid, tier, seed):
        self.root, self.build, self.repo, self.target = root, build, repo, target
        self.pid, self.tier, self.seed = pid, tier, seed
        self.t0 = time.time()
        self.violations = []          # (replay_path, no_input)
        self.known_hits = []
        self.suite_stats = []         # per suite run: dict
        self.obligations = []         # (theorem, status)
        self.assumptions = []
        self.trusted = []
        self.notes = []
        self.known = load_known(os.path.join(root, 'KNOWN_FINDINGS.txt'))
        os.makedirs(os.path.join(root, 'replays'), exist_ok=True)
        os.makedirs(os.path.join(root, 'evidence'), exist_ok=True)

    def log(self, *a):
        print('[check %s]' % self.pid, *a, flush=True)

    # -- violations ---------------------------------------------------------------------------
    def violation(self, rec, no_input=False):
        """rec: dict describing the failing case or the broken obligation/correspondence"""
        key = rec.get('key') or ''
        for k in self.known:
            if k['kind'] == 'finding' and k['property'] == self.pid and k['key'] and k['key'] == key:
                if key not in [h[0] for h in self.known_hits]:
                    self.known_hits.append((key, k['text']))
                    print('KNOWN-FINDING: property=%s %s' % (self.pid, k['text']), flush=True)
                return
        rec = dict(rec)
        rec.update(property=self.pid, tier=self.tier, seed=self.seed)
        blob = json.dumps(rec, sort_keys=True)
        h = hashlib.sha1(blob.encode()).hexdigest()[:12]
        path = os.path.join(self.root, 'replays', '%s-%s.json' % (self.pid, h))
        rec['rerun'] = './check %s --replay %s' % (self.pid, path)
        with open(path, 'w') as f:
            json.dump(rec, f, indent=1)
        self.violations.append((path, no_input))
        line = 'VIOLATION property=%s replay=%s' % (self.pid, path)
        if no_input:
            line += ' no-failing-input-found'
        print(line, flush=True)

    # -- evidence -----------------------------------------------------------------------------
    def write_evidence(self, extra=None):
        evals = sum(s.get('cases', 0) for s in self.suite_stats)
        nontriv = sum(s.get('distinct_nontrivial', 0) for s in self.suite_stats)
        samples = []
        for s in self.suite_stats:
            s['samples'] = [pretty_sample(x) for x in s.get('samples', [])]
            for x in s.get('samples', [])[:6]:
                samples.append('%s: %s' % (s['suite'], x))
        thms = [t for t, _ in self.obligations]
        ok = [t for t, st in self.obligations if st == 'closed']
        cov = {
            'obligations': len(thms),
            'discharged': len(ok),
            'checker_cmd': 'make -C coq theories/Props/%s.vo && coqc Print Assumptions (per theorem) ; coqchk in thorough tier' % self.pid,
            'trusted_base': self.trusted,
            'theorems': thms,
            'evaluations': evals,
            'distinct_nontrivial': nontriv,
            'rule': ('cases are (operation, arguments) pairs run on the implementation built from /repo and on the '
                     'extracted Coq model; distinct = distinct (op,args) text; non-trivial = the implementation\'s '
                     'result is not a bare leaf / immediate error / panic; see suites[] for the enumeration rule of each part'),
            'samples': samples[:40] if samples else ['(no correspondence cases in this run)'],
            'exhaustive': any(s.get('exhaustive') for s in self.suite_stats),
            'suites': self.suite_stats,
            'known_findings_hit': [k for k, _ in self.known_hits],
            'notes': self.notes,
        }
        if extra:
            cov.update(extra)
        ev = {
            'property_id': self.pid,
            'tier': self.tier,
            'seed': self.seed,
            'level': 'proof',
            'coverage': cov,
            'assumptions': self.assumptions,
            'wall_s': round(time.time() - self.t0, 2),
            'violations': len(self.violations),
        }
        path = os.path.join(self.root, 'evidence', '%s.json' % self.pid)
        tmp = path + '.tmp'
        with open(tmp, 'w') as f:
            json.dump(ev, f, indent=1)
        os.replace(tmp, path)


def pretty_sample(s):
    """decode the code-point lists of the text suites so that a reader sees the formula"""
    from . import sx
    try:
        op, rest = s.split(' ', 1)
        if op not in ('tok', 'parse', 'eval', 'cli', 'robust'):
            return s
        args, _, res = rest.partition(' => ')
        a = sx.parse(args)

        def dec(l):
            return ''.join(chr(int(x.split(':')[0])) for x in l)
        if op == 'parse':
            return '%s %r => %s' % (op, dec(a[0]), res)
        if op in ('tok', 'eval'):
            ordn = [(dec(e[0]), int(e[1])) for e in a[0]]
            return '%s ordering=%r %r => %s' % (op, ordn, dec(a[1]), res)
    except Exception:
        pass
    return s


def load_known(path):
    out = []
    if not os.path.exists(path):
        return out
    for line in open(path):
        line = line.strip()
        if not line or line.startswith('#'):
            continue
        m = re.match(r'finding:\s+property=(\S+)\s+key=(.*?)\s+::\s+(.*)$', line)
        if m:
            out.append(dict(kind='finding', property=m.group(1), key=m.group(2).strip(), text=m.group(3)))
            continue
        m = re.match(r'fixed:\s+property=(\S+)\s+(\S+)\s+(.*)$', line)
        if m:
            out.append(dict(kind='fixed', property=m.group(1), key='', text=m.group(3), commit=m.group(2)))
    return out
