"""Source-derived loops (tie by translation, C15): the six `for` nests of /repo/n_queens_gen/src/main.rs are re-read on every
run - outer range, inner range, the index expression printed as v_<expr>, the comparison written after the list - and emitted as
Gallina list comprehensions; coqc then checks, for ALL n,

  no_underflow_*  : every subtraction the source performs inside a loop has a non-negative result there (usize!)
  fam_*           : each nest is the corresponding family of the model (Gen/Queens.v), by extensionality + lia/nia
  source_loops    : forall n, the items the source prints = queens_items n
  source_queens   : forall n >= 1, those printed tokens parse to a formula whose models are exactly the n-queens solutions

so the chain source loops -> tokens -> formula -> specification is closed for every board size, with only this translator
(Rust loop syntax -> Gallina) and the textual rendering (write!) trusted.  Failure handling as for the tokenizer tables."""
import os
import re

from . import build


class Shape(Exception):
    pass


# ---- a tiny expression language: usize arithmetic over n, the loop variables and literals ----------------------------------
TOK = re.compile(r'\s*(\d+|\w+|[-+*/%()])')


def parse_expr(text, allowed):
    toks, pos = [], 0
    text = text.strip()
    while pos < len(text):
        m = TOK.match(text, pos)
        if not m:
            raise Shape('cannot read expression %r' % text)
        toks.append(m.group(1))
        pos = m.end()
    i = 0

    def atom():
        nonlocal i
        if i >= len(toks):
            raise Shape('expression ends early: %r' % text)
        t = toks[i]
        i += 1
        if t == '(':
            e = addsub()
            if i >= len(toks) or toks[i] != ')':
                raise Shape('missing ) in %r' % text)
            i += 1
            return e
        if t.isdigit():
            return ('lit', int(t))
        if re.fullmatch(r'[A-Za-z_]\w*', t):
            if t not in allowed:
                raise Shape('unknown name %s in %r' % (t, text))
            return ('var', t)
        raise Shape('unexpected %s in %r' % (t, text))

    def muldiv():
        nonlocal i
        e = atom()
        while i < len(toks) and toks[i] in '*/%':
            op = toks[i]
            i += 1
            e = (op, e, atom())
        return e

    def addsub():
        nonlocal i
        e = muldiv()
        while i < len(toks) and toks[i] in '+-':
            op = toks[i]
            i += 1
            e = (op, e, muldiv())
        return e
    e = addsub()
    if i != len(toks):
        raise Shape('trailing input in %r' % text)
    return e


def gal(e):
    k = e[0]
    if k == 'lit':
        return str(e[1])
    if k == 'var':
        return e[1]
    op = {'+': '+', '-': '-', '*': '*', '/': '/', '%': 'mod'}[k]
    return '(%s %s %s)' % (gal(e[1]), op, gal(e[2]))


def subs(e, acc):
    """all subtractions (and divisions: divisor must be positive) of an expression, innermost first"""
    if e[0] in ('lit', 'var'):
        return acc
    subs(e[1], acc)
    subs(e[2], acc)
    if e[0] == '-':
        acc.append(('sub', e[1], e[2]))
    elif e[0] in '/%':
        acc.append(('div', e[1], e[2]))
    return acc


def parse_range(text, allowed):
    text = text.strip()
    if text.startswith('(') and text.endswith(')') and '..' in text and text.count('(') == text.count(')'):
        inner = text[1:-1]
        if inner.count('(') == inner.count(')') and '..' in inner:
            depth = 0
            ok = True
            for ch in inner:
                depth += ch == '('
                depth -= ch == ')'
                if depth < 0:
                    ok = False
            if ok:
                text = inner
    if '..=' in text:
        a, b = text.split('..=', 1)
        incl = True
    elif '..' in text:
        a, b = text.split('..', 1)
        incl = False
    else:
        raise Shape('not a range: %r' % text)
    return parse_expr(a, allowed), parse_expr(b, allowed), incl


def _block(src, start):
    depth, i = 0, start
    while i < len(src):
        c = src[i]
        if c == '"':
            i += 1
            while i < len(src) and src[i] != '"':
                i += 2 if src[i] == '\\' else 1
        elif c == '{':
            depth += 1
        elif c == '}':
            depth -= 1
            if depth == 0:
                return src[start + 1:i], i + 1
        i += 1
    raise Shape('unbalanced block')


BODY = re.compile(r'^\s*write!\(\s*writer\s*,\s*"\["\s*\)\?;\s*for\s+(\w+)\s+in\s+(.+?)\s*\{\s*write!\(\s*writer\s*,\s*"v_\{\},"\s*,\s*(.+?)\s*,?\s*\)\?;\s*\}\s*'
                  r'writeln!\(\s*writer\s*,\s*"\]\s*(<=|>=|=|<|>)\s*1\s*&"\s*\)\?;\s*$', re.S)
COP = {'<=': 'AtMost', '>=': 'AtLeast', '=': 'Exactly', '<': 'LessThan', '>': 'MoreThan'}


def extract_queens(main_rs):
    src = open(main_rs, encoding='utf-8').read()
    src = re.sub(r'//[^\n]*', '', src)
    nests, pos = [], 0
    while True:
        m = re.compile(r'\bfor\s+(\w+)\s+in\s+([^{]+?)\s*\{').search(src, pos)
        if not m:
            break
        body, end = _block(src, m.end() - 1)
        b = BODY.match(body)
        if not b:
            raise Shape('a for loop of n_queens_gen is not `write "["; for .. { write v_<expr>, } writeln "] op 1 &"`')
        ov, iv = m.group(1), b.group(1)
        if ov == iv or 'n' in (ov, iv):
            raise Shape('loop variables %s, %s' % (ov, iv))
        oa, ob, oincl = parse_range(m.group(2), {'n'})
        ia, ib, iincl = parse_range(b.group(2), {'n', ov})
        nests.append(dict(ov=ov, iv=iv, outer=(oa, ob, oincl), inner=(ia, ib, iincl), expr=parse_expr(b.group(3), {'n', ov, iv}), op=COP[b.group(4)]))
        pos = end
    if not nests:
        raise Shape('no loop nest found')
    # every other output statement must print a quoted comment, an empty line or the closing "true"
    rest, cut = [], 0
    for m2 in re.finditer(r'\bfor\s+(\w+)\s+in\s+([^{]+?)\s*\{', src):
        if m2.start() < cut:
            continue
        _, e2 = _block(src, m2.end() - 1)
        rest.append(src[cut:m2.start()])
        cut = e2
    rest.append(src[cut:])
    for mac in re.finditer(r'\b(write|writeln|print|println)!\s*\(((?:[^()"]|"(?:[^"\\]|\\.)*"|\((?:[^()"]|"(?:[^"\\]|\\.)*")*\))*)\)', ''.join(rest)):
        args = mac.group(2).strip()
        if mac.group(1) in ('print', 'println'):
            raise Shape('%s! outside the loops writes to stdout next to the formula' % mac.group(1))
        lit = re.match(r'writer\s*(?:,\s*"((?:[^"\\]|\\.)*)")?', args)
        if not lit:
            raise Shape('an output statement outside the loops does not write to `writer`')
        text = lit.group(1)
        if text is None or text == 'true':
            continue
        if not (text.startswith('\\"') and text.endswith('\\"') and '\\"' not in text[2:-2]):
            raise Shape('an output statement outside the loops prints something that is not a quoted comment: %r' % text[:60])
    # what follows the last nest must close the chain with "true"
    if not re.search(r'writeln!\(\s*writer\s*,\s*"true"\s*\)', src[pos:]):
        raise Shape('the chain is not closed by writeln "true" after the last loop')
    return nests


def _rng(r):
    a, b, incl = r
    return '(%s %s %s)' % ('rngi' if incl else 'rng', gal(a), gal(b))


def _inrange(v, r):
    a, b, incl = r
    return '%s <= %s %s %s' % (gal(a), v, '<=' if incl else '<', gal(b))


MODEL_FAMS = ['Queens.d1a', 'Queens.d1b', 'Queens.d2a', 'Queens.d2b', 'Queens.rows', 'Queens.cols']


def gallina_queens(nests):
    out = ['(* generated by lib/vlib/srcloops.py from /repo/n_queens_gen/src/main.rs on every run; do not edit *)',
           'From Coq Require Import List Arith Lia PeanoNat.', 'Import ListNotations.',
           'From Rsbdd Require Import Lang.Ast Lang.FSem Syntax.Token Syntax.Parser Gen.Queens Gen.Forms Gen.GenText Gen.SrcLoops.', '']
    names = []
    for k, ns in enumerate(nests, 1):
        out.append('Definition src_fam_%d (n : nat) : list (list nat) :=' % k)
        out.append('  map (fun %s => map (fun %s => %s) %s) %s.' % (ns['ov'], ns['iv'], gal(ns['expr']), _rng(ns['inner']), _rng(ns['outer'])))
        # no-underflow obligations: in the bounds of the inner range (outer variable in range) and in the expression (both in range)
        hyp_o = _inrange(ns['ov'], ns['outer'])
        hyp_i = _inrange(ns['iv'], ns['inner'])
        obls = []
        for which, e, hyps, vs in (('inner range', ns['inner'][0], [hyp_o], [ns['ov']]), ('inner range', ns['inner'][1], [hyp_o], [ns['ov']]),
                                   ('expression', ns['expr'], [hyp_o, hyp_i], [ns['ov'], ns['iv']])):
            for kind, x, y in subs(e, []):
                goal = '%s <= %s' % (gal(y), gal(x)) if kind == 'sub' else '1 <= %s' % gal(y)
                obls.append((vs, hyps, goal))
        for kind, x, y in subs(ns['outer'][0], []) + subs(ns['outer'][1], []):
            obls.append(([], [], '%s <= %s' % (gal(y), gal(x)) if kind == 'sub' else '1 <= %s' % gal(y)))
        for j, (vs, hyps, goal) in enumerate(obls, 1):
            nm = 'no_underflow_%d_%d' % (k, j)
            names.append(nm)
            out.append('Lemma %s : forall n %s, %s%s.' % (nm, ' '.join(vs), ''.join('%s -> ' % h for h in hyps), goal))
            out.append('Proof. intros. first [lia | nia]. Qed.')
        out.append('')
    if len(nests) != len(MODEL_FAMS):
        raise Shape('%d loop nests (the model has %d families)' % (len(nests), len(MODEL_FAMS)))
    for k, fam in enumerate(MODEL_FAMS, 1):
        nm = 'fam_%d' % k
        names.append(nm)
        out.append('Lemma %s : forall n, src_fam_%d n = %s n.' % (nm, k, fam))
        out.append('Proof.')
        out.append('  intros n. unfold src_fam_%d, %s, rng, rngi.' % (k, fam))
        out.append('  apply fam_ext; [lia | lia | intros i Hi; apply fam_ext; [lia | lia | intros j Hj; first [lia | nia]]].')
        out.append('Qed.')
    out.append('')
    out.append('Definition src_items (n : nat) : list item :=')
    out.append('  ' + ' ++ '.join('map (ICount true %s) (src_fam_%d n)' % (ns['op'], k) for k, ns in enumerate(nests, 1)) + ' ++ [].')
    out.append('Theorem source_loops : forall n, src_items n = queens_items n.')
    out.append('Proof. intros n. unfold src_items. apply queens_items_six; [apply fam_1 | apply fam_2 | apply fam_3 | apply fam_4 | apply fam_5 | apply fam_6]. Qed.')
    out.append('Theorem source_queens : forall n s, 1 <= n ->')
    out.append('  parse (chain_tokens (src_items n) ++ [TEof]) = Ok (queens_form n) [] /\\ (fsem (queens_form n) s = true <-> Queens.sol n s).')
    out.append('Proof. intros n s Hn. rewrite source_loops. split; [apply C15_text | apply C15_formula; exact Hn]. Qed.')
    names += ['source_loops', 'source_queens']
    for nm in names:
        out.append('Print Assumptions %s.' % nm)
    return '\n'.join(out) + '\n', names


# ---- sudoku_gen: nests of any depth, let bindings, lists built by (range).map(|x| format!("_{}_is_{}", cell, digit)).join(", ") ----
LET_LIST = re.compile(r'\s*let\s+(\w+)\s*=\s*\((.+?)\)\s*\.map\(\s*\|\s*(\w+)\s*\|\s*format!\(\s*"_\{\}_is_\{\}"\s*,\s*(.+?)\s*,\s*([^,]+?)\s*\)\s*\)\s*'
                      r'\.collect::<Vec<_>>\(\)\s*\.join\(\s*", "\s*\)\s*;', re.S)
LET_PLAIN = re.compile(r'\s*let\s+(\w+)\s*=\s*([^;{}"]+?)\s*;', re.S)
EMIT = re.compile(r'\s*writeln!\(\s*writer\s*,\s*"\[\{\}\]\s*(<=|>=|=|<|>)\s*(\d+)\s*&"\s*,\s*(\w+)\s*\)\?;', re.S)
FOR = re.compile(r'\s*for\s+(\w+)\s+in\s+([^{]+?)\s*\{', re.S)
HINTS = re.compile(r'^\s*if\s+let\s+Some\((\w+)\)\s*=\s*puzzle_input\.chars\(\)\.nth\((\w+)\)\s*\{\s*if\s+char::is_digit\(\1,\s*10\)\s*\{\s*'
                   r'writeln!\(\s*writer\s*,\s*"_\{\}_is_\{\} &"\s*,\s*\2\s*,\s*\1\s*\)\?;\s*\}\s*\}\s*$', re.S)


def sgal(e, env):
    k = e[0]
    if k == 'lit':
        return str(e[1])
    if k == 'var':
        return env[e[1]]
    op = {'+': '+', '-': '-', '*': '*', '/': '/', '%': 'mod'}[k]
    return '(%s %s %s)' % (sgal(e[1], env), op, sgal(e[2], env))


def s_rng(text, env):
    a, b, incl = parse_range(text, set(env))
    return '(%s %s %s)' % ('rngi' if incl else 'rng', sgal(a, env), sgal(b, env)), (a, b, incl)


def s_stmts(text, env, hyps, obls):
    """Gallina list-of-lists expression for a statement sequence; env: name -> Gallina text; hyps: range facts in force"""
    pos, parts, cur, pending = 0, [], [], {}
    env = dict(env)

    def flush():
        if cur:
            parts.append('[' + '; '.join(cur) + ']')
            del cur[:]

    def note(e, extra_hyps=()):
        for kind, x, y in subs(e, []):
            obls.append((list(hyps) + list(extra_hyps), '%s <= %s' % (sgal(y, env), sgal(x, env)) if kind == 'sub' else '1 <= %s' % sgal(y, env)))
    while text[pos:].strip():
        m = FOR.match(text, pos)
        if m:
            flush()
            body, end = _block(text, m.end() - 1)
            v = m.group(1)
            if v in env:
                raise Shape('loop variable %s shadows a name' % v)
            rtxt, (a, b, incl) = s_rng(m.group(2), env)
            note(a); note(b)
            env2 = dict(env); env2[v] = v
            h = '%s <= %s %s %s' % (sgal(a, env), v, '<=' if incl else '<', sgal(b, env))
            hyps.append((v, h))
            inner = s_stmts(body, env2, hyps, obls)
            hyps.pop()
            parts.append('flat_map (fun %s => %s) %s' % (v, inner, rtxt))
            pos = end
            continue
        m = EMIT.match(text, pos)
        if m:
            op, bound, name = m.groups()
            if op != '=' or bound != '1' or name not in pending:
                raise Shape('a list is not compared with `= 1` or is not built just before')
            cur.append(pending.pop(name))
            pos = m.end()
            continue
        m = LET_PLAIN.match(text, pos)
        if m:
            name = m.group(1)
            e = parse_expr(m.group(2), set(env))
            note(e)
            env[name] = sgal(e, env)
            pos = m.end()
            continue
        m = LET_LIST.match(text, pos)
        if m:
            name, rng_t, x, e1, e2 = m.groups()
            if x in env:
                raise Shape('closure variable %s shadows a name' % x)
            rtxt, (a, b, incl) = s_rng(rng_t, env)
            note(a); note(b)
            env2 = dict(env); env2[x] = x
            c = parse_expr(e1, set(env2)); d = parse_expr(e2, set(env2))
            hx = (x, '%s <= %s %s %s' % (sgal(a, env), x, '<=' if incl else '<', sgal(b, env)))
            for e in (c, d):
                for kind, xx, yy in subs(e, []):
                    obls.append((list(hyps) + [hx], '%s <= %s' % (sgal(yy, env2), sgal(xx, env2)) if kind == 'sub' else '1 <= %s' % sgal(yy, env2)))
            pending[name] = 'map (fun %s => Sudoku.vid r %s %s) %s' % (x, sgal(c, env2), sgal(d, env2), rtxt)
            pos = m.end()
            continue
        raise Shape('a statement of sudoku_gen is not a for loop, a let, a list built with map/format!/join, or its writeln: %r' % text[pos:pos + 80].strip())
    flush()
    if pending:
        raise Shape('a list is built but not printed')
    return ' ++ '.join(parts) if parts else '[]'


def extract_sudoku(main_rs):
    src = open(main_rs, encoding='utf-8').read()
    src = re.sub(r'//[^\n]*', '', src)
    if not re.search(r'let\s+root\s*=\s*args\.root\s*;', src):
        raise Shape('let root = args.root; not found')
    env = {'root': 'r'}
    first = re.search(r'\bfor\s+\w+\s+in\b', src)
    if not first:
        raise Shape('no loop found')
    for m in re.finditer(r'\blet\s+(\w+)\s*=\s*([^;{}"]+?)\s*;', src[:first.start()]):
        try:
            env[m.group(1)] = sgal(parse_expr(m.group(2), set(env)), env)
        except Shape:
            pass
    nests, pos, obls = [], first.start(), []
    while True:
        m = FOR.search(src, pos)
        if not m:
            break
        body, end = _block(src, m.end() - 1)
        nests.append((m.group(1), m.group(2), body, src[m.start():end]))
        pos = end
    if len(nests) != 4:
        raise Shape('%d top-level loops (hints, cells, rows and columns, boxes expected)' % len(nests))
    v, rng_t, body, _ = nests[0]
    hm = HINTS.match(body)
    a, b, incl = parse_range(rng_t, set(env))
    if not hm or hm.group(2) != v or incl or sgal(a, env) != '0' or sgal(b, env) != env.get('numcells', '?') or env.get('numcells') != '((r * r) * (r * r))':
        raise Shape('the hint loop is not `for i in 0..numcells { if let Some(ch) = ..nth(i) { if is_digit { writeln "_{}_is_{} &", i, ch } } }`')
    fams = []
    for _, _, _, whole in nests[1:]:
        fams.append(s_stmts(whole, env, [], obls))
    if not re.search(r'writeln!\(\s*writer\s*,\s*"true"\s*\)', src[pos:]):
        raise Shape('the chain is not closed by writeln "true" after the last loop')
    # other output statements: comments, empty lines, "true"
    rest, cut = [], 0
    for m2 in FOR.finditer(src):
        if m2.start() < cut:
            continue
        _, e2 = _block(src, m2.end() - 1)
        rest.append(src[cut:m2.start()]); cut = e2
    rest.append(src[cut:])
    for mac in re.finditer(r'\b(write|writeln|print|println)!\s*\(((?:[^()"]|"(?:[^"\\]|\\.)*"|\((?:[^()"]|"(?:[^"\\]|\\.)*"|\([^()]*\))*\))*)\)', ''.join(rest)):
        args = mac.group(2).strip()
        if mac.group(1) in ('print', 'println'):
            raise Shape('%s! outside the loops writes to stdout next to the formula' % mac.group(1))
        lit = re.match(r'writer\s*(?:,\s*"((?:[^"\\]|\\.)*)")?', args)
        if not lit:
            raise Shape('an output statement outside the loops does not write to `writer`')
        text = lit.group(1)
        if text is None or text == 'true':
            continue
        if not (text.startswith('\\"') and text.endswith('\\"') and '\\"' not in text[2:-2]):
            raise Shape('an output statement outside the loops prints something that is not a quoted comment: %r' % text[:60])
    return fams, obls


SUDOKU_FAMS = ['Sudoku.cell_lists', 'Sudoku.rowcol_lists', 'Sudoku.box_lists']


def gallina_sudoku(fams, obls):
    out = ['(* generated by lib/vlib/srcloops.py from /repo/sudoku_gen/src/main.rs on every run; do not edit *)',
           'From Coq Require Import List Arith Lia PeanoNat.', 'Import ListNotations.',
           'From Rsbdd Require Import Lang.Ast Lang.FSem Syntax.Token Syntax.Parser Gen.Queens Gen.Sudoku Gen.Forms Gen.GenText Gen.SrcLoops.', '']
    names = []
    for j, (hyps, goal) in enumerate(obls, 1):
        nm = 'no_trap_%d' % j
        names.append(nm)
        vs = ' '.join(v for v, _ in hyps)
        out.append('Lemma %s : forall r %s, %s%s.' % (nm, vs, ''.join('%s -> ' % h for _, h in hyps), goal))
        out.append('Proof. intros. first [lia | nia]. Qed.')
    for k, (f, fam) in enumerate(zip(fams, SUDOKU_FAMS), 1):
        out.append('Definition src_fam_%d (r : nat) : list (list nat) := %s.' % (k, f))
        nm = 'fam_%d' % k
        names.append(nm)
        out.append('Lemma %s : forall r, src_fam_%d r = %s r.' % (nm, k, fam))
        out.append('Proof. intros r. unfold src_fam_%d, %s, Sudoku.row_list, Sudoku.col_list, Sudoku.box_list, rng, rngi. fam. Qed.' % (k, fam))
    out.append('Definition src_items (r : nat) (hints : list (nat * nat)) : list item :=')
    out.append('  map (fun h => IVar (Sudoku.vid r (fst h) (snd h))) hints ++ ' + ' ++ '.join('map (ICount false Exactly) (src_fam_%d r)' % k for k in (1, 2, 3)) + ' ++ [].')
    out.append('Theorem source_loops : forall r hints, src_items r hints = sudoku_items r hints.')
    out.append('Proof. intros r hints. unfold src_items. apply sudoku_items_three; [apply fam_1 | apply fam_2 | apply fam_3]. Qed.')
    out.append('Theorem source_sudoku : forall r hints s, (forall c d, In (c, d) hints -> c < (r * r) * (r * r) /\\ 1 <= d <= r * r) ->')
    out.append('  parse (chain_tokens (src_items r hints) ++ [TEof]) = Ok (sudoku_form r hints) [] /\\')
    out.append('  (fsem (sudoku_form r hints) s = true <-> exists g, Sudoku.grid_ok r hints g /\\ Sudoku.encodes r s g).')
    out.append('Proof. intros r hints s Hh. rewrite source_loops. split; [apply C17_tokens | apply C17_formula; exact Hh]. Qed.')
    names += ['source_loops', 'source_sudoku']
    for nm in names:
        out.append('Print Assumptions %s.' % nm)
    return '\n'.join(out) + '\n', names


def search(ctx, which, text):
    """a broken loop obligation: evaluate the translated nests and the model inside Coq for a range of sizes, and run the real
    generator against the model at the first sizes where they differ (or where a subtraction underflows)"""
    from . import suites
    gdir = os.path.join(ctx.build, 'gen')
    defs = [l for l in text.split('\n')]
    keep, skip = [], False
    for l in defs:
        if l.startswith(('Lemma ', 'Theorem ')):
            skip = True
        if not skip:
            keep.append(l)
        if skip and l.strip().endswith('Qed.'):
            skip = False
    keep = [l for l in keep if not l.startswith('Print Assumptions')]
    if which == 'queens':
        fams, sizes, param = MODEL_FAMS, 'seq 0 41', 'n'
    else:
        fams, sizes, param = SUDOKU_FAMS, 'seq 0 4', 'r'
    body = '\n'.join(keep) + """
Fixpoint leqb (a b : list nat) : bool := match a, b with [], [] => true | x :: a', y :: b' => Nat.eqb x y && leqb a' b' | _, _ => false end.
Fixpoint lleqb (a b : list (list nat)) : bool := match a, b with [], [] => true | x :: a', y :: b' => leqb x y && lleqb a' b' | _, _ => false end.
Eval vm_compute in filter (fun %s => negb (%s)) (%s).
""" % (param, ' && '.join('lleqb (src_fam_%d %s) (%s %s)' % (k, param, f, param) for k, f in enumerate(fams, 1) if ('src_fam_%d ' % k) in text), sizes)
    body = body.replace('From Coq Require Import List Arith Lia PeanoNat.', 'From Coq Require Import List Arith Bool Lia PeanoNat.')
    gen = os.path.join(gdir, 'SrcLoopsSearch_%s.v' % ctx.pid)
    with open(gen, 'w') as f:
        f.write(body)
    coq = os.path.join(ctx.root, 'coq')
    rc, out = build.sh(['timeout', '600', 'coqc', '-Q', os.path.join(coq, 'theories'), 'Rsbdd', '-o', os.path.join(gdir, 'SrcLoopsSearch_%s.vo' % ctx.pid), gen], cwd=gdir)
    m = re.search(r'=\s*\[([^\]]*)\]\s*:\s*list nat', out.replace('\n', ' '))
    differ = [int(x) for x in re.findall(r'\d+', m.group(1))] if m else []
    res = {'sizes_where_translated_loops_and_model_differ': differ[:20], 'coqc_rc': rc}
    sizes_to_run = differ[:3] if differ else ([1, 2, 3, 5, 8, 13, 21] if which == 'queens' else [1, 2])
    hbin = build.harness(ctx, 'release')
    drv = build.model_driver(ctx)
    bins = build.workspace_bins(ctx, 'debug')
    cases = [('queens', '(%d)' % k) for k in sizes_to_run] if which == 'queens' else [('sudoku', '(%d ())' % k) for k in sizes_to_run]
    summary, mism = suites.compare_cases(ctx, hbin, drv, cases, ['--bindir', bins])
    res['ran'] = [c[1] for c in cases]
    res['differing'] = len(mism)
    if mism:
        suites.analyse(ctx, dict(suite='gen', parts=['srcloops']), hbin, drv, mism, ['--bindir', bins])
    return res


def run(ctx, which='queens'):
    crate = 'n_queens_gen' if which == 'queens' else 'sudoku_gen'
    main_rs = os.path.join(ctx.repo, crate, 'src', 'main.rs')
    info = {'source': crate + '/src/main.rs'}
    status, detail, names = 'proved', '', []
    try:
        if which == 'queens':
            nests = extract_queens(main_rs)
            text, names = gallina_queens(nests)
        else:
            nests, obls = extract_sudoku(main_rs)
            text, names = gallina_sudoku(nests, obls)
        info.update(loop_nests=len(nests), obligations=len(names))
        gdir = os.path.join(ctx.build, 'gen')
        os.makedirs(gdir, exist_ok=True)
        gen = os.path.join(gdir, 'SrcLoops_%s.v' % ctx.pid)
        with open(gen, 'w') as f:
            f.write(text)
        coq = os.path.join(ctx.root, 'coq')
        rc0, out0 = build.coq_make(ctx, ['theories/Gen/SrcLoops.vo'])
        if rc0 != 0:
            raise build.BuildError('Gen/SrcLoops.vo does not build:\n' + out0[-1500:])
        rc, out = build.sh(['timeout', '600', 'coqc', '-Q', os.path.join(coq, 'theories'), 'Rsbdd', '-o',
                            os.path.join(gdir, 'SrcLoops_%s.vo' % ctx.pid), gen], cwd=gdir)
        if rc != 0 or out.count('Closed under the global context') != len(names):
            status, detail = 'obligation-failed', out[-1500:]
    except Shape as e:
        status, detail = 'shape-not-recognised', str(e)
    except build.BuildError:
        raise
    except Exception as e:                       # whatever the source looks like, the translator must not take the check down
        status, detail = 'shape-not-recognised', 'the translator could not read the source: %s: %s' % (type(e).__name__, e)
    info['status'] = status
    if detail:
        info['detail'] = detail[-800:]
    if status == 'obligation-failed':
        try:
            info['search'] = search(ctx, which, text)
        except Exception as e:                      # the search is an aid; its own failure must not hide the broken obligation
            info['search'] = {'error': str(e)[:300]}
    if status != 'shape-not-recognised':
        for t in (names or ['source_loops']):
            ctx.obligations.append(('generated:' + t, 'closed' if status == 'proved' else 'failed'))
    ctx.trusted.append('translator lib/vlib/srcloops.py (Rust for-loops over ranges with usize index expressions -> Gallina comprehensions; status this run: %s)' % status)
    ctx.source_loops = info
    return status, detail, info
