"""Which theorem file and which correspondence suites decide each property (DESIGN.md §6 summary)."""

# verdict tokens (printed by the driver's classifier, computed by the extracted Coq checkers) that
# mean "the property's own clause fails on this input" for each property
FAIL = {
    'C02': ('shape', 'symbol', 'sem', 'vars'),
    'C01': ('sem', 'no-result', 'symbol', 'rejected'),
    'C08': ('lex', 'grammar', 'accept'),
    'C09': ('vars', 'free', 'leak', 'symbol'),
    'C03': ('sem', 'no-result', 'symbol'),
    'C04': ('sem', 'no-result', 'leak', 'symbol'),
    'C05': ('sem', 'no-result', 'symbol'),
    'C06': ('sem', 'no-result', 'symbol'),
    'C07': ('clause', 'no-result', 'rows', 'truevars', 'symbol'),
    'C20': ('clause', 'shape', 'no-result', 'rows', 'symbol'),
    'C10': ('header', 'rows', 'truevars', 'no-result', 'accept', 'panic', 'symbol'),
    'C11': ('header', 'rows', 'order', 'roundtrip', 'accept', 'byname', 'panic', 'no-result', 'symbol', 'sem', 'shape'),
    'C12': ('panic',),
    'C19': ('member', 'panic', 'sharing'),
    'C15': ('models', 'illformed', 'panic'),
    'C16': ('models', 'illformed', 'panic'),
    'C17': ('hints', 'models', 'illformed', 'panic'),
    'C18': ('output', 'panic'),
    'C14': ('nodes', 'edges', 'readback', 'graph', 'panic'),
    'C13': ('history', 'handle', 'sharing', 'result', 'no-result', 'shape', 'symbol'),
}

BDD_RULE = {
    'conn': 'exhaustive: all 256x256 pairs of 3-variable functions over interleaved variable triples x 7 binary connectives, all 16^3 triples of 2-variable functions for ite, not/literals over 4 triples, var, const; operand-immutability and hash-consistency on a strided subset; plus seeded random operands over <=6 sparse variables',
    'quant': 'exhaustive: all 156 variable lists of length <=3 over ids 0..4 (above, inside, below the support {1,2,3}, repeats) x all 256 functions x {exists, all}, exists_impl per id; plus seeded random functions over <=7 sparse variables with lists <=5',
    'count': 'exhaustive: all operand lists of length <=2 (thorough <=3) over the 16 two-variable functions x n in [-3,6] x {aln,amn,exn}; length 3 over a 7-function alphabet; list-vs-list comparisons over lists <=1 (thorough <=2) and <=2 over the reduced alphabet x 5 comparisons; plus seeded random lists <=6 with bounds near +-len and near the i64 limits (side condition respected)',
    'fp': 'fp(init, t) with t a term over X: constant, or-with-exists and and-with-forall chains for all 256 functions over 3 variables from F and T, identity and negation (diverges), plus seeded random monotone-by-construction (3/4) and arbitrary (1/4) bodies, some nested',
    'model': 'exhaustive: model of all 65536 functions of 4 variables, infer on every 16th (thorough: all) for 5 ids, also on the extracted model; plus seeded random functions over <=7 sparse variables',
    'retain': 'exhaustive: retain_choice_bottom_up of all 65536 functions of 4 variables x {True,False,Any}; plus seeded random',
    'clean': 'exhaustive: clean of all 65536 functions of 4 variables; plus seeded random',
    'wide': 'many variables: and/or chains over 33, 64, 65, 70, 129 variable ids (thorough up to 200) with negated literals, their negation, implication, equivalence, model, retain, exists/all over odd / reversed / all ids, infer, a fixed point; counting over 8, 11, 13 plain variables with large ids',
    'mixed': 'seeded random programs of depth <=3 mixing all public operations (connectives, counting, quantifiers, model, retain, clean, monotone fp), most of them in one long-lived environment',
}


def bdd(parts, exhaustive=True):
    return dict(suite='bdd', parts=parts, profile='release', exhaustive=exhaustive,
                rule='; '.join('%s: %s' % (p, BDD_RULE[p]) for p in parts))


TEXT_RULE = {
    'tok': 'exhaustive: all strings of length <=4 (thorough <=5) over a 22-character alphabet with one character per alternation/boundary of the tokenizer regex (letters, digit, quote, underscore, space, double quote, braces, < = > - ! & | ( [ , #, a non-ASCII letter, a non-ASCII digit, NUL); every keyword/symbol spelling alone and in all adjacent and spaced pairs; plus seeded token soups, spelling soups, random Unicode, mutated formulas, a third of them under a random ordering with sparse distinct ids',
    'parse': 'exhaustive: every token sequence of length <=3 over the full 36-token alphabet and of length 4 (thorough: 5) over a 20-token reduced alphabet (thorough: length 4 over the full alphabet), rendered to text; plus seeded grammar-directed random formulas (all constructs, all spellings, random whitespace/comments), half of them with 1-3 token-level mutations (drop/insert/swap/replace)',
    'eval': 'the same exhaustive token sequences evaluated (result diagram, vars, free_vars); the counting-constant boundary grid; plus seeded random formulas <= depth 4 over <=6 names with shadowing, binder-only names, monotone-by-construction nested/mixed fixed points, counting over compound operands, constants up to 2^64-1, a third of them under an API ordering with sparse distinct ids incl. unused names',
    'evalq': 'language-level quantifiers: all 85 variable lists of length <=3 over four names (order, repetition, names absent from the body) x {exists, forall} x 9 bodies, each conjoined with its body; a third also bare, inside an lfp and a gfp, and under an API ordering with gaps',
    'evalwide': 'chains of 6..33 plain literals with a complementary or repeated literal at every distance, flat and bracketed, both connectives; sizes beyond the small spaces: conjunction, disjunction, xor chains, quantifier lists, a De Morgan equivalence, reversed first-appearance order and a 2n-deep nesting over n = 32, 33, 64, 65, 70, 129 variables (thorough up to 257); counting over lists of 8, 11, 14 operands; seeded random fixed-point-free formulas of depth 4 over 20 names',
    'evalord': 'consecutive parses in one thread under four-name orderings that differ only in the middle or at one end; API orderings with gaps: 8 formulas x every injective assignment of ids 0..5 to every subset of <=3 of the names a,b,c,d (685 orderings), incl. formulas with up to five unlisted variables; result, vars, free_vars, names compared, and the answer is compared BY NAME with the default-order answer',
    'evalshadow': 'systematic shadowing: 7 outer binders (exists/forall/lfp/gfp on a, two-name lists, none) x 6 inner binders on the same name x 8 layouts (inner scope closed by a bracket, a list comma or an if-branch, with uses of the name before, after and outside; triple nesting; binders on absent and binder-only names), default order and an API ordering',
    'sym': 'TruthTableEntry: 30 spellings (the 15 accepted ones and near misses) parsed, is_true / is_false / is_any, Display plain and padded; the NamedSymbol contract the model rests on, all 2304 pairs over 12 ids (0, 1, 2, 7, ids that coincide with 3 or 7 after truncation to 8 / 16 / 32 bits, 2^32, 2^63+2, 2^64-2, 2^64-1) x names {a, b, empty, non-ASCII}: == and cmp / partial_cmp decided by the id alone, equal symbols hash alike (std hasher and the FxHash of a node), nodes over equal symbols are equal, into usize is the id, Display is the name',
    'evalx': 'two separately parsed formulas (two environments) combined by and / or / eq / xor / implies / ite of either environment: 12 fixed pairs and seeded random pairs - the same structure under two spellings of the same ids (p,q,x / req,ack,busy / x,p,q) or unrelated formulas over overlapping ids; seven result diagrams compared',
    'evalid': 'API orderings with arbitrary ids: 8 formula templates x 6 id layouts with one id SOLVED so that the two children of one node are different diagrams with the same FxHash (the words fed to the hasher are recorded and the FxHasher replayed; kept only when the replica agrees with the real get_hash; about 30 orderings, each also inside a conjunction and under a negation), 6 pairs of unrelated diagrams (false / a, true / -a, p / -q, p & c / q | d, ...) made to collide by solving one id forwards and backwards through the hasher, used in 3-8 formulas each incl. fixed points whose iterates then collide with their start value and counting lists whose operands collide (about 24 orderings), plus seeded random formulas over 6 names under random listings with ids near 0, near usize::MAX, powers of two and random 64-bit values; the evaluated diagram and its conversion to BDD<usize> are compared in rank space with the model under the order-isomorphic small ids, and BY NAME with the default-order answer',
    'evallong': 'text handling beyond short inputs, tokenized and evaluated: 4095..70000 blanks / newlines / comment characters before, inside and after a formula; identifiers of 255..5000 characters; CRLF, lone CR, byte order mark, tab, form feed, NBSP, U+2028, zero-width space, combining accents, NUL; open, empty and adjacent comments; counting constants with leading zeros, signs, separators, 2^64-1 and 2^64, non-ASCII digits; nesting depth 10..200 (thorough 400) of brackets, negations, binders, lists, if-then-else',
    'evalcoll': 'pairs of distinct 16-character identifiers with the SAME 64-bit FxHash (first halves random, second halves solved byte by byte, kept only when the real FxHasher agrees; 6 pairs, thorough 40) in 9 formula shapes (both orders, bound/free, counting, xor, lfp, ite) and in API orderings: tokens, vars, free_vars, diagram',
    'evalc': 'counting grid: 5 comparisons x 10 constants (0..4, 2^63-2 .. 2^63, 2^64-2, 2^64-1) x 6 operand lists, 5x5 list-vs-list grid; plus seeded random formulas containing a counting comparison',
    'evalfp': '29 formulas with the bound name in every position of every construct (both lists of list-against-list comparisons, each operand position, both if-branches, under double negation, inside an inner fixed point; each monotone), default order and an API ordering; 23 hand-picked fixed-point formulas (identity, constants, divergent negation, chains through quantifiers, nested/mixed lfp-gfp, shadowing by quantifier and by inner fixed point, counting, ite); plus seeded random formulas containing lfp/gfp over 3 names, 3/4 monotone by construction, 1/4 arbitrary',
}


def text(parts, exhaustive=True):
    ops = {'tok': ['tok'], 'parse': ['parse'], 'eval': ['eval'], 'evalc': ['eval'], 'evalfp': ['eval'], 'evalord': ['eval'], 'evalwide': ['eval'], 'evalq': ['eval'], 'evalshadow': ['eval'], 'sym': ['sym', 'tte'], 'evalx': ['evalx'], 'evalid': ['evalid'], 'evallong': ['tok', 'eval'], 'evalcoll': ['tok', 'eval']}
    return dict(suite='text', parts=parts, profile='release', exhaustive=exhaustive,
                corpus_ops=sorted(set(o for p in parts for o in ops[p])),
                rule='; '.join('%s: %s' % (p, TEXT_RULE[p]) for p in parts))


CLI_RULE = {
    'grid': 'option grid on 40 fixed formulas (every construct): all 15 accepted spellings of -f, the three input channels (stdin, file, --evaluate), -c {t,f,True,false} x -m, -m alone and with -f t, -b {1,2,3}; every run asks for -t -v -r together; header, row set, -v lines and -r list are compared',
    'order': '12 formulas over <=3 names x all 65 sequences of distinct names from {a,b,c,u} (permutations, subsets, supersets with the unused name u before/between/after) as ordering file, plus files with duplicates, punctuation, keywords, numbers, comments, empty; every run also feeds its own -r output back with -o and requires the identical table (round trip)',
    'size': 'size boundaries: conjunction / disjunction tables with 63, 64, 65, 66, 70 and 130 columns x filters x -m; evaluations that build tens of thousands of table entries (13 pairs, thorough 15) (pairs (a_i & b_i) under an order that separates the a from the b) and end in a constant or a small diagram, with -b absent, 1, 2, 3',
    'shadow': 'the 350 systematic shadowing formulas of S-text/evalshadow through the binary (header = free variables in order, rows) x filters x channels',
    'coll': 'identifiers that collide under FxHash (see S-text/evalcoll) as formula variables and in ordering files, through the binary, half with the -r / -o round trip',
    'models': '-m (with and without -f) on 130 counting formulas (five comparisons x list-against-list with operands shared at different multiplicities, names that occur in the right-hand list only, empty lists, compound operands; constants 0..3), a third of the shadowing formulas and seeded random formulas: the printed rows must be those of model(d) for the diagram d the model computes, or at least a genuine cube of it',
    'texts': 'comment / quoting / prime characters at the edges of the text (a backslash before the closing quote of a comment, a leading or trailing prime, a trailing comment, stray quotes, leading / trailing blanks, tabs, a final newline) through all three input channels',
    'names': 'names with combining marks, zero-width joiners, connector punctuation, superscripts and non-ASCII digits in the formula and in the ordering file; variable names of 20, 23, 24, 25, 26, 32, 64 and 200 characters in 3 formulas x 4 ordering files that do not list them last (and none), each with the -r / -o round trip',
    'env': 'hidden inputs: every environment variable the binary announces in --help ([env: NAME=]) or mentions in its sources (env = "NAME", env::var("NAME")) is exported with the values True/False/Any/t/f/0/1 around 12 grid formulas x 6 (-f, -c) combinations; the output must be what the model prints for the command line alone (no such variable exists on the unchanged tree: 0 cases)',
    'random': 'seeded random formulas (monotone-by-construction fixed points, <=6 names) x random option sets (-f, -c, -m, -b, channel) x random ordering files (unused names, duplicates, separators), half of those with round trip',
    'robustbin': 'the binary on seeded arbitrary bytes as formula and as ordering file (raw bytes incl. invalid UTF-8, token soups with huge / non-ASCII numerals, NUL, stray quotes and braces, mutated formulas, nesting up to 200, long chains) x option sets; exit class and absence of a panic message',
    'robustlib': 'in-process tokenize/new/eval plus both DOT renderers under all filters, retain, model and to_free_index on every node of answer and model, under catch_unwind, on seeded arbitrary bytes (same generator); Ok/Err class compared with the model',
}


def cli(parts, exhaustive=False):
    return dict(suite='cli', parts=parts, profile='release', bins='debug', exhaustive=exhaustive,
                rule='; '.join('%s: %s' % (p, CLI_RULE[p]) for p in parts))


GEN_RULE = {
    'queens': 'n_queens_gen -n 0..12 (thorough ..40): output parsed with the real rsbdd parser, the &-chain compared as a multiset of constraints with operand multisets against queens_form n; n = 1..4 solved end to end by the real library against brute force over fsem of the model formula; n = 255, 256, 300, 316, 317, 400, 1000 (thorough also 332, 999, 1001, 1500: the u16 boundary of n and the decimal-width boundaries of the cell number) by constraint count, largest index, number of distinct cell names (n*n) and spelling of every name (v_ + decimal without leading zeros); n = 3163, 10000, 46340, 46341, 50000, 65535 (cell numbers passing 2^31 and 2^32) by the first 6 MB of the stream: well-formed constraint lines over cells below n*n, no panic',
    'sudoku': 'sudoku_gen -r 1 on 17 one-cell texts (digits 0/1/2/9, blanks, quote, non-ASCII digit, ASCII and non-ASCII white space), -r 2 on all single-given and a stride of double-given 4x4 puzzles, seeded random texts for r = 1, 2, 3 (short and over-long input, every blank symbol, digits above r^2, quotes, brackets, white space incl. U+00A0): hints and the three exactly-one families as multisets against sudoku_form r (hints_of_text ..)',
    'clique': 'max_clique_gen on all directed graphs over <=3 vertices x {-u} x {-a}, all undirected graphs over <=4 vertices x {-a}, the same over vertex names that start with the copy prefix (v_a, v_, v__a), seeded random graphs <=7 vertices: constraint multiset, forall list, premise and both counting lists against form_all / form_max over the complement list comp_dir / comp_undir in the iteration order read off the real output; graphs <=4 vertices additionally solved end to end by the real library against brute force over fsem, also through INPUT / OUTPUT files where OUTPUT exists and is longer and the INPUT path contains blanks, a double quote and formula syntax; a fourth of the random graphs and two exhaustive passes use vertex names that collide pairwise under FxHash',
    'graph': 'random_graph_gen on the (V, E) grid V<=6, E<=max+2 x {-u} x {--dot} x 6 runs (thorough 40) and --complete: each real answer (or refusal) judged by the extracted valid_output / feasible; --convert on all edge lists over 3 vertices and random ones x {-u} against read_graph; --colors k=1..3 against the colour graph aug as a set of unordered pairs',
}


def gen(parts):
    ops = {'queens': ['queens', 'queensbig', 'queenshuge', 'queensmodels', 'queenssols'], 'sudoku': ['sudoku'], 'clique': ['clique', 'cliquemodels'],
           'graph': ['graphcheck', 'convert', 'colors']}
    return dict(suite='gen', parts=parts, profile='release', bins='debug', exhaustive=True,
                corpus_ops=[o for p in parts for o in ops[p]],
                rule='; '.join('%s: %s' % (p, GEN_RULE[p]) for p in parts))


def dbg(spec):
    """the same suite against a debug build of the library (overflow checks and debug assertions on)"""
    d = dict(spec)
    d.update(profile='debug', exhaustive=False, rule='debug build of the library (overflow checks, debug assertions): ' + spec['rule'])
    return d


PROPS = {
    'C02': dict(suites=[bdd(['conn', 'quant', 'count', 'fp', 'model', 'retain', 'clean', 'mixed', 'wide']), text(['sym', 'evalx', 'evalid', 'evalwide', 'evalord'], exhaustive=False)]),
    'C01': dict(suites=[text(['tok', 'parse', 'eval', 'evalfp', 'evalwide', 'evalq', 'evalshadow', 'evallong', 'sym', 'evalid', 'evalcoll'])]),
    'C08': dict(suites=[text(['tok', 'parse', 'evallong', 'evalcoll'])]),
    'C09': dict(suites=[text(['eval', 'evalq', 'evalwide', 'evalshadow', 'sym', 'evalcoll'])]),
    'C10': dict(suites=[cli(['grid', 'order', 'size', 'shadow', 'names', 'coll', 'env', 'texts', 'random']), text(['sym'], exhaustive=False)]),
    'C11': dict(suites=[cli(['order', 'names', 'coll', 'random']), text(['evalord', 'evalid', 'sym'])]),
    'C12': dict(suites=[cli(['robustlib', 'robustbin', 'grid', 'size']), text(['evallong'], exhaustive=False), dbg(cli(['robustlib'])), dbg(text(['evallong', 'evalc']))]),
    'C19': dict(suites=[dict(suite='set', parts=[], profile='release', exhaustive=True,
                             rule='setw: sets of 7..64 bits (around 8, 16, 32, 56, 64) with elements that agree on their low 8 / 16 / 32 / 56 bits or differ in the top bit only, inserts, all queries, one binary operation, all queries again, against the machine over binary elements (set_runN; C19_histories_N); set2: two sets of DIFFERENT widths ((3,5), (5,3), (2,16), (1,64), (6,33), ...) in one environment, each used on its own, either one speaking first; complete BFS over all 256 reachable pairs of reference states of two 2-bit sets sharing an environment x all 32 next operations (insert, contains per element; union, intersect, complement for all four operand pairs incl. the same set twice; empty; universe), each followed by all 8 membership queries twice; plus seeded random histories of <=25 operations over 1..5 bits ending in a full membership sweep; answers and both final diagrams are compared')]),
    'C13': dict(lint='c13', suites=[dict(suite='hist', parts=[], profile='release', exhaustive=True,
                             rule='hist: all 1884 operation sequences of length <=3 over a 12-operation alphabet acting on the two latest handles (var, not, and, or, xor, exists, model, retain, mk_choice, clean, counting) in one environment, plus seeded random histories (100 x 100 operations; thorough 2000 x 300) over all public operations incl. fp, with operands drawn from recent and from old handles; after EVERY step: the step re-run in a fresh environment gives the identical result, every earlier handle re-serialises to its recorded text, every node reachable from every handle is pointer-identical to the unique table entry for its structure, both leaves present, every key equals its value. heap: random sequences of direct mk_choice / mk_const calls on earlier results: pointer-equality pattern and table size against the Heap model. histf: 2-6 formula texts evaluated one after the other in ONE environment through ParsedFormula::new_with_env, the same structure recurring under four spellings of the same ids: each result equals the fresh-environment evaluation and the model value, old results keep their structure, equal results are one pointer, table invariants after every step. All table sweeps also require one entry per (id, child addresses)'),
                        bdd(['mixed'], exhaustive=False), text(['sym'], exhaustive=False)]),
    'C14': dict(lint='c14', suites=[dict(suite='dot', parts=[], profile='release', exhaustive=True,
                             rule='dotbdd: BDDGraph DOT text of all 256 functions over two variable triples x filters Any/True/False and of a stride of the 65536 four-variable functions (thorough: all), parsed back: every node id is replaced by the structure it roots through its T/F edges (a missing edge leads to the leaf the filter hides), node set and edge set compared with dot_nodes / dot_edges of the model, plus flags for an id declared twice, two ids rooting the same structure, an undeclared edge end; dotnamed: the same for evaluated random formulas over names needing escaping (quote, non-ASCII), and for 336 fixed-point formulas whose intermediate iterates survive inside the answer and are re-used afterwards, under all six variable orders; dottree: SymbolicParseTree DOT text of 18 hand-picked formulas (every node kind, repeated sub-terms), 42 size cases (binder lists and counting lists of 6, 7, 8, 12, 33, 70 names, names of 20-41 characters) and random formulas, read back as terms from labels and ordered edge labels: node set, edge set and the term rooted at the unique parent-less node compared with the parsed tree'),
                        dict(suite='dot', parts=['files'], profile='release', bins='debug', exhaustive=False,
                             rule='files: the rsbdd binary with --dot FILE --parsetree FILE (and --filter) on the 40 grid formulas x 3 filters and seeded random formulas over names needing escaping; both files read back and compared like dotnamed / dottree')]),
    'C15': dict(suites=[gen(['queens'])]),
    'C16': dict(suites=[gen(['clique'])]),
    'C17': dict(suites=[gen(['sudoku'])]),
    'C18': dict(suites=[gen(['graph'])]),
    'C03': dict(suites=[bdd(['conn', 'wide']), text(['sym', 'evalx', 'evalid'], exhaustive=False)]),
    'C04': dict(suites=[bdd(['quant', 'wide']), text(['evalq', 'evalfp', 'sym'])]),
    'C05': dict(suites=[bdd(['count', 'wide']), text(['evalc', 'sym', 'evalid', 'evalfp']), dbg(bdd(['count'])), dbg(text(['evalc']))]),
    'C06': dict(suites=[bdd(['fp']), text(['evalfp', 'evalshadow', 'sym', 'evalid'], exhaustive=False)]),
    'C07': dict(suites=[bdd(['model', 'wide']), cli(['grid', 'models']), text(['sym'], exhaustive=False)]),
    'C20': dict(suites=[bdd(['retain', 'wide']), cli(['grid', 'env']), text(['sym'], exhaustive=False)]),
}

HOOK_COMMITS = ['d9157ce']
NOT_CLAIMED = {}

NOTE_BDD = ('Trusted: Coq kernel; extraction (ExtrOcamlBasic only) + ocamlopt; the OCaml/Rust/Python glue; the tie between the '
            'hand-written Gallina model of src/bdd.rs and the code is differential testing (exhaustive over the finite operand '
            'spaces named in the evidence, seeded random beyond), not proof. Diagrams are modelled as immutable trees '
            '(Rc sharing and the unique table are the subject of C13). '
            'For C03, C04, C05, C07 and C20 additionally a TIE BY TRANSLATION, re-derived on every run (lib/vlib/srcfun.py, trusted): not, and, or, exists_impl, exists, all, model, retain_choice_bottom_up, infer, implies, ite, eq, xor, nor, nand, var, cmp_count, aln, amn, exn, cmp_count_compare and the five list-against-list comparisons are re-read from src/bdd.rs - match arms in source order, guards, let / if chains, compositions, recursion over a slice - emitted as Gallina functions and proved equal to the model functions for all operands (28 generated obligations src_<f>_ok / *_guards_total, the latter: the unsupported-match arm is unreachable); a source whose shape the reader does not recognise is noted, not reported.')


def _t(pid, text, note=NOTE_BDD, **kw):
    PROPS[pid].update(level_text=text, level_note=note, **kw)


_t('C02', 'Theorems (all diagrams, no bound): reduced ordered diagrams are equal iff they denote the same function (C02_canonical); every '
          'diagram in the inductive closure Reach of all 27 public operations, incl. fp under any shape-preserving transformer, is ordered '
          'and reduced (C02_reach), hence valid = T and unsat = F. The model is tied to src/bdd.rs by running every operation on both sides '
          '(about 1M cases per quick run) and comparing result trees structurally; a non-canonical real result is reported with the operation and operands.')
_t('C03', 'Theorems for all operand diagrams and all assignments, with no ordering hypothesis: beval s (op a b) = op (beval s a) (beval s b) for '
          'and/or/not/implies/eq/xor/nor/nand/ite, var and const. The model functions are the Rust match arms verbatim (fuelled, with unfolding '
          'equations); correspondence is exhaustive over all 65 536 operand pairs of 3-variable functions on interleaved variable triples x 7 connectives, '
          'all ite triples of 2-variable functions, plus random larger operands; operands are re-serialised after the call.')
_t('C04', 'Theorems for all diagrams and all variable lists: exists/all are true iff some/every re-assignment of the listed variables satisfies f '
          '(C04_exists, C04_all), results are independent of listed variables (C04_indep), lists with equal element sets give identical results '
          '(C04_equal_sets: order, repetition), disjoint or empty lists return f itself (C04_disjoint). Correspondence: all 156 lists of length <=3 over '
          'ids above/inside/below the support x all 256 functions x {exists, all}, plus random.')
_t('C05', 'Theorems with no hypothesis on operands or bound (Z arithmetic): aln/amn/exn and the five list-vs-list comparisons denote the comparison of '
          'count_true (C05_aln … C05_eq), and the language-level mapping of <, > and of every literal n : N incl. the clamp for n >= 2^63 (C05_lang). '
          'Correspondence: exhaustive operand lists over the 16 two-variable functions x bounds -3..6, list-vs-list grids, random lists with bounds at '
          '+-len and at the i64 limits. The language-level half is additionally exercised by the C01 suites.')
_t('C06', 'Theorems: exact characterisation of the library iterator fp (C06_fp: the first iterate that t maps to itself); the substitution/scoping lemma for fixed-point names with both shadowing cases (C06_scope); a syntactic criterion for monotonicity (C06_lfp_positive / C06_gfp_positive, from mono_pos): for EVERY fixed-point-free body in which every free occurrence of X has positive polarity - under and/or/if-branches/quantifiers/at-least counting/an even number of negations - evaluation of lfp X # T / gfp X # T terminates at a reduced ordered r that is a fixed point of the body and below every pre-fixed point / above every post-fixed point among all denotations; the same for semantically monotone fix-free bodies (C06_lfp, C06_gfp). NESTED and MIXED fixed points: when every fixed-point binder of the formula (inner ones included) binds a name that is positive in its own body (posfix), the meaning is monotone / antitone in every name of positive / negative polarity in every environment (C06_monotone, by comparing the two inner iterations through the fixed point reached by the other one), evaluation of the whole formula terminates (C06_terminates, by induction on size with the inner iteration of FixLang) and lfp X # T / gfp X # T end at the least / greatest fixed point of the body (C06_lfp_nested, C06_gfp_nested); shadowing is part of the criterion (an inner binder on X ends the scope of X). '
          'Correspondence for the iterator: fp programs '
          'over 3 variables with constant, chain, identity, negation (divergent) and random monotone / arbitrary bodies, some nested; language-level fixed points are exercised by the C01 suites.')
_t('C07', 'Theorems for all reduced ordered diagrams: model(a) = F iff a is unsatisfiable; otherwise it is a cube, reduced and ordered, over variables of a, and '
          'implies a (C07_unsat, C07_cube); infer answers (true,true) iff the variable is forced (C07_infer). Correspondence: model on all 65 536 functions of 4 '
          'variables, infer on a stride of them; on a difference the extracted checker verdict_model (sound by verdict_model_holds) decides whether the real answer is still a genuine cube.')
_t('C20', 'Theorems for all diagrams: retain with True is implied by f, with False implies f, with Any is f (C20_true/false/any), and the result is reduced, ordered and '
          'mentions only variables of f (C20_shape). Correspondence: all 65 536 functions of 4 variables x 3 filters; on a difference the extracted checker '
          'verdict_retain (sound by verdict_retain_holds) decides whether the real answer still satisfies the property.')

NOTE_TEXT = ('Trusted: Coq kernel; extraction + ocamlopt; OCaml/Rust/Python glue. The lexer model is a hand-written scanner; the regex engine is not modelled, and the '
             'class (word/digit/other) of each code point >= 128 is supplied per case by the real regex crate. The tie between the Gallina lexer/parser/evaluator and '
             'src/parser.rs is differential testing (exhaustive over short strings / token sequences, seeded random beyond). References ({name}) always evaluate to false, '
             'as in every run of the CLI. A diverging fixed point is observed through the rsbdd_verif hook (iteration cap) on the real side and fuel exhaustion in the model.')
_t('C01', 'Theorems for the whole language (all connectives and spellings via the token table, ite, quantifier lists, the five counting comparisons against constants and lists, '
          'nested fixed points with shadowing): eval_f n f = Some b implies Den empty f (beval . b) and robdd b (C01_sound); every denotation is reached by eval_f with some fuel '
          '(C01_complete); hence b = T iff valid and b = F iff unsatisfiable (C01_valid/unsat). Den is the documented semantics written as a Prop-valued recursive function. '
          'Correspondence: tokenizer, parser and evaluator of src/parser.rs against tokenize/parse/eval_f on ~680k texts per quick run (result diagrams compared structurally, variables by id after the id assignment itself is compared).',
   NOTE_TEXT)
_t('C08', 'Theorems: the scanner satisfies the maximal-munch lexing relation Lexes for every text and that relation is functional, so the scanner output is THE tokenisation (C08_lex, C08_lex_unique); for every text that tokenizes, parse ts = Ok f iff G_formula ts f for the unambiguous '
          'closed/open grammar (C08_parse: soundness and completeness, all 32 token kinds, optional trailing commas, right-associative operators without precedence, bodies extending right), and derivations are unique (C08_unique); the parser is onto: every syntax tree without embedded diagram is the parse of its fully bracketed print-out, parse (unparse f ++ [Eof]) = Ok f, and parser output never contains an embedded diagram (C08_print_parse, C08_parse_trees). '
          'TIE BY TRANSLATION, re-derived on every run (lib/vlib/srctab.py): the symbol alternation of the TOKENIZER regex and the literal arms of the two matches of tokenize are re-read from src/parser.rs and coqc checks source_symbols (forall l: leftmost-first alternation + symbol arms = scan_symbol / token_of_sym) and source_keywords (keyword arms = keyword table) through C08_source_symbols / C08_source_keywords; every string literal of the tokenizer is then run through both sides, so an ADDED spelling - which no generator writes - is itself the failing input. Correspondence: all strings <=4 over a 23-character alphabet (every regex alternation), all keyword/symbol spellings pairwise, all token sequences <=3 over 36 tokens and 4 over 20, plus random and mutated texts; any accept/reject or tree difference is itself a failing input because the model verdict is the grammar verdict.',
   NOTE_TEXT)
_t('C09', 'Theorems: var_is_free f x holds iff x has an occurrence not enclosed by a binder of x (C09_free, over the explicit occurrence list occ f), and the support of the evaluated diagram is included in the free variables (C09_support, proved semantically via independence and essentiality of support variables). '
          'vars/free_vars as computed by new_with_env are modelled in Cli/Pipeline.v (sorted, duplicate-free, free = filter var_is_free). Correspondence: vars, free_vars and the support of the real result on every S-eval case (binder-only names, shadowing, names both bound and free).',
   NOTE_TEXT)

NOTE_CLI = ('Trusted: Coq kernel; extraction + ocamlopt; glue. Modelled, not verified: clap/argfile/wild argument parsing, file and pipe I/O, text padding of the table '
            '(rows are parsed back by splitting on "|"), the timing output of -b. The binary is built from /repo (debug profile, overflow checks on) and run as a child process; '
            'rows and -v lines are compared as sets. Run-time phenomena no Gallina model exhibits (stack depth, allocation failure, closed stdout) are covered only by the robustness runs.')
_t('C10', 'Theorem C10_cli (end to end over the pipeline model): whenever cli prints, there are a duplicate-free column list (one header name per free variable) and a row list such that every total assignment matches exactly one row, whose result is the value of the printed diagram; the printed rows are exactly those the filter keeps and the -v lines exactly the true rows; C10_bench: any repetition count >= 1 yields the single evaluation. Underlying theorems: for an ordered diagram whose support lies in the duplicate-free column list, the printer model returns rows such that every assignment matches exactly one row and that row carries beval (C10_partition; '
          'no lookup failure, i.e. no panic); the filtered table is the filter of the full table (C10_filter), the -v lines are the true rows (C10_vars). The pipeline that produces header, columns and the printed diagram (tokens -> vars -> free_vars -> eval -> retain -> model) is the Gallina function cli. '
          'Correspondence: the real binary against cli on the option grid (15 filter spellings, 3 channels, -c, -m, -b), all small orderings, random formulas/options/ordering files: header, row set, -v set.', NOTE_CLI)
_t('C11', 'Theorem C11_text (over texts, no bound): the same formula text evaluated under ANY two orderings with pairwise distinct ids (permutations, subsets, supersets with unused names anywhere) yields diagrams that denote the same function of the NAMED variables. Proved through: tokens are a function of the final id table (classify_render), two runs differ by an id renaming that respects names (render_rename), the grammar is closed under id renaming and the parser is the grammar (C08), C11_meaning (renaming by any map with a left inverse renames the denotation). C11_file_orderings: the orderings the binary reads from a file have distinct ids. '
          'C11_rank_iso: two id assignments related by a strictly increasing map (in particular sparse 64-bit ids and their ranks) yield the SAME diagram up to that renaming - by canonicity, both being reduced, ordered and equivalent - which is what lets S-text/evalid compare arbitrary ids with the model in rank space. C11_roundtrip: if the list exported with -r is read back as the ordering of a second run, the second run prints the identical header, rows, -v lines and -r list, for every formula, first ordering and -f / -c / -m (the second run numbers the variables by their position in the order of the first run, an order isomorphism on the variables of the text; the diagram is the first one renamed, and retain, model and both printers commute with the renaming). C11_roundtrip_export: the same through the exported TEXT (each name followed by a newline): the names -r prints are distinct non-keyword identifiers of the formula text, an identifier followed by a newline is a maximal lexeme and nothing starts at a newline, so the file lexes back to exactly that list (by uniqueness of the lexing relation). That the second run answers is proved as well (C11_roundtrip_total: whether the tokenizer answers depends on the text only, the grammar is closed under renaming and the parser complete, the renamed formula has the renamed denotation and every denotation is reached by the evaluator, the printers do not fail by C12_no_panic): if the first run prints, then for every sufficient fuel the run that reads the exported text back prints, and prints the identical output. That listed variables are ORDERED as in the file is C11_file_order together with C10_header (header order and round trip on the real binary). '
          'Correspondence: 12 formulas x all 65 orderings over {a,b,c,u} incl. supersets with unused names in every position, duplicate/punctuation/keyword files, random ordering files; header order, row set by name, -r list, and the -r/-o round trip on the real binary.', NOTE_CLI)
_t('C12', 'Theorem C12_no_panic: for EVERY fuel, code-point classification, option set (-f, -c, -m, -b), ordering-file text and formula text, the pipeline model cli (ordering file, tokenize, parse, vars, free_vars, eval, retain, model, both table printers) never returns CliPanic, i.e. no column lookup in either printer fails on the diagram that is printed (answer, retained answer, or a model of either). Proved from: every variable of a parsed tree is an identifier token and parser output has no embedded diagram (parse_vars, by induction over the grammar); the support of the answer consists of proper free occurrences (support_fv); retain and model keep shape and shrink the support; vars is duplicate-free (pf_vars_spec); the partition theorem. Also C12_table and C12_eval (fixed-point-free formulas always evaluate); C12_error_iff: the pipeline reports an error exactly when the ordering file, the tokenizer or the parser rejects, for every fuel; C12_answers: every other text whose fixed-point binders are positive in their own bodies (all lfp/gfp-free texts among them) is printed once the fuel suffices - no divergence and no printer failure. '
          'The tokenizer/parser/evaluator model returns Error (never a panic value) on every input, and the correspondence shows the implementation returns Err exactly there. Partial by nature: stack exhaustion, allocation failure, clap and I/O are run-time behaviour. '
          'Correspondence: 40k in-process arbitrary byte strings per quick run through tokenize/new/eval, both DOT renderers, retain, model, to_free_index under catch_unwind; 1000 runs of the binary on arbitrary bytes as formula and ordering file with random options (exit status 0/1/2, no panic message); the option grid.', NOTE_CLI)

_t('C19', 'Theorems: every operation of the (repaired) BDDSet state machine on two sets sharing an environment commutes with the abstraction to membership predicates and preserves the invariant "reduced, ordered, support below bits" (per step), so for every operation list with elements below 2^bits all query answers equal those of reference sets that underwent the same operations (C19_histories, from C19_initial), '
          'and a query leaves the state unchanged (C19_query_pure). The same set may be both operands (the model is pure; the RefCell borrow discipline is the run-time remainder). '
          'Correspondence: complete BFS over all 256 reachable reference state pairs for 2 bits x all 32 next operations incl. self-aliasing operands, all memberships queried twice afterwards, final diagrams compared structurally; random histories up to 5 bits.',
   'Trusted: Coq kernel; extraction + ocamlopt; glue. RefCell aliasing (a run-time panic) cannot be exhibited by the pure model; it is covered by the self-aliasing transitions of the BFS. categorize (bit is 0) is modelled as negb (testbit e c).')

_t('C13', 'Theorems about the unique-table ADT (cells + association table): for EVERY finite sequence of mk_choice / mk_const calls whose pointer arguments were handed out earlier, the table invariant holds (keys are the structures of their values, keys pairwise distinct, children of table nodes are table nodes, both leaves present, acyclic), every old pointer keeps its structure (C13_histories), pointer equality coincides with structural equality on handed-out pointers (C13_sharing), and mk_choice returns a pointer whose structure is mk of the operand structures (C13_refine) - so results are functions of operand structures only, which is what the tree model of C02-C07 assumes. '
          'The operations as clients of the ADT (Env/HeapOps.v): not, and, or and exists_impl written over addresses as src/bdd.rs writes them over Rc pointers (read the operands\' cells, recurse, finish with mk_choice / mk_const) keep the invariant, leave every earlier pointer valid and unchanged and return a pointer whose structure is the tree model\'s result (C13_not_client, C13_and_client, C13_or_client; generic in the leaf cases); the same for every composition of them, operands evaluated left to right (C13_connectives_client over a small program language: implies, ite, eq, xor, nor, nand, var, const, exists / all over lists, the counting cascade, C13_derived_programs); with fuel above the operand heights the recursion answers, i.e. the `unsupported match` arm is unreachable (C13_and_total). likewise model, retain_choice_bottom_up, clean and fp with any client transformer (C13_model_client, C13_retain_client, C13_clean_client, C13_fp_client: fp stops exactly where the tree-level iteration stops, `snew == s` being pointer equality by sharing). Partial: that the Rust functions ARE these address-level programs is checked, not proved: a source lint (nodes touched only in size/mk_choice/mk_const/find/new; Choice allocated only in mk_choice/From) plus the dynamic sweep of suite S-hist after every step of every history (fresh-environment re-run identical, all old handles unchanged, Rc::ptr_eq of every reachable node with its table entry).',
   'Trusted: Coq kernel; extraction + ocamlopt; glue. The Heap model abstracts FxHashMap<BDD, Rc<BDD>> as an association list keyed by structure and Rc pointers as addresses; hashing itself (derive(Hash), FxHasher) is not modelled. Operations-are-ADT-clients is established by lint and run-time check only.')

_t('C14', 'Theorems about the export functions as lists of (structure, label, structure): the node list has no repetition under every filter (C14_nodes_once); with filter Any every edge joins declared nodes (C14_edges_declared) and following from the root the edge labelled with each tested variable\'s value reaches the leaf beval (C14_walk: the graph denotes the same function); '
          'with filter True/False exactly the nodes and edges of the Any export minus the hidden leaf and the edges into it remain (C14_filter_nodes, C14_filter_edges); every syntax node is determined by its label and its ordered edge labels (C14_tree_node) and the root has no parent. Node identity in the model is the structure; that the real ids (allocation addresses) coincide with structure is C13. '
          'Correspondence: the real DOT text is parsed back (own reader incl. Rust escape_default un-escaping and the label grammar) and node/edge sets and read-back term are compared with the model on all 3-variable functions x 3 filters, a stride of 4-variable ones, random named diagrams and random syntax trees.',
   'Trusted: Coq kernel; extraction + ocamlopt; glue, in particular the DOT reader of the harness (statement syntax of the dot crate, escape_default un-escaping, label grammar of parser_io.rs). The dot crate itself and its escaping are not modelled. Reference names are not distinguished by the model (a reference carries no payload).')

NOTE_GEN = ('Trusted: Coq kernel; extraction + ocamlopt; glue (the harness parses generator output with the real rsbdd parser and canonicalises the &-chain; the driver does the same to the model formula). '
            'Not modelled: clap, csv parsing, file I/O, the header comments. Hash-set iteration order (max_clique_gen, augment_colors) is a parameter of the theorems; the check reads the order off the real output or compares as sets. '
            'fsem is the executable reference semantics, proved to agree with Den on fixed-point-free formulas. '
            'C15 / C17 additionally: the translator lib/vlib/srcloops.py (Rust for-loops over ranges, let bindings, usize expressions and the map/format!/join idiom to Gallina comprehensions) is trusted for the tie by translation; what it does not read (argument parsing, puzzle text handling, the rendering by write!) is tied by the correspondence only.')
_t('C15', 'Theorem for EVERY board size n >= 1: the emitted formula (six loop families as maps over seq, right-nested &-chain ending in true) is satisfied by an assignment iff it places exactly one queen per row and per column and no two on a common diagonal (C15, through coordinates and index identities, no bound on n); the token stream the generator prints (one list per line with a trailing comma, <= 1 / = 1, joined by &, closed by true) parses to exactly that formula (C15_text, by completeness of the parser for the grammar). TIE BY TRANSLATION, re-derived on every run (lib/vlib/srcloops.py): the six for-nests of n_queens_gen/src/main.rs as they stand - ranges, index expressions, the comparison after each list - are translated to Gallina comprehensions and coqc checks, for ALL n, that no subtraction underflows inside the loops, that each nest is the corresponding family of the model (extensionality + lia/nia), hence source_loops: the printed items are queens_items n, and source_queens: for n >= 1 the printed tokens parse to a formula whose models are exactly the n-queens solutions (15 generated obligations). '
          'Correspondence: the real generator output, parsed by the real parser, equals queens_form n as a multiset of constraints for n = 0..12; n <= 4 solved end to end; the u16 boundary (255, 256, 300) by shape.', NOTE_GEN)
_t('C16', 'Theorems: with the complement list the generator builds (comp_dir / comp_undir, proved sound and complete for adjacency in both directions / in either direction), the --all formula is satisfied exactly by the cliques and the default formula exactly by the cliques of maximum cardinality, for every vertex order, provided the copy naming is injective and fresh (C16_all_*, C16_max_undirected); the prefix loop of the repaired generator yields such copies (Prefix.v); the printed token streams - one -(a & b) & per complement pair or true &, then true or forall copies # ( .. ) => [vertices] >= [copies] - parse to exactly form_all / form_max (C16_text_all, C16_text_max). '
          'Correspondence: all small graphs x flags incl. vertex names that start with v_, against form_all / form_max; graphs <= 4 vertices solved end to end.', NOTE_GEN)
_t('C17', 'Theorem for every root r and hint list with cells below r^4 and digits in 1..r^2: the emitted formula is satisfied iff the assignment encodes a grid that keeps the hints and has every number once per row, column and box (C17; boxes through a ring identity and one div/mod). The hint reader (white space stripped, position below r^4, ASCII digit) is hints_of_text; the printed token stream (hint variables, then the = 1 lists, joined by &, closed by true) parses to exactly that formula (C17_tokens). TIE BY TRANSLATION, re-derived on every run: the three constraint nests of sudoku_gen/src/main.rs (depth 1-3, let bindings, lists built by map/format!/join) are translated and proved, for ALL r, to be cell_lists / rowcol_lists / box_lists, every divisor positive, hence source_sudoku: the printed tokens parse to a formula satisfied exactly by encodings of completed grids that keep the hints (7 generated obligations); the hint reading before the loops stays with the correspondence. '
          'Digits 0 or above r^2 only force an auxiliary variable (outside the theorem\'s hypothesis, compared by correspondence). Correspondence: hints and constraint families as multisets for r = 1, 2, 3 on exhaustive small and random texts; the output must be a formula (D9).', NOTE_GEN)
_t('C18', 'Theorems: for EVERY permutation the shuffle may return, a feasible request yields exactly E distinct candidate edges between distinct vertices below V (no pair in both orientations under -u) and an infeasible one is refused (C18_gen); the executable valid_output accepts exactly such answers (valid_output_sound, gen_graph_valid); --convert is the identity / merges reversed duplicates (C18_convert, C18_convert_u); a clique of the colour graph covering every vertex exists iff the input is k-colourable (C18_colours). '
          'The randomness itself cannot be exhibited by a model: every real answer is judged by the extracted valid_output. Correspondence: (V,E) grid x flags x repeated runs; convert and colours on all small edge lists.', NOTE_GEN)

# the tokenizer's tables are re-read from the source and their agreement with the model re-proved on every run (lib/vlib/srctab.py)
PROPS['C08']['srctab'] = True
# the loop nests of two generators are re-read from the source and proved equal to the model for all sizes (lib/vlib/srcloops.py)
PROPS['C15']['srcloops'] = 'queens'
PROPS['C17']['srcloops'] = 'sudoku'
# the connectives of src/bdd.rs are re-read from the source and proved equal to the model functions (lib/vlib/srcfun.py)
for _p in ('C03', 'C04', 'C05', 'C07', 'C20'):
    PROPS[_p]['srcfun'] = True
PROPS['C01']['srctab'] = True

# the state lint runs with every property whose model is the state-free tree model of the library
# C13 through the set API as well: every BDDSet history ends with the table sweep of S-hist
PROPS['C13']['suites'].append(dict(PROPS['C19']['suites'][0], exhaustive=False))
for _p in ('C01', 'C02', 'C03', 'C04', 'C05', 'C06', 'C07', 'C09', 'C13', 'C19', 'C20'):
    PROPS[_p]['state_lint'] = True
