"""Which theorem file and which correspondence suites decide each property (DESIGN.md §6 summary)."""

# verdict tokens (printed by the driver's classifier, computed by the extracted Coq checkers) that
# mean "the property's own clause fails on this input" for each property
FAIL = {
    'C02': ('shape',),
    'C03': ('sem', 'no-result'),
    'C04': ('sem', 'no-result'),
    'C05': ('sem', 'no-result'),
    'C06': ('sem', 'no-result'),
    'C07': ('clause', 'no-result'),
    'C20': ('clause', 'shape', 'no-result'),
}

BDD_RULE = {
    'conn': 'exhaustive: all 256x256 pairs of 3-variable functions over interleaved variable triples x 7 binary connectives, all 16^3 triples of 2-variable functions for ite, not/literals over 4 triples, var, const; operand-immutability and hash-consistency on a strided subset; plus seeded random operands over <=6 sparse variables',
    'quant': 'exhaustive: all 156 variable lists of length <=3 over ids 0..4 (above, inside, below the support {1,2,3}, repeats) x all 256 functions x {exists, all}, exists_impl per id; plus seeded random functions over <=7 sparse variables with lists <=5',
    'count': 'exhaustive: all operand lists of length <=2 (thorough <=3) over the 16 two-variable functions x n in [-3,6] x {aln,amn,exn}; length 3 over a 7-function alphabet; list-vs-list comparisons over lists <=1 (thorough <=2) and <=2 over the reduced alphabet x 5 comparisons; plus seeded random lists <=6 with bounds near +-len and near the i64 limits (side condition respected)',
    'fp': 'fp(init, t) with t a term over X: constant, or-with-exists and and-with-forall chains for all 256 functions over 3 variables from F and T, identity and negation (diverges), plus seeded random monotone-by-construction (3/4) and arbitrary (1/4) bodies, some nested',
    'model': 'exhaustive: model of all 65536 functions of 4 variables, infer on every 16th (thorough: all) for 5 ids, also on the extracted model; plus seeded random functions over <=7 sparse variables',
    'retain': 'exhaustive: retain_choice_bottom_up of all 65536 functions of 4 variables x {True,False,Any}; plus seeded random',
    'clean': 'exhaustive: clean of all 65536 functions of 4 variables; plus seeded random',
    'mixed': 'seeded random programs of depth <=3 mixing all public operations (connectives, counting, quantifiers, model, retain, clean, monotone fp), most of them in one long-lived environment',
}


def bdd(parts, exhaustive=True):
    return dict(suite='bdd', parts=parts, profile='release', exhaustive=exhaustive,
                rule='; '.join('%s: %s' % (p, BDD_RULE[p]) for p in parts))


PROPS = {
    'C02': dict(suites=[bdd(['conn', 'quant', 'count', 'fp', 'model', 'retain', 'clean', 'mixed'])]),
    'C03': dict(suites=[bdd(['conn'])]),
    'C04': dict(suites=[bdd(['quant'])]),
    'C05': dict(suites=[bdd(['count'])]),
    'C06': dict(suites=[bdd(['fp'])]),
    'C07': dict(suites=[bdd(['model'])]),
    'C20': dict(suites=[bdd(['retain'])]),
}

HOOK_COMMITS = []
NOT_CLAIMED = {}

NOTE_BDD = ('Trusted: Coq kernel; extraction (ExtrOcamlBasic only) + ocamlopt; the OCaml/Rust/Python glue; the tie between the '
            'hand-written Gallina model of src/bdd.rs and the code is differential testing (exhaustive over the finite operand '
            'spaces named in the evidence, seeded random beyond), not proof. Diagrams are modelled as immutable trees '
            '(Rc sharing and the unique table are the subject of C13).')


def _t(pid, text, note=NOTE_BDD, **kw):
    PROPS[pid].update(level_text=text, level_note=note, **kw)


_t('C02', 'Theorems (all diagrams, no bound): reduced ordered diagrams are equal iff they denote the same function (C02_canonical); every '
          'diagram in the inductive closure Reach of all 27 public operations, incl. fp under any shape-preserving transformer, is ordered '
          'and reduced (C02_reach), hence valid = T and unsat = F. The model is tied to src/bdd.rs by running every operation on both sides '
          '(about 1M cases per quick run) and comparing result trees structurally; a non-canonical real result is reported with the operation and operands.')
_t('C03', 'Theorems for all operand diagrams and all assignments, with no ordering hypothesis: beval s (op a b) = op (beval s a) (beval s b) for '
          'and/or/not/implies/eq/xor/nor/nand/ite, var and const. The model functions are the Rust match arms verbatim (fuelled, with unfolding '
          'equations); correspondence is exhaustive over all 65 536 operand pairs of 3-variable functions on interleaved variable triples x 7 connectives, '
          'all ite triples of 2-variable functions, plus random larger operands; operands are re-serialised after the call.')
_t('C04', 'Theorems for all diagrams and all variable lists: exists/all are true iff some/every re-assignment of the listed variables satisfies f '
          '(C04_exists, C04_all), results are independent of listed variables (C04_indep), lists with equal element sets give identical results '
          '(C04_equal_sets: order, repetition), disjoint or empty lists return f itself (C04_disjoint). Correspondence: all 156 lists of length <=3 over '
          'ids above/inside/below the support x all 256 functions x {exists, all}, plus random.')
_t('C05', 'Theorems with no hypothesis on operands or bound (Z arithmetic): aln/amn/exn and the five list-vs-list comparisons denote the comparison of '
          'count_true (C05_aln … C05_eq), and the language-level mapping of <, > and of every literal n : N incl. the clamp for n >= 2^63 (C05_lang). '
          'Correspondence: exhaustive operand lists over the 16 two-variable functions x bounds -3..6, list-vs-list grids, random lists with bounds at '
          '+-len and at the i64 limits. The language-level half is additionally exercised by the C01 suites.')
_t('C06', 'Theorems: exact characterisation of the library iterator fp (C06_fp: the first iterate that t maps to itself), the substitution/scoping lemma '
          'for fixed-point names (C06_scope), and for fix-free monotone bodies termination of evaluation at a reduced ordered r that is a fixed point and '
          'below every pre-fixed point / above every post-fixed point among all denotations (C06_lfp, C06_gfp). Correspondence for the iterator: fp programs '
          'over 3 variables with constant, chain, identity, negation (divergent) and random monotone / arbitrary bodies, some nested; language-level fixed points are exercised by the C01 suites.')
_t('C07', 'Theorems for all reduced ordered diagrams: model(a) = F iff a is unsatisfiable; otherwise it is a cube, reduced and ordered, over variables of a, and '
          'implies a (C07_unsat, C07_cube); infer answers (true,true) iff the variable is forced (C07_infer). Correspondence: model on all 65 536 functions of 4 '
          'variables, infer on a stride of them; on a difference the extracted checker verdict_model (sound by verdict_model_holds) decides whether the real answer is still a genuine cube.')
_t('C20', 'Theorems for all diagrams: retain with True is implied by f, with False implies f, with Any is f (C20_true/false/any), and the result is reduced, ordered and '
          'mentions only variables of f (C20_shape). Correspondence: all 65 536 functions of 4 variables x 3 filters; on a difference the extracted checker '
          'verdict_retain (sound by verdict_retain_holds) decides whether the real answer still satisfies the property.')
