"""Source-derived function (tie by translation, C09): `ParsedFormula::var_is_free` of /repo/src/parser.rs is re-read on every
run - the match over the syntax constructors, the boolean expression of every arm (`||`, `&&`, `!`, `==`, `!=`,
`vars.contains(var)`, `list.iter().any(|f| ..)`, `if .. else ..`) - emitted as a Gallina function over the model's syntax
trees and proved equal to the model's `var_is_free` for all formulas and variables (obligation src_var_is_free_ok).
The arm for defined references (`{name}`) is compared with its pinned text: the model has no definitions (an undefined
reference counts as "every variable free", as in the code); `unimplemented!()` for an embedded diagram is `false` in the model,
which parser output never contains (C08_parse_trees).  Trusted: this translator."""
import os
import re

from . import build
from .srcfun import Shape, lex

CTOR = {'Var': ('FVar', 1), 'Quantifier': ('FQuant', 3), 'Ite': ('FIte', 3), 'Not': ('FNot', 1), 'BinaryOp': ('FBin', 3),
        'CountableConst': ('FCountC', 3), 'CountableVariable': ('FCountV', 3), 'FixedPoint': ('FFix', 3), 'Subtree': ('FSub', 1),
        'True': ('FTrue', 0), 'False': ('FFalse', 0), 'Reference': ('FRef', 1)}
REF_ARM = 'self . get_definition ( name ) . map_or_else ( || true , | f | match f { ReferenceContents :: Syntax ( syntax ) => self . var_is_free ( & syntax , var ) , ReferenceContents :: BDD ( _ ) => true , } , )'


class B:
    def __init__(self, toks, fname, params):
        self.t, self.i, self.fname, self.params = toks, 0, fname, params

    def peek(self, k=0):
        return self.t[self.i + k] if self.i + k < len(self.t) else None

    def eat(self, x=None):
        tok = self.peek()
        if tok is None or (x is not None and tok != x):
            raise Shape('expected %r, got %r' % (x, tok))
        self.i += 1
        return tok

    def ident(self):
        if self.peek() == '&':
            self.eat()
        tok = self.eat()
        if not re.fullmatch(r'[A-Za-z_]\w*', tok):
            raise Shape('identifier expected, got %r' % tok)
        return tok

    def bexpr(self):
        e = self.bterm()
        while self.peek() == '||':
            self.eat()
            e = '(%s || %s)' % (e, self.bterm())
        return e

    def bterm(self):
        e = self.bfact()
        while self.peek() == '&&':
            self.eat()
            e = '(%s && %s)' % (e, self.bfact())
        return e

    def bfact(self):
        tok = self.peek()
        if tok == '!':
            self.eat()
            return '(negb %s)' % self.bfact()
        if tok == '(':
            self.eat('(')
            e = self.bexpr()
            self.eat(')')
            return e
        if tok == '{':
            self.eat('{')
            e = self.bexpr()
            self.eat('}')
            return e
        if tok == 'if':
            self.eat('if')
            c = self.bexpr()
            self.eat('{'); a = self.bexpr(); self.eat('}')
            self.eat('else')
            self.eat('{'); b = self.bexpr(); self.eat('}')
            return '(if %s then %s else %s)' % (c, a, b)
        if tok in ('true', 'false'):
            return self.eat()
        if tok == 'unimplemented!':
            self.eat(); self.eat('('); self.eat(')')
            return 'false'
        if tok == 'self':
            self.eat(); self.eat('.')
            if self.eat() != self.fname:
                raise Shape('call of another method')
            self.eat('(')
            a = self.ident(); self.eat(','); b = self.ident()
            if self.peek() == ',':
                self.eat(',')
            self.eat(')')
            return '(src_%s %s %s)' % (self.fname, a, b)
        x = self.ident()
        if self.peek() == '.':
            self.eat('.')
            m = self.eat()
            if m == 'contains':
                self.eat('('); y = self.ident(); self.eat(')')
                return '(mem_nat %s %s)' % (y, x)
            if m == 'iter':
                self.eat('('); self.eat(')'); self.eat('.')
                if self.eat() != 'any':
                    raise Shape('iterator adaptor')
                self.eat('('); self.eat('|'); v = self.eat(); self.eat('|')
                e = self.bexpr()
                self.eat(')')
                return '(existsb (fun %s => %s) %s)' % (v, e, x)
            raise Shape('method .%s' % m)
        op = self.eat()
        if op not in ('==', '!='):
            raise Shape('operator %s' % op)
        y = self.ident()
        e = '(Nat.eqb %s %s)' % (x, y)
        return e if op == '==' else '(negb %s)' % e


def fn_text(src, name):
    m = re.search(r'\bfn\s+%s\s*\(' % re.escape(name), src)
    if not m:
        raise Shape('fn %s not found' % name)
    i, depth = m.end() - 1, 0
    while True:
        c = src[i]
        depth += c == '('
        depth -= c == ')'
        i += 1
        if depth == 0:
            break
    params = [x for x in re.findall(r'(\w+)\s*:', src[m.end():i - 1])]
    b = src.index('{', i)
    depth, j = 0, b
    while True:
        c = src[j]
        if c == '"':
            j += 1
            while src[j] != '"':
                j += 2 if src[j] == '\\' else 1
        depth += c == '{'
        depth -= c == '}'
        j += 1
        if depth == 0:
            break
    return params, src[b:j]


def gallina(src):
    params, body = fn_text(src, 'var_is_free')
    if len(params) != 2:
        raise Shape('var_is_free takes %s' % params)
    fo, va = params
    toks = lex(body)
    p = B(toks, 'var_is_free', params)
    p.eat('{'); p.eat('match'); 
    if p.eat() != fo:
        raise Shape('match on %s expected' % fo)
    p.eat('{')
    clauses, seen = [], set()
    while p.peek() != '}':
        pats = []
        while True:
            if p.eat() != 'SymbolicBDD' or p.eat() != '::':
                raise Shape('pattern')
            c = p.eat()
            if c not in CTOR:
                raise Shape('constructor %s' % c)
            g, ar = CTOR[c]
            names = []
            if p.peek() == '(':
                p.eat('(')
                while p.peek() != ')':
                    names.append(p.eat())
                    if p.peek() == ',':
                        p.eat(',')
                p.eat(')')
            if len(names) != ar and not (c == 'Reference' and len(names) == 1):
                raise Shape('arity of %s' % c)
            names = ['_' if n.startswith('_') else n for n in names]
            if va in names or fo in names:
                raise Shape('a pattern variable shadows a parameter')
            pats.append((c, g, names))
            if p.peek() == '|':
                p.eat('|')
                continue
            break
        p.eat('=>')
        if pats[0][0] == 'Reference':
            # opaque arm: pinned text
            start, depth = p.i, 0
            while True:
                tok = p.peek()
                if tok in ('(', '{', '['):
                    depth += 1
                elif tok in (')', '}', ']'):
                    if depth == 0:
                        break
                    depth -= 1
                elif tok == ',' and depth == 0:
                    break
                p.i += 1
            text = ' '.join(p.t[start:p.i]).strip()
            if text.startswith('{') and text.endswith('}'):
                text = text[1:-1].strip()
            if text != REF_ARM:
                raise Shape('the arm for references changed')
            e = 'true'
        else:
            e = p.bexpr()
        if p.peek() == ',':
            p.eat(',')
        gp = []
        for c, g, names in pats:
            seen.add(c)
            gp.append(g if c in ('True', 'False', 'Reference') else '%s %s' % (g, ' '.join(names)))
        clauses.append('| %s => %s' % (' | '.join(gp), e))
    p.eat('}'); p.eat('}')
    if seen != set(CTOR):
        raise Shape('constructors not matched: %s' % sorted(set(CTOR) - seen))
    text = '''(* generated by lib/vlib/srcfree.py from /repo/src/parser.rs on every run; do not edit *)
From Coq Require Import List Arith Bool PeanoNat.
From Rsbdd Require Import Core.Bdd Lang.Ast Lang.AstFacts.
Fixpoint src_var_is_free (%s : form) (%s : nat) {struct %s} : bool :=
  match %s with
  %s
  end.
Lemma existsb_ext_forall (P Q : form -> bool) l : Forall (fun g => P g = Q g) l -> existsb P l = existsb Q l.
Proof. induction 1 as [|g l Hg Hl IH]; cbn [existsb]; [reflexivity | rewrite Hg, IH; reflexivity]. Qed.
Lemma src_var_is_free_ok : forall f x, src_var_is_free f x = var_is_free f x.
Proof.
  intros f x. induction f using form_ind'; cbn [src_var_is_free var_is_free];
    repeat match goal with
    | H : src_var_is_free _ x = var_is_free _ x |- _ => rewrite H; clear H
    | H : Forall _ _ |- _ => rewrite (existsb_ext_forall _ _ _ H); clear H
    end;
    try reflexivity;
    repeat match goal with |- context [mem_nat ?a ?b] => generalize (mem_nat a b); intro
                         | |- context [Nat.eqb ?a ?b] => generalize (Nat.eqb a b); intro
                         | |- context [var_is_free ?a ?b] => generalize (var_is_free a b); intro
                         | |- context [existsb ?a ?b] => generalize (existsb a b); intro end;
    repeat match goal with b : bool |- _ => destruct b end; reflexivity.
Qed.
Print Assumptions src_var_is_free_ok.
''' % (fo, va, fo, fo, '\n  '.join(clauses))
    return text, ['src_var_is_free_ok']


def run(ctx):
    parser_rs = os.path.join(ctx.repo, 'src', 'parser.rs')
    info = {'source': 'src/parser.rs (var_is_free)'}
    status, detail, names = 'proved', '', []
    try:
        text, names = gallina(open(parser_rs, encoding='utf-8').read())
        info.update(obligations=len(names))
        gdir = os.path.join(ctx.build, 'gen')
        os.makedirs(gdir, exist_ok=True)
        gen = os.path.join(gdir, 'SrcFree_%s.v' % ctx.pid)
        with open(gen, 'w') as f:
            f.write(text)
        coq = os.path.join(ctx.root, 'coq')
        rc0, out0 = build.coq_make(ctx, ['theories/Lang/AstFacts.vo'])
        if rc0 != 0:
            raise build.BuildError('Lang/AstFacts.vo does not build:\n' + out0[-1500:])
        rc, out = build.sh(['timeout', '600', 'coqc', '-Q', os.path.join(coq, 'theories'), 'Rsbdd', '-o',
                            os.path.join(gdir, 'SrcFree_%s.vo' % ctx.pid), gen], cwd=gdir)
        if rc != 0 or out.count('Closed under the global context') != len(names):
            status, detail = 'obligation-failed', out[-1500:]
    except Shape as e:
        status, detail = 'shape-not-recognised', str(e)
    except build.BuildError:
        raise
    except Exception as e:                       # whatever the source looks like, the translator must not take the check down
        status, detail = 'shape-not-recognised', 'the translator could not read the source: %s: %s' % (type(e).__name__, e)
    info['status'] = status
    if detail:
        info['detail'] = detail[-800:]
    if status != 'shape-not-recognised':
        for t in (names or ['src_var_is_free_ok']):
            ctx.obligations.append(('generated:' + t, 'closed' if status == 'proved' else 'failed'))
    ctx.trusted.append('translator lib/vlib/srcfree.py (var_is_free of src/parser.rs -> a Gallina function over the syntax trees; status this run: %s)' % status)
    return status, detail, info
