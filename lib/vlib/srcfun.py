"""Source-derived functions (tie by translation, C03 / C04 / C07 / C20): functions of /repo/src/bdd.rs are re-read on every run
and emitted as Gallina functions over the tree model (`mk_choice` = mk, `mk_const` = the leaf: the unique table is the subject
of C13) - `not`, `and`, `or`, `exists_impl`, `model`, `retain_choice_bottom_up` as recursive matches over the operand
structures, `implies`, `ite`, `eq`, `xor`, `nor`, `nand`, `var`, `all`, `infer` as compositions - and coqc then checks

  src_<f>_ok          : the translated function IS the model's (for all operands; for every fuel where the recursion is not structural)
  *_guards_total_k    : the guards of a run of guarded arms cover every case, i.e. the `unsupported match` arm is unreachable

The arms of a match are taken in source order (first match wins, as in Rust); consecutive guarded arms over one pattern become
one if-chain whose else-branch is the arm that follows; binder names are normalised by position; `let` becomes `let .. in`,
`if / else if / else` an if-chain, `x != y` on diagrams `negb (bdd_eqb x y)`, `.is_const() / .is_choice() / .is_true()` the
model's predicates; `eprintln!` is dropped.  Trusted: this translator.  A body it cannot read is `shape not recognised`."""
import os
import re

from . import build


class Shape(Exception):
    pass


TOKEN = re.compile(r'\s*(=>|==|!=|&&|\|\||<=|>=|::|[A-Za-z_][A-Za-z0-9_]*!?|\d+|"(?:[^"\\]|\\.)*"|[-+*(){}\[\],.&|<>;:!?\'#=])')


def lex(text):
    toks, pos = [], 0
    text = re.sub(r'//[^\n]*', '', text)
    while pos < len(text):
        if text[pos:].strip() == '':
            break
        m = TOKEN.match(text, pos)
        if not m:
            raise Shape('cannot tokenize near %r' % text[pos:pos + 30])
        toks.append(m.group(1))
        pos = m.end()
    return toks


def fn_body(src, name):
    m = re.search(r'\bfn\s+%s\b' % re.escape(name), src)
    if not m:
        raise Shape('fn %s not found' % name)
    i, angle = m.end(), 0
    while True:                                              # skip the generic parameters
        c = src[i]
        if c == '<':
            angle += 1
        elif c == '>' and src[i - 1] != '-':
            angle -= 1
        elif c == '(' and angle == 0:
            break
        i += 1
    start, depth = i, 0
    while True:
        c = src[i]
        depth += c == '('
        depth -= c == ')'
        i += 1
        if depth == 0:
            break
    plist, cur, d = [], '', 0
    for c in src[start + 1:i - 1]:
        if c in '(<[':
            d += 1
        elif c in ')>]':
            d -= 1
        if c == ',' and d == 0:
            plist.append(cur); cur = ''
        else:
            cur += c
    if cur.strip():
        plist.append(cur)
    params = [re.match(r'\s*(?:mut\s+)?(\w+)\s*:', x).group(1) for x in plist if re.match(r'\s*(?:mut\s+)?(\w+)\s*:', x)]
    b = src.index('{', i)
    w = src[i:b]
    if ';' in w:
        raise Shape('fn %s has no body' % name)
    depth, j = 0, b
    while True:
        c = src[j]
        if c == '"':
            j += 1
            while src[j] != '"':
                j += 2 if src[j] == '\\' else 1
        depth += c == '{'
        depth -= c == '}'
        j += 1
        if depth == 0:
            break
    return params, src[b:j]                                  # with the braces


MODEL = {'and': 'band', 'or': 'bor', 'not': 'bnot', 'implies': 'bimplies', 'ite': 'bite', 'eq': 'beq', 'xor': 'bxor', 'nor': 'bnor',
         'nand': 'bnand', 'var': 'bvar', 'exists_impl': 'bex1', 'exists': 'bex', 'all': 'ball', 'model': 'bmodel', 'cmp_count': 'cmp_count', 'cmp_count_compare': 'cmp_count_compare',
         'aln': 'aln', 'amn': 'amn', 'exn': 'exn', 'count_leq': 'count_leq', 'count_lt': 'count_lt', 'count_geq': 'count_geq', 'count_gt': 'count_gt',
         'count_eq': 'count_eq', 'count_leq_recursive': 'src_count_leq_recursive', 'count_geq_recursive': 'src_count_geq_recursive'}
PRED = {'is_const': 'is_const %s', 'is_choice': 'negb (is_const %s)', 'is_true': 'is_true %s', 'is_false': 'is_false %s'}
CANON = (('at_', 'va', 'af'), ('bt', 'vb', 'bf'))
KEYWORDS = ('match', 'if', 'else', 'let', 'panic!', 'eprintln!', 'true', 'false', 'self', 'Rc', 'ref', 'Self')
ZOPS = {'<=': '<=?', '>=': '>=?', '==': '=?', '<': '<?', '>': '>?'}


class P:
    """recursive descent over the token list; every method returns Gallina text"""

    def __init__(self, toks, rec=None, totals=None, special=None):
        self.t, self.i = toks, 0
        self.rec = rec or {}                 # method name -> Gallina head of the recursive call
        self.rename = {}
        self.totals = totals if totals is not None else []
        self.special = special or {}         # (identifier, method) -> Gallina text (e.g. filter.is_true())
        self.fnparams = ()                   # parameters that are functions (cmp)

    def peek(self, k=0):
        return self.t[self.i + k] if self.i + k < len(self.t) else None

    def eat(self, x=None):
        tok = self.peek()
        if tok is None or (x is not None and tok != x):
            raise Shape('expected %r, got %r' % (x, tok))
        self.i += 1
        return tok

    # ---- expressions ------------------------------------------------------------------------------------------------------
    def block(self):
        self.eat('{')
        saved = self.rename
        binds = []
        while True:
            if self.peek() == 'let':
                self.eat('let')
                name = self.eat()
                self.eat('=')
                e = self.expr()
                self.eat(';')
                # a let that shadows a pattern variable or an earlier let (let left = f(left)) gets a primed name
                new = name
                if name in self.rename or name in [b[2] for b in binds]:
                    new = self.rename.get(name, name) + "'"
                binds.append((new, e, name))
                self.rename = dict(self.rename)
                self.rename[name] = new
                continue
            if self.peek() == 'eprintln!':
                self.eat()
                self.skip_parens()
                self.eat(';')
                continue
            break
        e = self.expr()
        self.eat('}')
        self.rename = saved
        for new, v, _ in reversed(binds):
            e = 'let %s := %s in %s' % (new, v, e)
        return '(%s)' % e if binds else e

    def skip_parens(self):
        self.eat('(')
        depth = 1
        while depth:
            tok = self.eat()
            depth += tok == '('
            depth -= tok == ')'

    def expr(self):
        tok = self.peek()
        if tok == '{':
            return self.block()
        if tok == 'if':
            return self.ifexpr()
        if tok == 'match':
            return self.matchexpr()
        if tok == '(':                                     # a tuple of bool literals
            self.eat('(')
            items = []
            while self.peek() != ')':
                b = self.eat()
                if b not in ('true', 'false'):
                    raise Shape('tuple of non-literals')
                items.append(b)
                if self.peek() == ',':
                    self.eat(',')
            self.eat(')')
            return '(%s)' % ', '.join(items)
        return self.atom()

    def atom(self):
        tok = self.peek()
        if tok in ('&', '*'):
            self.eat()
            return self.atom()
        if tok == 'Rc' and self.peek(1) == '::' and self.peek(2) == 'clone':
            self.eat(); self.eat(); self.eat(); self.eat('(')
            e = self.atom()
            self.eat(')')
            return e
        if tok == 'self' and self.peek(1) == '.':
            self.eat(); self.eat('.')
            name = self.eat()
            if name == 'as_ref':
                self.eat('('); self.eat(')'); self.eat('.')
                name = self.eat()
            self.eat('(')
            args = []
            while self.peek() != ')':
                if self.peek() in ('true', 'false') and name == 'mk_const':
                    args.append(self.eat())
                else:
                    args.append(self.expr())
                if self.peek() == ',':
                    self.eat(',')
            self.eat(')')
            if name == 'mk_const':
                if args in (['true'], ['false']):
                    return 'T' if args == ['true'] else 'F'
                if len(args) == 1 and args[0].startswith('('):
                    return '(bconst %s)' % args[0]
                raise Shape('mk_const of %s' % args)
            if name == 'mk_choice':
                if len(args) != 3:
                    raise Shape('mk_choice arity')
                return '(mk %s %s %s)' % tuple(args)
            if name == 'find':                            # the table lookup returns the entry with the same structure
                if len(args) != 1:
                    raise Shape('find arity')
                return args[0]
            if name in self.rec:
                return '(%s %s)' % (self.rec[name], ' '.join(args))
            if name in MODEL:
                return '(%s %s)' % (MODEL[name], ' '.join(args))
            raise Shape('call of self.%s' % name)
        if tok == 'Self' and self.peek(1) == '::':
            self.eat(); self.eat()
            name = self.eat()
            if name not in MODEL:
                raise Shape('Self::%s' % name)
            return MODEL[name]
        if tok == '|':                                     # a closure over one integer: |n| n <= 0
            self.eat('|'); x = self.eat(); self.eat('|')
            y = self.eat(); op = self.eat(); k = self.eat()
            if y != x or op not in ZOPS or not k.isdigit():
                raise Shape('closure body')
            return '(fun %s => (%s %s %s)%%Z)' % (x, x, ZOPS[op], k)
        if tok == '-' and (self.peek(1) or '').isdigit():
            self.eat(); return '(-%s)%%Z' % self.eat()
        if tok and tok.isdigit():
            self.eat(); return '%s%%Z' % tok
        if tok and re.fullmatch(r'[A-Za-z_]\w*', tok) and tok not in KEYWORDS:
            self.eat()
            if tok in self.fnparams and self.peek() == '(':
                self.eat('(')
                args = []
                while self.peek() != ')':
                    if self.peek() == 'self':
                        self.eat()
                    else:
                        args.append(self.expr())
                    if self.peek() == ',':
                        self.eat(',')
                self.eat(')')
                return '(%s %s)' % (tok, ' '.join(args))
            if self.peek() == '.' and self.peek(1) == 'clone':
                self.eat(); self.eat(); self.eat('('); self.eat(')')
            if self.peek() in ('+', '-') and (self.peek(1) or '').isdigit():
                op = self.eat(); k = self.eat()
                return '(%s %s %s)%%Z' % (self.rename.get(tok, tok), op, k)
            return self.rename.get(tok, tok)
        raise Shape('expression starting with %r' % tok)

    # ---- conditions -------------------------------------------------------------------------------------------------------
    def pred_atom(self):
        """identifier.is_xxx()  -> (text, True) ; otherwise a diagram atom -> (text, False)"""
        if self.peek(1) == '.' and self.peek(2) in PRED and re.fullmatch(r'[A-Za-z_]\w*', self.peek() or ''):
            x = self.eat(); self.eat('.'); m = self.eat(); self.eat('('); self.eat(')')
            if (x, m) in self.special:
                return self.special[(x, m)], True
            return '(' + PRED[m] % self.rename.get(x, x) + ')', True
        return self.atom(), False

    def cond_atom(self):
        if self.peek() == '(':
            self.eat('(')
            c = self.cond()
            self.eat(')')
            return c
        if self.peek() == '!':
            self.eat('!')
            return '(negb %s)' % self.cond_atom()
        l, lb = self.pred_atom()
        if self.peek() in ('!=', '=='):
            op = self.eat()
            r, rb = self.pred_atom()
            if lb != rb:
                raise Shape('comparison of a flag with a diagram')
            eq = '(Bool.eqb %s %s)' % (l, r) if lb else '(bdd_eqb %s %s)' % (l, r)
            return '(negb %s)' % eq if op == '!=' else eq
        if not lb:
            raise Shape('a diagram used as a condition')
        return l

    def cond(self):
        c = self.cond_atom()
        while self.peek() == '&&':
            self.eat()
            c = '(%s && %s)' % (c, self.cond_atom())
        if self.peek() == '||':
            raise Shape('|| in a condition')
        return c

    def ifexpr(self):
        self.eat('if')
        if self.peek(1) == '.' and self.peek(2) == 'is_empty':
            x = self.eat(); self.eat('.'); self.eat('is_empty'); self.eat('('); self.eat(')')
            a = self.block()
            self.eat('else'); self.eat('{')
            self.eat('let'); h = self.eat(); self.eat('='); self.eat('&')
            if self.eat() != x:
                raise Shape('list idiom: head')
            self.eat('['); 
            if self.eat() != '0':
                raise Shape('list idiom: head index')
            self.eat(']'); self.eat(';')
            self.eat('let'); t = self.eat(); self.eat('=')
            if self.eat() != x:
                raise Shape('list idiom: tail')
            self.eat('[')
            if self.eat() != '1':
                raise Shape('list idiom: tail index')
            self.eat('.'); self.eat('.'); self.eat(']'); self.eat('.'); self.eat('to_vec'); self.eat('('); self.eat(')'); self.eat(';')
            self.t.insert(self.i, '{')                      # the rest of the else block is an ordinary block
            b = self.block()
            return '(match %s with nil => %s | cons %s %s => %s end)' % (self.rename.get(x, x), a, h, t, b)
        c = self.cond()
        t = self.block()
        if self.peek() != 'else':
            raise Shape('if without else')
        self.eat('else')
        e = self.ifexpr() if self.peek() == 'if' else self.block()
        return 'if %s then %s else %s' % (c, t, e)

    # ---- match ------------------------------------------------------------------------------------------------------------
    def comp_pat(self):
        if self.peek() == '&':
            self.eat('&')
        tok = self.eat()
        if tok == '_':
            return ('_', None)
        if tok == 'TruthTableEntry':
            self.eat('::')
            return ({'Any': 'TAny', 'True': 'TTrue', 'False': 'TFalse'}[self.eat()], None)
        if tok != 'BDD' or self.eat() != '::':
            raise Shape('pattern %r' % tok)
        k = self.eat()
        if k == 'False':
            return ('F', None)
        if k == 'True':
            return ('T', None)
        if k != 'Choice':
            raise Shape('pattern BDD::%s' % k)
        self.eat('(')
        names = []
        for j in range(3):
            if self.peek() == 'ref':
                self.eat()
            names.append(self.eat())
            if j < 2:
                self.eat(',')
        self.eat(')')
        return ('Nd', names)

    def matchexpr(self):
        self.eat('match')
        if self.peek() == '(':
            self.eat('(')
            s1 = self.eat(); self.eat('.'); self.eat('as_ref'); self.eat('('); self.eat(')'); self.eat(',')
            s2 = self.eat(); self.eat('.'); self.eat('as_ref'); self.eat('('); self.eat(')'); self.eat(')')
            scrut = [s1, s2]
        else:
            s1 = self.eat()
            if self.peek() == '.':
                self.eat('.'); self.eat('as_ref'); self.eat('('); self.eat(')')
            scrut = [s1]
        arity = len(scrut)
        scrut_g = [self.rename.get(x, x) for x in scrut]
        self.eat('{')
        arms = []
        while self.peek() != '}':
            alts = []
            while True:
                if arity == 2:
                    if self.peek() == '_':
                        self.eat('_')
                        alts.append([('_', None), ('_', None)])
                    else:
                        self.eat('(')
                        c1 = self.comp_pat(); self.eat(','); c2 = self.comp_pat()
                        self.eat(')')
                        alts.append([c1, c2])
                else:
                    alts.append([self.comp_pat()])
                if self.peek() == '|':
                    self.eat('|')
                    continue
                break
            saved = self.rename
            self.rename = dict(saved)
            self.rename.update(rename_of(alts[0]))
            guard = None
            if self.peek() == 'if':
                self.eat('if')
                x = self.eat()
                if self.peek() == '.':                          # t.as_ref() == f.as_ref()
                    self.eat('.'); self.eat('as_ref'); self.eat('('); self.eat(')')
                    op = self.eat()
                    y = self.eat(); self.eat('.'); self.eat('as_ref'); self.eat('('); self.eat(')')
                    if op != '==':
                        raise Shape('guard on structures')
                    guard = '(bdd_eqb %s %s)' % (self.rename.get(x, x), self.rename.get(y, y))
                else:
                    op = self.eat(); y = self.eat()
                    if op not in ('<', '>', '=='):
                        raise Shape('guard operator %s' % op)
                    gx, gy = self.rename.get(x, x), self.rename.get(y, y)
                    guard = '(%s <? %s)' % (gx, gy) if op == '<' else '(%s <? %s)' % (gy, gx) if op == '>' else '(%s =? %s)' % (gx, gy)
            self.eat('=>')
            if self.peek() == 'panic!':
                self.eat()
                self.skip_parens()
                body = None
            else:
                body = self.expr()
            self.rename = saved
            arms.append((alts, guard, body))
            if self.peek() == ',':
                self.eat(',')
        self.eat('}')
        # ---- arms -> clauses
        clauses, i = [], 0
        while i < len(arms):
            alts, guard, body = arms[i]
            if guard is None:
                if len(alts) > 1 and any(kind == 'Nd' and any(n != '_' for n in names) for a in alts for kind, names in a):
                    raise Shape('an or-pattern binds variables')
                if body is None:
                    i += 1                                   # `_ => panic!` after exhaustive arms: dropped (Coq checks exhaustiveness)
                    continue
                clauses.append('| %s => %s' % (' | '.join(pat_text(a) for a in alts), body))
                i += 1
                continue
            shape = [k for k, _ in alts[0]]
            if len(alts) != 1 or any(k != 'Nd' for k in shape):
                raise Shape('a guarded arm is not over Choice patterns')
            chain, guards = [], []
            while i < len(arms) and arms[i][1] is not None and len(arms[i][0]) == 1 and [k for k, _ in arms[i][0][0]] == shape:
                if arms[i][2] is None:
                    raise Shape('a guarded arm panics')
                chain.append((arms[i][1], arms[i][2])); guards.append(arms[i][1])
                i += 1
            fall = 'F'
            if i < len(arms):
                nalts, ng, nbody = arms[i]
                if ng is None and all(kind == '_' for a in nalts for kind, _ in a):
                    if nbody is not None:
                        fall = nbody                          # stays in place as the catch-all clause as well
                    else:
                        self.totals.append(' || '.join(guards))
                elif ng is None and len(nalts) == 1 and [k for k, _ in nalts[0]] == shape:
                    if nbody is None:
                        raise Shape('a Choice arm panics')
                    fall = nbody
                    i += 1
                else:
                    raise Shape('guarded arms are not followed by a catch-all arm')
            else:
                self.totals.append(' || '.join(guards))
            pat = ', '.join('Nd %s %s %s' % CANON[k] for k in range(arity))
            clauses.append('| %s => %s' % (pat, ' else '.join('if %s then %s' % (g, e) for g, e in chain) + ' else ' + fall))
        return '(match %s with %s end)' % (', '.join(scrut_g), ' '.join(clauses))


def pat_text(alt):
    out = []
    for k, (kind, names) in enumerate(alt):
        if kind == 'Nd':
            out.append('Nd %s %s %s' % tuple(n if names[j] != '_' else '_' for j, n in enumerate(CANON[k])))
        else:
            out.append(kind)
    return ', '.join(out)


def rename_of(alt):
    r = {}
    for k, (kind, names) in enumerate(alt):
        if kind == 'Nd':
            for j, n in enumerate(names):
                if n != '_':
                    r[n] = CANON[k][j]
    return r


def translate(src, name, rec=None, special=None, fnparams=()):
    params, body = fn_body(src, name)
    totals = []
    p = P(lex(body), rec or {}, totals, special=special)
    p.fnparams = fnparams
    e = p.block()
    if p.peek() is not None:
        raise Shape('fn %s: text after the body' % name)
    return params, e, totals


LTAC = '''Ltac arith_close :=
  repeat match goal with
  | H : (_ <? _) = false |- _ => apply Nat.ltb_ge in H | H : (_ <? _) = true |- _ => apply Nat.ltb_lt in H
  | H : (_ =? _) = false |- _ => apply Nat.eqb_neq in H | H : (_ =? _) = true |- _ => apply Nat.eqb_eq in H end; lia.
Ltac split_ifs := repeat match goal with |- context [if ?c then _ else _] => destruct c eqn:? end.
'''


def gallina(src):
    out = ['(* generated by lib/vlib/srcfun.py from /repo/src/bdd.rs on every run; do not edit *)',
           'From Coq Require Import List Arith Bool Lia PeanoNat ZArith.', 'From Rsbdd Require Import Core.Bdd Core.Ops.', '', LTAC]
    names = []

    def totals(prefix, tot):
        for j, t in enumerate(tot, 1):
            nm = '%s_guards_total_%d' % (prefix, j)
            names.append(nm)
            out.extend(['Lemma %s : forall va vb : nat, %s = true.' % (nm, t),
                        'Proof. intros va vb. destruct (Nat.ltb_spec va vb), (Nat.ltb_spec vb va), (Nat.eqb_spec va vb), (Nat.eqb_spec vb va); try reflexivity; exfalso; lia. Qed.'])
    # not
    ps, e, tot = translate(src, 'not', {'not': 'src_bnot'})
    out += ['Fixpoint src_bnot (%s : bdd) : bdd := %s.' % (ps[0], e), 'Lemma src_bnot_ok : forall a, src_bnot a = bnot a.',
            'Proof. induction a as [| |t IHt v f IHf]; cbn [src_bnot bnot]; first [reflexivity | rewrite IHt, IHf; reflexivity]. Qed.', '']
    names.append('src_bnot_ok')
    # and, or : recursion on fuel
    for name, model in (('and', 'band_f'), ('or', 'bor_f')):
        f = 'src_b%s_f' % name
        ps, e, tot = translate(src, name, {name: f + ' k'})
        if len(ps) != 2:
            raise Shape('fn %s takes %d operands' % (name, len(ps)))
        out += ['Fixpoint %s (fuel : nat) (%s : bdd) {struct fuel} : bdd :=' % (f, ' '.join(ps)), '  match fuel with O => F | S k => %s end.' % e]
        totals('src_b' + name, tot)
        nm = 'src_b%s_ok' % name
        names.append(nm)
        out += ['Lemma %s : forall fuel a b, %s fuel a b = %s fuel a b.' % (nm, f, model), 'Proof.',
                '  induction fuel as [|k IH]; intros a b; [reflexivity|].',
                '  cbn [%s %s]. destruct a as [| |at_ va af], b as [| |bt vb bf]; try reflexivity.' % (f, model),
                '  split_ifs; rewrite ?IH; try reflexivity; exfalso; arith_close.', 'Qed.', '']
    # exists_impl
    ps, e, tot = translate(src, 'exists_impl', {'exists_impl': 'src_bex1'})
    if len(ps) != 2:
        raise Shape('fn exists_impl takes %d operands' % len(ps))
    out += ['Fixpoint src_bex1 (%s : nat) (%s : bdd) : bdd := %s.' % (ps[0], ps[1], e)]
    totals('src_bex1', tot)
    out += ['Lemma src_bex1_ok : forall x b, src_bex1 x b = bex1 x b.',
            'Proof. intros x. induction b as [| |t IHt v f IHf]; cbn [src_bex1 bex1]; first [reflexivity | split_ifs; rewrite ?IHt, ?IHf; reflexivity]. Qed.', '']
    names.append('src_bex1_ok')
    # model
    ps, e, tot = translate(src, 'model', {'model': 'src_bmodel'})
    out += ['Fixpoint src_bmodel (%s : bdd) : bdd := %s.' % (ps[0], e)]
    totals('src_bmodel', tot)
    out += ['Lemma src_bmodel_ok : forall a, src_bmodel a = bmodel a.',
            'Proof. induction a as [| |t IHt v f IHf]; cbn [src_bmodel bmodel]; first [reflexivity | rewrite ?IHt, ?IHf; cbv zeta; split_ifs; reflexivity]. Qed.', '']
    names.append('src_bmodel_ok')
    # retain_choice_bottom_up: recursion on the diagram under a filter that is not Any
    ps, e, tot = translate(src, 'retain_choice_bottom_up', {'retain_choice_bottom_up': 'src_retain'},
                           special={('filter', 'is_true'): '(tte_is_true filter)'})
    if ps != ['src', 'filter']:
        raise Shape('retain_choice_bottom_up takes %s' % ps)
    out += ['Fixpoint src_retain (src : bdd) (filter : tte) {struct src} : bdd := %s.' % e]
    totals('src_retain', tot)
    out += ['Lemma src_retain_ok : forall src filter, src_retain src filter = retain src filter.',
            'Proof.',
            '  intros src filter. unfold retain. destruct filter; cbn [tte_is_true]; [| |destruct src; reflexivity];',
            '    (induction src as [| |l IHl v r IHr]; cbn [src_retain retain_go tte_is_true]; [reflexivity | reflexivity |',
            '     rewrite IHl, IHr; first [reflexivity | cbv zeta; split_ifs; reflexivity]]).',
            'Qed.', '']
    names.append('src_retain_ok')
    # compositions
    for name in ('implies', 'ite', 'eq', 'xor', 'nor', 'nand'):
        ps, e, tot = translate(src, name)
        nm = 'src_%s_ok' % name
        names.append(nm)
        out += ['Definition src_%s (%s : bdd) : bdd := %s.' % (name, ' '.join(ps), e),
                'Lemma %s : forall %s, src_%s %s = %s %s.' % (nm, ' '.join(ps), name, ' '.join(ps), MODEL[name], ' '.join(ps)),
                'Proof. reflexivity. Qed.']
    ps, e, tot = translate(src, 'all')
    names.append('src_all_ok')
    out += ['Definition src_all (%s : list nat) (%s : bdd) : bdd := %s.' % (ps[0], ps[1], e),
            'Lemma src_all_ok : forall %s %s, src_all %s %s = ball %s %s.' % (ps[0], ps[1], ps[0], ps[1], ps[0], ps[1]), 'Proof. reflexivity. Qed.']
    ps, e, tot = translate(src, 'var')
    names.append('src_var_ok')
    out += ['Definition src_var (%s : nat) : bdd := %s.' % (ps[0], e),
            'Lemma src_var_ok : forall %s, src_var %s = bvar %s.' % (ps[0], ps[0], ps[0]), 'Proof. reflexivity. Qed.']
    ps, e, tot = translate(src, 'infer')
    names.append('src_infer_ok')
    out += ['Definition src_infer (%s : bdd) (%s : nat) : bool * bool := %s.' % (ps[0], ps[1], e),
            'Lemma src_infer_ok : forall %s %s, src_infer %s %s = binfer %s %s.' % (ps[0], ps[1], ps[0], ps[1], ps[0], ps[1]),
            'Proof. intros. unfold src_infer, binfer. cbv zeta. destruct (bimplies _ _); reflexivity. Qed.', '']
    # the counting cascade and the quantifier over a list: recursion over a slice written as is_empty / [0] / [1..]
    ps, e, tot = translate(src, 'cmp_count', {'cmp_count': 'src_cmp_count'}, fnparams=('cmp',))
    if ps != ['branches', 'n', 'cmp']:
        raise Shape('cmp_count takes %s' % ps)
    out += ['Fixpoint src_cmp_count (branches : list bdd) (n : Z) (cmp : Z -> bool) {struct branches} : bdd := %s.' % e,
            'Lemma src_cmp_count_ok : forall bs n cmp, src_cmp_count bs n cmp = cmp_count bs n cmp.',
            'Proof. induction bs as [|x r IH]; intros n cmp; cbn [src_cmp_count cmp_count]; [reflexivity | rewrite !IH; reflexivity]. Qed.']
    names.append('src_cmp_count_ok')
    ps, e, tot = translate(src, 'cmp_count_compare', {'cmp_count_compare': 'src_cmp_count_compare'}, fnparams=('cmp',))
    if ps != ['a', 'b', 'n', 'cmp']:
        raise Shape('cmp_count_compare takes %s' % ps)
    out += ['Fixpoint src_cmp_count_compare (a b : list bdd) (n : Z) (cmp : list bdd -> Z -> bdd) {struct a} : bdd := %s.' % e,
            'Lemma src_cmp_count_compare_ok : forall a b n cmp, src_cmp_count_compare a b n cmp = cmp_count_compare a b n cmp.',
            'Proof. induction a as [|x r IH]; intros b n cmp; cbn [src_cmp_count_compare cmp_count_compare]; [reflexivity | rewrite !IH; reflexivity]. Qed.']
    names.append('src_cmp_count_compare_ok')
    for name in ('aln', 'amn', 'exn'):
        ps, e, tot = translate(src, name)
        names.append('src_%s_ok' % name)
        out += ['Definition src_%s (%s : list bdd) (%s : Z) : bdd := %s.' % (name, ps[0], ps[1], e),
                'Lemma src_%s_ok : forall bs n, src_%s bs n = %s bs n.' % (name, name, name), 'Proof. reflexivity. Qed.']
    for name in ('count_leq_recursive', 'count_geq_recursive'):
        ps, e, tot = translate(src, name)
        out += ['Definition src_%s (%s %s : list bdd) (%s : Z) : bdd := %s.' % (name, ps[0], ps[1], ps[2], e)]
    for name in ('count_leq', 'count_lt', 'count_geq', 'count_gt', 'count_eq'):
        ps, e, tot = translate(src, name)
        names.append('src_%s_ok' % name)
        out += ['Definition src_%s (%s %s : list bdd) : bdd := %s.' % (name, ps[0], ps[1], e),
                'Lemma src_%s_ok : forall a b, src_%s a b = %s a b.' % (name, name, name), 'Proof. reflexivity. Qed.']
    ps, e, tot = translate(src, 'exists', {'exists': 'src_bex'})
    if len(ps) != 2:
        raise Shape('exists takes %s' % ps)
    out += ['Fixpoint src_bex (%s : list nat) (%s : bdd) {struct %s} : bdd := %s.' % (ps[0], ps[1], ps[0], e),
            'Lemma src_bex_ok : forall vs b, src_bex vs b = bex vs b.',
            'Proof. induction vs as [|x r IH]; intros b; cbn [src_bex bex]; [reflexivity | rewrite IH; reflexivity]. Qed.', '']
    names.append('src_bex_ok')
    # clean (re-interns the root) and simplify (the reduction rule inside mk_choice)
    ps, e, tot = translate(src, 'clean')
    out += ['Definition src_clean (%s : bdd) : bdd := %s.' % (ps[0], e),
            'Lemma src_clean_ok : forall a, src_clean a = clean a.', 'Proof. intros a. destruct a; reflexivity. Qed.']
    names.append('src_clean_ok')
    ps, e, tot = translate(src, 'simplify')
    out += ['Definition src_simplify (%s : bdd) : bdd := %s.' % (ps[0], e),
            'Lemma src_simplify_ok : forall t v f, src_simplify (Nd t v f) = mk t v f.',
            'Proof. intros t v f. unfold mk. cbn [src_simplify]. destruct (bdd_eqb t f); reflexivity. Qed.', '']
    names.append('src_simplify_ok')
    for nm in names:
        out.append('Print Assumptions %s.' % nm)
    return '\n'.join(out) + '\n', names


def run(ctx):
    bdd_rs = os.path.join(ctx.repo, 'src', 'bdd.rs')
    info = {'source': 'src/bdd.rs'}
    status, detail, names = 'proved', '', []
    try:
        src = open(bdd_rs, encoding='utf-8').read()
        text, names = gallina(src)
        info.update(functions=32, obligations=len(names))
        gdir = os.path.join(ctx.build, 'gen')
        os.makedirs(gdir, exist_ok=True)
        gen = os.path.join(gdir, 'SrcFun_%s.v' % ctx.pid)
        with open(gen, 'w') as f:
            f.write(text)
        coq = os.path.join(ctx.root, 'coq')
        rc0, out0 = build.coq_make(ctx, ['theories/Core/Ops.vo'])
        if rc0 != 0:
            raise build.BuildError('Core/Ops.vo does not build:\n' + out0[-1500:])
        rc, out = build.sh(['timeout', '600', 'coqc', '-Q', os.path.join(coq, 'theories'), 'Rsbdd', '-o',
                            os.path.join(gdir, 'SrcFun_%s.vo' % ctx.pid), gen], cwd=gdir)
        if rc != 0 or out.count('Closed under the global context') != len(names):
            status, detail = 'obligation-failed', out[-1500:]
    except Shape as e:
        status, detail = 'shape-not-recognised', str(e)
    except build.BuildError:
        raise
    except Exception as e:                       # whatever the source looks like, the translator must not take the check down
        status, detail = 'shape-not-recognised', 'the translator could not read the source: %s: %s' % (type(e).__name__, e)
    info['status'] = status
    if detail:
        info['detail'] = detail[-800:]
    if status != 'shape-not-recognised':
        for t in (names or ['src_band_ok']):
            ctx.obligations.append(('generated:' + t, 'closed' if status == 'proved' else 'failed'))
    ctx.trusted.append('translator lib/vlib/srcfun.py (match arms, let / if chains and compositions and slice recursions of 32 functions of src/bdd.rs -> Gallina functions; status this run: %s)' % status)
    return status, detail, info
