"""Source-derived set operations (tie by translation, C19): `categorize`, `insert`, `union`, `intersect`, `complement`, `empty` and `universe` of
/repo/src/set.rs are re-read on every run.  A method body is a sequence of `let x = <recv>.bdd.borrow().clone();` (read the
diagram of self / other), `let x = <expr>;`, one `self.bdd.replace(<expr>);` (the new diagram of self) and the trailing `self`;
expressions are library calls `self.env.<m>(..)` (the model functions; tied by lib/vlib/srcfun.py), `if e.categorize(i) {..} else
{..}` and the chain `(0..self.bits).map(|i| ..).fold(init, |a, e| ..)` (= fold_left over map over seq 0 bits); `categorize` is
the expression `(self >> c) & 1 == 0` over Nat.shiftr / Nat.land.  Each becomes a Gallina definition mapping the diagrams before
the call to the diagram of self after it, and coqc checks src_<m>_ok: it IS the model's s_<m> (Sets/BddSet.v), about which
C19 is proved.  `contains`, the constructors and the struct equality stay with the correspondence.  Trusted: this translator."""
import os
import re

from . import build
from .srcfun import Shape, lex, fn_body
from .srceval import P

ENV = {'or': ('bor', 2), 'and': ('band', 2), 'not': ('bnot', 1), 'var': ('bvar', 1), 'mk_const': ('bconst', 1)}


class X:
    def __init__(self, p, elem):
        self.p, self.elem = p, elem

    def expr(self):
        p = self.p
        tok = p.peek()
        if tok == '{':
            p.eat('{'); e = self.expr(); p.eat('}')
            return e
        if tok == 'if':
            p.eat('if'); x = p.ident(); p.eat('.')
            if p.eat() != 'categorize':
                raise Shape('condition')
            p.eat('('); i = p.ident(); p.eat(')')
            p.eat('{'); a = self.expr(); p.eat('}'); p.eat('else'); p.eat('{'); b = self.expr(); p.eat('}')
            return '(if src_categorize %s %s then %s else %s)' % (x, i, a, b)
        if tok == '(' and p.peek(1) == '0' and p.peek(2) == '.' and p.peek(3) == '.':
            p.eat('('); p.eat('0'); p.eat('.'); p.eat('.'); p.eat('self'); p.eat('.'); p.eat('bits'); p.eat(')')
            p.eat('.'); p.eat('map'); p.eat('('); p.eat('|'); i = p.ident(); p.eat('|')
            body = self.expr(); p.opt(','); p.eat(')')
            p.eat('.'); p.eat('fold'); p.eat('(')
            init = self.expr(); p.eat(','); p.eat('|'); a = p.ident(); p.eat(','); b = p.ident(); p.eat('|')
            step = self.expr(); p.opt(','); p.eat(')')
            return '(fold_left (fun %s %s => %s) (map (fun %s => %s) (seq 0 bits)) %s)' % (a, b, step, i, body, init)
        if tok in ('true', 'false'):
            return p.eat()
        if tok == 'self':
            p.eat('self'); p.eat('.'); p.eat('env'); p.eat('.')
            m = p.eat()
            if m not in ENV:
                raise Shape('library call .%s' % m)
            fn, ar = ENV[m]
            p.eat('(')
            args = []
            while p.peek() != ')':
                args.append(self.expr()); p.opt(',')
            p.eat(')')
            if len(args) != ar:
                raise Shape('arguments of .%s' % m)
            return '(%s %s)' % (fn, ' '.join(args))
        x = p.ident()
        while p.opt('.'):
            if p.eat() != 'clone':
                raise Shape('method on %s' % x)
            p.eat('('); p.eat(')')
        return x


def method(src, name, params_expected):
    params, body = fn_body(src, name)
    if params != params_expected:
        raise Shape('%s takes %s' % (name, params))
    p = P(lex(body))
    p.eat('{')
    lets, result = [], None
    while True:
        if p.peek() == 'let':
            p.eat('let'); x = p.ident()
            if p.opt(':'):
                depth = 0
                while not (p.peek() == '=' and depth == 0):
                    tok = p.eat(); depth += tok == '<'; depth -= tok == '>'
            p.eat('=')
            if p.peek() in ('self', 'other') and p.peek(2) == 'bdd':
                recv = p.eat(); p.eat('.'); p.eat('bdd'); p.eat('.'); p.eat('borrow'); p.eat('('); p.eat(')')
                p.eat('.'); p.eat('clone'); p.eat('('); p.eat(')')
                if result is not None and recv == 'self':
                    raise Shape('self is read after it was replaced')
                lets.append((x, recv + '_b' if result is None or recv != 'other' else None))
                if lets[-1][1] is None:
                    raise Shape('other is read after self was replaced (they may be the same set)')
            else:
                lets.append((x, X(p, None).expr()))
            p.eat(';')
        elif p.peek() == 'self' and p.peek(2) == 'bdd':
            if result is not None:
                raise Shape('two replacements')
            p.eat('self'); p.eat('.'); p.eat('bdd'); p.eat('.'); p.eat('replace'); p.eat('(')
            result = X(p, None).expr(); p.opt(','); p.eat(')'); p.eat(';')
        else:
            break
    p.eat('self'); p.eat('}')
    if result is None:
        raise Shape('%s does not replace the diagram' % name)
    e = result
    for x, v in reversed(lets):
        e = '(let %s := %s in %s)' % (x, v, e)
    return e


def gallina(src):
    m = re.search(r'impl\s+BDDCategorizable\s+for\s+usize\s*\{', src)
    if not m:
        raise Shape('impl BDDCategorizable for usize not found')
    params, body = fn_body(src[m.end():], 'categorize')
    toks = lex(body)
    if params != ['c'] or toks[0] != '{' or toks[-1] != '}':
        raise Shape('categorize')
    p = P(toks[1:-1])
    # ( self >> c ) & 1 == 0      (Rust: == binds weaker than &)
    def shift():
        if p.opt('('):
            e = band_(); p.eat(')')
            return e
        a = p.eat()
        if a == 'self':
            a = 'e'
        elif a != 'c' and not a.isdigit():
            raise Shape('categorize operand %s' % a)
        return a
    def shr():
        e = shift()
        while p.peek() == '>' and p.peek(1) == '>':
            p.eat(); p.eat(); e = '(Nat.shiftr %s %s)' % (e, shift())
        return e
    def band_():
        e = shr()
        while p.peek() == '&':
            p.eat(); e = '(Nat.land %s %s)' % (e, shr())
        return e
    l = band_()
    op = p.eat()
    if op not in ('==', '!='):
        raise Shape('categorize comparison')
    r = band_()
    if p.peek() is not None:
        raise Shape('categorize: trailing %r' % p.peek())
    cat = '(Nat.eqb %s %s)' % (l, r)
    if op == '!=':
        cat = '(negb %s)' % cat
    ins = method(src, 'insert', ['e'])
    uni = method(src, 'union', ['other'])
    inter = method(src, 'intersect', ['other'])
    comp = method(src, 'complement', ['other'])
    emp = method(src, 'empty', [])
    univ = method(src, 'universe', [])
    text = '''(* generated by lib/vlib/srcset.py from /repo/src/set.rs on every run; do not edit *)
From Coq Require Import List Arith Bool PeanoNat Lia.
Import ListNotations.
From Rsbdd Require Import Core.Bdd Core.Ops Core.Sem Core.Canon Core.Pres Sets.BddSet.
Definition src_categorize (e c : nat) : bool := %s.
Definition src_insert (bits : nat) (self_b : bdd) (e : nat) : bdd := %s.
Definition src_union (self_b other_b : bdd) : bdd := %s.
Definition src_intersect (self_b other_b : bdd) : bdd := %s.
Definition src_complement (self_b other_b : bdd) : bdd := %s.
Definition src_empty (self_b : bdd) : bdd := %s.
Definition src_universe (self_b : bdd) : bdd := %s.
Ltac shape := lazymatch goal with |- robdd ?x => change (shp 0 x) end;
  repeat first [assumption | apply shp_band | apply shp_bor | apply shp_bnot | apply shp_bconst].
Ltac sem := intros s; rewrite ?band_sem, ?bor_sem, ?bnot_sem;
  repeat match goal with |- context [beval s ?x] => generalize (beval s x); intro end;
  repeat match goal with v : bool |- _ => destruct v end; reflexivity.
Lemma low_bit x : Nat.land x 1 = x mod 2.
Proof. change 1 with (Nat.ones 1). rewrite Nat.land_ones. reflexivity. Qed.
Lemma src_categorize_ok : forall e c, src_categorize e c = categorize e c.
Proof.
  intros e c. unfold src_categorize, categorize.
  assert (H : Nat.testbit e c = Nat.odd (Nat.shiftr e c)).
  { rewrite <- Nat.bit0_odd, Nat.shiftr_spec by lia. rewrite Nat.add_0_l. reflexivity. }
  rewrite H, ?low_bit. generalize (Nat.shiftr e c). intros x.
  assert (Hx : x mod 2 < 2) by (apply Nat.mod_upper_bound; lia).
  rewrite (Nat.div_mod x 2) at 2 by lia. rewrite Nat.add_comm, Nat.odd_add_mul_2.
  destruct (x mod 2) as [|[|k]]; cbn; try reflexivity; lia.
Qed.
Print Assumptions src_categorize_ok.
Lemma src_insert_ok : forall bits b e, src_insert bits b e = s_insert bits b e.
Proof.
  intros bits b e. unfold src_insert, s_insert, minterm. cbv zeta. f_equal.
  change (bconst true) with T.
  replace (map (fun i => if src_categorize e i then bvar i else bnot (bvar i)) (seq 0 bits)) with (map (lit e) (seq 0 bits)).
  - reflexivity.
  - apply map_ext. intros i. unfold lit. rewrite src_categorize_ok. reflexivity.
Qed.
Print Assumptions src_insert_ok.
Lemma src_union_ok : forall a b, robdd a -> robdd b -> src_union a b = s_union a b.
Proof. intros a b Ha Hb. first [reflexivity | unfold src_union, s_union; cbv zeta; match goal with |- ?l = ?r => assert (Hl : robdd l) by shape; assert (Hr : robdd r) by shape; apply (proj2 (robdd_canonical l r Hl Hr)); unfold equiv; sem end]. Qed.
Print Assumptions src_union_ok.
Lemma src_intersect_ok : forall a b, robdd a -> robdd b -> src_intersect a b = s_intersect a b.
Proof. intros a b Ha Hb. first [reflexivity | unfold src_intersect, s_intersect; cbv zeta; match goal with |- ?l = ?r => assert (Hl : robdd l) by shape; assert (Hr : robdd r) by shape; apply (proj2 (robdd_canonical l r Hl Hr)); unfold equiv; sem end]. Qed.
Print Assumptions src_intersect_ok.
Lemma src_complement_ok : forall a b, robdd a -> robdd b -> src_complement a b = s_complement a b.
Proof. intros a b Ha Hb. first [reflexivity | unfold src_complement, s_complement; cbv zeta; match goal with |- ?l = ?r => assert (Hl : robdd l) by shape; assert (Hr : robdd r) by shape; apply (proj2 (robdd_canonical l r Hl Hr)); unfold equiv; sem end]. Qed.
Print Assumptions src_complement_ok.
Lemma src_empty_ok : forall a, src_empty a = s_empty.
Proof. reflexivity. Qed.
Print Assumptions src_empty_ok.
Lemma src_universe_ok : forall a, src_universe a = s_universe.
Proof. reflexivity. Qed.
Print Assumptions src_universe_ok.
''' % (cat, ins, uni, inter, comp, emp, univ)
    return text, ['src_categorize_ok', 'src_insert_ok', 'src_union_ok', 'src_intersect_ok', 'src_complement_ok', 'src_empty_ok', 'src_universe_ok']


def run(ctx):
    set_rs = os.path.join(ctx.repo, 'src', 'set.rs')
    info = {'source': 'src/set.rs (categorize, insert, union, intersect, complement)'}
    status, detail, names = 'proved', '', []
    try:
        text, names = gallina(open(set_rs, encoding='utf-8').read())
        info.update(obligations=len(names))
        gdir = os.path.join(ctx.build, 'gen')
        os.makedirs(gdir, exist_ok=True)
        gen = os.path.join(gdir, 'SrcSet_%s.v' % ctx.pid)
        with open(gen, 'w') as f:
            f.write(text)
        coq = os.path.join(ctx.root, 'coq')
        rc0, out0 = build.coq_make(ctx, ['theories/Sets/BddSet.vo'])
        if rc0 != 0:
            raise build.BuildError('Sets/BddSet.vo does not build:\n' + out0[-1500:])
        rc, out = build.sh(['timeout', '600', 'coqc', '-Q', os.path.join(coq, 'theories'), 'Rsbdd', '-o',
                            os.path.join(gdir, 'SrcSet_%s.vo' % ctx.pid), gen], cwd=gdir)
        if rc != 0 or out.count('Closed under the global context') != len(names):
            status, detail = 'obligation-failed', out[-1500:]
    except Shape as e:
        status, detail = 'shape-not-recognised', str(e)
    except build.BuildError:
        raise
    except Exception as e:                       # whatever the source looks like, the translator must not take the check down
        status, detail = 'shape-not-recognised', 'the translator could not read the source: %s: %s' % (type(e).__name__, e)
    info['status'] = status
    if detail:
        info['detail'] = detail[-800:]
    if status != 'shape-not-recognised':
        for t in (names or ['src_insert_ok']):
            ctx.obligations.append(('generated:' + t, 'closed' if status == 'proved' else 'failed'))
    ctx.trusted.append('translator lib/vlib/srcset.py (categorize, insert, union, intersect, complement of src/set.rs -> Gallina definitions over diagrams; status this run: %s)' % status)
    return status, detail, info
