"""Source-derived tables (second tie, by translation): the data tables of the tokenizer are re-read from /repo/src/parser.rs on
every run - the symbol alternation of the TOKENIZER regex and the literal arms of `match symbol.as_str()` and
`match identifier.as_str()` - emitted as Gallina lists, and two theorems about THOSE lists are checked by coqc:

  source_symbols  : forall l, the leftmost-first alternation followed by the symbol arms = scan_symbol / token_of_sym of the model
  source_keywords : forall w, the keyword arms = the model's keyword table

(coq/theories/Syntax/SrcTables.v reduces both to boolean conditions decided by vm_compute).  Whatever happens, every string
literal of the tokenizer's body, every alternative and every model key is then run through implementation and model (op tok),
alone, followed by a name, and pairwise concatenated for the short ones: a spelling that was added, removed, re-mapped or
re-prioritised is itself the failing input.  A table the translator cannot read (the code was restructured) is only noted."""
import os
import re

from . import build


class Shape(Exception):
    pass


def _rust_str(body):
    """decode the inside of a Rust string literal (the escapes that can occur in a spelling)"""
    out, i = [], 0
    while i < len(body):
        c = body[i]
        if c != '\\':
            out.append(c); i += 1; continue
        n = body[i + 1] if i + 1 < len(body) else ''
        if n in '\\"\'':
            out.append(n); i += 2
        elif n == 'n':
            out.append('\n'); i += 2
        elif n == 't':
            out.append('\t'); i += 2
        elif n == 'u':
            m = re.match(r'\\u\{([0-9a-fA-F_]+)\}', body[i:])
            if not m:
                raise Shape('string escape')
            out.append(chr(int(m.group(1).replace('_', ''), 16))); i += len(m.group(0))
        else:
            raise Shape('string escape \\%s' % n)
    return ''.join(out)


def _block(src, start):
    """the text between the brace at src[start] and its partner (string and char literals skipped)"""
    assert src[start] == '{'
    depth, i = 0, start
    while i < len(src):
        c = src[i]
        if c == '"':
            i += 1
            while i < len(src) and src[i] != '"':
                i += 2 if src[i] == '\\' else 1
        elif c == '/' and src[i:i + 2] == '//':
            while i < len(src) and src[i] != '\n':
                i += 1
        elif c == '{':
            depth += 1
        elif c == '}':
            depth -= 1
            if depth == 0:
                return src[start + 1:i]
        i += 1
    raise Shape('unbalanced block')


def _alternation(rx):
    """the literal alternatives of the first group (?P<symbol>...) of the regex, in order"""
    head = '(?P<symbol>'
    if not rx.startswith(head):
        raise Shape('the regex does not start with the symbol group')
    i, depth, cur, alts = len(head), 1, [], []
    while i < len(rx):
        c = rx[i]
        if c == '\\':
            if i + 1 >= len(rx) or rx[i + 1].isalnum():
                raise Shape('class escape inside the symbol group')
            cur.append(rx[i + 1]); i += 2; continue
        if c == '|' and depth == 1:
            alts.append(''.join(cur)); cur = []
        elif c == ')':
            depth -= 1
            if depth == 0:
                alts.append(''.join(cur))
                return alts, rx[i + 1:]
            raise Shape('nested group inside the symbol group')
        elif c in '([{.*+?^$':
            raise Shape('metacharacter %r inside the symbol group' % c)
        else:
            cur.append(c)
        i += 1
    raise Shape('symbol group not closed')


ARM = re.compile(r'\s*((?:"(?:[^"\\]|\\.)*"\s*\|\s*)*"(?:[^"\\]|\\.)*")\s*=>\s*result\s*\.\s*push\s*\(\s*SymbolicBDDToken::(\w+)\s*\)\s*,?')


def _arms(src, subject):
    """literal arms of `match <subject>.as_str() { .. }`: [(spelling, constructor)], plus the number of non-literal arms"""
    m = re.search(r'match\s+%s\s*\.\s*as_str\s*\(\s*\)\s*\{' % subject, src)
    if not m:
        raise Shape('no match on %s.as_str()' % subject)
    body = _block(src, m.end() - 1)
    arms, pos, other = [], 0, 0
    while pos < len(body):
        if not body[pos:].strip():
            break
        a = ARM.match(body, pos)
        if a:
            for lit in re.findall(r'"((?:[^"\\]|\\.)*)"', a.group(1)):
                arms.append((_rust_str(lit), a.group(2)))
            pos = a.end()
            continue
        # a non-literal arm: `name => { .. }` or `_ => { .. }` (the variable case / the unknown-symbol error)
        d = re.match(r'\s*(\w+)\s*=>\s*\{', body[pos:])
        if not d:
            raise Shape('an arm of the match on %s is neither literals => push(token) nor a default block' % subject)
        blk = _block(body, pos + d.end() - 1)
        pos = pos + d.end() + len(blk) + 1
        m2 = re.match(r'\s*,?', body[pos:])
        pos += m2.end()
        other += 1
    if other != 1:
        raise Shape('%d default arms in the match on %s' % (other, subject))
    return arms


def extract(parser_rs):
    src = open(parser_rs, encoding='utf-8').read()
    m = re.search(r'Regex::new\(\s*r#"(.*?)"#\s*\)', src, re.S)
    if not m:
        raise Shape('TOKENIZER regex literal not found')
    alts, rest = _alternation(m.group(1))
    return dict(alternation=alts, regex_rest=rest, symbols=_arms(src, 'symbol'), keywords=_arms(src, 'identifier'))


def tokenizer_literals(parser_rs):
    """every string literal inside `pub fn tokenize` (search candidates, independent of the shape of the code)"""
    src = open(parser_rs, encoding='utf-8').read()
    m = re.search(r'pub\s+fn\s+tokenize\s*\(', src)
    lits = []
    if m:
        b = src.index('{', m.end())
        try:
            body = _block(src, b)
        except Shape:
            body = src[b:b + 8000]
        for lit in re.findall(r'"((?:[^"\\]|\\.)*)"', body):
            try:
                lits.append(_rust_str(lit))
            except Shape:
                pass
    r = re.search(r'Regex::new\(\s*r#"(.*?)"#\s*\)', src, re.S)
    if r:
        # also the pieces of the regex between alternation bars, unescaped naively
        for piece in re.split(r'(?<!\\)\|', r.group(1)):
            piece = re.sub(r'\(\?P<\w+>', '', piece)
            piece = re.sub(r'\\(.)', r'\1', piece).strip('()')
            if piece:
                lits.append(piece)
    return lits


REGEX_REST = r'''|(?P<countable>\d+)|\{(?P<reference>[\w']+)\}|(?P<identifier>[\w']+)|(?P<eof>$)|(?P<comment>"[^"]*")'''

MODEL_KEYS = ['<=>', '<=', '=>', '>=', '<', '=', '>', '!', '-', '&', '*', '|', '+', '^', '#', '[', ']', ',', '(', ')',
              'false', 'true', 'not', 'and', 'or', 'xor', 'nor', 'nand', 'implies', 'in', 'iff', 'eq', 'exists', 'any', 'forall',
              'all', 'if', 'then', 'else', 'gfp', 'nu', 'lfp', 'mu']


def _codes(s):
    return '[' + '; '.join(str(ord(c)) for c in s) + ']'


def gallina(tabs):
    def table(arms):
        return '[ ' + ';\n    '.join('(%s, T%s)' % (_codes(k), ctor) for k, ctor in arms) + ' ]'
    return '''(* generated by lib/vlib/srctab.py from /repo/src/parser.rs on every run; do not edit *)
From Coq Require Import List NArith.
Import ListNotations.
From Rsbdd Require Import Syntax.Lexer Syntax.Token Syntax.Tokenize Syntax.SrcTables.
Local Open Scope N_scope.
Definition src_alternation : list (list N) := [ %s ].
Definition src_symbol_arms : list (list N * token) :=
  %s.
Definition src_keyword_arms : list (list N * token) :=
  %s.
Theorem source_symbols : forall l,
  match first_match src_alternation l with
  | Some k => exists s, scan_symbol l = Some (s, skipn (length k) l) /\\ assoc k src_symbol_arms = Some (token_of_sym s)
  | None => scan_symbol l = None
  end.
Proof. apply src_lexer_agrees; vm_compute; reflexivity. Qed.
Theorem source_keywords : forall w, assoc w src_keyword_arms = assoc w keywords.
Proof. apply src_keywords_agree; vm_compute; reflexivity. Qed.
Print Assumptions source_symbols.
Print Assumptions source_keywords.
''' % ('; '.join(_codes(a) for a in tabs['alternation']), table(tabs['symbols']), table(tabs['keywords']))


def candidates(lits):
    """tok cases: every spelling alone, followed by a name, glued to a name, and the short ones pairwise concatenated"""
    seen, out = set(), []

    def add(s):
        if s and s not in seen and all(ord(c) < 128 and c != '\0' for c in s) and len(s) <= 40:
            seen.add(s)
            out.append(s)
    keys = []
    for s in lits:
        if s and s not in keys and len(s) <= 24 and all(32 < ord(c) < 127 for c in s):
            keys.append(s)
    for k in keys:
        add(k)
        add(k + ' a')
        add('a ' + k + ' b')
        add(k + 'a')
        add('a' + k)
    short = [k for k in keys if len(k) <= 3]
    for a in short:
        for b in short:
            add(a + b)
    return out


def run(ctx):
    from . import suites
    parser_rs = os.path.join(ctx.repo, 'src', 'parser.rs')
    info = {'source': 'src/parser.rs'}
    status, detail, tabs = 'proved', '', None
    try:
        tabs = extract(parser_rs)
        info.update(alternatives=len(tabs['alternation']), symbol_arms=len(tabs['symbols']), keyword_arms=len(tabs['keywords']))
        if tabs['regex_rest'] != REGEX_REST:
            info['regex_rest_changed'] = tabs['regex_rest'][:300]
        gdir = os.path.join(ctx.build, 'gen')
        os.makedirs(gdir, exist_ok=True)
        gen = os.path.join(gdir, 'SrcGen_%s.v' % ctx.pid)
        with open(gen, 'w') as f:
            f.write(gallina(tabs))
        coq = os.path.join(ctx.root, 'coq')
        rc0, out0 = build.coq_make(ctx, ['theories/Syntax/SrcTables.vo'])
        if rc0 != 0:
            raise build.BuildError('Syntax/SrcTables.vo does not build:\n' + out0[-1500:])
        rc, out = build.sh(['timeout', '300', 'coqc', '-Q', os.path.join(coq, 'theories'), 'Rsbdd', '-o',
                            os.path.join(gdir, 'SrcGen_%s.vo' % ctx.pid), gen], cwd=gdir)
        if rc != 0 or out.count('Closed under the global context') != 2:
            status, detail = 'obligation-failed', out[-1200:]
    except Shape as e:
        status, detail = 'shape-not-recognised', str(e)
    except build.BuildError:
        raise
    except Exception as e:                       # whatever the source looks like, the translator must not take the check down
        status, detail = 'shape-not-recognised', 'the translator could not read the source: %s: %s' % (type(e).__name__, e)
    info['status'] = status
    if detail:
        info['detail'] = detail[-600:]
    if status != 'shape-not-recognised':
        for t in ('source_symbols', 'source_keywords'):
            ctx.obligations.append(('generated:' + t, 'closed' if status == 'proved' else 'failed'))
    # the search runs in every case
    try:
        lits = tokenizer_literals(parser_rs)
    except Exception:
        lits = []
    texts = candidates(MODEL_KEYS + lits)
    hbin = build.harness(ctx, 'release')
    drv = build.model_driver(ctx)
    cases = [('tok', '(() (%s))' % ' '.join(str(ord(c)) for c in t)) for t in texts]
    # the same spellings inside formulas, evaluated: a word that became a keyword is a variable that can no longer be
    # written, a character pair that became an operator changes which texts are formulas
    ev, seen = [], set()
    for k in [t for t in texts if len(t) <= 12 and ' ' not in t]:
        for t in (k, 'a & %s b' % k, '%s a' % k, 'a %s' % k, 'a %s b' % k, '(%s) | a' % k):
            if t not in seen:
                seen.add(t)
                ev.append(t)
    cases += [('eval', '(() (%s))' % ' '.join(str(ord(c)) for c in t)) for t in ev]
    summary, mism = suites.compare_cases(ctx, hbin, drv, cases)
    info['candidate_texts'] = len(cases)
    info['differing'] = len(mism)
    ctx.suite_stats.append(dict(suite='S-srctab', cases=summary.get('cases', 0), distinct_nontrivial=summary.get('distinct_nontrivial', 0),
                                mismatches=len(mism), ops=summary.get('ops', {}), samples=summary.get('samples', [])[:4],
                                rule='every string literal of the tokenizer body, every regex alternative and every model spelling: alone, next to a name, glued to a name, short ones pairwise concatenated (op tok)',
                                exhaustive=False, profile='release', source_tables=info))
    ctx.trusted.append('translator lib/vlib/srctab.py (reads the regex alternation and the literal match arms of src/parser.rs; status this run: %s)' % status)
    if mism:
        ctx.log('%d differing candidate text(s) from the source tables' % len(mism))
        suites.analyse(ctx, dict(suite='text', parts=['srctab']), hbin, drv, mism)
    elif status == 'obligation-failed':
        ctx.violation({'kind': 'proof-obligation', 'key': 'srctab:' + ctx.pid,
                       'broken': 'theorem source_symbols / source_keywords about the tables regenerated from src/parser.rs no longer checks (Syntax/SrcTables.v: src_lexer_agrees, src_keywords_agree)',
                       'detail': detail, 'tables': {k: v for k, v in (tabs or {}).items()}}, no_input=True)
    elif status == 'shape-not-recognised':
        ctx.notes.append('source tables: the translator does not recognise the shape of the tokenizer any more (%s); the obligations were not re-derived in this run, the candidate search found no difference' % detail)
