(* Base of the model-side comparator of the correspondence suites.
   Reads case lines  "op \t args-sexp \t real-result"  on stdin, evaluates the extracted Coq model
   (module Model) on the same arguments, compares the canonical result strings, and prints
     MISMATCH \t line-no \t op \t args \t real \t model
   for every difference, then one line  SUMMARY \t <json>.
   With  --print  it prints the model result for every line instead (used by the vm_compute cross-run).
   Everything semantic is extracted code; this file only parses and prints. *)
open Model
type string = Stdlib.String.t

(* ---------- s-expressions ---------- *)
type sx = A of string | L of sx list

exception Bad of string

let parse_sx (s : string) : sx =
  let n = String.length s in
  let pos = ref 0 in
  let rec skip () = if !pos < n && (s.[!pos] = ' ') then (incr pos; skip ()) in
  let rec one () =
    skip ();
    if !pos >= n then raise (Bad "eof")
    else if s.[!pos] = '(' then begin
      incr pos;
      let items = ref [] in
      let rec loop () =
        skip ();
        if !pos >= n then raise (Bad "unclosed")
        else if s.[!pos] = ')' then incr pos
        else (items := one () :: !items; loop ()) in
      loop (); L (List.rev !items)
    end else if s.[!pos] = ')' then raise (Bad "unexpected )")
    else begin
      let st = !pos in
      while !pos < n && s.[!pos] <> ' ' && s.[!pos] <> '(' && s.[!pos] <> ')' do incr pos done;
      A (String.sub s st (!pos - st))
    end in
  let r = one () in
  skip ();
  if !pos <> n then raise (Bad "trailing") else r

(* ---------- numbers ---------- *)
let rec nat_of_int n = if n <= 0 then O else S (nat_of_int (n - 1))
let rec int_of_nat = function O -> 0 | S k -> 1 + int_of_nat k

(* decimal string <-> positive, without relying on OCaml int width *)
let dec_to_bits (s : string) : bool list (* lsb first *) =
  let digits = Array.init (String.length s) (fun i ->
    let c = Char.code s.[i] - 48 in if c < 0 || c > 9 then raise (Bad ("digit " ^ s)) else c) in
  let len = Array.length digits in
  let is_zero () = Array.for_all (fun d -> d = 0) digits in
  let bits = ref [] in
  while not (is_zero ()) do
    let carry = ref 0 in
    for i = 0 to len - 1 do
      let cur = !carry * 10 + digits.(i) in
      digits.(i) <- cur / 2; carry := cur mod 2
    done;
    bits := (!carry = 1) :: !bits
  done;
  List.rev !bits

let rec pos_of_bits = function
  | [] -> raise (Bad "zero positive")
  | [true] -> XH
  | b :: r -> if b then XI (pos_of_bits r) else XO (pos_of_bits r)

(* drop high zero bits (msb is last) *)
let norm_bits bits = let rec go = function [] -> [] | b :: r -> (match go r with [] -> if b then [true] else [] | r' -> b :: r') in go bits

let n_of_dec (s : string) : n =
  match norm_bits (dec_to_bits s) with [] -> N0 | bits -> Npos (pos_of_bits bits)
let z_of_dec (s : string) : z =
  if String.length s > 0 && s.[0] = '-' then
    (match n_of_dec (String.sub s 1 (String.length s - 1)) with N0 -> Z0 | Npos p -> Zneg p)
  else (match n_of_dec s with N0 -> Z0 | Npos p -> Zpos p)
let n_of_int (i : int) : n = n_of_dec (string_of_int i)

let rec bits_of_pos = function XH -> [true] | XO p -> false :: bits_of_pos p | XI p -> true :: bits_of_pos p
let dec_of_bits (bits : bool list) (* lsb first *) : string =
  let digits = ref [0] (* lsb first decimal *) in
  List.iter (fun b ->
    let carry = ref (if b then 1 else 0) in
    digits := List.map (fun d -> let v = d * 2 + !carry in carry := v / 10; v mod 10) !digits;
    if !carry > 0 then digits := !digits @ [!carry]) (List.rev bits);
  String.concat "" (List.rev_map string_of_int !digits)
let dec_of_n = function N0 -> "0" | Npos p -> dec_of_bits (bits_of_pos p)
let dec_of_z = function Z0 -> "0" | Zpos p -> dec_of_bits (bits_of_pos p) | Zneg p -> "-" ^ dec_of_bits (bits_of_pos p)
let int_of_n x = int_of_string (dec_of_n x)

(* ---------- diagrams ---------- *)
let atom = function A s -> s | L _ -> raise (Bad "atom expected")
let int_atom x = int_of_string (atom x)
let nat_atom x = nat_of_int (int_atom x)
let list_of = function L l -> l | A _ -> raise (Bad "list expected")

(* a raw tree: no [mk]; used for real results handed to checkers *)
let rec bdd_raw = function
  | A "F" -> F | A "T" -> T
  | L [A "N"; t; v; f] -> Nd (bdd_raw t, nat_atom v, bdd_raw f)
  | L [A "R"; t; v; f] -> Nd (bdd_raw t, nat_atom v, bdd_raw f)
  | _ -> raise (Bad "bdd")

let rec show_bdd buf = function
  | F -> Buffer.add_char buf 'F' | T -> Buffer.add_char buf 'T'
  | Nd (t, v, f) ->
      Buffer.add_string buf "(N "; show_bdd buf t; Buffer.add_char buf ' ';
      Buffer.add_string buf (string_of_int (int_of_nat v)); Buffer.add_char buf ' ';
      show_bdd buf f; Buffer.add_char buf ')'
let bdd_str b = let buf = Buffer.create 64 in show_bdd buf b; Buffer.contents buf

