#!/bin/sh
# Extract the executable model from the compiled Coq development and build the comparator.
# usage: ocaml/build.sh   (run from /verif; needs coq/theories/**/*.vo up to date)
set -e
cd "$(dirname "$0")/.."
mkdir -p _build/ocaml
cd _build/ocaml
coqc -Q ../../coq/theories Rsbdd ../../coq/extract/Extract.v > extract.log 2>&1 || { cat extract.log; exit 1; }
cp ../../ocaml/base.ml ../../ocaml/suites.ml ../../ocaml/driver.ml .
ocamlfind ocamlopt -w -a -o driver model.mli model.ml base.ml suites.ml driver.ml
