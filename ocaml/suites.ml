(* Operation handlers of the correspondence suites: parse the arguments, call extracted code, print. *)
open Model
open Base

(* ---------- S-bdd: operation programs ---------- *)
let tte_of = function A "t" -> TTrue | A "f" -> TFalse | A "a" -> TAny | _ -> raise (Bad "tte")

let rec expr_of (x : sx) : expr =
  match x with
  | A "X" -> EX
  | A "F" -> ELit F | A "T" -> ELit T
  | L [A "N"; _; _; _] -> ELit (bdd_raw x)
  | L [A "tt"; L vars; num] -> ELit (build_tt (List.map nat_atom vars) (n_of_dec (atom num)) N0)
  | L [A "var"; v] -> EVar (nat_atom v)
  | L [A "const"; b] -> EConst (atom b = "1")
  | L [A "not"; a] -> ENot (expr_of a)
  | L [A "and"; a; b] -> EAnd (expr_of a, expr_of b)
  | L [A "or"; a; b] -> EOr (expr_of a, expr_of b)
  | L [A "imp"; a; b] -> EImp (expr_of a, expr_of b)
  | L [A "eq"; a; b] -> EEq (expr_of a, expr_of b)
  | L [A "xor"; a; b] -> EXor (expr_of a, expr_of b)
  | L [A "nor"; a; b] -> ENor (expr_of a, expr_of b)
  | L [A "nand"; a; b] -> ENand (expr_of a, expr_of b)
  | L [A "ite"; a; b; c] -> EIte (expr_of a, expr_of b, expr_of c)
  | L [A "aln"; L bs; n] -> EAln (List.map expr_of bs, z_of_dec (atom n))
  | L [A "amn"; L bs; n] -> EAmn (List.map expr_of bs, z_of_dec (atom n))
  | L [A "exn"; L bs; n] -> EExn (List.map expr_of bs, z_of_dec (atom n))
  | L [A "cleq"; L a; L b] -> ELeq (List.map expr_of a, List.map expr_of b)
  | L [A "clt"; L a; L b] -> ELt (List.map expr_of a, List.map expr_of b)
  | L [A "cgeq"; L a; L b] -> EGeq (List.map expr_of a, List.map expr_of b)
  | L [A "cgt"; L a; L b] -> EGt (List.map expr_of a, List.map expr_of b)
  | L [A "ceq"; L a; L b] -> ECeq (List.map expr_of a, List.map expr_of b)
  | L [A "ex"; L vs; a] -> EEx (List.map nat_atom vs, expr_of a)
  | L [A "ex1"; v; a] -> EEx1 (nat_atom v, expr_of a)
  | L [A "all"; L vs; a] -> EAll (List.map nat_atom vs, expr_of a)
  | L [A "fp"; i; b] -> EFp (expr_of i, expr_of b)
  | L [A "model"; a] -> EModel (expr_of a)
  | L [A "retain"; f; a] -> ERetain (tte_of f, expr_of a)
  | L [A "clean"; a] -> EClean (expr_of a)
  | L [A "mk"; t; v; f] -> EMk (expr_of t, nat_atom v, expr_of f)
  | _ -> raise (Bad "expr")

let run_fuel = nat_of_int 400

let op_run (args : sx) : string =
  match args with
  | L [A "infer"; e; v] ->
      (match run_infer run_fuel (expr_of e) (nat_atom v) with
       | Some (a, b) -> Printf.sprintf "(ok (%d %d))" (if a then 1 else 0) (if b then 1 else 0)
       | None -> "(diverge)")
  | e ->
      (match run run_fuel F (expr_of e) with
       | Some b -> "(ok " ^ bdd_str b ^ ")"
       | None -> "(diverge)")


(* verdict of the property's executable checker on a differing case (real output vs model) *)
let show_alist (w : (nat * bool) list) =
  "(" ^ String.concat " " (List.map (fun (v, b) -> Printf.sprintf "(%d %d)" (int_of_nat v) (if b then 1 else 0)) w) ^ ")"
let show_verdict = function
  | VHolds -> "holds"
  | VShape -> "shape"
  | VSem w -> "sem " ^ show_alist w
  | VClause (n, w) -> Printf.sprintf "clause %d %s" (int_of_nat n) (show_alist w)

let ok_payload (s : string) : sx option =
  match (try Some (parse_sx s) with Bad _ -> None) with
  | Some (L [A "ok"; x]) -> Some x
  | _ -> None

let classify_run (args : sx) (real : string) (_model : string) : string =
  match ok_payload real with
  | None -> "no-result"
  | Some rx ->
    (match args with
     | L [A "infer"; e; v] ->
        (match rx, run run_fuel F (expr_of e) with
         | L [p; q], Some m -> show_verdict (verdict_infer m (nat_atom v) (atom p = "1") (atom q = "1"))
         | _ -> "no-result")
     | L [A "model"; a] ->
        (match run run_fuel F (expr_of a) with
         | Some a' -> show_verdict (verdict_model a' (bdd_raw rx)) | None -> "operand-diverges")
     | L [A "retain"; f; a] ->
        (match run run_fuel F (expr_of a) with
         | Some a' -> show_verdict (verdict_retain (tte_of f) a' (bdd_raw rx)) | None -> "operand-diverges")
     | e ->
        (match run run_fuel F (expr_of e) with
         | Some m ->
            let r = bdd_raw rx in
            let shape = if robddb r then "" else "shape " in
            (match find_diff r m with
             | Some w -> shape ^ "sem " ^ show_alist w
             | None -> if shape = "" then "holds" else "shape")
         | None -> "model-diverges"))

let classifiers : (string, sx -> string -> string -> string) Hashtbl.t = Hashtbl.create 16
let () = Hashtbl.replace classifiers "run" classify_run

(* ---------- dispatch ---------- *)
let table : (string, sx -> string) Hashtbl.t = Hashtbl.create 64
let () = Hashtbl.replace table "run" op_run
