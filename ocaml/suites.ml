(* Operation handlers of the correspondence suites: parse the arguments, call extracted code, print. *)
open Model
open Base
type string = Stdlib.String.t

(* ---------- S-bdd: operation programs ---------- *)
let tte_of = function A "t" -> TTrue | A "f" -> TFalse | A "a" -> TAny | _ -> raise (Bad "tte")

let rec expr_of (x : sx) : expr =
  match x with
  | A "X" -> EX
  | A "F" -> ELit F | A "T" -> ELit T
  | L [A "N"; _; _; _] -> ELit (bdd_raw x)
  | L [A "R"; _; _; _] -> ERaw (bdd_raw x)
  | L [A "tt"; L vars; num] -> ELit (build_tt (List.map nat_atom vars) (n_of_dec (atom num)) N0)
  | L [A "var"; v] -> EVar (nat_atom v)
  | L [A "const"; b] -> EConst (atom b = "1")
  | L [A "not"; a] -> ENot (expr_of a)
  | L [A "and"; a; b] -> EAnd (expr_of a, expr_of b)
  | L [A "or"; a; b] -> EOr (expr_of a, expr_of b)
  | L [A "imp"; a; b] -> EImp (expr_of a, expr_of b)
  | L [A "eq"; a; b] -> EEq (expr_of a, expr_of b)
  | L [A "xor"; a; b] -> EXor (expr_of a, expr_of b)
  | L [A "nor"; a; b] -> ENor (expr_of a, expr_of b)
  | L [A "nand"; a; b] -> ENand (expr_of a, expr_of b)
  | L [A "ite"; a; b; c] -> EIte (expr_of a, expr_of b, expr_of c)
  | L [A "aln"; L bs; n] -> EAln (List.map expr_of bs, z_of_dec (atom n))
  | L [A "amn"; L bs; n] -> EAmn (List.map expr_of bs, z_of_dec (atom n))
  | L [A "exn"; L bs; n] -> EExn (List.map expr_of bs, z_of_dec (atom n))
  | L [A "cleq"; L a; L b] -> ELeq (List.map expr_of a, List.map expr_of b)
  | L [A "clt"; L a; L b] -> ELt (List.map expr_of a, List.map expr_of b)
  | L [A "cgeq"; L a; L b] -> EGeq (List.map expr_of a, List.map expr_of b)
  | L [A "cgt"; L a; L b] -> EGt (List.map expr_of a, List.map expr_of b)
  | L [A "ceq"; L a; L b] -> ECeq (List.map expr_of a, List.map expr_of b)
  | L [A "ex"; L vs; a] -> EEx (List.map nat_atom vs, expr_of a)
  | L [A "ex1"; v; a] -> EEx1 (nat_atom v, expr_of a)
  | L [A "all"; L vs; a] -> EAll (List.map nat_atom vs, expr_of a)
  | L [A "fp"; i; b] -> EFp (expr_of i, expr_of b)
  | L [A "model"; a] -> EModel (expr_of a)
  | L [A "retain"; f; a] -> ERetain (tte_of f, expr_of a)
  | L [A "clean"; a] -> EClean (expr_of a)
  | L [A "mk"; t; v; f] -> EMk (expr_of t, nat_atom v, expr_of f)
  | _ -> raise (Bad "expr")

let run_fuel = nat_of_int 400

let op_run (args : sx) : string =
  match args with
  | L [A "infer"; e; v] ->
      (match run_infer run_fuel (expr_of e) (nat_atom v) with
       | Some (a, b) -> Printf.sprintf "(ok (%d %d))" (if a then 1 else 0) (if b then 1 else 0)
       | None -> "(diverge)")
  | e ->
      (match run run_fuel F (expr_of e) with
       | Some b -> "(ok " ^ bdd_str b ^ ")"
       | None -> "(diverge)")


(* verdict of the property's executable checker on a differing case (real output vs model) *)
let show_alist (w : (nat * bool) list) =
  "(" ^ String.concat " " (List.map (fun (v, b) -> Printf.sprintf "(%d %d)" (int_of_nat v) (if b then 1 else 0)) w) ^ ")"
let show_verdict = function
  | VHolds -> "holds"
  | VShape -> "shape"
  | VSem w -> "sem " ^ show_alist w
  | VClause (n, w) -> Printf.sprintf "clause %d %s" (int_of_nat n) (show_alist w)

let ok_payload (s : string) : sx option =
  match (try Some (parse_sx s) with Bad _ -> None) with
  | Some (L [A "ok"; x]) -> Some x
  | _ -> None

let classify_run (args : sx) (real : string) (_model : string) : string =
  match ok_payload real with
  | None -> "no-result"
  | Some rx ->
    (match args with
     | L [A "infer"; e; v] ->
        (match rx, run run_fuel F (expr_of e) with
         | L [p; q], Some m -> show_verdict (verdict_infer m (nat_atom v) (atom p = "1") (atom q = "1"))
         | _ -> "no-result")
     | L [A "model"; a] ->
        (match run run_fuel F (expr_of a) with
         | Some a' -> show_verdict (verdict_model a' (bdd_raw rx)) | None -> "operand-diverges")
     | L [A "retain"; f; a] ->
        (match run run_fuel F (expr_of a) with
         | Some a' -> show_verdict (verdict_retain (tte_of f) a' (bdd_raw rx)) | None -> "operand-diverges")
     | e ->
        (match run run_fuel F (expr_of e) with
         | Some m ->
            let r = bdd_raw rx in
            let shape = if robddb r then "" else "shape " in
            (match find_diff_any r m with
             | Some w -> shape ^ "sem " ^ show_alist w
             | None -> if shape = "" then "holds" else "shape")
         | None -> "model-diverges"))

let classifiers : (string, sx -> string -> string -> string) Hashtbl.t = Hashtbl.create 16
let () = Hashtbl.replace classifiers "run" classify_run

(* ---------- dispatch ---------- *)
let table : (string, sx -> string) Hashtbl.t = Hashtbl.create 64
let () = Hashtbl.replace table "run" op_run

(* ---------- text suites: S-tok, S-parse, S-eval ---------- *)
(* text ::= list of code points in decimal; code points >= 128 carry the class the real regex crate
   assigns them: c:w (word, not digit), c:d (digit), c:o (neither) *)
let text_of (x : sx) : (n -> ucls) * n list =
  let tbl : (string, ucls) Hashtbl.t = Hashtbl.create 8 in
  let cps = List.map (fun a ->
    let s = atom a in
    match String.index_opt s ':' with
    | None -> n_of_dec s
    | Some i ->
        let c = String.sub s 0 i in
        let k = match s.[i + 1] with 'w' -> UWord | 'd' -> UDigit | _ -> UOther in
        Hashtbl.replace tbl c k; n_of_dec c) (list_of x) in
  let uc (c : n) = match Hashtbl.find_opt tbl (dec_of_n c) with Some k -> k | None -> UOther in
  (uc, cps)

let name_of_sx (x : sx) : n list = List.map (fun a -> n_of_dec (atom a)) (list_of x)
let show_name (w : n list) = "(" ^ String.concat " " (List.map dec_of_n w) ^ ")"
let ordering_of (x : sx) : (n list * nat) list =
  List.map (function L [nm; id] -> (name_of_sx nm, nat_atom id) | _ -> raise (Bad "ordering")) (list_of x)

let show_token = function
  | TVar v -> Printf.sprintf "(V %d)" (int_of_nat v)
  | TNum k -> "(Num " ^ dec_of_n k ^ ")"
  | TRefT -> "Ref" | TAnd -> "And" | TOr -> "Or" | TNot -> "Not" | TXor -> "Xor" | TNor -> "Nor" | TNand -> "Nand"
  | TImplies -> "Implies" | TImpliesInv -> "ImpliesInv" | TIff -> "Iff" | TIf -> "If" | TThen -> "Then" | TElse -> "Else"
  | TExists -> "Exists" | TForall -> "Forall" | TEq -> "Eq" | TGeq -> "Geq" | TGt -> "Gt" | TLt -> "Lt"
  | TOpenParen -> "OpenParen" | TCloseParen -> "CloseParen" | TOpenSquare -> "OpenSquare" | TCloseSquare -> "CloseSquare"
  | TComma -> "Comma" | TFalse0 -> "False" | TTrue0 -> "True" | TLFP -> "LFP" | TGFP -> "GFP" | THash -> "Hash" | TEof -> "Eof"

let show_binop = function
  | BAnd -> "and" | BOr -> "or" | BXor -> "xor" | BNor -> "nor" | BNand -> "nand" | BImplies -> "imp"
  | BImpliesInv -> "impinv" | BIff -> "iff"
let show_cop = function AtMost -> "le" | LessThan -> "lt" | AtLeast -> "ge" | MoreThan -> "gt" | Exactly -> "eq"
let show_ids l = "(" ^ String.concat " " (List.map (fun v -> string_of_int (int_of_nat v)) l) ^ ")"
let rec show_form buf (f : form) =
  let add = Buffer.add_string buf in
  let lst l = add "("; List.iteri (fun i g -> if i > 0 then add " "; show_form buf g) l; add ")" in
  match f with
  | FFalse -> add "F" | FTrue -> add "T"
  | FVar v -> add (Printf.sprintf "(V %d)" (int_of_nat v))
  | FNot g -> add "(Not "; show_form buf g; add ")"
  | FQuant (q, vs, g) -> add (match q with QExists -> "(Q ex " | QForall -> "(Q all "); add (show_ids vs); add " "; show_form buf g; add ")"
  | FCountC (op, fs, k) -> add ("(CC " ^ show_cop op ^ " "); lst fs; add (" " ^ dec_of_n k ^ ")")
  | FCountV (op, l, r) -> add ("(CV " ^ show_cop op ^ " "); lst l; add " "; lst r; add ")"
  | FFix (v, init, g) -> add (Printf.sprintf "(Fix %d %d " (int_of_nat v) (if init then 1 else 0)); show_form buf g; add ")"
  | FIte (c, t, e) -> add "(Ite "; show_form buf c; add " "; show_form buf t; add " "; show_form buf e; add ")"
  | FBin (op, l, r) -> add ("(Bin " ^ show_binop op ^ " "); show_form buf l; add " "; show_form buf r; add ")"
  | FSub b -> add "(Sub "; show_bdd buf b; add ")"
  | FRef -> add "(Ref)"
let form_str f = let buf = Buffer.create 64 in show_form buf f; Buffer.contents buf

(* fuel bounds the nesting depth and the number of fixed-point iterations *)
let eval_fuel_for cps = nat_of_int (700 + List.length cps)

(* tok (ordering) (text) *)
let op_tok (args : sx) : string =
  match args with
  | L [ord; txt] ->
      let (uc, cps) = text_of txt in
      (match tokenize uc (ordering_of ord) cps with
       | None -> "(err)"
       | Some ts ->
           "(ok (" ^ String.concat " " (List.map show_token ts) ^ ") ("
           ^ String.concat " " (List.map show_name (ident_names (lex_raw uc cps))) ^ "))")
  | _ -> raise (Bad "tok")

(* parse (text) : the syntax tree, variables by id *)
let op_parse (args : sx) : string =
  match args with
  | L [txt] ->
      let (uc, cps) = text_of txt in
      (match tokenize uc [] cps with
       | None -> "(err)"
       | Some ts -> (match parse ts with Ok (f, _) -> "(ok " ^ form_str f ^ ")" | _ -> "(err)"))
  | _ -> raise (Bad "parse")

(* eval (ordering) (text) : result diagram, vars, free_vars *)
let op_eval (args : sx) : string =
  match args with
  | L [ord; txt] ->
      let (uc, cps) = text_of txt in
      (match parsed_formula uc (ordering_of ord) cps with
       | Done p ->
           (match eval_f (eval_fuel_for cps) p.pf_form with
            | Some b ->
                let names = name_table uc (ordering_of ord) cps in
                "(ok " ^ bdd_str b ^ " " ^ show_ids p.pf_vars ^ " " ^ show_ids p.pf_free ^ " ("
                ^ String.concat " " (List.map (fun v -> show_name (name_of names v)) p.pf_vars) ^ "))"
            | None -> "(diverge)")
       | _ -> "(err)")
  | _ -> raise (Bad "eval")

let () =
  Hashtbl.replace table "tok" op_tok;
  Hashtbl.replace table "parse" op_parse;
  Hashtbl.replace table "eval" op_eval

(* verdicts for the text suites *)
let classify_tok (_ : sx) (real : string) (_ : string) : string =
  if real = "(panic)" then "panic" else "lex"
let classify_parse (_ : sx) (real : string) (_ : string) : string =
  if real = "(panic)" then "panic" else "grammar"
let ids_of (x : sx) : nat list = List.map nat_atom (list_of x)
(* all assignments of the given names *)
let rec all_name_asgs = function
  | [] -> [[]]
  | w :: r -> List.concat_map (fun l -> [(w, true) :: l; (w, false) :: l]) (all_name_asgs r)
let classify_eval (args : sx) (real : string) (model : string) : string =
  if real = "(panic)" then "panic"
  else
    let parse_res s = match (try Some (parse_sx s) with Bad _ -> None) with
      | Some (L [A "ok"; b; vars; free; names]) -> `Ok (bdd_raw b, ids_of vars, ids_of free, List.map name_of_sx (list_of names))
      | Some (L [A "err"]) -> `Err
      | Some (L [A "diverge"]) -> `Div
      | _ -> `Other in
    match parse_res real, parse_res model with
    | `Ok (r, rv, rf, rn), `Ok (m, mv, mf, mn) ->
        let parts = ref [] in
        if not (robddb r) then parts := "shape" :: !parts;
        (match find_diff_any r m with Some w -> parts := ("sem " ^ show_alist w) :: !parts | None -> ());
        if rv <> mv || rn <> mn then parts := "vars" :: !parts;
        if rf <> mf then parts := "free" :: !parts;
        if not (List.for_all (fun v -> List.mem v rf) (support r)) then parts := "leak" :: !parts;
        (* C11: under an ordering the answer denotes the same function of the NAMED variables as under the default order *)
        (match args with
         | L [ord; txt] when list_of ord <> [] && List.length rv = List.length rn ->
             let (uc, cps) = text_of txt in
             (match parsed_formula uc [] cps with
              | Done p0 ->
                  (match eval_f (eval_fuel_for cps) p0.pf_form with
                   | Some d0 ->
                       let names0 = name_table uc [] cps in
                       let nm0 = List.map (fun v -> (v, name_of names0 v)) p0.pf_vars in
                       let nmr = List.combine rv rn in
                       let all_names = List.sort_uniq compare (List.map snd nm0 @ rn) in
                       if List.length all_names <= 12 then begin
                         let bad = List.exists (fun asg ->
                           let value tbl v = (match List.assoc_opt v tbl with Some w -> (try List.assoc w asg with Not_found -> false) | None -> false) in
                           beval (value nmr) r <> beval (value nm0) d0) (all_name_asgs all_names) in
                         if bad then parts := "byname" :: !parts
                       end
                   | None -> ())
              | _ -> ())
         | _ -> ());
        if !parts = [] then "holds" else String.concat " " (List.rev !parts)
    | `Err, `Ok _ -> "accept rejected"       (* a text the grammar (= the model, C08) gives a tree is refused: no diagram for a well-formed formula *)
    | `Ok _, `Err -> "accept"
    | `Div, `Ok _ -> "no-result"
    | `Ok _, `Div -> "model-diverges"
    | _ -> "unclassified"
let () =
  Hashtbl.replace classifiers "tok" classify_tok;
  Hashtbl.replace classifiers "parse" classify_parse;
  Hashtbl.replace classifiers "eval" classify_eval

(* ---------- sym / evalx / evalid: the NamedSymbol layer ---------- *)
(* sym i1 name1 i2 name2 : in the model a variable is its id (nat); the name is what Display prints *)
let op_sym (args : sx) : string =
  match args with
  | L [A i1; n1; A i2; _] ->
      (* ids up to 2^64-1: small ones are compared by the extracted Nat.eqb / Nat.ltb (the comparisons the model's operations use),
         large ones as decimal numerals *)
      let small s = String.length s <= 4 in
      let (eq, lt) =
        if small i1 && small i2 then (let a = nat_of_int (int_of_string i1) and b = nat_of_int (int_of_string i2) in (Nat.eqb a b, Nat.ltb a b))
        else (i1 = i2, (String.length i1 < String.length i2) || (String.length i1 = String.length i2 && compare i1 i2 < 0)) in
      let cmp = if eq then "eq" else if lt then "lt" else "gt" in
      Printf.sprintf "(ok %d %s %s 1 %d %s %s)" (if eq then 1 else 0) cmp cmp (if eq then 1 else 0) i1 (show_name (name_of_sx n1))
  | _ -> raise (Bad "sym")
let classify_sym (_ : sx) (real : string) (_ : string) : string = if real = "(panic)" then "panic" else "symbol"
(* tte spelling : the 15 accepted spellings of a TruthTableEntry (README), its predicates (tte_is_true of the model, and the two
   others by constructor), Display and padded Display *)
let op_tte (args : sx) : string =
  match args with
  | L [sp] ->
      let s = String.concat "" (List.map (fun c -> String.make 1 (Char.chr (int_of_string (dec_of_n c)))) (name_of_sx sp)) in
      let e = match s with
        | "true" | "True" | "t" | "T" | "1" -> Some TTrue | "false" | "False" | "f" | "F" | "0" -> Some TFalse
        | "any" | "Any" | "a" | "A" | "*" -> Some TAny | _ -> None in
      (match e with
       | None -> "(err)"
       | Some e ->
           let name = match e with TTrue -> "True" | TFalse -> "False" | TAny -> "Any" in
           let enc (t : string) = "(" ^ String.concat " " (List.map (fun c -> string_of_int (Char.code c)) (List.init (String.length t) (String.get t))) ^ ")" in
           let padl = String.make (7 - String.length name) ' ' ^ name and padr = name ^ String.make (6 - String.length name) ' ' in
           Printf.sprintf "(ok %d %d %d %s %s)" (if tte_is_true e then 1 else 0) (match e with TFalse -> 1 | _ -> 0) (match e with TAny -> 1 | _ -> 0)
             (enc name) (enc (padl ^ "|" ^ padr ^ "|")))
  | _ -> raise (Bad "tte")

(* evalx text1 text2 : both evaluated under the default order, then combined by the model's connectives *)
let model_eval_default (txt : sx) : bdd option option =
  let (uc, cps) = text_of txt in
  match parsed_formula uc [] cps with
  | Done p -> Some (eval_f (eval_fuel_for cps) p.pf_form)
  | _ -> None
let evalx_results (d1 : bdd) (d2 : bdd) : bdd list =
  [band d1 d2; bor d1 d2; beq d1 d2; bxor d1 d2; bimplies d1 d2; band d2 d1; bite d2 d1 (bnot d1)]
let op_evalx (args : sx) : string =
  match args with
  | L [t1; t2] ->
      (match model_eval_default t1, model_eval_default t2 with
       | Some (Some d1), Some (Some d2) -> "(ok " ^ String.concat " " (List.map bdd_str (evalx_results d1 d2)) ^ ")"
       | Some None, _ | _, Some None -> "(diverge)"
       | _ -> "(err)")
  | _ -> raise (Bad "evalx")
let classify_evalx (_ : sx) (real : string) (model : string) : string =
  if real = "(panic)" then "panic"
  else
    let parse_res s = match (try Some (parse_sx s) with Bad _ -> None) with
      | Some (L (A "ok" :: bs)) -> `Ok (List.map bdd_raw bs)
      | Some (L [A "err"]) -> `Err
      | Some (L [A "diverge"]) -> `Div
      | _ -> `Other in
    match parse_res real, parse_res model with
    | `Ok rs, `Ok ms when List.length rs = List.length ms ->
        let parts = ref [] in
        List.iter2 (fun r m ->
          if not (robddb r) && not (List.mem "shape" !parts) then parts := "shape" :: !parts;
          (match find_diff_any r m with
           | Some w -> if not (List.exists (fun p -> String.length p > 3 && String.sub p 0 3 = "sem") !parts) then parts := ("sem " ^ show_alist w) :: !parts
           | None -> ())) rs ms;
        if !parts = [] then "holds" else String.concat " " (List.rev !parts)
    | `Err, `Ok _ | `Ok _, `Err -> "accept"
    | `Div, `Ok _ -> "no-result"
    | `Ok _, `Div -> "model-diverges"
    | _ -> "unclassified"

(* evalid ((name id)..) text mode : ids are arbitrary decimal numerals; both sides work with their ranks *)
let rank_args (args : sx) : sx =
  match args with
  | L [ord; txt; _mode] ->
      let ids = List.map (function L [_; A id] -> id | _ -> raise (Bad "evalid ordering")) (list_of ord) in
      let cmp a b = if String.length a <> String.length b then compare (String.length a) (String.length b) else compare a b in
      let sorted = List.sort_uniq cmp ids in
      let rank id = let rec go k = function [] -> raise (Bad "rank") | x :: r -> if x = id then k else go (k + 1) r in go 0 sorted in
      let ord' = L (List.map (function L [nm; A id] -> L [nm; A (string_of_int (rank id))] | _ -> raise (Bad "evalid ordering")) (list_of ord)) in
      L [ord'; txt]
  | _ -> raise (Bad "evalid")
let op_evalid (args : sx) : string = op_eval (rank_args args)
let classify_evalid (args : sx) (real : string) (model : string) : string = classify_eval (rank_args args) real model
let () =
  Hashtbl.replace table "sym" op_sym; Hashtbl.replace classifiers "sym" classify_sym;
  Hashtbl.replace table "tte" op_tte; Hashtbl.replace classifiers "tte" classify_sym;
  Hashtbl.replace table "evalx" op_evalx; Hashtbl.replace classifiers "evalx" classify_evalx;
  Hashtbl.replace table "evalid" op_evalid; Hashtbl.replace classifiers "evalid" classify_evalid

(* ---------- raw byte texts (S-robust): strict UTF-8 decoding as Rust's read_to_string does it ---------- *)
exception Invalid_utf8
let decode_utf8 (b : int array) : int list =
  let n = Array.length b in
  let out = ref [] in
  let i = ref 0 in
  let cont k = if k >= n then raise Invalid_utf8 else let c = b.(k) in if c land 0xC0 <> 0x80 then raise Invalid_utf8 else c land 0x3F in
  while !i < n do
    let c = b.(!i) in
    if c < 0x80 then (out := c :: !out; incr i)
    else if c >= 0xC2 && c <= 0xDF then (out := (((c land 0x1F) lsl 6) lor cont (!i + 1)) :: !out; i := !i + 2)
    else if c >= 0xE0 && c <= 0xEF then begin
      let cp = ((c land 0x0F) lsl 12) lor (cont (!i + 1) lsl 6) lor cont (!i + 2) in
      if cp < 0x800 || (cp >= 0xD800 && cp <= 0xDFFF) then raise Invalid_utf8;
      out := cp :: !out; i := !i + 3
    end else if c >= 0xF0 && c <= 0xF4 then begin
      let cp = ((c land 0x07) lsl 18) lor (cont (!i + 1) lsl 12) lor (cont (!i + 2) lsl 6) lor cont (!i + 3) in
      if cp < 0x10000 || cp > 0x10FFFF then raise Invalid_utf8;
      out := cp :: !out; i := !i + 4
    end else raise Invalid_utf8
  done;
  List.rev !out

(* general text argument: a code point list, or (raw (bytes…) ((cp tag)…)) ; None = not valid UTF-8 *)
let text_arg (x : sx) : ((n -> ucls) * n list) option =
  match x with
  | L [A "raw"; L bytes; L classes] ->
      let tbl : (int, ucls) Hashtbl.t = Hashtbl.create 8 in
      List.iter (function L [c; t] -> Hashtbl.replace tbl (int_atom c) (match atom t with "w" -> UWord | "d" -> UDigit | _ -> UOther)
                        | _ -> raise (Bad "class")) classes;
      (try
         let cps = decode_utf8 (Array.of_list (List.map int_atom bytes)) in
         let uc (c : n) = match Hashtbl.find_opt tbl (int_of_n c) with Some k -> k | None -> UOther in
         Some (uc, List.map n_of_int cps)
       with Invalid_utf8 -> None)
  | _ -> Some (text_of x)

(* ---------- S-cli ---------- *)
let tte_of_atom = function "t" -> TTrue | "f" -> TFalse | _ -> TAny
let show_cell = function TT -> "T" | TF -> "F" | TA -> "A"
let show_cells cs = "(" ^ String.concat " " (List.map show_cell cs) ^ ")"

(* cli (filter retain model repeat) ordfile-or-none text *)
let op_cli (args : sx) : string =
  match args with
  | L (L [f; c; m; rep] :: ordf :: txt :: _) ->
      let opts = { o_filter = tte_of_atom (atom f); o_retain = tte_of_atom (atom c); o_model = (atom m = "1"); o_repeat = nat_atom rep } in
      let ord = match ordf with A "none" -> `None | x -> (match text_arg x with Some (_, cps) -> `Some cps | None -> `Bad) in
      (match ord, text_arg txt with
       | `Bad, _ | _, None -> "(err)"
       | o, Some (uc, cps) ->
           (* one classification function serves both texts: the class table of the case covers both *)
           let uc = (match ordf with A "none" -> uc | x -> (match text_arg x with Some (uc2, _) -> (fun c -> match uc c with UOther -> uc2 c | k -> k) | None -> uc)) in
           let ordfile = match o with `Some l -> Some l | _ -> None in
           (match cli (eval_fuel_for cps) uc opts ordfile cps with
            | CliError -> "(err)"
            | CliDiverged -> "(diverge)"
            | CliPanic -> "(panic)"
            | CliOk out ->
                let rows = List.sort compare (List.map (fun (cs, r) -> "(" ^ show_cells cs ^ " " ^ (if r then "1" else "0") ^ ")") out.out_rows) in
                let tv = List.sort compare (List.map show_cells out.out_true) in
                "(ok (" ^ String.concat " " (List.map show_name out.out_header) ^ ") (" ^ String.concat " " rows ^ ") ("
                ^ String.concat " " tv ^ ") (" ^ String.concat " " (List.map show_name out.out_order) ^ "))"))
  | _ -> raise (Bad "cli")

(* robust (text) : outcome class of tokenize + parse + eval *)
let op_robust (args : sx) : string =
  match args with
  | L [txt] ->
      (match text_arg txt with
       | None -> "(err)"
       | Some (uc, cps) ->
           (match parsed_formula uc [] cps with
            | Done p -> (match eval_f (eval_fuel_for cps) p.pf_form with Some _ -> "(ok)" | None -> "(diverge)")
            | _ -> "(err)"))
  | _ -> raise (Bad "robust")

let classify_cli (_ : sx) (real : string) (model : string) : string =
  if real = "(panic)" then "panic"
  else if real = "(timeout)" then "no-result"
  else
    let get s = match (try Some (parse_sx s) with Bad _ -> None) with
      | Some (L [A "ok"; h; rows; tv; ord]) -> Some (h, rows, tv, ord) | _ -> None in
    match get real, get model with
    | Some (h1, r1, t1, o1), Some (h2, r2, t2, o2) ->
        let parts = ref [] in
        if h1 <> h2 then parts := "header" :: !parts;
        if r1 <> r2 then parts := "rows" :: !parts;
        if t1 <> t2 then parts := "truevars" :: !parts;
        if o1 <> o2 then parts := "order" :: !parts;
        if !parts = [] then "holds" else String.concat " " (List.rev !parts)
    | _ -> if String.length real > 12 && String.sub real 0 12 = "(ok-roundtri" then "roundtrip" else "accept"
let classify_robust (_ : sx) (real : string) (_ : string) : string =
  if real = "(panic)" then "panic" else "accept"
let () =
  Hashtbl.replace table "cli" op_cli;
  Hashtbl.replace table "robust" op_robust;
  Hashtbl.replace classifiers "cli" classify_cli;
  Hashtbl.replace classifiers "robust" classify_robust

(* ---------- S-set ---------- *)
let sop_of (x : sx) : sop =
  let b a = (atom a = "1") in
  match x with
  | L [A "ins"; i; e] -> SInsert (b i, nat_atom e)
  | L [A "uni"; i; j] -> SUnion (b i, b j)
  | L [A "int"; i; j] -> SIntersect (b i, b j)
  | L [A "cmp"; i; j] -> SComplement (b i, b j)
  | L [A "emp"; i] -> SEmpty (b i)
  | L [A "univ"; i] -> SUniverse (b i)
  | L [A "has"; i; e] -> SContains (b i, nat_atom e)
  | _ -> raise (Bad "sop")
let show_answers l = "(" ^ String.concat " " (List.filter_map (function Some true -> Some "1" | Some false -> Some "0" | None -> None) l) ^ ")"
let op_set (args : sx) : string =
  match args with
  | L [bits; L ops] ->
      let (ans, (b0, b1)) = set_run (nat_atom bits) (List.map sop_of ops) in
      "(ok " ^ show_answers ans ^ " " ^ bdd_str b0 ^ " " ^ bdd_str b1 ^ ")"
  | _ -> raise (Bad "set")
let classify_set (args : sx) (real : string) (_ : string) : string =
  if real = "(panic)" then "panic"
  else if String.length real > 14 && String.sub real 0 14 = "(env-invariant" then "sharing"
  else match args, (try Some (parse_sx real) with Bad _ -> None) with
    | L [_; L ops], Some (L [A "ok"; L ans; _; _]) ->
        let reference = show_answers (set_ref (List.map sop_of ops)) in
        let got = "(" ^ String.concat " " (List.map atom ans) ^ ")" in
        if got = reference then "holds" else "member"
    | _ -> "unclassified"
let () = Hashtbl.replace table "set" op_set; Hashtbl.replace classifiers "set" classify_set

(* setw bits ops : the same machine over binary elements (wide sets, elements up to 2^64-1);
   set2 (bits0 bits1) ops : two sets of different widths in one environment, no operation joins them: each is the
   single-width machine on its own operations (the model has no environment to share) *)
let sopn_of (x : sx) : sopN =
  let b a = (atom a = "1") in
  match x with
  | L [A "ins"; i; e] -> SNInsert (b i, n_of_dec (atom e))
  | L [A "uni"; i; j] -> SNUnion (b i, b j)
  | L [A "int"; i; j] -> SNIntersect (b i, b j)
  | L [A "cmp"; i; j] -> SNComplement (b i, b j)
  | L [A "emp"; i] -> SNEmpty (b i)
  | L [A "univ"; i] -> SNUniverse (b i)
  | L [A "has"; i; e] -> SNContains (b i, n_of_dec (atom e))
  | _ -> raise (Bad "sopN")
let op_setw (args : sx) : string =
  match args with
  | L [bits; L ops] ->
      let (ans, (b0, b1)) = set_runN (nat_atom bits) (List.map sopn_of ops) in
      "(ok " ^ show_answers ans ^ " " ^ bdd_str b0 ^ " " ^ bdd_str b1 ^ ")"
  | _ -> raise (Bad "setw")
let classify_setw (args : sx) (real : string) (_ : string) : string =
  if real = "(panic)" then "panic"
  else if String.length real > 14 && String.sub real 0 14 = "(env-invariant" then "sharing"
  else match args, (try Some (parse_sx real) with Bad _ -> None) with
    | L [_; L ops], Some (L [A "ok"; L ans; _; _]) ->
        let reference = show_answers (set_refN (List.map sopn_of ops)) in
        let got = "(" ^ String.concat " " (List.map atom ans) ^ ")" in
        if got = reference then "holds" else "member"
    | _ -> "unclassified"
let which_set (x : sx) : int = match x with L (_ :: i :: _) -> int_atom i | _ -> raise (Bad "set2 op")
let set2_split (ops : sx list) : (sx list * sx list) =
  (* operations of set 1 are renumbered to set 0 of their own machine *)
  let re0 = function L (h :: _ :: r) -> L (h :: A "0" :: r) | x -> x in
  (List.filter (fun o -> which_set o = 0) ops, List.map re0 (List.filter (fun o -> which_set o = 1) ops))
let set2_merge (ops : sx list) (a0 : 'a list) (a1 : 'a list) : 'a list =
  let rec go ops a0 a1 = match ops with
    | [] -> []
    | o :: r -> if which_set o = 0 then (match a0 with x :: t -> x :: go r t a1 | [] -> raise (Bad "set2")) else (match a1 with x :: t -> x :: go r a0 t | [] -> raise (Bad "set2")) in
  go ops a0 a1
let op_set2 (args : sx) : string =
  match args with
  | L [L [b0; b1]; L ops] ->
      let (o0, o1) = set2_split ops in
      let (ans0, (d0, _)) = set_runN (nat_atom b0) (List.map sopn_of o0) in
      let (ans1, (d1, _)) = set_runN (nat_atom b1) (List.map sopn_of o1) in
      "(ok " ^ show_answers (set2_merge ops ans0 ans1) ^ " " ^ bdd_str d0 ^ " " ^ bdd_str d1 ^ ")"
  | _ -> raise (Bad "set2")
let classify_set2 (args : sx) (real : string) (_ : string) : string =
  if real = "(panic)" then "panic"
  else if String.length real > 14 && String.sub real 0 14 = "(env-invariant" then "sharing"
  else match args, (try Some (parse_sx real) with Bad _ -> None) with
    | L [_; L ops], Some (L [A "ok"; L ans; _; _]) ->
        let (o0, o1) = set2_split ops in
        let reference = show_answers (set2_merge ops (set_refN (List.map sopn_of o0)) (set_refN (List.map sopn_of o1))) in
        let got = "(" ^ String.concat " " (List.map atom ans) ^ ")" in
        if got = reference then "holds" else "member"
    | _ -> "unclassified"
let () =
  Hashtbl.replace table "setw" op_setw; Hashtbl.replace classifiers "setw" classify_setw;
  Hashtbl.replace table "set2" op_set2; Hashtbl.replace classifiers "set2" classify_set2

(* ---------- S-hist ---------- *)
let rec sx_of_bdd = function
  | F -> A "F" | T -> A "T"
  | Nd (t, v, f) -> L [A "N"; sx_of_bdd t; A (string_of_int (int_of_nat v)); sx_of_bdd f]
let rec subst_handles (vals : bdd array) (n : int) (x : sx) : sx =
  match x with
  | L [A "h"; k] -> let i = int_atom k in if i < n then sx_of_bdd vals.(i) else raise (Bad "handle")
  | L l -> L (List.map (subst_handles vals n) l)
  | a -> a
let op_hist (args : sx) : string =
  let steps = Array.of_list (list_of args) in
  let vals = Array.make (Array.length steps) F in
  let buf = Buffer.create 256 in
  Buffer.add_string buf "(ok";
  let rec go i =
    if i >= Array.length steps then (Buffer.add_char buf ')'; Buffer.contents buf)
    else match run run_fuel F (expr_of (subst_handles vals i steps.(i))) with
      | Some b -> vals.(i) <- b; Buffer.add_char buf ' '; show_bdd buf b; go (i + 1)
      | None -> Printf.sprintf "(step-failed %d (diverge))" i in
  go 0
let op_heap (args : sx) : string =
  let calls = list_of args in
  let h = ref h_new in
  let addrs = ref [] (* reversed *) in
  let classes = ref [] and sizes = ref [] in
  let nth_addr i = let l = List.rev !addrs in List.nth l i in
  List.iter (fun c ->
    let a = match c with
      | L [A "mk"; i; v; j] ->
          (match h_mk_choice !h (nth_addr (int_atom i)) (nat_atom v) (nth_addr (int_atom j)) with
           | Some (h', p) -> h := h'; p
           | None -> raise (Bad "mk_choice failed"))
      | L [A "const"; b] ->
          (match h_mk_const !h (atom b = "1") with Some p -> p | None -> raise (Bad "mk_const failed"))
      | _ -> raise (Bad "call") in
    let prev = List.rev !addrs in
    let rec first k = function [] -> k | x :: r -> if x = a then k else first (k + 1) r in
    classes := string_of_int (first 0 prev) :: !classes;
    addrs := a :: !addrs;
    sizes := string_of_int (List.length !h.table) :: !sizes) calls;
  "(ok (" ^ String.concat " " (List.rev !classes) ^ ") (" ^ String.concat " " (List.rev !sizes) ^ "))"
let classify_hist (_ : sx) (real : string) (_ : string) : string =
  let starts p = String.length real >= String.length p && String.sub real 0 (String.length p) = p in
  if starts "(history-dependent" then "history"
  else if starts "(old-handle-changed" then "handle"
  else if starts "(env-invariant" then "sharing"
  else if starts "(panic" || starts "(step-failed" then "no-result"
  else "result"
(* histf text.. : each text evaluated under the default order (the model has no environment: results are values) *)
let op_histf (args : sx) : string =
  let buf = Buffer.create 256 in
  Buffer.add_string buf "(ok";
  let rec go i = function
    | [] -> Buffer.add_char buf ')'; Buffer.contents buf
    | t :: r ->
        let (uc, cps) = text_of t in
        (match parsed_formula uc [] cps with
         | Done p ->
             (match eval_f (eval_fuel_for cps) p.pf_form with
              | Some b -> Buffer.add_char buf ' '; show_bdd buf b; go (i + 1) r
              | None -> "(step-failed (diverge))")
         | _ -> Printf.sprintf "(err %d)" i) in
  go 0 (list_of args)
let () = Hashtbl.replace table "histf" op_histf
let () =
  Hashtbl.replace table "hist" op_hist; Hashtbl.replace table "heap" op_heap;
  Hashtbl.replace classifiers "hist" classify_hist; Hashtbl.replace classifiers "heap" classify_hist;
  Hashtbl.replace classifiers "histf" classify_hist

(* ---------- S-dot ---------- *)
let sort_uniq_str l = List.sort_uniq compare l
(* dotbdd filter expr *)
let op_dotbdd (args : sx) : string =
  match args with
  | L [f; e] ->
      (match run run_fuel F (expr_of e) with
       | None -> "(diverge)"
       | Some b ->
           let filt = tte_of f in
           let nodes = sort_uniq_str (List.map bdd_str (dot_nodes filt b)) in
           let edges = sort_uniq_str (List.map (fun ((s, lab), d) -> "(" ^ bdd_str s ^ " " ^ (if lab then "T" else "F") ^ " " ^ bdd_str d ^ ")") (dot_edges filt b)) in
           let dup = if List.length nodes <> List.length (dot_nodes filt b) || List.length edges <> List.length (dot_edges filt b) then " dup" else "" in
           "(ok (" ^ String.concat " " nodes ^ ") (" ^ String.concat " " edges ^ ") (" ^ String.trim dup ^ "))")
  | _ -> raise (Bad "dotbdd")
let show_elabel = function
  | EL -> "L" | ER -> "R" | ENone -> "E" | EIdx j -> Printf.sprintf "(I %d)" (int_of_nat j)
  | ELIdx j -> Printf.sprintf "(LI %d)" (int_of_nat j) | ERIdx j -> Printf.sprintf "(RI %d)" (int_of_nat j)
  | EIf -> "If" | EThen -> "Then" | EElse -> "Else"
(* dottree (text) : the distinct sub-terms and the labelled edges between them *)
let op_dottree (args : sx) : string =
  match args with
  | L (txt :: _) ->
      let (uc, cps) = text_of txt in
      (match tokenize uc [] cps with
       | None -> "(err)"
       | Some ts ->
           (match parse ts with
            | Ok (f, _) ->
                let subs = subterms f in
                let tbl = Hashtbl.create 16 in
                let distinct = List.filter (fun g -> let s = form_str g in if Hashtbl.mem tbl s then false else (Hashtbl.replace tbl s (); true)) subs in
                let nodes = sort_uniq_str (List.map form_str distinct) in
                let edges = sort_uniq_str (List.concat_map (fun g ->
                  (* every node reads back from its label and ordered edges (C14_rebuild) *)
                  (match rebuild (label g) (out_edges g) with Some g' when form_str g' = form_str g -> () | _ -> raise (Bad "rebuild"));
                  List.map (fun (l, c) -> "(" ^ form_str g ^ " " ^ show_elabel l ^ " " ^ form_str c ^ ")") (out_edges g)) distinct) in
                "(ok (" ^ String.concat " " nodes ^ ") (" ^ String.concat " " edges ^ ") " ^ form_str f ^ ")"
            | _ -> "(err)"))
  | _ -> raise (Bad "dottree")
let classify_dot (_ : sx) (real : string) (model : string) : string =
  if real = "(panic)" then "panic"
  else match (try Some (parse_sx real) with Bad _ -> None), (try Some (parse_sx model) with Bad _ -> None) with
    | Some (L [A "ok"; n1; e1; x1]), Some (L [A "ok"; n2; e2; x2]) ->
        let parts = ref [] in
        if n1 <> n2 then parts := "nodes" :: !parts;
        if e1 <> e2 then parts := "edges" :: !parts;
        if x1 <> x2 then parts := "readback" :: !parts;
        if !parts = [] then "holds" else String.concat " " (List.rev !parts)
    | _ -> "graph"
let () =
  Hashtbl.replace table "dotbdd" op_dotbdd; Hashtbl.replace table "dottree" op_dottree;
  Hashtbl.replace classifiers "dotbdd" classify_dot; Hashtbl.replace classifiers "dottree" classify_dot
(* dotnamed filter (text) : the export of the evaluated formula, variables by id *)
let op_dotnamed (args : sx) : string =
  match args with
  | L (f :: txt :: _) ->
      let (uc, cps) = text_of txt in
      (match parsed_formula uc [] cps with
       | Done p ->
           (match eval_f (eval_fuel_for cps) p.pf_form with
            | Some b ->
                let filt = tte_of f in
                let nodes = sort_uniq_str (List.map bdd_str (dot_nodes filt b)) in
                let edges = sort_uniq_str (List.map (fun ((s, lab), d) -> "(" ^ bdd_str s ^ " " ^ (if lab then "T" else "F") ^ " " ^ bdd_str d ^ ")") (dot_edges filt b)) in
                "(ok (" ^ String.concat " " nodes ^ ") (" ^ String.concat " " edges ^ ") ())"
            | None -> "(diverge)")
       | _ -> "(err)")
  | _ -> raise (Bad "dotnamed")
let () = Hashtbl.replace table "dotnamed" op_dotnamed; Hashtbl.replace classifiers "dotnamed" classify_dot

(* ---------- S-gen: the four generators ---------- *)
(* canonical form of a generated formula: the right-nested "&" chain as a sorted list of conjuncts,
   operand lists sorted (fsem of the chain depends only on the multiset of conjuncts, counting only on
   the multiset of operands) *)
let rec conj_list (f : form) : form list =
  match f with FBin (BAnd, a, b) -> a :: conj_list b | x -> [x]
let canon_conj (pv : nat -> string) (f : form) : string =
  let vars l = List.map (function FVar v -> pv v | g -> form_str g) l in
  let sorted l = "(" ^ String.concat " " (List.sort compare l) ^ ")" in
  let rec go f =
    match f with
    | FTrue -> "T" | FFalse -> "F"
    | FVar v -> pv v
    | FCountC (op, fs, k) -> "(CC " ^ show_cop op ^ " " ^ sorted (vars fs) ^ " " ^ dec_of_n k ^ ")"
    | FNot (FBin (BAnd, FVar a, FVar b)) -> "(nonedge " ^ sorted [pv a; pv b] ^ ")"
    | FQuant (QForall, vs, FBin (BImplies, body, FCountV (AtLeast, l, r))) ->
        "(max " ^ sorted (List.map pv vs) ^ " " ^ sorted (List.map go (conj_list body)) ^ " " ^ sorted (vars l) ^ " " ^ sorted (vars r) ^ ")"
    | g -> form_str g in
  go f
let canon_form (pv : nat -> string) (f : form) : string list = List.map (canon_conj pv) (conj_list f)
let show_canon l = "(ok (" ^ String.concat " " (List.sort compare l) ^ "))"

let op_queens (args : sx) : string =
  match args with
  | L (n :: _) -> show_canon (canon_form (fun v -> string_of_int (int_of_nat v)) (queens_form (nat_atom n)))
  | _ -> raise (Bad "queens")
(* large boards: only the shape (glue arithmetic): number of constraints, largest index *)
let op_queensbig (args : sx) : string =
  match args with
  | L [n] -> let n = int_atom n in Printf.sprintf "(ok %d %d %d 0)" (6 * n - 2 + 1) (n * n - 1) (n * n)
  | _ -> raise (Bad "queensbig")
(* the head of the stream for boards too large to produce: well-formed lists over cells below n*n *)
let op_queenshuge (_ : sx) : string = "(ok-prefix)"

(* sudoku r (text) ; white space beyond ASCII is tagged c:s by the harness *)
let op_sudoku (args : sx) : string =
  match args with
  | L (r :: L txt :: _) ->
      let tbl = Hashtbl.create 4 in
      let cps = List.map (fun a -> let s = atom a in
        match String.index_opt s ':' with
        | None -> n_of_dec s
        | Some i -> let c = String.sub s 0 i in (if s.[i + 1] = 's' then Hashtbl.replace tbl c ()); n_of_dec c) txt in
      let ws c = ascii_ws c || Hashtbl.mem tbl (dec_of_n c) in
      let r = int_atom r in
      let sq = r * r in
      let hints = hints_of_text ws (nat_of_int (sq * sq)) cps in
      let pv v = let v = int_of_nat v in Printf.sprintf "(%d %d)" (v / (sq + 1)) (v mod (sq + 1)) in
      let hs = List.map (fun (c, d) -> Printf.sprintf "(%d %d)" (int_of_nat c) (int_of_nat d)) hints in
      show_canon (hs @ canon_form pv (sudoku_form (nat_of_int r) []))
  | _ -> raise (Bad "sudoku")

let edges_of (x : sx) : (nat * nat) list =
  List.map (function L [a; b] -> (nat_atom a, nat_atom b) | _ -> raise (Bad "edge")) (list_of x)
let cp_offset = 500
(* clique (u all) (order) (edges) *)
let op_clique (args : sx) : string =
  match args with
  | L (L [u; all] :: L order :: es :: _) ->
      let vs = List.map nat_atom order in
      let e = edges_of es in
      let comp = if atom u = "1" then comp_undir vs e else comp_dir vs e in
      let pv v = let v = int_of_nat v in if v >= cp_offset then Printf.sprintf "(C %d)" (v - cp_offset) else string_of_int v in
      let cp v = nat_of_int (int_of_nat v + cp_offset) in
      let f = if atom all = "1" then form_all comp else form_max vs comp cp in
      show_canon (canon_form pv f)
  | _ -> raise (Bad "clique")

(* graphcheck (V E u) out-or-err : is the real output an admissible answer to the request? *)
let op_graphcheck (args : sx) : string =
  match args with
  | L [L [v; e; u]; out] ->
      let vv = nat_atom v and ee = nat_atom e and uu = (atom u = "1") in
      (match out with
       | A "err" -> if feasible vv ee uu then "(reject refused-a-feasible-request)" else "(accept)"
       | o ->
           if not (feasible vv ee uu) then "(reject answered-an-infeasible-request)"
           else if valid_output vv ee uu (edges_of o) then "(accept)" else "(reject not-E-distinct-candidate-edges)")
  | _ -> raise (Bad "graphcheck")
let show_edges l = "(" ^ String.concat " " (List.map (fun (a, b) -> Printf.sprintf "(%d %d)" (int_of_nat a) (int_of_nat b)) l) ^ ")"
(* convert u (edges) *)
let op_convert (args : sx) : string =
  match args with
  | L (u :: es :: _) -> "(ok " ^ show_edges (read_graph (atom u = "1") (edges_of es)) ^ ")"
  | _ -> raise (Bad "convert")
(* colors k (edges) : the colour graph as a set of unordered pairs of (vertex colour) *)
let op_colors (args : sx) : string =
  match args with
  | L (k :: u :: es :: _) ->
      let e = read_graph (atom u = "1") (edges_of es) in
      let k = int_atom k in
      let verts = List.sort_uniq compare (List.concat_map (fun (a, b) -> [int_of_nat a; int_of_nat b]) e) in
      let order = List.concat_map (fun v -> List.init k (fun c -> (nat_of_int v, nat_of_int c))) verts in
      let pr (v, c) = Printf.sprintf "(%d %d)" (int_of_nat v) (int_of_nat c) in
      let pairs = List.map (fun (x, y) -> let a = pr x and b = pr y in if a <= b then "(" ^ a ^ " " ^ b ^ ")" else "(" ^ b ^ " " ^ a ^ ")") (aug e order) in
      "(ok (" ^ String.concat " " (List.sort_uniq compare pairs) ^ "))"
  | _ -> raise (Bad "colors")
(* the conjuncts of a generated formula as a set: a different SET of conjuncts is a different formula (order and repetition
   of conjuncts do not change the meaning) *)
let rec show_sx = function A a -> a | L l -> "(" ^ String.concat " " (List.map show_sx l) ^ ")"
let conjunct_set (s : string) : string list option =
  match (try Some (parse_sx s) with Bad _ -> None) with
  | Some (L [A "ok"; L items]) -> Some (List.sort_uniq compare (List.map show_sx items))
  | _ -> None
let sets_verdict (real : string) (model : string) : string =
  match conjunct_set real, conjunct_set model with
  | Some a, Some b -> if a <> b then "models" else "output"
  | _ -> "output"
let classify_gen (_ : sx) (real : string) (model : string) : string =
  if real = "(panic)" then "panic" else if real = "(not-a-formula)" then "illformed"
  else if real = "(vertex-list-not-a-permutation-of-the-vertices)" || real = "(copy-prefix-not-fresh)" || real = "(inconsistent-copy-prefix)" then "illformed"
  else "output"
let classify_formula_gen (a : sx) (real : string) (model : string) : string =
  match classify_gen a real model with "output" -> sets_verdict real model | v -> v
let () =
  List.iter (fun (n, f) -> Hashtbl.replace table n f; Hashtbl.replace classifiers n (if n = "queens" || n = "clique" then classify_formula_gen else classify_gen))
    [("queens", op_queens); ("queensbig", op_queensbig); ("sudoku", op_sudoku); ("clique", op_clique);
     ("graphcheck", op_graphcheck); ("convert", op_convert); ("colors", op_colors)];
  (* large boards are judged by structure only: number of constraints, cell names exactly v_0 .. v_(n*n-1); any deviation
     means the text is not the n-queens formula over the n*n cells *)
  let classify_big (_ : sx) (real : string) (_ : string) : string = if real = "(panic)" then "panic" else "illformed" in
  Hashtbl.replace classifiers "queensbig" classify_big;
  Hashtbl.replace table "queenshuge" op_queenshuge; Hashtbl.replace classifiers "queenshuge" classify_big

(* end-to-end on small instances: the models of the model's formula (brute force over fsem), as sorted
   lists of the variables that are true, over the free variables the formula mentions *)
let models_of (pv : nat -> string) (f : form) : string =
  let vars = List.sort_uniq compare (List.filter (fun v -> var_is_free f v) (all_vars f)) in
  let rec asgs = function [] -> [[]] | v :: r -> List.concat_map (fun l -> [(v, true) :: l; (v, false) :: l]) (asgs r) in
  if List.length vars > 18 then "(too-many-variables)" else
  let ms = List.filter_map (fun a ->
    let s v = (try List.assoc v a with Not_found -> false) in
    if fsem f s then Some ("(" ^ String.concat " " (List.sort compare (List.filter_map (fun (v, b) -> if b then Some (pv v) else None) a)) ^ ")") else None) (asgs vars) in
  "(ok (" ^ String.concat " " (List.sort compare (List.map pv vars)) ^ ") (" ^ String.concat " " (List.sort compare ms) ^ "))"
let op_queensmodels (args : sx) : string =
  match args with
  | L [n] -> models_of (fun v -> string_of_int (int_of_nat v)) (queens_form (nat_atom n))
  | _ -> raise (Bad "queensmodels")
let op_cliquemodels (args : sx) : string =
  match args with
  | L (L [u; all] :: L order :: es :: _) ->
      let vs = List.map nat_atom order in
      let e = edges_of es in
      let comp = if atom u = "1" then comp_undir vs e else comp_dir vs e in
      let pv v = let v = int_of_nat v in if v >= cp_offset then Printf.sprintf "(C %d)" (v - cp_offset) else string_of_int v in
      let cp v = nat_of_int (int_of_nat v + cp_offset) in
      models_of pv (if atom all = "1" then form_all comp else form_max vs comp cp)
  | _ -> raise (Bad "cliquemodels")
let () =
  List.iter (fun (n, f) -> Hashtbl.replace table n f; Hashtbl.replace classifiers n (fun _ real _ -> if real = "(panic)" then "panic" else "models"))
    [("queensmodels", op_queensmodels); ("cliquemodels", op_cliquemodels)]
(* sudoku: the givens are part of the property ("keep every given digit", "non-digits are blanks",
   "white space is ignored"); a different hint set is a failing input, different constraint families are not necessarily *)
let classify_sudoku (_ : sx) (real : string) (model : string) : string =
  if real = "(panic)" then "panic" else if real = "(not-a-formula)" then "illformed"
  else
    let hints s = match (try Some (parse_sx s) with Bad _ -> None) with
      | Some (L [A "ok"; L items]) -> Some (List.sort compare (List.filter_map (function L [A c; A d] -> Some (c, d) | _ -> None) items))
      | _ -> None in
    match hints real, hints model with
    | Some h1, Some h2 -> if h1 <> h2 then "hints" else sets_verdict real model
    | _ -> sets_verdict real model
let () = Hashtbl.replace classifiers "sudoku" classify_sudoku

(* queenssols n : candidate placements come from a backtracking enumerator (glue); each is checked against the MODEL
   formula with the extracted fsem, so by C15 the count is the number of n-queens solutions among the candidates *)
let op_queenssols (args : sx) : string =
  match args with
  | L [n] ->
      let n = int_atom n in
      let sols = ref [] in
      let rec go cur r =
        if r = n then sols := List.rev cur :: !sols
        else for c = 0 to n - 1 do
          if List.for_all (fun (r2, c2) -> c2 <> c && r - r2 <> abs (c - c2)) (List.mapi (fun i x -> (r - 1 - i, x)) cur) then go (c :: cur) (r + 1)
        done in
      go [] 0;
      let f = queens_form (nat_of_int n) in
      let sat pl = fsem f (fun v -> let k = int_of_nat v in k / n < n && List.nth pl (k / n) = k mod n) in
      let good = List.filter sat !sols in
      Printf.sprintf "(ok %d %d (rejected ) (accepted-wrongly ))" (List.length !sols) (List.length good)
  | _ -> raise (Bad "queenssols")
let () = Hashtbl.replace table "queenssols" op_queenssols;
  Hashtbl.replace classifiers "queenssols" (fun _ real _ -> if real = "(panic)" then "panic" else if real = "(not-a-formula)" then "illformed" else "models")
