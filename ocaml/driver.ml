(* Model-side comparator of the correspondence suites.
   Reads case lines  "op \t args-sexp \t real-result"  on stdin, evaluates the extracted Coq model
   (module Model) on the same arguments, compares the canonical result strings, and prints
     MISMATCH \t line-no \t op \t args \t real \t model
   for every difference, then one line  SUMMARY \t <json>.
   With  --print  it prints the model result for every line instead (used by the vm_compute cross-run).
   Everything semantic is extracted code; this file only parses and prints. *)
open Model

(* ---------- s-expressions ---------- *)
type sx = A of string | L of sx list

exception Bad of string

let parse_sx (s : string) : sx =
  let n = String.length s in
  let pos = ref 0 in
  let rec skip () = if !pos < n && (s.[!pos] = ' ') then (incr pos; skip ()) in
  let rec one () =
    skip ();
    if !pos >= n then raise (Bad "eof")
    else if s.[!pos] = '(' then begin
      incr pos;
      let items = ref [] in
      let rec loop () =
        skip ();
        if !pos >= n then raise (Bad "unclosed")
        else if s.[!pos] = ')' then incr pos
        else (items := one () :: !items; loop ()) in
      loop (); L (List.rev !items)
    end else if s.[!pos] = ')' then raise (Bad "unexpected )")
    else begin
      let st = !pos in
      while !pos < n && s.[!pos] <> ' ' && s.[!pos] <> '(' && s.[!pos] <> ')' do incr pos done;
      A (String.sub s st (!pos - st))
    end in
  let r = one () in
  skip ();
  if !pos <> n then raise (Bad "trailing") else r

(* ---------- numbers ---------- *)
let rec nat_of_int n = if n <= 0 then O else S (nat_of_int (n - 1))
let rec int_of_nat = function O -> 0 | S k -> 1 + int_of_nat k

(* decimal string <-> positive, without relying on OCaml int width *)
let dec_to_bits (s : string) : bool list (* lsb first *) =
  let digits = Array.init (String.length s) (fun i ->
    let c = Char.code s.[i] - 48 in if c < 0 || c > 9 then raise (Bad ("digit " ^ s)) else c) in
  let len = Array.length digits in
  let is_zero () = Array.for_all (fun d -> d = 0) digits in
  let bits = ref [] in
  while not (is_zero ()) do
    let carry = ref 0 in
    for i = 0 to len - 1 do
      let cur = !carry * 10 + digits.(i) in
      digits.(i) <- cur / 2; carry := cur mod 2
    done;
    bits := (!carry = 1) :: !bits
  done;
  List.rev !bits

let rec pos_of_bits = function
  | [] -> raise (Bad "zero positive")
  | [true] -> XH
  | b :: r -> if b then XI (pos_of_bits r) else XO (pos_of_bits r)

(* drop high zero bits (msb is last) *)
let norm_bits bits = let rec go = function [] -> [] | b :: r -> (match go r with [] -> if b then [true] else [] | r' -> b :: r') in go bits

let n_of_dec (s : string) : n =
  match norm_bits (dec_to_bits s) with [] -> N0 | bits -> Npos (pos_of_bits bits)
let z_of_dec (s : string) : z =
  if String.length s > 0 && s.[0] = '-' then
    (match n_of_dec (String.sub s 1 (String.length s - 1)) with N0 -> Z0 | Npos p -> Zneg p)
  else (match n_of_dec s with N0 -> Z0 | Npos p -> Zpos p)
let n_of_int (i : int) : n = n_of_dec (string_of_int i)

let rec bits_of_pos = function XH -> [true] | XO p -> false :: bits_of_pos p | XI p -> true :: bits_of_pos p
let dec_of_bits (bits : bool list) (* lsb first *) : string =
  let digits = ref [0] (* lsb first decimal *) in
  List.iter (fun b ->
    let carry = ref (if b then 1 else 0) in
    digits := List.map (fun d -> let v = d * 2 + !carry in carry := v / 10; v mod 10) !digits;
    if !carry > 0 then digits := !digits @ [!carry]) (List.rev bits);
  String.concat "" (List.rev_map string_of_int !digits)
let dec_of_n = function N0 -> "0" | Npos p -> dec_of_bits (bits_of_pos p)
let dec_of_z = function Z0 -> "0" | Zpos p -> dec_of_bits (bits_of_pos p) | Zneg p -> "-" ^ dec_of_bits (bits_of_pos p)
let int_of_n x = int_of_string (dec_of_n x)

(* ---------- diagrams ---------- *)
let atom = function A s -> s | L _ -> raise (Bad "atom expected")
let int_atom x = int_of_string (atom x)
let nat_atom x = nat_of_int (int_atom x)
let list_of = function L l -> l | A _ -> raise (Bad "list expected")

(* a raw tree: no [mk]; used for real results handed to checkers *)
let rec bdd_raw = function
  | A "F" -> F | A "T" -> T
  | L [A "N"; t; v; f] -> Nd (bdd_raw t, nat_atom v, bdd_raw f)
  | _ -> raise (Bad "bdd")

let rec show_bdd buf = function
  | F -> Buffer.add_char buf 'F' | T -> Buffer.add_char buf 'T'
  | Nd (t, v, f) ->
      Buffer.add_string buf "(N "; show_bdd buf t; Buffer.add_char buf ' ';
      Buffer.add_string buf (string_of_int (int_of_nat v)); Buffer.add_char buf ' ';
      show_bdd buf f; Buffer.add_char buf ')'
let bdd_str b = let buf = Buffer.create 64 in show_bdd buf b; Buffer.contents buf

(* ---------- S-bdd: operation programs ---------- *)
let tte_of = function A "t" -> TTrue | A "f" -> TFalse | A "a" -> TAny | _ -> raise (Bad "tte")

let rec expr_of (x : sx) : expr =
  match x with
  | A "X" -> EX
  | A "F" -> ELit F | A "T" -> ELit T
  | L [A "N"; _; _; _] -> ELit (bdd_raw x)
  | L [A "tt"; L vars; num] -> ELit (build_tt (List.map nat_atom vars) (n_of_dec (atom num)) N0)
  | L [A "var"; v] -> EVar (nat_atom v)
  | L [A "const"; b] -> EConst (atom b = "1")
  | L [A "not"; a] -> ENot (expr_of a)
  | L [A "and"; a; b] -> EAnd (expr_of a, expr_of b)
  | L [A "or"; a; b] -> EOr (expr_of a, expr_of b)
  | L [A "imp"; a; b] -> EImp (expr_of a, expr_of b)
  | L [A "eq"; a; b] -> EEq (expr_of a, expr_of b)
  | L [A "xor"; a; b] -> EXor (expr_of a, expr_of b)
  | L [A "nor"; a; b] -> ENor (expr_of a, expr_of b)
  | L [A "nand"; a; b] -> ENand (expr_of a, expr_of b)
  | L [A "ite"; a; b; c] -> EIte (expr_of a, expr_of b, expr_of c)
  | L [A "aln"; L bs; n] -> EAln (List.map expr_of bs, z_of_dec (atom n))
  | L [A "amn"; L bs; n] -> EAmn (List.map expr_of bs, z_of_dec (atom n))
  | L [A "exn"; L bs; n] -> EExn (List.map expr_of bs, z_of_dec (atom n))
  | L [A "cleq"; L a; L b] -> ELeq (List.map expr_of a, List.map expr_of b)
  | L [A "clt"; L a; L b] -> ELt (List.map expr_of a, List.map expr_of b)
  | L [A "cgeq"; L a; L b] -> EGeq (List.map expr_of a, List.map expr_of b)
  | L [A "cgt"; L a; L b] -> EGt (List.map expr_of a, List.map expr_of b)
  | L [A "ceq"; L a; L b] -> ECeq (List.map expr_of a, List.map expr_of b)
  | L [A "ex"; L vs; a] -> EEx (List.map nat_atom vs, expr_of a)
  | L [A "ex1"; v; a] -> EEx1 (nat_atom v, expr_of a)
  | L [A "all"; L vs; a] -> EAll (List.map nat_atom vs, expr_of a)
  | L [A "fp"; i; b] -> EFp (expr_of i, expr_of b)
  | L [A "model"; a] -> EModel (expr_of a)
  | L [A "retain"; f; a] -> ERetain (tte_of f, expr_of a)
  | L [A "clean"; a] -> EClean (expr_of a)
  | L [A "mk"; t; v; f] -> EMk (expr_of t, nat_atom v, expr_of f)
  | _ -> raise (Bad "expr")

let run_fuel = nat_of_int 400

let op_run (args : sx) : string =
  match args with
  | L [A "infer"; e; v] ->
      (match run_infer run_fuel (expr_of e) (nat_atom v) with
       | Some (a, b) -> Printf.sprintf "(ok (%d %d))" (if a then 1 else 0) (if b then 1 else 0)
       | None -> "(diverge)")
  | e ->
      (match run run_fuel F (expr_of e) with
       | Some b -> "(ok " ^ bdd_str b ^ ")"
       | None -> "(diverge)")

(* ---------- dispatch ---------- *)
let table : (string, sx -> string) Hashtbl.t = Hashtbl.create 64
let () = Hashtbl.replace table "run" op_run

let () = Driver_ext.register table

let trivial_result (r : string) =
  r = "(ok T)" || r = "(ok F)" || r = "(err)" || r = "(panic)" || r = "(diverge)"

let json_escape s =
  let b = Buffer.create (String.length s + 8) in
  String.iter (fun c -> match c with
    | '"' -> Buffer.add_string b "\\\"" | '\\' -> Buffer.add_string b "\\\\"
    | '\n' -> Buffer.add_string b "\\n" | '\t' -> Buffer.add_string b "\\t"
    | c when Char.code c < 32 -> Buffer.add_string b (Printf.sprintf "\\u%04x" (Char.code c))
    | c -> Buffer.add_char b c) s;
  Buffer.contents b

let () =
  let print_mode = Array.length Sys.argv > 1 && Sys.argv.(1) = "--print" in
  let cases = ref 0 and mism = ref 0 and nontriv = ref 0 in
  let seen : (Digest.t, unit) Hashtbl.t = Hashtbl.create 100000 in
  let per_op : (string, int) Hashtbl.t = Hashtbl.create 32 in
  let samples = ref [] in
  let lineno = ref 0 in
  (try
    while true do
      let line = input_line stdin in
      incr lineno;
      if String.length line > 0 && line.[0] <> '#' then begin
        match String.split_on_char '\t' line with
        | op :: args :: rest ->
            let real = match rest with r :: _ -> r | [] -> "" in
            incr cases;
            let model =
              match Hashtbl.find_opt table op with
              | None -> "(driver-unknown-op)"
              | Some f -> (try f (parse_sx args) with
                           | Bad m -> "(driver-bad-input " ^ m ^ ")"
                           | Stack_overflow -> "(driver-stack-overflow)"
                           | Not_found -> "(driver-not-found)"
                           | Failure m -> "(driver-failure " ^ m ^ ")") in
            if print_mode then print_string (op ^ "\t" ^ args ^ "\t" ^ model ^ "\n")
            else begin
              Hashtbl.replace per_op op (1 + (try Hashtbl.find per_op op with Not_found -> 0));
              if model <> real then begin
                incr mism;
                Printf.printf "MISMATCH\t%d\t%s\t%s\t%s\t%s\n" !lineno op args real model
              end;
              if not (trivial_result real) then begin
                let d = Digest.string (op ^ "\t" ^ args) in
                if not (Hashtbl.mem seen d) then (Hashtbl.replace seen d (); incr nontriv)
              end;
              if !cases <= 2 || (!cases land (!cases - 1) = 0 && List.length !samples < 12) then
                samples := (op ^ " " ^ args ^ " => " ^ real) :: !samples
            end
        | _ -> ()
      end
    done
  with End_of_file -> ());
  if not print_mode then begin
    let ops = Hashtbl.fold (fun k v acc -> Printf.sprintf "\"%s\":%d" (json_escape k) v :: acc) per_op [] in
    Printf.printf "SUMMARY\t{\"cases\":%d,\"mismatches\":%d,\"distinct_nontrivial\":%d,\"ops\":{%s},\"samples\":[%s]}\n"
      !cases !mism !nontriv (String.concat "," (List.sort compare ops))
      (String.concat "," (List.rev_map (fun s -> "\"" ^ json_escape s ^ "\"") !samples))
  end
