(* Model-side comparator of the correspondence suites.
   Reads case lines  "op \t args-sexp \t real-result"  on stdin, evaluates the extracted Coq model
   (module Model) on the same arguments, compares the canonical result strings, and prints
     MISMATCH \t line-no \t op \t args \t real \t model
   for every difference, then one line  SUMMARY \t <json>.
   With  --print  it prints the model result for every line instead (used by the vm_compute cross-run).
   Everything semantic is extracted code; these files only parse and print. *)
open Base
open Suites
type string = Stdlib.String.t

let trivial_result (r : string) =
  r = "(ok T)" || r = "(ok F)" || r = "(err)" || r = "(panic)" || r = "(diverge)"

let json_escape s =
  let b = Buffer.create (String.length s + 8) in
  String.iter (fun c -> match c with
    | '"' -> Buffer.add_string b "\\\"" | '\\' -> Buffer.add_string b "\\\\"
    | '\n' -> Buffer.add_string b "\\n" | '\t' -> Buffer.add_string b "\\t"
    | c when Char.code c < 32 -> Buffer.add_string b (Printf.sprintf "\\u%04x" (Char.code c))
    | c -> Buffer.add_char b c) s;
  Buffer.contents b

let () =
  let print_mode = Array.length Sys.argv > 1 && Sys.argv.(1) = "--print" in
  let cases = ref 0 and mism = ref 0 and nontriv = ref 0 in
  let seen : (Digest.t, unit) Hashtbl.t = Hashtbl.create 100000 in
  let per_op : (string, int) Hashtbl.t = Hashtbl.create 32 in
  let dist : (string, int) Hashtbl.t = Hashtbl.create 32 in
  let class_of (r : string) =
    if String.length r >= 6 && String.sub r 0 6 = "(ok (N" then "ok-node"
    else if String.length r >= 4 && String.sub r 0 4 = "(ok " then "ok-other"
    else if String.length r > 24 then String.sub r 0 24 else r in
  let samples = ref [] in
  let lineno = ref 0 in
  (try
    while true do
      let line = input_line stdin in
      incr lineno;
      if String.length line > 0 && line.[0] <> '#' then begin
        match String.split_on_char '\t' line with
        | op :: args :: rest ->
            let real = match rest with r :: _ -> r | [] -> "" in
            incr cases;
            let model =
              match Hashtbl.find_opt table op with
              | None -> "(driver-unknown-op)"
              | Some f -> (try f (parse_sx args) with
                           | Bad m -> "(driver-bad-input " ^ m ^ ")"
                           | Stack_overflow -> "(driver-stack-overflow)"
                           | Not_found -> "(driver-not-found)"
                           | Failure m -> "(driver-failure " ^ m ^ ")") in
            if print_mode then print_string (op ^ "\t" ^ args ^ "\t" ^ model ^ "\n")
            else begin
              Hashtbl.replace per_op op (1 + (try Hashtbl.find per_op op with Not_found -> 0));
              (let k = op ^ ":" ^ class_of real in Hashtbl.replace dist k (1 + (try Hashtbl.find dist k with Not_found -> 0)));
              if model <> real then begin
                incr mism;
                let verdict =
                  match Hashtbl.find_opt classifiers op with
                  | None -> "unclassified"
                  | Some f -> (try f (parse_sx args) real model with _ -> "classifier-error") in
                Printf.printf "MISMATCH\t%d\t%s\t%s\t%s\t%s\t%s\n" !lineno op args real model verdict
              end;
              if not (trivial_result real) then begin
                let d = Digest.string (op ^ "\t" ^ args) in
                if not (Hashtbl.mem seen d) then (Hashtbl.replace seen d (); incr nontriv)
              end;
              if !cases <= 2 || (!cases land (!cases - 1) = 0 && List.length !samples < 24) then
                samples := (op ^ " " ^ args ^ " => " ^ real) :: !samples
            end
        | _ -> ()
      end
    done
  with End_of_file -> ());
  if not print_mode then begin
    let ops = Hashtbl.fold (fun k v acc -> Printf.sprintf "\"%s\":%d" (json_escape k) v :: acc) per_op [] in
    let ds = Hashtbl.fold (fun k v acc -> Printf.sprintf "\"%s\":%d" (json_escape k) v :: acc) dist [] in
    Printf.printf "SUMMARY\t{\"cases\":%d,\"mismatches\":%d,\"distinct_nontrivial\":%d,\"ops\":{%s},\"dist\":{%s},\"samples\":[%s]}\n"
      !cases !mism !nontriv (String.concat "," (List.sort compare ops)) (String.concat "," (List.sort compare ds))
      (String.concat "," (List.rev_map (fun s -> "\"" ^ json_escape s ^ "\"") !samples))
  end
