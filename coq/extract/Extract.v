(** Extraction of the executable model.  Only [ExtrOcamlBasic] (bool, option, unit, list, prod,
    sumbool, sumor mapped to the OCaml types); no [Extract Constant]; nat, N, Z, positive stay the
    extracted inductive types.  Run in the directory where model.ml should land. *)
From Coq Require Import ExtrOcamlBasic.
From Rsbdd Require Import Core.Bdd Core.Ops Check.Prog Check.Checkers.
From Rsbdd Require Import Env.Heap Io.DotBdd Io.DotTree.
From Rsbdd Require Import Lang.FSem Lang.FixLang.
From Rsbdd Require Import Gen.Queens Gen.Sudoku Gen.Forms Gen.Clique Gen.CliqueComp Gen.Graph Gen.Colors Gen.GenCheck Gen.Prefix.
From Rsbdd Require Import Lang.Ast Lang.Eval Syntax.Token Syntax.Lexer Syntax.Tokenize Syntax.Parser Cli.Table Cli.TableFilter Cli.Pipeline.
Extraction Language OCaml.
Extraction "model.ml"
  bdd_eqb mk beval robddb ordb redb support height
  band bor bnot bimplies bite beq bxor bnor bnand bvar bconst aln amn exn
  count_leq count_lt count_geq count_gt count_eq bex1 bex ball fp_f bmodel binfer retain clean
  rebuild_lit build_tt run run_infer
  verdict_fun verdict_model verdict_retain verdict_infer find_diff find_diff_any
  lex_raw tokenize parse eval_f parsed_formula parsed_of_tokens ident_names name_table name_of ordering_of_file cli
  set_run set_ref set_runN set_refN h_new h_mk_choice h_mk_const
  dot_nodes dot_edges subterms label out_edges rebuild
  queens_form sudoku_form hints_of_text ascii_ws form_all form_max comp_dir comp_undir valid_output feasible read_graph aug copy_prefix fsem all_vars var_is_free.
