(** C19: BDDSet (src/set.rs, after the repairs D5-D7) behaves as a set of b-bit integers. *)
From Coq Require Import List Arith Bool Lia PeanoNat.
Import ListNotations.
From Rsbdd Require Import Core.Bdd Core.Ops Core.OpsFacts Core.Sem Core.Canon Core.Pres.

(** [categorize]: (e >> c) & 1 == 0  -- the encoding is inverted, consistently *)
Definition categorize (e c : nat) : bool := negb (Nat.testbit e c).
Definition lit (e i : nat) : bdd := if categorize e i then bvar i else bnot (bvar i).
(** [insert]'s minterm: fold of [and] from [mk_const(true)] over bits 0..bits-1 *)
Definition minterm (bits e : nat) : bdd := fold_left band (map (lit e) (seq 0 bits)) T.
Definition asg_of (e : nat) : asg := fun i => categorize e i.
Definition mem (b : bdd) (e : nat) : bool := beval (asg_of e) b.

Definition s_insert bits b e := bor b (minterm bits e).
Definition s_union a b := bor a b.
Definition s_intersect a b := band a b.
Definition s_complement a b := band a (bnot b).                                   (* set difference *)
Definition s_contains bits b e := bdd_eqb (band b (minterm bits e)) (minterm bits e).   (* on a temporary *)
Definition s_empty := F.
Definition s_universe := T.

Lemma lit_sem s e i : beval s (lit e i) = Bool.eqb (s i) (categorize e i).
Proof.
  unfold lit. destruct (categorize e i).
  - rewrite bvar_sem. destruct (s i); reflexivity.
  - rewrite bnot_sem, bvar_sem. destruct (s i); reflexivity.
Qed.
Lemma fold_band_sem s : forall l acc, beval s (fold_left band l acc) = beval s acc && forallb (beval s) l.
Proof.
  induction l as [|x l IH]; intros acc; cbn [fold_left forallb]; [now rewrite andb_true_r|].
  rewrite IH, band_sem. now rewrite andb_assoc.
Qed.
Lemma minterm_sem bits e s : beval s (minterm bits e) = forallb (fun i => Bool.eqb (s i) (categorize e i)) (seq 0 bits).
Proof.
  unfold minterm. rewrite fold_band_sem. cbn [beval andb].
  induction (seq 0 bits) as [|i l IH]; cbn [map forallb]; auto. rewrite lit_sem, IH. reflexivity.
Qed.

Lemma testbit_small e bits i : e < 2 ^ bits -> bits <= i -> Nat.testbit e i = false.
Proof.
  intros He Hi. destruct (Nat.eq_dec e 0) as [->|Hne]; [apply Nat.bits_0|].
  apply Nat.bits_above_log2. apply Nat.log2_lt_pow2; try lia.
  eapply Nat.lt_le_trans; [exact He|]. apply Nat.pow_le_mono_r; lia.
Qed.

Lemma mem_minterm bits e e' : e < 2 ^ bits -> e' < 2 ^ bits -> mem (minterm bits e) e' = Nat.eqb e' e.
Proof.
  intros He He'. unfold mem. rewrite minterm_sem.
  destruct (Nat.eqb_spec e' e) as [->|Hne].
  - apply forallb_forall. intros i _. unfold asg_of. destruct (categorize e i); reflexivity.
  - destruct (forallb _ _) eqn:E; auto. exfalso. apply Hne. apply Nat.bits_inj. intros i.
    destruct (le_lt_dec bits i) as [Hge|Hlt].
    + rewrite !testbit_small with (bits := bits); auto.
    + rewrite forallb_forall in E. specialize (E i ltac:(apply in_seq; lia)).
      unfold asg_of, categorize in E. apply eqb_prop in E.
      destruct (Nat.testbit e' i), (Nat.testbit e i); cbn in E; congruence.
Qed.

Theorem insert_spec bits b e e' : e < 2 ^ bits -> e' < 2 ^ bits ->
  mem (s_insert bits b e) e' = mem b e' || Nat.eqb e' e.
Proof. intros. unfold s_insert, mem. rewrite bor_sem. fold (mem b e'). fold (mem (minterm bits e) e'). now rewrite mem_minterm. Qed.
Theorem union_spec a b e : mem (s_union a b) e = mem a e || mem b e.
Proof. unfold mem, s_union. apply bor_sem. Qed.
Theorem intersect_spec a b e : mem (s_intersect a b) e = mem a e && mem b e.
Proof. unfold mem, s_intersect. apply band_sem. Qed.
Theorem complement_spec a b e : mem (s_complement a b) e = mem a e && negb (mem b e).
Proof. unfold mem, s_complement. now rewrite band_sem, bnot_sem. Qed.
Theorem empty_spec e : mem s_empty e = false. Proof. reflexivity. Qed.
Theorem universe_spec e : mem s_universe e = true. Proof. reflexivity. Qed.

(** the invariant of every set diagram: reduced, ordered, and only variables below [bits] *)
Definition below (bits : nat) (b : bdd) : Prop := forall x, In x (support b) -> x < bits.
Definition setinv (bits : nat) (b : bdd) : Prop := robdd b /\ below bits b.

Lemma below_agree bits b s s' : below bits b -> (forall i, i < bits -> s i = s' i) -> beval s b = beval s' b.
Proof.
  intros Hb Hs. assert (H : forall x, In x (support b) -> s x = s' x) by (intros x Hx; apply Hs, Hb, Hx).
  clear Hb Hs. induction b as [| |t IHt v f IHf]; cbn [beval support] in *; auto.
  rewrite (H v) by (left; reflexivity).
  rewrite IHt, IHf; auto; intros x Hx; apply H; right; apply in_or_app; auto.
Qed.

Lemma robdd_lit e i : robdd (lit e i).
Proof. unfold lit. destruct (categorize e i); [apply shp_bvar|apply shp_bnot, shp_bvar]; lia. Qed.
Lemma robdd_fold_band l : Forall robdd l -> forall acc, robdd acc -> robdd (fold_left band l acc).
Proof. induction 1 as [|x l Hx Hl IH]; intros acc Ha; cbn [fold_left]; auto. apply IH. apply shp_band; auto. Qed.
Lemma robdd_minterm bits e : robdd (minterm bits e).
Proof.
  unfold minterm. apply robdd_fold_band; [|split; cbn; auto].
  rewrite Forall_forall. intros x Hx. apply in_map_iff in Hx. destruct Hx as (i & <- & _). apply robdd_lit.
Qed.

(** [contains] answers membership, and (being computed on a temporary) leaves the set alone *)
Theorem contains_spec bits b e : e < 2 ^ bits -> setinv bits b ->
  s_contains bits b e = mem b e.
Proof.
  intros He [Hr Hb]. unfold s_contains.
  destruct (bdd_eqb_spec (band b (minterm bits e)) (minterm bits e)) as [E|NE].
  - assert (H : beval (asg_of e) (band b (minterm bits e)) = beval (asg_of e) (minterm bits e)) by now rewrite E.
    rewrite band_sem in H. fold (mem (minterm bits e) e) in H. rewrite mem_minterm, Nat.eqb_refl in H by auto.
    unfold mem. rewrite andb_true_r in H. symmetry. exact H.
  - destruct (mem b e) eqn:Hm; auto. exfalso. apply NE.
    apply robdd_canonical; [apply shp_band; auto; apply robdd_minterm|apply robdd_minterm|].
    intros s. rewrite band_sem. destruct (beval s (minterm bits e)) eqn:Es; [|apply andb_false_r].
    rewrite andb_true_r. rewrite minterm_sem in Es. rewrite forallb_forall in Es.
    rewrite (below_agree bits b s (asg_of e) Hb); [exact Hm|].
    intros i Hi. specialize (Es i ltac:(apply in_seq; lia)). apply eqb_prop in Es. exact Es.
Qed.
Print Assumptions contains_spec.

(** ---- every history of set operations on two sets sharing an environment ---- *)
From Rsbdd Require Import Core.Essential.

Lemma below_of_independence bits c : robdd c ->
  (forall x s, bits <= x -> beval (upd s x true) c = beval (upd s x false) c) -> below bits c.
Proof.
  intros Hr Hind x Hx. destruct (lt_dec x bits) as [|Hge]; auto. exfalso.
  apply (independent_not_in_support c x Hr); auto. intros s. apply Hind. lia.
Qed.
Lemma below_independent bits b x s v : below bits b -> bits <= x -> beval (upd s x v) b = beval s b.
Proof. intros Hb Hx. apply (below_agree bits b); auto. intros i Hi. apply upd_other. lia. Qed.

Lemma setinv_band bits a b : setinv bits a -> setinv bits b -> setinv bits (band a b).
Proof.
  intros [Ra Ba] [Rb Bb]. split; [apply shp_band; auto|]. apply below_of_independence; [apply shp_band; auto|].
  intros x s Hx. rewrite !band_sem, !(below_independent bits a), !(below_independent bits b); auto.
Qed.
Lemma setinv_bor bits a b : setinv bits a -> setinv bits b -> setinv bits (bor a b).
Proof.
  intros [Ra Ba] [Rb Bb]. split; [apply shp_bor; auto|]. apply below_of_independence; [apply shp_bor; auto|].
  intros x s Hx. rewrite !bor_sem, !(below_independent bits a), !(below_independent bits b); auto.
Qed.
Lemma setinv_bnot bits a : setinv bits a -> setinv bits (bnot a).
Proof.
  intros [Ra Ba]. split; [apply shp_bnot; auto|]. apply below_of_independence; [apply shp_bnot; auto|].
  intros x s Hx. rewrite !bnot_sem, !(below_independent bits a); auto.
Qed.
Lemma setinv_minterm bits e : setinv bits (minterm bits e).
Proof.
  split; [apply robdd_minterm|]. apply below_of_independence; [apply robdd_minterm|].
  intros x s Hx. rewrite !minterm_sem.
  assert (Hext : forall l, (forall i, In i l -> i < bits) ->
            forallb (fun i => Bool.eqb (upd s x true i) (categorize e i)) l = forallb (fun i => Bool.eqb (upd s x false i) (categorize e i)) l).
  { induction l as [|i l IH]; intros Hl; cbn [forallb]; auto.
    rewrite IH by (intros j Hj; apply Hl; right; exact Hj).
    rewrite !upd_other by (specialize (Hl i (or_introl eq_refl)); lia). reflexivity. }
  apply Hext. intros i Hi. apply in_seq in Hi. lia.
Qed.
Lemma setinv_leaf bits b : setinv bits (bconst b).
Proof. split; [apply shp_bconst|]. destruct b; intros x []. Qed.

Inductive sop : Type :=
| SInsert (i : bool) (e : nat) | SUnion (i j : bool) | SIntersect (i j : bool) | SComplement (i j : bool)
| SEmpty (i : bool) | SUniverse (i : bool) | SContains (i : bool) (e : nat).

Definition sel {A} (i : bool) (st : A * A) : A := if i then snd st else fst st.
Definition put {A} (i : bool) (x : A) (st : A * A) : A * A := if i then (fst st, x) else (x, snd st).

Definition step (bits : nat) (st : bdd * bdd) (o : sop) : (bdd * bdd) * option bool :=
  match o with
  | SInsert i e => (put i (s_insert bits (sel i st) e) st, None)
  | SUnion i j => (put i (s_union (sel i st) (sel j st)) st, None)
  | SIntersect i j => (put i (s_intersect (sel i st) (sel j st)) st, None)
  | SComplement i j => (put i (s_complement (sel i st) (sel j st)) st, None)
  | SEmpty i => (put i s_empty st, None)
  | SUniverse i => (put i s_universe st, None)
  | SContains i e => (st, Some (s_contains bits (sel i st) e))
  end.
(** the reference: sets as membership predicates *)
Definition rset := nat -> bool.
Definition rstep (st : rset * rset) (o : sop) : (rset * rset) * option bool :=
  match o with
  | SInsert i e => (put i (fun x => sel i st x || Nat.eqb x e) st, None)
  | SUnion i j => (put i (fun x => sel i st x || sel j st x) st, None)
  | SIntersect i j => (put i (fun x => sel i st x && sel j st x) st, None)
  | SComplement i j => (put i (fun x => sel i st x && negb (sel j st x)) st, None)
  | SEmpty i => (put i (fun _ => false) st, None)
  | SUniverse i => (put i (fun _ => true) st, None)
  | SContains i e => (st, Some (sel i st e))
  end.

Definition op_ok (bits : nat) (o : sop) : Prop :=
  match o with SInsert _ e | SContains _ e => e < 2 ^ bits | _ => True end.
Definition rel1 (bits : nat) (b : bdd) (r : rset) : Prop := setinv bits b /\ forall e, e < 2 ^ bits -> mem b e = r e.
Definition rel (bits : nat) (st : bdd * bdd) (rs : rset * rset) : Prop := rel1 bits (fst st) (fst rs) /\ rel1 bits (snd st) (snd rs).

Lemma rel_sel bits st rs i : rel bits st rs -> rel1 bits (sel i st) (sel i rs).
Proof. intros [H0 H1]. destruct i; auto. Qed.
Lemma rel_put bits st rs i b r : rel bits st rs -> rel1 bits b r -> rel bits (put i b st) (put i r rs).
Proof. intros [H0 H1] H. destruct i; split; cbn; auto. Qed.

Theorem C19_step bits st rs o : rel bits st rs -> op_ok bits o ->
  rel bits (fst (step bits st o)) (fst (rstep rs o)) /\ snd (step bits st o) = snd (rstep rs o).
Proof.
  intros Hrel Hok. destruct o as [i e|i j|i j|i j|i|i|i e]; cbn [step rstep fst snd op_ok] in *.
  - split; auto. apply rel_put; auto. destruct (rel_sel bits st rs i Hrel) as [Hi Hm]. split.
    + unfold s_insert. apply setinv_bor; auto. apply setinv_minterm.
    + intros x Hx. rewrite insert_spec, Hm; auto.
  - split; auto. apply rel_put; auto. destruct (rel_sel bits st rs i Hrel) as [Hi Hm]. destruct (rel_sel bits st rs j Hrel) as [Hj Hmj]. split.
    + apply setinv_bor; auto. + intros x Hx. rewrite union_spec, Hm, Hmj; auto.
  - split; auto. apply rel_put; auto. destruct (rel_sel bits st rs i Hrel) as [Hi Hm]. destruct (rel_sel bits st rs j Hrel) as [Hj Hmj]. split.
    + apply setinv_band; auto. + intros x Hx. rewrite intersect_spec, Hm, Hmj; auto.
  - split; auto. apply rel_put; auto. destruct (rel_sel bits st rs i Hrel) as [Hi Hm]. destruct (rel_sel bits st rs j Hrel) as [Hj Hmj]. split.
    + unfold s_complement. apply setinv_band; auto. apply setinv_bnot; auto. + intros x Hx. rewrite complement_spec, Hm, Hmj; auto.
  - split; auto. apply rel_put; auto. split; [apply (setinv_leaf bits false)|intros; reflexivity].
  - split; auto. apply rel_put; auto. split; [apply (setinv_leaf bits true)|intros; reflexivity].
  - split; auto. destruct (rel_sel bits st rs i Hrel) as [Hi Hm]. f_equal. rewrite contains_spec; auto.
Qed.

(** any history: all answers agree with the reference, and queries leave the sets alone *)
Fixpoint runs (bits : nat) (st : bdd * bdd) (os : list sop) : list (option bool) :=
  match os with [] => [] | o :: r => snd (step bits st o) :: runs bits (fst (step bits st o)) r end.
Fixpoint rruns (st : rset * rset) (os : list sop) : list (option bool) :=
  match os with [] => [] | o :: r => snd (rstep st o) :: rruns (fst (rstep st o)) r end.

Theorem C19_histories bits : forall os st rs, rel bits st rs -> Forall (op_ok bits) os ->
  runs bits st os = rruns rs os.
Proof.
  induction os as [|o os IH]; intros st rs Hrel Hok; cbn [runs rruns]; auto.
  inversion Hok; subst. destruct (C19_step bits st rs o Hrel H1) as [Hrel' Hans]. rewrite Hans. f_equal. apply IH; auto.
Qed.
Theorem C19_initial bits : rel bits (F, F) ((fun _ => false), (fun _ => false)).
Proof. split; (split; [apply (setinv_leaf bits false)|intros; reflexivity]). Qed.
Theorem C19_query_pure bits st i e : fst (step bits st (SContains i e)) = st.
Proof. reflexivity. Qed.
Print Assumptions C19_histories.
