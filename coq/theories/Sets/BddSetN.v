(** C19 with binary elements: the same state machine over [N] elements, so that sets of up to 64 bits with
    elements up to 2^64-1 can be executed; it is the machine of BddSet.v read through [N.of_nat], and every
    history over elements below 2^bits answers like the reference sets of [N]. *)
From Coq Require Import List Arith Bool Lia PeanoNat NArith Nnat.
Import ListNotations.
From Rsbdd Require Import Core.Bdd Core.Ops Sets.BddSet.

Definition categorizeN (e : N) (c : nat) : bool := negb (N.testbit e (N.of_nat c)).
Definition litN (e : N) (i : nat) : bdd := if categorizeN e i then bvar i else bnot (bvar i).
Definition mintermN (bits : nat) (e : N) : bdd := fold_left band (map (litN e) (seq 0 bits)) T.
Definition sN_insert bits b e := bor b (mintermN bits e).
Definition sN_contains bits b e := bdd_eqb (band b (mintermN bits e)) (mintermN bits e).

Lemma testbit_of_nat e c : N.testbit (N.of_nat e) (N.of_nat c) = Nat.testbit e c.
Proof.
  apply eq_true_iff_eq. rewrite N.testbit_true, Nat.testbit_true.
  change 2%N with (N.of_nat 2). rewrite <- Nat2N.inj_pow, <- Nat2N.inj_div, <- Nat2N.inj_mod. change 1%N with (N.of_nat 1).
  split; [intros H; apply Nat2N.inj in H; exact H|intros ->; reflexivity].
Qed.
Lemma categorizeN_of_nat e c : categorizeN (N.of_nat e) c = categorize e c.
Proof. unfold categorizeN, categorize. rewrite testbit_of_nat. reflexivity. Qed.
Lemma mintermN_of_nat bits e : mintermN bits (N.of_nat e) = minterm bits e.
Proof.
  unfold mintermN, minterm. f_equal. apply map_ext. intros i. unfold litN, lit. rewrite categorizeN_of_nat. reflexivity.
Qed.

Inductive sopN : Type :=
| SNInsert (i : bool) (e : N) | SNUnion (i j : bool) | SNIntersect (i j : bool) | SNComplement (i j : bool)
| SNEmpty (i : bool) | SNUniverse (i : bool) | SNContains (i : bool) (e : N).

Definition stepN (bits : nat) (st : bdd * bdd) (o : sopN) : (bdd * bdd) * option bool :=
  match o with
  | SNInsert i e => (put i (sN_insert bits (sel i st) e) st, None)
  | SNUnion i j => (put i (s_union (sel i st) (sel j st)) st, None)
  | SNIntersect i j => (put i (s_intersect (sel i st) (sel j st)) st, None)
  | SNComplement i j => (put i (s_complement (sel i st) (sel j st)) st, None)
  | SNEmpty i => (put i s_empty st, None)
  | SNUniverse i => (put i s_universe st, None)
  | SNContains i e => (st, Some (sN_contains bits (sel i st) e))
  end.
Fixpoint runsN (bits : nat) (st : bdd * bdd) (os : list sopN) : list (option bool) :=
  match os with [] => [] | o :: r => snd (stepN bits st o) :: runsN bits (fst (stepN bits st o)) r end.
Definition finalN (bits : nat) (os : list sopN) : bdd * bdd := fold_left (fun st o => fst (stepN bits st o)) os (F, F).

(** the nat machine is this one read through N.of_nat *)
Definition sop_to_N (o : sop) : sopN :=
  match o with
  | SInsert i e => SNInsert i (N.of_nat e) | SUnion i j => SNUnion i j | SIntersect i j => SNIntersect i j
  | SComplement i j => SNComplement i j | SEmpty i => SNEmpty i | SUniverse i => SNUniverse i
  | SContains i e => SNContains i (N.of_nat e)
  end.
Definition sop_of_N (o : sopN) : sop :=
  match o with
  | SNInsert i e => SInsert i (N.to_nat e) | SNUnion i j => SUnion i j | SNIntersect i j => SIntersect i j
  | SNComplement i j => SComplement i j | SNEmpty i => SEmpty i | SNUniverse i => SUniverse i
  | SNContains i e => SContains i (N.to_nat e)
  end.
Lemma sop_to_of_N o : sop_to_N (sop_of_N o) = o.
Proof. destruct o; cbn; rewrite ?N2Nat.id; reflexivity. Qed.

Lemma stepN_of_nat bits st o : stepN bits st (sop_to_N o) = step bits st o.
Proof.
  destruct o; cbn [sop_to_N stepN step]; try reflexivity.
  - unfold sN_insert, s_insert. rewrite mintermN_of_nat. reflexivity.
  - unfold sN_contains, s_contains. rewrite mintermN_of_nat. reflexivity.
Qed.
Lemma runsN_of_nat bits : forall os st, runsN bits st (map sop_to_N os) = runs bits st os.
Proof. induction os as [|o os IH]; intros st; cbn [map runsN runs]; auto. rewrite stepN_of_nat, IH. reflexivity. Qed.

(** reference sets of N *)
Definition rsetN := N -> bool.
Definition rstepN (st : rsetN * rsetN) (o : sopN) : (rsetN * rsetN) * option bool :=
  match o with
  | SNInsert i e => (put i (fun x => sel i st x || N.eqb x e) st, None)
  | SNUnion i j => (put i (fun x => sel i st x || sel j st x) st, None)
  | SNIntersect i j => (put i (fun x => sel i st x && sel j st x) st, None)
  | SNComplement i j => (put i (fun x => sel i st x && negb (sel j st x)) st, None)
  | SNEmpty i => (put i (fun _ => false) st, None)
  | SNUniverse i => (put i (fun _ => true) st, None)
  | SNContains i e => (st, Some (sel i st e))
  end.
Fixpoint rrunsN (st : rsetN * rsetN) (os : list sopN) : list (option bool) :=
  match os with [] => [] | o :: r => snd (rstepN st o) :: rrunsN (fst (rstepN st o)) r end.
Definition op_okN (bits : nat) (o : sopN) : Prop :=
  match o with SNInsert _ e | SNContains _ e => (e < 2 ^ N.of_nat bits)%N | _ => True end.

(** the N reference is the nat reference read through N.to_nat *)
Definition relr (r : rset * rset) (rn : rsetN * rsetN) : Prop :=
  (forall x, fst rn x = fst r (N.to_nat x)) /\ (forall x, snd rn x = snd r (N.to_nat x)).
Lemma relr_sel r rn i x : relr r rn -> sel i rn x = sel i r (N.to_nat x).
Proof. intros [H0 H1]. destruct i; cbn; auto. Qed.
Lemma eqb_to_nat x e : N.eqb x e = Nat.eqb (N.to_nat x) (N.to_nat e).
Proof.
  destruct (N.eqb_spec x e) as [->|NE]; [symmetry; apply Nat.eqb_refl|].
  symmetry. apply Nat.eqb_neq. intros E. apply NE. apply N2Nat.inj. exact E.
Qed.
Lemma relr_put r rn i (f : rset) (g : rsetN) : relr r rn -> (forall x, g x = f (N.to_nat x)) -> relr (put i f r) (put i g rn).
Proof. intros [H0 H1] H. destruct i; split; cbn; auto. Qed.
Lemma rstepN_rel r rn o : relr r rn ->
  relr (fst (rstep r (sop_of_N o))) (fst (rstepN rn o)) /\ snd (rstep r (sop_of_N o)) = snd (rstepN rn o).
Proof.
  intros Hr. pose proof (fun i x => relr_sel r rn i x Hr) as S.
  destruct o as [i e|i j|i j|i j|i|i|i e]; cbn [sop_of_N rstep rstepN fst snd].
  - split; [|reflexivity]. apply relr_put; auto. intros x. rewrite S, eqb_to_nat. reflexivity.
  - split; [|reflexivity]. apply relr_put; auto. intros x. rewrite !S. reflexivity.
  - split; [|reflexivity]. apply relr_put; auto. intros x. rewrite !S. reflexivity.
  - split; [|reflexivity]. apply relr_put; auto. intros x. rewrite !S. reflexivity.
  - split; [|reflexivity]. apply relr_put; auto.
  - split; [|reflexivity]. apply relr_put; auto.
  - split; [exact Hr|]. f_equal. symmetry. apply S.
Qed.
Lemma rrunsN_rel : forall os r rn, relr r rn -> rruns r (map sop_of_N os) = rrunsN rn os.
Proof.
  induction os as [|o os IH]; intros r rn Hr; cbn [map rruns rrunsN]; auto.
  destruct (rstepN_rel r rn o Hr) as [Hr' Ha]. rewrite Ha. f_equal. apply IH. exact Hr'.
Qed.

Lemma op_okN_nat bits o : op_okN bits o -> op_ok bits (sop_of_N o).
Proof.
  assert (H2 : forall e, (e < 2 ^ N.of_nat bits)%N -> N.to_nat e < 2 ^ bits).
  { intros e H. apply N.compare_lt_iff in H. rewrite N2Nat.inj_compare in H. apply Nat.compare_lt_iff in H.
    rewrite N2Nat.inj_pow, Nat2N.id in H. exact H. }
  destruct o as [i e|i j|i j|i j|i|i|i e]; cbn [op_okN op_ok sop_of_N]; auto.
Qed.

(** C19 over binary elements: every history over elements below 2^bits answers like the reference sets *)
Theorem C19_histories_N bits os : Forall (op_okN bits) os ->
  runsN bits (F, F) os = rrunsN ((fun _ => false), (fun _ => false)) os.
Proof.
  intros Hok.
  rewrite <- (map_id os) at 1. rewrite <- (map_ext _ _ sop_to_of_N os), <- map_map.
  rewrite runsN_of_nat.
  rewrite (C19_histories bits (map sop_of_N os) (F, F) ((fun _ => false), (fun _ => false)) (C19_initial bits)).
  - apply rrunsN_rel. split; intros x; reflexivity.
  - rewrite Forall_forall in *. intros o Ho. apply in_map_iff in Ho. destruct Ho as (o' & <- & Hin). apply op_okN_nat. auto.
Qed.
Print Assumptions C19_histories_N.
