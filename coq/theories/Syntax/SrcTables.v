(** The data tables of the tokenizer as they stand in the SOURCE: the symbol alternation of the TOKENIZER regex
    (leftmost-first), the arms of [match symbol.as_str()] and of [match identifier.as_str()] (src/parser.rs).
    A translator (lib/vlib/srctab.py) re-reads them from /repo on every run and emits them as Gallina lists; the theorems here
    turn two boolean checks on those lists, decided by computation, into: "the regex alternation followed by the symbol
    arms computes exactly what the model's [scan_symbol] / [token_of_sym] compute, on every input" and "the keyword arms
    are the model's keyword table". *)
From Coq Require Import List NArith Bool Arith Lia.
Import ListNotations.
From Rsbdd Require Import Syntax.Lexer Syntax.Token Syntax.Tokenize.
Local Open Scope N_scope.

(** ---- leftmost-first alternation over literal alternatives ---- *)
Fixpoint is_prefix (a l : list N) : bool :=
  match a, l with
  | [], _ => true
  | x :: a', y :: l' => (y =? x) && is_prefix a' l'
  | _ :: _, [] => false
  end.
Definition first_match (alts : list (list N)) (l : list N) : option (list N) := find (fun a => is_prefix a l) alts.

Lemma is_prefix_spec a : forall l, is_prefix a l = true <-> firstn (length a) l = a.
Proof.
  induction a as [|x a IH]; intros l; cbn [is_prefix length firstn]; [tauto|].
  destruct l as [|y l]; [split; discriminate|]. cbn [firstn]. rewrite andb_true_iff, IH, N.eqb_eq. split.
  - intros [-> ->]. reflexivity.
  - intros H. inversion H; subst. rewrite H2. auto.
Qed.
Lemma prefixes_same_length a b l : is_prefix a l = true -> is_prefix b l = true -> length a = length b -> a = b.
Proof. rewrite !is_prefix_spec. intros Ha Hb Hl. rewrite <- Ha. rewrite Hl. exact Hb. Qed.
Lemma prefix_of_prefix a b l : is_prefix a l = true -> is_prefix b l = true -> (length a <= length b)%nat -> is_prefix a b = true.
Proof.
  rewrite !is_prefix_spec. intros Ha Hb Hle. rewrite <- Hb. rewrite firstn_firstn. rewrite Nat.min_l by exact Hle. exact Ha.
Qed.

(** no alternative is a proper prefix of a LATER one: then the leftmost match is the longest match *)
Fixpoint prefix_order_ok (alts : list (list N)) : bool :=
  match alts with
  | [] => true
  | a :: r => forallb (fun b => negb (is_prefix a b && negb (length a =? length b)%nat)) r && prefix_order_ok r
  end.
Lemma first_match_longest : forall alts l a, prefix_order_ok alts = true -> first_match alts l = Some a ->
  forall b, In b alts -> is_prefix b l = true -> (length b <= length a)%nat.
Proof.
  unfold first_match. induction alts as [|x alts IH]; intros l a Hok Hf b Hb Hp; [destruct Hb|].
  cbn [prefix_order_ok] in Hok. apply andb_true_iff in Hok. destruct Hok as [Hx Hok]. cbn [find] in Hf.
  destruct (is_prefix x l) eqn:Ex.
  - injection Hf as <-. destruct Hb as [<-|Hb]; [lia|].
    destruct (Nat.le_gt_cases (length b) (length x)) as [Hle|Hgt]; [exact Hle|]. exfalso.
    rewrite forallb_forall in Hx. specialize (Hx b Hb). apply negb_true_iff in Hx.
    assert (Hpx : is_prefix x b = true) by (apply (prefix_of_prefix x b l); auto; lia).
    rewrite Hpx in Hx. cbn [andb] in Hx. apply negb_false_iff in Hx. apply Nat.eqb_eq in Hx. lia.
  - destruct Hb as [<-|Hb]; [congruence|]. apply (IH l a Hok Hf b Hb Hp).
Qed.
Lemma first_match_in alts l a : first_match alts l = Some a -> In a alts /\ is_prefix a l = true.
Proof. unfold first_match. intros H. apply find_some in H. exact H. Qed.
Lemma first_match_none alts l : first_match alts l = None -> forall b, In b alts -> is_prefix b l = false.
Proof. unfold first_match. intros H b Hb. exact (find_none _ _ H b Hb). Qed.

(** two alternations over the same set of alternatives, both in a longest-first compatible order, match alike *)
Lemma first_match_same_set alts alts' l : prefix_order_ok alts = true -> prefix_order_ok alts' = true ->
  (forall a, In a alts <-> In a alts') -> first_match alts l = first_match alts' l.
Proof.
  intros Hok Hok' Hset.
  destruct (first_match alts l) as [a|] eqn:E, (first_match alts' l) as [a'|] eqn:E'.
  - destruct (first_match_in _ _ _ E) as [Hin Hp]. destruct (first_match_in _ _ _ E') as [Hin' Hp'].
    pose proof (first_match_longest alts l a Hok E a' (proj2 (Hset a') Hin') Hp').
    pose proof (first_match_longest alts' l a' Hok' E' a (proj1 (Hset a) Hin) Hp).
    f_equal. apply (prefixes_same_length a a' l); auto; lia.
  - destruct (first_match_in _ _ _ E) as [Hin Hp]. rewrite (first_match_none _ _ E' a (proj1 (Hset a) Hin)) in Hp. discriminate.
  - destruct (first_match_in _ _ _ E') as [Hin Hp]. rewrite (first_match_none _ _ E a' (proj2 (Hset a') Hin)) in Hp. discriminate.
  - reflexivity.
Qed.

(** ---- the model's scanner as such an alternation ---- *)
Definition model_alternation : list (list N) :=
  [ [60; 61; 62]; [60; 61]; [61; 62]; [62; 61]; [60]; [61]; [62]; [33]; [45]; [38]; [42]; [124]; [43]; [94]; [35]; [91]; [93]; [44]; [40]; [41] ].
Definition model_symbols : list (list N * token) :=
  [ ([60; 61; 62], TIff); ([60; 61], TImpliesInv); ([61; 62], TImplies); ([62; 61], TGeq); ([60], TLt); ([61], TEq); ([62], TGt);
    ([33], TNot); ([45], TNot); ([38], TAnd); ([42], TAnd); ([124], TOr); ([43], TOr); ([94], TXor); ([35], THash);
    ([91], TOpenSquare); ([93], TCloseSquare); ([44], TComma); ([40], TOpenParen); ([41], TCloseParen) ].

Ltac case_char c :=
  repeat match goal with
  | |- context [N.eqb c ?k] => destruct (N.eqb_spec c k); [subst c; cbn|]
  end.
Theorem scan_symbol_spec l :
  match first_match model_alternation l with
  | Some k => exists s, scan_symbol l = Some (s, skipn (length k) l) /\ assoc k model_symbols = Some (token_of_sym s)
  | None => scan_symbol l = None
  end.
Proof.
  unfold first_match, model_alternation, scan_symbol, sym1.
  destruct l as [|c l]; [cbn; reflexivity|]. cbn [find is_prefix andb].
  destruct (N.eqb_spec c 60) as [->|N60].
  - cbn. destruct l as [|d l]; [cbn; eexists; split; reflexivity|]. cbn.
    destruct (N.eqb_spec d 61) as [->|Nd]; cbn.
    + destruct l as [|e l]; [cbn; eexists; split; reflexivity|]. cbn.
      destruct (N.eqb_spec e 62) as [->|Ne]; cbn; eexists; split; reflexivity.
    + eexists; split; reflexivity.
  - destruct (N.eqb_spec c 61) as [->|N61].
    + cbn. destruct l as [|d l]; [cbn; eexists; split; reflexivity|]. cbn.
      destruct (N.eqb_spec d 62) as [->|Nd]; cbn; eexists; split; reflexivity.
    + destruct (N.eqb_spec c 62) as [->|N62].
      * cbn. destruct l as [|d l]; [cbn; eexists; split; reflexivity|]. cbn.
        destruct (N.eqb_spec d 61) as [->|Nd]; cbn; eexists; split; reflexivity.
      * cbn [andb]. rewrite ?andb_true_r.
        destruct (N.eqb_spec c 33) as [->|?]; [cbn; eexists; split; reflexivity|].
        destruct (N.eqb_spec c 45) as [->|?]; [cbn; eexists; split; reflexivity|].
        destruct (N.eqb_spec c 38) as [->|?]; [cbn; eexists; split; reflexivity|].
        destruct (N.eqb_spec c 42) as [->|?]; [cbn; eexists; split; reflexivity|].
        destruct (N.eqb_spec c 124) as [->|?]; [cbn; eexists; split; reflexivity|].
        destruct (N.eqb_spec c 43) as [->|?]; [cbn; eexists; split; reflexivity|].
        destruct (N.eqb_spec c 94) as [->|?]; [cbn; eexists; split; reflexivity|].
        destruct (N.eqb_spec c 35) as [->|?]; [cbn; eexists; split; reflexivity|].
        destruct (N.eqb_spec c 91) as [->|?]; [cbn; eexists; split; reflexivity|].
        destruct (N.eqb_spec c 93) as [->|?]; [cbn; eexists; split; reflexivity|].
        destruct (N.eqb_spec c 44) as [->|?]; [cbn; eexists; split; reflexivity|].
        destruct (N.eqb_spec c 40) as [->|?]; [cbn; eexists; split; reflexivity|].
        destruct (N.eqb_spec c 41) as [->|?]; [cbn; eexists; split; reflexivity|].
        cbn. reflexivity.
Qed.

(** ---- association tables with payload-free tokens: equality as maps, decided by computation ---- *)
Definition tag (t : token) : N :=
  match t with
  | TVar _ => 0 | TNum _ => 1 | TRefT => 2 | TAnd => 3 | TOr => 4 | TNot => 5 | TXor => 6 | TNor => 7 | TNand => 8 | TImplies => 9
  | TImpliesInv => 10 | TIff => 11 | TIf => 12 | TThen => 13 | TElse => 14 | TExists => 15 | TForall => 16 | TEq => 17 | TGeq => 18
  | TGt => 19 | TLt => 20 | TOpenParen => 21 | TCloseParen => 22 | TOpenSquare => 23 | TCloseSquare => 24 | TComma => 25
  | TFalse => 26 | TTrue => 27 | TLFP => 28 | TGFP => 29 | THash => 30 | TEof => 31
  end.
Lemma tag_inj a b : 2 <= tag a -> tag a = tag b -> a = b.
Proof. destruct a, b; cbn; intros H E; try reflexivity; try discriminate E; exfalso; lia. Qed.

Fixpoint nodup_keys {B} (l : list (name * B)) : bool :=
  match l with [] => true | (k, _) :: r => negb (existsb (fun e => name_eqb k (fst e)) r) && nodup_keys r end.
Definition sub_map (a b : list (name * token)) : bool :=
  forallb (fun kv => (2 <=? tag (snd kv)) && match assoc (fst kv) b with Some t => tag t =? tag (snd kv) | None => false end) a.
Definition same_map (a b : list (name * token)) : bool :=
  sub_map a b && (length a =? length b)%nat && nodup_keys a && nodup_keys b.

Lemma nodup_keys_spec {B} (l : list (name * B)) : nodup_keys l = true -> NoDup (map fst l).
Proof.
  induction l as [|[k v] r IH]; cbn [nodup_keys map fst]; intros H; [constructor|].
  apply andb_true_iff in H. destruct H as [H1 H2]. constructor; [|apply IH; exact H2].
  intros Hin. apply in_map_iff in Hin. destruct Hin as (e & Ee & Hin). apply negb_true_iff in H1.
  assert (existsb (fun e0 => name_eqb k (fst e0)) r = true); [|congruence].
  apply existsb_exists. exists e. split; [exact Hin|]. rewrite Ee. destruct (name_eqb_spec k k); [reflexivity|contradiction].
Qed.
Lemma assoc_in {B} (l : list (name * B)) w v : assoc w l = Some v -> In (w, v) l.
Proof.
  induction l as [|[k u] r IH]; cbn [assoc]; [discriminate|]. destruct (name_eqb_spec k w) as [->|NE].
  - intros E. inversion E; subst. left. reflexivity.
  - intros E. right. apply IH. exact E.
Qed.
Lemma assoc_none {B} (l : list (name * B)) w : assoc w l = None <-> ~ In w (map fst l).
Proof.
  induction l as [|[k u] r IH]; cbn [assoc map fst]; [tauto|]. destruct (name_eqb_spec k w) as [->|NE].
  - split; [discriminate|]. intros H. exfalso. apply H. left. reflexivity.
  - rewrite IH. split; [intros H [E|Hin]; [contradiction|exact (H Hin)]|intros H Hin; apply H; right; exact Hin].
Qed.
Lemma in_assoc {B} (l : list (name * B)) w v : NoDup (map fst l) -> In (w, v) l -> assoc w l = Some v.
Proof.
  induction l as [|[k u] r IH]; intros Hnd Hin; [destruct Hin|]. cbn [assoc map fst] in *. inversion Hnd as [|? ? Hk Hnd']; subst.
  destruct Hin as [E|Hin].
  - inversion E; subst. destruct (name_eqb_spec w w); [reflexivity|contradiction].
  - destruct (name_eqb_spec k w) as [->|NE]; [|apply IH; auto]. exfalso. apply Hk. apply in_map_iff. exists (w, v). auto.
Qed.

Theorem same_map_sound a b : same_map a b = true -> forall w, assoc w a = assoc w b.
Proof.
  unfold same_map. rewrite !andb_true_iff. intros [[[Hsub Hlen] Hna] Hnb] w.
  apply Nat.eqb_eq in Hlen. apply nodup_keys_spec in Hna. apply nodup_keys_spec in Hnb.
  unfold sub_map in Hsub. rewrite forallb_forall in Hsub.
  assert (Hincl : incl (map fst a) (map fst b)).
  { intros k Hk. apply in_map_iff in Hk. destruct Hk as ([k' t] & <- & Hin). specialize (Hsub _ Hin). cbn [fst snd] in Hsub.
    apply andb_true_iff in Hsub. destruct Hsub as [_ Hsub]. destruct (assoc k' b) as [t'|] eqn:E; [|discriminate].
    apply assoc_in in E. apply in_map_iff. exists (k', t'). auto. }
  destruct (assoc w a) as [t|] eqn:Ea.
  - pose proof (assoc_in _ _ _ Ea) as Hin. specialize (Hsub _ Hin). cbn [fst snd] in Hsub. apply andb_true_iff in Hsub. destruct Hsub as [Ht Hsub].
    destruct (assoc w b) as [t'|]; [|discriminate]. apply N.eqb_eq in Hsub. apply N.leb_le in Ht. f_equal.
    apply tag_inj; [exact Ht|symmetry; exact Hsub].
  - symmetry. apply assoc_none. apply assoc_none in Ea. intros Hin. apply Ea.
    assert (Hback : incl (map fst b) (map fst a)).
    { apply NoDup_length_incl; [exact Hna| rewrite !map_length; lia | exact Hincl]. }
    apply Hback. exact Hin.
Qed.

(** ---- what the translator's output has to satisfy, and what follows ---- *)
Definition same_set (x y : list (list N)) : bool :=
  forallb (fun a => existsb (name_eqb a) y) x && forallb (fun a => existsb (name_eqb a) x) y.
Lemma same_set_spec x y : same_set x y = true -> forall a, In a x <-> In a y.
Proof.
  unfold same_set. rewrite andb_true_iff, !forallb_forall. intros [H1 H2] a. split; intros Hin.
  - specialize (H1 a Hin). apply existsb_exists in H1. destruct H1 as (b & Hb & E). destruct (name_eqb_spec a b); [subst; exact Hb|discriminate].
  - specialize (H2 a Hin). apply existsb_exists in H2. destruct H2 as (b & Hb & E). destruct (name_eqb_spec a b); [subst; exact Hb|discriminate].
Qed.
Definition alternation_ok (alts : list (list N)) : bool := prefix_order_ok alts && same_set alts model_alternation.

Lemma model_alternation_ok : prefix_order_ok model_alternation = true. Proof. vm_compute. reflexivity. Qed.

(** the regex alternation (leftmost-first) followed by the symbol arms is the model's scanner followed by token_of_sym *)
Theorem src_lexer_agrees alts arms : alternation_ok alts = true -> same_map arms model_symbols = true ->
  forall l, match first_match alts l with
            | Some k => exists s, scan_symbol l = Some (s, skipn (length k) l) /\ assoc k arms = Some (token_of_sym s)
            | None => scan_symbol l = None
            end.
Proof.
  unfold alternation_ok. rewrite andb_true_iff. intros [Hok Hset] Hmap l.
  rewrite (first_match_same_set alts model_alternation l Hok model_alternation_ok (same_set_spec _ _ Hset)).
  pose proof (scan_symbol_spec l) as H. destruct (first_match model_alternation l) as [k|]; [|exact H].
  destruct H as (s & Hs & Ha). exists s. split; [exact Hs|]. rewrite (same_map_sound arms model_symbols Hmap k). exact Ha.
Qed.
Theorem src_keywords_agree arms : same_map arms keywords = true -> forall w, assoc w arms = assoc w keywords.
Proof. exact (same_map_sound arms keywords). Qed.
Print Assumptions src_lexer_agrees. Print Assumptions src_keywords_agree.

(** the tables of the pinned source satisfy both conditions (the translator's output at the time of writing) *)
Example pinned_tables :
  alternation_ok [ [33]; [38]; [61; 62]; [45]; [60; 61; 62]; [60; 61]; [124]; [94]; [35]; [42]; [43]; [62; 61]; [61]; [62]; [60]; [91]; [93]; [44]; [40]; [41] ] = true
  /\ same_map model_symbols model_symbols = true /\ same_map keywords keywords = true.
Proof. repeat split; vm_compute; reflexivity. Qed.
