(** The lexing relation [Lexes] (LexSpec.v) is functional: a text has exactly one tokenisation, the
    one the scanner computes.  So "tokens by longest match ... comments and stray characters acting as
    separators" determines the token list, and with C08_unique the syntax tree. *)
From Coq Require Import List NArith Bool Arith Lia.
Import ListNotations.
From Rsbdd Require Import Syntax.Lexer Syntax.LexSpec.
Local Open Scope N_scope.

Section Unique.
  Variable uc : N -> ucls.
  Notation is_digit := (is_digit uc).
  Notation is_word := (is_word uc).
  Notation lexeme := (lexeme uc).
  Notation Lexes := (Lexes uc).
  Notation maximal := (maximal uc).

  Lemma prefix_same_length (a b l : list N) : prefix a l -> prefix b l -> length a = length b -> a = b.
  Proof.
    intros [ra ->] [rb E] Hl. revert b rb E Hl. induction a as [|x a IH]; intros [|y b] rb E Hl; try discriminate; auto.
    cbn [app] in E. inversion E; subst. f_equal. apply (IH b rb); auto.
  Qed.

  Lemma sym_string_fun s1 s2 w : sym_string s1 w -> sym_string s2 w -> s1 = s2.
  Proof.
    destruct s1, s2; cbn [sym_string]; intros H1 H2; try reflexivity;
      repeat match goal with H : _ \/ _ |- _ => destruct H end; subst; try discriminate; congruence.
  Qed.

  Lemma word_not_sym c : sym_char c = true -> is_word c = false /\ is_digit c = false /\ c <> 123.
  Proof. intros H. destruct (sym_char_class uc c H) as (Hd & Hw & Hn & _). auto. Qed.

  (** a string is a lexeme of at most one token *)
  Lemma lexeme_fun w t1 t2 : lexeme w t1 -> lexeme w t2 -> t1 = t2.
  Proof.
    intros H1 H2. destruct w as [|c w]; [exfalso; exact (lexeme_nonempty uc _ _ H1 eq_refl)|].
    inversion H1 as [s1 w1 S1|w1 N1 D1|w1 N1 W1|c1 w1 Wc1 Dc1 W1]; subst;
    inversion H2 as [s2 w2 S2|w2 N2 D2|w2 N2 W2|c2 w2 Wc2 Dc2 W2]; subst.
    - f_equal. eapply sym_string_fun; eauto.
    - exfalso. pose proof (sym_string_first _ _ _ S1) as Hs. destruct (word_not_sym c Hs) as (_ & Hd & _).
      inversion D2 as [|? ? Hc _]; subst. congruence.
    - exfalso. pose proof (sym_string_first _ _ _ S1) as Hs. destruct (word_not_sym _ Hs) as (_ & _ & Hn). congruence.
    - exfalso. pose proof (sym_string_first _ _ _ S1) as Hs. destruct (word_not_sym c Hs) as (Hw & _ & _). congruence.
    - exfalso. pose proof (sym_string_first _ _ _ S2) as Hs. destruct (word_not_sym c Hs) as (_ & Hd & _).
      inversion D1 as [|? ? Hc _]; subst. congruence.
    - reflexivity.
    - exfalso. inversion D1 as [|? ? Hc _]; subst. rewrite digit_123 in Hc. discriminate.
    - exfalso. inversion D1 as [|? ? Hc _]; subst. congruence.
    - exfalso. pose proof (sym_string_first _ _ _ S2) as Hs. destruct (word_not_sym _ Hs) as (_ & _ & Hn). congruence.
    - exfalso. inversion D2 as [|? ? Hc _]; subst. rewrite digit_123 in Hc. discriminate.
    - f_equal. match goal with E : ?a ++ [125] = ?b ++ [125] |- _ => apply app_inj_tail in E; destruct E as [E _]; symmetry; exact E end.
    - exfalso. rewrite word_123 in Wc2. discriminate.
    - exfalso. pose proof (sym_string_first _ _ _ S2) as Hs. destruct (word_not_sym c Hs) as (Hw & _ & _). congruence.
    - exfalso. inversion D2 as [|? ? Hc _]; subst. congruence.
    - exfalso. rewrite word_123 in Wc1. discriminate.
    - reflexivity.
  Qed.

  (** a comment prefix is determined: it ends at the first double quote after the opening one *)
  Lemma first_quote : forall b1 b2 r1 r2, Forall (fun c => c <> 34) b1 -> Forall (fun c => c <> 34) b2 ->
    b1 ++ 34 :: r1 = b2 ++ 34 :: r2 -> b1 = b2.
  Proof.
    induction b1 as [|x b1 IH]; intros [|y b2] r1 r2 F1 F2 E; cbn [app] in E.
    - reflexivity.
    - inversion E; subst. inversion F2; subst. congruence.
    - inversion E; subst. inversion F1; subst. congruence.
    - inversion E; subst. inversion F1; inversion F2; subst. f_equal. eapply IH; eauto.
  Qed.
  Lemma comment_fun w1 w2 l : comment w1 -> comment w2 -> prefix w1 l -> prefix w2 l -> w1 = w2.
  Proof.
    intros (b1 & -> & F1) (b2 & -> & F2) [r1 E1] [r2 E2]. subst l. cbn [app] in E2. inversion E2 as [E]. clear E2.
    rewrite <- !app_assoc in E. cbn [app] in E. rewrite (first_quote b1 b2 r1 r2 F1 F2 E). reflexivity.
  Qed.

  Theorem Lexes_fun : forall l ts1 ts2, Lexes l ts1 -> Lexes l ts2 -> ts1 = ts2.
  Proof.
    intros l. remember (length l) as n eqn:Hn. revert l Hn.
    induction n as [n IH] using lt_wf_ind. intros l Hn ts1 ts2 H1 H2.
    inversion H1 as [|w1 t1 r1 u1 L1 M1 R1|w1 r1 u1 C1 N1 R1|c1 r1 u1 N1 NC1 R1]; subst.
    - inversion H2 as [|w2 t2 r2 u2 L2 M2 R2 E2|w2 r2 u2 C2 N2 R2 E2|]; subst; auto.
      + exfalso. apply (lexeme_nonempty uc _ _ L2). destruct w2; [reflexivity|discriminate].
      + exfalso. destruct C2 as (b & -> & _). discriminate.
    - (* the first derivation takes a token *)
      assert (Hp1 : prefix w1 (w1 ++ r1)) by (exists r1; reflexivity).
      inversion H2 as [E0|w2 t2 r2 u2 L2 M2 R2 E2|w2 r2 u2 C2 N2 R2 E2|c2 r2 u2 N2 NC2 R2 E2]; subst.
      + exfalso. apply (lexeme_nonempty uc _ _ L1). destruct w1; [reflexivity|discriminate].
      + assert (Hp2 : prefix w2 (w1 ++ r1)) by (exists r2; first [exact E2 | symmetry; exact E2]).
        assert (Hp1' : prefix w1 (w2 ++ r2)) by (exists r1; first [exact E2 | symmetry; exact E2]).
        assert (Hl : length w1 = length w2).
        { pose proof (M1 w2 t2 Hp2 L2). pose proof (M2 w1 t1 Hp1' L1). lia. }
        assert (Ew : w1 = w2) by (apply (prefix_same_length w1 w2 (w1 ++ r1)); auto). subst w2.
        assert (Er : r2 = r1) by (first [apply (app_inv_head w1); exact E2 | symmetry; apply (app_inv_head w1); exact E2]). subst r2.
        rewrite (lexeme_fun w1 t1 t2 L1 L2). f_equal.
        apply (IH (length r1)) with (l := r1); auto.
        rewrite app_length. pose proof (lexeme_nonempty uc _ _ L1). destruct w1; [congruence|cbn; lia].
      + exfalso. apply (N2 w1 t1); [exists r1; first [exact E2 | symmetry; exact E2]|exact L1].
      + exfalso. apply (N2 w1 t1); [exists r1; first [exact E2 | symmetry; exact E2]|exact L1].
    - (* the first derivation skips a comment *)
      assert (Hp1 : prefix w1 (w1 ++ r1)) by (exists r1; reflexivity).
      inversion H2 as [E0|w2 t2 r2 u2 L2 M2 R2 E2|w2 r2 u2 C2 N2 R2 E2|c2 r2 u2 N2 NC2 R2 E2]; subst.
      + exfalso. destruct C1 as (b & -> & _). discriminate.
      + exfalso. apply (N1 w2 t2); [exists r2; first [exact E2 | symmetry; exact E2]|exact L2].
      + assert (Ew : w1 = w2) by (apply (comment_fun w1 w2 (w1 ++ r1)); auto; exists r2; first [exact E2 | symmetry; exact E2]). subst w2.
        assert (Er : r2 = r1) by (first [apply (app_inv_head w1); exact E2 | symmetry; apply (app_inv_head w1); exact E2]). subst r2.
        apply (IH (length r1)) with (l := r1); auto.
        rewrite app_length. destruct C1 as (b & -> & _). cbn. lia.
      + exfalso. apply (NC2 w1); [exists r1; first [exact E2 | symmetry; exact E2]|exact C1].
    - (* the first derivation skips one character *)
      inversion H2 as [E0|w2 t2 r2 u2 L2 M2 R2 E2|w2 r2 u2 C2 N2 R2 E2|c2 r2 u2 N2 NC2 R2 E2]; subst.
      + exfalso. apply (N1 w2 t2); [exists r2; first [exact E2 | symmetry; exact E2]|exact L2].
      + exfalso. apply (NC1 w2); [exists r2; first [exact E2 | symmetry; exact E2]|exact C2].
      + try match goal with E : _ :: _ = _ :: _ |- _ => inversion E; subst end. apply (IH (length r1)) with (l := r1); auto.
  Qed.

  (** hence the scanner's output is THE tokenisation of the text *)
  Corollary C08_lex_unique l ts : Lexes l ts <-> ts = lex_raw uc l.
  Proof.
    split.
    - intros H. apply (Lexes_fun l); [exact H|apply C08_lex].
    - intros ->. apply C08_lex.
  Qed.
End Unique.
Print Assumptions C08_lex_unique.
