(** The second pass of [tokenize] (src/parser.rs:724-808): symbols and keywords through the alias
    tables, numbers to usize (an error after the repair of D2), identifiers to variable ids
    (preloaded from the ordering, then numbered by first appearance), one Eof at the end. *)
From Coq Require Import List NArith Bool Arith Lia String Ascii.
Import ListNotations.
From Rsbdd Require Import Lang.Ast Syntax.Token Syntax.Lexer.
Local Open Scope N_scope.

Definition name := list N.
Fixpoint name_eqb (a b : name) : bool :=
  match a, b with [], [] => true | x :: a', y :: b' => (x =? y) && name_eqb a' b' | _, _ => false end.
Lemma name_eqb_spec a b : reflect (a = b) (name_eqb a b).
Proof.
  revert b. induction a as [|x a IH]; intros [|y b]; cbn [name_eqb]; try (constructor; congruence).
  destruct (N.eqb_spec x y); cbn; [|constructor; congruence]. destruct (IH b); constructor; congruence.
Qed.

Fixpoint str (s : string) : name :=
  match s with EmptyString => [] | String c r => N_of_ascii c :: str r end.

Definition token_of_sym (s : sym) : token :=
  match s with
  | SAnd => TAnd | SOr => TOr | SXor => TXor | SNot => TNot | SImplies => TImplies | SImpliesInv => TImpliesInv
  | SIff => TIff | SHash => THash | SEq => TEq | SLt => TLt | SGt => TGt | SGeq => TGeq
  | SOpenParen => TOpenParen | SCloseParen => TCloseParen | SOpenSquare => TOpenSquare
  | SCloseSquare => TCloseSquare | SComma => TComma
  end.

Definition keywords : list (name * token) :=
  [ (str "false", TFalse); (str "true", TTrue); (str "not", TNot); (str "and", TAnd); (str "or", TOr);
    (str "xor", TXor); (str "nor", TNor); (str "nand", TNand); (str "implies", TImplies); (str "in", TImplies);
    (str "iff", TIff); (str "eq", TIff); (str "exists", TExists); (str "any", TExists);
    (str "forall", TForall); (str "all", TForall); (str "if", TIf); (str "then", TThen); (str "else", TElse);
    (str "gfp", TGFP); (str "nu", TGFP); (str "lfp", TLFP); (str "mu", TLFP) ]%string.

Fixpoint assoc {B} (w : name) (l : list (name * B)) : option B :=
  match l with [] => None | (k, v) :: r => if name_eqb k w then Some v else assoc w r end.

(** decimal value of an ASCII digit string, if it fits a u64 *)
Fixpoint dec_value (acc : N) (ds : list N) : option N :=
  match ds with
  | [] => Some acc
  | d :: r => if (48 <=? d) && (d <=? 57) then dec_value (acc * 10 + (d - 48)) r else None
  end.
Definition parse_usize (ds : list N) : option N :=
  match dec_value 0 ds with Some n => if n <? 18446744073709551616 then Some n else None | None => None end.

(** the id table: latest binding first *)
Definition idmap := list (name * nat).

Fixpoint classify (m : idmap) (ctr : nat) (rs : list rtok) : option (list token) :=
  match rs with
  | [] => Some [TEof]
  | RSym s :: r => option_map (cons (token_of_sym s)) (classify m ctr r)
  | RNumber ds :: r =>
      match parse_usize ds with
      | Some n => option_map (cons (TNum n)) (classify m ctr r)
      | None => None                                          (* InvalidData, not a panic (D2) *)
      end
  | RRef _ :: r => option_map (cons TRefT) (classify m ctr r)
  | RIdent w :: r =>
      match assoc w keywords with
      | Some t => option_map (cons t) (classify m ctr r)
      | None =>
          match assoc w m with
          | Some id => option_map (cons (TVar id)) (classify m ctr r)
          | None => option_map (cons (TVar ctr)) (classify ((w, ctr) :: m) (S ctr) r)
          end
      end
  end.

(** preloading from the ordering (parser.rs:713-720): later entries win, numbering continues after
    the largest id *)
Definition preload (ordering : list (name * nat)) : idmap * nat :=
  fold_left (fun st e => ((fst e, snd e) :: fst st, Nat.max (snd st) (S (snd e)))) ordering ([], 0%nat).

Definition tokenize (uc : N -> ucls) (ordering : list (name * nat)) (txt : list N) : option (list token) :=
  let '(m, ctr) := preload ordering in classify m ctr (lex_raw uc txt).

(** exactly one Eof, and it is the last token *)
Lemma classify_eof_last : forall rs m ctr ts, classify m ctr rs = Some ts ->
  exists body, ts = body ++ [TEof] /\ ~ In TEof body.
Proof.
  induction rs as [|t rs IH]; intros m ctr ts H; cbn [classify] in H.
  - inversion H; subst. exists []. split; auto.
  - assert (Hcons : forall x m' c', x <> TEof -> option_map (cons x) (classify m' c' rs) = Some ts ->
              exists body, ts = body ++ [TEof] /\ ~ In TEof body).
    { intros x m' c' Hx Ho. destruct (classify m' c' rs) as [ts'|] eqn:E; [|discriminate]. inversion Ho; subst.
      destruct (IH _ _ _ E) as (body & -> & Hn). exists (x :: body). split; auto. intros [Hh|Hh]; auto. }
    destruct t as [s|ds|w|w].
    + apply (Hcons (token_of_sym s) m ctr); [destruct s; discriminate|exact H].
    + destruct (parse_usize ds) as [nn|]; [|discriminate]. apply (Hcons (TNum nn) m ctr); [discriminate|exact H].
    + apply (Hcons TRefT m ctr); [discriminate|exact H].
    + destruct (assoc w keywords) as [t|] eqn:Ek.
      * apply (Hcons t m ctr); [|exact H].
        (* no keyword maps to Eof *)
        intros ->. clear - Ek. unfold keywords in Ek. cbn [assoc] in Ek.
        repeat match type of Ek with
        | (if ?b then _ else _) = _ => destruct b; [discriminate|]
        end. discriminate.
      * destruct (assoc w m) as [id|]; [apply (Hcons (TVar id) m ctr)|apply (Hcons (TVar ctr) ((w, ctr) :: m) (S ctr))]; try discriminate; exact H.
Qed.

(** the invariant of the id table: one id per name, one name per id, all ids below the counter *)
Definition idinv (m : idmap) (ctr : nat) : Prop :=
  (forall w i, assoc w m = Some i -> (i < ctr)%nat) /\
  (forall w w' i, assoc w m = Some i -> assoc w' m = Some i -> w = w').

Lemma assoc_cons_eq {B} w (v : B) m : assoc w ((w, v) :: m) = Some v.
Proof. cbn [assoc]. destruct (name_eqb_spec w w); [reflexivity|contradiction]. Qed.
Lemma assoc_cons_ne {B} w w' (v : B) m : w <> w' -> assoc w' ((w, v) :: m) = assoc w' m.
Proof. intros H. cbn [assoc]. destruct (name_eqb_spec w w'); [contradiction|reflexivity]. Qed.

Lemma idinv_fresh m ctr w : idinv m ctr -> assoc w m = None -> idinv ((w, ctr) :: m) (S ctr).
Proof.
  intros [Hlt Hinj] Hnone. split.
  - intros w' i H. destruct (name_eqb_spec w w') as [E|Hne].
    + subst w'. rewrite assoc_cons_eq in H. inversion H. lia.
    + rewrite assoc_cons_ne in H by auto. specialize (Hlt _ _ H). lia.
  - intros w1 w2 i H1 H2.
    destruct (name_eqb_spec w w1) as [E1|N1], (name_eqb_spec w w2) as [E2|N2].
    + congruence.
    + subst w1. rewrite assoc_cons_eq in H1. rewrite assoc_cons_ne in H2 by auto. inversion H1; subst. specialize (Hlt _ _ H2). lia.
    + subst w2. rewrite assoc_cons_eq in H2. rewrite assoc_cons_ne in H1 by auto. inversion H2; subst. specialize (Hlt _ _ H1). lia.
    + rewrite assoc_cons_ne in H1, H2 by auto. eauto.
Qed.

From Rsbdd Require Import Syntax.Parser Syntax.ParserSound.

Lemma split_at_first_eof : forall (body s r : list token), ~ In TEof body -> body ++ [TEof] = s ++ TEof :: r -> r = [].
Proof.
  induction body as [|x body IH]; intros s r Hn H.
  - destruct s as [|y s]; cbn [app] in H; [inversion H; reflexivity|].
    inversion H as [[Hy Hs]]. destruct s; discriminate.
  - destruct s as [|y s]; cbn [app] in H.
    + inversion H; subst. exfalso. apply Hn. left. reflexivity.
    + inversion H; subst. apply (IH s r); auto. intros Hin. apply Hn. right. exact Hin.
Qed.

Theorem tokenize_eof_last uc ordering txt ts : tokenize uc ordering txt = Some ts -> eof_last ts.
Proof.
  unfold tokenize. destruct (preload ordering) as [m ctr]. intros H.
  destruct (classify_eof_last _ _ _ _ H) as (body & -> & Hn). intros s r E. eapply split_at_first_eof; eauto.
Qed.

(** C08 for texts: the tokens of a text parse to a tree exactly when they form a sentence *)
From Rsbdd Require Import Syntax.Grammar Syntax.ParserComplete.
Theorem C08_text uc ordering txt ts f : tokenize uc ordering txt = Some ts ->
  (parse ts = Ok f [] <-> G_formula ts f).
Proof. intros H. apply C08. eapply tokenize_eof_last; eauto. Qed.
Print Assumptions C08_text.
