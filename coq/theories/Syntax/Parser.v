(** The recursive-descent parser (src/parser.rs:413-701) after the repair of D1
    ([parse_negation] without fail-over).  Fuelled mutual recursion; definitions only. *)
From Coq Require Import List NArith.
Import ListNotations.
From Rsbdd Require Import Lang.Ast Syntax.Token.

Inductive res (A : Type) : Type := Ok (a : A) (rest : list token) | Err | Fuel.
Arguments Ok {A} a rest. Arguments Err {A}. Arguments Fuel {A}.

(** [parse_variable_list]: variables separated by commas, optional trailing comma, stops before [#].
    Structural on the token list. *)
Fixpoint p_vars (ts : list token) : res (list nat) :=
  match ts with
  | THash :: _ => Ok [] ts
  | TVar v :: TComma :: r => match p_vars r with Ok vs r' => Ok (v :: vs) r' | e => e end
  | TVar v :: r => Ok [v] r
  | _ => Err
  end.

Definition expect (t : token) (eqb : token -> bool) (ts : list token) : option (list token) :=
  match ts with x :: r => if eqb x then Some r else None | [] => None end.
Definition is_close_paren t := match t with TCloseParen => true | _ => false end.
Definition is_close_square t := match t with TCloseSquare => true | _ => false end.
Definition is_hash t := match t with THash => true | _ => false end.
Definition is_then t := match t with TThen => true | _ => false end.
Definition is_else t := match t with TElse => true | _ => false end.

Fixpoint p_sub (n : nat) (ts : list token) {struct n} : res form :=
  match n with 0 => Fuel | S k =>
    match p_simple k ts with
    | Ok l rest =>
        match rest with
        | t :: rest' =>
            match binop_of t with
            | Some op => match p_sub k rest' with Ok r rest'' => Ok (FBin op l r) rest'' | e => e end
            | None => Ok l rest
            end
        | [] => Ok l rest
        end
    | e => e
    end
  end
with p_simple (n : nat) (ts : list token) {struct n} : res form :=
  match n with 0 => Fuel | S k =>
    match ts with
    | TOpenParen :: r =>
        match p_sub k r with
        | Ok f (TCloseParen :: r') => Ok f r'
        | Ok _ _ => Err
        | e => e
        end
    | TOpenSquare :: r =>
        match p_items k r with
        | Ok l (t :: r1) =>
            match cop_of t with
            | None => Err
            | Some op =>
                match r1 with
                | TOpenSquare :: r2 => match p_items k r2 with Ok rr r3 => Ok (FCountV op l rr) r3 | Err => Err | Fuel => Fuel end
                | TNum c :: r2 => Ok (FCountC op l c) r2
                | _ => Err
                end
            end
        | Ok _ [] => Err
        | Err => Err
        | Fuel => Fuel
        end
    | TFalse :: r => Ok FFalse r
    | TTrue :: r => Ok FTrue r
    | TRefT :: r => Ok FRef r
    | TVar v :: r => Ok (FVar v) r
    | TNot :: r => match p_simple k r with Ok f r' => Ok (FNot f) r' | e => e end
    | TExists :: r =>
        match p_vars r with
        | Ok vs (THash :: r1) => match p_sub k r1 with Ok f r2 => Ok (FQuant QExists vs f) r2 | e => e end
        | Ok _ _ => Err
        | Err => Err
        | Fuel => Fuel
        end
    | TForall :: r =>
        match p_vars r with
        | Ok vs (THash :: r1) => match p_sub k r1 with Ok f r2 => Ok (FQuant QForall vs f) r2 | e => e end
        | Ok _ _ => Err
        | Err => Err
        | Fuel => Fuel
        end
    | TGFP :: TVar v :: THash :: r => match p_sub k r with Ok f r' => Ok (FFix v true f) r' | e => e end
    | TLFP :: TVar v :: THash :: r => match p_sub k r with Ok f r' => Ok (FFix v false f) r' | e => e end
    | TIf :: r =>
        match p_sub k r with
        | Ok c (TThen :: r1) =>
            match p_sub k r1 with
            | Ok t (TElse :: r2) => match p_sub k r2 with Ok e r3 => Ok (FIte c t e) r3 | x => x end
            | Ok _ _ => Err
            | x => x
            end
        | Ok _ _ => Err
        | x => x
        end
    | _ => Err
    end
  end
(** [parse_formula_list] after the opening bracket: items separated by commas, optional trailing
    comma, consumes the closing bracket *)
with p_items (n : nat) (ts : list token) {struct n} : res (list form) :=
  match n with 0 => Fuel | S k =>
    match ts with
    | TCloseSquare :: r => Ok [] r
    | _ =>
        match p_sub k ts with
        | Ok f (TComma :: r) => match p_items k r with Ok fs r' => Ok (f :: fs) r' | Err => Err | Fuel => Fuel end
        | Ok f (TCloseSquare :: r) => Ok [f] r
        | Ok _ _ => Err
        | Err => Err
        | Fuel => Fuel
        end
    end
  end.

(** [parse_formula]: a sub-formula followed by exactly the end-of-input token *)
Definition parse_f (n : nat) (ts : list token) : res form :=
  match p_sub n ts with
  | Ok f (TEof :: _) => Ok f []
  | Ok _ _ => Err
  | e => e
  end.
Definition parse (ts : list token) : res form := parse_f (3 * length ts + 3) ts.
