(** A (fully parenthesising) un-parser: every syntax tree without embedded diagrams is the parse of a
    token list.  Together with C08 this makes the parser a bijection between sentences of the grammar and
    Subtree-free syntax trees up to bracketing: [parse (unparse f ++ [TEof]) = Ok f []]. *)
From Coq Require Import List NArith Lia.
Import ListNotations.
From Rsbdd Require Import Lang.Ast Lang.AstFacts Lang.Free Syntax.Token Syntax.Grammar Syntax.Parser Syntax.ParserComplete.

Definition tok_of_binop (op : binop) : token :=
  match op with
  | BAnd => TAnd | BOr => TOr | BXor => TXor | BNor => TNor | BNand => TNand
  | BImplies => TImplies | BImpliesInv => TImpliesInv | BIff => TIff
  end.
Definition tok_of_cop (op : cop) : token :=
  match op with Exactly => TEq | AtMost => TImpliesInv | AtLeast => TGeq | LessThan => TLt | MoreThan => TGt end.
Lemma binop_of_tok op : binop_of (tok_of_binop op) = Some op. Proof. destruct op; reflexivity. Qed.
Lemma cop_of_tok op : cop_of (tok_of_cop op) = Some op. Proof. destruct op; reflexivity. Qed.

Fixpoint unparse_vars (vs : list nat) : list token :=
  match vs with
  | [] => []
  | [v] => [TVar v]
  | v :: r => TVar v :: TComma :: unparse_vars r
  end.
Lemma unparse_vars_ok vs : Gvars (unparse_vars vs) vs.
Proof.
  induction vs as [|v r IH]; [constructor|]. destruct r as [|w r']; [constructor|].
  change (unparse_vars (v :: w :: r')) with (TVar v :: TComma :: unparse_vars (w :: r')). constructor. exact IH.
Qed.

(** items of a counting list, up to and including the closing bracket *)
Definition unparse_items (un : form -> list token) : list form -> list token :=
  fix go (l : list form) : list token :=
    match l with
    | [] => [TCloseSquare]
    | [f] => un f ++ [TCloseSquare]
    | f :: r => un f ++ TComma :: go r
    end.

Fixpoint unparse (f : form) : list token :=
  match f with
  | FFalse => [TFalse]
  | FTrue => [TTrue]
  | FRef => [TRefT]
  | FSub _ => [TRefT]                 (* no concrete syntax; excluded by [nofsub] *)
  | FVar v => [TVar v]
  | FNot g => TNot :: unparse g
  | FBin op a b => TOpenParen :: (unparse a ++ tok_of_binop op :: unparse b) ++ [TCloseParen]
  | FQuant QExists vs g => TOpenParen :: (TExists :: unparse_vars vs ++ THash :: unparse g) ++ [TCloseParen]
  | FQuant QForall vs g => TOpenParen :: (TForall :: unparse_vars vs ++ THash :: unparse g) ++ [TCloseParen]
  | FFix v true g => TOpenParen :: (TGFP :: TVar v :: THash :: unparse g) ++ [TCloseParen]
  | FFix v false g => TOpenParen :: (TLFP :: TVar v :: THash :: unparse g) ++ [TCloseParen]
  | FIte c t e => TOpenParen :: (TIf :: unparse c ++ TThen :: unparse t ++ TElse :: unparse e) ++ [TCloseParen]
  | FCountC op l n => TOpenSquare :: unparse_items unparse l ++ [tok_of_cop op; TNum n]
  | FCountV op l r => TOpenSquare :: unparse_items unparse l ++ tok_of_cop op :: TOpenSquare :: unparse_items unparse r
  end.

Lemma unparse_items_ok l :
  Forall (fun f => Gclosed (unparse f) f) l -> Gitems (unparse_items unparse l) l.
Proof.
  induction l as [|f r IH]; intros H; [constructor|].
  inversion H as [|? ? Hf Hr]; subst. destruct r as [|g r'].
  - cbn [unparse_items]. apply Gi_one. apply Gs_closed. exact Hf.
  - change (unparse_items unparse (f :: g :: r')) with (unparse f ++ TComma :: unparse_items unparse (g :: r')).
    apply Gi_cons; [apply Gs_closed; exact Hf | apply IH; exact Hr].
Qed.

(** every printed tree is a closed term of the grammar deriving exactly that tree *)
Theorem unparse_closed : forall f, nofsub f -> Gclosed (unparse f) f.
Proof.
  induction f as [| |v|g IH|q vs g IH|op fs n IH|op l rr IHl IHr|y i g IH|c t e IHc IHt IHe|op l rr IHl IHr|b0|] using form_ind';
    cbn [nofsub]; intros Hn.
  - constructor.
  - constructor.
  - constructor.
  - cbn [unparse]. apply Gc_not. exact (IH Hn).
  - destruct q; cbn [unparse]; apply Gc_paren; apply Gs_open.
    + apply Go_exists; [apply unparse_vars_ok | apply Gs_closed; exact (IH Hn)].
    + apply Go_forall; [apply unparse_vars_ok | apply Gs_closed; exact (IH Hn)].
  - apply nofsub_list in Hn. cbn [unparse]. apply Gc_countc; [|apply cop_of_tok].
    apply unparse_items_ok. rewrite Forall_forall in *. intros g Hg. exact (IH g Hg (Hn g Hg)).
  - destruct Hn as [Hl Hr]. apply nofsub_list in Hl. apply nofsub_list in Hr. cbn [unparse].
    apply Gc_countv; [|apply cop_of_tok|]; apply unparse_items_ok; rewrite Forall_forall in *; intros g Hg.
    + exact (IHl g Hg (Hl g Hg)).
    + exact (IHr g Hg (Hr g Hg)).
  - destruct i; cbn [unparse]; apply Gc_paren; apply Gs_open.
    + apply Go_gfp. apply Gs_closed. exact (IH Hn).
    + apply Go_lfp. apply Gs_closed. exact (IH Hn).
  - destruct Hn as (Hc & Ht & He). cbn [unparse]. apply Gc_paren, Gs_open.
    apply Go_ite; apply Gs_closed; auto.
  - destruct Hn as [Hl Hr]. cbn [unparse]. apply Gc_paren.
    apply Gs_bin; [exact (IHl Hl) | apply binop_of_tok | apply Gs_closed; exact (IHr Hr)].
  - destruct Hn.
  - constructor.
Qed.

Theorem unparse_sentence f : nofsub f -> G_formula (unparse f ++ [TEof]) f.
Proof. intros Hn. exists (unparse f). split; [reflexivity|]. apply Gs_closed. apply unparse_closed. exact Hn. Qed.

(** the parser inverts the printer *)
Theorem parse_unparse f : nofsub f -> parse (unparse f ++ [TEof]) = Ok f [].
Proof. intros Hn. apply C08_complete. apply unparse_sentence. exact Hn. Qed.

(** hence the parser is onto the Subtree-free syntax trees *)
Corollary parse_onto f : nofsub f -> exists ts, parse ts = Ok f [].
Proof. intros Hn. exists (unparse f ++ [TEof]). apply parse_unparse. exact Hn. Qed.

(** what the parser returns never contains an embedded diagram (Subtree nodes arise only during
    fixed-point evaluation) *)
Lemma grammar_nofsub :
  (forall s f, Gsub s f -> nofsub f) /\ (forall s f, Gclosed s f -> nofsub f) /\
  (forall s f, Gopen s f -> nofsub f) /\ (forall s l, Gitems s l -> Forall nofsub l).
Proof.
  apply G_mutind; intros; cbn [nofsub]; auto.
  - apply nofsub_list. assumption.
  - split; apply nofsub_list; assumption.
Qed.
Theorem parse_nofsub ts f : G_formula ts f -> nofsub f.
Proof. intros (s & _ & H). exact (proj1 grammar_nofsub s f H). Qed.
