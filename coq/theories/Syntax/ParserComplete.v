(** C08 (completeness): every sentence of the grammar is accepted, with its tree, for every
    sufficient fuel; hence the grammar is unambiguous. *)
From Coq Require Import List NArith Lia.
Import ListNotations.
From Rsbdd Require Import Lang.Ast Syntax.Token Syntax.Parser Syntax.Grammar Syntax.ParserSound.

Lemma p_vars_complete : forall s vs, Gvars s vs -> forall r, p_vars (s ++ THash :: r) = Ok vs (THash :: r).
Proof.
  induction 1 as [|v|v s vs Hg IH]; intros r; cbn [app p_vars]; auto.
  rewrite IH. reflexivity.
Qed.

(** first tokens: a sub-formula never starts with a closing bracket *)
Definition starts_ok (s : list token) : Prop :=
  match s with t :: _ => t <> TCloseSquare | [] => False end.
Lemma first_mut :
  (forall s f, Gsub s f -> starts_ok s) /\ (forall s f, Gclosed s f -> starts_ok s) /\
  (forall s f, Gopen s f -> starts_ok s) /\ (forall s fs, Gitems s fs -> True).
Proof.
  apply G_mutind; intros; cbn [starts_ok app]; auto; try discriminate.
  destruct s1; cbn in *; [contradiction|auto].
Qed.

Lemma complete_mut :
  (forall s f, Gsub s f -> forall rest n, nobin rest -> 3 * length s + 1 <= n -> p_sub n (s ++ rest) = Ok f rest) /\
  (forall s f, Gclosed s f -> forall rest n, 3 * length s <= n -> p_simple n (s ++ rest) = Ok f rest) /\
  (forall s f, Gopen s f -> forall rest n, nobin rest -> 3 * length s <= n -> p_simple n (s ++ rest) = Ok f rest) /\
  (forall s fs, Gitems s fs -> forall rest n, 3 * length s + 2 <= n -> p_items n (s ++ rest) = Ok fs rest).
Proof.
  apply G_mutind.
  - (* Gs_closed *)
    intros s f _ IH rest n Hno Hn. destruct n as [|n]; [lia|]. cbn [p_sub]. rewrite IH by lia.
    destruct rest as [|t r]; auto. cbn in Hno. rewrite Hno. reflexivity.
  - (* Gs_bin *)
    intros s1 f1 t op s2 f2 _ IH1 Hop _ IH2 rest n Hno Hn. rewrite app_length in Hn. cbn [length] in Hn.
    destruct n as [|n]; [lia|]. cbn [p_sub]. rewrite <- app_assoc. cbn [app].
    rewrite IH1 by lia. rewrite Hop. rewrite IH2; auto. lia.
  - (* Gs_open *)
    intros s f _ IH rest n Hno Hn. destruct n as [|n]; [lia|]. cbn [p_sub]. rewrite IH by (auto; lia).
    destruct rest as [|t r]; auto. cbn in Hno. rewrite Hno. reflexivity.
  - (* Gc_paren *)
    intros s f _ IH rest n Hn. cbn [length] in Hn. rewrite app_length in Hn. cbn [length] in Hn.
    destruct n as [|n]; [lia|]. cbn [p_simple app]. rewrite <- app_assoc. cbn [app].
    rewrite IH; [reflexivity|cbn; auto|lia].
  - (* Gc_countc *)
    intros s l t op c _ IH Hop rest n Hn. cbn [length] in Hn. rewrite app_length in Hn. cbn [length] in Hn.
    destruct n as [|n]; [lia|]. cbn [p_simple app]. rewrite <- app_assoc. cbn [app].
    rewrite IH by lia. rewrite Hop. reflexivity.
  - (* Gc_countv *)
    intros s1 l t op s2 r _ IH1 Hop _ IH2 rest n Hn. cbn [length] in Hn. rewrite app_length in Hn. cbn [length] in Hn.
    destruct n as [|n]; [lia|]. cbn [p_simple app]. rewrite <- app_assoc. cbn [app].
    rewrite IH1 by lia. rewrite Hop. rewrite IH2 by lia. reflexivity.
  - intros rest n Hn. destruct n as [|n]; [cbn in Hn; lia|]. reflexivity.
  - intros rest n Hn. destruct n as [|n]; [cbn in Hn; lia|]. reflexivity.
  - intros rest n Hn. destruct n as [|n]; [cbn in Hn; lia|]. reflexivity.
  - intros v rest n Hn. destruct n as [|n]; [cbn in Hn; lia|]. reflexivity.
  - (* Gc_not *)
    intros s f _ IH rest n Hn. cbn [length] in Hn. destruct n as [|n]; [lia|]. cbn [p_simple app].
    rewrite IH by lia. reflexivity.
  - (* Go_exists *)
    intros sv vs s f Hv _ IH rest n Hno Hn. cbn [length] in Hn. rewrite app_length in Hn. cbn [length] in Hn.
    destruct n as [|n]; [lia|]. cbn [p_simple app]. rewrite <- app_assoc. cbn [app].
    rewrite (p_vars_complete _ _ Hv). rewrite IH; auto. lia.
  - (* Go_forall *)
    intros sv vs s f Hv _ IH rest n Hno Hn. cbn [length] in Hn. rewrite app_length in Hn. cbn [length] in Hn.
    destruct n as [|n]; [lia|]. cbn [p_simple app]. rewrite <- app_assoc. cbn [app].
    rewrite (p_vars_complete _ _ Hv). rewrite IH; auto. lia.
  - (* Go_gfp *)
    intros v s f _ IH rest n Hno Hn. cbn [length] in Hn. destruct n as [|n]; [lia|]. cbn [p_simple app].
    rewrite IH; auto. lia.
  - (* Go_lfp *)
    intros v s f _ IH rest n Hno Hn. cbn [length] in Hn. destruct n as [|n]; [lia|]. cbn [p_simple app].
    rewrite IH; auto. lia.
  - (* Go_ite *)
    intros s1 c s2 t s3 e _ IH1 _ IH2 _ IH3 rest n Hno Hn. cbn [length] in Hn. rewrite !app_length in Hn. cbn [length] in Hn.
    rewrite app_length in Hn. cbn [length] in Hn.
    destruct n as [|n]; [lia|]. cbn [p_simple app]. rewrite <- !app_assoc. cbn [app]. rewrite <- !app_assoc. cbn [app].
    rewrite IH1; [|cbn; auto|lia]. rewrite IH2; [|cbn; auto|lia]. rewrite IH3; auto. lia.
  - (* Go_not *)
    intros s f _ IH rest n Hno Hn. cbn [length] in Hn. destruct n as [|n]; [lia|]. cbn [p_simple app].
    rewrite IH; auto. lia.
  - (* Gi_nil *)
    intros rest n Hn. destruct n as [|n]; [cbn in Hn; lia|]. reflexivity.
  - (* Gi_one *)
    intros s f Hg IH rest n Hn. rewrite app_length in Hn. cbn [length] in Hn.
    destruct n as [|n]; [lia|]. cbn [p_items]. rewrite <- app_assoc. cbn [app].
    pose proof (proj1 first_mut s f Hg) as Hst.
    destruct s as [|t s']; [contradiction|]. cbn [starts_ok] in Hst. cbn [app].
    assert (E : p_sub n (t :: s' ++ TCloseSquare :: rest) = Ok f (TCloseSquare :: rest)).
    { apply (IH (TCloseSquare :: rest) n); [cbn; auto|cbn [length] in *; lia]. }
    destruct t; try congruence; rewrite E; reflexivity.
  - (* Gi_cons *)
    intros s f s' fs Hg IH1 _ IH2 rest n Hn. rewrite app_length in Hn. cbn [length] in Hn.
    destruct n as [|n]; [lia|]. cbn [p_items]. rewrite <- app_assoc. cbn [app].
    pose proof (proj1 first_mut s f Hg) as Hst.
    destruct s as [|t s0]; [contradiction|]. cbn [starts_ok] in Hst. cbn [app].
    assert (E : p_sub n (t :: s0 ++ TComma :: s' ++ rest) = Ok f (TComma :: s' ++ rest)).
    { apply (IH1 (TComma :: s' ++ rest) n); [cbn; auto|cbn [length] in *; lia]. }
    destruct t; try congruence; rewrite E, IH2 by (cbn [length] in *; lia); reflexivity.
Qed.

Theorem C08_complete ts f : G_formula ts f -> parse ts = Ok f [].
Proof.
  intros (s & -> & Hg). unfold parse, parse_f.
  rewrite (proj1 complete_mut s f Hg [TEof]); [reflexivity|cbn; auto|].
  rewrite app_length. cbn [length]. lia.
Qed.

Corollary C08_unique ts f1 f2 : G_formula ts f1 -> G_formula ts f2 -> f1 = f2.
Proof. intros H1 H2. apply C08_complete in H1, H2. congruence. Qed.

Theorem C08 ts f : eof_last ts -> (parse ts = Ok f [] <-> G_formula ts f).
Proof. intros He. split; [apply C08_sound_lexed; auto|apply C08_complete]. Qed.
Print Assumptions C08.
