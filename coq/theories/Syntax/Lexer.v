(** The tokenizer (TOKENIZER regex + [tokenize], src/parser.rs:18-20, 703-809) as a hand-written
    scanner over Unicode code points.  Code points >= 128 are classified by a parameter (the
    real `regex` crate's \w / \d), ASCII by the table below.  After the repair of D2 an
    unparsable number is an error, not a panic.  Definitions only. *)
From Coq Require Import List NArith Bool.
Import ListNotations.
Local Open Scope N_scope.

Inductive ucls : Type := UWord | UDigit | UOther.          (* \w-and-not-\d, \d, neither *)

Section Lex.
  Variable uc : N -> ucls.

  Definition is_digit (c : N) : bool :=
    if c <? 128 then (48 <=? c) && (c <=? 57) else match uc c with UDigit => true | _ => false end.
  (** [\w'] : letters, digits, underscore, apostrophe (and the non-ASCII word characters) *)
  Definition is_word (c : N) : bool :=
    if c <? 128 then
      ((48 <=? c) && (c <=? 57)) || ((65 <=? c) && (c <=? 90)) || ((97 <=? c) && (c <=? 122)) || (c =? 95) || (c =? 39)
    else match uc c with UOther => false | _ => true end.

  (** raw lexemes; symbols are already mapped through the alias table *)
  Inductive sym : Type :=
  | SAnd | SOr | SXor | SNot | SImplies | SImpliesInv | SIff | SHash | SEq | SLt | SGt | SGeq
  | SOpenParen | SCloseParen | SOpenSquare | SCloseSquare | SComma.
  Inductive rtok : Type := RSym (s : sym) | RNumber (ds : list N) | RRef (w : list N) | RIdent (w : list N).

  (** the symbol alternation [!|&|=>|-|<=>|<=|\||\^|#|\*|\+|>=|=|>|<|\[|\]|,|\(|\)], longest first *)
  Definition sym1 (c : N) : option sym :=
    if (c =? 33) || (c =? 45) then Some SNot
    else if (c =? 38) || (c =? 42) then Some SAnd
    else if (c =? 124) || (c =? 43) then Some SOr
    else if c =? 94 then Some SXor
    else if c =? 35 then Some SHash
    else if c =? 91 then Some SOpenSquare
    else if c =? 93 then Some SCloseSquare
    else if c =? 44 then Some SComma
    else if c =? 40 then Some SOpenParen
    else if c =? 41 then Some SCloseParen
    else None.
  Definition scan_symbol (l : list N) : option (sym * list N) :=
    match l with
    | [] => None
    | c :: r =>
        if c =? 60 then                                   (* <=>  <=  < *)
          match r with
          | d :: r2 =>
              if d =? 61 then
                match r2 with
                | e :: r3 => if e =? 62 then Some (SIff, r3) else Some (SImpliesInv, r2)
                | [] => Some (SImpliesInv, r2)
                end
              else Some (SLt, r)
          | [] => Some (SLt, r)
          end
        else if c =? 61 then                              (* =>  = *)
          match r with
          | d :: r2 => if d =? 62 then Some (SImplies, r2) else Some (SEq, r)
          | [] => Some (SEq, r)
          end
        else if c =? 62 then                              (* >=  > *)
          match r with
          | d :: r2 => if d =? 61 then Some (SGeq, r2) else Some (SGt, r)
          | [] => Some (SGt, r)
          end
        else match sym1 c with Some s => Some (s, r) | None => None end
    end.

  Fixpoint span (p : N -> bool) (l : list N) : list N * list N :=
    match l with
    | c :: r => if p c then let (a, b) := span p r in (c :: a, b) else ([], l)
    | [] => ([], [])
    end.

  (** the rest after the closing double quote of a comment, if there is one *)
  Fixpoint after_quote (l : list N) : option (list N) :=
    match l with [] => None | c :: r => if c =? 34 then Some r else after_quote r end.

  Fixpoint scan (fuel : nat) (l : list N) : list rtok :=
    match fuel with O => [] | S k =>
      match l with
      | [] => []
      | c :: r =>
          match scan_symbol l with
          | Some (s, r') => RSym s :: scan k r'
          | None =>
              if is_digit c then let (ds, r') := span is_digit l in RNumber ds :: scan k r'
              else if c =? 123 then                                  (* { *)
                match span is_word r with
                | (w, 125 :: r') => match w with [] => scan k r | _ => RRef w :: scan k r' end
                | _ => scan k r
                end
              else if is_word c then let (w, r') := span is_word l in RIdent w :: scan k r'
              else if c =? 34 then                                    (* double quote *)
                match after_quote r with Some r' => scan k r' | None => scan k r end
              else scan k r
          end
      end
    end.
  Definition lex_raw (l : list N) : list rtok := scan (S (length l)) l.
End Lex.
