(** The grammar of the language as an unambiguous inductive relation over exact token spans.
    closed/open terms encode: binary operators right-associative without precedence, negation
    applies to the next simple term, bodies of quantifiers / fixed points / if-then-else extend
    as far right as possible, lists with optional trailing comma. *)
From Coq Require Import List NArith.
Import ListNotations.
From Rsbdd Require Import Lang.Ast Syntax.Token.

Inductive Gvars : list token -> list nat -> Prop :=
| Gv_nil : Gvars [] []
| Gv_one v : Gvars [TVar v] [v]
| Gv_cons v s vs : Gvars s vs -> Gvars (TVar v :: TComma :: s) (v :: vs).

Inductive Gsub : list token -> form -> Prop :=
| Gs_closed s f : Gclosed s f -> Gsub s f
| Gs_bin s1 f1 t op s2 f2 : Gclosed s1 f1 -> binop_of t = Some op -> Gsub s2 f2 -> Gsub (s1 ++ t :: s2) (FBin op f1 f2)
| Gs_open s f : Gopen s f -> Gsub s f
with Gclosed : list token -> form -> Prop :=
| Gc_paren s f : Gsub s f -> Gclosed (TOpenParen :: s ++ [TCloseParen]) f
| Gc_countc s l t op c : Gitems s l -> cop_of t = Some op -> Gclosed (TOpenSquare :: s ++ [t; TNum c]) (FCountC op l c)
| Gc_countv s1 l t op s2 r : Gitems s1 l -> cop_of t = Some op -> Gitems s2 r ->
    Gclosed (TOpenSquare :: s1 ++ t :: TOpenSquare :: s2) (FCountV op l r)
| Gc_false : Gclosed [TFalse] FFalse
| Gc_true : Gclosed [TTrue] FTrue
| Gc_ref : Gclosed [TRefT] FRef
| Gc_var v : Gclosed [TVar v] (FVar v)
| Gc_not s f : Gclosed s f -> Gclosed (TNot :: s) (FNot f)
with Gopen : list token -> form -> Prop :=
| Go_exists sv vs s f : Gvars sv vs -> Gsub s f -> Gopen (TExists :: sv ++ THash :: s) (FQuant QExists vs f)
| Go_forall sv vs s f : Gvars sv vs -> Gsub s f -> Gopen (TForall :: sv ++ THash :: s) (FQuant QForall vs f)
| Go_gfp v s f : Gsub s f -> Gopen (TGFP :: TVar v :: THash :: s) (FFix v true f)
| Go_lfp v s f : Gsub s f -> Gopen (TLFP :: TVar v :: THash :: s) (FFix v false f)
| Go_ite s1 c s2 t s3 e : Gsub s1 c -> Gsub s2 t -> Gsub s3 e ->
    Gopen (TIf :: s1 ++ TThen :: s2 ++ TElse :: s3) (FIte c t e)
| Go_not s f : Gopen s f -> Gopen (TNot :: s) (FNot f)
(** list items up to and including the closing bracket *)
with Gitems : list token -> list form -> Prop :=
| Gi_nil : Gitems [TCloseSquare] []
| Gi_one s f : Gsub s f -> Gitems (s ++ [TCloseSquare]) [f]
| Gi_cons s f s' fs : Gsub s f -> Gitems s' fs -> Gitems (s ++ TComma :: s') (f :: fs).

Scheme Gsub_mut := Induction for Gsub Sort Prop
with Gclosed_mut := Induction for Gclosed Sort Prop
with Gopen_mut := Induction for Gopen Sort Prop
with Gitems_mut := Induction for Gitems Sort Prop.
Combined Scheme G_mutind from Gsub_mut, Gclosed_mut, Gopen_mut, Gitems_mut.

(** a sentence: a sub-formula followed by the end-of-input token *)
Definition G_formula (ts : list token) (f : form) : Prop := exists s, ts = s ++ [TEof] /\ Gsub s f.
