(** C08 (soundness): whatever the parser accepts is a sentence of the grammar, with that tree. *)
From Coq Require Import List NArith Lia.
Import ListNotations.
From Rsbdd Require Import Lang.Ast Syntax.Token Syntax.Parser Syntax.Grammar.

Definition nobin (ts : list token) : Prop := match ts with t :: _ => binop_of t = None | [] => True end.

Lemma p_vars_sound : forall ts vs rest, p_vars ts = Ok vs rest -> exists s, ts = s ++ rest /\ Gvars s vs.
Proof.
  fix IH 1. intros ts vs rest H. destruct ts as [|t ts']; cbn [p_vars] in H; [discriminate|].
  destruct t; try discriminate.
  - (* TVar *) destruct ts' as [|t2 ts2].
    + inversion H; subst. exists [TVar v]. split; auto. constructor.
    + destruct t2; try (inversion H; subst; exists [TVar v]; split; [reflexivity|constructor]).
      (* comma *)
      destruct (p_vars ts2) as [vs' r'| |] eqn:E; try discriminate. inversion H; subst.
      apply IH in E. destruct E as (s & Hs & Hg). exists (TVar v :: TComma :: s). subst ts2. split; auto. constructor; auto.
  - (* THash *) inversion H; subst. exists []. split; auto. constructor.
Qed.

Lemma sound_mut : forall n,
  (forall ts f rest, p_sub n ts = Ok f rest -> exists s, ts = s ++ rest /\ Gsub s f /\ nobin rest) /\
  (forall ts f rest, p_simple n ts = Ok f rest -> exists s, ts = s ++ rest /\ (Gclosed s f \/ (Gopen s f /\ nobin rest))) /\
  (forall ts fs rest, p_items n ts = Ok fs rest -> exists s, ts = s ++ rest /\ Gitems s fs).
Proof.
  induction n as [|n (IHsub & IHsim & IHit)]; [repeat split; intros; discriminate|].
  split; [|split].
  - (* p_sub *)
    intros ts f rest H. cbn [p_sub] in H.
    destruct (p_simple n ts) as [l r1| |] eqn:E; try discriminate.
    apply IHsim in E. destruct E as (s1 & Hts & Hl).
    assert (Hdone : forall (Hnb : nobin r1), Ok l r1 = Ok f rest -> exists s, ts = s ++ rest /\ Gsub s f /\ nobin rest).
    { intros Hnb Heq. inversion Heq; subst. exists s1. split; auto. split; auto.
      destruct Hl as [Hc|[Ho _]]; [apply Gs_closed|apply Gs_open]; auto. }
    destruct r1 as [|t r1']; [apply Hdone; cbn; auto; exact H|].
    destruct (binop_of t) as [op|] eqn:Eb; [|apply Hdone; cbn; auto].
    destruct Hl as [Hc|[_ Hno]]; [|cbn in Hno; congruence].
    destruct (p_sub n r1') as [r r2| |] eqn:E2; try discriminate.
    inversion H; subst. apply IHsub in E2. destruct E2 as (s2 & Hr & Hg & Hno).
    exists (s1 ++ t :: s2). subst r1'. rewrite <- app_assoc. cbn [app]. split; auto. split; auto.
    eapply Gs_bin; eauto.
  - (* p_simple *)
    intros ts f rest H. cbn [p_simple] in H.
    destruct ts as [|t ts']; try discriminate.
    destruct t; try discriminate.
    + (* TVar *) inversion H; subst. exists [TVar v]. split; auto. left. constructor.
    + (* TRefT *) inversion H; subst. exists [TRefT]. split; auto. left. constructor.
    + (* TNot *)
      destruct (p_simple n ts') as [x r1| |] eqn:E; try discriminate. inversion H; subst.
      apply IHsim in E. destruct E as (s & Hs & Hg). exists (TNot :: s). subst ts'. split; auto.
      destruct Hg as [Hc|[Ho Hno]]; [left|right; split; auto]; constructor; auto.
    + (* TIf *)
      destruct (p_sub n ts') as [c r1| |] eqn:E1; try discriminate.
      destruct r1 as [|t1 r1']; try discriminate. destruct t1; try discriminate.
      destruct (p_sub n r1') as [th r2| |] eqn:E2; try discriminate.
      destruct r2 as [|t2 r2']; try discriminate. destruct t2; try discriminate.
      destruct (p_sub n r2') as [el r3| |] eqn:E3; try discriminate. inversion H; subst.
      apply IHsub in E1. destruct E1 as (s1 & H1 & G1 & _).
      apply IHsub in E2. destruct E2 as (s2 & H2 & G2 & _).
      apply IHsub in E3. destruct E3 as (s3 & H3 & G3 & N3).
      exists (TIf :: s1 ++ TThen :: s2 ++ TElse :: s3). subst ts' r1' r2'.
      split; [cbn [app]; rewrite <- !app_assoc; cbn [app]; rewrite <- !app_assoc; reflexivity|].
      right. split; auto. constructor; auto.
    + (* TExists *)
      destruct (p_vars ts') as [vs r1| |] eqn:E1; try discriminate.
      destruct r1 as [|t1 r1']; try discriminate. destruct t1; try discriminate.
      destruct (p_sub n r1') as [b r2| |] eqn:E2; try discriminate. inversion H; subst.
      apply p_vars_sound in E1. destruct E1 as (sv & Hv & Gv).
      apply IHsub in E2. destruct E2 as (s & Hs & G & Nb).
      exists (TExists :: sv ++ THash :: s). subst ts' r1'. split; [cbn [app]; rewrite <- app_assoc; reflexivity|].
      right. split; auto. constructor; auto.
    + (* TForall *)
      destruct (p_vars ts') as [vs r1| |] eqn:E1; try discriminate.
      destruct r1 as [|t1 r1']; try discriminate. destruct t1; try discriminate.
      destruct (p_sub n r1') as [b r2| |] eqn:E2; try discriminate. inversion H; subst.
      apply p_vars_sound in E1. destruct E1 as (sv & Hv & Gv).
      apply IHsub in E2. destruct E2 as (s & Hs & G & Nb).
      exists (TForall :: sv ++ THash :: s). subst ts' r1'. split; [cbn [app]; rewrite <- app_assoc; reflexivity|].
      right. split; auto. constructor; auto.
    + (* TOpenParen *)
      destruct (p_sub n ts') as [x r1| |] eqn:E; try discriminate.
      destruct r1 as [|t1 r1']; try discriminate. destruct t1; try discriminate. inversion H; subst.
      apply IHsub in E. destruct E as (s & Hs & Hg & _). exists (TOpenParen :: s ++ [TCloseParen]). subst ts'.
      split; [cbn [app]; rewrite <- app_assoc; reflexivity|]. left. constructor; auto.
    + (* TOpenSquare *)
      destruct (p_items n ts') as [l r1| |] eqn:E1; try discriminate.
      destruct r1 as [|t1 r1']; try discriminate.
      destruct (cop_of t1) as [op|] eqn:Ec; try discriminate.
      apply IHit in E1. destruct E1 as (s1 & H1 & G1).
      destruct r1' as [|t2 r2]; try discriminate.
      destruct t2; try discriminate.
      * (* TNum *) inversion H; subst. exists (TOpenSquare :: s1 ++ [t1; TNum n0]).
        split; [cbn [app]; rewrite <- app_assoc; reflexivity|]. left. econstructor; eauto.
      * (* TOpenSquare *)
        destruct (p_items n r2) as [rr r3| |] eqn:E2; try discriminate. inversion H; subst.
        apply IHit in E2. destruct E2 as (s2 & H2 & G2).
        exists (TOpenSquare :: s1 ++ t1 :: TOpenSquare :: s2). subst r2.
        split; [cbn [app]; rewrite <- app_assoc; reflexivity|]. left. econstructor; eauto.
    + (* TFalse *) inversion H; subst. exists [TFalse]. split; auto. left. constructor.
    + (* TTrue *) inversion H; subst. exists [TTrue]. split; auto. left. constructor.
    + (* TLFP *)
      destruct ts' as [|t1 ts1]; try discriminate. destruct t1; try discriminate.
      destruct ts1 as [|t2 ts2]; try discriminate. destruct t2; try discriminate.
      destruct (p_sub n ts2) as [b r2| |] eqn:E2; try discriminate. inversion H; subst.
      apply IHsub in E2. destruct E2 as (s & Hs & G & Nb).
      exists (TLFP :: TVar v :: THash :: s). subst ts2. split; auto. right. split; auto. constructor; auto.
    + (* TGFP *)
      destruct ts' as [|t1 ts1]; try discriminate. destruct t1; try discriminate.
      destruct ts1 as [|t2 ts2]; try discriminate. destruct t2; try discriminate.
      destruct (p_sub n ts2) as [b r2| |] eqn:E2; try discriminate. inversion H; subst.
      apply IHsub in E2. destruct E2 as (s & Hs & G & Nb).
      exists (TGFP :: TVar v :: THash :: s). subst ts2. split; auto. right. split; auto. constructor; auto.
  - (* p_items *)
    intros ts fs rest H. cbn [p_items] in H.
    assert (Hgen : match p_sub n ts with
        | Ok f (TComma :: r) => match p_items n r with Ok fs r' => Ok (f :: fs) r' | Err => Err | Fuel => Fuel end
        | Ok f (TCloseSquare :: r) => Ok [f] r
        | Ok _ _ => Err | Err => Err | Fuel => Fuel end = Ok fs rest ->
        exists s, ts = s ++ rest /\ Gitems s fs).
    { intros H'. destruct (p_sub n ts) as [f r1| |] eqn:E1; try discriminate.
      destruct r1 as [|t1 r1']; try discriminate. destruct t1; try discriminate.
      - (* ] *) inversion H'; subst. apply IHsub in E1. destruct E1 as (s & Hs & G & _).
        exists (s ++ [TCloseSquare]). split; [rewrite <- app_assoc; exact Hs|]. constructor; auto.
      - (* , *) destruct (p_items n r1') as [fs' r2| |] eqn:E2; try discriminate. inversion H'; subst.
        apply IHsub in E1. destruct E1 as (s & Hs & G & _). apply IHit in E2. destruct E2 as (s' & Hs' & G').
        exists (s ++ TComma :: s'). subst r1'. split; [rewrite <- app_assoc; exact Hs|]. constructor; auto. }
    destruct ts as [|t ts']; [apply Hgen; exact H|].
    destruct t; try (apply Hgen; exact H).
    inversion H; subst. exists [TCloseSquare]. split; auto. constructor.
Qed.

(** The source's [parse_formula] expects [Eof] and ignores whatever follows it; the lexer emits
    exactly one [Eof], as the last token ([eof_last]). *)
Definition eof_last (ts : list token) : Prop := forall s r, ts = s ++ TEof :: r -> r = [].

Theorem C08_sound n ts f : parse_f n ts = Ok f [] -> exists s r, ts = s ++ TEof :: r /\ Gsub s f.
Proof.
  unfold parse_f. destruct (p_sub n ts) as [x r| |] eqn:E; try discriminate.
  destruct r as [|t r]; try discriminate. destruct t; try discriminate.
  intros H; inversion H; subst. apply (proj1 (sound_mut n)) in E. destruct E as (s & Hs & Hg & _).
  exists s, r. auto.
Qed.

Corollary C08_sound_lexed n ts f : eof_last ts -> parse_f n ts = Ok f [] -> G_formula ts f.
Proof.
  intros He H. destruct (C08_sound n ts f H) as (s & r & Hs & Hg). rewrite (He s r Hs) in Hs. exists s. auto.
Qed.
Print Assumptions C08_sound_lexed.
