(** C08 (lexical half): the scanner produces exactly the maximal-munch tokenisation. *)
From Coq Require Import List NArith Bool Lia.
Import ListNotations.
From Rsbdd Require Import Syntax.Lexer.
Local Open Scope N_scope.

Section Spec.
  Variable uc : N -> ucls.
  Notation is_digit := (is_digit uc).
  Notation is_word := (is_word uc).

  (** lexeme classes *)
  Definition sym_string (s : sym) (w : list N) : Prop :=
    match s with
    | SIff => w = [60; 61; 62] | SImpliesInv => w = [60; 61] | SLt => w = [60]
    | SImplies => w = [61; 62] | SEq => w = [61] | SGeq => w = [62; 61] | SGt => w = [62]
    | SNot => w = [33] \/ w = [45] | SAnd => w = [38] \/ w = [42] | SOr => w = [124] \/ w = [43]
    | SXor => w = [94] | SHash => w = [35] | SOpenSquare => w = [91] | SCloseSquare => w = [93]
    | SComma => w = [44] | SOpenParen => w = [40] | SCloseParen => w = [41]
    end.
  Definition all_b (p : N -> bool) (w : list N) : Prop := Forall (fun c => p c = true) w.

  Inductive lexeme : list N -> rtok -> Prop :=
  | L_sym s w : sym_string s w -> lexeme w (RSym s)
  | L_num w : w <> [] -> all_b is_digit w -> lexeme w (RNumber w)
  | L_ref w : w <> [] -> all_b is_word w -> lexeme (123 :: w ++ [125]) (RRef w)
  | L_ident c w : is_word c = true -> is_digit c = false -> all_b is_word w -> lexeme (c :: w) (RIdent (c :: w)).

  Definition prefix (p l : list N) : Prop := exists r, l = p ++ r.
  (** no strictly longer prefix of [l] is a lexeme *)
  Definition maximal (w l : list N) : Prop :=
    forall w' t', prefix w' l -> lexeme w' t' -> (length w' <= length w)%nat.
  Definition comment (w : list N) : Prop :=
    exists body, w = 34 :: body ++ [34] /\ Forall (fun c => c <> 34) body.

  (** the tokenisation relation: leftmost, longest, comments and stray characters skipped *)
  Inductive Lexes : list N -> list rtok -> Prop :=
  | Lx_nil : Lexes [] []
  | Lx_tok w t r ts : lexeme w t -> maximal w (w ++ r) -> Lexes r ts -> Lexes (w ++ r) (t :: ts)
  | Lx_comment w r ts : comment w -> (forall w' t', prefix w' (w ++ r) -> ~ lexeme w' t') -> Lexes r ts -> Lexes (w ++ r) ts
  | Lx_skip c r ts : (forall w' t', prefix w' (c :: r) -> ~ lexeme w' t') ->
      (forall w', prefix w' (c :: r) -> ~ comment w') -> Lexes r ts -> Lexes (c :: r) ts.

  (** ---- properties of [span] ---- *)
  Lemma span_spec p : forall l a b, span p l = (a, b) ->
    l = a ++ b /\ all_b p a /\ (match b with c :: _ => p c = false | [] => True end).
  Proof.
    induction l as [|c r IH]; intros a b H; cbn [span] in H.
    - inversion H; subst. repeat split; constructor.
    - destruct (p c) eqn:E.
      + destruct (span p r) as [a' b'] eqn:Es. inversion H; subst.
        destruct (IH a' b eq_refl) as (H1 & H2 & H3). subst r. repeat split; auto. constructor; auto.
      + inversion H; subst. repeat split; [constructor|exact E].
  Qed.

  Lemma span_length p l a b : span p l = (a, b) -> (length b <= length l)%nat.
  Proof. intros H. destruct (span_spec p l a b H) as (-> & _ & _). rewrite app_length. lia. Qed.

  Lemma after_quote_spec : forall l r, after_quote l = Some r ->
    exists body, l = body ++ 34 :: r /\ Forall (fun c => c <> 34) body.
  Proof.
    induction l as [|c l IH]; intros r H; cbn [after_quote] in H; [discriminate|].
    destruct (N.eqb_spec c 34).
    - inversion H; subst. exists []. split; auto.
    - destruct (IH r H) as (body & -> & Hb). exists (c :: body). split; auto.
  Qed.
  Lemma after_quote_none : forall l, after_quote l = None -> Forall (fun c => c <> 34) l.
  Proof.
    induction l as [|c l IH]; intros H; cbn [after_quote] in H; [constructor|].
    destruct (N.eqb_spec c 34); [discriminate|]. constructor; auto.
  Qed.

  (** ---- first characters decide the class ---- *)
  Definition sym_char (c : N) : bool :=
    (c =? 60) || (c =? 61) || (c =? 62) || match sym1 c with Some _ => true | None => false end.

  Lemma sym_char_cases c : sym_char c = true ->
    In c [60; 61; 62; 33; 45; 38; 42; 124; 43; 94; 35; 91; 93; 44; 40; 41].
  Proof.
    unfold sym_char, sym1.
    destruct (N.eqb_spec c 60) as [->|?]; [intros _; cbn [In]; tauto|].
    destruct (N.eqb_spec c 61) as [->|?]; [intros _; cbn [In]; tauto|].
    destruct (N.eqb_spec c 62) as [->|?]; [intros _; cbn [In]; tauto|].
    destruct (N.eqb_spec c 33) as [->|?]; [intros _; cbn [In]; tauto|].
    destruct (N.eqb_spec c 45) as [->|?]; [intros _; cbn [In]; tauto|].
    destruct (N.eqb_spec c 38) as [->|?]; [intros _; cbn [In]; tauto|].
    destruct (N.eqb_spec c 42) as [->|?]; [intros _; cbn [In]; tauto|].
    destruct (N.eqb_spec c 124) as [->|?]; [intros _; cbn [In]; tauto|].
    destruct (N.eqb_spec c 43) as [->|?]; [intros _; cbn [In]; tauto|].
    destruct (N.eqb_spec c 94) as [->|?]; [intros _; cbn [In]; tauto|].
    destruct (N.eqb_spec c 35) as [->|?]; [intros _; cbn [In]; tauto|].
    destruct (N.eqb_spec c 91) as [->|?]; [intros _; cbn [In]; tauto|].
    destruct (N.eqb_spec c 93) as [->|?]; [intros _; cbn [In]; tauto|].
    destruct (N.eqb_spec c 44) as [->|?]; [intros _; cbn [In]; tauto|].
    destruct (N.eqb_spec c 40) as [->|?]; [intros _; cbn [In]; tauto|].
    destruct (N.eqb_spec c 41) as [->|?]; [intros _; cbn [In]; tauto|].
    cbn. discriminate.
  Qed.

  Lemma sym_char_class c : sym_char c = true ->
    is_digit c = false /\ is_word c = false /\ c <> 123 /\ c <> 34.
  Proof.
    intros H. apply sym_char_cases in H. cbn [In] in H.
    repeat (destruct H as [H|H]; [subst c; repeat split; try reflexivity; discriminate|]). destruct H.
  Qed.

  Lemma sym_string_first s c w : sym_string s (c :: w) -> sym_char c = true.
  Proof.
    destruct s; cbn [sym_string]; intros H; try (destruct H as [H|H]); inversion H; subst; reflexivity.
  Qed.

  Lemma lexeme_first c w t : lexeme (c :: w) t ->
    sym_char c = true \/ is_digit c = true \/ c = 123 \/ (is_word c = true /\ is_digit c = false).
  Proof.
    intros H. inversion H; subst.
    - left. eapply sym_string_first; eauto.
    - right; left. match goal with H : all_b _ (c :: w) |- _ => inversion H; auto end.
    - right; right; left. reflexivity.
    - right; right; right. auto.
  Qed.

  Lemma lexeme_nonempty w t : lexeme w t -> w <> [].
  Proof.
    intros H. inversion H; subst; auto; try discriminate.
    destruct s; cbn [sym_string] in *; try (match goal with H : _ \/ _ |- _ => destruct H end); subst; discriminate.
  Qed.

  (** a run that is a prefix of [a ++ b], where [b] does not continue the run, is no longer than [a] *)
  Lemma run_prefix p : forall a b w, all_b p w -> all_b p a -> (match b with c :: _ => p c = false | [] => True end) ->
    prefix w (a ++ b) -> (length w <= length a)%nat.
  Proof.
    induction a as [|x a IH]; intros b w Hw Ha Hb (r & Hr); cbn [app] in Hr.
    - destruct w as [|y w]; [cbn; lia|]. destruct b as [|c b]; [discriminate|]. inversion Hr; subst.
      inversion Hw; subst. congruence.
    - destruct w as [|y w]; [cbn; lia|]. inversion Hr; subst. cbn [length].
      inversion Hw as [|? ? Hy Hw']; subst. inversion Ha as [|? ? Hx Ha']; subst.
      match goal with H : a ++ b = w ++ r |- _ => specialize (IH b w Hw' Ha' Hb (ex_intro _ r H)) end. lia.
  Qed.

  (** ---- the symbol alternation is longest-match ---- *)
  Ltac max_sym :=
    let s' := fresh "s'" in let w' := fresh "w'" in let rr := fresh "rr" in let Hrr := fresh "Hrr" in let Hs' := fresh "Hs'" in
    intros s' w' (rr & Hrr) Hs'; destruct s'; cbn [sym_string] in Hs'; try (destruct Hs' as [Hs'|Hs']);
    subst w'; cbn [app] in Hrr; inversion Hrr; subst; cbn [length]; try lia; try congruence.

  Lemma sym1_string c s : sym1 c = Some s -> sym_string s [c] /\ c <> 60 /\ c <> 61 /\ c <> 62.
  Proof.
    unfold sym1.
    destruct (N.eqb_spec c 33) as [->|?]; [intros H; inversion H; subst; cbn; repeat split; auto; discriminate|].
    destruct (N.eqb_spec c 45) as [->|?]; [intros H; inversion H; subst; cbn; repeat split; auto; discriminate|].
    destruct (N.eqb_spec c 38) as [->|?]; [intros H; inversion H; subst; cbn; repeat split; auto; discriminate|].
    destruct (N.eqb_spec c 42) as [->|?]; [intros H; inversion H; subst; cbn; repeat split; auto; discriminate|].
    destruct (N.eqb_spec c 124) as [->|?]; [intros H; inversion H; subst; cbn; repeat split; auto; discriminate|].
    destruct (N.eqb_spec c 43) as [->|?]; [intros H; inversion H; subst; cbn; repeat split; auto; discriminate|].
    destruct (N.eqb_spec c 94) as [->|?]; [intros H; inversion H; subst; cbn; repeat split; auto; discriminate|].
    destruct (N.eqb_spec c 35) as [->|?]; [intros H; inversion H; subst; cbn; repeat split; auto; discriminate|].
    destruct (N.eqb_spec c 91) as [->|?]; [intros H; inversion H; subst; cbn; repeat split; auto; discriminate|].
    destruct (N.eqb_spec c 93) as [->|?]; [intros H; inversion H; subst; cbn; repeat split; auto; discriminate|].
    destruct (N.eqb_spec c 44) as [->|?]; [intros H; inversion H; subst; cbn; repeat split; auto; discriminate|].
    destruct (N.eqb_spec c 40) as [->|?]; [intros H; inversion H; subst; cbn; repeat split; auto; discriminate|].
    destruct (N.eqb_spec c 41) as [->|?]; [intros H; inversion H; subst; cbn; repeat split; auto; discriminate|].
    cbn. discriminate.
  Qed.

  Lemma scan_symbol_some l s r' : scan_symbol l = Some (s, r') ->
    exists w, l = w ++ r' /\ sym_string s w /\
      forall s' w', prefix w' l -> sym_string s' w' -> (length w' <= length w)%nat.
  Proof.
    unfold scan_symbol. destruct l as [|c r]; [discriminate|].
    destruct (N.eqb_spec c 60) as [->|N60].
    { destruct r as [|d r2].
      - intros H; inversion H; subst. exists [60]. repeat split; auto. max_sym.
      - destruct (N.eqb_spec d 61) as [->|N61].
        + destruct r2 as [|e r3].
          * intros H; inversion H; subst. exists [60; 61]. repeat split; auto. max_sym.
          * destruct (N.eqb_spec e 62) as [->|N62]; intros H; inversion H; subst.
            -- exists [60; 61; 62]. repeat split; auto. max_sym.
            -- exists [60; 61]. repeat split; auto. max_sym.
        + intros H; inversion H; subst. exists [60]. repeat split; auto. max_sym. }
    destruct (N.eqb_spec c 61) as [->|N61].
    { destruct r as [|d r2].
      - intros H; inversion H; subst. exists [61]. repeat split; auto. max_sym.
      - destruct (N.eqb_spec d 62) as [->|N62]; intros H; inversion H; subst.
        + exists [61; 62]. repeat split; auto. max_sym.
        + exists [61]. repeat split; auto. max_sym. }
    destruct (N.eqb_spec c 62) as [->|N62].
    { destruct r as [|d r2].
      - intros H; inversion H; subst. exists [62]. repeat split; auto. max_sym.
      - destruct (N.eqb_spec d 61) as [->|N61']; intros H; inversion H; subst.
        + exists [62; 61]. repeat split; auto. max_sym.
        + exists [62]. repeat split; auto. max_sym. }
    destruct (sym1 c) as [s0|] eqn:E1; [|discriminate]. intros H; inversion H; subst.
    destruct (sym1_string c s E1) as (Hs & _). exists [c]. repeat split; auto. max_sym.
  Qed.

  Lemma scan_symbol_none c r : scan_symbol (c :: r) = None -> sym_char c = false.
  Proof.
    unfold scan_symbol, sym_char.
    destruct (N.eqb_spec c 60); [destruct r as [|d r2]; [discriminate|destruct (d =? 61); [destruct r2 as [|e0 r3]; [discriminate|destruct (e0 =? 62); discriminate]|discriminate]]|].
    destruct (N.eqb_spec c 61); [destruct r as [|d r2]; [discriminate|destruct (d =? 62); discriminate]|].
    destruct (N.eqb_spec c 62); [destruct r as [|d r2]; [discriminate|destruct (d =? 61); discriminate]|].
    destruct (sym1 c); [discriminate|reflexivity].
  Qed.

  (** ---- the scanner satisfies the specification ---- *)
  Lemma prefix_cons_inv c w r : prefix w (c :: r) -> w = [] \/ exists w0, w = c :: w0.
  Proof. intros (rr & H). destruct w as [|x w0]; auto. inversion H; subst. right. eauto. Qed.

  Lemma no_lexeme_at c r :
    sym_char c = false -> is_digit c = false -> c <> 123 -> is_word c = false ->
    forall w' t', prefix w' (c :: r) -> ~ lexeme w' t'.
  Proof.
    intros H1 H2 H3 H4 w' t' Hp Hl. destruct (prefix_cons_inv _ _ _ Hp) as [->|(w0 & ->)].
    - apply (lexeme_nonempty _ _ Hl). reflexivity.
    - destruct (lexeme_first _ _ _ Hl) as [E|[E|[E|[E _]]]]; congruence.
  Qed.

  Lemma comment_first w : comment w -> exists w0, w = 34 :: w0.
  Proof. intros (body & -> & _). eauto. Qed.

  Lemma word_125 : is_word 125 = false. Proof. reflexivity. Qed.
  Lemma word_123 : is_word 123 = false. Proof. reflexivity. Qed.
  Lemma word_34 : is_word 34 = false. Proof. reflexivity. Qed.
  Lemma digit_123 : is_digit 123 = false. Proof. reflexivity. Qed.
  Lemma digit_34 : is_digit 34 = false. Proof. reflexivity. Qed.
  Lemma symc_123 : sym_char 123 = false. Proof. reflexivity. Qed.
  Lemma symc_34 : sym_char 34 = false. Proof. reflexivity. Qed.

  Theorem scan_spec : forall k l, (length l < k)%nat -> Lexes l (scan uc k l).
  Proof.
    induction k as [|k IH]; intros l Hk; [lia|].
    destruct l as [|c r]; [constructor|]. cbn [scan].
    destruct (scan_symbol (c :: r)) as [[s r']|] eqn:Es.
    - (* a symbol *)
      destruct (scan_symbol_some _ _ _ Es) as (w & Hl & Hs & Hmax). rewrite Hl.
      assert (Hw : w <> []) by (apply (lexeme_nonempty w (RSym s)); constructor; auto).
      apply Lx_tok; [constructor; auto| |].
      + intros w' t' Hp Hlex. rewrite <- Hl in Hp.
        destruct (prefix_cons_inv _ _ _ Hp) as [->|(w0 & ->)]; [cbn; lia|].
        destruct w as [|c0 w1]; [congruence|]. cbn [app] in Hl. inversion Hl; subst c0.
        pose proof (sym_string_first _ _ _ Hs) as Hc. destruct (sym_char_class c Hc) as (D & W & B & Q).
        inversion Hlex; subst.
        * eapply Hmax; eauto.
        * match goal with H : all_b _ (c :: w0) |- _ => inversion H; subst; congruence end.
        * congruence.
        * congruence.
      + apply IH. assert (length (c :: r) = length w + length r')%nat by (rewrite Hl, app_length; reflexivity).
        destruct w; [congruence|]. cbn [length] in *. lia.
    - pose proof (scan_symbol_none _ _ Es) as Hsc.
      destruct (is_digit c) eqn:Ed.
      + (* a number *)
        destruct (span is_digit (c :: r)) as [ds r'] eqn:Esp.
        destruct (span_spec _ _ _ _ Esp) as (Hl & Hall & Hnext).
        assert (Hds : ds <> []).
        { cbn [span] in Esp. rewrite Ed in Esp. destruct (span is_digit r); inversion Esp; discriminate. }
        rewrite Hl. apply Lx_tok; [constructor; auto| |].
        * intros w' t' Hp Hlex. rewrite <- Hl in Hp.
          destruct (prefix_cons_inv _ _ _ Hp) as [->|(w0 & ->)]; [cbn; lia|].
          inversion Hlex; subst.
          -- match goal with H : sym_string _ _ |- _ => pose proof (sym_string_first _ _ _ H) end. congruence.
          -- rewrite Hl in Hp. eapply run_prefix; eauto.
          -- rewrite digit_123 in Ed. discriminate.
          -- congruence.
        * apply IH. assert (length (c :: r) = length ds + length r')%nat by (rewrite Hl, app_length; reflexivity).
          destruct ds; [congruence|]. cbn [length] in *. lia.
      + destruct (N.eqb_spec c 123) as [->|Hb].
        * (* an opening brace *)
          destruct (span is_word r) as [w rest] eqn:Esp.
          destruct (span_spec _ _ _ _ Esp) as (Hr & Hall & Hnext).
          assert (Hskip : (forall w2, w2 <> [] -> all_b is_word w2 -> ~ prefix (123 :: w2 ++ [125]) (123 :: r)) ->
                          Lexes (123 :: r) (scan uc k r)).
          { intros Hno. apply Lx_skip; [| |apply IH; cbn [length] in Hk; lia].
            - intros w' t' Hp Hlex. destruct (prefix_cons_inv _ _ _ Hp) as [->|(w0 & ->)];
                [apply (lexeme_nonempty _ _ Hlex); reflexivity|].
              inversion Hlex; subst.
              + match goal with H : sym_string _ _ |- _ => pose proof (sym_string_first _ _ _ H) end. rewrite symc_123 in *. discriminate.
              + match goal with H : all_b _ (123 :: w0) |- _ => inversion H; subst end. rewrite digit_123 in *. discriminate.
              + eapply Hno; eauto.
              + rewrite word_123 in *. discriminate.
            - intros w' Hp Hc. destruct (comment_first _ Hc) as (w0 & ->). destruct Hp as (rr & Hrr). inversion Hrr. }
          assert (Hrun : forall w2 rr, all_b is_word w2 -> r = w2 ++ 125 :: rr -> w2 = w /\ rest = 125 :: rr).
          { intros w2 rr H2 E2.
            assert (E : w ++ rest = w2 ++ 125 :: rr) by (rewrite <- Hr; exact E2).
            assert (L1 : (length w2 <= length w)%nat)
              by (apply (run_prefix is_word w rest w2 H2 Hall Hnext); exists (125 :: rr); exact E).
            assert (L2 : (length w <= length w2)%nat)
              by (apply (run_prefix is_word w2 (125 :: rr) w Hall H2 word_125); exists rest; symmetry; exact E).
            assert (Hlen : length w2 = length w) by lia.
            clear - E Hlen. revert w E Hlen.
            induction w2 as [|x w2 IHw]; intros [|y w] E Hlen; try discriminate.
            - cbn [app] in E. auto.
            - cbn [app] in E. inversion E; subst.
              match goal with H : w ++ rest = w2 ++ 125 :: rr |- _ => destruct (IHw w H ltac:(cbn in Hlen; lia)) as [-> ->] end. auto. }
          destruct rest as [|c1 rest'].
          -- apply Hskip. intros w2 N2 A2 (rr & Hrr). cbn [app] in Hrr. inversion Hrr as [Hr2]. rewrite <- app_assoc in Hr2. cbn [app] in Hr2.
             destruct (Hrun w2 rr A2 Hr2) as [_ Habs]. discriminate.
          -- destruct (N.eqb_spec c1 125) as [->|N125].
             ++ destruct w as [|x w0].
                ** (* empty name: not a reference *)
                   cbv iota beta. apply Hskip. intros w2 N2 A2 (rr & Hrr). cbn [app] in Hrr. inversion Hrr as [Hr2]. rewrite <- app_assoc in Hr2. cbn [app] in Hr2.
                   destruct (Hrun w2 rr A2 Hr2) as [Hw _]. congruence.
                ** (* a reference *)
                   cbv iota beta. subst r.
                   replace (123 :: (x :: w0) ++ 125 :: rest') with ((123 :: (x :: w0) ++ [125]) ++ rest') by (cbn [app]; rewrite <- app_assoc; reflexivity).
                   apply Lx_tok; [constructor; auto; discriminate| |].
                   --- intros w' t' Hp Hlex.
                       destruct Hp as (rr & Hrr). cbn [app] in Hrr. rewrite <- app_assoc in Hrr. cbn [app] in Hrr.
                       destruct w' as [|c' w1]; [cbn; lia|]. inversion Hrr; subst c'.
                       inversion Hlex; subst.
                       +++ match goal with H : sym_string _ _ |- _ => pose proof (sym_string_first _ _ _ H) end. rewrite symc_123 in *. discriminate.
                       +++ match goal with H : all_b _ (123 :: w1) |- _ => inversion H; subst end. rewrite digit_123 in *. discriminate.
                       +++ match goal with H : _ = (w ++ [125]) ++ rr |- _ => rewrite <- app_assoc in H; cbn [app] in H;
                             destruct (Hrun w rr ltac:(assumption) H) as [-> _] end. cbn [length]. rewrite !app_length. cbn [length]. lia.
                       +++ rewrite word_123 in *. discriminate.
                   --- apply IH. cbn [length] in Hk. rewrite app_length in Hk. cbn [length] in Hk. lia.
             ++ (* the run is not closed by a brace *)
                assert (E : (match c1 with 125 => match w with [] => scan uc k r | _ :: _ => RRef w :: scan uc k rest' end | _ => scan uc k r end) = scan uc k r).
                { destruct c1 as [|p]; auto. repeat (destruct p as [p|p|]; auto). congruence. }
                rewrite E. apply Hskip. intros w2 N2 A2 (rr & Hrr). cbn [app] in Hrr. inversion Hrr as [Hr2]. rewrite <- app_assoc in Hr2. cbn [app] in Hr2.
                destruct (Hrun w2 rr A2 Hr2) as [_ Habs]. congruence.
        * destruct (is_word c) eqn:Ew.
          -- (* an identifier *)
             destruct (span is_word (c :: r)) as [w r'] eqn:Esp.
             destruct (span_spec _ _ _ _ Esp) as (Hl & Hall & Hnext).
             assert (Hw : exists w0, w = c :: w0).
             { cbn [span] in Esp. rewrite Ew in Esp. destruct (span is_word r); inversion Esp; eauto. }
             destruct Hw as (w0 & ->). rewrite Hl. apply Lx_tok.
             ++ inversion Hall; subst. constructor; auto.
             ++ intros w' t' Hp Hlex. rewrite <- Hl in Hp.
                destruct (prefix_cons_inv _ _ _ Hp) as [->|(w1 & ->)]; [cbn; lia|].
                inversion Hlex; subst.
                ** match goal with H : sym_string _ _ |- _ => pose proof (sym_string_first _ _ _ H) end. congruence.
                ** match goal with H : all_b _ (c :: w1) |- _ => inversion H; subst; congruence end.
                ** congruence.
                ** rewrite Hl in Hp. eapply (run_prefix is_word); eauto. constructor; auto.
             ++ apply IH. assert (length (c :: r) = length (c :: w0) + length r')%nat by (rewrite Hl, app_length; reflexivity).
                cbn [length] in *. lia.
          -- destruct (N.eqb_spec c 34) as [->|Hq].
             ++ (* a double quote *)
                destruct (after_quote r) as [r'|] eqn:Eq.
                ** destruct (after_quote_spec _ _ Eq) as (body & Hr & Hbody). subst r.
                   replace (34 :: body ++ 34 :: r') with ((34 :: body ++ [34]) ++ r') by (cbn [app]; rewrite <- app_assoc; reflexivity).
                   apply Lx_comment; [exists body; auto| |].
                   --- intros w' t' Hp. cbn [app] in Hp. apply (no_lexeme_at 34 _ symc_34 digit_34 ltac:(discriminate) word_34 w' t' Hp).
                   --- apply IH. cbn [length] in Hk. rewrite app_length in Hk. cbn [length] in Hk. lia.
                ** apply Lx_skip; [apply (no_lexeme_at 34 r symc_34 digit_34 ltac:(discriminate) word_34)| |apply IH; cbn [length] in Hk; lia].
                   intros w' (rr & Hrr) (body & -> & Hbd). cbn [app] in Hrr. inversion Hrr as [Hr2]. rewrite <- app_assoc in Hr2. cbn [app] in Hr2.
                   pose proof (after_quote_none _ Eq) as Hn. rewrite Hr2 in Hn. apply Forall_app in Hn. destruct Hn as [_ Hn]. inversion Hn; subst. congruence.
             ++ (* any other character *)
                apply Lx_skip; [apply no_lexeme_at; auto| |apply IH; cbn [length] in Hk; lia].
                intros w' Hp Hc. destruct (comment_first _ Hc) as (w0 & ->). destruct Hp as (rr & Hrr). inversion Hrr. congruence.
  Qed.

  Theorem C08_lex l : Lexes l (lex_raw uc l).
  Proof. apply scan_spec. lia. Qed.
End Spec.
Print Assumptions C08_lex.
