(** Tokens ([SymbolicBDDToken], src/parser.rs:22-56).  A reference carries no payload here:
    the parser copies the name and nothing inspects it. *)
From Coq Require Import List NArith.
Import ListNotations.
From Rsbdd Require Import Lang.Ast.

Inductive token : Type :=
| TVar (v : nat) | TNum (n : N) | TRefT
| TAnd | TOr | TNot | TXor | TNor | TNand | TImplies | TImpliesInv | TIff
| TIf | TThen | TElse | TExists | TForall
| TEq | TGeq | TGt | TLt
| TOpenParen | TCloseParen | TOpenSquare | TCloseSquare | TComma
| TFalse | TTrue | TLFP | TGFP | THash | TEof.

Definition binop_of (t : token) : option binop :=
  match t with
  | TAnd => Some BAnd | TOr => Some BOr | TXor => Some BXor | TNor => Some BNor | TNand => Some BNand
  | TImplies => Some BImplies | TImpliesInv => Some BImpliesInv | TIff => Some BIff
  | _ => None
  end.
(** the comparison token after a list; [<=] arrives as [TImpliesInv] (parser.rs:523-535) *)
Definition cop_of (t : token) : option cop :=
  match t with
  | TEq => Some Exactly | TImpliesInv => Some AtMost | TGeq => Some AtLeast | TLt => Some LessThan | TGt => Some MoreThan
  | _ => None
  end.
