(** C14 (diagram export): the graph written by BDDGraph (src/bdd_io.rs), with node identity =
    structure (C13), read back as a decision graph, evaluates to the same function. *)
From Coq Require Import List Arith Bool Lia PeanoNat.
Import ListNotations.
From Rsbdd Require Import Core.Bdd Core.Ops Core.OpsFacts.

Definition dedge := (bdd * bool * bdd)%type.
Definition dedge_eqb (e1 e2 : dedge) : bool :=
  let '(a, x, b) := e1 in let '(c, y, d) := e2 in bdd_eqb a c && Bool.eqb x y && bdd_eqb b d.
Lemma dedge_eqb_spec e1 e2 : reflect (e1 = e2) (dedge_eqb e1 e2).
Proof.
  destruct e1 as [[a x] b], e2 as [[c y] d]. cbn [dedge_eqb].
  destruct (bdd_eqb_spec a c); cbn; [|constructor; congruence].
  destruct (Bool.eqb_spec x y); cbn; [|constructor; congruence].
  destruct (bdd_eqb_spec b d); constructor; congruence.
Qed.

(** itertools [unique()]: keep the first occurrence *)
Fixpoint uniq_acc {A} (eqb : A -> A -> bool) (seen l : list A) : list A :=
  match l with
  | [] => []
  | x :: r => if existsb (eqb x) seen then uniq_acc eqb seen r else x :: uniq_acc eqb (x :: seen) r
  end.
Definition uniq {A} (eqb : A -> A -> bool) (l : list A) : list A := uniq_acc eqb [] l.

(** a leaf is shown unless the filter asks for the other one (bdd_io.rs:103-109) *)
Definition leaf_kept (filt : tte) (b : bdd) : bool :=
  match filt, b with
  | TAny, _ => true
  | TTrue, T => true | TFalse, F => true
  | _, _ => false
  end.
(** an edge is shown unless it leads to a hidden leaf (121-135) *)
Definition edge_kept (filt : tte) (c : bdd) : bool :=
  match c with Nd _ _ _ => true | _ => leaf_kept filt c end.

Fixpoint dot_nodes (filt : tte) (b : bdd) : list bdd :=
  match b with
  | Nd l _ r => uniq bdd_eqb (dot_nodes filt l ++ [b] ++ dot_nodes filt r)
  | _ => if leaf_kept filt b then [b] else []
  end.
Fixpoint dot_edges (filt : tte) (b : bdd) : list dedge :=
  match b with
  | Nd l _ r =>
      uniq dedge_eqb (dot_edges filt l ++ dot_edges filt r ++
                      (if edge_kept filt l then [(b, true, l)] else []) ++
                      (if edge_kept filt r then [(b, false, r)] else []))
  | _ => []
  end.

(** reading the graph back: follow the edge labelled with the value of the node's variable;
    a missing edge leads to the leaf the filter hides *)
Definition hidden_leaf (filt : tte) : bool := match filt with TTrue => false | _ => true end.
Definition edge_from (p : bdd) (lab : bool) (e : dedge) : bool := bdd_eqb (fst (fst e)) p && Bool.eqb (snd (fst e)) lab.
Definition next (es : list dedge) (p : bdd) (lab : bool) : option bdd :=
  match find (edge_from p lab) es with Some e => Some (snd e) | None => None end.
Fixpoint walk (fuel : nat) (filt : tte) (es : list dedge) (p : bdd) (s : asg) : option bool :=
  match fuel with 0 => None | S k =>
    match p with
    | T => Some true | F => Some false
    | Nd _ v _ => match next es p (s v) with Some c => walk k filt es c s | None => Some (hidden_leaf filt) end
    end
  end.

(** ---- facts ---- *)
Section Uniq.
  Context {A : Type} (eqb : A -> A -> bool) (eqb_spec : forall x y, reflect (x = y) (eqb x y)).
  Lemma existsb_eqb x l : existsb (eqb x) l = true <-> In x l.
  Proof.
    rewrite existsb_exists. split.
    - intros (y & Hy & E). destruct (eqb_spec x y); [subst; exact Hy|discriminate].
    - intros H. exists x. split; auto. destruct (eqb_spec x x); [reflexivity|contradiction].
  Qed.
  Lemma uniq_acc_spec : forall l seen,
    (forall x, In x (uniq_acc eqb seen l) <-> In x l /\ ~ In x seen) /\ NoDup (uniq_acc eqb seen l).
  Proof.
    induction l as [|a r IH]; intros seen; cbn [uniq_acc]; [split; [intros x; cbn; tauto|constructor]|].
    destruct (existsb (eqb a) seen) eqn:E.
    - apply existsb_eqb in E. destruct (IH seen) as [Hin Hnd]. split; auto.
      intros x. rewrite Hin. cbn [In]. split; [tauto|]. intros [[->|H] Hn]; [contradiction|auto].
    - assert (Hns : ~ In a seen) by (intros H; apply existsb_eqb in H; congruence).
      destruct (IH (a :: seen)) as [Hin Hnd]. split.
      + intros x. cbn [In]. rewrite Hin. cbn [In]. split.
        * intros [->|[H Hn]]; [auto|]. split; auto.
        * intros [[->|H] Hn]; auto. destruct (eqb_spec a x) as [->|Hne]; auto. right. split; auto. intros [?|?]; auto.
      + constructor; auto. rewrite Hin. cbn [In]. tauto.
  Qed.
  Lemma uniq_In l x : In x (uniq eqb l) <-> In x l.
  Proof. unfold uniq. rewrite (proj1 (uniq_acc_spec l [])). cbn. tauto. Qed.
  Lemma uniq_NoDup l : NoDup (uniq eqb l).
  Proof. apply uniq_acc_spec. Qed.
End Uniq.

(** sub-diagrams *)
Fixpoint subs (b : bdd) : list bdd := match b with Nd l _ r => b :: subs l ++ subs r | _ => [b] end.

Lemma dot_nodes_any b : forall p, In p (dot_nodes TAny b) <-> In p (subs b).
Proof.
  induction b as [| |l IHl v r IHr]; intros p; cbn [dot_nodes subs leaf_kept]; try tauto.
  rewrite (uniq_In bdd_eqb bdd_eqb_spec). rewrite !in_app_iff, IHl, IHr. cbn [In]. rewrite in_app_iff. tauto.
Qed.

Theorem C14_nodes_once filt b : NoDup (dot_nodes filt b).
Proof.
  destruct b; cbn [dot_nodes]; try (destruct (leaf_kept _ _); repeat constructor; intros []).
  apply (uniq_NoDup bdd_eqb bdd_eqb_spec).
Qed.

Lemma dot_edges_any b : forall e, In e (dot_edges TAny b) <->
  exists l v r, In (Nd l v r) (subs b) /\ (e = (Nd l v r, true, l) \/ e = (Nd l v r, false, r)).
Proof.
  induction b as [| |l IHl v r IHr]; intros e; cbn [dot_edges subs].
  - split; [intros []|]. intros (l & v & r & [H|[]] & _). discriminate.
  - split; [intros []|]. intros (l & v & r & [H|[]] & _). discriminate.
  - rewrite (uniq_In dedge_eqb dedge_eqb_spec). rewrite !in_app_iff, IHl, IHr.
    assert (Ek : forall c, edge_kept TAny c = true) by (intros [| |]; reflexivity). rewrite !Ek. cbn [In]. split.
    + intros [(l' & v' & r' & Hin & He)|[(l' & v' & r' & Hin & He)|[[<-|[]]|[<-|[]]]]].
      * exists l', v', r'. split; auto. right. apply in_or_app. auto.
      * exists l', v', r'. split; auto. right. apply in_or_app. auto.
      * exists l, v, r. split; auto.
      * exists l, v, r. split; auto.
    + intros (l' & v' & r' & [Heq|Hin] & He).
      * inversion Heq; subst. destruct He as [-> | ->]; auto.
      * apply in_app_or in Hin. destruct Hin as [Hin|Hin]; [left|right; left]; exists l', v', r'; auto.
Qed.

Theorem C14_edges_declared b e : In e (dot_edges TAny b) ->
  In (fst (fst e)) (dot_nodes TAny b) /\ In (snd e) (dot_nodes TAny b).
Proof.
  intros H. apply dot_edges_any in H. destruct H as (l & v & r & Hin & He).
  assert (Hsub : forall p q, In p (subs q) -> forall x, In x (subs p) -> In x (subs q)).
  { intros p q. revert p. induction q as [| |ql IHl qv qr IHr]; intros p Hp x Hx; cbn [subs] in *.
    - destruct Hp as [<-|[]]. exact Hx. - destruct Hp as [<-|[]]. exact Hx.
    - destruct Hp as [<-|Hp]; [exact Hx|]. right. apply in_app_or in Hp. apply in_or_app.
      destruct Hp as [Hp|Hp]; [left; eapply IHl|right; eapply IHr]; eauto. }
  assert (Hself : forall q, In q (subs q)) by (intros [| |]; cbn; auto).
  rewrite !dot_nodes_any. destruct He as [-> | ->]; cbn [fst snd]; split; auto;
    apply (Hsub _ _ Hin); cbn [subs]; right; apply in_or_app; [left|right]; apply Hself.
Qed.

Lemma next_any b l v r lab : In (Nd l v r) (subs b) ->
  next (dot_edges TAny b) (Nd l v r) lab = Some (if lab then l else r).
Proof.
  intros Hin. unfold next.
  destruct (find (edge_from (Nd l v r) lab) (dot_edges TAny b)) as [[[a x] c]|] eqn:E.
  - apply find_some in E. destruct E as [He Hf]. unfold edge_from in Hf. cbn [fst snd] in Hf. apply andb_prop in Hf. destruct Hf as [Ha Hx].
    destruct (bdd_eqb_spec a (Nd l v r)) as [->|]; [|discriminate]. apply eqb_prop in Hx. subst x.
    apply dot_edges_any in He. destruct He as (l' & v' & r' & _ & [H|H]); inversion H; subst; reflexivity.
  - exfalso. assert (Hedge : In (Nd l v r, lab, if lab then l else r) (dot_edges TAny b)).
    { apply dot_edges_any. exists l, v, r. split; auto. destruct lab; auto. }
    pose proof (find_none _ _ E _ Hedge) as Hf. unfold edge_from in Hf. cbn [fst snd] in Hf. rewrite bdd_eqb_refl, eqb_reflx in Hf. discriminate.
Qed.

Lemma subs_trans : forall q p, In p (subs q) -> forall x, In x (subs p) -> In x (subs q).
Proof.
  induction q as [| |ql IHl qv qr IHr]; intros p Hp x Hx; cbn [subs] in *.
  - destruct Hp as [<-|[]]. exact Hx.
  - destruct Hp as [<-|[]]. exact Hx.
  - destruct Hp as [<-|Hp]; [exact Hx|]. right. apply in_app_or in Hp. apply in_or_app.
    destruct Hp as [Hp|Hp]; [left; eapply IHl|right; eapply IHr]; eauto.
Qed.
Lemma subs_self q : In q (subs q). Proof. destruct q; cbn; auto. Qed.

(** read back, the exported graph evaluates to the same function *)
Theorem C14_walk b s : walk (S (height b)) TAny (dot_edges TAny b) b s = Some (beval s b).
Proof.
  assert (H : forall p n, In p (subs b) -> height p < n -> walk n TAny (dot_edges TAny b) p s = Some (beval s p)).
  { induction p as [| |l IHl v r IHr]; intros n Hin Hn; (destruct n as [|n]; [lia|]); cbn [walk beval]; auto.
    rewrite (next_any b l v r (s v) Hin). cbn [height] in Hn.
    destruct (s v).
    - apply IHl; [|lia]. apply (subs_trans b _ Hin). cbn [subs]. right. apply in_or_app. left. apply subs_self.
    - apply IHr; [|lia]. apply (subs_trans b _ Hin). cbn [subs]. right. apply in_or_app. right. apply subs_self. }
  apply H; [apply subs_self|lia].
Qed.
Print Assumptions C14_walk.

(** ---- filters: only the opposite leaf and the edges into it are omitted ---- *)
Definition hidden (filt : tte) (p : bdd) : bool :=
  match filt, p with TTrue, F => true | TFalse, T => true | _, _ => false end.

Lemma leaf_kept_hidden filt p : is_const p = true -> leaf_kept filt p = negb (hidden filt p).
Proof. destruct filt, p; cbn; intros; try reflexivity; discriminate. Qed.
Lemma edge_kept_hidden filt p : edge_kept filt p = negb (hidden filt p).
Proof. destruct filt, p; reflexivity. Qed.

Theorem C14_filter_nodes filt b : forall p, In p (dot_nodes filt b) <-> In p (dot_nodes TAny b) /\ hidden filt p = false.
Proof.
  induction b as [| |l IHl v r IHr]; intros p; cbn [dot_nodes].
  - rewrite (leaf_kept_hidden filt F eq_refl). cbn [leaf_kept]. destruct (hidden filt F) eqn:E; cbn [negb In]; split.
    + intros []. + intros [[<-|[]] H]. congruence. + intros [<-|[]]. auto. + intros [[<-|[]] _]. auto.
  - rewrite (leaf_kept_hidden filt T eq_refl). cbn [leaf_kept]. destruct (hidden filt T) eqn:E; cbn [negb In]; split.
    + intros []. + intros [[<-|[]] H]. congruence. + intros [<-|[]]. auto. + intros [[<-|[]] _]. auto.
  - rewrite !(uniq_In bdd_eqb bdd_eqb_spec), !in_app_iff, IHl, IHr. cbn [In].
    assert (Hn : hidden filt (Nd l v r) = false) by (destruct filt; reflexivity).
    split.
    + intros [[H1 H2]|[[<-|[]]|[H1 H2]]]; auto.
    + intros [[H|[[<-|[]]|H]] H2]; auto.
Qed.

Theorem C14_filter_edges filt b : forall e, In e (dot_edges filt b) <-> In e (dot_edges TAny b) /\ hidden filt (snd e) = false.
Proof.
  induction b as [| |l IHl v r IHr]; intros e; cbn [dot_edges]; [split; [intros []|intros [[] _]]|split; [intros []|intros [[] _]]|].
  rewrite !(uniq_In dedge_eqb dedge_eqb_spec), !in_app_iff, IHl, IHr.
  rewrite !edge_kept_hidden. assert (Ek : forall c, hidden TAny c = false) by (intros [| |]; reflexivity). rewrite !Ek. cbn [negb].
  split.
  - intros [[H1 H2]|[[H1 H2]|[H|H]]]; auto.
    + destruct (hidden filt l) eqn:E; cbn [negb] in H; [destruct H|]. destruct H as [<-|[]]. cbn [snd In]. auto 6.
    + destruct (hidden filt r) eqn:E; cbn [negb] in H; [destruct H|]. destruct H as [<-|[]]. cbn [snd In]. auto 6.
  - intros [[H|[H|[H|H]]] H2]; auto.
    + destruct H as [<-|[]]. cbn [snd] in H2. rewrite H2. cbn [negb In]. auto.
    + destruct H as [<-|[]]. cbn [snd] in H2. rewrite H2. cbn [negb In]. auto 6.
Qed.
Print Assumptions C14_filter_edges.
