(** C14 (parse-tree export, src/parser_io.rs): node identity is structural ([unique()] on the
    node list, [position()] for edge targets), so the graph is: the set of sub-terms, a label per
    node, labelled edges to the children.  Labels and edge labels determine the term. *)
From Coq Require Import List Arith Bool PeanoNat NArith Lia.
Import ListNotations.
From Rsbdd Require Import Core.Bdd Lang.Ast Lang.AstFacts.

(** node labels (parser_io.rs:101-135), as structured values *)
Inductive nlabel : Type :=
| LBin (op : binop) | LQuant (q : quant) (vs : list nat) | LNot | LCountC (op : cop) (n : N) | LCountV (op : cop)
| LFix (init : bool) (v : nat) | LIte | LFalse | LTrue | LVar (v : nat) | LBdd (b : bdd) | LRef.
(** edge labels (142-246) *)
Inductive elabel : Type := EL | ER | ENone | EIdx (j : nat) | ELIdx (j : nat) | ERIdx (j : nat) | EIf | EThen | EElse.

Fixpoint number_from {A} (mk : nat -> elabel) (j : nat) (l : list A) : list (elabel * A) :=
  match l with [] => [] | x :: r => (mk j, x) :: number_from mk (S j) r end.

Definition label (f : form) : nlabel :=
  match f with
  | FBin op _ _ => LBin op | FQuant q vs _ => LQuant q vs | FNot _ => LNot
  | FCountC op _ n => LCountC op n | FCountV op _ _ => LCountV op
  | FFix v i _ => LFix i v | FIte _ _ _ => LIte | FFalse => LFalse | FTrue => LTrue
  | FVar v => LVar v | FSub b => LBdd b | FRef => LRef
  end.
Definition out_edges (f : form) : list (elabel * form) :=
  match f with
  | FBin _ l r => [(EL, l); (ER, r)]
  | FQuant _ _ g | FNot g | FFix _ _ g => [(ENone, g)]
  | FCountC _ fs _ => number_from EIdx 0 fs
  | FCountV _ l r => number_from ELIdx 0 l ++ number_from ERIdx 0 r
  | FIte c t e => [(EIf, c); (EThen, t); (EElse, e)]
  | _ => []
  end.

(** reading a node back from its label and its outgoing edges *)
Definition pick (sel : elabel -> bool) (es : list (elabel * form)) : list form := map snd (filter (fun e => sel (fst e)) es).
Definition is_idx e := match e with EIdx _ => true | _ => false end.
Definition is_lidx e := match e with ELIdx _ => true | _ => false end.
Definition is_ridx e := match e with ERIdx _ => true | _ => false end.
Definition rebuild (lab : nlabel) (es : list (elabel * form)) : option form :=
  match lab, es with
  | LBin op, [(EL, l); (ER, r)] => Some (FBin op l r)
  | LQuant q vs, [(ENone, g)] => Some (FQuant q vs g)
  | LNot, [(ENone, g)] => Some (FNot g)
  | LFix i v, [(ENone, g)] => Some (FFix v i g)
  | LCountC op n, _ => Some (FCountC op (pick is_idx es) n)
  | LCountV op, _ => Some (FCountV op (pick is_lidx es) (pick is_ridx es))
  | LIte, [(EIf, c); (EThen, t); (EElse, e)] => Some (FIte c t e)
  | LFalse, [] => Some FFalse | LTrue, [] => Some FTrue | LVar v, [] => Some (FVar v)
  | LBdd b, [] => Some (FSub b) | LRef, [] => Some FRef
  | _, _ => None
  end.

Lemma pick_number_same (mk : nat -> elabel) (sel : elabel -> bool) : (forall j, sel (mk j) = true) ->
  forall (l : list form) j, pick sel (number_from mk j l) = l.
Proof.
  intros H. induction l as [|x r IH]; intros j; cbn [number_from pick filter map fst snd]; auto.
  rewrite H. cbn [map snd]. f_equal. apply IH.
Qed.
Lemma pick_number_other (mk : nat -> elabel) (sel : elabel -> bool) : (forall j, sel (mk j) = false) ->
  forall (l : list form) j, pick sel (number_from mk j l) = [].
Proof.
  intros H. induction l as [|x r IH]; intros j; cbn [number_from pick filter map fst snd]; auto.
  rewrite H. apply IH.
Qed.
Lemma pick_app sel a b : pick sel (a ++ b) = pick sel a ++ pick sel b.
Proof. unfold pick. rewrite filter_app, map_app. reflexivity. Qed.

(** C14: labels and edge labels determine the node *)
Theorem C14_rebuild f : rebuild (label f) (out_edges f) = Some f.
Proof.
  destruct f; cbn [label out_edges rebuild]; auto.
  - rewrite (pick_number_same EIdx is_idx) by reflexivity. reflexivity.
  - rewrite !pick_app.
    rewrite (pick_number_same ELIdx is_lidx), (pick_number_other ERIdx is_lidx) by reflexivity.
    rewrite (pick_number_other ELIdx is_ridx), (pick_number_same ERIdx is_ridx) by reflexivity.
    rewrite app_nil_r. reflexivity.
Qed.

(** the node list is the set of sub-terms; it is closed under children, and every node other
    than the root has a parent in it, while the root has none (so the root is recognisable) *)
Fixpoint subterms (f : form) : list form :=
  f :: match f with
       | FBin _ l r => subterms l ++ subterms r
       | FQuant _ _ g | FNot g | FFix _ _ g => subterms g
       | FCountC _ fs _ => flat_map subterms fs
       | FCountV _ l r => flat_map subterms l ++ flat_map subterms r
       | FIte c t e => subterms c ++ subterms t ++ subterms e
       | _ => []
       end.
Definition children (f : form) : list form := map snd (out_edges f).

Lemma children_number {A} mk j (l : list A) : map snd (number_from mk j l) = l.
Proof. revert j. induction l as [|x r IH]; intros j; cbn [number_from map snd]; auto. rewrite IH. reflexivity. Qed.

Lemma subterms_self f : In f (subterms f).
Proof. destruct f; cbn [subterms]; left; reflexivity. Qed.

Lemma child_size f c : In c (children f) -> size c < size f.
Proof.
  unfold children. destruct f; cbn [out_edges map snd size In]; try tauto.
  - intros [<-|[]]. lia.
  - intros [<-|[]]. lia.
  - rewrite children_number. intros H. pose proof (size_in c fs H). unfold sizes in *. lia.
  - rewrite map_app, !children_number. intros H. apply in_app_or in H.
    destruct H as [H|H]; pose proof (size_in c _ H); unfold sizes in *; lia.
  - intros [<-|[]]. lia.
  - intros [<-|[<-|[<-|[]]]]; lia.
  - intros [<-|[<-|[]]]; lia.
Qed.

Lemma subterm_size : forall f g, In g (subterms f) -> size g <= size f.
Proof.
  induction f as [| |v|h IH|q vs h IH|op fs n IH|op l rr IHl IHr|y i h IH|c t e IHc IHt IHe|op l rr IHl IHr|b0|] using form_ind';
    intros g; cbn [subterms size In]; try (intros [<-|[]]; cbn [size]; lia).
  - intros [<-|H]; [cbn [size]; lia|]. specialize (IH g H). lia.
  - intros [<-|H]; [cbn [size]; lia|]. specialize (IH g H). lia.
  - intros [<-|H]; [cbn [size]; lia|]. apply in_flat_map in H. destruct H as (x & Hx & Hg).
    rewrite Forall_forall in IH. specialize (IH x Hx g Hg). pose proof (size_in x fs Hx). unfold sizes in *. lia.
  - intros [<-|H]; [cbn [size]; lia|]. apply in_app_or in H. rewrite !Forall_forall in *.
    destruct H as [H|H]; apply in_flat_map in H; destruct H as (x & Hx & Hg);
      [specialize (IHl x Hx g Hg)|specialize (IHr x Hx g Hg)]; pose proof (size_in x _ Hx); unfold sizes in *; lia.
  - intros [<-|H]; [cbn [size]; lia|]. specialize (IH g H). lia.
  - intros [<-|H]; [cbn [size]; lia|]. apply in_app_or in H. destruct H as [H|H]; [specialize (IHc g H); lia|].
    apply in_app_or in H. destruct H as [H|H]; [specialize (IHt g H)|specialize (IHe g H)]; lia.
  - intros [<-|H]; [cbn [size]; lia|]. apply in_app_or in H. destruct H as [H|H]; [specialize (IHl g H)|specialize (IHr g H)]; lia.
Qed.

(** the root is not a child of any node of its own graph *)
Theorem C14_root_no_parent f p : In p (subterms f) -> ~ In f (children p).
Proof. intros Hp Hc. pose proof (child_size p f Hc). pose proof (subterm_size f p Hp). lia. Qed.
Print Assumptions C14_rebuild.
