(** C13: the unique table as an abstract data type over explicit addresses. *)
From Coq Require Import List Arith Bool Lia PeanoNat.
Import ListNotations.
From Rsbdd Require Import Core.Bdd Core.Ops Core.OpsFacts.

Definition addr := nat.
Inductive cell := CF | CT | CN (t : addr) (v : nat) (f : addr).
Record heap := { cells : list cell; table : list (bdd * addr) }.

Fixpoint struct_f (fuel : nat) (cs : list cell) (a : addr) : option bdd :=
  match fuel with 0 => None | S k =>
    match nth_error cs a with
    | Some CF => Some F | Some CT => Some T
    | Some (CN t v f) => match struct_f k cs t, struct_f k cs f with Some x, Some y => Some (Nd x v y) | _, _ => None end
    | None => None end end.
Definition struct (h : heap) (a : addr) := struct_f (S a) (cells h) a.

Fixpoint lookup (k : bdd) (tb : list (bdd * addr)) : option addr :=
  match tb with [] => None | (k', p) :: r => if bdd_eqb k' k then Some p else lookup k r end.

Definition h_new : heap := {| cells := [CT; CF]; table := [(T, 0); (F, 1)] |}.
Definition h_mk_const (h : heap) (b : bool) : option addr := lookup (if b then T else F) (table h).
Definition h_mk_choice (h : heap) (t : addr) (v : nat) (f : addr) : option (heap * addr) :=
  match struct h t, struct h f with
  | Some x, Some y =>
      if bdd_eqb x y then Some (h, t)
      else match lookup (Nd x v y) (table h) with
           | Some p => Some (h, p)
           | None => let p := length (cells h) in
                     Some ({| cells := cells h ++ [CN t v f]; table := (Nd x v y, p) :: table h |}, p)
           end
  | _, _ => None end.

Definition range (h : heap) (p : addr) := In p (map snd (table h)).

Record Inv (h : heap) : Prop := {
  inv_acyclic : forall a t v f, nth_error (cells h) a = Some (CN t v f) -> t < a /\ f < a;
  inv_keys : forall k p, In (k, p) (table h) -> p < length (cells h) /\ struct h p = Some k;
  inv_nodup : NoDup (map fst (table h));
  inv_closed : forall k p t v f, In (k, p) (table h) -> nth_error (cells h) p = Some (CN t v f) -> range h t /\ range h f;
  inv_leaves : (exists p, In (T, p) (table h)) /\ (exists p, In (F, p) (table h))
}.

Lemma lookup_in k tb p : lookup k tb = Some p -> In (k, p) tb.
Proof.
  induction tb as [|[k' q] r IH]; simpl; [discriminate|].
  destruct (bdd_eqb_spec k' k); [intros H; inversion H; subst; auto|auto].
Qed.
Lemma lookup_none k tb : lookup k tb = None -> ~ In k (map fst tb).
Proof.
  induction tb as [|[k' q] r IH]; simpl; auto.
  destruct (bdd_eqb_spec k' k); [discriminate|]. intros H [E|Hin]; [congruence|]. apply IH; auto.
Qed.

(* struct is stable under extension of the cell list, for well-formed prefixes *)
Lemma struct_f_ext cs extra : (forall a t v f, nth_error cs a = Some (CN t v f) -> t < a /\ f < a) ->
  forall n a, a < length cs -> struct_f n (cs ++ extra) a = struct_f n cs a.
Proof.
  intros Hwf. induction n as [|n IH]; intros a Ha; simpl; auto.
  rewrite nth_error_app1 by auto.
  destruct (nth_error cs a) as [[| |t v f]|] eqn:E; auto.
  destruct (Hwf _ _ _ _ E). rewrite !IH by lia. reflexivity.
Qed.

(* fuel independence: any fuel > a gives the same answer on a well-formed heap *)
Lemma struct_f_fuel cs : (forall a t v f, nth_error cs a = Some (CN t v f) -> t < a /\ f < a) ->
  forall n m a, a < n -> a < m -> struct_f n cs a = struct_f m cs a.
Proof.
  intros Hwf. induction n as [|n IH]; intros m a Hn Hm; [lia|]. destruct m as [|m]; [lia|]. simpl.
  destruct (nth_error cs a) as [[| |t v f]|] eqn:E; auto.
  destruct (Hwf _ _ _ _ E). rewrite (IH m t), (IH m f) by lia. reflexivity.
Qed.

Theorem pointer_eq_is_structural_eq h p q : Inv h -> range h p -> range h q ->
  struct h p = struct h q -> p = q.
Proof.
  intros I Hp Hq E. unfold range in *. apply in_map_iff in Hp, Hq.
  destruct Hp as ([k1 p1] & <- & H1), Hq as ([k2 q1] & <- & H2). simpl in *.
  destruct (inv_keys h I _ _ H1) as [_ S1]. destruct (inv_keys h I _ _ H2) as [_ S2].
  assert (k1 = k2) by congruence. subst k2.
  (* NoDup keys: the same key occurs once *)
  pose proof (inv_nodup h I) as ND. clear - H1 H2 ND.
  induction (table h) as [|[k r] tb IH]; [destruct H1|]. simpl in *. inversion ND; subst.
  destruct H1 as [E1|H1], H2 as [E2|H2]; try congruence.
  - inversion E1; subst. exfalso. apply H3. apply in_map_iff. exists (k1, q1). auto.
  - inversion E2; subst. exfalso. apply H3. apply in_map_iff. exists (k1, p1). auto.
  - auto.
Qed.

Theorem mk_choice_ok h t v f h' p x y : Inv h -> range h t -> range h f ->
  struct h t = Some x -> struct h f = Some y ->
  h_mk_choice h t v f = Some (h', p) ->
  Inv h' /\ range h' p /\ struct h' p = Some (mk x v y) /\
  (forall q, range h q -> range h' q /\ struct h' q = struct h q).
Proof.
  intros I Ht Hf Sx Sy H. unfold h_mk_choice in H. rewrite Sx, Sy in H. unfold mk.
  destruct (bdd_eqb x y) eqn:Exy.
  - injection H as Eh Ep; subst h' p. split; [auto|split; [auto|split; [auto|intros; split; auto]]].
  - destruct (lookup (Nd x v y) (table h)) as [p0|] eqn:L.
    + injection H as Eh Ep; subst h' p. apply lookup_in in L. destruct (inv_keys h I _ _ L) as [_ S0].
      split; [auto|split; [|split; [auto|intros; split; auto]]]. unfold range. apply in_map_iff. exists (Nd x v y, p0). auto.
    + injection H as Eh Ep. subst p. rename Eh into Eh'.
      assert (Hwf := inv_acyclic h I).
      assert (Hlt : forall q, range h q -> q < length (cells h)).
      { intros q Hq. apply in_map_iff in Hq. destruct Hq as ([k q'] & <- & Hin). apply (inv_keys h I _ _ Hin). }
      subst h'. set (h' := {| cells := cells h ++ [CN t v f]; table := (Nd x v y, length (cells h)) :: table h |}).
      assert (Hold : forall q, q < length (cells h) -> struct h' q = struct h q).
      { intros q Hq. exact (struct_f_ext (cells h) [CN t v f] Hwf (S q) q Hq). }
      assert (Hwf' : forall a t0 v0 f0, nth_error (cells h') a = Some (CN t0 v0 f0) -> t0 < a /\ f0 < a).
      { intros a t0 v0 f0 Ha. simpl in Ha. destruct (Nat.lt_ge_cases a (length (cells h))) as [Hl|Hg].
        - rewrite nth_error_app1 in Ha by auto. eauto.
        - rewrite nth_error_app2 in Ha by auto. destruct (a - length (cells h)) eqn:Ed; simpl in Ha; [|destruct n; discriminate].
          inversion Ha; subst. split; [specialize (Hlt _ Ht)|specialize (Hlt _ Hf)]; lia. }
      assert (Hnew : struct h' (length (cells h)) = Some (Nd x v y)).
      { pose proof (Hlt _ Ht) as Lt. pose proof (Hlt _ Hf) as Lf.
        unfold struct. change (struct_f (S (length (cells h))) (cells h') (length (cells h))) with
          (match nth_error (cells h') (length (cells h)) with
           | Some CF => Some F | Some CT => Some T
           | Some (CN t0 v0 f0) => match struct_f (length (cells h)) (cells h') t0, struct_f (length (cells h)) (cells h') f0 with
                                   | Some x0, Some y0 => Some (Nd x0 v0 y0) | _, _ => None end
           | None => None end).
        assert (E : nth_error (cells h') (length (cells h)) = Some (CN t v f)).
        { unfold h'. cbn [cells]. rewrite nth_error_app2 by lia. rewrite Nat.sub_diag. reflexivity. }
        rewrite E.
        rewrite (struct_f_fuel _ Hwf' (length (cells h)) (S t) t) by lia.
        rewrite (struct_f_fuel _ Hwf' (length (cells h)) (S f) f) by lia.
        fold (struct h' t). fold (struct h' f). rewrite !Hold by auto. rewrite Sx, Sy. reflexivity. }
      split; [|split; [|split]].
      * constructor; auto.
        -- intros k p [E|Hin].
           ++ inversion E; subst. simpl. rewrite app_length. simpl. split; [lia|exact Hnew].
           ++ destruct (inv_keys h I _ _ Hin) as [Hp Sp]. simpl. rewrite app_length. simpl. split; [lia|]. rewrite Hold; auto.
        -- simpl. constructor; [apply lookup_none; auto|apply (inv_nodup h I)].
        -- intros k p t0 v0 f0 [E|Hin] Hc.
           ++ inversion E; subst. simpl in Hc. rewrite nth_error_app2 in Hc by lia. rewrite Nat.sub_diag in Hc. simpl in Hc.
              inversion Hc; subst. split; right; auto.
           ++ destruct (inv_keys h I _ _ Hin) as [Hp _]. simpl in Hc. rewrite nth_error_app1 in Hc by auto.
              destruct (inv_closed h I _ _ _ _ _ Hin Hc). split; right; auto.
        -- destruct (inv_leaves h I) as [[pt Ht'] [pf Hf']]. split; [exists pt|exists pf]; right; auto.
      * left. reflexivity.
      * exact Hnew.
      * intros q Hq. split; [right; auto|apply Hold; auto].
Qed.
Print Assumptions mk_choice_ok.

(** ---- every history of table calls ---- *)
Inductive call : Type := CMk (t : addr) (v : nat) (f : addr) | CConst (b : bool).

Definition in_range (h : heap) (p : addr) : bool := existsb (Nat.eqb p) (map snd (table h)).
Lemma in_range_spec h p : in_range h p = true <-> range h p.
Proof.
  unfold in_range, range. rewrite existsb_exists. split.
  - intros (q & Hq & E). apply Nat.eqb_eq in E. subst. exact Hq.
  - intros H. exists p. split; auto. apply Nat.eqb_refl.
Qed.

(** a history is admissible when every pointer argument was handed out earlier *)
Fixpoint run (h : heap) (cs : list call) : option heap :=
  match cs with
  | [] => Some h
  | CConst b :: r => match h_mk_const h b with Some _ => run h r | None => None end
  | CMk t v f :: r =>
      if in_range h t && in_range h f then
        match h_mk_choice h t v f with Some (h', _) => run h' r | None => None end
      else None
  end.

Lemma Inv_new : Inv h_new.
Proof.
  constructor; cbn.
  - intros a t v f H. destruct a as [|[|a]]; cbn in H; try discriminate. destruct a; discriminate.
  - intros k p [H|[H|[]]]; inversion H; subst; cbn; auto.
  - repeat constructor; cbn; intuition discriminate.
  - intros k p t v f [H|[H|[]]] Hc; inversion H; subst; cbn in Hc; discriminate.
  - split; [exists 0|exists 1]; auto.
Qed.

Lemma range_struct h p : Inv h -> range h p -> exists k, struct h p = Some k.
Proof.
  intros I Hp. unfold range in Hp. apply in_map_iff in Hp. destruct Hp as ([k q] & <- & Hin).
  exists k. apply (inv_keys h I _ _ Hin).
Qed.

Theorem C13_histories : forall cs h h', Inv h -> run h cs = Some h' ->
  Inv h' /\ forall q, range h q -> range h' q /\ struct h' q = struct h q.
Proof.
  induction cs as [|c cs IH]; intros h h' I H; cbn [run] in H.
  - inversion H; subst. split; auto.
  - destruct c as [t v f|b].
    + destruct (in_range h t && in_range h f) eqn:E; [|discriminate]. apply andb_prop in E. destruct E as [Et Ef].
      apply in_range_spec in Et. apply in_range_spec in Ef.
      destruct (h_mk_choice h t v f) as [[h1 p]|] eqn:Em; [|discriminate].
      destruct (range_struct h t I Et) as (x & Sx). destruct (range_struct h f I Ef) as (y & Sy).
      destruct (mk_choice_ok h t v f h1 p x y I Et Ef Sx Sy Em) as (I1 & _ & _ & Hold).
      destruct (IH h1 h' I1 H) as (I' & Hold').
      split; auto. intros q Hq. destruct (Hold q Hq) as [R1 S1]. destruct (Hold' q R1) as [R2 S2]. split; auto. congruence.
    + destruct (h_mk_const h b); [|discriminate]. apply IH; auto.
Qed.

(** consequently, in every reachable table, pointer equality is structural equality *)
Corollary C13_sharing cs h' p q : run h_new cs = Some h' -> range h' p -> range h' q ->
  struct h' p = struct h' q -> p = q.
Proof.
  intros H. destruct (C13_histories cs h_new h' Inv_new H) as [I' _]. apply pointer_eq_is_structural_eq. exact I'.
Qed.
Print Assumptions C13_sharing.
