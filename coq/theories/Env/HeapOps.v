(** C13: the operations not / and / or as CLIENTS of the unique-table ADT.  Each is written over addresses exactly as
    src/bdd.rs writes it over Rc pointers (read the cells of the operands, recurse, finish with mk_choice / mk_const) and is
    proved to (a) keep the table invariant, (b) leave every pointer handed out earlier valid and unchanged, (c) return a
    pointer whose structure is the tree model's result on the operands' structures.  Hence the tree model of C02-C07 is a
    sound abstraction of the pointer-level computation for these operations, and every other connective of bdd.rs
    (implies, ite, eq, xor, nor, nand, var) is a composition of them. *)
From Coq Require Import List Arith Bool Lia PeanoNat.
Import ListNotations.
From Rsbdd Require Import Core.Bdd Core.Ops Core.OpsFacts Env.Heap.

Definition okres (h : heap) (r : bdd) (res : heap * addr) : Prop :=
  let (h', p) := res in
  Inv h' /\ range h' p /\ struct h' p = Some r /\ (forall q, range h q -> range h' q /\ struct h' q = struct h q).

Lemma okres_refl h p r : Inv h -> range h p -> struct h p = Some r -> okres h r (h, p).
Proof. intros. cbv beta iota delta [okres]. auto. Qed.

(** reading a cell of a handed-out pointer *)
Lemma struct_cell h a x : Inv h -> struct h a = Some x ->
  match nth_error (cells h) a with
  | Some CF => x = F
  | Some CT => x = T
  | Some (CN t v f) => exists xt xf, x = Nd xt v xf /\ struct h t = Some xt /\ struct h f = Some xf
  | None => False
  end.
Proof.
  intros I H. unfold struct in H. cbn [struct_f] in H.
  destruct (nth_error (cells h) a) as [[| |t v f]|] eqn:E; try (inversion H; reflexivity); try discriminate.
  destruct (inv_acyclic h I _ _ _ _ E) as [Lt Lf].
  destruct (struct_f a (cells h) t) as [xt|] eqn:Et; [|discriminate].
  destruct (struct_f a (cells h) f) as [xf|] eqn:Ef; [|discriminate].
  inversion H; subst. exists xt, xf. split; [reflexivity|]. unfold struct.
  rewrite <- (struct_f_fuel _ (inv_acyclic h I) a (S t) t) by lia.
  rewrite <- (struct_f_fuel _ (inv_acyclic h I) a (S f) f) by lia. auto.
Qed.
Lemma range_children h a t v f : Inv h -> range h a -> nth_error (cells h) a = Some (CN t v f) -> range h t /\ range h f.
Proof.
  intros I Ha E. unfold range in Ha. apply in_map_iff in Ha. destruct Ha as ([k q] & Eq & Hin). cbn in Eq. subst q.
  exact (inv_closed h I _ _ _ _ _ Hin E).
Qed.

Lemma mk_const_ok h b : Inv h -> exists p, h_mk_const h b = Some p /\ range h p /\ struct h p = Some (bconst b).
Proof.
  intros I. unfold h_mk_const.
  destruct (lookup (if b then T else F) (table h)) as [p|] eqn:L.
  - exists p. apply lookup_in in L. split; [reflexivity|]. split.
    + unfold range. apply in_map_iff. exists ((if b then T else F), p). auto.
    + destruct (inv_keys h I _ _ L) as [_ S]. destruct b; exact S.
  - exfalso. apply lookup_none in L. apply L. destruct (inv_leaves h I) as [[pt Ht] [pf Hf]].
    apply in_map_iff. destruct b; [exists (T, pt)|exists (F, pf)]; auto.
Qed.

Lemma okres_trans h h1 r (res : heap * addr) :
  (forall q, range h q -> range h1 q /\ struct h1 q = struct h q) -> okres h1 r res -> okres h r res.
Proof.
  destruct res as [h' p]. cbv beta iota delta [okres]. intros Hold (I' & R & S & Hold'). split; [exact I'|split; [exact R|split; [exact S|]]].
  intros q H. destruct (Hold q H) as [R1 S1]. destruct (Hold' q R1) as [R2 S2]. split; [exact R2|congruence].
Qed.

(** ---- not ---- *)
Fixpoint h_not (fuel : nat) (h : heap) (a : addr) : option (heap * addr) :=
  match fuel with
  | 0 => None
  | S k =>
    match nth_error (cells h) a with
    | Some CF => match h_mk_const h true with Some p => Some (h, p) | None => None end
    | Some CT => match h_mk_const h false with Some p => Some (h, p) | None => None end
    | Some (CN t v f) =>
        match h_not k h t with
        | Some (h1, t') =>
            match h_not k h1 f with
            | Some (h2, f') => h_mk_choice h2 t' v f'
            | None => None
            end
        | None => None
        end
    | None => None
    end
  end.

(** the common last step: two sub-results, then mk_choice *)
Lemma finish_choice h h1 h2 t' f' v xt xf res :
  okres h xt (h1, t') -> okres h1 xf (h2, f') -> h_mk_choice h2 t' v f' = Some res -> okres h (mk xt v xf) res.
Proof.
  intros (I1 & Rt & St & Hold1) (I2 & Rf & Sf & Hold2) Hm. destruct res as [h' p].
  destruct (Hold2 t' Rt) as [Rt2 St2].
  destruct (mk_choice_ok h2 t' v f' h' p xt xf I2 Rt2 Rf (eq_trans St2 St) Sf Hm) as (I' & Rp & Sp & Hold3).
  cbv beta iota delta [okres]. split; [exact I'|split; [exact Rp|split; [exact Sp|]]].
  intros q H. destruct (Hold1 q H) as [R1 S1]. destruct (Hold2 q R1) as [R2 S2]. destruct (Hold3 q R2) as [R3 S3]. split; [exact R3|rewrite S3, S2, S1; reflexivity].
Qed.

Theorem h_not_ok : forall fuel h a x res, Inv h -> range h a -> struct h a = Some x ->
  h_not fuel h a = Some res -> okres h (bnot x) res.
Proof.
  induction fuel as [|k IH]; intros h a x res I Ra Sa H; [discriminate|]. cbn [h_not] in H.
  pose proof (struct_cell h a x I Sa) as Hc.
  destruct (nth_error (cells h) a) as [[| |t v f]|] eqn:E; [| | |contradiction].
  - subst x. destruct (mk_const_ok h true I) as (p & Ep & Rp & Sp). rewrite Ep in H. inversion H; subst. apply okres_refl; auto.
  - subst x. destruct (mk_const_ok h false I) as (p & Ep & Rp & Sp). rewrite Ep in H. inversion H; subst. apply okres_refl; auto.
  - destruct Hc as (xt & xf & -> & St & Sf). destruct (range_children h a t v f I Ra E) as [Rt Rf].
    destruct (h_not k h t) as [[h1 t']|] eqn:E1; [|discriminate].
    pose proof (IH h t xt (h1, t') I Rt St E1) as O1.
    destruct O1 as (I1 & Rt' & St' & Hold1).
    destruct (Hold1 f Rf) as [Rf1 Sf1].
    destruct (h_not k h1 f) as [[h2 f']|] eqn:E2; [|discriminate].
    pose proof (IH h1 f xf (h2, f') I1 Rf1 (eq_trans Sf1 Sf) E2) as O2.
    cbn [bnot]. eapply finish_choice; [| exact O2 | exact H]. cbn. auto.
Qed.

Theorem h_not_total : forall fuel h a x, Inv h -> range h a -> struct h a = Some x -> height x < fuel ->
  exists res, h_not fuel h a = Some res.
Proof.
  induction fuel as [|k IH]; intros h a x I Ra Sa Hf; [lia|]. cbn [h_not].
  pose proof (struct_cell h a x I Sa) as Hc.
  destruct (nth_error (cells h) a) as [[| |t v f]|] eqn:E; [| | |contradiction].
  - destruct (mk_const_ok h true I) as (p & -> & _). eauto.
  - destruct (mk_const_ok h false I) as (p & -> & _). eauto.
  - destruct Hc as (xt & xf & -> & St & Sf). destruct (range_children h a t v f I Ra E) as [Rt Rf]. cbn [height] in Hf.
    destruct (IH h t xt I Rt St ltac:(lia)) as ([h1 t'] & E1). rewrite E1.
    destruct (h_not_ok k h t xt (h1, t') I Rt St E1) as (I1 & Rt' & St' & Hold1).
    destruct (Hold1 f Rf) as [Rf1 Sf1].
    destruct (IH h1 f xf I1 Rf1 (eq_trans Sf1 Sf) ltac:(lia)) as ([h2 f'] & E2). rewrite E2.
    destruct (h_not_ok k h1 f xf (h2, f') I1 Rf1 (eq_trans Sf1 Sf) E2) as (I2 & Rf' & Sf' & Hold2).
    destruct (Hold2 t' Rt') as [Rt2 St2].
    unfold h_mk_choice. rewrite St2, St', Sf'. destruct (bdd_eqb (bnot xt) (bnot xf)); [eauto|].
    destruct (lookup _ _); eauto.
Qed.

(** ---- and / or: one generic binary recursion with the leaf cases as parameters ---- *)
Inductive leafact := LConst (b : bool) | LLeft | LRight.
(** what the source does when one operand is a leaf: for [and]: (F,_) | (_,F) -> const false, (T,_) -> b, (_,T) -> a *)
Definition and_leaf (ca cb : cell) : option leafact :=
  match ca, cb with
  | CF, _ => Some (LConst false) | _, CF => Some (LConst false)
  | CT, _ => Some LRight | _, CT => Some LLeft
  | _, _ => None
  end.
Definition or_leaf (ca cb : cell) : option leafact :=
  match ca, cb with
  | CT, _ => Some (LConst true) | _, CT => Some (LConst true)
  | CF, _ => Some LRight | _, CF => Some LLeft
  | _, _ => None
  end.

Fixpoint h_bin (leaf : cell -> cell -> option leafact) (fuel : nat) (h : heap) (a b : addr) : option (heap * addr) :=
  match fuel with
  | 0 => None
  | S k =>
    match nth_error (cells h) a, nth_error (cells h) b with
    | Some ca, Some cb =>
        match leaf ca cb with
        | Some (LConst c) => match h_mk_const h c with Some p => Some (h, p) | None => None end
        | Some LLeft => Some (h, a)
        | Some LRight => Some (h, b)
        | None =>
            match ca, cb with
            | CN at_ va af, CN bt vb bf =>
                let go x1 y1 x2 y2 v :=
                  match h_bin leaf k h x1 y1 with
                  | Some (h1, t') => match h_bin leaf k h1 x2 y2 with
                                     | Some (h2, f') => h_mk_choice h2 t' v f'
                                     | None => None end
                  | None => None end in
                if va <? vb then go at_ b af b va
                else if vb <? va then go bt a bf a vb
                else go at_ bt af bf va
            | _, _ => None
            end
        end
    | _, _ => None
    end
  end.
Definition h_and := h_bin and_leaf.
Definition h_or := h_bin or_leaf.

(** the tree-level counterpart of the generic recursion *)
Definition leaf_spec (leaf : cell -> cell -> option leafact) (op : bdd -> bdd -> bdd) : Prop :=
  (forall x y ca cb, (ca = CF /\ x = F \/ ca = CT /\ x = T \/ exists t v f xt xf, ca = CN t v f /\ x = Nd xt v xf) ->
                     (cb = CF /\ y = F \/ cb = CT /\ y = T \/ exists t v f yt yf, cb = CN t v f /\ y = Nd yt v yf) ->
     match leaf ca cb with
     | Some (LConst c) => op x y = bconst c
     | Some LLeft => op x y = x
     | Some LRight => op x y = y
     | None => exists at_ va af bt vb bf, x = Nd at_ va af /\ y = Nd bt vb bf
     end) /\
  (forall at_ va af bt vb bf, op (Nd at_ va af) (Nd bt vb bf) =
     if va <? vb then mk (op at_ (Nd bt vb bf)) va (op af (Nd bt vb bf))
     else if vb <? va then mk (op bt (Nd at_ va af)) vb (op bf (Nd at_ va af))
     else mk (op at_ bt) va (op af bf)).

Lemma and_leaf_spec : leaf_spec and_leaf band.
Proof.
  split.
  - intros x y ca cb Ha Hb.
    destruct Ha as [[-> ->]|[[-> ->]|(t & v & f & xt & xf & -> & ->)]], Hb as [[-> ->]|[[-> ->]|(t' & v' & f' & yt & yf & -> & ->)]];
      cbn [and_leaf]; rewrite ?band_unfold; try reflexivity.
    do 6 eexists; split; reflexivity.
  - intros. rewrite band_unfold. reflexivity.
Qed.
Lemma or_leaf_spec : leaf_spec or_leaf bor.
Proof.
  split.
  - intros x y ca cb Ha Hb.
    destruct Ha as [[-> ->]|[[-> ->]|(t & v & f & xt & xf & -> & ->)]], Hb as [[-> ->]|[[-> ->]|(t' & v' & f' & yt & yf & -> & ->)]];
      cbn [or_leaf]; rewrite ?bor_unfold; try reflexivity.
    do 6 eexists; split; reflexivity.
  - intros. rewrite bor_unfold. reflexivity.
Qed.

Lemma cell_cases h a x : Inv h -> struct h a = Some x -> forall c, nth_error (cells h) a = Some c ->
  c = CF /\ x = F \/ c = CT /\ x = T \/ exists t v f xt xf, c = CN t v f /\ x = Nd xt v xf.
Proof.
  intros I S c E. pose proof (struct_cell h a x I S) as H. rewrite E in H. destruct c as [| |t v f].
  - left. auto.
  - right. left. auto.
  - right. right. destruct H as (xt & xf & -> & _). exists t, v, f, xt, xf. auto.
Qed.

Section Bin.
  Variable leaf : cell -> cell -> option leafact.
  Variable op : bdd -> bdd -> bdd.
  Hypothesis Hleaf : leaf_spec leaf op.

  Theorem h_bin_ok : forall fuel h a b x y res, Inv h -> range h a -> range h b ->
    struct h a = Some x -> struct h b = Some y -> h_bin leaf fuel h a b = Some res -> okres h (op x y) res.
  Proof.
    destruct Hleaf as [HL HN].
    induction fuel as [|k IH]; intros h a b x y res I Ra Rb Sa Sb H; [discriminate|]. cbn [h_bin] in H.
    pose proof (struct_cell h a x I Sa) as Ca. pose proof (struct_cell h b y I Sb) as Cb.
    destruct (nth_error (cells h) a) as [ca|] eqn:Ea; [|contradiction].
    destruct (nth_error (cells h) b) as [cb|] eqn:Eb; [|contradiction].
    pose proof (HL x y ca cb (cell_cases h a x I Sa ca Ea) (cell_cases h b y I Sb cb Eb)) as HLs.
    destruct (leaf ca cb) as [[c| |]|] eqn:El.
    - destruct (mk_const_ok h c I) as (p & Ep & Rp & Sp). rewrite Ep in H. inversion H; subst. rewrite HLs. apply okres_refl; auto.
    - inversion H; subst. rewrite HLs. apply okres_refl; auto.
    - inversion H; subst. rewrite HLs. apply okres_refl; auto.
    - destruct HLs as (xat & va & xaf & xbt & vb & xbf & -> & ->).
      destruct ca as [| |at_ va' af]; try discriminate Ca.
      destruct cb as [| |bt vb' bf]; try discriminate Cb.
      destruct Ca as (xt & xf & Ex & Sat & Saf). inversion Ex; subst xt va' xf. clear Ex.
      destruct Cb as (yt & yf & Ey & Sbt & Sbf). inversion Ey; subst yt vb' yf. clear Ey.
      destruct (range_children h a at_ va af I Ra Ea) as [Rat Raf].
      destruct (range_children h b bt vb bf I Rb Eb) as [Rbt Rbf].
      rewrite HN.
      assert (Step : forall x1 y1 x2 y2 v s1 t1 s2 t2, range h x1 -> range h y1 -> range h x2 -> range h y2 ->
                struct h x1 = Some s1 -> struct h y1 = Some t1 -> struct h x2 = Some s2 -> struct h y2 = Some t2 ->
                match h_bin leaf k h x1 y1 with
                | Some (h1, t') => match h_bin leaf k h1 x2 y2 with
                                   | Some (h2, f') => h_mk_choice h2 t' v f'
                                   | None => None end
                | None => None end = Some res -> okres h (mk (op s1 t1) v (op s2 t2)) res).
      { intros x1 y1 x2 y2 v s1 t1 s2 t2 R1 R2 R3 R4 S1 S2 S3 S4 Hgo.
        destruct (h_bin leaf k h x1 y1) as [[h1 t']|] eqn:E1; [|discriminate].
        pose proof (IH h x1 y1 s1 t1 (h1, t') I R1 R2 S1 S2 E1) as O1.
        pose proof O1 as (I1 & _ & _ & Hold1).
        destruct (Hold1 x2 R3) as [R3' S3']. destruct (Hold1 y2 R4) as [R4' S4'].
        destruct (h_bin leaf k h1 x2 y2) as [[h2 f']|] eqn:E2; [|discriminate].
        pose proof (IH h1 x2 y2 s2 t2 (h2, f') I1 R3' R4' (eq_trans S3' S3) (eq_trans S4' S4) E2) as O2.
        exact (finish_choice h h1 h2 t' f' v _ _ res O1 O2 Hgo). }
      destruct (va <? vb); [|destruct (vb <? va)].
      + exact (Step at_ b af b va _ _ _ _ Rat Rb Raf Rb Sat Sb Saf Sb H).
      + exact (Step bt a bf a vb _ _ _ _ Rbt Ra Rbf Ra Sbt Sa Sbf Sa H).
      + exact (Step at_ bt af bf va _ _ _ _ Rat Rbt Raf Rbf Sat Sbt Saf Sbf H).
  Qed.

  (** with enough fuel the recursion always answers: the "unsupported match" arm of the source is never reached *)
  Lemma mk_choice_total h t v f x y : struct h t = Some x -> struct h f = Some y -> exists res, h_mk_choice h t v f = Some res.
  Proof. intros Sx Sy. unfold h_mk_choice. rewrite Sx, Sy. destruct (bdd_eqb x y); [eauto|]. destruct (lookup _ _); eauto. Qed.

  Theorem h_bin_total : forall fuel h a b x y, Inv h -> range h a -> range h b ->
    struct h a = Some x -> struct h b = Some y -> height x + height y < fuel -> exists res, h_bin leaf fuel h a b = Some res.
  Proof.
    destruct Hleaf as [HL HN].
    induction fuel as [|k IH]; intros h a b x y I Ra Rb Sa Sb Hf; [lia|]. cbn [h_bin].
    pose proof (struct_cell h a x I Sa) as Ca. pose proof (struct_cell h b y I Sb) as Cb.
    destruct (nth_error (cells h) a) as [ca|] eqn:Ea; [|contradiction].
    destruct (nth_error (cells h) b) as [cb|] eqn:Eb; [|contradiction].
    pose proof (HL x y ca cb (cell_cases h a x I Sa ca Ea) (cell_cases h b y I Sb cb Eb)) as HLs.
    destruct (leaf ca cb) as [[c| |]|] eqn:El.
    - destruct (mk_const_ok h c I) as (p & -> & _). eauto.
    - eauto.
    - eauto.
    - destruct HLs as (xat & va & xaf & xbt & vb & xbf & -> & ->).
      destruct ca as [| |at_ va' af]; try discriminate Ca.
      destruct cb as [| |bt vb' bf]; try discriminate Cb.
      destruct Ca as (xt & xf & Ex & Sat & Saf). inversion Ex; subst xt va' xf. clear Ex.
      destruct Cb as (yt & yf & Ey & Sbt & Sbf). inversion Ey; subst yt vb' yf. clear Ey.
      destruct (range_children h a at_ va af I Ra Ea) as [Rat Raf].
      destruct (range_children h b bt vb bf I Rb Eb) as [Rbt Rbf].
      cbn [height] in Hf.
      assert (Step : forall x1 y1 x2 y2 v s1 t1 s2 t2, range h x1 -> range h y1 -> range h x2 -> range h y2 ->
                struct h x1 = Some s1 -> struct h y1 = Some t1 -> struct h x2 = Some s2 -> struct h y2 = Some t2 ->
                height s1 + height t1 < k -> height s2 + height t2 < k ->
                exists res, match h_bin leaf k h x1 y1 with
                | Some (h1, t') => match h_bin leaf k h1 x2 y2 with
                                   | Some (h2, f') => h_mk_choice h2 t' v f'
                                   | None => None end
                | None => None end = Some res).
      { intros x1 y1 x2 y2 v s1 t1 s2 t2 R1 R2 R3 R4 S1 S2 S3 S4 L1 L2.
        destruct (IH h x1 y1 s1 t1 I R1 R2 S1 S2 L1) as ([h1 t'] & E1). rewrite E1.
        pose proof (h_bin_ok k h x1 y1 s1 t1 (h1, t') I R1 R2 S1 S2 E1) as O1. cbv beta iota delta [okres] in O1. destruct O1 as (I1 & Rt' & St' & Hold1).
        destruct (Hold1 x2 R3) as [R3' S3']. destruct (Hold1 y2 R4) as [R4' S4'].
        destruct (IH h1 x2 y2 s2 t2 I1 R3' R4' (eq_trans S3' S3) (eq_trans S4' S4) L2) as ([h2 f'] & E2). rewrite E2.
        pose proof (h_bin_ok k h1 x2 y2 s2 t2 (h2, f') I1 R3' R4' (eq_trans S3' S3) (eq_trans S4' S4) E2) as O2. cbv beta iota delta [okres] in O2. destruct O2 as (I2 & Rf' & Sf' & Hold2).
        destruct (Hold2 t' Rt') as [_ St2].
        exact (mk_choice_total h2 t' v f' _ _ (eq_trans St2 St') Sf'). }
      pose proof (Nat.le_max_l (height xat) (height xaf)). pose proof (Nat.le_max_r (height xat) (height xaf)).
      pose proof (Nat.le_max_l (height xbt) (height xbf)). pose proof (Nat.le_max_r (height xbt) (height xbf)).
      destruct (va <? vb); [|destruct (vb <? va)].
      + apply (Step at_ b af b va _ _ _ _ Rat Rb Raf Rb Sat Sb Saf Sb); cbn [height]; lia.
      + apply (Step bt a bf a vb _ _ _ _ Rbt Ra Rbf Ra Sbt Sa Sbf Sa); cbn [height]; lia.
      + apply (Step at_ bt af bf va _ _ _ _ Rat Rbt Raf Rbf Sat Sbt Saf Sbf); lia.
  Qed.
End Bin.

Theorem h_and_ok fuel h a b x y res : Inv h -> range h a -> range h b ->
  struct h a = Some x -> struct h b = Some y -> h_and fuel h a b = Some res -> okres h (band x y) res.
Proof. exact (h_bin_ok and_leaf band and_leaf_spec fuel h a b x y res). Qed.
Theorem h_and_total fuel h a b x y : Inv h -> range h a -> range h b -> struct h a = Some x -> struct h b = Some y ->
  height x + height y < fuel -> exists res, h_and fuel h a b = Some res.
Proof. exact (h_bin_total and_leaf band and_leaf_spec fuel h a b x y). Qed.
Theorem h_or_ok fuel h a b x y res : Inv h -> range h a -> range h b ->
  struct h a = Some x -> struct h b = Some y -> h_or fuel h a b = Some res -> okres h (bor x y) res.
Proof. exact (h_bin_ok or_leaf bor or_leaf_spec fuel h a b x y res). Qed.

(** ---- exists_impl (bdd.rs:404-414): leaves are returned as they are, the quantified test becomes or(t, f) ---- *)
Fixpoint h_ex1 (fuel : nat) (x : nat) (h : heap) (a : addr) : option (heap * addr) :=
  match fuel with
  | 0 => None
  | S k =>
    match nth_error (cells h) a with
    | Some CF | Some CT => Some (h, a)
    | Some (CN t v f) =>
        if Nat.eqb v x then h_or (S k) h t f
        else match h_ex1 k x h t with
             | Some (h1, t') => match h_ex1 k x h1 f with
                                | Some (h2, f') => h_mk_choice h2 t' v f'
                                | None => None end
             | None => None end
    | None => None
    end
  end.
Theorem h_ex1_ok x : forall fuel h a sx res, Inv h -> range h a -> struct h a = Some sx ->
  h_ex1 fuel x h a = Some res -> okres h (bex1 x sx) res.
Proof.
  induction fuel as [|k IH]; intros h a sx res I Ra Sa H; [discriminate|]. cbn [h_ex1] in H.
  pose proof (struct_cell h a sx I Sa) as Hc.
  destruct (nth_error (cells h) a) as [[| |t v f]|] eqn:E; [| | |contradiction].
  - subst sx. inversion H; subst. apply okres_refl; auto.
  - subst sx. inversion H; subst. apply okres_refl; auto.
  - destruct Hc as (xt & xf & -> & St & Sf). destruct (range_children h a t v f I Ra E) as [Rt Rf]. cbn [bex1].
    destruct (Nat.eqb v x).
    + exact (h_or_ok (S k) h t f xt xf res I Rt Rf St Sf H).
    + destruct (h_ex1 k x h t) as [[h1 t']|] eqn:E1; [|discriminate].
      pose proof (IH h t xt (h1, t') I Rt St E1) as O1. pose proof O1 as (I1 & _ & _ & Hold1).
      destruct (Hold1 f Rf) as [Rf1 Sf1].
      destruct (h_ex1 k x h1 f) as [[h2 f']|] eqn:E2; [|discriminate].
      pose proof (IH h1 f xf (h2, f') I1 Rf1 (eq_trans Sf1 Sf) E2) as O2.
      exact (finish_choice h h1 h2 t' f' v _ _ res O1 O2 H).
Qed.

(** ---- compositions: every connective of bdd.rs is a program over not / and / or / var / const ---- *)
Inductive prog : Type :=
| PArg (i : nat) | PConst (b : bool) | PVar (v : nat)
| PNot (p : prog) | PAnd (p q : prog) | POr (p q : prog) | PEx1 (x : nat) (p : prog).

(** pointer level: operands are evaluated left to right, as Rust evaluates call arguments *)
Fixpoint h_run (fuel : nat) (h : heap) (args : list addr) (p : prog) : option (heap * addr) :=
  match p with
  | PArg i => match nth_error args i with Some a => Some (h, a) | None => None end
  | PConst b => match h_mk_const h b with Some a => Some (h, a) | None => None end
  | PVar v => match h_mk_const h true, h_mk_const h false with
              | Some t, Some f => h_mk_choice h t v f
              | _, _ => None end
  | PNot q => match h_run fuel h args q with Some (h1, a) => h_not fuel h1 a | None => None end
  | PAnd q r => match h_run fuel h args q with
                | Some (h1, a) => match h_run fuel h1 args r with
                                  | Some (h2, b) => h_and fuel h2 a b
                                  | None => None end
                | None => None end
  | POr q r => match h_run fuel h args q with
               | Some (h1, a) => match h_run fuel h1 args r with
                                 | Some (h2, b) => h_or fuel h2 a b
                                 | None => None end
               | None => None end
  | PEx1 x q => match h_run fuel h args q with Some (h1, a) => h_ex1 fuel x h1 a | None => None end
  end.
(** tree level *)
Fixpoint t_run (xs : list bdd) (p : prog) : bdd :=
  match p with
  | PArg i => nth i xs F
  | PConst b => bconst b
  | PVar v => bvar v
  | PNot q => bnot (t_run xs q)
  | PAnd q r => band (t_run xs q) (t_run xs r)
  | POr q r => bor (t_run xs q) (t_run xs r)
  | PEx1 x q => bex1 x (t_run xs q)
  end.

Definition valid_args (h : heap) (args : list addr) (xs : list bdd) : Prop :=
  Forall2 (fun a x => range h a /\ struct h a = Some x) args xs.
Lemma valid_args_keep h h1 args xs : (forall q, range h q -> range h1 q /\ struct h1 q = struct h q) ->
  valid_args h args xs -> valid_args h1 args xs.
Proof.
  intros Hold H. induction H as [|a x l l' [Ra Sa] _ IH]; constructor; auto.
  destruct (Hold a Ra) as [R1 S1]. split; [exact R1|congruence].
Qed.
Lemma valid_args_nth h args xs i a : valid_args h args xs -> nth_error args i = Some a ->
  range h a /\ struct h a = Some (nth i xs F).
Proof.
  intros H. revert i. induction H as [|a0 x l l' Hax _ IH]; intros [|i] E; cbn in *; try discriminate.
  - inversion E; subst. exact Hax.
  - apply IH. exact E.
Qed.

Lemma okres_step h h1 a x r (res : heap * addr) : okres h x (h1, a) ->
  (Inv h1 -> range h1 a -> struct h1 a = Some x -> okres h1 r res) -> okres h r res.
Proof.
  intros O K. pose proof O as (I1 & Ra & Sa & Hold). eapply okres_trans; [exact Hold|]. apply K; auto.
Qed.

Theorem h_run_ok : forall p fuel h args xs res, Inv h -> valid_args h args xs ->
  h_run fuel h args p = Some res -> okres h (t_run xs p) res.
Proof.
  induction p as [i|b|v|q IHq|q IHq r IHr|q IHq r IHr|x q IHq]; intros fuel h args xs res I Hv H; cbn [h_run t_run] in *.
  - destruct (nth_error args i) as [a|] eqn:E; [|discriminate]. inversion H; subst.
    destruct (valid_args_nth h args xs i a Hv E) as [Ra Sa]. apply okres_refl; auto.
  - destruct (mk_const_ok h b I) as (p & Ep & Rp & Sp). rewrite Ep in H. inversion H; subst. apply okres_refl; auto.
  - destruct (mk_const_ok h true I) as (pt & Ept & Rpt & Spt). destruct (mk_const_ok h false I) as (pf & Epf & Rpf & Spf).
    rewrite Ept, Epf in H. destruct res as [h' p].
    destruct (mk_choice_ok h pt v pf h' p T F I Rpt Rpf Spt Spf H) as (I' & Rp & Sp & Hold).
    cbv beta iota delta [okres]. unfold bvar. auto.
  - destruct (h_run fuel h args q) as [[h1 a]|] eqn:E1; [|discriminate].
    pose proof (IHq fuel h args xs (h1, a) I Hv E1) as O1.
    eapply okres_step; [exact O1|]. intros I1 Ra Sa. exact (h_not_ok fuel h1 a _ res I1 Ra Sa H).
  - destruct (h_run fuel h args q) as [[h1 a]|] eqn:E1; [|discriminate].
    pose proof (IHq fuel h args xs (h1, a) I Hv E1) as O1. pose proof O1 as (I1 & Ra & Sa & Hold1).
    destruct (h_run fuel h1 args r) as [[h2 b]|] eqn:E2; [|discriminate].
    pose proof (IHr fuel h1 args xs (h2, b) I1 (valid_args_keep h h1 args xs Hold1 Hv) E2) as O2. pose proof O2 as (I2 & Rb & Sb & Hold2).
    eapply okres_trans; [exact Hold1|]. eapply okres_trans; [exact Hold2|].
    destruct (Hold2 a Ra) as [Ra2 Sa2]. exact (h_and_ok fuel h2 a b _ _ res I2 Ra2 Rb (eq_trans Sa2 Sa) Sb H).
  - destruct (h_run fuel h args q) as [[h1 a]|] eqn:E1; [|discriminate].
    pose proof (IHq fuel h args xs (h1, a) I Hv E1) as O1. pose proof O1 as (I1 & Ra & Sa & Hold1).
    destruct (h_run fuel h1 args r) as [[h2 b]|] eqn:E2; [|discriminate].
    pose proof (IHr fuel h1 args xs (h2, b) I1 (valid_args_keep h h1 args xs Hold1 Hv) E2) as O2. pose proof O2 as (I2 & Rb & Sb & Hold2).
    eapply okres_trans; [exact Hold1|]. eapply okres_trans; [exact Hold2|].
    destruct (Hold2 a Ra) as [Ra2 Sa2]. exact (h_or_ok fuel h2 a b _ _ res I2 Ra2 Rb (eq_trans Sa2 Sa) Sb H).
  - destruct (h_run fuel h args q) as [[h1 a]|] eqn:E1; [|discriminate].
    pose proof (IHq fuel h args xs (h1, a) I Hv E1) as O1.
    eapply okres_step; [exact O1|]. intros I1 Ra Sa. exact (h_ex1_ok x fuel h1 a _ res I1 Ra Sa H).
Qed.

(** the connectives of bdd.rs:264-305 as programs, argument for argument *)
Definition p_implies (a b : prog) : prog := POr (PNot a) b.
Definition p_ite (a b c : prog) : prog := PAnd (p_implies a b) (p_implies (PNot a) c).
Definition p_eq (a b : prog) : prog := PAnd (p_implies a b) (p_implies b a).
Definition p_xor (a b : prog) : prog := POr (PAnd (PNot a) b) (PAnd a (PNot b)).
Definition p_nor (a b : prog) : prog := PAnd (PNot a) (PNot b).
Definition p_nand (a b : prog) : prog := PNot (PAnd a b).
(** counting (bdd.rs:307-325): cmp_count is a cascade of ite over the operand list *)
From Coq Require Import ZArith.
Fixpoint p_cmp_count (bs : list prog) (n : Z) (cmp : Z -> bool) : prog :=
  match bs with
  | [] => PConst (cmp n)
  | x :: rest => p_ite x (p_cmp_count rest (n - 1)%Z cmp) (p_cmp_count rest n cmp)
  end.
Lemma t_run_cmp_count xs cmp : forall bs n, t_run xs (p_cmp_count bs n cmp) = cmp_count (map (t_run xs) bs) n cmp.
Proof.
  induction bs as [|x rest IH]; intros n; cbn [p_cmp_count map cmp_count]; [reflexivity|].
  unfold p_ite, p_implies. cbn [t_run]. rewrite !IH. reflexivity.
Qed.
(** exists / all over a variable list (bdd.rs:392-419): exists_impl(first, exists(rest, b)); all = not exists not *)
Fixpoint p_exists (vs : list nat) (b : prog) : prog := match vs with [] => b | x :: r => PEx1 x (p_exists r b) end.
Definition p_all (vs : list nat) (b : prog) : prog := PNot (p_exists vs (PNot b)).
Lemma t_run_quantifiers xs vs b : t_run xs (p_exists vs b) = bex vs (t_run xs b) /\ t_run xs (p_all vs b) = ball vs (t_run xs b).
Proof.
  assert (H : forall c, t_run xs (p_exists vs c) = bex vs (t_run xs c)).
  { induction vs as [|x r IH]; intros c; cbn [p_exists bex t_run]; [reflexivity|]. rewrite IH. reflexivity. }
  split; [apply H|]. unfold p_all, ball. cbn [t_run]. rewrite H. reflexivity.
Qed.
Lemma t_run_connectives xs a b c :
  t_run xs (p_implies a b) = bimplies (t_run xs a) (t_run xs b) /\
  t_run xs (p_ite a b c) = bite (t_run xs a) (t_run xs b) (t_run xs c) /\
  t_run xs (p_eq a b) = beq (t_run xs a) (t_run xs b) /\
  t_run xs (p_xor a b) = bxor (t_run xs a) (t_run xs b) /\
  t_run xs (p_nor a b) = bnor (t_run xs a) (t_run xs b) /\
  t_run xs (p_nand a b) = bnand (t_run xs a) (t_run xs b).
Proof. repeat split; reflexivity. Qed.

(** a small run: in the empty environment build x0, x1 (mk_choice), then and, or, not of them; the results' structures are
    the tree model's, and not(not(x0 & x1)) is the very pointer of x0 & x1 *)
Example heap_ops_instance :
  match h_mk_choice h_new 0 0 1 with
  | Some (h1, x0) =>
    match h_mk_choice h1 0 1 1 with
    | Some (h2, x1) =>
      match h_and 10 h2 x0 x1 with
      | Some (h3, c) =>
        match h_not 10 h3 c with
        | Some (h4, nc) =>
          match h_not 10 h4 nc with
          | Some (h5, nnc) => struct h5 c = Some (band (bvar 0) (bvar 1)) /\ struct h5 nc = Some (bnot (band (bvar 0) (bvar 1))) /\ nnc = c
          | None => False end
        | None => False end
      | None => False end
    | None => False end
  | None => False end.
Proof. vm_compute. repeat split; reflexivity. Qed.
Print Assumptions h_not_ok. Print Assumptions h_and_ok. Print Assumptions h_or_ok. Print Assumptions h_run_ok.
