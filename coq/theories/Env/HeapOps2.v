(** C13, continued: model and retain_choice_bottom_up as clients of the unique-table ADT. *)
From Coq Require Import List Arith Bool Lia PeanoNat.
Import ListNotations.
From Rsbdd Require Import Core.Bdd Core.Ops Core.OpsFacts Env.Heap Env.HeapOps.

Definition cell_is_false (h : heap) (p : addr) : bool := match nth_error (cells h) p with Some CF => true | _ => false end.
Definition cell_is_const (h : heap) (p : addr) : bool := match nth_error (cells h) p with Some CF | Some CT => true | _ => false end.
Definition cell_is_true (h : heap) (p : addr) : bool := match nth_error (cells h) p with Some CT => true | _ => false end.

Lemma cell_is_false_spec h p x : Inv h -> struct h p = Some x -> cell_is_false h p = bdd_eqb x F.
Proof.
  intros I S. pose proof (struct_cell h p x I S) as H. unfold cell_is_false.
  destruct (nth_error (cells h) p) as [[| |t v f]|]; [subst; reflexivity|subst; reflexivity| |contradiction].
  destruct H as (xt & xf & -> & _). reflexivity.
Qed.
Lemma cell_is_const_spec h p x : Inv h -> struct h p = Some x -> cell_is_const h p = is_const x.
Proof.
  intros I S. pose proof (struct_cell h p x I S) as H. unfold cell_is_const.
  destruct (nth_error (cells h) p) as [[| |t v f]|]; [subst; reflexivity|subst; reflexivity| |contradiction].
  destruct H as (xt & xf & -> & _). reflexivity.
Qed.
Lemma cell_is_true_spec h p x : Inv h -> struct h p = Some x -> cell_is_true h p = is_true x.
Proof.
  intros I S. pose proof (struct_cell h p x I S) as H. unfold cell_is_true.
  destruct (nth_error (cells h) p) as [[| |t v f]|]; [subst; reflexivity|subst; reflexivity| |contradiction].
  destruct H as (xt & xf & -> & _). reflexivity.
Qed.

(** ---- model (bdd.rs:437-452) ---- *)
Fixpoint h_model (fuel : nat) (h : heap) (a : addr) : option (heap * addr) :=
  match fuel with
  | 0 => None
  | S k =>
    match nth_error (cells h) a with
    | Some CF | Some CT => Some (h, a)
    | Some (CN t v f) =>
        match h_model k h t with
        | Some (h1, lhs) =>
            match h_model k h1 f with
            | Some (h2, rhs) =>
                if negb (cell_is_false h2 lhs) then h_run (S k) h2 [lhs; rhs] (PAnd (PArg 0) (PVar v))
                else if negb (cell_is_false h2 rhs) then h_run (S k) h2 [lhs; rhs] (PAnd (PNot (PVar v)) (PArg 1))
                else h_run (S k) h2 [lhs; rhs] (PConst false)
            | None => None end
        | None => None end
    | None => None
    end
  end.

Theorem h_model_ok : forall fuel h a x res, Inv h -> range h a -> struct h a = Some x ->
  h_model fuel h a = Some res -> okres h (bmodel x) res.
Proof.
  induction fuel as [|k IH]; intros h a x res I Ra Sa H; [discriminate|]. cbn [h_model] in H.
  pose proof (struct_cell h a x I Sa) as Hc.
  destruct (nth_error (cells h) a) as [[| |t v f]|] eqn:E; [| | |contradiction].
  - subst x. inversion H; subst. apply okres_refl; auto.
  - subst x. inversion H; subst. apply okres_refl; auto.
  - destruct Hc as (xt & xf & -> & St & Sf). destruct (range_children h a t v f I Ra E) as [Rt Rf]. cbn [bmodel].
    destruct (h_model k h t) as [[h1 lhs]|] eqn:E1; [|discriminate].
    pose proof (IH h t xt (h1, lhs) I Rt St E1) as O1. pose proof O1 as (I1 & Rl & Sl & Hold1).
    destruct (Hold1 f Rf) as [Rf1 Sf1].
    destruct (h_model k h1 f) as [[h2 rhs]|] eqn:E2; [|discriminate].
    pose proof (IH h1 f xf (h2, rhs) I1 Rf1 (eq_trans Sf1 Sf) E2) as O2. pose proof O2 as (I2 & Rr & Sr & Hold2).
    destruct (Hold2 lhs Rl) as [Rl2 Sl2].
    assert (Hv : valid_args h2 [lhs; rhs] [bmodel xt; bmodel xf]).
    { constructor; [split; [exact Rl2|exact (eq_trans Sl2 Sl)]|]. constructor; [split; [exact Rr|exact Sr]|constructor]. }
    eapply okres_trans; [exact Hold1|]. eapply okres_trans; [exact Hold2|].
    rewrite (cell_is_false_spec h2 lhs (bmodel xt) I2 (eq_trans Sl2 Sl)) in H.
    rewrite (cell_is_false_spec h2 rhs (bmodel xf) I2 Sr) in H.
    destruct (negb (bdd_eqb (bmodel xt) F)).
    + exact (h_run_ok _ (S k) h2 _ _ res I2 Hv H).
    + destruct (negb (bdd_eqb (bmodel xf) F)).
      * exact (h_run_ok _ (S k) h2 _ _ res I2 Hv H).
      * exact (h_run_ok _ (S k) h2 _ _ res I2 Hv H).
Qed.

(** ---- retain_choice_bottom_up (bdd.rs:474-511), for a True / False filter ---- *)
Fixpoint h_retain (fuel : nat) (filt : bool) (h : heap) (a : addr) : option (heap * addr) :=
  match fuel with
  | 0 => None
  | S k =>
    match nth_error (cells h) a with
    | Some CF | Some CT => Some (h, a)
    | Some (CN l v r) =>
        match h_retain k filt h l with
        | Some (h1, l') =>
            match h_retain k filt h1 r with
            | Some (h2, r') =>
                if cell_is_const h2 l' && negb (cell_is_const h2 r') then
                  if negb (Bool.eqb (cell_is_true h2 l') filt) then Some (h2, r') else h_mk_choice h2 l' v r'
                else if cell_is_const h2 r' && negb (cell_is_const h2 l') then
                  if negb (Bool.eqb (cell_is_true h2 r') filt) then Some (h2, l') else h_mk_choice h2 l' v r'
                else h_mk_choice h2 l' v r'
            | None => None end
        | None => None end
    | None => None
    end
  end.

Theorem h_retain_ok filt : forall fuel h a x res, Inv h -> range h a -> struct h a = Some x ->
  h_retain fuel filt h a = Some res -> okres h (retain_go filt x) res.
Proof.
  induction fuel as [|k IH]; intros h a x res I Ra Sa H; [discriminate|]. cbn [h_retain] in H.
  pose proof (struct_cell h a x I Sa) as Hc.
  destruct (nth_error (cells h) a) as [[| |l v r]|] eqn:E; [| | |contradiction].
  - subst x. inversion H; subst. apply okres_refl; auto.
  - subst x. inversion H; subst. apply okres_refl; auto.
  - destruct Hc as (xl & xr & -> & Sl & Sr). destruct (range_children h a l v r I Ra E) as [Rl Rr]. cbn [retain_go].
    destruct (h_retain k filt h l) as [[h1 l']|] eqn:E1; [|discriminate].
    pose proof (IH h l xl (h1, l') I Rl Sl E1) as O1. pose proof O1 as (I1 & Rl' & Sl' & Hold1).
    destruct (Hold1 r Rr) as [Rr1 Sr1].
    destruct (h_retain k filt h1 r) as [[h2 r']|] eqn:E2; [|discriminate].
    pose proof (IH h1 r xr (h2, r') I1 Rr1 (eq_trans Sr1 Sr) E2) as O2. pose proof O2 as (I2 & Rr' & Sr' & Hold2).
    destruct (Hold2 l' Rl') as [Rl2 Sl2]. pose proof (eq_trans Sl2 Sl') as SL.
    rewrite (cell_is_const_spec h2 l' _ I2 SL), (cell_is_const_spec h2 r' _ I2 Sr'),
            (cell_is_true_spec h2 l' _ I2 SL), (cell_is_true_spec h2 r' _ I2 Sr') in H.
    assert (Keep : forall p y, range h2 p -> struct h2 p = Some y -> okres h y (h2, p)).
    { intros p y Rp Sp. eapply okres_trans; [exact Hold1|]. eapply okres_trans; [exact Hold2|]. apply okres_refl; auto. }
    assert (Mk : h_mk_choice h2 l' v r' = Some res -> okres h (mk (retain_go filt xl) v (retain_go filt xr)) res).
    { intros Hm. exact (finish_choice h h1 h2 l' r' v _ _ res O1 O2 Hm). }
    destruct (is_const (retain_go filt xl) && negb (is_const (retain_go filt xr))).
    + destruct (negb (Bool.eqb (is_true (retain_go filt xl)) filt)); [inversion H; subst; apply Keep; auto|apply Mk; exact H].
    + destruct (is_const (retain_go filt xr) && negb (is_const (retain_go filt xl))).
      * destruct (negb (Bool.eqb (is_true (retain_go filt xr)) filt)); [inversion H; subst; apply Keep; auto|apply Mk; exact H].
      * apply Mk; exact H.
Qed.
Print Assumptions h_model_ok. Print Assumptions h_retain_ok.

(** ---- clean (bdd.rs:112-122): re-interns the root from its children ---- *)
Definition h_clean (h : heap) (a : addr) : option (heap * addr) :=
  match nth_error (cells h) a with
  | Some (CN l s r) => h_mk_choice h l s r
  | Some _ => Some (h, a)
  | None => None
  end.
Theorem h_clean_ok h a x res : Inv h -> range h a -> struct h a = Some x -> h_clean h a = Some res -> okres h (clean x) res.
Proof.
  intros I Ra Sa H. unfold h_clean in H. pose proof (struct_cell h a x I Sa) as Hc.
  destruct (nth_error (cells h) a) as [[| |l s r]|] eqn:E; [| | |contradiction].
  - subst x. inversion H; subst. apply okres_refl; auto.
  - subst x. inversion H; subst. apply okres_refl; auto.
  - destruct Hc as (xl & xr & -> & Sl & Sr). destruct (range_children h a l s r I Ra E) as [Rl Rr]. destruct res as [h' p].
    destruct (mk_choice_ok h l s r h' p xl xr I Rl Rr Sl Sr H) as (I' & Rp & Sp & Hold).
    cbv beta iota delta [okres]. cbn [clean]. auto.
Qed.

(** ---- fp (bdd.rs:422-435): iterate a client transformer until the new iterate equals the old one.  The comparison
    `snew == s` of the source is structural; on handed-out pointers that is pointer equality (C13_sharing) ---- *)
Fixpoint h_fp (fuel : nat) (h : heap) (s : addr) (t : heap -> addr -> option (heap * addr)) : option (heap * addr) :=
  match fuel with
  | 0 => None
  | S k =>
    match t h s with
    | Some (h1, s') => if Nat.eqb s' s then Some (h1, s) else h_fp k h1 s' t
    | None => None
    end
  end.
Theorem h_fp_ok (t : heap -> addr -> option (heap * addr)) (tt : bdd -> bdd) :
  (forall h a x res, Inv h -> range h a -> struct h a = Some x -> t h a = Some res -> okres h (tt x) res) ->
  forall fuel h s x res, Inv h -> range h s -> struct h s = Some x -> h_fp fuel h s t = Some res ->
  exists r, fp_f fuel x tt = Some r /\ okres h r res.
Proof.
  intros Ht. induction fuel as [|k IH]; intros h s x res I Rs Ss H; [discriminate|]. cbn [h_fp fp_f] in *.
  destruct (t h s) as [[h1 s']|] eqn:E1; [|discriminate].
  pose proof (Ht h s x (h1, s') I Rs Ss E1) as O1. pose proof O1 as (I1 & Rs' & Ss' & Hold1).
  destruct (Hold1 s Rs) as [Rs1 Ss1].
  destruct (Nat.eqb_spec s' s) as [->|NE].
  - (* the same pointer: the same structure *)
    inversion H; subst. assert (Ett : tt x = x) by congruence. rewrite Ett, bdd_eqb_refl. exists x. split; [reflexivity|].
    cbv beta iota delta [okres]. split; [exact I1|split; [exact Rs1|split; [congruence|exact Hold1]]].
  - (* different pointers in one table: different structures *)
    destruct (bdd_eqb_spec (tt x) x) as [Ett|Nett].
    + exfalso. apply NE. apply (pointer_eq_is_structural_eq h1 s' s I1 Rs' Rs1). congruence.
    + destruct (IH h1 s' (tt x) res I1 Rs' Ss' H) as (r & Hr & Or). exists r. split; [exact Hr|].
      eapply okres_trans; [exact Hold1|exact Or].
Qed.
Print Assumptions h_clean_ok. Print Assumptions h_fp_ok.
