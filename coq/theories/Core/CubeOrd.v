(** C07 for every ORDERED diagram, reduced or not: nodes can be allocated through the public enum without mk_choice, so a
    diagram may contain redundant tests and "dead" nodes whose branches are both unsatisfiable.  [bmodel] is still right on
    those: it returns the false leaf exactly for the unsatisfiable ones and otherwise a reduced ordered cube that implies the
    diagram; [bnot] rebuilds its operand with [mk], so [binfer] is right as well. *)
From Coq Require Import List Arith Bool Lia PeanoNat.
Import ListNotations.
From Rsbdd Require Import Core.Bdd Core.Ops Core.OpsFacts Core.Sem Core.Canon Core.Pres Core.Cube.

Lemma cube_sat : forall c lo, is_cube c -> ord lo c -> exists s, beval s c = true.
Proof.
  induction c as [| |t IHt v f IHf]; intros lo Hc Ho; [destruct Hc|exists (fun _ => true); reflexivity|].
  cbn [ord] in Ho. destruct Ho as (Hv & Hot & Hof). cbn [is_cube] in Hc. destruct Hc as [[-> Hct]|[-> Hcf]].
  - destruct (IHt (S v) Hct Hot) as (s & Hs). exists (upd s v true). cbn [beval]. rewrite upd_same, beval_upd_above; auto.
  - destruct (IHf (S v) Hcf Hof) as (s & Hs). exists (upd s v false). cbn [beval]. rewrite upd_same, beval_upd_above; auto.
Qed.

(** the answer is the false leaf or a reduced ordered cube over variables of the operand *)
Lemma bmodel_ord : forall a lo, ord lo a ->
  (bmodel a = F \/ (is_cube (bmodel a) /\ shp lo (bmodel a))) /\ incl (support (bmodel a)) (support a).
Proof.
  induction a as [| |t IHt v f IHf]; intros lo Ho; cbn [bmodel].
  - split; [left; reflexivity|apply incl_refl].
  - split; [right; split; [exact I|split; exact I]|apply incl_refl].
  - cbn [ord] in Ho. destruct Ho as (Hv & Hot & Hof).
    destruct (IHt (S v) Hot) as [Ct St]. destruct (IHf (S v) Hof) as [Cf Sf].
    destruct (bdd_eqb_spec (bmodel t) F) as [Et|Et]; cbn [negb].
    + destruct (bdd_eqb_spec (bmodel f) F) as [Ef|Ef]; cbn [negb].
      * split; [left; reflexivity|intros x []].
      * destruct Cf as [Cf|(Cf & Of & Rf)]; [contradiction|].
        rewrite band_notvar_cube by auto. split.
        -- right. split; [cbn [is_cube]; right; auto|]. split; [cbn [ord]; auto|cbn [red]; repeat split; auto; congruence].
        -- cbn [support]. intros x [->|Hx]; [left; reflexivity|right; apply in_or_app; right; apply Sf; exact Hx].
    + destruct Ct as [Ct|(Ct & Ot & Rt)]; [contradiction|].
      rewrite band_cube_var by auto. split.
      * right. split; [cbn [is_cube]; left; auto|]. split; [cbn [ord]; auto|cbn [red]; repeat split; auto].
      * cbn [support]. intros x [->|Hx]; [left; reflexivity|].
        rewrite app_nil_r in Hx. right. apply in_or_app. left. apply St. exact Hx.
Qed.

Theorem C07_unsat_ordered a : ord 0 a -> (bmodel a = F <-> forall s, beval s a = false).
Proof.
  intros Ho. split.
  - (* a satisfying assignment of the operand makes the answer a cube *)
    intros Hm s. destruct (beval s a) eqn:E; [|reflexivity]. exfalso. revert Hm.
    generalize 0 Ho. clear Ho. revert s E.
    induction a as [| |t IHt v f IHf]; intros s E lo Ho; cbn [bmodel]; [discriminate|discriminate|].
    cbn [ord] in Ho. destruct Ho as (Hv & Hot & Hof). cbn [beval] in E.
    destruct (bmodel_ord t (S v) Hot) as [Ct _]. destruct (bmodel_ord f (S v) Hof) as [Cf _].
    destruct (bdd_eqb_spec (bmodel t) F) as [Et|Et]; cbn [negb].
    + destruct (s v) eqn:Sv; [intros _; exact (IHt s E (S v) Hot Et)|].
      destruct (bdd_eqb_spec (bmodel f) F) as [Ef|Ef]; cbn [negb]; [intros _; exact (IHf s E (S v) Hof Ef)|].
      destruct Cf as [Cf|(Cf & Of & Rf)]; [contradiction|]. rewrite band_notvar_cube by auto. discriminate.
    + destruct Ct as [Ct|(Ct & Ot & Rt)]; [contradiction|]. rewrite band_cube_var by auto. discriminate.
  - intros H. destruct (bmodel_ord a 0 Ho) as [[E|(C & O & R)] _]; [exact E|].
    destruct (cube_sat _ 0 C O) as (s & Hs). apply bmodel_implies in Hs. rewrite H in Hs. discriminate.
Qed.

Theorem C07_cube_ordered a : ord 0 a -> bmodel a <> F ->
  is_cube (bmodel a) /\ robdd (bmodel a) /\ incl (support (bmodel a)) (support a) /\
  forall s, beval s (bmodel a) = true -> beval s a = true.
Proof.
  intros Ho Hne. destruct (bmodel_ord a 0 Ho) as [[E|(C & S)] I]; [contradiction|].
  repeat split; auto; try apply S. apply bmodel_implies.
Qed.

(** negation rebuilds the whole operand with mk: its result is reduced whatever the operand looked like *)
Lemma bnot_shp : forall a lo, ord lo a -> shp lo (bnot a).
Proof.
  induction a as [| |t IHt v f IHf]; intros lo Ho; cbn [bnot]; [split; exact I|split; exact I|].
  cbn [ord] in Ho. destruct Ho as (Hv & Hot & Hof). destruct (IHt (S v) Hot) as [O1 R1]. destruct (IHf (S v) Hof) as [O2 R2].
  split; [apply ord_mk; auto|apply red_mk; auto].
Qed.

Theorem C07_infer_ordered m v : ord 0 m -> (binfer m v = (true, true) <-> forall s, beval s m = true -> s v = true).
Proof.
  intros Hm. unfold binfer.
  assert (Hi : robdd (bimplies m (bvar v))).
  { unfold bimplies. apply shp_bor; [apply bnot_shp; exact Hm|apply shp_bvar; lia]. }
  split.
  - intros H s Hs. destruct (bimplies m (bvar v)) eqn:E; try discriminate.
    assert (Hb : beval s (bimplies m (bvar v)) = true) by (rewrite E; reflexivity).
    rewrite bimplies_sem, bvar_sem, Hs in Hb. exact Hb.
  - intros H. rewrite (robdd_valid _ Hi); [reflexivity|].
    intros s. rewrite bimplies_sem, bvar_sem. destruct (beval s m) eqn:E; auto. cbn. apply H. exact E.
Qed.
Print Assumptions C07_unsat_ordered. Print Assumptions C07_cube_ordered. Print Assumptions C07_infer_ordered.
