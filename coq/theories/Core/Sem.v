(** C03: every connective computes the pointwise Boolean operation.  No ordering hypothesis. *)
From Coq Require Import List Arith Bool Lia PeanoNat ZArith.
Import ListNotations.
From Rsbdd Require Import Core.Bdd Core.Ops Core.OpsFacts.

Lemma beval_mk s t v f : beval s (mk t v f) = if s v then beval s t else beval s f.
Proof. unfold mk. destruct (bdd_eqb_spec t f); subst; cbn [beval]; destruct (s v); reflexivity. Qed.

Lemma band_sem s a b : beval s (band a b) = beval s a && beval s b.
Proof.
  revert a b. apply (pair_height_ind (fun a b => beval s (band a b) = beval s a && beval s b)).
  intros a b IH. rewrite band_unfold.
  destruct a as [| |at_ va af], b as [| |bt vb bf]; try reflexivity;
    try (cbn [beval]; destruct (s va); rewrite ?andb_true_r, ?andb_false_r; reflexivity).
  destruct (va <? vb) eqn:E1; [|destruct (vb <? va) eqn:E2].
  - rewrite beval_mk, !IH by (cbn [height]; lia). cbn [beval]. destruct (s va); reflexivity.
  - rewrite beval_mk, !IH by (cbn [height]; lia). cbn [beval]. destruct (s vb); apply andb_comm.
  - assert (va = vb) by (apply Nat.ltb_ge in E1, E2; lia). subst vb.
    rewrite beval_mk, !IH by (cbn [height]; lia). cbn [beval]. destruct (s va); reflexivity.
Qed.

Lemma bor_sem s a b : beval s (bor a b) = beval s a || beval s b.
Proof.
  revert a b. apply (pair_height_ind (fun a b => beval s (bor a b) = beval s a || beval s b)).
  intros a b IH. rewrite bor_unfold.
  destruct a as [| |at_ va af], b as [| |bt vb bf]; try reflexivity;
    try (cbn [beval]; destruct (s va); rewrite ?orb_true_r, ?orb_false_r; reflexivity).
  destruct (va <? vb) eqn:E1; [|destruct (vb <? va) eqn:E2].
  - rewrite beval_mk, !IH by (cbn [height]; lia). cbn [beval]. destruct (s va); reflexivity.
  - rewrite beval_mk, !IH by (cbn [height]; lia). cbn [beval]. destruct (s vb); apply orb_comm.
  - assert (va = vb) by (apply Nat.ltb_ge in E1, E2; lia). subst vb.
    rewrite beval_mk, !IH by (cbn [height]; lia). cbn [beval]. destruct (s va); reflexivity.
Qed.

Lemma bnot_sem s a : beval s (bnot a) = negb (beval s a).
Proof. induction a as [| |t IHt v f IHf]; cbn [bnot beval]; auto. rewrite beval_mk, IHt, IHf. destruct (s v); reflexivity. Qed.

Lemma bimplies_sem s a b : beval s (bimplies a b) = implb (beval s a) (beval s b).
Proof. unfold bimplies. rewrite bor_sem, bnot_sem. destruct (beval s a), (beval s b); reflexivity. Qed.
Lemma bite_sem s a b c : beval s (bite a b c) = if beval s a then beval s b else beval s c.
Proof. unfold bite. rewrite band_sem, !bimplies_sem, bnot_sem. destruct (beval s a), (beval s b), (beval s c); reflexivity. Qed.
Lemma beq_sem s a b : beval s (beq a b) = Bool.eqb (beval s a) (beval s b).
Proof. unfold beq. rewrite band_sem, !bimplies_sem. destruct (beval s a), (beval s b); reflexivity. Qed.
Lemma bxor_sem s a b : beval s (bxor a b) = xorb (beval s a) (beval s b).
Proof. unfold bxor. rewrite bor_sem, !band_sem, !bnot_sem. destruct (beval s a), (beval s b); reflexivity. Qed.
Lemma bnor_sem s a b : beval s (bnor a b) = negb (beval s a || beval s b).
Proof. unfold bnor. rewrite band_sem, !bnot_sem. destruct (beval s a), (beval s b); reflexivity. Qed.
Lemma bnand_sem s a b : beval s (bnand a b) = negb (beval s a && beval s b).
Proof. unfold bnand. rewrite bnot_sem, band_sem. reflexivity. Qed.
Lemma bvar_sem s v : beval s (bvar v) = s v.
Proof. unfold bvar. rewrite beval_mk. cbn [beval]. destruct (s v); reflexivity. Qed.
Lemma bconst_sem s b : beval s (bconst b) = b.
Proof. destruct b; reflexivity. Qed.

(** C05 (library level): counting *)
Fixpoint count_true (s : asg) (bs : list bdd) : Z :=
  match bs with [] => 0%Z | x :: r => ((if beval s x then 1 else 0) + count_true s r)%Z end.

Lemma cmp_count_sem s cmp : forall bs n, beval s (cmp_count bs n cmp) = cmp (n - count_true s bs)%Z.
Proof.
  induction bs as [|x r IH]; intros n; cbn [cmp_count count_true].
  - rewrite Z.sub_0_r. apply bconst_sem.
  - rewrite bite_sem, !IH. destruct (beval s x); f_equal; lia.
Qed.

Lemma aln_sem s bs n : beval s (aln bs n) = (n <=? count_true s bs)%Z.
Proof. unfold aln. rewrite cmp_count_sem. destruct (Z.leb_spec (n - count_true s bs) 0), (Z.leb_spec n (count_true s bs)); auto; lia. Qed.
Lemma amn_sem s bs n : beval s (amn bs n) = (count_true s bs <=? n)%Z.
Proof. unfold amn. rewrite cmp_count_sem. rewrite Z.geb_leb. destruct (Z.leb_spec 0 (n - count_true s bs)), (Z.leb_spec (count_true s bs) n); auto; lia. Qed.
Lemma exn_sem s bs n : beval s (exn bs n) = (count_true s bs =? n)%Z.
Proof. unfold exn. rewrite cmp_count_sem. destruct (Z.eqb_spec (n - count_true s bs) 0), (Z.eqb_spec (count_true s bs) n); auto; lia. Qed.

Lemma cmp_count_compare_sem s cmp : forall a b n,
  beval s (cmp_count_compare a b n cmp) = beval s (cmp b (n + count_true s a)%Z).
Proof.
  induction a as [|x r IH]; intros b n; cbn [cmp_count_compare count_true].
  - now rewrite Z.add_0_r.
  - rewrite bite_sem, !IH. destruct (beval s x); do 2 f_equal; lia.
Qed.

Lemma count_leq_sem s a b : beval s (count_leq a b) = (count_true s a <=? count_true s b)%Z.
Proof. unfold count_leq. rewrite cmp_count_compare_sem, aln_sem. reflexivity. Qed.
Lemma count_lt_sem s a b : beval s (count_lt a b) = (count_true s a <? count_true s b)%Z.
Proof. unfold count_lt. rewrite cmp_count_compare_sem, aln_sem. destruct (Z.leb_spec (1 + count_true s a) (count_true s b)), (Z.ltb_spec (count_true s a) (count_true s b)); auto; lia. Qed.
Lemma count_geq_sem s a b : beval s (count_geq a b) = (count_true s b <=? count_true s a)%Z.
Proof. unfold count_geq. rewrite cmp_count_compare_sem, amn_sem. reflexivity. Qed.
Lemma count_gt_sem s a b : beval s (count_gt a b) = (count_true s b <? count_true s a)%Z.
Proof. unfold count_gt. rewrite cmp_count_compare_sem, amn_sem. destruct (Z.leb_spec (count_true s b) (-1 + count_true s a)), (Z.ltb_spec (count_true s b) (count_true s a)); auto; lia. Qed.
Lemma count_eq_sem s a b : beval s (count_eq a b) = (count_true s a =? count_true s b)%Z.
Proof. unfold count_eq. rewrite band_sem, count_leq_sem, count_geq_sem.
  destruct (Z.leb_spec (count_true s a) (count_true s b)), (Z.leb_spec (count_true s b) (count_true s a)), (Z.eqb_spec (count_true s a) (count_true s b)); auto; lia. Qed.
