(** C06 (library): [fp] returns the first element of a, t a, t (t a), .. that t maps to itself. *)
From Coq Require Import List Arith Bool Lia PeanoNat.
From Rsbdd Require Import Core.Bdd Core.Ops Core.OpsFacts.

Fixpoint iter (k : nat) (t : bdd -> bdd) (a : bdd) : bdd := match k with 0 => a | S j => iter j t (t a) end.

Lemma iter_S k t a : iter (S k) t a = t (iter k t a).
Proof. revert a; induction k as [|k IH]; intros a; cbn [iter]; auto. rewrite <- IH. reflexivity. Qed.

Theorem C06_fp : forall n a t r, fp_f n a t = Some r <->
  exists k, k < n /\ r = iter k t a /\ t r = r /\ forall j, j < k -> t (iter j t a) <> iter j t a.
Proof.
  induction n as [|n IH]; intros a t r; cbn [fp_f].
  - split; [discriminate|intros (k & Hk & _); lia].
  - destruct (bdd_eqb_spec (t a) a) as [E|NE].
    + split.
      * intros H. inversion H; subst. exists 0. repeat split; auto; try lia; intros j Hj; lia.
      * intros (k & Hk & Hr & Hfix & Hmin). destruct k as [|k]; [cbn in Hr; congruence|].
        exfalso. apply (Hmin 0); [lia|exact E].
    + rewrite IH. split.
      * intros (k & Hk & Hr & Hfix & Hmin). exists (S k). repeat split; auto; try lia.
        intros [|j] Hj; [exact NE|]. cbn [iter]. apply Hmin. lia.
      * intros (k & Hk & Hr & Hfix & Hmin). destruct k as [|k].
        -- cbn in Hr. subst r. contradiction.
        -- exists k. repeat split; auto; try lia. intros j Hj. apply (Hmin (S j)). lia.
Qed.
