(** C02, first half: reduced ordered diagrams are canonical. *)
From Coq Require Import List Arith Bool Lia PeanoNat.
From Rsbdd Require Import Core.Bdd Core.Ops Core.OpsFacts Core.Sem.

Lemma ord_weaken lo lo' a : lo' <= lo -> ord lo a -> ord lo' a.
Proof. destruct a; cbn [ord]; intuition lia. Qed.

Lemma beval_indep : forall a lo s s', ord lo a -> (forall x, lo <= x -> s x = s' x) -> beval s a = beval s' a.
Proof.
  induction a as [| |t IHt v f IHf]; intros lo s s' Ho Hs; cbn [beval ord] in *; try reflexivity.
  destruct Ho as (Hv & Ht & Hf). rewrite (Hs v Hv).
  rewrite (IHt (S v) s s'), (IHf (S v) s s'); auto; intros; apply Hs; lia.
Qed.

Lemma upd_same s v b : upd s v b v = b.
Proof. unfold upd. now rewrite Nat.eqb_refl. Qed.
Lemma upd_other s v b x : x <> v -> upd s v b x = s x.
Proof. unfold upd. intros. destruct (Nat.eqb_spec x v); congruence. Qed.

Lemma beval_upd_above a v s b : ord (S v) a -> beval (upd s v b) a = beval s a.
Proof.
  intros H. apply beval_indep with (lo := S v); auto.
  intros x Hx. apply upd_other. lia.
Qed.

Lemma cofactors t v f b lo : ord lo (Nd t v f) -> ord (S v) b -> equiv (Nd t v f) b -> equiv t b /\ equiv f b.
Proof.
  cbn [ord]. intros (Hv & Ht & Hf) Hb E. split; intros s.
  - specialize (E (upd s v true)). cbn [beval] in E. rewrite upd_same in E. rewrite !beval_upd_above in E; auto.
  - specialize (E (upd s v false)). cbn [beval] in E. rewrite upd_same in E. rewrite !beval_upd_above in E; auto.
Qed.

Lemma equiv_sym a b : equiv a b -> equiv b a.
Proof. intros E s. symmetry. apply E. Qed.

Lemma canon_aux : forall n a b lo, height a + height b < n ->
  ord lo a -> red a -> ord lo b -> red b -> equiv a b -> a = b.
Proof.
  induction n as [|n IH]; intros a b lo Hn Hoa Hra Hob Hrb E; [lia|].
  destruct a as [| |t v f], b as [| |t' v' f']; try reflexivity;
    try (specialize (E (fun _ => true)); cbn [beval] in E; discriminate).
  - exfalso. destruct (cofactors t' v' f' F lo Hob I (equiv_sym _ _ E)) as [E1 E2].
    cbn [ord red height] in *. destruct Hrb as (Hne & ? & ?). apply Hne.
    transitivity F; [|symmetry]; eapply (IH _ _ (S v')); cbn [ord red height]; try tauto; try lia.
  - exfalso. destruct (cofactors t' v' f' T lo Hob I (equiv_sym _ _ E)) as [E1 E2].
    cbn [ord red height] in *. destruct Hrb as (Hne & ? & ?). apply Hne.
    transitivity T; [|symmetry]; eapply (IH _ _ (S v')); cbn [ord red height]; try tauto; try lia.
  - exfalso. destruct (cofactors t v f F lo Hoa I E) as [E1 E2].
    cbn [ord red height] in *. destruct Hra as (Hne & ? & ?). apply Hne.
    transitivity F; [|symmetry]; eapply (IH _ _ (S v)); cbn [ord red height]; try tauto; try lia.
  - exfalso. destruct (cofactors t v f T lo Hoa I E) as [E1 E2].
    cbn [ord red height] in *. destruct Hra as (Hne & ? & ?). apply Hne.
    transitivity T; [|symmetry]; eapply (IH _ _ (S v)); cbn [ord red height]; try tauto; try lia.
  - pose proof Hoa as Hoa'. pose proof Hob as Hob'.
    cbn [ord red height] in Hoa, Hra, Hob, Hrb, Hn.
    destruct Hoa as (Hv & Hot & Hof), Hob as (Hv' & Hot' & Hof'), Hra as (Hne & Hrt & Hrf), Hrb as (Hne' & Hrt' & Hrf').
    destruct (lt_eq_lt_dec v v') as [[Hlt|Heq]|Hgt].
    + exfalso. assert (Hb : ord (S v) (Nd t' v' f')) by (cbn [ord]; split; [lia|split; eapply ord_weaken; try eassumption; lia]).
      destruct (cofactors t v f _ lo Hoa' Hb E) as [E1 E2]. apply Hne.
      transitivity (Nd t' v' f'); [|symmetry]; eapply (IH _ _ (S v)); auto; cbn [ord red height]; auto; try lia.
    + subst v'. f_equal.
      * eapply (IH _ _ (S v)); auto; try lia. intros s. specialize (E (upd s v true)). cbn [beval] in E.
        rewrite !upd_same in E. rewrite !beval_upd_above in E; auto.
      * eapply (IH _ _ (S v)); auto; try lia. intros s. specialize (E (upd s v false)). cbn [beval] in E.
        rewrite !upd_same in E. rewrite !beval_upd_above in E; auto.
    + exfalso. assert (Ha : ord (S v') (Nd t v f)) by (cbn [ord]; split; [lia|split; eapply ord_weaken; try eassumption; lia]).
      destruct (cofactors t' v' f' _ lo Hob' Ha (equiv_sym _ _ E)) as [E1 E2]. apply Hne'.
      transitivity (Nd t v f); [|symmetry]; eapply (IH _ _ (S v')); auto; cbn [ord red height]; auto; try lia.
Qed.

Theorem canon lo a b : ord lo a -> red a -> ord lo b -> red b -> equiv a b -> a = b.
Proof. intros. eapply (canon_aux (S (height a + height b))); eauto. Qed.

Theorem robdd_canonical a b : robdd a -> robdd b -> (a = b <-> equiv a b).
Proof.
  intros [Oa Ra] [Ob Rb]. split; [intros -> s; reflexivity|]. apply (canon 0); auto.
Qed.

Corollary robdd_valid a : robdd a -> (forall s, beval s a = true) -> a = T.
Proof. intros Ha H. apply (robdd_canonical a T Ha); [split; cbn; auto|exact H]. Qed.
Corollary robdd_unsat a : robdd a -> (forall s, beval s a = false) -> a = F.
Proof. intros Ha H. apply (robdd_canonical a F Ha); [split; cbn; auto|exact H]. Qed.

(** boolean reflections of the shape predicates, for the checkers *)
Lemma ordb_spec : forall a lo, ordb lo a = true <-> ord lo a.
Proof.
  induction a as [| |t IHt v f IHf]; intros lo; cbn [ordb ord]; [tauto|tauto|].
  rewrite !andb_true_iff, Nat.leb_le, IHt, IHf. tauto.
Qed.
Lemma redb_spec : forall a, redb a = true <-> red a.
Proof.
  induction a as [| |t IHt v f IHf]; cbn [redb red]; [tauto|tauto|].
  rewrite !andb_true_iff, negb_true_iff, IHt, IHf.
  destruct (bdd_eqb_spec t f); intuition congruence.
Qed.
Lemma robddb_spec a : robddb a = true <-> robdd a.
Proof. unfold robddb, robdd. rewrite andb_true_iff, ordb_spec, redb_spec. tauto. Qed.
