(** C04: quantifiers eliminate exactly the listed variables. *)
From Coq Require Import List Arith Bool Lia PeanoNat.
Import ListNotations.
From Rsbdd Require Import Core.Bdd Core.Ops Core.OpsFacts Core.Sem Core.Canon Core.Pres.

Definition ex1 (v : nat) (d : asg -> bool) : asg -> bool := fun s => d (upd s v true) || d (upd s v false).
Definition all1 (v : nat) (d : asg -> bool) : asg -> bool := fun s => d (upd s v true) && d (upd s v false).

Lemma bex1_sem x : forall b lo s, ord lo b -> beval s (bex1 x b) = ex1 x (fun s => beval s b) s.
Proof.
  unfold ex1. induction b as [| |t IHt v f IHf]; intros lo s Ho; cbn [bex1 beval]; auto.
  destruct Ho as (Hv & Ht & Hf).
  destruct (Nat.eqb_spec v x).
  - subst v. rewrite !upd_same, bor_sem, !beval_upd_above; auto.
  - rewrite beval_mk, (IHt (S v)), (IHf (S v)); auto. rewrite !upd_other by auto.
    destruct (s v); reflexivity.
Qed.

Lemma bex_sem vs : forall b lo s, shp lo b -> beval s (bex vs b) = fold_right ex1 (fun s => beval s b) vs s.
Proof.
  induction vs as [|x vs IH]; intros b lo s Hb; cbn [bex fold_right]; auto.
  rewrite (bex1_sem x _ lo) by (apply shp_bex; auto). unfold ex1.
  rewrite !(IH b lo) by auto. reflexivity.
Qed.

Lemma ball_sem vs b lo s : shp lo b -> beval s (ball vs b) = fold_right all1 (fun s => beval s b) vs s.
Proof.
  intros Hb. unfold ball. rewrite bnot_sem, (bex_sem vs _ lo) by (apply shp_bnot; auto).
  revert s. induction vs as [|x vs IH]; intros s; cbn [fold_right].
  - rewrite bnot_sem. apply negb_involutive.
  - unfold ex1, all1 in *. rewrite negb_orb, !IH. reflexivity.
Qed.

(** "some / every re-assignment of the variables in V" *)
Definition agree_outside (vs : list nat) (s s' : asg) : Prop := forall x, ~ In x vs -> s x = s' x.

Definition respects (d : asg -> bool) : Prop := forall s s', (forall x, s x = s' x) -> d s = d s'.

Lemma beval_ext b : respects (fun s => beval s b).
Proof. induction b as [| |t IHt v f IHf]; intros s s' H; cbn [beval]; auto. rewrite (H v), (IHt s s' H), (IHf s s' H). reflexivity. Qed.

Lemma respects_ex1 v d : respects d -> respects (ex1 v d).
Proof.
  intros Hd s s' H. unfold ex1. f_equal; apply Hd; intros x; unfold upd; destruct (Nat.eqb x v); auto.
Qed.
Lemma respects_all1 v d : respects d -> respects (all1 v d).
Proof.
  intros Hd s s' H. unfold all1. f_equal; apply Hd; intros x; unfold upd; destruct (Nat.eqb x v); auto.
Qed.
Lemma respects_fold_ex1 d vs : respects d -> respects (fold_right ex1 d vs).
Proof. intros Hd. induction vs; cbn [fold_right]; auto using respects_ex1. Qed.
Lemma respects_fold_all1 d vs : respects d -> respects (fold_right all1 d vs).
Proof. intros Hd. induction vs; cbn [fold_right]; auto using respects_all1. Qed.

Lemma fold_ex1_spec (d : asg -> bool) : respects d -> forall vs s,
  fold_right ex1 d vs s = true <-> exists s', agree_outside vs s s' /\ d s' = true.
Proof.
  intros Hd. induction vs as [|v vs IH]; intros s; cbn [fold_right].
  - split; [intros H; exists s; split; auto; intros x _; reflexivity|].
    intros (s' & Ha & Hs'). rewrite (Hd s s'); auto; intros x; apply Ha; intros [].
  - unfold ex1 at 1. rewrite orb_true_iff, !IH. split.
    + intros [(s' & Ha & Hs')|(s' & Ha & Hs')]; exists s'; (split; [|exact Hs']);
        intros x Hx; rewrite <- Ha by (intros Hin; apply Hx; right; exact Hin);
        symmetry; apply upd_other; intros ->; apply Hx; left; reflexivity.
    + intros (s' & Ha & Hs'). destruct (s' v) eqn:E; [left|right]; exists s'; (split; [|exact Hs']);
        intros x Hx; unfold upd; destruct (Nat.eqb_spec x v) as [->|Hne]; auto;
        apply Ha; intros [->|Hin]; congruence.
Qed.

Lemma fold_all1_spec (d : asg -> bool) : respects d -> forall vs s,
  fold_right all1 d vs s = true <-> forall s', agree_outside vs s s' -> d s' = true.
Proof.
  intros Hd. induction vs as [|v vs IH]; intros s; cbn [fold_right].
  - split; [|intros H; apply H; intros x _; reflexivity].
    intros H s' Ha. rewrite <- (Hd s s'); auto; intros x; apply Ha; intros [].
  - unfold all1 at 1. rewrite andb_true_iff, !IH. split.
    + intros [H1 H0] s' Ha. destruct (s' v) eqn:E; [apply H1|apply H0];
        intros x Hx; unfold upd; destruct (Nat.eqb_spec x v) as [->|Hne]; auto;
        apply Ha; intros [->|Hin]; congruence.
    + intros H. split; intros s' Ha; apply H; intros x Hx;
        rewrite <- Ha by (intros Hin; apply Hx; right; exact Hin);
        symmetry; apply upd_other; intros ->; apply Hx; left; reflexivity.
Qed.

Theorem C04_exists vs b s : robdd b ->
  (beval s (bex vs b) = true <-> exists s', agree_outside vs s s' /\ beval s' b = true).
Proof. intros Hb. rewrite (bex_sem vs b 0) by exact Hb. apply (fold_ex1_spec _ (beval_ext b)). Qed.

Theorem C04_all vs b s : robdd b ->
  (beval s (ball vs b) = true <-> forall s', agree_outside vs s s' -> beval s' b = true).
Proof. intros Hb. rewrite (ball_sem vs b 0) by exact Hb. apply (fold_all1_spec _ (beval_ext b)). Qed.

(** semantic independence, then the structural corollaries through canonicity *)
Definition depends_on (b : bdd) (v : nat) : Prop := exists s, beval (upd s v true) b <> beval (upd s v false) b.

Lemma ex1_indep v d : respects d -> forall s x, ex1 v d (upd s v x) = ex1 v d s.
Proof.
  intros Hd s x. unfold ex1. f_equal; apply Hd; intros y; unfold upd; destruct (Nat.eqb y v); reflexivity.
Qed.

Theorem C04_equal_sets vs vs' b : robdd b -> (forall v, In v vs <-> In v vs') -> bex vs b = bex vs' b.
Proof.
  intros Hb Hvs. apply (canon 0); try apply (shp_bex _ _ 0 Hb).
  intros s. destruct (beval s (bex vs b)) eqn:E1, (beval s (bex vs' b)) eqn:E2; auto.
  - apply (C04_exists vs b s Hb) in E1. destruct E1 as (s' & Ha & Hs').
    assert (beval s (bex vs' b) = true); [|congruence].
    apply (C04_exists vs' b s Hb). exists s'. split; auto. intros x Hx. apply Ha. rewrite Hvs. exact Hx.
  - apply (C04_exists vs' b s Hb) in E2. destruct E2 as (s' & Ha & Hs').
    assert (beval s (bex vs b) = true); [|congruence].
    apply (C04_exists vs b s Hb). exists s'. split; auto. intros x Hx. apply Ha. rewrite <- Hvs. exact Hx.
Qed.

Lemma beval_agree_support : forall b s s', (forall x, In x (support b) -> s x = s' x) -> beval s b = beval s' b.
Proof.
  induction b as [| |t IHt v f IHf]; intros s s' H; cbn [beval support] in *; auto.
  rewrite (H v) by (left; reflexivity).
  rewrite (IHt s s'), (IHf s s'); auto; intros x Hx; apply H; right; apply in_or_app; auto.
Qed.

Theorem C04_disjoint vs b : robdd b -> (forall v, In v vs -> ~ In v (support b)) -> bex vs b = b.
Proof.
  intros Hb Hd. apply (canon 0); try apply Hb; try apply (shp_bex _ _ 0 Hb).
  intros s. destruct (beval s (bex vs b)) eqn:E.
  - apply (C04_exists vs b s Hb) in E. destruct E as (s' & Ha & Hs'). rewrite <- Hs'.
    apply beval_agree_support. intros x Hx. symmetry. apply Ha. intros Hin. exact (Hd x Hin Hx).
  - destruct (beval s b) eqn:E2; auto.
    assert (beval s (bex vs b) = true); [|congruence].
    apply (C04_exists vs b s Hb). exists s. split; auto. intros x _. reflexivity.
Qed.

Theorem C04_indep vs b v s x : robdd b -> In v vs -> beval (upd s v x) (bex vs b) = beval s (bex vs b).
Proof.
  intros Hb Hin.
  assert (H : forall s1 s2, agree_outside [v] s1 s2 -> beval s1 (bex vs b) = true -> beval s2 (bex vs b) = true).
  { intros s1 s2 Hag H1. apply (C04_exists vs b s1 Hb) in H1. destruct H1 as (s' & Ha & Hs').
    apply (C04_exists vs b s2 Hb). exists s'. split; auto. intros y Hy. rewrite <- Ha by exact Hy.
    symmetry. apply Hag. intros [->|[]]. exact (Hy Hin). }
  assert (Hag1 : agree_outside [v] (upd s v x) s) by (intros y Hy; apply upd_other; intros ->; apply Hy; left; reflexivity).
  assert (Hag2 : agree_outside [v] s (upd s v x)) by (intros y Hy; symmetry; apply Hag1; exact Hy).
  destruct (beval (upd s v x) (bex vs b)) eqn:E1, (beval s (bex vs b)) eqn:E2; auto.
  - rewrite (H _ _ Hag1 E1) in E2. discriminate.
  - rewrite (H _ _ Hag2 E2) in E1. discriminate.
Qed.
