(** Fuel is invisible: unfolding equations for [band] and [bor]. *)
From Coq Require Import List Arith Bool Lia PeanoNat.
From Rsbdd Require Import Core.Bdd Core.Ops.

Lemma bdd_eqb_spec a b : reflect (a = b) (bdd_eqb a b).
Proof.
  revert b; induction a as [| |t IHt v f IHf]; intros [| |t' v' f']; simpl; try (constructor; congruence).
  destruct (IHt t'); simpl; [|constructor; congruence].
  destruct (Nat.eqb_spec v v'); simpl; [|constructor; congruence].
  destruct (IHf f'); constructor; congruence.
Qed.

Lemma bdd_eqb_refl a : bdd_eqb a a = true.
Proof. destruct (bdd_eqb_spec a a); congruence. Qed.

Lemma band_f_indep : forall k1 k2 a b,
  height a + height b < k1 -> height a + height b < k2 -> band_f k1 a b = band_f k2 a b.
Proof.
  induction k1 as [|k1 IH]; intros k2 a b H1 H2; [lia|].
  destruct k2 as [|k2]; [lia|].
  destruct a as [| |at_ va af], b as [| |bt vb bf]; try reflexivity.
  cbn [band_f]. cbn [height] in *.
  destruct (va <? vb); [|destruct (vb <? va)]; f_equal; apply IH; cbn [height]; lia.
Qed.

Lemma band_unfold a b : band a b =
  match a, b with
  | F, _ => F
  | _, F => F
  | T, _ => b
  | _, T => a
  | Nd at_ va af, Nd bt vb bf =>
      if va <? vb then mk (band at_ b) va (band af b)
      else if vb <? va then mk (band bt a) vb (band bf a)
      else mk (band at_ bt) va (band af bf)
  end.
Proof.
  destruct a as [| |at_ va af], b as [| |bt vb bf]; try reflexivity.
  unfold band at 1. cbn [band_f]. unfold band.
  destruct (va <? vb); [|destruct (vb <? va)]; f_equal; apply band_f_indep; cbn [height]; lia.
Qed.

Lemma bor_f_indep : forall k1 k2 a b,
  height a + height b < k1 -> height a + height b < k2 -> bor_f k1 a b = bor_f k2 a b.
Proof.
  induction k1 as [|k1 IH]; intros k2 a b H1 H2; [lia|].
  destruct k2 as [|k2]; [lia|].
  destruct a as [| |at_ va af], b as [| |bt vb bf]; try reflexivity.
  cbn [bor_f]. cbn [height] in *.
  destruct (va <? vb); [|destruct (vb <? va)]; f_equal; apply IH; cbn [height]; lia.
Qed.

Lemma bor_unfold a b : bor a b =
  match a, b with
  | T, _ => T
  | _, T => T
  | F, _ => b
  | _, F => a
  | Nd at_ va af, Nd bt vb bf =>
      if va <? vb then mk (bor at_ b) va (bor af b)
      else if vb <? va then mk (bor bt a) vb (bor bf a)
      else mk (bor at_ bt) va (bor af bf)
  end.
Proof.
  destruct a as [| |at_ va af], b as [| |bt vb bf]; try reflexivity.
  unfold bor at 1. cbn [bor_f]. unfold bor.
  destruct (va <? vb); [|destruct (vb <? va)]; f_equal; apply bor_f_indep; cbn [height]; lia.
Qed.

(** induction principle shared by every proof about [band]/[bor] *)
Lemma pair_height_ind (P : bdd -> bdd -> Prop) :
  (forall a b, (forall a' b', height a' + height b' < height a + height b -> P a' b') -> P a b) ->
  forall a b, P a b.
Proof.
  intros H a b. remember (height a + height b) as n eqn:E.
  revert a b E. induction n as [n IH] using lt_wf_ind. intros a b E. apply H.
  intros a' b' Hlt. apply (IH (height a' + height b')); [lia|reflexivity].
Qed.
