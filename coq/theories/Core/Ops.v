(** L1: the operations of [BDDEnv] (src/bdd.rs), case order and argument order as in the source.
    Definitions only. *)
From Coq Require Import List Arith Bool PeanoNat ZArith.
Import ListNotations.
From Rsbdd Require Import Core.Bdd.

(** [and] (bdd.rs:200-222).  Non-structural recursion: fuel, see OpsFacts.band_unfold. *)
Fixpoint band_f (fuel : nat) (a b : bdd) {struct fuel} : bdd :=
  match fuel with
  | O => F
  | S k =>
    match a, b with
    | F, _ => F
    | _, F => F
    | T, _ => b
    | _, T => a
    | Nd at_ va af, Nd bt vb bf =>
        if va <? vb then mk (band_f k at_ b) va (band_f k af b)
        else if vb <? va then mk (band_f k bt a) vb (band_f k bf a)
        else mk (band_f k at_ bt) va (band_f k af bf)
    end
  end.
Definition band (a b : bdd) : bdd := band_f (S (height a + height b)) a b.

(** [or] (bdd.rs:225-250) *)
Fixpoint bor_f (fuel : nat) (a b : bdd) {struct fuel} : bdd :=
  match fuel with
  | O => F
  | S k =>
    match a, b with
    | T, _ => T
    | _, T => T
    | F, _ => b
    | _, F => a
    | Nd at_ va af, Nd bt vb bf =>
        if va <? vb then mk (bor_f k at_ b) va (bor_f k af b)
        else if vb <? va then mk (bor_f k bt a) vb (bor_f k bf a)
        else mk (bor_f k at_ bt) va (bor_f k af bf)
    end
  end.
Definition bor (a b : bdd) : bdd := bor_f (S (height a + height b)) a b.

(** [not] (253-261) *)
Fixpoint bnot (a : bdd) : bdd :=
  match a with F => T | T => F | Nd t v f => mk (bnot t) v (bnot f) end.

Definition bimplies (a b : bdd) : bdd := bor (bnot a) b.                                   (* 264 *)
Definition bite (a b c : bdd) : bdd := band (bimplies a b) (bimplies (bnot a) c).           (* 269 *)
Definition beq (a b : bdd) : bdd := band (bimplies a b) (bimplies b a).                     (* 277 *)
Definition bxor (a b : bdd) : bdd := bor (band (bnot a) b) (band a (bnot b)).               (* 285 *)
Definition bnor (a b : bdd) : bdd := band (bnot a) (bnot b).                                (* 293 *)
Definition bnand (a b : bdd) : bdd := bnot (band a b).                                      (* 298 *)
Definition bvar (v : nat) : bdd := mk T v F.                                                (* 303 *)

(** [cmp_count] (307-325); the i64 bound is a [Z], see Count.range lemmas *)
Fixpoint cmp_count (bs : list bdd) (n : Z) (cmp : Z -> bool) : bdd :=
  match bs with
  | [] => bconst (cmp n)
  | x :: rest => bite x (cmp_count rest (n - 1)%Z cmp) (cmp_count rest n cmp)
  end.
Definition aln (bs : list bdd) (n : Z) : bdd := cmp_count bs n (fun k => (k <=? 0)%Z).
Definition amn (bs : list bdd) (n : Z) : bdd := cmp_count bs n (fun k => (k >=? 0)%Z).
Definition exn (bs : list bdd) (n : Z) : bdd := cmp_count bs n (fun k => (k =? 0)%Z).

(** [cmp_count_compare] (359-378) *)
Fixpoint cmp_count_compare (a b : list bdd) (n : Z) (cmp : list bdd -> Z -> bdd) : bdd :=
  match a with
  | [] => cmp b n
  | x :: rest => bite x (cmp_count_compare rest b (n + 1)%Z cmp) (cmp_count_compare rest b n cmp)
  end.
Definition count_leq (a b : list bdd) : bdd := cmp_count_compare a b 0%Z aln.
Definition count_lt  (a b : list bdd) : bdd := cmp_count_compare a b 1%Z aln.
Definition count_geq (a b : list bdd) : bdd := cmp_count_compare a b 0%Z amn.
Definition count_gt  (a b : list bdd) : bdd := cmp_count_compare a b (-1)%Z amn.
Definition count_eq  (a b : list bdd) : bdd := band (count_leq a b) (count_geq a b).

(** [exists_impl] (404-414), [exists] (392-401), [all] (417-419) *)
Fixpoint bex1 (x : nat) (b : bdd) : bdd :=
  match b with
  | Nd t v f => if Nat.eqb v x then bor t f else mk (bex1 x t) v (bex1 x f)
  | _ => b
  end.
Fixpoint bex (vs : list nat) (b : bdd) : bdd :=
  match vs with [] => b | x :: rest => bex1 x (bex rest b) end.
Definition ball (vs : list nat) (b : bdd) : bdd := bnot (bex vs (bnot b)).

(** [fp] (422-435): may diverge, hence fuel and [option] *)
Fixpoint fp_f (fuel : nat) (s : bdd) (t : bdd -> bdd) : option bdd :=
  match fuel with
  | O => None
  | S k => let s' := t s in if bdd_eqb s' s then Some s else fp_f k s' t
  end.

(** [model] (437-452) *)
Fixpoint bmodel (a : bdd) : bdd :=
  match a with
  | Nd t v f =>
      let lhs := bmodel t in
      let rhs := bmodel f in
      if negb (bdd_eqb lhs F) then band lhs (bvar v)
      else if negb (bdd_eqb rhs F) then band (bnot (bvar v)) rhs
      else F
  | _ => a
  end.

(** [infer] (457-464) *)
Definition binfer (a : bdd) (v : nat) : bool * bool :=
  match bimplies a (bvar v) with
  | Nd _ _ _ => (false, false)
  | T => (true, true)
  | F => (true, false)
  end.

(** [TruthTableEntry] and [retain_choice_bottom_up] (474-511) *)
Inductive tte : Type := TTrue | TFalse | TAny.
Definition tte_is_true (e : tte) : bool := match e with TTrue => true | _ => false end.
Fixpoint retain_go (filt : bool) (src : bdd) : bdd :=
  match src with
  | Nd l v r =>
      let l' := retain_go filt l in
      let r' := retain_go filt r in
      if is_const l' && negb (is_const r') then
        if negb (Bool.eqb (is_true l') filt) then r' else mk l' v r'
      else if is_const r' && negb (is_const l') then
        if negb (Bool.eqb (is_true r') filt) then l' else mk l' v r'
      else mk l' v r'
  | _ => src
  end.
Definition retain (src : bdd) (filter : tte) : bdd :=
  match filter with TAny => src | _ => retain_go (tte_is_true filter) src end.

(** [clean] (112-122): re-interns the root; structurally [mk] of the children *)
Definition clean (root : bdd) : bdd :=
  match root with Nd l s r => mk l s r | _ => root end.
