(** C20: dropping forced choices is sound in the direction of the filter. *)
From Coq Require Import List Arith Bool Lia PeanoNat.
Import ListNotations.
From Rsbdd Require Import Core.Bdd Core.Ops Core.OpsFacts Core.Sem Core.Canon Core.Pres.

Lemma retain_go_true : forall a s, beval s a = true -> beval s (retain_go true a) = true.
Proof.
  induction a as [| |l IHl v r IHr]; intros s H; cbn [retain_go beval] in *; auto.
  assert (Hmk : beval s (mk (retain_go true l) v (retain_go true r)) = true).
  { rewrite beval_mk. destruct (s v); auto. }
  destruct (is_const (retain_go true l) && negb (is_const (retain_go true r))) eqn:E1.
  - destruct (negb (Bool.eqb (is_true (retain_go true l)) true)) eqn:E2; auto.
    apply andb_prop in E1. destruct E1 as [Ec _].
    destruct (s v) eqn:Ev; auto. specialize (IHl s H).
    destruct (retain_go true l); cbn in *; try discriminate.
  - destruct (is_const (retain_go true r) && negb (is_const (retain_go true l))) eqn:E3; auto.
    destruct (negb (Bool.eqb (is_true (retain_go true r)) true)) eqn:E4; auto.
    apply andb_prop in E3. destruct E3 as [Ec _].
    destruct (s v) eqn:Ev; auto. specialize (IHr s H).
    destruct (retain_go true r); cbn in *; try discriminate.
Qed.

Lemma retain_go_false : forall a s, beval s (retain_go false a) = true -> beval s a = true.
Proof.
  induction a as [| |l IHl v r IHr]; intros s H; cbn [retain_go beval] in *; auto.
  assert (Hmk : beval s (mk (retain_go false l) v (retain_go false r)) = true -> (if s v then beval s l else beval s r) = true).
  { rewrite beval_mk. destruct (s v); auto. }
  destruct (is_const (retain_go false l) && negb (is_const (retain_go false r))) eqn:E1.
  - destruct (negb (Bool.eqb (is_true (retain_go false l)) false)) eqn:E2; auto.
    apply andb_prop in E1. destruct E1 as [Ec _].
    destruct (s v) eqn:Ev; auto. apply IHl.
    destruct (retain_go false l); cbn in *; try discriminate; reflexivity.
  - destruct (is_const (retain_go false r) && negb (is_const (retain_go false l))) eqn:E3; auto.
    destruct (negb (Bool.eqb (is_true (retain_go false r)) false)) eqn:E4; auto.
    apply andb_prop in E3. destruct E3 as [Ec _].
    destruct (s v) eqn:Ev; auto. apply IHr.
    destruct (retain_go false r); cbn in *; try discriminate; reflexivity.
Qed.

Theorem C20_true a s : beval s a = true -> beval s (retain a TTrue) = true.
Proof. apply retain_go_true. Qed.
Theorem C20_false a s : beval s (retain a TFalse) = true -> beval s a = true.
Proof. apply retain_go_false. Qed.
Theorem C20_any a : retain a TAny = a.
Proof. reflexivity. Qed.

Lemma retain_go_support filt : forall a, incl (support (retain_go filt a)) (support a).
Proof.
  induction a as [| |l IHl v r IHr]; cbn [retain_go support]; try apply incl_refl.
  assert (Hmk : incl (support (mk (retain_go filt l) v (retain_go filt r))) (v :: support l ++ support r)).
  { unfold mk. destruct (bdd_eqb _ _).
    - intros x Hx. right. apply in_or_app. left. apply IHl. exact Hx.
    - cbn [support]. intros x [->|Hx]; [left; reflexivity|right].
      apply in_app_or in Hx. apply in_or_app. destruct Hx; [left; apply IHl|right; apply IHr]; assumption. }
  assert (Hl : incl (support (retain_go filt l)) (v :: support l ++ support r)).
  { intros x Hx. right. apply in_or_app. left. apply IHl. exact Hx. }
  assert (Hr : incl (support (retain_go filt r)) (v :: support l ++ support r)).
  { intros x Hx. right. apply in_or_app. right. apply IHr. exact Hx. }
  destruct (_ && _); [destruct (negb _); auto|]. destruct (_ && _); [destruct (negb _); auto|auto].
Qed.

Theorem C20_shape a f : robdd a -> robdd (retain a f) /\ incl (support (retain a f)) (support a).
Proof.
  intros Ha. split; [apply (shp_retain a f 0 Ha)|].
  destruct f; cbn [retain]; try apply incl_refl; apply retain_go_support.
Qed.
