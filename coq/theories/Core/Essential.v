(** Constructive canonicity: two different reduced ordered diagrams are told apart by an
    assignment; hence every variable in the support of such a diagram is essential. *)
From Coq Require Import List Arith Bool Lia PeanoNat.
Import ListNotations.
From Rsbdd Require Import Core.Bdd Core.Ops Core.OpsFacts Core.Sem Core.Canon Core.Pres.

Lemma bdd_eq_dec (a b : bdd) : {a = b} + {a <> b}.
Proof. destruct (bdd_eqb_spec a b); auto. Qed.

Lemma distinguish_aux : forall n a b lo, height a + height b < n ->
  shp lo a -> shp lo b -> a <> b -> exists s, beval s a <> beval s b.
Proof.
  induction n as [|n IH]; intros a b lo Hn [Oa Ra] [Ob Rb] Hne; [lia|].
  destruct a as [| |t v f], b as [| |t' v' f']; try congruence;
    try (exists (fun _ => true); cbn; discriminate).
  - (* F vs node *)
    cbn [ord red height] in *. destruct Ob as (Hv & Ot & Of), Rb as (Hn' & Rt & Rf).
    destruct (bdd_eq_dec t' F) as [Et|Et].
    + assert (Ef : F <> f') by congruence.
      destruct (IH F f' (S v') ltac:(cbn [height]; lia) (conj I I) (conj Of Rf) Ef) as (s & Hs).
      exists (upd s v' false). cbn [beval]. rewrite upd_same, beval_upd_above; auto.
    + destruct (IH F t' (S v') ltac:(cbn [height]; lia) (conj I I) (conj Ot Rt) ltac:(congruence)) as (s & Hs).
      exists (upd s v' true). cbn [beval]. rewrite upd_same, beval_upd_above; auto.
  - cbn [ord red height] in *. destruct Ob as (Hv & Ot & Of), Rb as (Hn' & Rt & Rf).
    destruct (bdd_eq_dec t' T) as [Et|Et].
    + assert (Ef : T <> f') by congruence.
      destruct (IH T f' (S v') ltac:(cbn [height]; lia) (conj I I) (conj Of Rf) Ef) as (s & Hs).
      exists (upd s v' false). cbn [beval]. rewrite upd_same, beval_upd_above; auto.
    + destruct (IH T t' (S v') ltac:(cbn [height]; lia) (conj I I) (conj Ot Rt) ltac:(congruence)) as (s & Hs).
      exists (upd s v' true). cbn [beval]. rewrite upd_same, beval_upd_above; auto.
  - cbn [ord red height] in *. destruct Oa as (Hv & Ot & Of), Ra as (Hn' & Rt & Rf).
    destruct (bdd_eq_dec t F) as [Et|Et].
    + assert (Ef : f <> F) by congruence.
      destruct (IH f F (S v) ltac:(cbn [height]; lia) (conj Of Rf) (conj I I) Ef) as (s & Hs).
      exists (upd s v false). cbn [beval]. rewrite upd_same, beval_upd_above; auto.
    + destruct (IH t F (S v) ltac:(cbn [height]; lia) (conj Ot Rt) (conj I I) Et) as (s & Hs).
      exists (upd s v true). cbn [beval]. rewrite upd_same, beval_upd_above; auto.
  - cbn [ord red height] in *. destruct Oa as (Hv & Ot & Of), Ra as (Hn' & Rt & Rf).
    destruct (bdd_eq_dec t T) as [Et|Et].
    + assert (Ef : f <> T) by congruence.
      destruct (IH f T (S v) ltac:(cbn [height]; lia) (conj Of Rf) (conj I I) Ef) as (s & Hs).
      exists (upd s v false). cbn [beval]. rewrite upd_same, beval_upd_above; auto.
    + destruct (IH t T (S v) ltac:(cbn [height]; lia) (conj Ot Rt) (conj I I) Et) as (s & Hs).
      exists (upd s v true). cbn [beval]. rewrite upd_same, beval_upd_above; auto.
  - pose proof Oa as Oa'. pose proof Ob as Ob'.
    cbn [ord red height] in Oa, Ob, Ra, Rb, Hn.
    destruct Oa as (Hv & Ot & Of), Ra as (Hna & Rt & Rf), Ob as (Hv' & Ot' & Of'), Rb as (Hnb & Rt' & Rf').
    destruct (lt_eq_lt_dec v v') as [[Hlt|Heq]|Hgt].
    + (* v < v': b does not mention v *)
      assert (Ob2 : ord (S v) (Nd t' v' f')) by (cbn [ord]; split; [lia|split; eapply ord_weaken; try eassumption; lia]).
      destruct (bdd_eq_dec t (Nd t' v' f')) as [Et|Et].
      * assert (Ef : f <> Nd t' v' f') by congruence.
        destruct (IH f (Nd t' v' f') (S v) ltac:(cbn [height]; lia) (conj Of Rf) (conj Ob2 (conj Hnb (conj Rt' Rf'))) Ef) as (s & Hs).
        exists (upd s v false). cbn [beval] in *. rewrite upd_same.
        rewrite (beval_upd_above f) by auto.
        change (if upd s v false v' then beval (upd s v false) t' else beval (upd s v false) f') with (beval (upd s v false) (Nd t' v' f')).
        rewrite (beval_upd_above (Nd t' v' f')) by auto. exact Hs.
      * destruct (IH t (Nd t' v' f') (S v) ltac:(cbn [height]; lia) (conj Ot Rt) (conj Ob2 (conj Hnb (conj Rt' Rf'))) Et) as (s & Hs).
        exists (upd s v true). cbn [beval] in *. rewrite upd_same.
        rewrite (beval_upd_above t) by auto.
        change (if upd s v true v' then beval (upd s v true) t' else beval (upd s v true) f') with (beval (upd s v true) (Nd t' v' f')).
        rewrite (beval_upd_above (Nd t' v' f')) by auto. exact Hs.
    + subst v'. destruct (bdd_eq_dec t t') as [Et|Et].
      * assert (Ef : f <> f') by congruence.
        destruct (IH f f' (S v) ltac:(lia) (conj Of Rf) (conj Of' Rf') Ef) as (s & Hs).
        exists (upd s v false). cbn [beval]. rewrite !upd_same, !beval_upd_above; auto.
      * destruct (IH t t' (S v) ltac:(lia) (conj Ot Rt) (conj Ot' Rt') Et) as (s & Hs).
        exists (upd s v true). cbn [beval]. rewrite !upd_same, !beval_upd_above; auto.
    + assert (Oa2 : ord (S v') (Nd t v f)) by (cbn [ord]; split; [lia|split; eapply ord_weaken; try eassumption; lia]).
      destruct (bdd_eq_dec t' (Nd t v f)) as [Et|Et].
      * assert (Ef : Nd t v f <> f') by congruence.
        destruct (IH (Nd t v f) f' (S v') ltac:(cbn [height]; lia) (conj Oa2 (conj Hna (conj Rt Rf))) (conj Of' Rf') Ef) as (s & Hs).
        exists (upd s v' false). cbn [beval] in *. rewrite upd_same.
        rewrite (beval_upd_above f') by auto.
        change (if upd s v' false v then beval (upd s v' false) t else beval (upd s v' false) f) with (beval (upd s v' false) (Nd t v f)).
        rewrite (beval_upd_above (Nd t v f)) by auto. exact Hs.
      * destruct (IH (Nd t v f) t' (S v') ltac:(cbn [height]; lia) (conj Oa2 (conj Hna (conj Rt Rf))) (conj Ot' Rt') ltac:(congruence)) as (s & Hs).
        exists (upd s v' true). cbn [beval] in *. rewrite upd_same.
        rewrite (beval_upd_above t') by auto.
        change (if upd s v' true v then beval (upd s v' true) t else beval (upd s v' true) f) with (beval (upd s v' true) (Nd t v f)).
        rewrite (beval_upd_above (Nd t v f)) by auto. exact Hs.
Qed.

Theorem distinguish lo a b : shp lo a -> shp lo b -> a <> b -> exists s, beval s a <> beval s b.
Proof. intros. eapply (distinguish_aux (S (height a + height b))); eauto. Qed.

Lemma ord_support_gt : forall b lo x, ord lo b -> In x (support b) -> lo <= x.
Proof.
  induction b as [| |t IHt v f IHf]; intros lo x Ho Hx; cbn [support] in Hx; [destruct Hx|destruct Hx|].
  cbn [ord] in Ho. destruct Ho as (Hv & Ot & Of). destruct Hx as [->|Hx]; auto.
  apply in_app_or in Hx. destruct Hx as [Hx|Hx]; [specialize (IHt _ _ Ot Hx)|specialize (IHf _ _ Of Hx)]; lia.
Qed.

Lemma upd_comm s x y a b : x <> y -> forall z, upd (upd s x a) y b z = upd (upd s y b) x a z.
Proof. intros Hne z. unfold upd. destruct (Nat.eqb_spec z y), (Nat.eqb_spec z x); subst; congruence. Qed.

(** every variable of a reduced ordered diagram matters *)
Theorem essential : forall b lo x, shp lo b -> In x (support b) ->
  exists s, beval (upd s x true) b <> beval (upd s x false) b.
Proof.
  induction b as [| |t IHt v f IHf]; intros lo x [Ho Hr] Hx; cbn [support] in Hx; [destruct Hx|destruct Hx|].
  cbn [ord red] in Ho, Hr. destruct Ho as (Hv & Ot & Of), Hr as (Hn & Rt & Rf).
  destruct Hx as [<-|Hx].
  - destruct (distinguish (S v) t f (conj Ot Rt) (conj Of Rf) Hn) as (s & Hs).
    exists s. cbn [beval]. rewrite !upd_same, !beval_upd_above; auto.
  - apply in_app_or in Hx. destruct Hx as [Hx|Hx].
    + pose proof (ord_support_gt _ _ _ Ot Hx) as Hgt.
      destruct (IHt (S v) x (conj Ot Rt) Hx) as (s & Hs).
      exists (upd s v true). cbn [beval].
      rewrite !(upd_other _ x _ v) by lia. rewrite !upd_same.
      rewrite (beval_indep t (S v) (upd (upd s v true) x true) (upd s x true)); auto;
        [|intros z Hz; rewrite upd_comm by lia; apply upd_other; lia].
      rewrite (beval_indep t (S v) (upd (upd s v true) x false) (upd s x false)); auto.
      intros z Hz. rewrite upd_comm by lia. apply upd_other. lia.
    + pose proof (ord_support_gt _ _ _ Of Hx) as Hgt.
      destruct (IHf (S v) x (conj Of Rf) Hx) as (s & Hs).
      exists (upd s v false). cbn [beval].
      rewrite !(upd_other _ x _ v) by lia. rewrite !upd_same.
      rewrite (beval_indep f (S v) (upd (upd s v false) x true) (upd s x true)); auto;
        [|intros z Hz; rewrite upd_comm by lia; apply upd_other; lia].
      rewrite (beval_indep f (S v) (upd (upd s v false) x false) (upd s x false)); auto.
      intros z Hz. rewrite upd_comm by lia. apply upd_other. lia.
Qed.

(** contrapositive, the form used by C04/C09: semantic independence gives absence from the support *)
Corollary independent_not_in_support b x : robdd b ->
  (forall s, beval (upd s x true) b = beval (upd s x false) b) -> ~ In x (support b).
Proof. intros Hb Hind Hin. destruct (essential b 0 x Hb Hin) as (s & Hs). apply Hs, Hind. Qed.
