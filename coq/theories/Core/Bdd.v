(** L0: diagrams.  Model of [rsbdd::bdd::BDD] (src/bdd.rs:24-31) as an immutable tree.
    Definitions only. *)
From Coq Require Import List Arith Bool PeanoNat.
Import ListNotations.

(** [Nd t v f] is [BDD::Choice(true_subtree, symbol, false_subtree)]. *)
Inductive bdd : Type := F | T | Nd (t : bdd) (v : nat) (f : bdd).

(** derive(PartialEq): structural equality *)
Fixpoint bdd_eqb (a b : bdd) : bool :=
  match a, b with
  | F, F => true
  | T, T => true
  | Nd t v f, Nd t' v' f' => bdd_eqb t t' && Nat.eqb v v' && bdd_eqb f f'
  | _, _ => false
  end.

(** [mk_choice] = [simplify] + interning; interning is invisible structurally (see Env/Heap). *)
Definition mk (t : bdd) (v : nat) (f : bdd) : bdd := if bdd_eqb t f then t else Nd t v f.

Fixpoint height (a : bdd) : nat :=
  match a with Nd t _ f => S (Nat.max (height t) (height f)) | _ => 0 end.

Definition asg := nat -> bool.
Definition upd (s : asg) (v : nat) (b : bool) : asg := fun x => if Nat.eqb x v then b else s x.

Fixpoint beval (s : asg) (a : bdd) : bool :=
  match a with F => false | T => true | Nd t v f => if s v then beval s t else beval s f end.

Fixpoint support (a : bdd) : list nat :=
  match a with Nd t v f => v :: support t ++ support f | _ => [] end.

(** ordered from [lo]: variables >= lo, strictly increasing towards the leaves *)
Fixpoint ord (lo : nat) (a : bdd) : Prop :=
  match a with Nd t v f => lo <= v /\ ord (S v) t /\ ord (S v) f | _ => True end.
(** reduced: no test whose two outcomes are the same diagram *)
Fixpoint red (a : bdd) : Prop :=
  match a with Nd t v f => t <> f /\ red t /\ red f | _ => True end.
Definition robdd (a : bdd) : Prop := ord 0 a /\ red a.

(** boolean versions, for the executable checkers *)
Fixpoint ordb (lo : nat) (a : bdd) : bool :=
  match a with Nd t v f => Nat.leb lo v && ordb (S v) t && ordb (S v) f | _ => true end.
Fixpoint redb (a : bdd) : bool :=
  match a with Nd t v f => negb (bdd_eqb t f) && redb t && redb f | _ => true end.
Definition robddb (a : bdd) : bool := ordb 0 a && redb a.

Definition equiv (a b : bdd) : Prop := forall s, beval s a = beval s b.
Definition is_const (a : bdd) : bool := match a with Nd _ _ _ => false | _ => true end.
Definition is_true (a : bdd) : bool := match a with T => true | _ => false end.
Definition is_false (a : bdd) : bool := match a with F => true | _ => false end.
Definition bconst (b : bool) : bdd := if b then T else F.
