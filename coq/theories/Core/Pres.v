(** C02, second half: every operation returns a reduced ordered diagram. *)
From Coq Require Import List Arith Bool Lia PeanoNat ZArith.
Import ListNotations.
From Rsbdd Require Import Core.Bdd Core.Ops Core.OpsFacts Core.Sem Core.Canon.

Lemma ord_mk lo t v f : lo <= v -> ord (S v) t -> ord (S v) f -> ord lo (mk t v f).
Proof.
  intros Hv Ht Hf. unfold mk. destruct (bdd_eqb t f).
  - eapply ord_weaken; [|exact Ht]. lia.
  - cbn [ord]. auto.
Qed.
Lemma red_mk t v f : red t -> red f -> red (mk t v f).
Proof. intros Ht Hf. unfold mk. destruct (bdd_eqb_spec t f); auto. cbn [red]. auto. Qed.

Lemma ord_node_up lo t v f : ord lo (Nd t v f) -> forall lo', lo' <= v -> ord lo' (Nd t v f).
Proof. cbn [ord]. intuition. Qed.

Lemma band_ord lo a b : ord lo a -> ord lo b -> ord lo (band a b).
Proof.
  revert a b lo. apply (pair_height_ind (fun a b => forall lo, ord lo a -> ord lo b -> ord lo (band a b))).
  intros a b IH lo Ha Hb. rewrite band_unfold.
  destruct a as [| |at_ va af], b as [| |bt vb bf]; cbn [ord]; auto.
  pose proof Ha as Ha'. pose proof Hb as Hb'. cbn [ord] in Ha, Hb.
  destruct Ha as (Hva & Hat & Haf), Hb as (Hvb & Hbt & Hbf).
  destruct (va <? vb) eqn:E1; [|destruct (vb <? va) eqn:E2].
  - apply Nat.ltb_lt in E1. apply ord_mk; auto; apply IH; auto; try (cbn [height]; lia); apply (ord_node_up lo); auto.
  - apply Nat.ltb_lt in E2. apply ord_mk; auto; apply IH; auto; try (cbn [height]; lia); apply (ord_node_up lo); auto.
  - apply Nat.ltb_ge in E1, E2. assert (va = vb) by lia. subst vb.
    apply ord_mk; auto; apply IH; auto; cbn [height]; lia.
Qed.
Lemma band_red a b : red a -> red b -> red (band a b).
Proof.
  revert a b. apply (pair_height_ind (fun a b => red a -> red b -> red (band a b))).
  intros a b IH Ha Hb. rewrite band_unfold.
  destruct a as [| |at_ va af], b as [| |bt vb bf]; cbn [red]; auto.
  pose proof Ha as Ha'. pose proof Hb as Hb'. cbn [red] in Ha, Hb.
  destruct Ha as (Hna & Hat & Haf), Hb as (Hnb & Hbt & Hbf).
  destruct (va <? vb); [|destruct (vb <? va)]; apply red_mk; apply IH; auto; cbn [height]; lia.
Qed.
Lemma bor_ord lo a b : ord lo a -> ord lo b -> ord lo (bor a b).
Proof.
  revert a b lo. apply (pair_height_ind (fun a b => forall lo, ord lo a -> ord lo b -> ord lo (bor a b))).
  intros a b IH lo Ha Hb. rewrite bor_unfold.
  destruct a as [| |at_ va af], b as [| |bt vb bf]; cbn [ord]; auto.
  pose proof Ha as Ha'. pose proof Hb as Hb'. cbn [ord] in Ha, Hb.
  destruct Ha as (Hva & Hat & Haf), Hb as (Hvb & Hbt & Hbf).
  destruct (va <? vb) eqn:E1; [|destruct (vb <? va) eqn:E2].
  - apply Nat.ltb_lt in E1. apply ord_mk; auto; apply IH; auto; try (cbn [height]; lia); apply (ord_node_up lo); auto.
  - apply Nat.ltb_lt in E2. apply ord_mk; auto; apply IH; auto; try (cbn [height]; lia); apply (ord_node_up lo); auto.
  - apply Nat.ltb_ge in E1, E2. assert (va = vb) by lia. subst vb.
    apply ord_mk; auto; apply IH; auto; cbn [height]; lia.
Qed.
Lemma bor_red a b : red a -> red b -> red (bor a b).
Proof.
  revert a b. apply (pair_height_ind (fun a b => red a -> red b -> red (bor a b))).
  intros a b IH Ha Hb. rewrite bor_unfold.
  destruct a as [| |at_ va af], b as [| |bt vb bf]; cbn [red]; auto.
  pose proof Ha as Ha'. pose proof Hb as Hb'. cbn [red] in Ha, Hb.
  destruct Ha as (Hna & Hat & Haf), Hb as (Hnb & Hbt & Hbf).
  destruct (va <? vb); [|destruct (vb <? va)]; apply red_mk; apply IH; auto; cbn [height]; lia.
Qed.
Lemma bnot_ord a : forall lo, ord lo a -> ord lo (bnot a).
Proof. induction a; cbn [bnot ord]; auto. intros lo (H1 & H2 & H3). apply ord_mk; auto. Qed.
Lemma bnot_red a : red a -> red (bnot a).
Proof. induction a; cbn [bnot red]; auto. intros (H1 & H2 & H3). apply red_mk; auto. Qed.

(** shape = ordered from lo and reduced; all operations preserve it *)
Definition shp (lo : nat) (a : bdd) : Prop := ord lo a /\ red a.
Lemma shp_band lo a b : shp lo a -> shp lo b -> shp lo (band a b).
Proof. intros [? ?] [? ?]. split; [apply band_ord|apply band_red]; auto. Qed.
Lemma shp_bor lo a b : shp lo a -> shp lo b -> shp lo (bor a b).
Proof. intros [? ?] [? ?]. split; [apply bor_ord|apply bor_red]; auto. Qed.
Lemma shp_bnot lo a : shp lo a -> shp lo (bnot a).
Proof. intros [? ?]. split; [apply bnot_ord|apply bnot_red]; auto. Qed.
Lemma shp_bimplies lo a b : shp lo a -> shp lo b -> shp lo (bimplies a b).
Proof. intros. apply shp_bor; auto. apply shp_bnot; auto. Qed.
Lemma shp_bite lo a b c : shp lo a -> shp lo b -> shp lo c -> shp lo (bite a b c).
Proof. intros. apply shp_band; apply shp_bimplies; auto. apply shp_bnot; auto. Qed.
Lemma shp_beq lo a b : shp lo a -> shp lo b -> shp lo (beq a b).
Proof. intros. apply shp_band; apply shp_bimplies; auto. Qed.
Lemma shp_bxor lo a b : shp lo a -> shp lo b -> shp lo (bxor a b).
Proof. intros. apply shp_bor; apply shp_band; auto; apply shp_bnot; auto. Qed.
Lemma shp_bnor lo a b : shp lo a -> shp lo b -> shp lo (bnor a b).
Proof. intros. apply shp_band; apply shp_bnot; auto. Qed.
Lemma shp_bnand lo a b : shp lo a -> shp lo b -> shp lo (bnand a b).
Proof. intros. apply shp_bnot, shp_band; auto. Qed.
Lemma shp_bvar lo v : lo <= v -> shp lo (bvar v).
Proof. intros. unfold bvar. split; [apply ord_mk|apply red_mk]; cbn; auto. Qed.
Lemma shp_bconst lo b : shp lo (bconst b).
Proof. destruct b; split; cbn; auto. Qed.
Lemma shp_weaken lo lo' a : lo' <= lo -> shp lo a -> shp lo' a.
Proof. intros H [? ?]. split; auto. eapply ord_weaken; eauto. Qed.

Lemma shp_cmp_count lo cmp : forall bs n, Forall (shp lo) bs -> shp lo (cmp_count bs n cmp).
Proof.
  induction bs as [|x r IH]; intros n H; cbn [cmp_count]; [apply shp_bconst|].
  inversion H; subst. apply shp_bite; auto.
Qed.
Lemma shp_cmp_count_compare lo (cmp : list bdd -> Z -> bdd) b :
  (forall n, shp lo (cmp b n)) -> forall a n, Forall (shp lo) a -> shp lo (cmp_count_compare a b n cmp).
Proof.
  intros Hc. induction a as [|x r IH]; intros n H; cbn [cmp_count_compare]; auto.
  inversion H; subst. apply shp_bite; auto.
Qed.

Lemma shp_bex1 x : forall b lo, shp lo b -> shp lo (bex1 x b).
Proof.
  induction b as [| |t IHt v f IHf]; intros lo [Ho Hr]; cbn [bex1]; [split; auto|split; auto|].
  cbn [ord red] in Ho, Hr. destruct Ho as (Hv & Ht & Hf), Hr as (Hn & Hrt & Hrf).
  destruct (Nat.eqb v x).
  - apply (shp_weaken (S v)); [lia|]. apply shp_bor; split; auto.
  - destruct (IHt (S v)) as [? ?]; [split; auto|]. destruct (IHf (S v)) as [? ?]; [split; auto|].
    split; [apply ord_mk|apply red_mk]; auto.
Qed.
Lemma shp_bex vs : forall b lo, shp lo b -> shp lo (bex vs b).
Proof. induction vs as [|x vs IH]; intros b lo H; cbn [bex]; auto. apply shp_bex1; auto. Qed.
Lemma shp_ball vs b lo : shp lo b -> shp lo (ball vs b).
Proof. intros. unfold ball. apply shp_bnot, shp_bex, shp_bnot; auto. Qed.

Lemma shp_bmodel : forall a lo, shp lo a -> shp lo (bmodel a).
Proof.
  induction a as [| |t IHt v f IHf]; intros lo [Ho Hr]; cbn [bmodel]; [split; auto|split; auto|].
  cbn [ord red] in Ho, Hr. destruct Ho as (Hv & Ht & Hf), Hr as (Hn & Hrt & Hrf).
  assert (shp lo (bmodel t)) by (apply (shp_weaken (S v)); [lia|apply IHt; split; auto]).
  assert (shp lo (bmodel f)) by (apply (shp_weaken (S v)); [lia|apply IHf; split; auto]).
  destruct (negb (bdd_eqb (bmodel t) F)).
  - apply shp_band; auto. apply shp_bvar; auto.
  - destruct (negb (bdd_eqb (bmodel f) F)); [|split; cbn; auto].
    apply shp_band; auto. apply shp_bnot, shp_bvar; auto.
Qed.

Lemma shp_retain_go filt : forall a lo, shp lo a -> shp lo (retain_go filt a).
Proof.
  induction a as [| |l IHl v r IHr]; intros lo [Ho Hr]; cbn [retain_go]; [split; auto|split; auto|].
  cbn [ord red] in Ho, Hr. destruct Ho as (Hv & Hl & Hrr), Hr as (Hn & Hrl & Hrr').
  destruct (IHl (S v)) as [Ol Rl]; [split; auto|]. destruct (IHr (S v)) as [Or Rr]; [split; auto|].
  assert (shp lo (mk (retain_go filt l) v (retain_go filt r))) by (split; [apply ord_mk|apply red_mk]; auto).
  assert (shp lo (retain_go filt l)) by (apply (shp_weaken (S v)); [lia|split; auto]).
  assert (shp lo (retain_go filt r)) by (apply (shp_weaken (S v)); [lia|split; auto]).
  destruct (_ && _); [destruct (negb _); auto|]. destruct (_ && _); [destruct (negb _); auto|auto].
Qed.
Lemma shp_retain a filter lo : shp lo a -> shp lo (retain a filter).
Proof. intros. destruct filter; cbn [retain]; auto; apply shp_retain_go; auto. Qed.

Lemma shp_clean a lo : shp lo a -> shp lo (clean a).
Proof.
  destruct a as [| |l s r]; cbn [clean]; auto. intros [Ho Hr]. cbn [ord red] in Ho, Hr.
  split; [apply ord_mk|apply red_mk]; tauto.
Qed.

Lemma shp_fp lo (t : bdd -> bdd) : (forall x, shp lo x -> shp lo (t x)) ->
  forall n a r, shp lo a -> fp_f n a t = Some r -> shp lo r.
Proof.
  intros Ht. induction n as [|n IH]; intros a r Ha H; cbn [fp_f] in H; [discriminate|].
  destruct (bdd_eqb (t a) a); [inversion H; subst; auto|]. eapply IH; [|exact H]. auto.
Qed.

(** "obtained from the library by whatever sequence of operations" *)
Inductive Reach : bdd -> Prop :=
| R_const b : Reach (bconst b)
| R_var v : Reach (bvar v)
| R_mk t v f : Reach t -> Reach f -> ord (S v) t -> ord (S v) f -> Reach (mk t v f)   (* public mk_choice used in order *)
| R_and a b : Reach a -> Reach b -> Reach (band a b)
| R_or a b : Reach a -> Reach b -> Reach (bor a b)
| R_not a : Reach a -> Reach (bnot a)
| R_implies a b : Reach a -> Reach b -> Reach (bimplies a b)
| R_ite a b c : Reach a -> Reach b -> Reach c -> Reach (bite a b c)
| R_eq a b : Reach a -> Reach b -> Reach (beq a b)
| R_xor a b : Reach a -> Reach b -> Reach (bxor a b)
| R_nor a b : Reach a -> Reach b -> Reach (bnor a b)
| R_nand a b : Reach a -> Reach b -> Reach (bnand a b)
| R_aln bs n : Forall Reach bs -> Reach (aln bs n)
| R_amn bs n : Forall Reach bs -> Reach (amn bs n)
| R_exn bs n : Forall Reach bs -> Reach (exn bs n)
| R_leq a b : Forall Reach a -> Forall Reach b -> Reach (count_leq a b)
| R_lt a b : Forall Reach a -> Forall Reach b -> Reach (count_lt a b)
| R_geq a b : Forall Reach a -> Forall Reach b -> Reach (count_geq a b)
| R_gt a b : Forall Reach a -> Forall Reach b -> Reach (count_gt a b)
| R_ceq a b : Forall Reach a -> Forall Reach b -> Reach (count_eq a b)
| R_ex1 x b : Reach b -> Reach (bex1 x b)
| R_ex vs b : Reach b -> Reach (bex vs b)
| R_all vs b : Reach b -> Reach (ball vs b)
| R_model a : Reach a -> Reach (bmodel a)
| R_retain a f : Reach a -> Reach (retain a f)
| R_clean a : Reach a -> Reach (clean a)
| R_fp n a t r : Reach a -> (forall x, robdd x -> robdd (t x)) -> fp_f n a t = Some r -> Reach r.

Theorem reach_robdd : forall b, Reach b -> robdd b.
Proof.
  fix IH 2. intros b H.
  assert (HF : forall l, Forall Reach l -> Forall (shp 0) l).
  { fix IHl 2. intros l Hl. destruct Hl as [|x l Hx Hl']; constructor; [apply IH; exact Hx|apply IHl; exact Hl']. }
  destruct H.
  - apply (shp_bconst 0).
  - apply (shp_bvar 0). lia.
  - destruct (IH _ H) as [_ Rt]. destruct (IH _ H0) as [_ Rf]. split; [apply ord_mk; auto; lia|apply red_mk; auto].
  - apply shp_band; apply IH; assumption.
  - apply shp_bor; apply IH; assumption.
  - apply shp_bnot; apply IH; assumption.
  - apply shp_bimplies; apply IH; assumption.
  - apply shp_bite; apply IH; assumption.
  - apply shp_beq; apply IH; assumption.
  - apply shp_bxor; apply IH; assumption.
  - apply shp_bnor; apply IH; assumption.
  - apply shp_bnand; apply IH; assumption.
  - apply shp_cmp_count, HF; assumption.
  - apply shp_cmp_count, HF; assumption.
  - apply shp_cmp_count, HF; assumption.
  - apply shp_cmp_count_compare; [intros; apply shp_cmp_count|]; apply HF; assumption.
  - apply shp_cmp_count_compare; [intros; apply shp_cmp_count|]; apply HF; assumption.
  - apply shp_cmp_count_compare; [intros; apply shp_cmp_count|]; apply HF; assumption.
  - apply shp_cmp_count_compare; [intros; apply shp_cmp_count|]; apply HF; assumption.
  - apply shp_band; apply shp_cmp_count_compare; try (intros; apply shp_cmp_count); apply HF; assumption.
  - apply shp_bex1; apply IH; assumption.
  - apply shp_bex; apply IH; assumption.
  - apply shp_ball; apply IH; assumption.
  - apply shp_bmodel; apply IH; assumption.
  - apply shp_retain; apply IH; assumption.
  - apply shp_clean; apply IH; assumption.
  - eapply (shp_fp 0 t); [exact H0| |exact H1]. apply IH; assumption.
Qed.

Theorem C02_reach_canonical a b : Reach a -> Reach b -> (a = b <-> equiv a b).
Proof. intros Ha Hb. apply robdd_canonical; apply reach_robdd; assumption. Qed.
