(** C07: model extraction returns one genuine satisfying cube. *)
From Coq Require Import List Arith Bool Lia PeanoNat.
Import ListNotations.
From Rsbdd Require Import Core.Bdd Core.Ops Core.OpsFacts Core.Sem Core.Canon Core.Pres.

(** a cube: a chain in which every node has exactly one [F] child, ending in [T] *)
Fixpoint is_cube (a : bdd) : Prop :=
  match a with
  | T => True
  | F => False
  | Nd t v f => (f = F /\ is_cube t) \/ (t = F /\ is_cube f)
  end.

Lemma band_cube_var c v : ord (S v) c -> c <> F -> band c (bvar v) = Nd c v F.
Proof.
  intros Ho Hne. rewrite band_unfold. unfold bvar, mk. cbn [bdd_eqb].
  destruct c as [| |ct cv cf]; [congruence|reflexivity|].
  cbn [ord] in Ho. destruct Ho as (Hv & _ & _).
  replace (cv <? v) with false by (symmetry; apply Nat.ltb_ge; lia).
  replace (v <? cv) with true by (symmetry; apply Nat.ltb_lt; lia).
  rewrite !band_unfold. cbn [bdd_eqb].
  unfold mk. destruct (bdd_eqb_spec (Nd ct cv cf) F); [discriminate|reflexivity].
Qed.

Lemma band_notvar_cube c v : ord (S v) c -> c <> F -> band (bnot (bvar v)) c = Nd F v c.
Proof.
  intros Ho Hne. unfold bvar, mk. cbn [bdd_eqb bnot]. unfold mk. cbn [bdd_eqb].
  rewrite band_unfold.
  destruct c as [| |ct cv cf]; [congruence|reflexivity|].
  cbn [ord] in Ho. destruct Ho as (Hv & _ & _).
  replace (v <? cv) with true by (symmetry; apply Nat.ltb_lt; lia).
  rewrite !band_unfold. unfold mk.
  destruct (bdd_eqb_spec F (Nd ct cv cf)); [discriminate|reflexivity].
Qed.

Lemma bmodel_shape : forall a lo, shp lo a ->
  (bmodel a = F \/ is_cube (bmodel a)) /\ incl (support (bmodel a)) (support a).
Proof.
  induction a as [| |t IHt v f IHf]; intros lo [Ho Hr]; cbn [bmodel].
  - split; [left; reflexivity|apply incl_refl].
  - split; [right; exact I|apply incl_refl].
  - cbn [ord red] in Ho, Hr. destruct Ho as (Hv & Ht & Hf), Hr as (Hn & Hrt & Hrf).
    destruct (IHt (S v) (conj Ht Hrt)) as [Ct St]. destruct (IHf (S v) (conj Hf Hrf)) as [Cf Sf].
    destruct (shp_bmodel t (S v) (conj Ht Hrt)) as [Omt _]. destruct (shp_bmodel f (S v) (conj Hf Hrf)) as [Omf _].
    destruct (bdd_eqb_spec (bmodel t) F) as [Et|Et]; cbn [negb].
    + destruct (bdd_eqb_spec (bmodel f) F) as [Ef|Ef]; cbn [negb].
      * split; [left; reflexivity|intros x []].
      * rewrite band_notvar_cube by auto. split.
        -- right. cbn [is_cube]. right. split; auto. destruct Cf; [contradiction|assumption].
        -- cbn [support]. intros x [->|Hx]; [left; reflexivity|right; apply in_or_app; right; apply Sf; exact Hx].
    + rewrite band_cube_var by auto. split.
      * right. cbn [is_cube]. left. split; auto. destruct Ct; [contradiction|assumption].
      * cbn [support]. intros x [->|Hx]; [left; reflexivity|].
        rewrite app_nil_r in Hx. right. apply in_or_app. left. apply St. exact Hx.
Qed.

Lemma bmodel_implies : forall a s, beval s (bmodel a) = true -> beval s a = true.
Proof.
  induction a as [| |t IHt v f IHf]; intros s H; cbn [bmodel beval] in *; auto.
  destruct (negb (bdd_eqb (bmodel t) F)).
  - rewrite band_sem, bvar_sem in H. apply andb_prop in H. destruct H as [H1 H2]. rewrite H2. auto.
  - destruct (negb (bdd_eqb (bmodel f) F)); [|discriminate].
    rewrite band_sem, bnot_sem, bvar_sem in H. apply andb_prop in H. destruct H as [H1 H2].
    destruct (s v); [discriminate|auto].
Qed.

Lemma robdd_sat : forall a lo, shp lo a -> a <> F -> exists s, beval s a = true.
Proof.
  induction a as [| |t IHt v f IHf]; intros lo [Ho Hr] Hne; [congruence|exists (fun _ => true); reflexivity|].
  cbn [ord red] in Ho, Hr. destruct Ho as (Hv & Hot & Hof), Hr as (Hn & Hrt & Hrf).
  destruct (bdd_eqb_spec t F) as [Et|Et].
  - assert (Hf : f <> F) by congruence.
    destruct (IHf (S v) (conj Hof Hrf) Hf) as (s & Hs). exists (upd s v false).
    cbn [beval]. rewrite upd_same. rewrite beval_upd_above; auto.
  - destruct (IHt (S v) (conj Hot Hrt) Et) as (s & Hs). exists (upd s v true).
    cbn [beval]. rewrite upd_same. rewrite beval_upd_above; auto.
Qed.

Lemma bmodel_sat : forall a lo, shp lo a -> a <> F -> exists s, beval s (bmodel a) = true.
Proof.
  induction a as [| |t IHt v f IHf]; intros lo [Ho Hr] Hne; [congruence|exists (fun _ => true); reflexivity|].
  cbn [ord red] in Ho, Hr. destruct Ho as (Hv & Hot & Hof), Hr as (Hn & Hrt & Hrf). cbn [bmodel].
  destruct (shp_bmodel t (S v) (conj Hot Hrt)) as [Omt _]. destruct (shp_bmodel f (S v) (conj Hof Hrf)) as [Omf _].
  destruct (bdd_eqb_spec (bmodel t) F) as [Et|Et]; cbn [negb].
  - assert (t = F).
    { destruct (bdd_eqb_spec t F) as [|n]; auto. destruct (IHt (S v) (conj Hot Hrt) n) as (s & Hs). rewrite Et in Hs. discriminate. }
    assert (Hf : f <> F) by congruence.
    destruct (IHf (S v) (conj Hof Hrf) Hf) as (s & Hs).
    destruct (bdd_eqb_spec (bmodel f) F) as [Ef|Ef]; cbn [negb]; [rewrite Ef in Hs; discriminate|].
    exists (upd s v false). rewrite band_sem, bnot_sem, bvar_sem, upd_same. cbn [negb andb].
    rewrite beval_upd_above; auto.
  - destruct (IHt (S v) (conj Hot Hrt)) as (s & Hs); [intros ->; cbn in Et; congruence|].
    exists (upd s v true). rewrite band_sem, bvar_sem, upd_same. rewrite beval_upd_above; auto. rewrite Hs. reflexivity.
Qed.

Theorem C07_unsat a : robdd a -> (bmodel a = F <-> forall s, beval s a = false).
Proof.
  intros Ha. split.
  - intros Hm s. destruct (bdd_eqb_spec a F) as [->|Hne]; [reflexivity|].
    destruct (bmodel_sat a 0 Ha Hne) as (s' & Hs'). rewrite Hm in Hs'. discriminate.
  - intros H. destruct (bdd_eqb_spec a F) as [->|Hne]; [reflexivity|].
    destruct (robdd_sat a 0 Ha Hne) as (s & Hs). rewrite H in Hs. discriminate.
Qed.

Theorem C07_cube a : robdd a -> bmodel a <> F ->
  is_cube (bmodel a) /\ robdd (bmodel a) /\ incl (support (bmodel a)) (support a) /\
  forall s, beval s (bmodel a) = true -> beval s a = true.
Proof.
  intros Ha Hne. destruct (bmodel_shape a 0 Ha) as [[E|C] S]; [contradiction|].
  repeat split; auto; try apply (shp_bmodel a 0 Ha). apply bmodel_implies.
Qed.

Theorem C07_infer m v : robdd m ->
  (binfer m v = (true, true) <-> forall s, beval s m = true -> s v = true).
Proof.
  intros Hm. unfold binfer.
  assert (Hi : robdd (bimplies m (bvar v))) by (apply shp_bimplies; auto; apply shp_bvar; lia).
  split.
  - intros H s Hs. destruct (bimplies m (bvar v)) eqn:E; try discriminate.
    assert (Hb : beval s (bimplies m (bvar v)) = true) by (rewrite E; reflexivity).
    rewrite bimplies_sem, bvar_sem, Hs in Hb. exact Hb.
  - intros H. rewrite (robdd_valid _ Hi); [reflexivity|].
    intros s. rewrite bimplies_sem, bvar_sem. destruct (beval s m) eqn:E; auto. cbn. apply H. exact E.
Qed.
