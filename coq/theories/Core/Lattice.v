(** C06 (termination and leastness): iterating a monotone transformer on reduced ordered
    diagrams over finitely many variables stabilises, at the least fixed point. Constructive. *)
From Coq Require Import List Arith Bool Lia PeanoNat.
Import ListNotations.
From Rsbdd Require Import Core.Bdd Core.Ops Core.OpsFacts Core.Sem Core.Canon Core.Pres Core.Quant Core.Essential.
From Rsbdd Require Import Lang.Eval.

Definition ble (a b : bdd) : Prop := forall s, beval s a = true -> beval s b = true.

Fixpoint all_asgs (U : list nat) : list asg :=
  match U with
  | [] => [fun _ => false]
  | v :: U' => map (fun s => upd s v true) (all_asgs U') ++ map (fun s => upd s v false) (all_asgs U')
  end.

Lemma all_asgs_cover U : forall s, exists s', In s' (all_asgs U) /\ forall v, In v U -> s v = s' v.
Proof.
  induction U as [|v U IH]; intros s; cbn [all_asgs].
  - exists (fun _ => false). split; [left; reflexivity|intros v []].
  - destruct (IH s) as (s' & Hin & Hag).
    exists (upd s' v (s v)). split.
    + apply in_or_app. destruct (s v); [left; apply (in_map (fun t => upd t v true))|right; apply (in_map (fun t => upd t v false))]; auto.
    + intros w [->|Hw]; [now rewrite upd_same|].
      unfold upd. destruct (Nat.eqb_spec w v); [subst; reflexivity|auto].
Qed.

Definition cntb (U : list nat) (b : bdd) : nat := length (filter (fun s => beval s b) (all_asgs U)).

Lemma filter_len_le {A} (p q : A -> bool) L : (forall x, In x L -> p x = true -> q x = true) ->
  length (filter p L) <= length (filter q L).
Proof.
  induction L as [|x L IH]; intros H; cbn [filter]; auto.
  assert (IH' := IH (fun y Hy => H y (or_intror Hy))).
  destruct (p x) eqn:Ep.
  - rewrite (H x (or_introl eq_refl) Ep). cbn [length]. lia.
  - destruct (q x); cbn [length]; lia.
Qed.
Lemma filter_len_lt {A} (p q : A -> bool) L x0 : (forall x, In x L -> p x = true -> q x = true) ->
  In x0 L -> p x0 = false -> q x0 = true -> length (filter p L) < length (filter q L).
Proof.
  induction L as [|x L IH]; intros H Hin Hp Hq; cbn [filter]; [destruct Hin|].
  assert (Hle := filter_len_le p q L (fun y Hy => H y (or_intror Hy))).
  destruct Hin as [->|Hin].
  - rewrite Hp, Hq. cbn [length]. lia.
  - specialize (IH (fun y Hy => H y (or_intror Hy)) Hin Hp Hq).
    destruct (p x) eqn:Ep.
    + rewrite (H x (or_introl eq_refl) Ep). cbn [length]. lia.
    + destruct (q x); cbn [length]; lia.
Qed.
Lemma cntb_bound U b : cntb U b <= length (all_asgs U).
Proof. unfold cntb. induction (all_asgs U) as [|x L IH]; cbn [filter length]; auto. destruct (beval x b); cbn [length]; lia. Qed.

Lemma cntb_strict U a b : robdd a -> robdd b -> incl (support a) U -> incl (support b) U ->
  ble a b -> a <> b -> cntb U a < cntb U b.
Proof.
  intros Ra Rb Sa Sb Hle Hne.
  destruct (distinguish 0 a b Ra Rb Hne) as (s & Hs).
  destruct (all_asgs_cover U s) as (s' & Hin & Hag).
  assert (Ea : beval s' a = beval s a) by (apply beval_agree_support; intros x Hx; symmetry; apply Hag, Sa, Hx).
  assert (Eb : beval s' b = beval s b) by (apply beval_agree_support; intros x Hx; symmetry; apply Hag, Sb, Hx).
  assert (beval s' a = false /\ beval s' b = true) as [E1 E2].
  { rewrite Ea, Eb. destruct (beval s a) eqn:E1, (beval s b) eqn:E2; auto; try congruence.
    pose proof (Hle s E1). congruence. }
  unfold cntb. apply (filter_len_lt _ _ _ s'); auto.
Qed.

Section Kleene.
  Variable U : list nat.
  Variable t : bdd -> option bdd.
  Definition good (b : bdd) : Prop := robdd b /\ incl (support b) U.
  Hypothesis t_total : forall b, good b -> exists b', t b = Some b' /\ good b'.
  Hypothesis t_mono : forall a b a' b', good a -> good b -> ble a b -> t a = Some a' -> t b = Some b' -> ble a' b'.

  Lemma iterate_up : forall k b, good b -> (forall b', t b = Some b' -> ble b b') ->
    length (all_asgs U) - cntb U b < k ->
    exists n r, fp_opt n b t = Some r /\ good r /\ t r = Some r /\
      (forall p p', good p -> t p = Some p' -> ble p' p -> ble b p -> ble r p).
  Proof.
    induction k as [|k IH]; intros b Hb Hup Hk; [lia|].
    destruct (t_total b Hb) as (b' & Eb & Hb').
    destruct (bdd_eqb_spec b' b) as [E|NE].
    - subst b'. exists 1, b. cbn [fp_opt]. rewrite Eb, bdd_eqb_refl. repeat split; try apply Hb; auto.
    - assert (Hlt : cntb U b < cntb U b').
      { apply cntb_strict; try apply Hb; try apply Hb'; auto. }
      pose proof (cntb_bound U b').
      destruct (IH b' Hb') as (n & r & Hn & Hr & Hfix & Hleast).
      + intros b'' Eb''. eapply (t_mono b b'); eauto.
      + lia.
      + exists (S n), r. cbn [fp_opt]. rewrite Eb. destruct (bdd_eqb_spec b' b); [contradiction|].
        repeat split; auto; try apply Hr.
        intros p p' Hp Ep Hpre Hbp. apply (Hleast p p' Hp Ep Hpre).
        (* b' = t b <= t p = p' <= p *)
        intros s Hs. apply Hpre. eapply (t_mono b p); eauto.
  Qed.

  Theorem lfp_terminates :
    exists n r, fp_opt n F t = Some r /\ good r /\ t r = Some r /\
      (forall p p', good p -> t p = Some p' -> ble p' p -> ble r p).
  Proof.
    assert (HF : good F) by (split; [split; cbn; auto|intros x []]).
    destruct (iterate_up (S (length (all_asgs U))) F HF) as (n & r & Hn & Hr & Hfix & Hleast).
    - intros b' _ s Hs. discriminate.
    - lia.
    - exists n, r. repeat split; auto; try apply Hr. intros p p' Hp Ep Hpre. apply (Hleast p p' Hp Ep Hpre).
      intros s Hs. discriminate.
  Qed.
End Kleene.
