(** Executable property checkers used by the failing-input search (DESIGN.md §5 step 5, §6 table):
    applied by the driver to the *real* outputs of cases on which model and implementation differ.
    Definitions only; soundness lemmas are in CheckersSound.v. *)
From Coq Require Import List Arith Bool PeanoNat.
Import ListNotations.
From Rsbdd Require Import Core.Bdd Core.Ops.

(** assignments as association lists, so that a witness can be printed *)
Definition alist := list (nat * bool).
Fixpoint lookup (l : alist) (v : nat) : bool :=
  match l with [] => false | (x, b) :: r => if Nat.eqb x v then b else lookup r v end.
Fixpoint asgs (U : list nat) : list alist :=
  match U with
  | [] => [[]]
  | v :: r => flat_map (fun l => [(v, true) :: l; (v, false) :: l]) (asgs r)
  end.

Definition vars2 (a b : bdd) : list nat := nodup Nat.eq_dec (support a ++ support b).

(** first assignment (over the joint support) on which two diagrams differ *)
Definition find_diff (r m : bdd) : option alist :=
  find (fun l => negb (Bool.eqb (beval (lookup l) r) (beval (lookup l) m))) (asgs (vars2 r m)).

(** first assignment on which [a] is true and [b] is false *)
Definition find_nonimpl (a b : bdd) : option alist :=
  find (fun l => beval (lookup l) a && negb (beval (lookup l) b)) (asgs (vars2 a b)).

Definition inclb (l m : list nat) : bool := forallb (fun x => existsb (Nat.eqb x) m) l.

(** a cube: a chain in which every node has exactly one F child, ending in T *)
Fixpoint is_cubeb (a : bdd) : bool :=
  match a with
  | T => true
  | F => false
  | Nd t _ f => (is_false f && is_cubeb t) || (is_false t && is_cubeb f)
  end.

Inductive verdict : Type :=
| VHolds                      (* the property's clause holds on this input although the outputs differ *)
| VShape                      (* the real result is not ordered and reduced (C02) *)
| VSem (w : alist)            (* the real result has the wrong value under assignment w *)
| VClause (n : nat) (w : alist).   (* property-specific clause n fails, with a witness assignment when there is one *)

(** operations whose result is determined as a function by the property (connectives, quantifiers,
    counting, fp, clean): the theorem says the model's result [m] has the documented meaning, so the
    real result [r] violates it iff it differs from [m] under some assignment or is not canonical *)
Definition verdict_fun (r m : bdd) : verdict :=
  if negb (robddb r) then VShape
  else match find_diff r m with Some w => VSem w | None => VHolds end.

(** C07: [r] claimed to be model(a) *)
Definition verdict_model (a r : bdd) : verdict :=
  if negb (robddb r) then VShape
  else if is_false r then
    match find (fun l => beval (lookup l) a) (asgs (support a)) with
    | Some w => VClause 1 w          (* model is F but a is satisfiable (at w) *)
    | None => VHolds
    end
  else if negb (is_cubeb r) then VClause 2 []            (* not a single conjunction of literals *)
  else if negb (inclb (support r) (support a)) then VClause 3 []   (* mentions a variable a does not depend on *)
  else match find_nonimpl r a with
       | Some w => VClause 4 w       (* an assignment satisfying the cube but not a *)
       | None => VHolds
       end.

(** C20: [r] claimed to be retain(a, f) *)
Definition verdict_retain (f : tte) (a r : bdd) : verdict :=
  if negb (robddb r) then VShape
  else if negb (inclb (support r) (support a)) then VClause 3 []
  else match f with
       | TAny => if bdd_eqb r a then VHolds else VClause 0 []
       | TTrue => match find_nonimpl a r with Some w => VClause 1 w | None => VHolds end
       | TFalse => match find_nonimpl r a with Some w => VClause 2 w | None => VHolds end
       end.

(** C07: (p, q) claimed to be infer(m, v); only the (true,true) answer is constrained by the property *)
Definition verdict_infer (m : bdd) (v : nat) (p q : bool) : verdict :=
  let forced := match find (fun l => beval (lookup l) m && negb (lookup l v)) (asgs (nodup Nat.eq_dec (v :: support m))) with
                | Some _ => false | None => true end in
  if Bool.eqb (p && q) forced then VHolds
  else VClause 5 (match find (fun l => beval (lookup l) m && negb (lookup l v)) (asgs (nodup Nat.eq_dec (v :: support m))) with
                  | Some w => w | None => [] end).

(** diagrams over many variables: a distinguishing assignment from a model of the symmetric difference.
    The answer is checked by evaluation, so [Some w] is a genuine difference whatever the shape of [r]. *)
Fixpoint cube_asg (c : bdd) : alist :=
  match c with
  | Nd t v f => if is_false f then (v, true) :: cube_asg t else (v, false) :: cube_asg f
  | _ => []
  end.
Definition find_diff_big (r m : bdd) : option alist :=
  let w := cube_asg (bmodel (bxor r m)) in
  if negb (Bool.eqb (beval (lookup w) r) (beval (lookup w) m)) then Some w else None.
Definition find_diff_any (r m : bdd) : option alist :=
  if Nat.leb (length (vars2 r m)) 14 then find_diff r m else find_diff_big r m.
