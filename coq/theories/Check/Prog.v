(** The operation programs of correspondence suite S-bdd: a term language over the public
    operations of [BDDEnv] (src/bdd.rs).  The Rust harness interprets the same terms with the
    real methods; [run] interprets them with the model.  Definitions only. *)
From Coq Require Import List Arith Bool PeanoNat ZArith.
Import ListNotations.
From Rsbdd Require Import Core.Bdd Core.Ops.

Inductive expr : Type :=
| EX                                              (* the argument of the enclosing [fp] transformer *)
| ELit (b : bdd)                                  (* a diagram built bottom-up with mk_choice *)
| ERaw (b : bdd)                                  (* a diagram allocated node by node through the public enum: not reduced *)
| EVar (v : nat) | EConst (b : bool)
| ENot (a : expr)
| EAnd (a b : expr) | EOr (a b : expr) | EImp (a b : expr) | EEq (a b : expr)
| EXor (a b : expr) | ENor (a b : expr) | ENand (a b : expr)
| EIte (a b c : expr)
| EAln (bs : list expr) (n : Z) | EAmn (bs : list expr) (n : Z) | EExn (bs : list expr) (n : Z)
| ELeq (a b : list expr) | ELt (a b : list expr) | EGeq (a b : list expr) | EGt (a b : list expr) | ECeq (a b : list expr)
| EEx (vs : list nat) (a : expr) | EEx1 (v : nat) (a : expr) | EAll (vs : list nat) (a : expr)
| EFp (init body : expr)
| EModel (a : expr) | ERetain (f : tte) (a : expr) | EClean (a : expr)
| EMk (t : expr) (v : nat) (f : expr).            (* public mk_choice *)

(** a literal is rebuilt with [mk] exactly as the harness rebuilds it with [mk_choice] *)
Fixpoint rebuild_lit (b : bdd) : bdd :=
  match b with Nd t v f => mk (rebuild_lit t) v (rebuild_lit f) | _ => b end.

(** Shannon expansion of truth table [tt] over [vars]; bit [idx] of [tt] is the value under the
    assignment encoded by [idx] (first variable = most significant bit) *)
Fixpoint build_tt (vars : list nat) (tt : N) (idx : N) : bdd :=
  match vars with
  | [] => bconst (N.testbit tt idx)
  | v :: r =>
      let w := N.of_nat (length r) in
      mk (build_tt r tt (N.lor idx (N.shiftl 1 w))) v (build_tt r tt idx)
  end.

Fixpoint map_o {A B} (f : A -> option B) (l : list A) : option (list B) :=
  match l with
  | [] => Some []
  | x :: t => match f x, map_o f t with Some y, Some ys => Some (y :: ys) | _, _ => None end
  end.

Definition bind1 (o : option bdd) (k : bdd -> option bdd) : option bdd :=
  match o with Some x => k x | None => None end.
Definition bind2 (o1 o2 : option bdd) (k : bdd -> bdd -> option bdd) : option bdd :=
  match o1, o2 with Some x, Some y => k x y | _, _ => None end.
Definition bindl (o1 o2 : option (list bdd)) (k : list bdd -> list bdd -> bdd) : option bdd :=
  match o1, o2 with Some x, Some y => Some (k x y) | _, _ => None end.

(** [None]: a fixed point did not converge within the fuel (or the fuel did not cover the term depth) *)
Fixpoint run (n : nat) (x : bdd) (e : expr) {struct n} : option bdd :=
  match n with
  | 0 => None
  | S k =>
    let r := run k x in
    match e with
    | EX => Some x
    | ELit b => Some (rebuild_lit b)
    | ERaw b => Some b
    | EVar v => Some (bvar v)
    | EConst b => Some (bconst b)
    | ENot a => bind1 (r a) (fun a' => Some (bnot a'))
    | EAnd a b => bind2 (r a) (r b) (fun a' b' => Some (band a' b'))
    | EOr a b => bind2 (r a) (r b) (fun a' b' => Some (bor a' b'))
    | EImp a b => bind2 (r a) (r b) (fun a' b' => Some (bimplies a' b'))
    | EEq a b => bind2 (r a) (r b) (fun a' b' => Some (beq a' b'))
    | EXor a b => bind2 (r a) (r b) (fun a' b' => Some (bxor a' b'))
    | ENor a b => bind2 (r a) (r b) (fun a' b' => Some (bnor a' b'))
    | ENand a b => bind2 (r a) (r b) (fun a' b' => Some (bnand a' b'))
    | EIte a b c => bind2 (r a) (r b) (fun a' b' => bind1 (r c) (fun c' => Some (bite a' b' c')))
    | EAln bs m => option_map (fun l => aln l m) (map_o r bs)
    | EAmn bs m => option_map (fun l => amn l m) (map_o r bs)
    | EExn bs m => option_map (fun l => exn l m) (map_o r bs)
    | ELeq a b => bindl (map_o r a) (map_o r b) count_leq
    | ELt a b => bindl (map_o r a) (map_o r b) count_lt
    | EGeq a b => bindl (map_o r a) (map_o r b) count_geq
    | EGt a b => bindl (map_o r a) (map_o r b) count_gt
    | ECeq a b => bindl (map_o r a) (map_o r b) count_eq
    | EEx vs a => bind1 (r a) (fun a' => Some (bex vs a'))
    | EEx1 v a => bind1 (r a) (fun a' => Some (bex1 v a'))
    | EAll vs a => bind1 (r a) (fun a' => Some (ball vs a'))
    | EFp i body =>
        bind1 (r i) (fun i' =>
          (fix loop (m : nat) (s : bdd) : option bdd :=
             match m with
             | 0 => None
             | S m' => match run k s body with
                       | None => None
                       | Some s' => if bdd_eqb s' s then Some s else loop m' s'
                       end
             end) k i')
    | EModel a => bind1 (r a) (fun a' => Some (bmodel a'))
    | ERetain f a => bind1 (r a) (fun a' => Some (retain a' f))
    | EClean a => bind1 (r a) (fun a' => Some (clean a'))
    | EMk t v f => bind2 (r t) (r f) (fun t' f' => Some (mk t' v f'))
    end
  end.

Definition run_infer (n : nat) (e : expr) (v : nat) : option (bool * bool) :=
  match run n F e with Some a => Some (binfer a v) | None => None end.

(** Suite S-set: a history of BDDSet operations on two sets sharing an environment, from two empty
    sets: the answers of the queries and the two final diagrams (model) / the reference answers *)
From Rsbdd Require Import Sets.BddSet.
Definition set_final (bits : nat) (os : list sop) : bdd * bdd :=
  fold_left (fun st o => fst (step bits st o)) os (F, F).
Definition set_run (bits : nat) (os : list sop) : list (option bool) * (bdd * bdd) :=
  (runs bits (F, F) os, set_final bits os).
Definition set_ref (os : list sop) : list (option bool) :=
  rruns ((fun _ => false), (fun _ => false)) os.

(** the same over binary elements (sets up to 64 bits wide, elements up to 2^64-1) *)
From Rsbdd Require Import Sets.BddSetN.
Definition set_runN (bits : nat) (os : list sopN) : list (option bool) * (bdd * bdd) :=
  (runsN bits (F, F) os, finalN bits os).
Definition set_refN (os : list sopN) : list (option bool) :=
  rrunsN ((fun _ => false), (fun _ => false)) os.
