(** Soundness of the executable checkers of Checkers.v: what each verdict establishes about the
    input it was computed on. *)
From Coq Require Import List Arith Bool PeanoNat Lia.
Import ListNotations.
From Rsbdd Require Import Core.Bdd Core.Ops Core.OpsFacts Core.Canon Core.Quant Core.Cube Check.Checkers.

Lemma asgs_cover U : forall s : asg, exists l, In l (asgs U) /\ forall v, In v U -> lookup l v = s v.
Proof.
  induction U as [|u U IH]; intros s; cbn [asgs].
  - exists []. split; [left; reflexivity|intros v []].
  - destruct (IH s) as (l & Hin & Hl).
    exists ((u, s u) :: l). split.
    + apply in_flat_map. exists l. split; [exact Hin|]. destruct (s u); cbn; auto.
    + intros v Hv. cbn [lookup]. destruct (Nat.eqb_spec u v) as [->|Hne]; [reflexivity|].
      destruct Hv as [->|Hv]; [congruence|apply Hl; exact Hv].
Qed.

Lemma beval_agree2 a b (s s' : asg) :
  (forall v, In v (vars2 a b) -> s v = s' v) -> beval s a = beval s' a /\ beval s b = beval s' b.
Proof.
  intros H. split; apply beval_agree_support; intros x Hx; apply H; unfold vars2; apply nodup_In, in_or_app; auto.
Qed.

Lemma find_none_all {A} (p : A -> bool) l : find p l = None -> forall x, In x l -> p x = false.
Proof. intros H x Hx. exact (find_none p l H x Hx). Qed.

Theorem find_diff_none r m : find_diff r m = None -> forall s, beval s r = beval s m.
Proof.
  unfold find_diff. intros H s.
  destruct (asgs_cover (vars2 r m) s) as (l & Hin & Hl).
  pose proof (find_none_all _ _ H l Hin) as Hp. apply negb_false_iff, eqb_prop in Hp.
  destruct (beval_agree2 r m (lookup l) s Hl) as [Hr Hm]. congruence.
Qed.

Theorem find_diff_some r m w : find_diff r m = Some w -> beval (lookup w) r <> beval (lookup w) m.
Proof.
  unfold find_diff. intros H. apply find_some in H. destruct H as [_ H].
  apply negb_true_iff, eqb_false_iff in H. exact H.
Qed.

Theorem find_nonimpl_none a b : find_nonimpl a b = None -> forall s, beval s a = true -> beval s b = true.
Proof.
  unfold find_nonimpl. intros H s Ha.
  destruct (asgs_cover (vars2 a b) s) as (l & Hin & Hl).
  pose proof (find_none_all _ _ H l Hin) as Hp. cbn beta in Hp.
  destruct (beval_agree2 a b (lookup l) s Hl) as [Hra Hrb].
  rewrite Hra, Hrb, Ha in Hp. cbn in Hp. apply negb_false_iff in Hp. exact Hp.
Qed.

Theorem find_nonimpl_some a b w : find_nonimpl a b = Some w -> beval (lookup w) a = true /\ beval (lookup w) b = false.
Proof.
  unfold find_nonimpl. intros H. apply find_some in H. destruct H as [_ H].
  apply andb_true_iff in H. destruct H as [Ha Hb]. apply negb_true_iff in Hb. auto.
Qed.

Lemma inclb_spec l m : inclb l m = true -> incl l m.
Proof.
  unfold inclb. intros H x Hx. rewrite forallb_forall in H. specialize (H x Hx).
  apply existsb_exists in H. destruct H as (y & Hy & E). apply Nat.eqb_eq in E. subst. exact Hy.
Qed.

Lemma is_false_spec a : is_false a = true <-> a = F.
Proof. destruct a; cbn; split; congruence. Qed.

Lemma is_cubeb_spec : forall a, is_cubeb a = true -> is_cube a.
Proof.
  induction a as [| |t IHt v f IHf]; cbn [is_cubeb is_cube]; intros H; [discriminate|exact I|].
  apply orb_true_iff in H. destruct H as [H|H]; apply andb_true_iff in H; destruct H as [H1 H2];
    apply is_false_spec in H1; [left|right]; auto.
Qed.

(** functional operations: a mismatch with the model can never be judged harmless, and the two
    failing verdicts mean what they say *)
Theorem verdict_fun_holds r m : robdd m -> verdict_fun r m = VHolds -> r = m.
Proof.
  unfold verdict_fun. intros Hm H.
  destruct (robddb r) eqn:Er; cbn [negb] in H; [|discriminate].
  destruct (find_diff r m) eqn:Ed; [discriminate|].
  apply robddb_spec in Er. apply (proj2 (robdd_canonical r m Er Hm)). exact (find_diff_none r m Ed).
Qed.
Theorem verdict_fun_shape r m : verdict_fun r m = VShape -> ~ robdd r.
Proof.
  unfold verdict_fun. intros H Hr. apply robddb_spec in Hr. rewrite Hr in H. cbn in H.
  destruct (find_diff r m); discriminate.
Qed.
Theorem verdict_fun_sem r m w : verdict_fun r m = VSem w -> beval (lookup w) r <> beval (lookup w) m.
Proof.
  unfold verdict_fun. intros H. destruct (negb (robddb r)); [discriminate|].
  destruct (find_diff r m) eqn:Ed; [|discriminate]. injection H as ->. exact (find_diff_some r m w Ed).
Qed.

(** C07 on one input *)
Theorem verdict_model_holds a r : verdict_model a r = VHolds ->
  robdd r /\ (r = F -> forall s, beval s a = false) /\
  (r <> F -> is_cube r /\ incl (support r) (support a) /\ forall s, beval s r = true -> beval s a = true).
Proof.
  unfold verdict_model. intros H.
  destruct (robddb r) eqn:Er; cbn [negb] in H; [|discriminate]. apply robddb_spec in Er.
  split; [exact Er|].
  destruct (is_false r) eqn:Ef.
  - apply is_false_spec in Ef. split; [|congruence]. intros _ s.
    destruct (find _ (asgs (support a))) eqn:Efd; [discriminate|].
    destruct (asgs_cover (support a) s) as (l & Hin & Hl).
    pose proof (find_none_all _ _ Efd l Hin) as Hp. cbn beta in Hp.
    rewrite <- Hp. apply beval_agree_support. intros x Hx. symmetry. apply Hl. exact Hx.
  - assert (r <> F) by (intros ->; discriminate). split; [congruence|]. intros _.
    destruct (is_cubeb r) eqn:Ec; cbn [negb] in H; [|discriminate].
    destruct (inclb (support r) (support a)) eqn:Ei; cbn [negb] in H; [|discriminate].
    destruct (find_nonimpl r a) eqn:En; [discriminate|].
    split; [apply is_cubeb_spec; exact Ec|]. split; [apply inclb_spec; exact Ei|].
    exact (find_nonimpl_none r a En).
Qed.

(** C20 on one input *)
Theorem verdict_retain_holds f a r : verdict_retain f a r = VHolds ->
  robdd r /\ incl (support r) (support a) /\
  match f with
  | TAny => r = a
  | TTrue => forall s, beval s a = true -> beval s r = true
  | TFalse => forall s, beval s r = true -> beval s a = true
  end.
Proof.
  unfold verdict_retain. intros H.
  destruct (robddb r) eqn:Er; cbn [negb] in H; [|discriminate]. apply robddb_spec in Er.
  destruct (inclb (support r) (support a)) eqn:Ei; cbn [negb] in H; [|discriminate].
  split; [exact Er|]. split; [apply inclb_spec; exact Ei|].
  destruct f.
  - destruct (find_nonimpl a r) eqn:En; [discriminate|]. exact (find_nonimpl_none a r En).
  - destruct (find_nonimpl r a) eqn:En; [discriminate|]. exact (find_nonimpl_none r a En).
  - destruct (bdd_eqb_spec r a) as [E|E]; [exact E|discriminate].
Qed.

Theorem find_diff_any_some r m w : find_diff_any r m = Some w -> beval (lookup w) r <> beval (lookup w) m.
Proof.
  unfold find_diff_any. destruct (Nat.leb _ 14); [apply find_diff_some|].
  unfold find_diff_big. destruct (negb (Bool.eqb _ _)) eqn:E; [|discriminate]. intros H. injection H as <-.
  apply negb_true_iff, eqb_false_iff in E. exact E.
Qed.

(** C07 (infer) on one input: the answer (true, true) is given exactly when m forces v *)
Theorem verdict_infer_holds m v p q : verdict_infer m v p q = VHolds ->
  ((p && q) = true <-> forall s, beval s m = true -> s v = true).
Proof.
  unfold verdict_infer. set (U := nodup Nat.eq_dec (v :: support m)).
  destruct (find (fun l => beval (lookup l) m && negb (lookup l v)) (asgs U)) as [w|] eqn:Ef.
  - (* not forced: a witness *)
    destruct (Bool.eqb (p && q) false) eqn:E; [|discriminate]. intros _. apply eqb_prop in E. rewrite E.
    split; [discriminate|]. intros Hall. apply find_some in Ef. destruct Ef as [_ Hw].
    apply andb_true_iff in Hw. destruct Hw as [Hm Hv]. apply negb_true_iff in Hv. rewrite (Hall _ Hm) in Hv. discriminate.
  - destruct (Bool.eqb (p && q) true) eqn:E; [|discriminate]. intros _. apply eqb_prop in E. rewrite E.
    split; [|reflexivity]. intros _ s Hs.
    destruct (asgs_cover U s) as (l & Hin & Hl).
    pose proof (find_none_all _ _ Ef l Hin) as Hp. cbn beta in Hp.
    assert (Em : beval (lookup l) m = beval s m).
    { apply beval_agree_support. intros x Hx. apply Hl. unfold U. apply nodup_In. right. exact Hx. }
    assert (Ev : lookup l v = s v) by (apply Hl; unfold U; apply nodup_In; left; reflexivity).
    rewrite Em, Hs, Ev in Hp. cbn in Hp. apply negb_false_iff in Hp. exact Hp.
Qed.
