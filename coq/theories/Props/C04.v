(** C04: quantifiers eliminate exactly the listed variables. *)
From Coq Require Import List.
From Rsbdd Require Import Core.Bdd Core.Ops Core.Quant.
Theorem C04_exists vs b s : robdd b -> (beval s (bex vs b) = true <-> exists s', agree_outside vs s s' /\ beval s' b = true).
Proof. exact (Quant.C04_exists vs b s). Qed.
Theorem C04_all vs b s : robdd b -> (beval s (ball vs b) = true <-> forall s', agree_outside vs s s' -> beval s' b = true).
Proof. exact (Quant.C04_all vs b s). Qed.
Theorem C04_equal_sets vs vs' b : robdd b -> (forall v, In v vs <-> In v vs') -> bex vs b = bex vs' b.
Proof. exact (Quant.C04_equal_sets vs vs' b). Qed.
Theorem C04_disjoint vs b : robdd b -> (forall v, In v vs -> ~ In v (support b)) -> bex vs b = b.
Proof. exact (Quant.C04_disjoint vs b). Qed.
Theorem C04_indep vs b v s x : robdd b -> In v vs -> beval (upd s v x) (bex vs b) = beval s (bex vs b).
Proof. exact (Quant.C04_indep vs b v s x). Qed.
Print Assumptions C04_exists. Print Assumptions C04_equal_sets.

(** the hypotheses are satisfiable and the operations do something: exists x1 . (x1 & x3) = x3 *)
Example C04_instance : robdd (Nd (Nd T 3 F) 1 F) /\ bex (1 :: nil) (Nd (Nd T 3 F) 1 F) = Nd T 3 F /\ ball (1 :: nil) (Nd (Nd T 3 F) 1 F) = F.
Proof. split; [split; cbn; repeat split; auto; discriminate|]. split; vm_compute; reflexivity. Qed.
