(** C18: random_graph_gen outputs the graph that was asked for. *)
From Coq Require Import List Permutation.
From Rsbdd Require Import Gen.Graph Gen.Colors.
Theorem C18_gen (shuffle : list Graph.edge -> list Graph.edge) : (forall l, Permutation (shuffle l) l) -> forall V E u,
  match gen_graph shuffle V E u with
  | Some out => length out = E /\ NoDup out /\ (forall a b, In (a, b) out -> a <> b /\ a < V /\ b < V) /\
                (u = true -> forall a b, In (a, b) out -> ~ In (b, a) out)
  | None => length (candidates V u) < E
  end.
Proof. intros Hp V E u. exact (Graph.C18_gen shuffle Hp V E u). Qed.
Theorem C18_convert l : read_graph false l = l. Proof. exact (C18_convert_directed l). Qed.
Theorem C18_convert_u l :
  (forall e, In e (read_graph true l) -> In e l) /\
  (forall a b, In (a, b) l -> In (a, b) (read_graph true l) \/ In (b, a) (read_graph true l)) /\
  (forall a b, a <> b -> In (a, b) (read_graph true l) -> ~ In (b, a) (read_graph true l)).
Proof. exact (C18_convert_undirected l). Qed.
Theorem C18_colours V es k order : (forall v c, In (v, c) order <-> In v V /\ c < k) ->
  (covering_clique V es order <-> colourable V es k).
Proof. exact (C18_colors V es k order). Qed.
Print Assumptions C18_gen. Print Assumptions C18_colours.

(** with the identity as shuffle: 3 vertices, 2 undirected edges is feasible, 4 is refused *)
Example C18_instance : gen_graph (fun l => l) 3 2 true = Some ((0, 1) :: (0, 2) :: nil) /\ gen_graph (fun l => l) 3 4 true = None.
Proof. split; vm_compute; reflexivity. Qed.

(** the judge used on every real answer: [valid_output] accepts only admissible answers, and accepts every answer
    the generator model can give, whatever permutation the shuffle returns *)
From Rsbdd Require Import Gen.GenCheck.
Theorem C18_judge_sound V E u out : valid_output V E u out = true ->
  length out = E /\ NoDup out /\ (forall a b, In (a, b) out -> a <> b /\ a < V /\ b < V) /\
  (u = true -> forall a b, In (a, b) out -> ~ In (b, a) out).
Proof. exact (valid_output_sound V E u out). Qed.
Theorem C18_judge_complete (shuffle : list Graph.edge -> list Graph.edge) : (forall l, Permutation (shuffle l) l) ->
  forall V E u out, gen_graph shuffle V E u = Some out -> valid_output V E u out = true.
Proof. exact (gen_graph_valid shuffle). Qed.
