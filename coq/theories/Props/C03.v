(** C03: connectives compute the pointwise Boolean operation of their operands. *)
From Coq Require Import Bool.
From Rsbdd Require Import Core.Bdd Core.Ops Core.Sem.
Theorem C03_and a b s : beval s (band a b) = beval s a && beval s b. Proof. exact (band_sem s a b). Qed.
Theorem C03_or a b s : beval s (bor a b) = beval s a || beval s b. Proof. exact (bor_sem s a b). Qed.
Theorem C03_not a s : beval s (bnot a) = negb (beval s a). Proof. exact (bnot_sem s a). Qed.
Theorem C03_implies a b s : beval s (bimplies a b) = implb (beval s a) (beval s b). Proof. exact (bimplies_sem s a b). Qed.
Theorem C03_eq a b s : beval s (beq a b) = Bool.eqb (beval s a) (beval s b). Proof. exact (beq_sem s a b). Qed.
Theorem C03_xor a b s : beval s (bxor a b) = xorb (beval s a) (beval s b). Proof. exact (bxor_sem s a b). Qed.
Theorem C03_nor a b s : beval s (bnor a b) = negb (beval s a || beval s b). Proof. exact (bnor_sem s a b). Qed.
Theorem C03_nand a b s : beval s (bnand a b) = negb (beval s a && beval s b). Proof. exact (bnand_sem s a b). Qed.
Theorem C03_ite a b c s : beval s (bite a b c) = if beval s a then beval s b else beval s c. Proof. exact (bite_sem s a b c). Qed.
Theorem C03_var v s : beval s (bvar v) = s v. Proof. exact (bvar_sem s v). Qed.
Theorem C03_const b s : beval s (bconst b) = b. Proof. exact (bconst_sem s b). Qed.
Print Assumptions C03_and. Print Assumptions C03_or. Print Assumptions C03_ite.

(** not vacuous / sanity: a concrete instance computed by the model *)
Example C03_instance : band (bvar 0) (bnot (bvar 2)) = Nd (Nd F 2 T) 0 F /\ bite (bvar 1) (bvar 0) (bvar 2) = Nd (Nd T 1 (Nd T 2 F)) 0 (Nd F 1 (Nd T 2 F)).
Proof. split; vm_compute; reflexivity. Qed.
