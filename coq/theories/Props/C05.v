(** C05: counting comparisons count the true operands exactly. *)
From Coq Require Import ZArith NArith.
From Rsbdd Require Import Core.Bdd Core.Ops Core.Sem Lang.Ast Lang.Den Lang.Eval Lang.EvalSound.
Theorem C05_aln s bs n : beval s (aln bs n) = (n <=? count_true s bs)%Z. Proof. exact (aln_sem s bs n). Qed.
Theorem C05_amn s bs n : beval s (amn bs n) = (count_true s bs <=? n)%Z. Proof. exact (amn_sem s bs n). Qed.
Theorem C05_exn s bs n : beval s (exn bs n) = (count_true s bs =? n)%Z. Proof. exact (exn_sem s bs n). Qed.
Theorem C05_leq s a b : beval s (count_leq a b) = (count_true s a <=? count_true s b)%Z. Proof. exact (count_leq_sem s a b). Qed.
Theorem C05_lt s a b : beval s (count_lt a b) = (count_true s a <? count_true s b)%Z. Proof. exact (count_lt_sem s a b). Qed.
Theorem C05_geq s a b : beval s (count_geq a b) = (count_true s b <=? count_true s a)%Z. Proof. exact (count_geq_sem s a b). Qed.
Theorem C05_gt s a b : beval s (count_gt a b) = (count_true s b <? count_true s a)%Z. Proof. exact (count_gt_sem s a b). Qed.
Theorem C05_eq s a b : beval s (count_eq a b) = (count_true s a =? count_true s b)%Z. Proof. exact (count_eq_sem s a b). Qed.
Theorem C05_lang s op bs n : beval s (eval_countc op bs n) = cop_sem op (count_true s bs) (Z.of_N n).
Proof. exact (eval_countc_sem s op bs n). Qed.
Print Assumptions C05_aln. Print Assumptions C05_lang.

Example C05_instance : aln (bvar 0 :: bvar 1 :: nil) 2 = Nd (Nd T 1 F) 0 F /\ count_lt (bvar 0 :: nil) (bvar 0 :: bvar 1 :: nil) = Nd T 1 F.
Proof. split; vm_compute; reflexivity. Qed.
