(** C15: n_queens_gen emits a formula whose models are exactly the n-queens solutions. *)
From Rsbdd Require Import Lang.FSem Gen.Queens Gen.Forms.
Theorem C15 n s : 1 <= n -> (fsem (queens_form n) s = true <-> Queens.sol n s). Proof. exact (C15_formula n s). Qed.
Print Assumptions C15.

(** 4-queens has a solution: queens on cells 1, 7, 8, 14 *)
Example C15_instance : fsem (queens_form 4) (fun v => match v with 1 | 7 | 8 | 14 => true | _ => false end) = true
                       /\ fsem (queens_form 3) (fun v => match v with 0 | 5 | 7 => true | _ => false end) = false.
Proof. split; vm_compute; reflexivity. Qed.

(** at the level of the text: the token stream n_queens_gen prints (one list "[v, v, ..,] <= 1" or "= 1" per line with a trailing
    comma inside, joined by "&", closed by "true") parses to exactly queens_form n, for every n *)
From Coq Require Import List NArith.
From Rsbdd Require Import Lang.Ast Syntax.Token Syntax.Parser Gen.GenText.
Theorem C15_text n : parse (chain_tokens (queens_items n) ++ TEof :: nil) = Ok (queens_form n) nil.
Proof. exact (GenText.C15_text n). Qed.
Print Assumptions C15_text.
Example C15_text_instance :
  chain_tokens (queens_items 1) =
  TOpenSquare :: TVar 0 :: TComma :: TCloseSquare :: TImpliesInv :: TNum 1%N :: TAnd ::
  TOpenSquare :: TVar 0 :: TComma :: TCloseSquare :: TImpliesInv :: TNum 1%N :: TAnd ::
  TOpenSquare :: TVar 0 :: TComma :: TCloseSquare :: TEq :: TNum 1%N :: TAnd ::
  TOpenSquare :: TVar 0 :: TComma :: TCloseSquare :: TEq :: TNum 1%N :: TAnd :: TTrue :: nil.
Proof. vm_compute. reflexivity. Qed.

(** the tie by translation (DESIGN 15.7c): the six loop nests of n_queens_gen/src/main.rs are re-read on every run and proved, for
    all n, to be the six families below (generated lemmas fam_1 .. fam_6, by extensionality and lia / nia); this lemma then gives
    "the items the source prints are queens_items n" *)
From Rsbdd Require Import Lang.Ast Gen.GenText Gen.SrcLoops.
Theorem C15_source_six n f1 f2 f3 f4 f5 f6 :
  f1 = Queens.d1a n -> f2 = Queens.d1b n -> f3 = Queens.d2a n -> f4 = Queens.d2b n -> f5 = Queens.rows n -> f6 = Queens.cols n ->
  map (ICount true AtMost) f1 ++ map (ICount true AtMost) f2 ++ map (ICount true AtMost) f3 ++ map (ICount true AtMost) f4 ++
  map (ICount true Exactly) f5 ++ map (ICount true Exactly) f6 ++ nil = queens_items n.
Proof. exact (queens_items_six n f1 f2 f3 f4 f5 f6). Qed.
Print Assumptions C15_source_six.
