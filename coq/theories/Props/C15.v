(** C15: n_queens_gen emits a formula whose models are exactly the n-queens solutions. *)
From Rsbdd Require Import Lang.FSem Gen.Queens Gen.Forms.
Theorem C15 n s : 1 <= n -> (fsem (queens_form n) s = true <-> Queens.sol n s). Proof. exact (C15_formula n s). Qed.
Print Assumptions C15.
