(** C15: n_queens_gen emits a formula whose models are exactly the n-queens solutions. *)
From Rsbdd Require Import Lang.FSem Gen.Queens Gen.Forms.
Theorem C15 n s : 1 <= n -> (fsem (queens_form n) s = true <-> Queens.sol n s). Proof. exact (C15_formula n s). Qed.
Print Assumptions C15.

(** 4-queens has a solution: queens on cells 1, 7, 8, 14 *)
Example C15_instance : fsem (queens_form 4) (fun v => match v with 1 | 7 | 8 | 14 => true | _ => false end) = true
                       /\ fsem (queens_form 3) (fun v => match v with 0 | 5 | 7 => true | _ => false end) = false.
Proof. split; vm_compute; reflexivity. Qed.
