(** C10: the printed truth table is a faithful partition of the assignment space. *)
From Coq Require Import List.
From Rsbdd Require Import Core.Bdd Core.Ops Cli.Table Cli.TableFilter.
Theorem C10_partition FV : NoDup FV -> forall d lo vals,
  ord lo d -> (forall v, In v (support d) -> In v FV) -> length vals = length FV -> any_from FV lo vals ->
  exists rows, tt_rows FV d vals = Some rows /\
    (forall r, In r rows -> (forall j e, nth_error vals j = Some e -> e <> TA -> nth_error (fst r) j = Some e) /\ length (fst r) = length vals) /\
    forall s, matches FV s vals ->
      exists r, In r rows /\ matches FV s (fst r) /\ snd r = beval s d /\ forall r', In r' rows -> matches FV s (fst r') -> r' = r.
Proof. exact (tt_partition FV). Qed.
Theorem C10_filter FV filt d vals :
  tt_rows_f FV filt d vals = option_map (filter (fun r : row => agrees filt (snd r))) (tt_rows FV d vals).
Proof. exact (TableFilter.C10_filter FV filt d vals). Qed.
Theorem C10_vars FV d vals :
  tv_rows FV d vals = option_map (fun rows => map fst (filter (fun r : row => snd r) rows)) (tt_rows FV d vals).
Proof. exact (TableFilter.C10_vars FV d vals). Qed.
Print Assumptions C10_partition. Print Assumptions C10_filter.

(** the table the binary prints, end to end over the pipeline model [cli]: whenever it prints, there is
    a duplicate-free column list FV (the free variables, one header name each) and a row list such that
    every total assignment matches exactly one row, that row's result is the value of the printed
    diagram, the printed rows are those the filter keeps and the -v lines are the true rows *)
From Rsbdd Require Import Syntax.Lexer Cli.Pipeline Cli.PipelineFacts.
Theorem C10_cli fuel uc o ordfile txt out : cli fuel uc o ordfile txt = CliOk out ->
  exists FV rows, NoDup FV /\ tt_rows FV (out_diagram out) (all_any FV) = Some rows /\
    out_rows out = filter (fun r : row => agrees (o_filter o) (snd r)) rows /\
    out_true out = map fst (filter (fun r : row => snd r) rows) /\
    length (out_header out) = length FV /\
    forall s, exists r, In r rows /\ matches FV s (fst r) /\ snd r = beval s (out_diagram out) /\
                        forall r', In r' rows -> matches FV s (fst r') -> r' = r.
Proof. exact (C10_cli_table fuel uc o ordfile txt out). Qed.
Theorem C10_bench {A} (ev : unit -> A) k d0 : 1 <= k -> repeat_eval k ev d0 = ev tt.
Proof. exact (TableFilter.C10_bench ev k d0). Qed.

(** the hypotheses of C10_partition are satisfiable and the printer does what the picture says:
    x0 & -x1 over the columns [0; 1] gives the rows (F, Any | False), (T, F | True), (T, T | False) *)
Example C10_instance :
  tt_rows (0 :: 1 :: nil) (Nd (Nd F 1 T) 0 F) (TA :: TA :: nil)
  = Some (((TF :: TA :: nil), false) :: ((TT :: TF :: nil), true) :: ((TT :: TT :: nil), false) :: nil)
  /\ tt_rows_f (0 :: 1 :: nil) TTrue (Nd (Nd F 1 T) 0 F) (TA :: TA :: nil) = Some (((TT :: TF :: nil), true) :: nil).
Proof. split; vm_compute; reflexivity. Qed.

(** the header: whenever the binary prints, the header is the list of the formula's free variables (var_is_free, exact by
    C09_free) by name, in increasing variable id - ids come from the ordering file where it lists the name (C11_file_order)
    and from first appearance otherwise - and -r prints all variables in the same order *)
From Coq Require Import Sorting.Sorted NArith.
From Rsbdd Require Import Lang.Ast Syntax.Tokenize Cli.Header.
Theorem C10_header fuel uc o ordfile txt out : cli fuel uc o ordfile txt = CliOk out ->
  exists ord p,
    (match ordfile with None => ord = nil | Some otxt => ordering_of_file uc otxt = Done ord end) /\
    parsed_formula uc ord txt = Done p /\
    let names := name_table uc ord txt in
    out_header out = map (name_of names) (pf_free p) /\
    out_order out = map (name_of names) (pf_vars p) /\
    pf_free p = filter (var_is_free (pf_form p)) (pf_vars p) /\
    Sorted le (pf_vars p) /\ NoDup (pf_vars p) /\ NoDup (pf_free p).
Proof. exact (C10_cli_header fuel uc o ordfile txt out). Qed.
Print Assumptions C10_header.
