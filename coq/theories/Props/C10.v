(** C10: the printed truth table is a faithful partition of the assignment space. *)
From Coq Require Import List.
From Rsbdd Require Import Core.Bdd Core.Ops Cli.Table Cli.TableFilter.
Theorem C10_partition FV : NoDup FV -> forall d lo vals,
  ord lo d -> (forall v, In v (support d) -> In v FV) -> length vals = length FV -> any_from FV lo vals ->
  exists rows, tt_rows FV d vals = Some rows /\
    (forall r, In r rows -> (forall j e, nth_error vals j = Some e -> e <> TA -> nth_error (fst r) j = Some e) /\ length (fst r) = length vals) /\
    forall s, matches FV s vals ->
      exists r, In r rows /\ matches FV s (fst r) /\ snd r = beval s d /\ forall r', In r' rows -> matches FV s (fst r') -> r' = r.
Proof. exact (tt_partition FV). Qed.
Theorem C10_filter FV filt d vals :
  tt_rows_f FV filt d vals = option_map (filter (fun r : row => agrees filt (snd r))) (tt_rows FV d vals).
Proof. exact (TableFilter.C10_filter FV filt d vals). Qed.
Theorem C10_vars FV d vals :
  tv_rows FV d vals = option_map (fun rows => map fst (filter (fun r : row => snd r) rows)) (tt_rows FV d vals).
Proof. exact (TableFilter.C10_vars FV d vals). Qed.
Print Assumptions C10_partition. Print Assumptions C10_filter.
