(** C09: free-variable analysis is exact and bound names never leak into results. *)
From Coq Require Import List.
From Rsbdd Require Import Core.Bdd Lang.Ast Lang.Eval Lang.Free.
Theorem C09_free f x : noref f -> (var_is_free f x = true <-> free_occ f x). Proof. exact (Free.C09_free f x). Qed.
Theorem C09_support n f b : nofsub f -> eval_f n f = Some b -> forall x, In x (support b) -> var_is_free f x = true.
Proof. exact (Free.C09_support n f b). Qed.
Print Assumptions C09_free. Print Assumptions C09_support.
