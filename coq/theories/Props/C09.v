(** C09: free-variable analysis is exact and bound names never leak into results. *)
From Coq Require Import List.
From Rsbdd Require Import Core.Bdd Lang.Ast Lang.Eval Lang.Free.
Theorem C09_free f x : noref f -> (var_is_free f x = true <-> free_occ f x). Proof. exact (Free.C09_free f x). Qed.
Theorem C09_support n f b : nofsub f -> eval_f n f = Some b -> forall x, In x (support b) -> var_is_free f x = true.
Proof. exact (Free.C09_support n f b). Qed.
Print Assumptions C09_free. Print Assumptions C09_support.

(** the variable lists of [ParsedFormula]: [vars] has no repetition, is sorted by id and holds exactly the
    ids of the identifier tokens (occurrences and binder positions alike); [free_vars] is its filter *)
From Coq Require Import Sorted.
From Rsbdd Require Import Syntax.Token Cli.Pipeline Cli.PipelineFacts.
Theorem C09_lists ts p : parsed_of_tokens ts = Done p ->
  NoDup (pf_vars p) /\ Sorted le (pf_vars p) /\ (forall x, In x (pf_vars p) <-> In x (tok_vars ts)) /\
  pf_free p = filter (var_is_free (pf_form p)) (pf_vars p) /\ NoDup (pf_free p).
Proof. exact (pf_vars_spec ts p). Qed.

(** "x & exists x # x | y": x is free (outer occurrence) although also bound; y is free; in "exists x # x" nothing is *)
Example C09_instance :
  var_is_free (FBin BAnd (FVar 0) (FQuant QExists (0 :: nil) (FBin BOr (FVar 0) (FVar 1)))) 0 = true /\
  var_is_free (FQuant QExists (0 :: nil) (FVar 0)) 0 = false.
Proof. split; reflexivity. Qed.
