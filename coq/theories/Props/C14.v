(** C14: Graphviz exports denote the same diagram / syntax tree they were made from. *)
From Coq Require Import List.
From Rsbdd Require Import Core.Bdd Core.Ops Io.DotBdd Io.DotTree.
Theorem C14_nodes_once filt b : NoDup (dot_nodes filt b). Proof. exact (DotBdd.C14_nodes_once filt b). Qed.
Theorem C14_edges_declared b e : In e (dot_edges TAny b) -> In (fst (fst e)) (dot_nodes TAny b) /\ In (snd e) (dot_nodes TAny b).
Proof. exact (DotBdd.C14_edges_declared b e). Qed.
Theorem C14_walk b s : walk (S (height b)) TAny (dot_edges TAny b) b s = Some (beval s b). Proof. exact (DotBdd.C14_walk b s). Qed.
Theorem C14_filter_nodes filt b p : In p (dot_nodes filt b) <-> In p (dot_nodes TAny b) /\ hidden filt p = false.
Proof. exact (DotBdd.C14_filter_nodes filt b p). Qed.
Theorem C14_filter_edges filt b e : In e (dot_edges filt b) <-> In e (dot_edges TAny b) /\ hidden filt (snd e) = false.
Proof. exact (DotBdd.C14_filter_edges filt b e). Qed.
Theorem C14_tree_node f : rebuild (label f) (out_edges f) = Some f. Proof. exact (C14_rebuild f). Qed.
Print Assumptions C14_walk. Print Assumptions C14_tree_node.

Example C14_instance : length (dot_nodes TAny (Nd (Nd T 1 F) 0 (Nd T 1 F))) = 4 /\ length (dot_edges TAny (Nd (Nd T 1 F) 0 (Nd T 1 F))) = 4
                       /\ length (dot_nodes TTrue (Nd (Nd T 1 F) 0 (Nd T 1 F))) = 3.
Proof. repeat split; vm_compute; reflexivity. Qed.
