(** C01: evaluating a formula yields exactly its documented truth function. *)
From Rsbdd Require Import Core.Bdd Core.Canon Lang.Ast Lang.Den Lang.DenFacts Lang.Eval Lang.EvalSound Lang.EvalComplete.
Theorem C01_sound n f b : wf f -> eval_f n f = Some b -> Den empty f (bden b) /\ robdd b.
Proof. exact (sound n f b). Qed.
Theorem C01_complete f d : wf f -> Den empty f d -> exists n b, eval_f n f = Some b /\ deq (bden b) d.
Proof. intros Hw HD. exact (complete (S (size f)) f d (PeanoNat.Nat.lt_succ_diag_r _) Hw HD). Qed.
Theorem C01_valid n f b : wf f -> eval_f n f = Some b -> (b = T <-> forall s, beval s b = true).
Proof. intros Hw He. split; [intros ->; reflexivity|]. apply robdd_valid. apply (sound n f b Hw He). Qed.
Theorem C01_unsat n f b : wf f -> eval_f n f = Some b -> (b = F <-> forall s, beval s b = false).
Proof. intros Hw He. split; [intros ->; reflexivity|]. apply robdd_unsat. apply (sound n f b Hw He). Qed.
Print Assumptions C01_sound. Print Assumptions C01_complete.

(** the same over a text: whatever `tokenize` and `parse` turn the text into is the grammar's tree (C08),
    its evaluation is that tree's documented meaning (C01), canonical (C02) and over free variables only (C09) *)
From Coq Require Import List NArith.
From Rsbdd Require Import Syntax.Tokenize Syntax.Grammar Cli.Pipeline Cli.PipelineFacts.
Theorem C01_text uc ord txt p n b :
  parsed_formula uc ord txt = Done p -> eval_f n (pf_form p) = Some b ->
  exists ts, tokenize uc ord txt = Some ts /\ G_formula ts (pf_form p) /\
    Den empty (pf_form p) (bden b) /\ robdd b /\
    (forall x, In x (support b) -> In x (pf_free p)) /\
    (b = T <-> forall s, beval s b = true) /\ (b = F <-> forall s, beval s b = false).
Proof. exact (PipelineFacts.C01_text uc ord txt p n b). Qed.

(** not vacuous: "exists a # a & b | lfp x # x | c" parses and evaluates (to b | c) *)
Example C01_runs :
  exists p b, parsed_formula (fun _ => Lexer.UOther) nil
     (map N.of_nat (101 :: 120 :: 105 :: 115 :: 116 :: 115 :: 32 :: 97 :: 32 :: 35 :: 32 :: 97 :: 32 :: 38 :: 32 :: 98 :: 32 :: 124 :: 32 ::
                    108 :: 102 :: 112 :: 32 :: 120 :: 32 :: 35 :: 32 :: 120 :: 32 :: 124 :: 32 :: 99 :: nil)) = Done p
     /\ eval_f 50 (pf_form p) = Some b /\ b = Nd T 1 (Nd T 3 F).
Proof. eexists. eexists. split; [vm_compute; reflexivity|]. split; vm_compute; reflexivity. Qed.

(** "convergent lfp/gfp": for every text whose parsed tree has only positive fixed-point binders (the syntactic criterion of C06,
    nested and mixed fixed points included) the solver does return a diagram, and it is the documented meaning *)
From Rsbdd Require Import Lang.Mono Lang.FixNested Syntax.Parser Syntax.Printer.
Theorem C01_positive_total uc ord txt p : parsed_formula uc ord txt = Done p -> posfix (pf_form p) = true ->
  exists n b, eval_f n (pf_form p) = Some b /\ Den empty (pf_form p) (bden b) /\ robdd b.
Proof.
  unfold parsed_formula. destruct (tokenize uc ord txt) as [ts|]; [|discriminate].
  intros Hp Hpf. apply posfix_evaluates; [|exact Hpf].
  unfold parsed_of_tokens in Hp. destruct (parse ts) as [f r| |] eqn:Hpar; try discriminate.
  destruct (parse_vars ts f r Hpar) as [Hns _]. inversion Hp; subst p. exact Hns.
Qed.
Print Assumptions C01_positive_total.
