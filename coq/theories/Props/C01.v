(** C01: evaluating a formula yields exactly its documented truth function. *)
From Rsbdd Require Import Core.Bdd Core.Canon Lang.Ast Lang.Den Lang.DenFacts Lang.Eval Lang.EvalSound Lang.EvalComplete.
Theorem C01_sound n f b : wf f -> eval_f n f = Some b -> Den empty f (bden b) /\ robdd b.
Proof. exact (sound n f b). Qed.
Theorem C01_complete f d : wf f -> Den empty f d -> exists n b, eval_f n f = Some b /\ deq (bden b) d.
Proof. intros Hw HD. exact (complete (S (size f)) f d (PeanoNat.Nat.lt_succ_diag_r _) Hw HD). Qed.
Theorem C01_valid n f b : wf f -> eval_f n f = Some b -> (b = T <-> forall s, beval s b = true).
Proof. intros Hw He. split; [intros ->; reflexivity|]. apply robdd_valid. apply (sound n f b Hw He). Qed.
Theorem C01_unsat n f b : wf f -> eval_f n f = Some b -> (b = F <-> forall s, beval s b = false).
Proof. intros Hw He. split; [intros ->; reflexivity|]. apply robdd_unsat. apply (sound n f b Hw He). Qed.
Print Assumptions C01_sound. Print Assumptions C01_complete.
