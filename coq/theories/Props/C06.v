(** C06: lfp / gfp denote the least / greatest fixed point of a monotone transformer. *)
From Rsbdd Require Import Core.Bdd Core.Ops Core.Fix Lang.Ast Lang.Den Lang.DenFacts Lang.Eval Lang.EvalSound Lang.Free Lang.FSem Lang.FixLang Lang.FixFree.
Theorem C06_fp n a t r : fp_f n a t = Some r <->
  exists k, k < n /\ r = iter k t a /\ t r = r /\ forall j, j < k -> t (iter j t a) <> iter j t a.
Proof. exact (Fix.C06_fp n a t r). Qed.
Theorem C06_scope t r x b d : Den r (replace_var x (FSub b) t) d <-> Den (bind r x (fun s => beval s b)) t d.
Proof. exact (subst_den t r x b d). Qed.
Theorem C06_lfp X T : nofsub T -> nofix T ->
  (forall d1 d2 e1 e2, dle d1 d2 -> Den (bind empty X d1) T e1 -> Den (bind empty X d2) T e2 -> dle e1 e2) ->
  exists n r, eval_f n (FFix X false T) = Some r /\ robdd r /\ Den (bind empty X (bden r)) T (bden r) /\
    forall d e, Den (bind empty X d) T e -> dle e d -> dle (bden r) d.
Proof. exact (C06_lfp_fixfree X T). Qed.
Theorem C06_gfp X T : nofsub T -> nofix T ->
  (forall d1 d2 e1 e2, dle d1 d2 -> Den (bind empty X d1) T e1 -> Den (bind empty X d2) T e2 -> dle e1 e2) ->
  exists n r, eval_f n (FFix X true T) = Some r /\ robdd r /\ Den (bind empty X (bden r)) T (bden r) /\
    forall d e, Den (bind empty X d) T e -> dle d e -> dle d (bden r).
Proof. exact (C06_gfp_fixfree X T). Qed.
Print Assumptions C06_fp. Print Assumptions C06_lfp. Print Assumptions C06_gfp.

(** the iterator on a concrete monotone transformer: X := x0 | (x1 & X) from F stabilises at x0 after one step *)
Example C06_instance : fp_f 5 F (fun x => bor (bvar 0) (band (bvar 1) x)) = Some (bvar 0).
Proof. vm_compute. reflexivity. Qed.

(** a syntactic criterion for "monotone in X": every free occurrence of X in the (fixed-point-free) body has
    positive polarity - under and / or / if-branches / quantifiers / at-least counting / an even number of
    negations, never under xor / iff / an if-condition / exactly-counting.  For every such body evaluation of
    lfp X # T / gfp X # T terminates, at a fixed point below every pre-fixed point / above every post-fixed point. *)
From Coq Require Import NArith.
From Rsbdd Require Import Lang.Mono.
Theorem C06_lfp_positive X T : nofsub T -> nofix T -> pos X true T = true ->
  exists n r, eval_f n (FFix X false T) = Some r /\ robdd r /\ Den (bind empty X (bden r)) T (bden r) /\
    forall d e, Den (bind empty X d) T e -> dle e d -> dle (bden r) d.
Proof. exact (C06_lfp_syntactic X T). Qed.
Theorem C06_gfp_positive X T : nofsub T -> nofix T -> pos X true T = true ->
  exists n r, eval_f n (FFix X true T) = Some r /\ robdd r /\ Den (bind empty X (bden r)) T (bden r) /\
    forall d e, Den (bind empty X d) T e -> dle d e -> dle d (bden r).
Proof. exact (C06_gfp_syntactic X T). Qed.
(** the criterion is met by, e.g., the reachability body  a | (b & exists a # X) | [X, b] >= 2  and refuses  X ^ a *)
Example C06_positive_instance :
  pos 9 true (FBin BOr (FVar 0) (FBin BOr (FBin BAnd (FVar 1) (FQuant QExists (0 :: nil) (FVar 9)))
                                          (FCountC AtLeast (FVar 9 :: FVar 1 :: nil) 2%N))) = true /\
  pos 9 true (FBin BXor (FVar 9) (FVar 0)) = false.
Proof. split; reflexivity. Qed.
