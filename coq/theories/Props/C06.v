(** C06: lfp / gfp denote the least / greatest fixed point of a monotone transformer. *)
From Rsbdd Require Import Core.Bdd Core.Ops Core.Fix Lang.Ast Lang.Den Lang.DenFacts Lang.Eval Lang.EvalSound Lang.Free Lang.FSem Lang.FixLang Lang.FixFree.
Theorem C06_fp n a t r : fp_f n a t = Some r <->
  exists k, k < n /\ r = iter k t a /\ t r = r /\ forall j, j < k -> t (iter j t a) <> iter j t a.
Proof. exact (Fix.C06_fp n a t r). Qed.
Theorem C06_scope t r x b d : Den r (replace_var x (FSub b) t) d <-> Den (bind r x (fun s => beval s b)) t d.
Proof. exact (subst_den t r x b d). Qed.
Theorem C06_lfp X T : nofsub T -> nofix T ->
  (forall d1 d2 e1 e2, dle d1 d2 -> Den (bind empty X d1) T e1 -> Den (bind empty X d2) T e2 -> dle e1 e2) ->
  exists n r, eval_f n (FFix X false T) = Some r /\ robdd r /\ Den (bind empty X (bden r)) T (bden r) /\
    forall d e, Den (bind empty X d) T e -> dle e d -> dle (bden r) d.
Proof. exact (C06_lfp_fixfree X T). Qed.
Theorem C06_gfp X T : nofsub T -> nofix T ->
  (forall d1 d2 e1 e2, dle d1 d2 -> Den (bind empty X d1) T e1 -> Den (bind empty X d2) T e2 -> dle e1 e2) ->
  exists n r, eval_f n (FFix X true T) = Some r /\ robdd r /\ Den (bind empty X (bden r)) T (bden r) /\
    forall d e, Den (bind empty X d) T e -> dle d e -> dle d (bden r).
Proof. exact (C06_gfp_fixfree X T). Qed.
Print Assumptions C06_fp. Print Assumptions C06_lfp. Print Assumptions C06_gfp.

(** the iterator on a concrete monotone transformer: X := x0 | (x1 & X) from F stabilises at x0 after one step *)
Example C06_instance : fp_f 5 F (fun x => bor (bvar 0) (band (bvar 1) x)) = Some (bvar 0).
Proof. vm_compute. reflexivity. Qed.

(** a syntactic criterion for "monotone in X": every free occurrence of X in the (fixed-point-free) body has
    positive polarity - under and / or / if-branches / quantifiers / at-least counting / an even number of
    negations, never under xor / iff / an if-condition / exactly-counting.  For every such body evaluation of
    lfp X # T / gfp X # T terminates, at a fixed point below every pre-fixed point / above every post-fixed point. *)
From Coq Require Import NArith.
From Rsbdd Require Import Lang.Mono.
Theorem C06_lfp_positive X T : nofsub T -> nofix T -> pos X true T = true ->
  exists n r, eval_f n (FFix X false T) = Some r /\ robdd r /\ Den (bind empty X (bden r)) T (bden r) /\
    forall d e, Den (bind empty X d) T e -> dle e d -> dle (bden r) d.
Proof. exact (C06_lfp_syntactic X T). Qed.
Theorem C06_gfp_positive X T : nofsub T -> nofix T -> pos X true T = true ->
  exists n r, eval_f n (FFix X true T) = Some r /\ robdd r /\ Den (bind empty X (bden r)) T (bden r) /\
    forall d e, Den (bind empty X d) T e -> dle d e -> dle d (bden r).
Proof. exact (C06_gfp_syntactic X T). Qed.
(** the criterion is met by, e.g., the reachability body  a | (b & exists a # X) | [X, b] >= 2  and refuses  X ^ a *)
Example C06_positive_instance :
  pos 9 true (FBin BOr (FVar 0) (FBin BOr (FBin BAnd (FVar 1) (FQuant QExists (0 :: nil) (FVar 9)))
                                          (FCountC AtLeast (FVar 9 :: FVar 1 :: nil) 2%N))) = true /\
  pos 9 true (FBin BXor (FVar 9) (FVar 0)) = false.
Proof. split; reflexivity. Qed.

(** nested and mixed fixed points: when EVERY fixed-point binder of the formula (inner ones included) binds a name that is
    positive in its own body, evaluation terminates - inner iterations re-run for each outer iterate - at the least /
    greatest fixed point of the body; shadowing is handled by [pos] (an inner binder on X ends X's scope) *)
From Rsbdd Require Import Lang.FixNested.
Theorem C06_lfp_nested X T : nofsub T -> posfix T = true -> pos X true T = true ->
  exists n r, eval_f n (FFix X false T) = Some r /\ robdd r /\ Den (bind empty X (bden r)) T (bden r) /\
    forall d e, Den (bind empty X d) T e -> dle e d -> dle (bden r) d.
Proof. exact (FixNested.C06_lfp_nested X T). Qed.
Theorem C06_gfp_nested X T : nofsub T -> posfix T = true -> pos X true T = true ->
  exists n r, eval_f n (FFix X true T) = Some r /\ robdd r /\ Den (bind empty X (bden r)) T (bden r) /\
    forall d e, Den (bind empty X d) T e -> dle d e -> dle d (bden r).
Proof. exact (FixNested.C06_gfp_nested X T). Qed.
(** the meaning of such a body is monotone (polarity true) or antitone (polarity false) in the name, in every environment *)
Theorem C06_monotone X f : posfix f = true -> forall p, pos X p f = true -> forall r d1 d2 e1 e2, dle d1 d2 ->
  Den (bind r X d1) f e1 -> Den (bind r X d2) f e2 -> if p then dle e1 e2 else dle e2 e1.
Proof. intros Hpf p Hp r d1 d2 e1 e2 Hd D1 D2. exact (mono_posfix X f Hpf p Hp r d1 d2 e1 e2 Hd D1 D2). Qed.
(** termination for whole formulas of the positive fragment *)
Theorem C06_terminates f : nofsub f -> posfix f = true -> exists n b, eval_f n f = Some b /\ Den empty f (bden b) /\ robdd b.
Proof. exact (posfix_evaluates f). Qed.
Print Assumptions C06_lfp_nested. Print Assumptions C06_gfp_nested. Print Assumptions C06_monotone. Print Assumptions C06_terminates.
(** lfp X # a | gfp Y # ((X & Y) | b)  with a = 0, b = 1, X = 9, Y = 8: accepted by the criterion and evaluated to a | b;
    the inner binder re-using the outer name shadows it:  lfp X # a | (gfp X # X & b)  is accepted too *)
Example C06_nested_instance :
  let T := FBin BOr (FVar 0) (FFix 8 true (FBin BOr (FBin BAnd (FVar 9) (FVar 8)) (FVar 1))) in
  posfix T = true /\ pos 9 true T = true /\ eval_f 40 (FFix 9 false T) = Some (bor (bvar 0) (bvar 1)) /\
  posfix (FBin BOr (FVar 0) (FFix 9 true (FBin BAnd (FVar 9) (FVar 1)))) = true /\
  posfix (FFix 8 false (FNot (FVar 8))) = false.
Proof. vm_compute. repeat split; reflexivity. Qed.
