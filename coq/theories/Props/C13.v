(** C13: environment history never changes results; handed-out diagrams stay valid. *)
From Rsbdd Require Import Core.Bdd Env.Heap.
Theorem C13_histories cs h h' : Inv h -> run h cs = Some h' ->
  Inv h' /\ forall q, range h q -> range h' q /\ struct h' q = struct h q.
Proof. exact (Heap.C13_histories cs h h'). Qed.
Theorem C13_sharing cs h' p q : run h_new cs = Some h' -> range h' p -> range h' q -> struct h' p = struct h' q -> p = q.
Proof. exact (Heap.C13_sharing cs h' p q). Qed.
Theorem C13_refine h t v f h' p x y : Inv h -> range h t -> range h f -> struct h t = Some x -> struct h f = Some y ->
  h_mk_choice h t v f = Some (h', p) ->
  Inv h' /\ range h' p /\ struct h' p = Some (mk x v y) /\ (forall q, range h q -> range h' q /\ struct h' q = struct h q).
Proof. exact (mk_choice_ok h t v f h' p x y). Qed.
Print Assumptions C13_histories. Print Assumptions C13_sharing.

(** a history from the initial table: mk(T,0,F) twice returns the same address and the table grows once *)
Example C13_instance :
  exists h1 p h2 q, h_mk_choice h_new 0 0 1 = Some (h1, p) /\ h_mk_choice h1 0 0 1 = Some (h2, q) /\ p = q /\ length (table h2) = 3.
Proof. do 4 eexists. split; [vm_compute; reflexivity|]. split; [vm_compute; reflexivity|]. split; reflexivity. Qed.

(** the operations as clients of the table: written over addresses the way src/bdd.rs writes them over Rc pointers (read the
    operands' cells, recurse, finish with mk_choice / mk_const), every connective keeps the table invariant, leaves every
    pointer handed out earlier valid with an unchanged structure, and returns a pointer whose structure is the tree model's
    result on the operands' structures - for every environment reachable by whatever history, every operand pair, every fuel *)
From Coq Require Import List.
From Rsbdd Require Import Core.Ops Env.HeapOps.
Theorem C13_not_client fuel h a x res : Inv h -> range h a -> struct h a = Some x ->
  h_not fuel h a = Some res -> okres h (bnot x) res.
Proof. exact (h_not_ok fuel h a x res). Qed.
Theorem C13_and_client fuel h a b x y res : Inv h -> range h a -> range h b -> struct h a = Some x -> struct h b = Some y ->
  h_and fuel h a b = Some res -> okres h (band x y) res.
Proof. exact (h_and_ok fuel h a b x y res). Qed.
Theorem C13_or_client fuel h a b x y res : Inv h -> range h a -> range h b -> struct h a = Some x -> struct h b = Some y ->
  h_or fuel h a b = Some res -> okres h (bor x y) res.
Proof. exact (h_or_ok fuel h a b x y res). Qed.
(** compositions (implies, ite, eq, xor, nor, nand, var, const as programs over not / and / or, operands evaluated left to right) *)
Theorem C13_connectives_client p fuel h args xs res : Inv h -> valid_args h args xs ->
  h_run fuel h args p = Some res -> okres h (t_run xs p) res.
Proof. exact (h_run_ok p fuel h args xs res). Qed.
(** the programs of the derived operations denote the tree model's derived operations: the connectives, exists / all over a
    variable list, and the counting cascade cmp_count (hence aln / amn / exn and the list-against-list comparisons) *)
Theorem C13_derived_programs xs a b c vs bs n cmp :
  t_run xs (p_implies a b) = bimplies (t_run xs a) (t_run xs b) /\ t_run xs (p_ite a b c) = bite (t_run xs a) (t_run xs b) (t_run xs c) /\
  t_run xs (p_eq a b) = beq (t_run xs a) (t_run xs b) /\ t_run xs (p_xor a b) = bxor (t_run xs a) (t_run xs b) /\
  t_run xs (p_nor a b) = bnor (t_run xs a) (t_run xs b) /\ t_run xs (p_nand a b) = bnand (t_run xs a) (t_run xs b) /\
  t_run xs (p_exists vs a) = bex vs (t_run xs a) /\ t_run xs (p_all vs a) = ball vs (t_run xs a) /\
  t_run xs (p_cmp_count bs n cmp) = cmp_count (map (t_run xs) bs) n cmp.
Proof.
  destruct (t_run_connectives xs a b c) as (H1 & H2 & H3 & H4 & H5 & H6). destruct (t_run_quantifiers xs vs a) as [H7 H8].
  repeat split; auto. apply t_run_cmp_count.
Qed.
Print Assumptions C13_derived_programs.
(** with fuel above the operands' heights the recursion answers: the `unsupported match` arm of and / or is unreachable *)
Theorem C13_and_total fuel h a b x y : Inv h -> range h a -> range h b -> struct h a = Some x -> struct h b = Some y ->
  height x + height y < fuel -> exists res, h_and fuel h a b = Some res.
Proof. exact (h_and_total fuel h a b x y). Qed.
Print Assumptions C13_not_client. Print Assumptions C13_and_client. Print Assumptions C13_or_client. Print Assumptions C13_connectives_client. Print Assumptions C13_and_total.
(** xor of two fresh variables, built pointer by pointer in the empty environment, has the tree model's structure *)
Example C13_client_instance :
  match h_run 10 h_new nil (p_xor (PVar 0) (PVar 1)) with
  | Some (h', p) => struct h' p = Some (bxor (bvar 0) (bvar 1))
  | None => False
  end.
Proof. vm_compute. reflexivity. Qed.

(** model and retain_choice_bottom_up (True / False filter) as clients of the table *)
From Rsbdd Require Import Env.HeapOps2.
Theorem C13_model_client fuel h a x res : Inv h -> range h a -> struct h a = Some x ->
  h_model fuel h a = Some res -> okres h (bmodel x) res.
Proof. exact (h_model_ok fuel h a x res). Qed.
Theorem C13_retain_client filt fuel h a x res : Inv h -> range h a -> struct h a = Some x ->
  h_retain fuel filt h a = Some res -> okres h (retain_go filt x) res.
Proof. exact (h_retain_ok filt fuel h a x res). Qed.
Print Assumptions C13_model_client. Print Assumptions C13_retain_client.
Theorem C13_clean_client h a x res : Inv h -> range h a -> struct h a = Some x -> h_clean h a = Some res -> okres h (clean x) res.
Proof. exact (h_clean_ok h a x res). Qed.
(** fp with any client transformer t (one that refines a tree-level tt) is a client: it stops exactly when the tree-level
    iteration fp_f stops, at a pointer to that iterate; `snew == s` is pointer equality because of sharing *)
Theorem C13_fp_client (t : heap -> addr -> option (heap * addr)) (tt : bdd -> bdd) :
  (forall h a x res, Inv h -> range h a -> struct h a = Some x -> t h a = Some res -> okres h (tt x) res) ->
  forall fuel h s x res, Inv h -> range h s -> struct h s = Some x -> h_fp fuel h s t = Some res ->
  exists r, fp_f fuel x tt = Some r /\ okres h r res.
Proof. exact (h_fp_ok t tt). Qed.
Print Assumptions C13_clean_client. Print Assumptions C13_fp_client.
