(** C13: environment history never changes results; handed-out diagrams stay valid. *)
From Rsbdd Require Import Core.Bdd Env.Heap.
Theorem C13_histories cs h h' : Inv h -> run h cs = Some h' ->
  Inv h' /\ forall q, range h q -> range h' q /\ struct h' q = struct h q.
Proof. exact (Heap.C13_histories cs h h'). Qed.
Theorem C13_sharing cs h' p q : run h_new cs = Some h' -> range h' p -> range h' q -> struct h' p = struct h' q -> p = q.
Proof. exact (Heap.C13_sharing cs h' p q). Qed.
Theorem C13_refine h t v f h' p x y : Inv h -> range h t -> range h f -> struct h t = Some x -> struct h f = Some y ->
  h_mk_choice h t v f = Some (h', p) ->
  Inv h' /\ range h' p /\ struct h' p = Some (mk x v y) /\ (forall q, range h q -> range h' q /\ struct h' q = struct h q).
Proof. exact (mk_choice_ok h t v f h' p x y). Qed.
Print Assumptions C13_histories. Print Assumptions C13_sharing.

(** a history from the initial table: mk(T,0,F) twice returns the same address and the table grows once *)
Example C13_instance :
  exists h1 p h2 q, h_mk_choice h_new 0 0 1 = Some (h1, p) /\ h_mk_choice h1 0 0 1 = Some (h2, q) /\ p = q /\ length (table h2) = 3.
Proof. do 4 eexists. split; [vm_compute; reflexivity|]. split; [vm_compute; reflexivity|]. split; reflexivity. Qed.
