(** C19: BDDSet behaves as a mathematical set of b-bit integers under every history. *)
From Coq Require Import List.
From Rsbdd Require Import Core.Bdd Sets.BddSet.
Theorem C19_histories bits os st rs : rel bits st rs -> Forall (op_ok bits) os -> runs bits st os = rruns rs os.
Proof. exact (BddSet.C19_histories bits os st rs). Qed.
Theorem C19_initial bits : rel bits (F, F) ((fun _ => false), (fun _ => false)). Proof. exact (BddSet.C19_initial bits). Qed.
Theorem C19_query_pure bits st i e : fst (step bits st (SContains i e)) = st. Proof. exact (BddSet.C19_query_pure bits st i e). Qed.
Print Assumptions C19_histories.

(** insert 1, insert 2 into set 0, query: the answers are those of the reference, and the query changed nothing *)
Example C19_instance :
  runs 2 (F, F) (SInsert false 1 :: SInsert false 2 :: SContains false 1 :: SContains false 2 :: SContains false 3 :: nil)
  = None :: None :: Some true :: Some true :: Some false :: nil.
Proof. vm_compute. reflexivity. Qed.
