(** C19: BDDSet behaves as a mathematical set of b-bit integers under every history. *)
From Coq Require Import List.
From Rsbdd Require Import Core.Bdd Sets.BddSet.
Theorem C19_histories bits os st rs : rel bits st rs -> Forall (op_ok bits) os -> runs bits st os = rruns rs os.
Proof. exact (BddSet.C19_histories bits os st rs). Qed.
Theorem C19_initial bits : rel bits (F, F) ((fun _ => false), (fun _ => false)). Proof. exact (BddSet.C19_initial bits). Qed.
Theorem C19_query_pure bits st i e : fst (step bits st (SContains i e)) = st. Proof. exact (BddSet.C19_query_pure bits st i e). Qed.
Print Assumptions C19_histories.
