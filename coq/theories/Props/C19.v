(** C19: BDDSet behaves as a mathematical set of b-bit integers under every history. *)
From Coq Require Import List.
From Rsbdd Require Import Core.Bdd Sets.BddSet.
Theorem C19_histories bits os st rs : rel bits st rs -> Forall (op_ok bits) os -> runs bits st os = rruns rs os.
Proof. exact (BddSet.C19_histories bits os st rs). Qed.
Theorem C19_initial bits : rel bits (F, F) ((fun _ => false), (fun _ => false)). Proof. exact (BddSet.C19_initial bits). Qed.
Theorem C19_query_pure bits st i e : fst (step bits st (SContains i e)) = st. Proof. exact (BddSet.C19_query_pure bits st i e). Qed.
Print Assumptions C19_histories.

(** insert 1, insert 2 into set 0, query: the answers are those of the reference, and the query changed nothing *)
Example C19_instance :
  runs 2 (F, F) (SInsert false 1 :: SInsert false 2 :: SContains false 1 :: SContains false 2 :: SContains false 3 :: nil)
  = None :: None :: Some true :: Some true :: Some false :: nil.
Proof. vm_compute. reflexivity. Qed.

(** the same over binary elements, as executed by the correspondence suite for sets of up to 64 bits: the machine over [N]
    elements is the machine above read through N.of_nat, and every history over elements below 2^bits answers like the
    reference sets of N *)
From Coq Require Import NArith.
From Rsbdd Require Import Sets.BddSetN.
Theorem C19_histories_N bits os : Forall (op_okN bits) os ->
  runsN bits (F, F) os = rrunsN ((fun _ => false), (fun _ => false)) os.
Proof. exact (BddSetN.C19_histories_N bits os). Qed.
Theorem C19_machine_N bits os st : runsN bits st (map sop_to_N os) = runs bits st os.
Proof. exact (runsN_of_nat bits os st). Qed.
Print Assumptions C19_histories_N. Print Assumptions C19_machine_N.
(** a 64-bit set: after inserting 5, the element 5 + 2^56 is not a member, 5 is *)
Example C19_wide_instance :
  runsN 64 (F, F) (SNInsert false 5%N :: SNContains false (5 + 2 ^ 56)%N :: SNContains false 5%N :: nil) = None :: Some false :: Some true :: nil.
Proof. vm_compute. reflexivity. Qed.
