(** C16: max_clique_gen emits a formula whose models are exactly the maximum cliques. *)
From Coq Require Import List ZArith.
From Rsbdd Require Import Lang.FSem Gen.Clique Gen.CliqueComp Gen.Colors.
(** undirected mode, with the complement list the generator builds *)
Theorem C16_all_undirected vs E s :
  fsem (form_all (comp_undir vs E)) s = true <-> clique vs (adj_undir E) s.
Proof.
  apply (C16_all vs (adj_undir E) (comp_undir vs E)).
  - apply comp_undir_sound. - apply comp_undir_complete.
Qed.
Theorem C16_max_undirected vs E cp s :
  (forall a b, In a vs -> In b vs -> cp a = cp b -> a = b) -> (forall a b, In a vs -> In b vs -> cp a <> b) ->
  (fsem (form_max vs (comp_undir vs E) cp) s = true <->
   clique vs (adj_undir E) s /\ forall t, clique vs (adj_undir E) t -> (cnt vs t <= cnt vs s)%Z).
Proof.
  intros Hinj Hfresh. apply (C16_max vs (adj_undir E) (comp_undir vs E)); auto.
  - apply comp_undir_sound. - apply comp_undir_complete.
Qed.
Theorem C16_all_directed vs E s :
  fsem (form_all (comp_dir vs E)) s = true <-> clique vs (adj_dir E) s.
Proof.
  apply (C16_all vs (adj_dir E) (comp_dir vs E)).
  - apply comp_dir_sound. - apply comp_dir_complete.
Qed.
Print Assumptions C16_all_undirected. Print Assumptions C16_max_undirected.

(** path a - b - c (undirected): {a, b} is a maximum clique, {a} is a clique but not maximum *)
Example C16_instance :
  let vs := 0 :: 1 :: 2 :: nil in let E := (0, 1) :: (1, 2) :: nil in let cp := fun v => 10 + v in
  fsem (form_max vs (comp_undir vs E) cp) (fun v => match v with 0 | 1 => true | _ => false end) = true /\
  fsem (form_max vs (comp_undir vs E) cp) (fun v => match v with 0 => true | _ => false end) = false /\
  fsem (form_all (comp_undir vs E)) (fun v => match v with 0 => true | _ => false end) = true.
Proof. repeat split; vm_compute; reflexivity. Qed.

(** the copy naming of the (repaired) generator meets the two hypotheses of C16_max_undirected: the prefix
    "v_" extended by '_' until no vertex name starts with it gives copies that are new names and pairwise different *)
From Rsbdd Require Import Gen.Prefix.
Theorem C16_copies_fresh vs u v : In u vs -> In v vs -> copy_prefix vs ++ u <> v.
Proof. exact (copies_fresh vs u v). Qed.
Theorem C16_copies_injective vs u v : copy_prefix vs ++ u = copy_prefix vs ++ v -> u = v.
Proof. exact (copies_injective vs u v). Qed.
Theorem C16_max_directed vs E cp s :
  (forall a b, In a vs -> In b vs -> cp a = cp b -> a = b) -> (forall a b, In a vs -> In b vs -> cp a <> b) ->
  (fsem (form_max vs (comp_dir vs E) cp) s = true <->
   clique vs (adj_dir E) s /\ forall t, clique vs (adj_dir E) t -> (cnt vs t <= cnt vs s)%Z).
Proof.
  intros Hinj Hfresh. apply (C16_max vs (adj_dir E) (comp_dir vs E)); auto.
  - apply comp_dir_sound. - apply comp_dir_complete.
Qed.

(** the token stream the generator prints - "-(a & b) &" per complement pair (or "true &"), then "true" / the maximality clause
    "forall copies # ( .. ) => [vertices] >= [copies]" - parses to exactly form_all / form_max (parser = grammar, C08) *)
From Rsbdd Require Import Syntax.Token Syntax.Parser Gen.GenText.
Theorem C16_text_all comp : parse (all_tokens comp ++ TEof :: nil) = Ok (form_all comp) nil.
Proof. exact (all_parses comp). Qed.
Theorem C16_text_max vs comp cp : parse (max_tokens vs comp cp ++ TEof :: nil) = Ok (form_max vs comp cp) nil.
Proof. exact (max_parses vs comp cp). Qed.
Print Assumptions C16_text_max.
