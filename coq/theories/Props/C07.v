(** C07: model extraction returns one genuine satisfying cube. *)
From Coq Require Import List.
From Rsbdd Require Import Core.Bdd Core.Ops Core.Cube.
Theorem C07_unsat a : robdd a -> (bmodel a = F <-> forall s, beval s a = false). Proof. exact (Cube.C07_unsat a). Qed.
Theorem C07_cube a : robdd a -> bmodel a <> F ->
  is_cube (bmodel a) /\ robdd (bmodel a) /\ incl (support (bmodel a)) (support a) /\
  forall s, beval s (bmodel a) = true -> beval s a = true.
Proof. exact (Cube.C07_cube a). Qed.
Theorem C07_infer m v : robdd m -> (binfer m v = (true, true) <-> forall s, beval s m = true -> s v = true).
Proof. exact (Cube.C07_infer m v). Qed.
Print Assumptions C07_unsat. Print Assumptions C07_cube. Print Assumptions C07_infer.

Example C07_instance : robdd (Nd (Nd F 1 T) 0 (Nd T 1 F)) /\ bmodel (Nd (Nd F 1 T) 0 (Nd T 1 F)) = Nd (Nd F 1 T) 0 F /\ binfer (Nd (Nd F 1 T) 0 F) 0 = (true, true).
Proof. split; [split; cbn; repeat split; auto; discriminate|]. split; vm_compute; reflexivity. Qed.

(** ... and for every ORDERED diagram, reduced or not (the enum is public: a node can be allocated without mk_choice, so a diagram
    may contain redundant tests and dead nodes with two unsatisfiable branches): the same three statements *)
From Rsbdd Require Import Core.CubeOrd.
Theorem C07_unsat_ordered a : ord 0 a -> (bmodel a = F <-> forall s, beval s a = false). Proof. exact (CubeOrd.C07_unsat_ordered a). Qed.
Theorem C07_cube_ordered a : ord 0 a -> bmodel a <> F ->
  is_cube (bmodel a) /\ robdd (bmodel a) /\ incl (support (bmodel a)) (support a) /\
  forall s, beval s (bmodel a) = true -> beval s a = true.
Proof. exact (CubeOrd.C07_cube_ordered a). Qed.
Theorem C07_infer_ordered m v : ord 0 m -> (binfer m v = (true, true) <-> forall s, beval s m = true -> s v = true).
Proof. exact (CubeOrd.C07_infer_ordered m v). Qed.
Print Assumptions C07_unsat_ordered. Print Assumptions C07_cube_ordered. Print Assumptions C07_infer_ordered.
(** a dead node under a live one: not reduced, satisfiable through the else-branch *)
Example C07_ordered_instance :
  let a := Nd (Nd F 1 F) 0 T in ord 0 a /\ ~ red a /\ bmodel a = Nd F 0 T.
Proof. split; [cbn; repeat split; auto using le_n, le_S|]. split; [cbn; intros (_ & (H & _) & _); apply H; reflexivity|vm_compute; reflexivity]. Qed.
