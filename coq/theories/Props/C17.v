(** C17: sudoku_gen emits a formula whose models are exactly the puzzle's solutions. *)
From Coq Require Import List.
From Rsbdd Require Import Lang.FSem Gen.Sudoku Gen.Forms.
Theorem C17 r hints s :
  (forall c d, In (c, d) hints -> c < (r * r) * (r * r) /\ 1 <= d <= r * r) ->
  (fsem (sudoku_form r hints) s = true <-> exists g, Sudoku.grid_ok r hints g /\ Sudoku.encodes r s g).
Proof. exact (C17_formula r hints s). Qed.
Print Assumptions C17.

(** r = 1: the single cell must hold 1; with the given "1" the formula is satisfied by that assignment *)
Example C17_instance : fsem (sudoku_form 1 ((0, 1) :: nil)) (fun v => Nat.eqb v 1) = true /\ fsem (sudoku_form 1 nil) (fun _ => false) = false.
Proof. split; vm_compute; reflexivity. Qed.
