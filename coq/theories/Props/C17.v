(** C17: sudoku_gen emits a formula whose models are exactly the puzzle's solutions. *)
From Coq Require Import List.
From Rsbdd Require Import Lang.FSem Gen.Sudoku Gen.Forms.
Theorem C17 r hints s :
  (forall c d, In (c, d) hints -> c < (r * r) * (r * r) /\ 1 <= d <= r * r) ->
  (fsem (sudoku_form r hints) s = true <-> exists g, Sudoku.grid_ok r hints g /\ Sudoku.encodes r s g).
Proof. exact (C17_formula r hints s). Qed.
Print Assumptions C17.

(** r = 1: the single cell must hold 1; with the given "1" the formula is satisfied by that assignment *)
Example C17_instance : fsem (sudoku_form 1 ((0, 1) :: nil)) (fun v => Nat.eqb v 1) = true /\ fsem (sudoku_form 1 nil) (fun _ => false) = false.
Proof. split; vm_compute; reflexivity. Qed.

(** over the puzzle text: the hints are read by [hints_of_text] (white space stripped, position below
    r^4, ASCII digit); when every given digit lies in 1..r^2 the emitted formula's models are exactly the
    completed grids that keep the givens *)
From Coq Require Import NArith.
From Rsbdd Require Import Gen.GenCheck.
Theorem C17_text r ws txt s :
  let hints := hints_of_text ws ((r * r) * (r * r)) txt in
  (forall c d, In (c, d) hints -> 1 <= d <= r * r) ->
  (fsem (sudoku_form r hints) s = true <-> exists g, Sudoku.grid_ok r hints g /\ Sudoku.encodes r s g).
Proof.
  intros hints Hd. apply C17_formula. intros c d Hin. split; [|exact (Hd c d Hin)].
  unfold hints, hints_of_text in Hin. destruct (hints_from_range _ _ _ c d Hin) as [Hc _]. exact (proj2 Hc).
Qed.

(** at the level of the tokens: what sudoku_gen prints (the hints as single variables, then the "= 1" lists, joined by "&", closed by
    "true") parses to exactly sudoku_form r hints *)
From Rsbdd Require Import Syntax.Token Syntax.Parser Gen.GenText.
Theorem C17_tokens r hints : parse (chain_tokens (sudoku_items r hints) ++ TEof :: nil) = Ok (sudoku_form r hints) nil.
Proof. exact (GenText.C17_tokens r hints). Qed.
Print Assumptions C17_tokens.

(** the tie by translation (DESIGN 15.7c): the three constraint nests of sudoku_gen/src/main.rs are re-read on every run and proved,
    for all r, to be cell_lists / rowcol_lists / box_lists (generated lemmas fam_1 .. fam_3) *)
From Rsbdd Require Import Lang.Ast Gen.GenText Gen.SrcLoops.
Theorem C17_source_three r hints f1 f2 f3 :
  f1 = Sudoku.cell_lists r -> f2 = Sudoku.rowcol_lists r -> f3 = Sudoku.box_lists r ->
  map (fun h => IVar (Sudoku.vid r (fst h) (snd h))) hints ++
  map (ICount false Exactly) f1 ++ map (ICount false Exactly) f2 ++ map (ICount false Exactly) f3 ++ nil = sudoku_items r hints.
Proof. exact (sudoku_items_three r hints f1 f2 f3). Qed.
Print Assumptions C17_source_three.
