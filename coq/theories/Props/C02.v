(** C02: canonical form. *)
From Rsbdd Require Import Core.Bdd Core.Ops Core.Canon Core.Pres.
Theorem C02_canonical a b : robdd a -> robdd b -> (a = b <-> equiv a b). Proof. exact (robdd_canonical a b). Qed.
Theorem C02_reach b : Reach b -> robdd b. Proof. exact (reach_robdd b). Qed.
Theorem C02_reach_canonical a b : Reach a -> Reach b -> (a = b <-> equiv a b). Proof. exact (Pres.C02_reach_canonical a b). Qed.
Theorem C02_valid a : robdd a -> (forall s, beval s a = true) -> a = T. Proof. exact (robdd_valid a). Qed.
Theorem C02_unsat a : robdd a -> (forall s, beval s a = false) -> a = F. Proof. exact (robdd_unsat a). Qed.
Example C02_nonvacuous : robdd (Nd T 0 (Nd T 2 F)).
Proof. split; cbn; repeat split; auto; discriminate. Qed.
Print Assumptions C02_canonical. Print Assumptions C02_reach.
