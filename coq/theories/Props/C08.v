(** C08: the parser accepts exactly the grammar and builds the tree it prescribes. *)
From Coq Require Import List NArith.
From Rsbdd Require Import Lang.Ast Syntax.Token Syntax.Lexer Syntax.LexSpec Syntax.Tokenize Syntax.Parser Syntax.Grammar Syntax.ParserSound Syntax.ParserComplete.
Theorem C08_lex uc l : Lexes uc l (lex_raw uc l). Proof. exact (LexSpec.C08_lex uc l). Qed.
Theorem C08_parse uc ordering txt ts f : tokenize uc ordering txt = Some ts -> (parse ts = Ok f nil <-> G_formula ts f).
Proof. exact (C08_text uc ordering txt ts f). Qed.
Theorem C08_unique ts f1 f2 : G_formula ts f1 -> G_formula ts f2 -> f1 = f2. Proof. exact (ParserComplete.C08_unique ts f1 f2). Qed.
Print Assumptions C08_lex. Print Assumptions C08_parse.

(** a sentence and a non-sentence: "a & -b" and the repaired D1 witness "-(a] b" *)
Example C08_instance :
  parse (TVar 0 :: TAnd :: TNot :: TVar 1 :: TEof :: nil) = Ok (FBin BAnd (FVar 0) (FNot (FVar 1))) nil /\
  parse (TNot :: TOpenParen :: TVar 0 :: TCloseSquare :: TVar 1 :: TEof :: nil) = Err.
Proof. split; vm_compute; reflexivity. Qed.

(** the lexing relation is functional: the scanner's output is THE tokenisation of a text (leftmost, longest
    lexeme; complete comments and characters at which nothing starts are skipped) *)
From Rsbdd Require Import Syntax.LexUnique.
Theorem C08_lex_unique uc l ts : Lexes uc l ts <-> ts = lex_raw uc l.
Proof. exact (LexUnique.C08_lex_unique uc l ts). Qed.

(** the parser is onto: every syntax tree without embedded diagrams is the parse of its (fully bracketed)
    print-out, and whatever the parser returns is such a tree *)
From Rsbdd Require Import Lang.Free Syntax.Printer.
Theorem C08_print_parse f : nofsub f -> parse (unparse f ++ TEof :: nil) = Ok f nil.
Proof. exact (parse_unparse f). Qed.
Theorem C08_parse_trees ts f : G_formula ts f -> nofsub f.
Proof. exact (parse_nofsub ts f). Qed.
Print Assumptions C08_print_parse. Print Assumptions C08_parse_trees.
Example C08_print_instance :
  unparse (FQuant QExists (0 :: 1 :: nil) (FCountC AtMost (FVar 0 :: FNot (FVar 2) :: nil) 1%N))
  = TOpenParen :: TExists :: TVar 0 :: TComma :: TVar 1 :: THash :: TOpenSquare :: TVar 0 :: TComma :: TNot :: TVar 2 :: TCloseSquare
      :: TImpliesInv :: TNum 1%N :: TCloseParen :: nil.
Proof. vm_compute; reflexivity. Qed.

(** the tie by translation (DESIGN 15.7b): for ANY symbol alternation and arm tables - in every run the ones the translator
    has just read from src/parser.rs - two conditions decided by computation give: the leftmost-first alternation followed by
    the symbol arms computes what scan_symbol / token_of_sym compute, on every input, and the keyword arms are the keyword table *)
From Rsbdd Require Import Syntax.SrcTables.
Theorem C08_source_symbols alts arms : alternation_ok alts = true -> same_map arms model_symbols = true ->
  forall l, match first_match alts l with
            | Some k => exists s, scan_symbol l = Some (s, skipn (length k) l) /\ assoc k arms = Some (token_of_sym s)
            | None => scan_symbol l = None
            end.
Proof. exact (src_lexer_agrees alts arms). Qed.
Theorem C08_source_keywords arms : same_map arms keywords = true -> forall w, assoc w arms = assoc w keywords.
Proof. exact (src_keywords_agree arms). Qed.
Print Assumptions C08_source_symbols. Print Assumptions C08_source_keywords.
