(** C11: variable ordering changes the shape of the answer, never its meaning. *)
From Rsbdd Require Import Core.Bdd Lang.Ast Lang.Eval Lang.Free Lang.Rename.
Theorem C11_meaning (p q : nat -> nat) : (forall x, q (p x) = x) -> forall n m f b1 b2, nofsub f ->
  eval_f n f = Some b1 -> eval_f m (rename p f) = Some b2 -> forall s, beval s b2 = beval (fun x => s (p x)) b1.
Proof. intros Hq n m f b1 b2. exact (C11_rename p q Hq n m f b1 b2). Qed.
Print Assumptions C11_meaning.

(** the hypothesis is satisfiable: swapping the ids 0 and 1 is its own inverse *)
Example C11_instance : let p := fun x => match x with 0 => 1 | 1 => 0 | n => n end in forall x, p (p x) = x.
Proof. intros p [|[|n]]; reflexivity. Qed.
