(** C11: variable ordering changes the shape of the answer, never its meaning. *)
From Coq Require Import List NArith.
From Rsbdd Require Import Core.Bdd Lang.Ast Lang.Eval Lang.Free Lang.Rename.
From Rsbdd Require Import Syntax.Lexer Syntax.Tokenize Cli.Pipeline Cli.Ordering.

(** over texts: the same formula text evaluated under ANY two orderings with pairwise distinct ids
    (permutation, subset, superset with unused names anywhere, names the text never mentions) yields two
    diagrams that denote the same function of the NAMED variables: for every valuation sigma of names,
    reading each diagram's variable i as sigma (its name in that run's id table) gives the same value.
    Proof: the tokens of a text are a function of the final id table (classify_render), so two runs
    differ by an id renaming that respects names (render_rename); the grammar is closed under such
    renamings (grammar_rename) and the parser is the grammar (C08), so the trees are renamings of one
    another; C11_meaning then transfers the denotation. *)
Theorem C11_text uc o1 o2 txt p1 p2 n1 n2 b1 b2 :
  NoDup (map snd o1) -> NoDup (map snd o2) ->
  parsed_formula uc o1 txt = Done p1 -> parsed_formula uc o2 txt = Done p2 ->
  eval_f n1 (pf_form p1) = Some b1 -> eval_f n2 (pf_form p2) = Some b2 ->
  forall sigma : name -> bool,
    beval (fun i => sigma (name_of (name_table uc o1 txt) i)) b1 =
    beval (fun i => sigma (name_of (name_table uc o2 txt) i)) b2.
Proof. exact (Ordering.C11_text uc o1 o2 txt p1 p2 n1 n2 b1 b2). Qed.

(** the orderings the binary reads from a file (ids 0, 1, ... by first appearance) qualify *)
Theorem C11_file_orderings uc t o : ordering_of_file uc t = Done o -> NoDup (map snd o).
Proof. exact (ordering_of_file_distinct uc t o). Qed.

(** "variables listed in the file are ordered as in the file": the ordering is the file's distinct names in order
    of first appearance, and the name at position a receives the id a (the header lists free variables by id) *)
Theorem C11_file_order uc t o : ordering_of_file uc t = Done o ->
  exists ws, NoDup ws /\ o = number_from 0 ws /\ ws = dedup_names nil (ident_names (lex_raw uc t)) /\
    forall a w, nth_error ws a = Some w -> assoc w o = Some a.
Proof. exact (Ordering.C11_file_order uc t o). Qed.

Theorem C11_meaning (p q : nat -> nat) : (forall x, q (p x) = x) -> forall n m f b1 b2, nofsub f ->
  eval_f n f = Some b1 -> eval_f m (rename p f) = Some b2 -> forall s, beval s b2 = beval (fun x => s (p x)) b1.
Proof. intros Hq n m f b1 b2. exact (C11_rename p q Hq n m f b1 b2). Qed.

(** the hypothesis is satisfiable: swapping the ids 0 and 1 is its own inverse *)
Example C11_instance : let p := fun x => match x with 0 => 1 | 1 => 0 | n => n end in forall x, p (p x) = x.
Proof. intros p [|[|n]]; reflexivity. Qed.
(** "b & -a" under the orderings [] and [a:5]: different diagrams, the same function of the names a, b *)
Example C11_two_orderings :
  let txt := (98 :: 32 :: 38 :: 32 :: 45 :: 97 :: nil)%N in let a := (97 :: nil)%N in
  exists p1 p2 b1 b2, parsed_formula (fun _ => UOther) nil txt = Done p1 /\ parsed_formula (fun _ => UOther) ((a, 5) :: nil) txt = Done p2 /\
    eval_f 20 (pf_form p1) = Some b1 /\ eval_f 20 (pf_form p2) = Some b2 /\ b1 = Nd (Nd F 1 T) 0 F /\ b2 = Nd F 5 (Nd T 6 F).
Proof. do 4 eexists. repeat split; vm_compute; reflexivity. Qed.

(** order-isomorphic id assignments give the same diagram up to the renaming: only the relative order of the ids matters, so
    sparse 64-bit ids may be replaced by their ranks (used by the correspondence suite S-text/evalid) *)
From Rsbdd Require Import Lang.RankIso Lang.Free Lang.Eval.
Theorem C11_rank_iso (p : nat -> nat) : (forall x y, x < y -> p x < p y) -> forall n m f b1 b2, nofsub f ->
  eval_f n f = Some b1 -> eval_f m (rename p f) = Some b2 -> b2 = bmap p b1.
Proof. exact (RankIso.C11_rank_iso p). Qed.
Print Assumptions C11_rank_iso.
Example C11_rank_instance :
  let f := FBin BOr (FBin BAnd (FVar 0) (FNot (FVar 1))) (FQuant QExists (2 :: nil) (FBin BAnd (FVar 2) (FVar 3))) in
  let p := fun x => 1000 * x + 7 in
  eval_f 20 (rename p f) = option_map (bmap p) (eval_f 20 f) /\ eval_f 20 f <> None.
Proof. vm_compute. split; [reflexivity|discriminate]. Qed.

(** the round trip: exporting the order with -r and feeding it back with -o reproduces the identical table - header, rows,
    -v lines and the -r list - for every formula, every first ordering file (or none), every -f / -c / -m.  The exported list is
    taken as the ordering the second run reads (hypothesis 2: the file of names lexes back to those names); the second run
    numbers the variables by their position in the first run's order, an order isomorphism on the variables of the text, so
    the evaluated diagram is the first one renamed (C11_rank_iso with monotonicity on the diagram's variables only), and
    retain, model and both printers commute with such a renaming.  (That the second run answers at all is its third
    hypothesis; for fixed-point-free formulas evaluation always answers, C12_eval.) *)
From Rsbdd Require Import Cli.RoundTrip.
Theorem C11_roundtrip fuel fuel' uc o ordfile1 txt out1 otxt2 out2 :
  cli fuel uc o ordfile1 txt = CliOk out1 ->
  ordering_of_file uc otxt2 = Done (number_from 0 (out_order out1)) ->
  cli fuel' uc o (Some otxt2) txt = CliOk out2 ->
  out_header out2 = out_header out1 /\ out_rows out2 = out_rows out1 /\ out_true out2 = out_true out1 /\ out_order out2 = out_order out1.
Proof. exact (RoundTrip.C11_roundtrip fuel fuel' uc o ordfile1 txt out1 otxt2 out2). Qed.
Theorem C11_rank_iso_on (p q : nat -> nat) : (forall x, q (p x) = x) -> forall n m f b1 b2, nofsub f ->
  eval_f n f = Some b1 -> eval_f m (rename p f) = Some b2 ->
  (forall x y, In x (support b1) -> In y (support b1) -> x < y -> p x < p y) -> b2 = bmap p b1.
Proof. exact (RankIso.C11_rank_iso_on p q). Qed.
Print Assumptions C11_roundtrip. Print Assumptions C11_rank_iso_on.

(** ... and that hypothesis holds for the text -r prints (each name followed by a newline): the names are distinct non-keyword
    identifiers of the formula text, so the file lexes back to exactly that list (maximal munch: an identifier followed by a
    newline is a maximal lexeme, nothing starts at a newline), hence the round trip through the exported TEXT *)
From Rsbdd Require Import Cli.ExportReads.
Theorem C11_roundtrip_export fuel fuel' uc o ordfile1 txt out1 out2 :
  cli fuel uc o ordfile1 txt = CliOk out1 ->
  cli fuel' uc o (Some (export (out_order out1))) txt = CliOk out2 ->
  out_header out2 = out_header out1 /\ out_rows out2 = out_rows out1 /\ out_true out2 = out_true out1 /\ out_order out2 = out_order out1.
Proof. exact (ExportReads.C11_roundtrip_export fuel fuel' uc o ordfile1 txt out1 out2). Qed.
Print Assumptions C11_roundtrip_export.
(** the hypotheses are met by an actual round trip: "b & -a" prints the order b, a; the file "b<newline>a" reads back as that
    ordering; the second run prints the same table *)
Example C11_roundtrip_instance :
  let uc := fun _ : N => UOther in let o := mkOptions Ops.TAny Ops.TAny false 1 in
  let txt := (98 :: 32 :: 38 :: 32 :: 45 :: 97 :: nil)%N in let otxt2 := (98 :: 10 :: 97 :: nil)%N in
  exists out1 out2, cli 20 uc o None txt = CliOk out1 /\ ordering_of_file uc otxt2 = Done (number_from 0 (out_order out1)) /\
    cli 20 uc o (Some otxt2) txt = CliOk out2 /\ out_rows out2 = out_rows out1 /\ out_header out1 = ((98 :: nil) :: (97 :: nil) :: nil)%N.
Proof. do 2 eexists. split; [vm_compute; reflexivity|]. split; [vm_compute; reflexivity|]. split; [vm_compute; reflexivity|]. split; reflexivity. Qed.

(** ... and without the hypothesis that the second run answers: if the first run prints, the run that reads the exported
    order back tokenizes, parses, evaluates for every sufficient fuel and prints the identical output *)
From Rsbdd Require Import Cli.RoundTripTotal.
Theorem C11_roundtrip_total fuel uc o ordfile1 txt out1 :
  cli fuel uc o ordfile1 txt = CliOk out1 ->
  exists fuel0, forall fuel', fuel0 <= fuel' ->
    exists out2, cli fuel' uc o (Some (export (out_order out1))) txt = CliOk out2 /\
      out_header out2 = out_header out1 /\ out_rows out2 = out_rows out1 /\ out_true out2 = out_true out1 /\ out_order out2 = out_order out1.
Proof. exact (RoundTripTotal.C11_roundtrip_export_total fuel uc o ordfile1 txt out1). Qed.
Print Assumptions C11_roundtrip_total.
