(** C12: no input makes the parser or the command-line tool panic.
    [cli] (Cli/Pipeline.v) is the logic of the binary's main: ordering file and formula text as code
    points, tokenize, parse, variables, free variables, evaluation, retain, model, both table printers;
    it returns [CliPanic] exactly where the Rust code would index out of bounds / unwrap a None in the
    printers.  Tokenizer, parser and evaluator return error values ([Error], [Diverged]), never a panic
    value, by construction of their result types; that the implementation returns Err on exactly those
    inputs is the correspondence (suites S-text, S-cli robustlib and robustbin). *)
From Coq Require Import List NArith.
Import ListNotations.
From Rsbdd Require Import Core.Bdd Core.Ops Lang.Ast Lang.Eval Lang.Free Lang.FSem Syntax.Lexer Syntax.Tokenize
  Cli.Table Cli.NoPanic Cli.Pipeline Cli.PipelineFacts.

(** for every fuel, every classification of non-ASCII code points, every option set, every ordering
    file and every formula text *)
Theorem C12_no_panic fuel uc o ordfile txt : cli fuel uc o ordfile txt <> CliPanic.
Proof. exact (PipelineFacts.C12_no_panic fuel uc o ordfile txt). Qed.

Theorem C12_table vars f n b : nofsub f -> NoDup vars -> (forall x, var_is_free f x = true -> In x vars) ->
  eval_f n f = Some b -> exists rows, tt_rows (free_vars vars f) b (map (fun _ => TA) (free_vars vars f)) = Some rows.
Proof. exact (C12_table_total vars f n b). Qed.
Theorem C12_eval f n : nofix f -> size f <= n -> exists b, eval_f n f = Some b. Proof. exact (nofix_total f n). Qed.

(** not vacuous: the pipeline does produce tables, e.g. for "a & -b" under the ordering file "x a b" *)
Example C12_cli_runs :
  exists out, cli 50 (fun _ => UOther) (mkOptions TAny TAny false 1) (Some [120; 32; 97; 32; 98]%N) [97; 32; 38; 32; 45; 98]%N = CliOk out
              /\ length (out_rows out) = 3 /\ length (out_header out) = 2.
Proof. eexists. split; [vm_compute; reflexivity|]. split; reflexivity. Qed.

(** at the level of the command line: which texts are answered.  A text (with its ordering file) is rejected with an error
    exactly when the ordering file, the tokenizer or the parser rejects it - independently of the fuel (C12_error_iff); every
    other text whose fixed-point binders bind names that are positive in their own bodies (in particular every text without
    lfp / gfp) is printed once the fuel suffices: no divergence, no printer failure (C12_answers). *)
From Rsbdd Require Import Cli.Answers Lang.Mono.
Theorem C12_error_iff fuel uc o ordfile txt : cli fuel uc o ordfile txt = CliError <-> cli_form uc ordfile txt = None.
Proof. exact (Answers.cli_error_iff fuel uc o ordfile txt). Qed.
Theorem C12_answers uc o ordfile txt f : cli_form uc ordfile txt = Some f -> posfix f = true ->
  exists fuel0, forall fuel, fuel0 <= fuel -> exists out, cli fuel uc o ordfile txt = CliOk out.
Proof. exact (Answers.cli_answers uc o ordfile txt f). Qed.
Print Assumptions C12_error_iff. Print Assumptions C12_answers.
(** "lfp X # a | X" is such a text *)
Example C12_answers_instance :
  let uc := fun _ : N => UOther in
  let txt := (108 :: 102 :: 112 :: 32 :: 88 :: 32 :: 35 :: 32 :: 97 :: 32 :: 124 :: 32 :: 88 :: nil)%N in
  exists f, cli_form uc None txt = Some f /\ posfix f = true.
Proof. eexists. split; vm_compute; reflexivity. Qed.
