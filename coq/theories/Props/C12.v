(** C12 (logical core): the table printer never fails on an answer; fix-free formulas evaluate. *)
From Coq Require Import List.
From Rsbdd Require Import Core.Bdd Lang.Ast Lang.Eval Lang.Free Lang.FSem Cli.Table Cli.NoPanic.
Theorem C12_table vars f n b : nofsub f -> NoDup vars -> (forall x, var_is_free f x = true -> In x vars) ->
  eval_f n f = Some b -> exists rows, tt_rows (free_vars vars f) b (map (fun _ => TA) (free_vars vars f)) = Some rows.
Proof. exact (C12_table_total vars f n b). Qed.
Theorem C12_eval f n : nofix f -> size f <= n -> exists b, eval_f n f = Some b. Proof. exact (nofix_total f n). Qed.
Print Assumptions C12_table. Print Assumptions C12_eval.
