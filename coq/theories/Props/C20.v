(** C20: dropping forced choices is sound in the direction of the chosen filter. *)
From Coq Require Import List.
From Rsbdd Require Import Core.Bdd Core.Ops Core.Retain.
Theorem C20_true a s : beval s a = true -> beval s (retain a TTrue) = true. Proof. exact (Retain.C20_true a s). Qed.
Theorem C20_false a s : beval s (retain a TFalse) = true -> beval s a = true. Proof. exact (Retain.C20_false a s). Qed.
Theorem C20_any a : retain a TAny = a. Proof. exact (Retain.C20_any a). Qed.
Theorem C20_shape a f : robdd a -> robdd (retain a f) /\ incl (support (retain a f)) (support a). Proof. exact (Retain.C20_shape a f). Qed.
Print Assumptions C20_true. Print Assumptions C20_shape.

(** x0 & x1 with filter True: the forced choice x0 is dropped, x1 stays *)
Example C20_instance : retain (Nd (Nd T 1 F) 0 F) TTrue = Nd T 1 F /\ retain (Nd (Nd T 1 F) 0 F) TFalse = Nd (Nd T 1 F) 0 F.
Proof. split; vm_compute; reflexivity. Qed.
