(** [eval_recursive] (parser.rs:318-396), with the constant clamp of the D3 repair.
    Fixed points may diverge: fuel and [option].  Definitions only. *)
From Coq Require Import List Arith Bool PeanoNat ZArith NArith.
Import ListNotations.
From Rsbdd Require Import Core.Bdd Core.Ops Lang.Ast.

Fixpoint map_opt {A B} (f : A -> option B) (l : list A) : option (list B) :=
  match l with
  | [] => Some []
  | x :: t => match f x, map_opt f t with Some y, Some ys => Some (y :: ys) | _, _ => None end
  end.

(** [fp] with a transformer that may itself run out of fuel *)
Fixpoint fp_opt (n : nat) (s : bdd) (t : bdd -> option bdd) : option bdd :=
  match n with
  | 0 => None
  | S k => match t s with
           | None => None
           | Some s' => if bdd_eqb s' s then Some s else fp_opt k s' t
           end
  end.

Definition eval_binop (op : binop) (l r : bdd) : bdd :=
  match op with
  | BAnd => band l r | BOr => bor l r | BXor => bxor l r | BNor => bnor l r | BNand => bnand l r
  | BImplies => bimplies l r | BImpliesInv => bimplies r l | BIff => beq l r
  end.

(** the literal is clamped to len+1 before the conversion to i64 (repair of D3) *)
Definition clamp (n : N) (len : nat) : Z := Z.of_N (N.min n (N.of_nat len + 1)).
Definition eval_countc (op : cop) (bs : list bdd) (n : N) : bdd :=
  let k := clamp n (length bs) in
  match op with
  | AtMost => amn bs k
  | AtLeast => aln bs k
  | Exactly => exn bs k
  | LessThan => amn bs (k - 1)%Z
  | MoreThan => aln bs (k + 1)%Z
  end.
Definition eval_countv (op : cop) (l r : list bdd) : bdd :=
  match op with
  | AtMost => count_leq l r
  | AtLeast => count_geq l r
  | Exactly => count_eq l r
  | LessThan => count_lt l r
  | MoreThan => count_gt l r
  end.

Fixpoint eval_f (n : nat) (f : form) : option bdd :=
  match n with
  | 0 => None
  | S k =>
    match f with
    | FFalse => Some F
    | FTrue => Some T
    | FVar v => Some (bvar v)
    | FNot b => match eval_f k b with Some x => Some (bnot x) | None => None end
    | FQuant QExists vs b => match eval_f k b with Some x => Some (bex vs x) | None => None end
    | FQuant QForall vs b => match eval_f k b with Some x => Some (ball vs x) | None => None end
    | FCountC op bs n => match map_opt (eval_f k) bs with Some xs => Some (eval_countc op xs n) | None => None end
    | FCountV op l r =>
        match map_opt (eval_f k) l, map_opt (eval_f k) r with
        | Some xs, Some ys => Some (eval_countv op xs ys) | _, _ => None end
    | FIte c t e =>
        match eval_f k c, eval_f k t, eval_f k e with
        | Some x, Some y, Some z => Some (bite x y z) | _, _, _ => None end
    | FBin op l r =>
        match eval_f k l, eval_f k r with
        | Some x, Some y => Some (eval_binop op x y) | _, _ => None end
    | FFix x init t => fp_opt k (bconst init) (fun b => eval_f k (replace_var x (FSub b) t))
    | FSub b => Some b
    | FRef => Some F
    end
  end.
