(** Induction principle for the nested type [form], and list-unfolding lemmas. *)
From Coq Require Import List Arith Bool PeanoNat NArith Lia.
Import ListNotations.
From Rsbdd Require Import Core.Bdd Lang.Ast.

Section form_ind'.
  Variable P : form -> Prop.
  Hypothesis HFalse : P FFalse.
  Hypothesis HTrue : P FTrue.
  Hypothesis HVar : forall v, P (FVar v).
  Hypothesis HNot : forall f, P f -> P (FNot f).
  Hypothesis HQuant : forall q vs f, P f -> P (FQuant q vs f).
  Hypothesis HCountC : forall op fs n, Forall P fs -> P (FCountC op fs n).
  Hypothesis HCountV : forall op l r, Forall P l -> Forall P r -> P (FCountV op l r).
  Hypothesis HFix : forall v i f, P f -> P (FFix v i f).
  Hypothesis HIte : forall c t e, P c -> P t -> P e -> P (FIte c t e).
  Hypothesis HBin : forall op l r, P l -> P r -> P (FBin op l r).
  Hypothesis HSub : forall b, P (FSub b).
  Hypothesis HRef : P FRef.

  Fixpoint form_ind' (f : form) : P f :=
    match f with
    | FFalse => HFalse
    | FTrue => HTrue
    | FVar v => HVar v
    | FNot g => HNot g (form_ind' g)
    | FQuant q vs g => HQuant q vs g (form_ind' g)
    | FCountC op fs n =>
        HCountC op fs n ((fix go (l : list form) : Forall P l :=
                            match l with [] => Forall_nil P | x :: r => Forall_cons x (form_ind' x) (go r) end) fs)
    | FCountV op l r =>
        HCountV op l r
          ((fix go (l : list form) : Forall P l :=
              match l with [] => Forall_nil P | x :: r => Forall_cons x (form_ind' x) (go r) end) l)
          ((fix go (l : list form) : Forall P l :=
              match l with [] => Forall_nil P | x :: r => Forall_cons x (form_ind' x) (go r) end) r)
    | FFix v i g => HFix v i g (form_ind' g)
    | FIte c t e => HIte c t e (form_ind' c) (form_ind' t) (form_ind' e)
    | FBin op l r => HBin op l r (form_ind' l) (form_ind' r)
    | FSub b => HSub b
    | FRef => HRef
    end.
End form_ind'.

Definition sizes (l : list form) : nat := fold_right (fun g acc => size g + acc) 0 l.

Lemma wf_countc op fs n : wf (FCountC op fs n) <-> wfs fs.
Proof. cbn [wf]. induction fs as [|g r IH]; cbn [wfs]; [tauto|]. rewrite IH. tauto. Qed.
Lemma wf_countv op l r : wf (FCountV op l r) <-> wfs l /\ wfs r.
Proof.
  cbn [wf].
  assert (H : forall l, (fix wfs (l : list form) : Prop := match l with [] => True | g :: r => wf g /\ wfs r end) l <-> wfs l).
  { induction l0 as [|g r0 IH]; cbn [wfs]; [tauto|]. rewrite IH. tauto. }
  rewrite !H. tauto.
Qed.
Lemma wfs_Forall l : wfs l <-> Forall wf l.
Proof. induction l as [|g r IH]; cbn [wfs]; [split; auto|]. rewrite IH. split; [intros [? ?]; constructor; auto|intros H; inversion H; auto]. Qed.

Lemma size_pos f : 1 <= size f.
Proof. destruct f; cbn [size]; lia. Qed.
Lemma size_in g l : In g l -> size g <= sizes l.
Proof. unfold sizes. induction l as [|x r IH]; intros H; [destruct H|]. cbn [fold_right]. destruct H as [->|H]; [lia|]. specialize (IH H). lia. Qed.

Lemma size_replace x b : forall t, size (replace_var x (FSub b) t) = size t.
Proof.
  induction t as [| |v|g IH|q vs g IH|op fs n IH|op l r IHl IHr|v i g IH|c IHc t IHt e IHe|op l IHl r IHr|b0|] using form_ind';
    cbn [replace_var size]; auto.
  - destruct (Nat.eqb v x); reflexivity.
  - destruct (mem_nat x vs); cbn [size]; auto.
  - f_equal. induction IH as [|g r Hg Hr IH']; cbn [map fold_right]; auto.
  - f_equal. f_equal.
    + induction IHl as [|g r' Hg Hr IH']; cbn [map fold_right]; auto.
    + induction IHr as [|g r' Hg Hr IH']; cbn [map fold_right]; auto.
  - destruct (Nat.eqb v x); cbn [size]; auto.
Qed.

Lemma wf_replace x b : robdd b -> forall t, wf t -> wf (replace_var x (FSub b) t).
Proof.
  intros Hb.
  induction t as [| |v|g IH|q vs g IH|op fs n IH|op l r IHl IHr|v i g IH|c IHc t IHt e IHe|op l IHl r IHr|b0|] using form_ind';
    cbn [replace_var]; auto.
  - destruct (Nat.eqb v x); cbn [wf]; auto.
  - destruct (mem_nat x vs); cbn [wf]; auto.
  - rewrite !wf_countc, !wfs_Forall. intros Hw. rewrite Forall_forall in *. intros g Hg.
    apply in_map_iff in Hg. destruct Hg as (g0 & <- & Hin). apply IH; auto.
  - rewrite !wf_countv, !wfs_Forall. intros [Hl Hr]. rewrite !Forall_forall in *. split; intros g Hg;
      apply in_map_iff in Hg; destruct Hg as (g0 & <- & Hin); [apply IHl|apply IHr]; auto.
  - destruct (Nat.eqb v x); cbn [wf]; auto.
  - cbn [wf]. intros (? & ? & ?); auto.
  - cbn [wf]. intros (? & ?); auto.
Qed.
