(** Facts about the reference semantics: congruence, substitution (C06 scoping), functionality. *)
From Coq Require Import List Arith Bool PeanoNat ZArith NArith Lia.
Import ListNotations.
From Rsbdd Require Import Core.Bdd Core.Quant Lang.Ast Lang.AstFacts Lang.Den.

Lemma deq_refl d : deq d d. Proof. intros s; reflexivity. Qed.
Lemma deq_sym d d' : deq d d' -> deq d' d. Proof. intros H s; symmetry; apply H. Qed.
Lemma deq_trans a b c : deq a b -> deq b c -> deq a c. Proof. intros H1 H2 s; rewrite H1; apply H2. Qed.

Definition oeq (a b : option den) : Prop :=
  match a, b with Some x, Some y => deq x y | None, None => True | _, _ => False end.
Definition eeq (r r' : fenv) : Prop := forall v, oeq (r v) (r' v).

Lemma oeq_refl a : oeq a a. Proof. destruct a; cbn; auto using deq_refl. Qed.
Lemma eeq_refl r : eeq r r. Proof. intros v. apply oeq_refl. Qed.
Lemma eeq_sym r r' : eeq r r' -> eeq r' r.
Proof. intros H v. specialize (H v). destruct (r v), (r' v); cbn in *; auto using deq_sym. Qed.
Lemma eeq_unbind r r' vs : eeq r r' -> eeq (unbind r vs) (unbind r' vs).
Proof. intros H v. unfold unbind. destruct (mem_nat v vs); cbn; auto; apply H. Qed.
Lemma eeq_bind r r' x d d' : eeq r r' -> deq d d' -> eeq (bind r x d) (bind r' x d').
Proof. intros H Hd v. unfold bind. destruct (Nat.eqb v x); cbn; auto; apply H. Qed.

(** unfolding the nested list fixpoints *)
Lemma Den_countc r op fs n d :
  Den r (FCountC op fs n) d <-> exists ds, Dens r fs ds /\ deq d (fun s => cop_sem op (count_den ds s) (Z.of_N n)).
Proof.
  cbn [Den].
  assert (H : forall fs ds, (fix dens (fs : list form) (ds : list den) : Prop :=
         match fs, ds with [], [] => True | g :: fs', e :: ds' => Den r g e /\ dens fs' ds' | _, _ => False end) fs ds <-> Dens r fs ds).
  { induction fs0 as [|g fs' IH]; intros [|e ds']; cbn [Dens]; try tauto. rewrite IH. tauto. }
  split; intros (ds & H1 & H2); exists ds; (split; [apply H; exact H1|exact H2]).
Qed.
Lemma Den_countv r op l rr d :
  Den r (FCountV op l rr) d <-> exists dl dr, Dens r l dl /\ Dens r rr dr /\ deq d (fun s => cop_sem op (count_den dl s) (count_den dr s)).
Proof.
  cbn [Den].
  assert (H : forall fs ds, (fix dens (fs : list form) (ds : list den) : Prop :=
         match fs, ds with [], [] => True | g :: fs', e :: ds' => Den r g e /\ dens fs' ds' | _, _ => False end) fs ds <-> Dens r fs ds).
  { induction fs as [|g fs' IH]; intros [|e ds']; cbn [Dens]; try tauto. rewrite IH. tauto. }
  split; intros (dl & dr & H1 & H2 & H3); exists dl, dr; (split; [apply H; exact H1|split; [apply H; exact H2|exact H3]]).
Qed.

Lemma Dens_Forall2 r fs : forall ds, Dens r fs ds <-> Forall2 (Den r) fs ds.
Proof.
  induction fs as [|g fs IH]; intros [|e ds]; cbn [Dens].
  - split; constructor.
  - split; [tauto|intros H; inversion H].
  - split; [tauto|intros H; inversion H].
  - rewrite IH. split; [intros [? ?]; constructor; auto|intros H; inversion H; subst; auto].
Qed.

Lemma count_den_ext ds ds' : Forall2 deq ds ds' -> forall s, count_den ds s = count_den ds' s.
Proof. induction 1 as [|d d' l l' Hd Hl IH]; intros s; cbn [count_den]; auto. rewrite (Hd s), IH. reflexivity. Qed.

Lemma fold_quant_ext q vs d d' : deq d d' -> deq (fold_right (quant_sem q) d vs) (fold_right (quant_sem q) d' vs).
Proof.
  intros H. induction vs as [|v vs IH]; cbn [fold_right]; auto.
  intros s. destruct q; cbn [quant_sem]; unfold ex1, all1; rewrite !IH; reflexivity.
Qed.

(** Den respects pointwise equality of environments and of results *)
Lemma Den_ext : forall f r r' d d', eeq r r' -> deq d d' -> Den r f d -> Den r' f d'.
Proof.
  induction f as [| |v|g IH|q vs g IH|op fs n IH|op l rr IHl IHr|x i g IH|c t e IHc IHt IHe|op l rr IHl IHr|b0|] using form_ind';
    intros r r' d d' He Hd.
  - cbn [Den]. intros H. eapply deq_trans; [apply deq_sym, Hd|exact H].
  - cbn [Den]. intros H. eapply deq_trans; [apply deq_sym, Hd|exact H].
  - cbn [Den]. intros H. eapply deq_trans; [apply deq_sym, Hd|]. eapply deq_trans; [exact H|].
    specialize (He v). destruct (r v), (r' v); cbn in He; try tauto; try apply deq_refl.
  - cbn [Den]. intros (d1 & H1 & H2). exists d1. split; [eapply IH; eauto using deq_refl|].
    eapply deq_trans; [apply deq_sym, Hd|exact H2].
  - cbn [Den]. intros (d1 & H1 & H2). exists d1. split.
    + eapply IH; [apply eeq_unbind, He|apply deq_refl|exact H1].
    + eapply deq_trans; [apply deq_sym, Hd|exact H2].
  - rewrite !Den_countc. intros (ds & H1 & H2). exists ds. split.
    + rewrite Dens_Forall2 in *. clear H2. induction H1 as [|g e fs' ds' Hg Hr IH']; constructor.
      * inversion IH; subst. eapply H1; eauto using deq_refl.
      * apply IH'. inversion IH; auto.
    + eapply deq_trans; [apply deq_sym, Hd|exact H2].
  - rewrite !Den_countv. intros (dl & dr & H1 & H2 & H3). exists dl, dr. split; [|split].
    + rewrite Dens_Forall2 in *. clear H3 H2. induction H1 as [|g e fs' ds' Hg Hr IH']; constructor.
      * inversion IHl; subst. eapply H1; eauto using deq_refl.
      * apply IH'. inversion IHl; auto.
    + rewrite Dens_Forall2 in *. clear H3 H1. induction H2 as [|g e fs' ds' Hg Hr IH']; constructor.
      * inversion IHr; subst. eapply H1; eauto using deq_refl.
      * apply IH'. inversion IHr; auto.
    + eapply deq_trans; [apply deq_sym, Hd|exact H3].
  - cbn [Den]. intros (seq & n & H0 & Hstep & Hne & Hst & Hd'). exists seq, n. repeat split; auto.
    + intros j Hj. eapply IH; [apply eeq_bind; [exact He|apply deq_refl]|apply deq_refl|auto].
    + eapply deq_trans; [apply deq_sym, Hd|exact Hd'].
  - cbn [Den]. intros (dc & dt & de & H1 & H2 & H3 & H4). exists dc, dt, de. repeat split.
    + eapply IHc; eauto using deq_refl. + eapply IHt; eauto using deq_refl. + eapply IHe; eauto using deq_refl.
    + eapply deq_trans; [apply deq_sym, Hd|exact H4].
  - cbn [Den]. intros (d1 & d2 & H1 & H2 & H3). exists d1, d2. repeat split.
    + eapply IHl; eauto using deq_refl. + eapply IHr; eauto using deq_refl.
    + eapply deq_trans; [apply deq_sym, Hd|exact H3].
  - cbn [Den]. intros H. eapply deq_trans; [apply deq_sym, Hd|exact H].
  - cbn [Den]. intros H. eapply deq_trans; [apply deq_sym, Hd|exact H].
Qed.

(** C06 scoping: substituting the iterate is binding the name, with shadowing by quantifier
    lists and inner fixed points on the same name. *)
Lemma eeq_unbind_bind_in r x d vs : mem_nat x vs = true -> eeq (unbind r vs) (unbind (bind r x d) vs).
Proof.
  intros Hin v. unfold unbind, bind. destruct (mem_nat v vs) eqn:E; cbn; auto.
  destruct (Nat.eqb_spec v x); [subst; congruence|apply oeq_refl].
Qed.
Lemma eeq_unbind_bind_out r x d vs : mem_nat x vs = false -> eeq (bind (unbind r vs) x d) (unbind (bind r x d) vs).
Proof.
  intros Hout v. unfold unbind, bind. destruct (Nat.eqb_spec v x).
  - subst. rewrite Hout. cbn. apply deq_refl.
  - destruct (mem_nat v vs); cbn; auto. apply oeq_refl.
Qed.
Lemma eeq_bind_bind_same r x d e : eeq (bind r x e) (bind (bind r x d) x e).
Proof. intros v. unfold bind. destruct (Nat.eqb v x); cbn; auto using deq_refl. apply oeq_refl. Qed.
Lemma eeq_bind_bind_comm r x y d e : x <> y -> eeq (bind (bind r y e) x d) (bind (bind r x d) y e).
Proof.
  intros Hne v. unfold bind. destruct (Nat.eqb_spec v x), (Nat.eqb_spec v y); subst; cbn; try congruence; auto using deq_refl.
  apply oeq_refl.
Qed.

Lemma subst_den : forall t r x b d,
  Den r (replace_var x (FSub b) t) d <-> Den (bind r x (fun s => beval s b)) t d.
Proof.
  induction t as [| |v|g IH|q vs g IH|op fs n IH|op l rr IHl IHr|y i g IH|c t e IHc IHt IHe|op l rr IHl IHr|b0|] using form_ind';
    intros r x b d; cbn [replace_var].
  - cbn [Den]. tauto.
  - cbn [Den]. tauto.
  - cbn [Den]. unfold bind. cbn beta. destruct (Nat.eqb v x); cbn [Den]; tauto.
  - cbn [Den]. split; intros (d1 & H1 & H2); exists d1; (split; [apply IH; exact H1|exact H2]).
  - destruct (mem_nat x vs) eqn:E; cbn [Den].
    + split; intros (d1 & H1 & H2); exists d1; (split; [|exact H2]).
      * eapply Den_ext; [apply eeq_unbind_bind_in; exact E|apply deq_refl|exact H1].
      * eapply Den_ext; [apply eeq_sym, eeq_unbind_bind_in; exact E|apply deq_refl|exact H1].
    + split; intros (d1 & H1 & H2); exists d1; (split; [|exact H2]).
      * apply IH in H1. eapply Den_ext; [apply eeq_unbind_bind_out; exact E|apply deq_refl|exact H1].
      * apply IH. eapply Den_ext; [apply eeq_sym, eeq_unbind_bind_out; exact E|apply deq_refl|exact H1].
  - rewrite !Den_countc. split; intros (ds & H1 & H2); exists ds; (split; [|exact H2]); rewrite Dens_Forall2 in *.
    + clear H2. revert ds H1. induction IH as [|g fs' Hg Hr IH']; intros ds H1; cbn [map] in H1; inversion H1; subst; constructor.
      * apply Hg; auto. * apply IH'; auto.
    + clear H2. revert ds H1. induction IH as [|g fs' Hg Hr IH']; intros ds H1; inversion H1; subst; cbn [map]; constructor.
      * apply Hg; auto. * apply IH'; auto.
  - rewrite !Den_countv. split; intros (dl & dr & H1 & H2 & H3); exists dl, dr; (split; [|split; [|exact H3]]); rewrite Dens_Forall2 in *.
    + clear H2 H3. revert dl H1. induction IHl as [|g fs' Hg Hr IH']; intros ds H1; cbn [map] in H1; inversion H1; subst; constructor.
      * apply Hg; auto. * apply IH'; auto.
    + clear H1 H3. revert dr H2. induction IHr as [|g fs' Hg Hr IH']; intros ds H1; cbn [map] in H1; inversion H1; subst; constructor.
      * apply Hg; auto. * apply IH'; auto.
    + clear H2 H3. revert dl H1. induction IHl as [|g fs' Hg Hr IH']; intros ds H1; inversion H1; subst; cbn [map]; constructor.
      * apply Hg; auto. * apply IH'; auto.
    + clear H1 H3. revert dr H2. induction IHr as [|g fs' Hg Hr IH']; intros ds H1; inversion H1; subst; cbn [map]; constructor.
      * apply Hg; auto. * apply IH'; auto.
  - destruct (Nat.eqb_spec y x) as [->|Hne]; cbn [Den].
    + split; intros (seq & n & H0 & Hstep & Hrest); exists seq, n; (split; [exact H0|split; [|exact Hrest]]); intros j Hj.
      * eapply Den_ext; [apply eeq_bind_bind_same|apply deq_refl|apply (Hstep j Hj)].
      * eapply Den_ext; [apply eeq_sym, eeq_bind_bind_same|apply deq_refl|apply (Hstep j Hj)].
    + split; intros (seq & k & H0 & Hstep & Hrest); exists seq, k; (split; [exact H0|split; [|exact Hrest]]); intros j Hj.
      * specialize (Hstep j Hj). apply IH in Hstep.
        eapply Den_ext; [apply eeq_bind_bind_comm; congruence|apply deq_refl|exact Hstep].
      * apply IH. eapply Den_ext; [apply eeq_sym, eeq_bind_bind_comm; congruence|apply deq_refl|apply (Hstep j Hj)].
  - cbn [Den]. split; intros (dc & dt & de & H1 & H2 & H3 & H4); exists dc, dt, de; repeat split; auto;
      try (apply IHc; auto); try (apply IHt; auto); try (apply IHe; auto).
  - cbn [Den]. split; intros (d1 & d2 & H1 & H2 & H3); exists d1, d2; repeat split; auto;
      try (apply IHl; auto); try (apply IHr; auto).
  - cbn [Den]. tauto.
  - cbn [Den]. tauto.
Qed.
