(** C01 (completeness): whenever the documented meaning is defined (every fixed point
    stabilises), evaluation terminates and returns a diagram with that meaning. *)
From Coq Require Import List Arith Bool PeanoNat ZArith NArith Lia.
Import ListNotations.
From Rsbdd Require Import Core.Bdd Core.Ops Core.OpsFacts Core.Sem Core.Canon Core.Pres Core.Quant.
From Rsbdd Require Import Lang.Ast Lang.AstFacts Lang.Den Lang.DenFacts Lang.Eval Lang.EvalSound.

Lemma Forall2_den_fun r fs :
  Forall (fun f => forall r d d', Den r f d -> Den r f d' -> deq d d') fs ->
  forall ds ds', Forall2 (Den r) fs ds -> Forall2 (Den r) fs ds' -> Forall2 deq ds ds'.
Proof.
  intros H. induction H as [|g fs0 Hg Hfs IH]; intros ds ds' H1 H2.
  - inversion H1; inversion H2; subst; constructor.
  - inversion H1 as [|? e ? ds0 Hge Hr1]; inversion H2 as [|? e' ? ds0' Hge' Hr2]; subst.
    constructor; [eapply Hg; eauto|eapply IH; eauto].
Qed.

(** Den is functional up to pointwise equality *)
Lemma Den_fun : forall f r d d', Den r f d -> Den r f d' -> deq d d'.
Proof.
  induction f as [| |v|g IH|q vs g IH|op fs n IH|op l rr IHl IHr|x i t IH|c t e IHc IHt IHe|op l rr IHl IHr|b0|] using form_ind';
    intros r d d'.
  - cbn [Den]. intros H H'. eapply deq_trans; [exact H|apply deq_sym, H'].
  - cbn [Den]. intros H H'. eapply deq_trans; [exact H|apply deq_sym, H'].
  - cbn [Den]. intros H H'. eapply deq_trans; [exact H|apply deq_sym, H'].
  - cbn [Den]. intros (d1 & H1 & H2) (d1' & H1' & H2'). pose proof (IH _ _ _ H1 H1') as E.
    intros s. rewrite H2, H2', E. reflexivity.
  - cbn [Den]. intros (d1 & H1 & H2) (d1' & H1' & H2'). pose proof (IH _ _ _ H1 H1') as E.
    eapply deq_trans; [exact H2|]. eapply deq_trans; [|apply deq_sym, H2']. apply fold_quant_ext; auto.
  - rewrite !Den_countc. intros (ds & H1 & H2) (ds' & H1' & H2').
    assert (E : Forall2 deq ds ds') by (rewrite Dens_Forall2 in *; eapply Forall2_den_fun; eauto).
    intros s. rewrite H2, H2', (count_den_ext _ _ E). reflexivity.
  - rewrite !Den_countv. intros (dl & dr & H1 & H2 & H3) (dl' & dr' & H1' & H2' & H3').
    assert (El : Forall2 deq dl dl') by (rewrite Dens_Forall2 in *; eapply (Forall2_den_fun r l); eauto).
    assert (Er : Forall2 deq dr dr') by (rewrite Dens_Forall2 in *; eapply (Forall2_den_fun r rr); eauto).
    intros s. rewrite H3, H3', (count_den_ext _ _ El), (count_den_ext _ _ Er). reflexivity.
  - cbn [Den]. intros (seq & n & H0 & Hs & Hne & Hst & Hd) (seq' & n' & H0' & Hs' & Hne' & Hst' & Hd').
    assert (Heq : forall j, j <= S n -> j <= S n' -> deq (seq j) (seq' j)).
    { induction j as [|j IHj]; intros Hj Hj'.
      - eapply deq_trans; [exact H0|apply deq_sym, H0'].
      - assert (E : deq (seq j) (seq' j)) by (apply IHj; lia).
        eapply IH; [apply Hs; lia|].
        eapply Den_ext; [|apply deq_refl|apply Hs'; lia].
        apply eeq_bind; [apply eeq_refl|apply deq_sym, E]. }
    assert (n = n').
    { destruct (lt_eq_lt_dec n n') as [[Hlt|He]|Hgt]; auto; exfalso.
      - apply (Hne' n Hlt). eapply deq_trans; [apply deq_sym, Heq; lia|].
        eapply deq_trans; [exact Hst|]. apply Heq; lia.
      - apply (Hne n' Hgt). eapply deq_trans; [apply Heq; lia|].
        eapply deq_trans; [exact Hst'|]. apply deq_sym, Heq; lia. }
    subst n'. eapply deq_trans; [exact Hd|]. eapply deq_trans; [apply Heq; lia|]. apply deq_sym, Hd'.
  - cbn [Den]. intros (dc & dt & de & H1 & H2 & H3 & H4) (dc' & dt' & de' & H1' & H2' & H3' & H4').
    pose proof (IHc _ _ _ H1 H1') as E1. pose proof (IHt _ _ _ H2 H2') as E2. pose proof (IHe _ _ _ H3 H3') as E3.
    intros s. rewrite H4, H4', E1, E2, E3. reflexivity.
  - cbn [Den]. intros (d1 & d2 & H1 & H2 & H3) (d1' & d2' & H1' & H2' & H3').
    pose proof (IHl _ _ _ H1 H1') as E1. pose proof (IHr _ _ _ H2 H2') as E2.
    intros s. rewrite H3, H3', E1, E2. reflexivity.
  - cbn [Den]. intros H H'. eapply deq_trans; [exact H|apply deq_sym, H'].
  - cbn [Den]. intros H H'. eapply deq_trans; [exact H|apply deq_sym, H'].
Qed.

(** more fuel never changes a result *)
Lemma fp_opt_mono_le : forall k k' s (t t' : bdd -> option bdd) r, k <= k' ->
  (forall x y, t x = Some y -> t' x = Some y) -> fp_opt k s t = Some r -> fp_opt k' s t' = Some r.
Proof.
  induction k as [|k IH]; intros k' s t t' r Hle Ht H; [discriminate|].
  destruct k' as [|k']; [lia|]. cbn [fp_opt] in *. destruct (t s) as [s'|] eqn:E; [|discriminate].
  rewrite (Ht _ _ E). destruct (bdd_eqb s' s); auto. eapply IH; eauto. lia.
Qed.

Lemma map_opt_mono {A B} (f g : A -> option B) : (forall x y, f x = Some y -> g x = Some y) ->
  forall l ys, map_opt f l = Some ys -> map_opt g l = Some ys.
Proof.
  intros Hfg. induction l as [|x l IH]; intros ys H; cbn [map_opt] in *; auto.
  destruct (f x) as [y|] eqn:E1; [|discriminate]. destruct (map_opt f l) as [ys'|] eqn:E2; [|discriminate].
  rewrite (Hfg _ _ E1), (IH _ eq_refl). exact H.
Qed.

Lemma eval_mono : forall n f b, eval_f n f = Some b -> eval_f (S n) f = Some b.
Proof.
  induction n as [|n IH]; intros f b H; [discriminate|].
  destruct f as [| |v|g|q vs g|op fs c|op l r|x init t|c t e|op l r|b0|];
    remember (S n) as m; cbn [eval_f]; cbn [eval_f] in H; subst m; cbn [eval_f] in H; auto.
  - destruct (eval_f n g) eqn:E; [|discriminate]. rewrite (IH _ _ E). auto.
  - destruct q; destruct (eval_f n g) eqn:E; try discriminate; rewrite (IH _ _ E); auto.
  - destruct (map_opt (eval_f n) fs) eqn:E; [|discriminate]. rewrite (map_opt_mono _ _ (IH) _ _ E). auto.
  - destruct (map_opt (eval_f n) l) eqn:E1; [|discriminate]. destruct (map_opt (eval_f n) r) eqn:E2; [|discriminate].
    rewrite (map_opt_mono _ _ (IH) _ _ E1), (map_opt_mono _ _ (IH) _ _ E2). auto.
  - eapply fp_opt_mono_le; [| |exact H]; [lia|]. intros y z Hyz. apply IH. exact Hyz.
  - destruct (eval_f n c) eqn:E1; [|discriminate]. destruct (eval_f n t) eqn:E2; [|discriminate].
    destruct (eval_f n e) eqn:E3; [|discriminate]. rewrite (IH _ _ E1), (IH _ _ E2), (IH _ _ E3). auto.
  - destruct (eval_f n l) eqn:E1; [|discriminate]. destruct (eval_f n r) eqn:E2; [|discriminate].
    rewrite (IH _ _ E1), (IH _ _ E2). auto.
Qed.

Lemma eval_mono_le n m f b : eval_f n f = Some b -> n <= m -> eval_f m f = Some b.
Proof. intros H Hle. induction Hle; auto. apply eval_mono; auto. Qed.

(** running the loop along a known chain *)
Lemma fp_opt_run (t : bdd -> option bdd) (bs : nat -> bdd) : forall N j,
  (forall i, j <= i -> i <= N -> t (bs i) = Some (bs (S i))) ->
  (forall i, j <= i -> i < N -> bs (S i) <> bs i) -> bs (S N) = bs N -> j <= N ->
  fp_opt (S (N - j)) (bs j) t = Some (bs N).
Proof.
  intros N j. remember (N - j) as k. revert j Heqk.
  induction k as [|k IH]; intros j Hk Ht Hne Hst Hj.
  - assert (j = N) by lia. subst j. cbn [fp_opt]. rewrite (Ht N) by lia. rewrite Hst.
    rewrite bdd_eqb_refl. reflexivity.
  - cbn [fp_opt]. rewrite (Ht j) by lia. destruct (bdd_eqb_spec (bs (S j)) (bs j)) as [E|NE].
    + exfalso. apply (Hne j); auto; lia.
    + apply (IH (S j)); try lia; auto; intros; try (apply Ht; lia); try (apply Hne; lia).
Qed.

Lemma sizes_cons g l : sizes (g :: l) = size g + sizes l.
Proof. reflexivity. Qed.

Section Complete.
  Variable m : nat.
  Hypothesis IH : forall f d, size f < m -> wf f -> Den empty f d ->
    exists n b, eval_f n f = Some b /\ deq (bden b) d.

  (** the list version: one fuel for all operands *)
  Lemma complete_list : forall fs ds, sizes fs < m -> wfs fs -> Dens empty fs ds ->
    exists n bs, map_opt (eval_f n) fs = Some bs /\ Forall2 deq (map bden bs) ds.
  Proof.
    induction fs as [|g fs IHl]; intros [|e ds] Hsz Hw HD; cbn [Dens] in HD; try contradiction.
    - exists 0, []. split; constructor.
    - rewrite sizes_cons in Hsz. cbn [wfs] in Hw. destruct Hw as [Wg Wr]. destruct HD as [Dg Dr].
      pose proof (size_pos g).
      destruct (IH g e ltac:(lia) Wg Dg) as (n1 & b1 & E1 & Q1).
      destruct (IHl ds ltac:(lia) Wr Dr) as (n2 & bs & E2 & Q2).
      exists (max n1 n2), (b1 :: bs). split; [|constructor; auto].
      cbn [map_opt]. rewrite (eval_mono_le _ _ _ _ E1) by lia.
      rewrite (map_opt_mono (eval_f n2) (eval_f (max n1 n2))) with (ys := bs); auto.
      intros x y Hxy. eapply eval_mono_le; [exact Hxy|lia].
  Qed.
End Complete.

Lemma map_opt_sound_robdd n fs bs : wfs fs -> map_opt (eval_f n) fs = Some bs -> Forall robdd bs.
Proof. intros Hw H. apply (sound_list n (sound n) fs bs Hw H). Qed.

Theorem complete : forall m f d, size f < m -> wf f -> Den empty f d ->
  exists n b, eval_f n f = Some b /\ deq (bden b) d.
Proof.
  induction m as [|m IH]; intros f d Hsz Hwf HD; [lia|].
  destruct f as [| |v|g|q vs g|op fs c|op l r|x init t|c t e|op l r|b0|]; cbn [size] in Hsz.
  - exists 1, F. split; auto. apply deq_sym, HD.
  - exists 1, T. split; auto. apply deq_sym, HD.
  - exists 1, (bvar v). split; auto. apply deq_sym. eapply deq_trans; [exact HD|].
    intros s. cbn [empty]. unfold bden. rewrite bvar_sem. reflexivity.
  - cbn [Den] in HD. destruct HD as (d1 & H1 & H2). destruct (IH g d1) as (n & b & He & Hb); auto; try lia.
    exists (S n), (bnot b). cbn [eval_f]. rewrite He. split; auto. intros s. unfold bden. rewrite bnot_sem, H2, <- Hb. reflexivity.
  - cbn [Den] in HD. destruct HD as (d1 & H1 & H2).
    assert (H1' : Den empty g d1) by (eapply Den_ext; [apply eeq_sym, eeq_unbind_empty|apply deq_refl|exact H1]).
    destruct (IH g d1) as (n & b & He & Hb); auto; try lia.
    destruct (sound n g b Hwf He) as [_ Hrb].
    destruct q.
    + exists (S n), (bex vs b). cbn [eval_f]. rewrite He. split; auto.
      eapply deq_trans; [apply fold_ex1_bex; auto|]. eapply deq_trans; [|apply deq_sym, H2].
      apply (fold_quant_ext QExists); auto.
    + exists (S n), (ball vs b). cbn [eval_f]. rewrite He. split; auto.
      eapply deq_trans; [apply fold_all1_ball; auto|]. eapply deq_trans; [|apply deq_sym, H2].
      apply (fold_quant_ext QForall); auto.
  - apply Den_countc in HD. destruct HD as (ds & H1 & H2). apply (proj1 (wf_countc _ _ _)) in Hwf.
    destruct (complete_list m IH fs ds ltac:(unfold sizes; lia) Hwf H1) as (n & bs & E & Q).
    exists (S n), (eval_countc op bs c). cbn [eval_f]. rewrite E. split; auto.
    intros s. unfold bden at 1. rewrite eval_countc_sem, count_true_den, H2, (count_den_ext _ _ Q). reflexivity.
  - apply Den_countv in HD. destruct HD as (dl & dr & H1 & H2 & H3). apply (proj1 (wf_countv _ _ _)) in Hwf. destruct Hwf as [Wl Wr].
    destruct (complete_list m IH l dl ltac:(unfold sizes; lia) Wl H1) as (n1 & xs & E1 & Q1).
    destruct (complete_list m IH r dr ltac:(unfold sizes; lia) Wr H2) as (n2 & ys & E2 & Q2).
    exists (S (max n1 n2)), (eval_countv op xs ys). cbn [eval_f].
    rewrite (map_opt_mono (eval_f n1) (eval_f (max n1 n2))) with (ys := xs); auto;
      [|intros ? ? Hxy; eapply eval_mono_le; [exact Hxy|lia]].
    rewrite (map_opt_mono (eval_f n2) (eval_f (max n1 n2))) with (ys := ys); auto;
      [|intros ? ? Hxy; eapply eval_mono_le; [exact Hxy|lia]].
    split; auto.
    intros s. unfold bden at 1. rewrite eval_countv_sem, !count_true_den, H3, (count_den_ext _ _ Q1), (count_den_ext _ _ Q2). reflexivity.
  - (* fixed point *)
    cbn [Den] in HD. destruct HD as (seq & N & H0 & Hs & Hne & Hst & Hd). cbn [wf] in Hwf.
    assert (Hchain : forall i, i <= S N -> exists (bs : nat -> bdd) (fuel : nat),
              bs 0 = bconst init /\
              (forall j, j < i -> eval_f fuel (replace_var x (FSub (bs j)) t) = Some (bs (S j))) /\
              (forall j, j <= i -> deq (bden (bs j)) (seq j) /\ robdd (bs j))).
    { induction i as [|i IHi]; intros Hi.
      - exists (fun _ => bconst init), 0. split; auto. split; [intros; lia|].
        intros j Hj. assert (j = 0) by lia. subst j. split; [|apply shp_bconst].
        apply deq_sym. eapply deq_trans; [exact H0|]. intros s. unfold bden. rewrite bconst_sem. reflexivity.
      - destruct IHi as (bs & fuel & Hb0 & Hstep & Hinv); [lia|].
        destruct (Hinv i) as [Hdi Hri]; [lia|].
        assert (HDen : Den empty (replace_var x (FSub (bs i)) t) (seq (S i))).
        { apply subst_den. eapply Den_ext; [|apply deq_refl|apply Hs; lia].
          apply eeq_bind; [apply eeq_refl|apply deq_sym, Hdi]. }
        assert (Hsz' : size (replace_var x (FSub (bs i)) t) < m) by (rewrite size_replace; lia).
        destruct (IH _ _ Hsz' (wf_replace x (bs i) Hri t Hwf) HDen) as (n1 & b1 & He1 & Hb1).
        destruct (sound _ _ _ (wf_replace x (bs i) Hri t Hwf) He1) as [_ Hr1].
        exists (fun j => if Nat.eqb j (S i) then b1 else bs j), (max fuel n1).
        split; [cbn; auto|]. split.
        + intros j Hj. destruct (Nat.eqb_spec j (S i)); [lia|].
          destruct (Nat.eqb_spec (S j) (S i)) as [E|NE].
          * inversion E; subst j. eapply eval_mono_le; [exact He1|lia].
          * eapply eval_mono_le; [apply Hstep; lia|lia].
        + intros j Hj. destruct (Nat.eqb_spec j (S i)); [subst; auto|apply Hinv; lia]. }
    destruct (Hchain (S N) (le_n _)) as (bs & fuel & Hb0 & Hstep & Hinv).
    assert (Hstable : bs (S N) = bs N).
    { destruct (Hinv (S N)) as [E1 [O1 R1]]; [lia|]. destruct (Hinv N) as [E2 [O2 R2]]; [lia|].
      apply (canon 0); auto. intros s. fold (bden (bs (S N)) s). fold (bden (bs N) s).
      rewrite (E1 s), (Hst s), <- (E2 s). reflexivity. }
    assert (Hneq : forall i, 0 <= i -> i < N -> bs (S i) <> bs i).
    { intros i _ Hi E. apply (Hne i Hi). destruct (Hinv (S i)) as [E1 _]; [lia|]. destruct (Hinv i) as [E2 _]; [lia|].
      eapply deq_trans; [apply deq_sym, E1|]. rewrite E. exact E2. }
    exists (S (max fuel (S N))), (bs N). split.
    + cbn [eval_f]. rewrite <- Hb0.
      assert (Hrun := fp_opt_run (fun b => eval_f fuel (replace_var x (FSub b) t)) bs N 0
                 (fun i _ Hi => Hstep i ltac:(lia)) Hneq Hstable (Nat.le_0_l _)).
      rewrite Nat.sub_0_r in Hrun.
      eapply fp_opt_mono_le; [| |exact Hrun]; [lia|].
      intros y z Hyz. eapply eval_mono_le; [exact Hyz|lia].
    + destruct (Hinv N) as [E _]; [lia|]. eapply deq_trans; [exact E|apply deq_sym, Hd].
  - cbn [Den] in HD. destruct HD as (dc & dt & de & H1 & H2 & H3 & H4). cbn [wf] in Hwf. destruct Hwf as (W1 & W2 & W3).
    destruct (IH c dc) as (n1 & b1 & E1 & Q1); auto; try lia.
    destruct (IH t dt) as (n2 & b2 & E2 & Q2); auto; try lia.
    destruct (IH e de) as (n3 & b3 & E3 & Q3); auto; try lia.
    exists (S (max n1 (max n2 n3))), (bite b1 b2 b3). cbn [eval_f].
    rewrite (eval_mono_le _ _ _ _ E1), (eval_mono_le _ _ _ _ E2), (eval_mono_le _ _ _ _ E3) by lia. split; auto.
    intros s. unfold bden at 1. rewrite bite_sem, H4. fold (bden b1 s) (bden b2 s) (bden b3 s). rewrite Q1, Q2, Q3. reflexivity.
  - cbn [Den] in HD. destruct HD as (d1 & d2 & H1 & H2 & H3). cbn [wf] in Hwf. destruct Hwf as (W1 & W2).
    destruct (IH l d1) as (n1 & b1 & E1 & Q1); auto; try lia.
    destruct (IH r d2) as (n2 & b2 & E2 & Q2); auto; try lia.
    exists (S (max n1 n2)), (eval_binop op b1 b2). cbn [eval_f].
    rewrite (eval_mono_le _ _ _ _ E1), (eval_mono_le _ _ _ _ E2) by lia. split; auto.
    intros s. unfold bden at 1. rewrite eval_binop_sem, H3. fold (bden b1 s) (bden b2 s). rewrite Q1, Q2. reflexivity.
  - exists 1, b0. split; auto. apply deq_sym, HD.
  - exists 1, F. split; auto. apply deq_sym, HD.
Qed.
Print Assumptions complete.

(** C01 as one statement *)
Theorem C01 f : wf f ->
  (forall n b, eval_f n f = Some b -> Den empty f (bden b) /\ robdd b) /\
  (forall d, Den empty f d -> exists n b, eval_f n f = Some b /\ deq (bden b) d).
Proof.
  intros Hwf. split; [intros n b; apply sound; auto|].
  intros d HD. apply (complete (S (size f))); auto.
Qed.
