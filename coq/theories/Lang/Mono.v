(** A syntactic criterion for monotonicity in a fixed-point name (C06): if every free occurrence of X in a
    fixed-point-free body has positive polarity - X under and / or / if-branches / quantifiers / at-least
    counting / an even number of negations, never under xor / iff / an if-condition / exactly-counting -
    then the body's meaning is monotone in the value of X.  Hence (with C06_lfp_fixfree) lfp X # T
    terminates at the least fixed point for every such body. *)
From Coq Require Import List Arith Bool PeanoNat ZArith NArith Lia.
Import ListNotations.
From Rsbdd Require Import Core.Bdd Core.Canon Core.Quant Lang.Ast Lang.AstFacts Lang.Den Lang.DenFacts Lang.Eval Lang.EvalSound Lang.EvalComplete Lang.Free Lang.FSem
  Lang.FixLang Lang.FixFree.

(** [pos X p f]: every free occurrence of the name X in f has polarity p (true = positive) *)
Fixpoint pos (X : nat) (p : bool) (f : form) : bool :=
  match f with
  | FVar v => if Nat.eqb v X then p else true
  | FNot g => pos X (negb p) g
  | FQuant _ vs g => if mem_nat X vs then true else pos X p g
  | FCountC op fs _ =>
      match op with
      | AtLeast | MoreThan => forallb (pos X p) fs
      | AtMost | LessThan => forallb (pos X (negb p)) fs
      | Exactly => forallb (pos X p) fs && forallb (pos X (negb p)) fs
      end
  | FCountV op l r =>
      match op with
      | AtLeast | MoreThan => forallb (pos X p) l && forallb (pos X (negb p)) r
      | AtMost | LessThan => forallb (pos X (negb p)) l && forallb (pos X p) r
      | Exactly => forallb (pos X p) l && forallb (pos X (negb p)) l && forallb (pos X p) r && forallb (pos X (negb p)) r
      end
  | FIte c t e => pos X p c && pos X (negb p) c && pos X p t && pos X p e
  | FBin op a b =>
      match op with
      | BAnd | BOr => pos X p a && pos X p b
      | BNor | BNand => pos X (negb p) a && pos X (negb p) b
      | BImplies => pos X (negb p) a && pos X p b
      | BImpliesInv => pos X p a && pos X (negb p) b
      | BXor | BIff => pos X p a && pos X (negb p) a && pos X p b && pos X (negb p) b
      end
  | FFix _ _ _ => false                         (* outside the fragment of this criterion *)
  | _ => true
  end.

Definition ord_p (p : bool) (e1 e2 : den) : Prop := if p then dle e1 e2 else dle e2 e1.

Lemma ord_both e1 e2 : ord_p true e1 e2 -> ord_p false e1 e2 -> deq e1 e2.
Proof.
  cbn. intros H1 H2 s. specialize (H1 s). specialize (H2 s).
  destruct (e1 s) eqn:E1, (e2 s) eqn:E2; auto; try (specialize (H1 eq_refl); discriminate); try (specialize (H2 eq_refl); discriminate).
Qed.
Lemma ord_refl_deq p e1 e2 : deq e1 e2 -> ord_p p e1 e2.
Proof. intros H. destruct p; cbn; intros s Hs; [rewrite <- H|rewrite H]; exact Hs. Qed.
Lemma ord_negb p e1 e2 : ord_p (negb p) e1 e2 -> ord_p p (fun s => negb (e1 s)) (fun s => negb (e2 s)).
Proof.
  destruct p; cbn; intros H s Hs; apply negb_true_iff in Hs; apply negb_true_iff.
  - destruct (e2 s) eqn:E; auto. rewrite (H s E) in Hs. discriminate.
  - destruct (e1 s) eqn:E; auto. rewrite (H s E) in Hs. discriminate.
Qed.
Lemma ord_flip p e1 e2 : ord_p (negb p) e1 e2 -> ord_p p e2 e1.
Proof. destruct p; cbn; auto. Qed.

Lemma dle_ex1 v d e : dle d e -> dle (ex1 v d) (ex1 v e).
Proof. intros H s. unfold ex1. rewrite !orb_true_iff. intros [Hs|Hs]; [left|right]; apply H; exact Hs. Qed.
Lemma dle_all1 v d e : dle d e -> dle (all1 v d) (all1 v e).
Proof. intros H s. unfold all1. rewrite !andb_true_iff. intros [H1 H2]. split; apply H; auto. Qed.
Lemma ord_quant q p vs : forall e1 e2, ord_p p e1 e2 -> ord_p p (fold_right (quant_sem q) e1 vs) (fold_right (quant_sem q) e2 vs).
Proof.
  induction vs as [|v vs IH]; intros e1 e2 H; cbn [fold_right]; [exact H|].
  specialize (IH e1 e2 H). destruct p, q; cbn in *; first [apply dle_ex1; exact IH | apply dle_all1; exact IH].
Qed.

(** counting is monotone in the operands *)
Lemma count_le ds1 ds2 s : Forall2 (fun a b => dle a b) ds1 ds2 -> (count_den ds1 s <= count_den ds2 s)%Z.
Proof.
  induction 1 as [|a b l1 l2 Hab _ IH]; cbn [count_den]; [lia|].
  specialize (Hab s). destruct (a s); [rewrite (Hab eq_refl); lia|destruct (b s); lia].
Qed.

Section Mono.
  Variable X : nat.

  Lemma Forall2_ord p fs : Forall (fun g => forall q, pos X q g = true -> forall r d1 d2 e1 e2, dle d1 d2 ->
            Den (bind r X d1) g e1 -> Den (bind r X d2) g e2 -> ord_p q e1 e2) fs ->
    forallb (pos X p) fs = true -> forall r d1 d2 ds1 ds2, dle d1 d2 ->
    Forall2 (Den (bind r X d1)) fs ds1 -> Forall2 (Den (bind r X d2)) fs ds2 -> Forall2 (ord_p p) ds1 ds2.
  Proof.
    intros HF Hp r d1 d2 ds1 ds2 Hd H1. revert ds2 HF Hp.
    induction H1 as [|g e1 fs' ds1' Hg _ IH]; intros ds2 HF Hp H2.
    - inversion H2; subst. constructor.
    - inversion H2 as [|g' e2 fs2 ds2' Hg2 Hrest]; subst.
      cbn [forallb] in Hp. apply andb_true_iff in Hp. destruct Hp as [Hpg Hpr].
      inversion HF as [|g'' fs'' Hhead Htail]; subst.
      constructor; [exact (Hhead p Hpg r d1 d2 e1 e2 Hd Hg Hg2)|apply IH; auto].
  Qed.

  Lemma count_ord p ds1 ds2 s : Forall2 (ord_p p) ds1 ds2 ->
    if p then (count_den ds1 s <= count_den ds2 s)%Z else (count_den ds2 s <= count_den ds1 s)%Z.
  Proof.
    intros H. destruct p; apply count_le.
    - exact H.
    - clear s. induction H; constructor; auto.
  Qed.

  Theorem mono_pos : forall f, nofix f -> forall p, pos X p f = true -> forall r d1 d2 e1 e2, dle d1 d2 ->
    Den (bind r X d1) f e1 -> Den (bind r X d2) f e2 -> ord_p p e1 e2.
  Proof.
    induction f as [| |v|g IH|q vs g IH|op fs n IH|op l rr IHl IHr|y i g IH|c t e IHc IHt IHe|op a b IHa IHb|b0|] using form_ind';
      intros Hnf p Hp r d1 d2 e1 e2 Hd H1 H2; cbn [nofix] in Hnf; cbn [pos] in Hp.
    - cbn [Den] in H1, H2. apply ord_refl_deq. intros s. rewrite H1, H2. reflexivity.
    - cbn [Den] in H1, H2. apply ord_refl_deq. intros s. rewrite H1, H2. reflexivity.
    - (* FVar *) cbn [Den] in H1, H2. unfold bind in H1, H2. destruct (Nat.eqb_spec v X) as [->|Hne].
      + subst p. cbn. intros s Hs. rewrite H1 in Hs. rewrite H2. apply Hd. exact Hs.
      + apply ord_refl_deq. intros s. rewrite H1, H2. reflexivity.
    - (* FNot *) cbn [Den] in H1, H2. destruct H1 as (a1 & D1 & E1), H2 as (a2 & D2 & E2).
      pose proof (IH Hnf (negb p) Hp r d1 d2 a1 a2 Hd D1 D2) as Ho. apply ord_negb in Ho.
      destruct p; cbn in *; intros s Hs; [rewrite E1 in Hs; rewrite E2|rewrite E2 in Hs; rewrite E1]; apply Ho; exact Hs.
    - (* FQuant *) cbn [Den] in H1, H2. destruct H1 as (a1 & D1 & E1), H2 as (a2 & D2 & E2).
      assert (Ho : ord_p p a1 a2).
      { destruct (mem_nat X vs) eqn:Em.
        - (* X is re-bound by the quantifier: both bodies are evaluated in the same environment *)
          apply ord_refl_deq.
          pose proof (Den_ext g _ _ a1 a1 (eeq_sym _ _ (eeq_unbind_bind_in r X d1 vs Em)) (deq_refl a1) D1) as D1'.
          pose proof (Den_ext g _ _ a2 a2 (eeq_sym _ _ (eeq_unbind_bind_in r X d2 vs Em)) (deq_refl a2) D2) as D2'.
          exact (Den_fun g _ a1 a2 D1' D2').
        - pose proof (Den_ext g _ _ a1 a1 (eeq_sym _ _ (eeq_unbind_bind_out r X d1 vs Em)) (deq_refl a1) D1) as D1'.
          pose proof (Den_ext g _ _ a2 a2 (eeq_sym _ _ (eeq_unbind_bind_out r X d2 vs Em)) (deq_refl a2) D2) as D2'.
          exact (IH Hnf p Hp (unbind r vs) d1 d2 a1 a2 Hd D1' D2'). }
      pose proof (ord_quant q p vs a1 a2 Ho) as Hq.
      destruct p; cbn in *; intros s Hs; [rewrite E1 in Hs; rewrite E2|rewrite E2 in Hs; rewrite E1]; apply Hq; exact Hs.
    - (* FCountC *) apply nofix_list in Hnf.
      apply Den_countc in H1. apply Den_countc in H2. destruct H1 as (ds1 & F1 & E1), H2 as (ds2 & F2 & E2).
      apply Dens_Forall2 in F1. apply Dens_Forall2 in F2.
      assert (HF : Forall (fun g => forall q, pos X q g = true -> forall r d1 d2 e1 e2, dle d1 d2 ->
                 Den (bind r X d1) g e1 -> Den (bind r X d2) g e2 -> ord_p q e1 e2) fs).
      { rewrite Forall_forall in *. intros g Hg q0 Hq0. apply IH; auto. }
      assert (Cmp : forall q0, forallb (pos X q0) fs = true -> forall s,
                 if q0 then (count_den ds1 s <= count_den ds2 s)%Z else (count_den ds2 s <= count_den ds1 s)%Z).
      { intros q0 Hq0 s. apply count_ord. eapply Forall2_ord; eauto. }
      destruct op; destruct p; cbn [negb] in Hp; cbn [ord_p]; intros s Hs;
        try (apply andb_true_iff in Hp; destruct Hp as [Hp1 Hp2]);
        first [rewrite E1 in Hs; rewrite E2 | rewrite E2 in Hs; rewrite E1]; cbn [cop_sem] in *;
        repeat match goal with
        | H : forallb (pos X ?b) fs = true |- _ => let c := fresh "C" in pose proof (Cmp b H s) as c; cbv iota beta in c; clear H
        end; lia.
    - (* FCountV *) destruct Hnf as [Nl Nr]. apply nofix_list in Nl. apply nofix_list in Nr.
      apply Den_countv in H1. apply Den_countv in H2.
      destruct H1 as (dl1 & dr1 & Fl1 & Fr1 & E1), H2 as (dl2 & dr2 & Fl2 & Fr2 & E2).
      apply Dens_Forall2 in Fl1. apply Dens_Forall2 in Fr1. apply Dens_Forall2 in Fl2. apply Dens_Forall2 in Fr2.
      assert (HFl : Forall (fun g => forall q, pos X q g = true -> forall r d1 d2 e1 e2, dle d1 d2 ->
                 Den (bind r X d1) g e1 -> Den (bind r X d2) g e2 -> ord_p q e1 e2) l).
      { rewrite Forall_forall in *. intros g Hg q0 Hq0. apply IHl; auto. }
      assert (HFr : Forall (fun g => forall q, pos X q g = true -> forall r d1 d2 e1 e2, dle d1 d2 ->
                 Den (bind r X d1) g e1 -> Den (bind r X d2) g e2 -> ord_p q e1 e2) rr).
      { rewrite Forall_forall in *. intros g Hg q0 Hq0. apply IHr; auto. }
      assert (CmpL : forall q0, forallb (pos X q0) l = true -> forall s,
                 if q0 then (count_den dl1 s <= count_den dl2 s)%Z else (count_den dl2 s <= count_den dl1 s)%Z).
      { intros q0 Hq0 s. apply count_ord. exact (Forall2_ord q0 l HFl Hq0 r d1 d2 dl1 dl2 Hd Fl1 Fl2). }
      assert (CmpR : forall q0, forallb (pos X q0) rr = true -> forall s,
                 if q0 then (count_den dr1 s <= count_den dr2 s)%Z else (count_den dr2 s <= count_den dr1 s)%Z).
      { intros q0 Hq0 s. apply count_ord. exact (Forall2_ord q0 rr HFr Hq0 r d1 d2 dr1 dr2 Hd Fr1 Fr2). }
      destruct op; destruct p; cbn [negb] in Hp; cbn [ord_p]; intros s Hs;
        repeat match goal with H : _ && _ = true |- _ => apply andb_true_iff in H; destruct H end;
        first [rewrite E1 in Hs; rewrite E2 | rewrite E2 in Hs; rewrite E1]; cbn [cop_sem] in *;
        repeat match goal with
        | H : forallb (pos X ?b) l = true |- _ => let c := fresh "C" in pose proof (CmpL b H s) as c; cbv iota beta in c; clear H
        | H : forallb (pos X ?b) rr = true |- _ => let c := fresh "C" in pose proof (CmpR b H s) as c; cbv iota beta in c; clear H
        end; lia.
    - (* FFix *) discriminate.
    - (* FIte *) destruct Hnf as (Nc & Nt & Ne).
      repeat match goal with H : _ && _ = true |- _ => apply andb_true_iff in H; destruct H end.
      cbn [Den] in H1, H2. destruct H1 as (c1 & t1 & x1 & Dc1 & Dt1 & De1 & E1), H2 as (c2 & t2 & x2 & Dc2 & Dt2 & De2 & E2).
      assert (Hc : deq c1 c2).
      { apply ord_both; [eapply (IHc Nc true)|eapply (IHc Nc false)]; eauto; destruct p; auto. }
      pose proof (IHt Nt p ltac:(assumption) r d1 d2 t1 t2 Hd Dt1 Dt2) as Ht.
      pose proof (IHe Ne p ltac:(assumption) r d1 d2 x1 x2 Hd De1 De2) as He.
      destruct p; cbn in *; intros s Hs; [rewrite E1 in Hs; rewrite E2|rewrite E2 in Hs; rewrite E1]; rewrite <- ?(Hc s) in *;
        destruct (c1 s) eqn:Ec; rewrite ?(Hc s) in *; try rewrite <- (Hc s); rewrite ?Ec in *; auto.
    - (* FBin *) destruct Hnf as (Na & Nb).
      cbn [Den] in H1, H2. destruct H1 as (a1 & b1 & Da1 & Db1 & E1), H2 as (a2 & b2 & Da2 & Db2 & E2).
      assert (Ha : forall q0, pos X q0 a = true -> ord_p q0 a1 a2) by (intros q0 Hq0; eapply IHa; eauto).
      assert (Hb : forall q0, pos X q0 b = true -> ord_p q0 b1 b2) by (intros q0 Hq0; eapply IHb; eauto).
      destruct op; destruct p; cbn [negb] in Hp;
        repeat match goal with H : _ && _ = true |- _ => apply andb_true_iff in H; destruct H end;
        repeat match goal with
        | H : pos X ?q a = true |- _ => let c := fresh "A" in pose proof (Ha q H) as c; clear H
        | H : pos X ?q b = true |- _ => let c := fresh "B" in pose proof (Hb q H) as c; clear H
        end;
        cbn [ord_p] in *; intros s Hs; first [rewrite E1 in Hs; rewrite E2 | rewrite E2 in Hs; rewrite E1]; cbn [binop_sem] in *;
        repeat match goal with H : dle _ _ |- _ => specialize (H s) end;
        destruct (a1 s), (a2 s), (b1 s), (b2 s); cbn in *; auto;
        repeat match goal with H : true = true -> _ |- _ => specialize (H eq_refl) end; try discriminate; auto.
    - (* FSub *) cbn [Den] in H1, H2. apply ord_refl_deq. intros s. rewrite H1, H2. reflexivity.
    - (* FRef *) cbn [Den] in H1, H2. apply ord_refl_deq. intros s. rewrite H1, H2. reflexivity.
  Qed.
End Mono.

(** C06 for syntactically monotone bodies: termination at the least / greatest fixed point *)
Theorem C06_lfp_syntactic X T : nofsub T -> nofix T -> pos X true T = true ->
  exists n r, eval_f n (FFix X false T) = Some r /\ robdd r /\ Den (bind empty X (bden r)) T (bden r) /\
    forall d e, Den (bind empty X d) T e -> dle e d -> dle (bden r) d.
Proof.
  intros Hs Hf Hp. apply C06_lfp_fixfree; auto.
  intros d1 d2 e1 e2 Hd D1 D2. exact (mono_pos X T Hf true Hp empty d1 d2 e1 e2 Hd D1 D2).
Qed.
Theorem C06_gfp_syntactic X T : nofsub T -> nofix T -> pos X true T = true ->
  exists n r, eval_f n (FFix X true T) = Some r /\ robdd r /\ Den (bind empty X (bden r)) T (bden r) /\
    forall d e, Den (bind empty X d) T e -> dle d e -> dle d (bden r).
Proof.
  intros Hs Hf Hp. apply C06_gfp_fixfree; auto.
  intros d1 d2 e1 e2 Hd D1 D2. exact (mono_pos X T Hf true Hp empty d1 d2 e1 e2 Hd D1 D2).
Qed.
Print Assumptions C06_lfp_syntactic.
