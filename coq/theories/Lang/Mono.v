(** A syntactic criterion for monotonicity in a fixed-point name (C06): if every free occurrence of X in a
    body has positive polarity - X under and / or / if-branches / quantifiers / at-least
    counting / an even number of negations, never under xor / iff / an if-condition / exactly-counting -
    then the body's meaning is monotone in the value of X.  Hence (with C06_lfp_fixfree) lfp X # T
    terminates at the least fixed point for every such body. *)
From Coq Require Import List Arith Bool PeanoNat ZArith NArith Lia.
Import ListNotations.
From Rsbdd Require Import Core.Bdd Core.Canon Core.Quant Lang.Ast Lang.AstFacts Lang.Den Lang.DenFacts Lang.Eval Lang.EvalSound Lang.EvalComplete Lang.Free Lang.FSem
  Lang.FixLang Lang.FixFree.

(** [pos X p f]: every free occurrence of the name X in f has polarity p (true = positive) *)
Fixpoint pos (X : nat) (p : bool) (f : form) : bool :=
  match f with
  | FVar v => if Nat.eqb v X then p else true
  | FNot g => pos X (negb p) g
  | FQuant _ vs g => if mem_nat X vs then true else pos X p g
  | FCountC op fs _ =>
      match op with
      | AtLeast | MoreThan => forallb (pos X p) fs
      | AtMost | LessThan => forallb (pos X (negb p)) fs
      | Exactly => forallb (pos X p) fs && forallb (pos X (negb p)) fs
      end
  | FCountV op l r =>
      match op with
      | AtLeast | MoreThan => forallb (pos X p) l && forallb (pos X (negb p)) r
      | AtMost | LessThan => forallb (pos X (negb p)) l && forallb (pos X p) r
      | Exactly => forallb (pos X p) l && forallb (pos X (negb p)) l && forallb (pos X p) r && forallb (pos X (negb p)) r
      end
  | FIte c t e => pos X p c && pos X (negb p) c && pos X p t && pos X p e
  | FBin op a b =>
      match op with
      | BAnd | BOr => pos X p a && pos X p b
      | BNor | BNand => pos X (negb p) a && pos X (negb p) b
      | BImplies => pos X (negb p) a && pos X p b
      | BImpliesInv => pos X p a && pos X (negb p) b
      | BXor | BIff => pos X p a && pos X (negb p) a && pos X p b && pos X (negb p) b
      end
  | FFix Y _ g => if Nat.eqb Y X then true else pos X p g      (* an inner binder on X shadows it *)
  | _ => true
  end.

Definition ord_p (p : bool) (e1 e2 : den) : Prop := if p then dle e1 e2 else dle e2 e1.

Lemma ord_both e1 e2 : ord_p true e1 e2 -> ord_p false e1 e2 -> deq e1 e2.
Proof.
  cbn. intros H1 H2 s. specialize (H1 s). specialize (H2 s).
  destruct (e1 s) eqn:E1, (e2 s) eqn:E2; auto; try (specialize (H1 eq_refl); discriminate); try (specialize (H2 eq_refl); discriminate).
Qed.
Lemma ord_refl_deq p e1 e2 : deq e1 e2 -> ord_p p e1 e2.
Proof. intros H. destruct p; cbn; intros s Hs; [rewrite <- H|rewrite H]; exact Hs. Qed.
Lemma ord_negb p e1 e2 : ord_p (negb p) e1 e2 -> ord_p p (fun s => negb (e1 s)) (fun s => negb (e2 s)).
Proof.
  destruct p; cbn; intros H s Hs; apply negb_true_iff in Hs; apply negb_true_iff.
  - destruct (e2 s) eqn:E; auto. rewrite (H s E) in Hs. discriminate.
  - destruct (e1 s) eqn:E; auto. rewrite (H s E) in Hs. discriminate.
Qed.
Lemma ord_flip p e1 e2 : ord_p (negb p) e1 e2 -> ord_p p e2 e1.
Proof. destruct p; cbn; auto. Qed.

Lemma dle_ex1 v d e : dle d e -> dle (ex1 v d) (ex1 v e).
Proof. intros H s. unfold ex1. rewrite !orb_true_iff. intros [Hs|Hs]; [left|right]; apply H; exact Hs. Qed.
Lemma dle_all1 v d e : dle d e -> dle (all1 v d) (all1 v e).
Proof. intros H s. unfold all1. rewrite !andb_true_iff. intros [H1 H2]. split; apply H; auto. Qed.
Lemma ord_quant q p vs : forall e1 e2, ord_p p e1 e2 -> ord_p p (fold_right (quant_sem q) e1 vs) (fold_right (quant_sem q) e2 vs).
Proof.
  induction vs as [|v vs IH]; intros e1 e2 H; cbn [fold_right]; [exact H|].
  specialize (IH e1 e2 H). destruct p, q; cbn in *; first [apply dle_ex1; exact IH | apply dle_all1; exact IH].
Qed.

(** counting is monotone in the operands *)
Lemma count_le ds1 ds2 s : Forall2 (fun a b => dle a b) ds1 ds2 -> (count_den ds1 s <= count_den ds2 s)%Z.
Proof.
  induction 1 as [|a b l1 l2 Hab _ IH]; cbn [count_den]; [lia|].
  specialize (Hab s). destruct (a s); [rewrite (Hab eq_refl); lia|destruct (b s); lia].
Qed.

(** every inner fixed point binds a name that is positive in its own body *)
Fixpoint posfix (f : form) : bool :=
  match f with
  | FFix Y _ g => pos Y true g && posfix g
  | FNot g | FQuant _ _ g => posfix g
  | FCountC _ fs _ => forallb posfix fs
  | FCountV _ l r => forallb posfix l && forallb posfix r
  | FIte a b c => posfix a && posfix b && posfix c
  | FBin _ a b => posfix a && posfix b
  | _ => true
  end.

(** two environments that differ only on names in [Up] (by going up) and on names in [Dn] (by going down) *)
Definition erel (Up Dn : nat -> Prop) (r1 r2 : fenv) : Prop :=
  forall y, match r1 y, r2 y with
            | None, None => True
            | Some a, Some b => deq a b \/ (Up y /\ dle a b) \/ (Dn y /\ dle b a)
            | _, _ => False
            end.

Definition mono_stmt (g : form) : Prop :=
  posfix g = true -> forall q (Up Dn : nat -> Prop) r1 r2 e1 e2,
    (forall y, Up y -> pos y q g = true) -> (forall y, Dn y -> pos y (negb q) g = true) ->
    erel Up Dn r1 r2 -> Den r1 g e1 -> Den r2 g e2 -> ord_p q e1 e2.

Lemma Forall2_ord p fs : Forall mono_stmt fs -> forallb posfix fs = true ->
  forall (Up Dn : nat -> Prop) r1 r2 ds1 ds2,
    (forall y, Up y -> forallb (pos y p) fs = true) -> (forall y, Dn y -> forallb (pos y (negb p)) fs = true) ->
    erel Up Dn r1 r2 -> Forall2 (Den r1) fs ds1 -> Forall2 (Den r2) fs ds2 -> Forall2 (ord_p p) ds1 ds2.
Proof.
  intros HF Hpf Up Dn r1 r2 ds1 ds2 HU HD Hrel H1. revert ds2 HF Hpf HU HD.
  induction H1 as [|g e1 fs' ds1' Hg _ IH]; intros ds2 HF Hpf HU HD H2.
  - inversion H2; subst. constructor.
  - inversion H2 as [|g' e2 fs2 ds2' Hg2 Hrest]; subst.
    cbn [forallb] in Hpf. apply andb_true_iff in Hpf. destruct Hpf as [Hpg Hpr].
    inversion HF as [|g'' fs'' Hhead Htail]; subst.
    constructor.
    + apply (Hhead Hpg p Up Dn r1 r2 e1 e2); auto.
      * intros y Hy. specialize (HU y Hy). cbn [forallb] in HU. apply andb_true_iff in HU. tauto.
      * intros y Hy. specialize (HD y Hy). cbn [forallb] in HD. apply andb_true_iff in HD. tauto.
    + apply IH; auto.
      * intros y Hy. specialize (HU y Hy). cbn [forallb] in HU. apply andb_true_iff in HU. tauto.
      * intros y Hy. specialize (HD y Hy). cbn [forallb] in HD. apply andb_true_iff in HD. tauto.
Qed.

Lemma count_ord p ds1 ds2 s : Forall2 (ord_p p) ds1 ds2 ->
  if p then (count_den ds1 s <= count_den ds2 s)%Z else (count_den ds2 s <= count_den ds1 s)%Z.
Proof.
  intros H. destruct p; apply count_le.
  - exact H.
  - clear s. induction H; constructor; auto.
Qed.

(** side conditions of the form "every name in Up / Dn has polarity q in this operand" *)
Ltac side HU HD :=
  let y := fresh "y" in let Hy := fresh "Hy" in let Hh := fresh "Hh" in
  intros y Hy; first [pose proof (HU y Hy) as Hh | pose proof (HD y Hy) as Hh];
  cbn [negb] in Hh; repeat rewrite andb_true_iff in Hh; tauto.

Theorem mono_env : forall f, mono_stmt f.
Proof.
  unfold mono_stmt.
  induction f as [| |v|g IH|q vs g IH|op fs n IH|op l rr IHl IHr|Y i g IH|c t e IHc IHt IHe|op a b IHa IHb|b0|] using form_ind';
    intros Hpf p Up Dn r1 r2 e1 e2 HU HD Hrel H1 H2; cbn [posfix] in Hpf.
  - cbn [Den] in H1, H2. apply ord_refl_deq. intros s. rewrite H1, H2. reflexivity.
  - cbn [Den] in H1, H2. apply ord_refl_deq. intros s. rewrite H1, H2. reflexivity.
  - (* FVar *) cbn [Den] in H1, H2. specialize (Hrel v). specialize (HU v). specialize (HD v).
    cbn [pos] in HU, HD. rewrite Nat.eqb_refl in HU, HD.
    destruct (r1 v) as [a1|], (r2 v) as [a2|]; try contradiction.
    + destruct Hrel as [E|[[U L]|[D L]]].
      * apply ord_refl_deq. intros s. rewrite H1, H2. apply E.
      * rewrite (HU U). cbn. intros s Hs. rewrite H1 in Hs. rewrite H2. apply L. exact Hs.
      * specialize (HD D). destruct p; [discriminate|]. cbn. intros s Hs. rewrite H2 in Hs. rewrite H1. apply L. exact Hs.
    + apply ord_refl_deq. intros s. rewrite H1, H2. reflexivity.
  - (* FNot *) cbn [Den] in H1, H2. destruct H1 as (a1 & D1 & E1), H2 as (a2 & D2 & E2).
    pose proof (IH Hpf (negb p) Up Dn r1 r2 a1 a2 HU HD Hrel D1 D2) as Ho. apply ord_negb in Ho.
    destruct p; cbn in *; intros s Hs; [rewrite E1 in Hs; rewrite E2|rewrite E2 in Hs; rewrite E1]; apply Ho; exact Hs.
  - (* FQuant *) cbn [Den] in H1, H2. destruct H1 as (a1 & D1 & E1), H2 as (a2 & D2 & E2).
    assert (Ho : ord_p p a1 a2).
    { apply (IH Hpf p (fun y => Up y /\ mem_nat y vs = false) (fun y => Dn y /\ mem_nat y vs = false) (unbind r1 vs) (unbind r2 vs)); auto.
      - intros y [U Em]. specialize (HU y U). cbn [pos] in HU. rewrite Em in HU. exact HU.
      - intros y [D Em]. specialize (HD y D). cbn [pos] in HD. rewrite Em in HD. exact HD.
      - intros y. unfold unbind. destruct (mem_nat y vs) eqn:Em; [exact I|].
        specialize (Hrel y). destruct (r1 y), (r2 y); auto. destruct Hrel as [E|[[U L]|[D L]]]; auto. }
    pose proof (ord_quant q p vs a1 a2 Ho) as Hq.
    destruct p; cbn in *; intros s Hs; [rewrite E1 in Hs; rewrite E2|rewrite E2 in Hs; rewrite E1]; apply Hq; exact Hs.
  - (* FCountC *)
    apply Den_countc in H1. apply Den_countc in H2. destruct H1 as (ds1 & F1 & E1), H2 as (ds2 & F2 & E2).
    apply Dens_Forall2 in F1. apply Dens_Forall2 in F2.
    assert (Cmp : forall q0, (forall y, Up y -> forallb (pos y q0) fs = true) -> (forall y, Dn y -> forallb (pos y (negb q0)) fs = true) ->
               forall s, if q0 then (count_den ds1 s <= count_den ds2 s)%Z else (count_den ds2 s <= count_den ds1 s)%Z).
    { intros q0 A B s. apply count_ord. exact (Forall2_ord q0 fs IH Hpf Up Dn r1 r2 ds1 ds2 A B Hrel F1 F2). }
    cbn [pos] in HU, HD.
    destruct op; destruct p; cbn [negb] in HU, HD; cbn [ord_p]; intros s Hs;
      first [rewrite E1 in Hs; rewrite E2 | rewrite E2 in Hs; rewrite E1]; cbn [cop_sem] in *;
      try (pose proof (Cmp true ltac:(side HU HD) ltac:(side HU HD) s) as C1; cbv iota beta in C1);
      try (pose proof (Cmp false ltac:(side HU HD) ltac:(side HU HD) s) as C2; cbv iota beta in C2); lia.
  - (* FCountV *) apply andb_true_iff in Hpf. destruct Hpf as [Pl Pr].
    apply Den_countv in H1. apply Den_countv in H2.
    destruct H1 as (dl1 & dr1 & Fl1 & Fr1 & E1), H2 as (dl2 & dr2 & Fl2 & Fr2 & E2).
    apply Dens_Forall2 in Fl1. apply Dens_Forall2 in Fr1. apply Dens_Forall2 in Fl2. apply Dens_Forall2 in Fr2.
    assert (CmpL : forall q0, (forall y, Up y -> forallb (pos y q0) l = true) -> (forall y, Dn y -> forallb (pos y (negb q0)) l = true) ->
               forall s, if q0 then (count_den dl1 s <= count_den dl2 s)%Z else (count_den dl2 s <= count_den dl1 s)%Z).
    { intros q0 A B s. apply count_ord. exact (Forall2_ord q0 l IHl Pl Up Dn r1 r2 dl1 dl2 A B Hrel Fl1 Fl2). }
    assert (CmpR : forall q0, (forall y, Up y -> forallb (pos y q0) rr = true) -> (forall y, Dn y -> forallb (pos y (negb q0)) rr = true) ->
               forall s, if q0 then (count_den dr1 s <= count_den dr2 s)%Z else (count_den dr2 s <= count_den dr1 s)%Z).
    { intros q0 A B s. apply count_ord. exact (Forall2_ord q0 rr IHr Pr Up Dn r1 r2 dr1 dr2 A B Hrel Fr1 Fr2). }
    cbn [pos] in HU, HD.
    destruct op; destruct p; cbn [negb] in HU, HD; cbn [ord_p]; intros s Hs;
      first [rewrite E1 in Hs; rewrite E2 | rewrite E2 in Hs; rewrite E1]; cbn [cop_sem] in *;
      try (pose proof (CmpL true ltac:(side HU HD) ltac:(side HU HD) s) as C1; cbv iota beta in C1);
      try (pose proof (CmpL false ltac:(side HU HD) ltac:(side HU HD) s) as C2; cbv iota beta in C2);
      try (pose proof (CmpR true ltac:(side HU HD) ltac:(side HU HD) s) as C3; cbv iota beta in C3);
      try (pose proof (CmpR false ltac:(side HU HD) ltac:(side HU HD) s) as C4; cbv iota beta in C4); lia.
  - (* FFix: the iterations in the two environments are compared through the fixed point reached by the other one *)
    apply andb_true_iff in Hpf. destruct Hpf as [HposY Hpg].
    assert (St : forall a b a' b', ord_p p a b -> Den (bind r1 Y a) g a' -> Den (bind r2 Y b) g b' -> ord_p p a' b').
    { intros a b a' b' Hab Da Db.
      apply (IH Hpg p (fun y => (y <> Y /\ Up y) \/ (y = Y /\ p = true)) (fun y => (y <> Y /\ Dn y) \/ (y = Y /\ p = false))
                (bind r1 Y a) (bind r2 Y b) a' b'); auto.
      - intros y [[Hne U]|[-> ->]]; [|exact HposY]. specialize (HU y U). cbn [pos] in HU.
        destruct (Nat.eqb_spec Y y); [congruence|exact HU].
      - intros y [[Hne D]|[-> ->]]; [|exact HposY]. specialize (HD y D). cbn [pos] in HD.
        destruct (Nat.eqb_spec Y y); [congruence|exact HD].
      - intros y. unfold bind. destruct (Nat.eqb_spec y Y) as [->|Hne].
        + destruct p; cbn in Hab; right; [left|right]; split; auto.
        + specialize (Hrel y). destruct (r1 y), (r2 y); auto.
          destruct Hrel as [E|[[U L]|[D L]]]; [left; auto | right; left; split; auto | right; right; split; auto]. }
    cbn [Den] in H1, H2.
    destruct H1 as (s1 & n1 & I1 & S1 & _ & X1 & E1), H2 as (s2 & n2 & I2 & S2 & _ & X2 & E2).
    destruct p, i; cbn [ord_p] in *.
    + (* monotone, gfp: the left fixed point stays below every right iterate *)
      assert (Hall : forall j, j <= n2 -> dle (s1 n1) (s2 j)).
      { induction j as [|j IHj]; intros Hj.
        - intros s _. rewrite (I2 s). reflexivity.
        - pose proof (St (s1 n1) (s2 j) (s1 (S n1)) (s2 (S j)) (IHj ltac:(lia)) (S1 n1 (le_n _)) (S2 j ltac:(lia))) as Hs.
          intros s Hq. apply Hs. rewrite (X1 s). exact Hq. }
      intros s Hs. rewrite (E1 s) in Hs. rewrite (E2 s). apply (Hall n2 (le_n _)). exact Hs.
    + (* monotone, lfp: every left iterate stays below the right fixed point *)
      assert (Hall : forall j, j <= n1 -> dle (s1 j) (s2 n2)).
      { induction j as [|j IHj]; intros Hj.
        - intros s Hs. rewrite (I1 s) in Hs. discriminate.
        - pose proof (St (s1 j) (s2 n2) (s1 (S j)) (s2 (S n2)) (IHj ltac:(lia)) (S1 j ltac:(lia)) (S2 n2 (le_n _))) as Hs.
          intros s Hq. rewrite <- (X2 s). apply Hs. exact Hq. }
      intros s Hs. rewrite (E1 s) in Hs. rewrite (E2 s). apply (Hall n1 (le_n _)). exact Hs.
    + (* antitone, gfp *)
      assert (Hall : forall j, j <= n1 -> dle (s2 n2) (s1 j)).
      { induction j as [|j IHj]; intros Hj.
        - intros s _. rewrite (I1 s). reflexivity.
        - pose proof (St (s1 j) (s2 n2) (s1 (S j)) (s2 (S n2)) (IHj ltac:(lia)) (S1 j ltac:(lia)) (S2 n2 (le_n _))) as Hs.
          intros s Hq. apply Hs. rewrite (X2 s). exact Hq. }
      intros s Hs. rewrite (E2 s) in Hs. rewrite (E1 s). apply (Hall n1 (le_n _)). exact Hs.
    + (* antitone, lfp *)
      assert (Hall : forall j, j <= n2 -> dle (s2 j) (s1 n1)).
      { induction j as [|j IHj]; intros Hj.
        - intros s Hs. rewrite (I2 s) in Hs. discriminate.
        - pose proof (St (s1 n1) (s2 j) (s1 (S n1)) (s2 (S j)) (IHj ltac:(lia)) (S1 n1 (le_n _)) (S2 j ltac:(lia))) as Hs.
          intros s Hq. rewrite <- (X1 s). apply Hs. exact Hq. }
      intros s Hs. rewrite (E2 s) in Hs. rewrite (E1 s). apply (Hall n2 (le_n _)). exact Hs.
  - (* FIte *)
    repeat match goal with H : _ && _ = true |- _ => apply andb_true_iff in H; destruct H end.
    cbn [Den] in H1, H2. destruct H1 as (c1 & t1 & x1 & Dc1 & Dt1 & De1 & E1), H2 as (c2 & t2 & x2 & Dc2 & Dt2 & De2 & E2).
    cbn [pos] in HU, HD.
    assert (Hc : deq c1 c2).
    { apply ord_both.
      - apply (IHc ltac:(assumption) true Up Dn r1 r2 c1 c2); auto; destruct p; side HU HD.
      - apply (IHc ltac:(assumption) false Up Dn r1 r2 c1 c2); auto; destruct p; side HU HD. }
    assert (Ht : ord_p p t1 t2) by (apply (IHt ltac:(assumption) p Up Dn r1 r2 t1 t2); auto; side HU HD).
    assert (He : ord_p p x1 x2) by (apply (IHe ltac:(assumption) p Up Dn r1 r2 x1 x2); auto; side HU HD).
    destruct p; cbn in *; intros s Hs; [rewrite E1 in Hs; rewrite E2|rewrite E2 in Hs; rewrite E1]; rewrite <- ?(Hc s) in *;
      destruct (c1 s) eqn:Ec; rewrite ?(Hc s) in *; try rewrite <- (Hc s); rewrite ?Ec in *; auto.
  - (* FBin *) apply andb_true_iff in Hpf. destruct Hpf as [Pa Pb].
    cbn [Den] in H1, H2. destruct H1 as (a1 & b1 & Da1 & Db1 & E1), H2 as (a2 & b2 & Da2 & Db2 & E2).
    assert (Ha : forall q0, (forall y, Up y -> pos y q0 a = true) -> (forall y, Dn y -> pos y (negb q0) a = true) -> ord_p q0 a1 a2)
      by (intros q0 A B; apply (IHa Pa q0 Up Dn r1 r2 a1 a2); auto).
    assert (Hb : forall q0, (forall y, Up y -> pos y q0 b = true) -> (forall y, Dn y -> pos y (negb q0) b = true) -> ord_p q0 b1 b2)
      by (intros q0 A B; apply (IHb Pb q0 Up Dn r1 r2 b1 b2); auto).
    cbn [pos] in HU, HD.
    destruct op; destruct p; cbn [negb] in HU, HD;
      try (pose proof (Ha true ltac:(side HU HD) ltac:(side HU HD)) as A1);
      try (pose proof (Ha false ltac:(side HU HD) ltac:(side HU HD)) as A2);
      try (pose proof (Hb true ltac:(side HU HD) ltac:(side HU HD)) as B1);
      try (pose proof (Hb false ltac:(side HU HD) ltac:(side HU HD)) as B2);
      clear Ha Hb HU HD;
      cbn [ord_p] in *; intros s Hs; first [rewrite E1 in Hs; rewrite E2 | rewrite E2 in Hs; rewrite E1]; cbn [binop_sem] in *;
      repeat match goal with H : dle _ _ |- _ => specialize (H s) end;
      destruct (a1 s), (a2 s), (b1 s), (b2 s); cbn in *; auto;
      repeat match goal with H : true = true -> _ |- _ => specialize (H eq_refl) end; try discriminate; auto.
  - (* FSub *) cbn [Den] in H1, H2. apply ord_refl_deq. intros s. rewrite H1, H2. reflexivity.
  - (* FRef *) cbn [Den] in H1, H2. apply ord_refl_deq. intros s. rewrite H1, H2. reflexivity.
Qed.

(** the one-name instance: environments that differ in the value of X only *)
Lemma erel_bind X r d1 d2 : dle d1 d2 -> erel (fun y => y = X) (fun _ => False) (bind r X d1) (bind r X d2).
Proof.
  intros Hd y. unfold bind. destruct (Nat.eqb_spec y X) as [->|Hne].
  - right. left. split; auto.
  - destruct (r y); auto. left. intros s. reflexivity.
Qed.
Theorem mono_posfix X f : posfix f = true -> forall p, pos X p f = true -> forall r d1 d2 e1 e2, dle d1 d2 ->
  Den (bind r X d1) f e1 -> Den (bind r X d2) f e2 -> ord_p p e1 e2.
Proof.
  intros Hpf p Hp r d1 d2 e1 e2 Hd D1 D2.
  apply (mono_env f Hpf p (fun y => y = X) (fun _ => False) (bind r X d1) (bind r X d2) e1 e2); auto.
  - intros y ->. exact Hp.
  - apply erel_bind. exact Hd.
Qed.

Lemma nofix_posfix : forall f, nofix f -> posfix f = true.
Proof.
  induction f as [| |v|g IH|q vs g IH|op fs n IH|op l rr IHl IHr|y i g IH|c t e IHc IHt IHe|op a b IHa IHb|b0|] using form_ind';
    cbn [nofix posfix]; auto.
  - intros H. apply nofix_list in H. apply forallb_forall. rewrite Forall_forall in *. auto.
  - intros [H1 H2]. apply nofix_list in H1. apply nofix_list in H2. apply andb_true_iff.
    rewrite !Forall_forall in *. split; apply forallb_forall; auto.
  - intros (? & ? & ?). rewrite IHc, IHt, IHe; auto.
  - intros (? & ?). rewrite IHa, IHb; auto.
Qed.

Theorem mono_pos X : forall f, nofix f -> forall p, pos X p f = true -> forall r d1 d2 e1 e2, dle d1 d2 ->
  Den (bind r X d1) f e1 -> Den (bind r X d2) f e2 -> ord_p p e1 e2.
Proof. intros f Hnf. apply mono_posfix. apply nofix_posfix. exact Hnf. Qed.

(** C06 for syntactically monotone bodies: termination at the least / greatest fixed point *)
Theorem C06_lfp_syntactic X T : nofsub T -> nofix T -> pos X true T = true ->
  exists n r, eval_f n (FFix X false T) = Some r /\ robdd r /\ Den (bind empty X (bden r)) T (bden r) /\
    forall d e, Den (bind empty X d) T e -> dle e d -> dle (bden r) d.
Proof.
  intros Hs Hf Hp. apply C06_lfp_fixfree; auto.
  intros d1 d2 e1 e2 Hd D1 D2. exact (mono_pos X T Hf true Hp empty d1 d2 e1 e2 Hd D1 D2).
Qed.
Theorem C06_gfp_syntactic X T : nofsub T -> nofix T -> pos X true T = true ->
  exists n r, eval_f n (FFix X true T) = Some r /\ robdd r /\ Den (bind empty X (bden r)) T (bden r) /\
    forall d e, Den (bind empty X d) T e -> dle d e -> dle d (bden r).
Proof.
  intros Hs Hf Hp. apply C06_gfp_fixfree; auto.
  intros d1 d2 e1 e2 Hd D1 D2. exact (mono_pos X T Hf true Hp empty d1 d2 e1 e2 Hd D1 D2).
Qed.
Print Assumptions C06_lfp_syntactic.
