(** C11 (shape): when two id assignments are related by a strictly increasing map - in particular when
    arbitrary sparse ids are replaced by their ranks - the evaluated diagrams are the SAME diagram up to
    that renaming of the tested variables.  Proved through canonicity: both sides are reduced and ordered
    and denote the same function (C11_rename), hence are equal (C02).  This is what lets the correspondence
    suite S-text/evalid compare huge 64-bit ids with the model in rank space. *)
From Coq Require Import List Arith Bool PeanoNat Lia.
Import ListNotations.
From Rsbdd Require Import Core.Bdd Core.Ops Core.Canon Lang.Ast Lang.AstFacts Lang.Eval Lang.EvalSound Lang.Free Lang.Rename.

Fixpoint bmap (p : nat -> nat) (a : bdd) : bdd :=
  match a with Nd t v f => Nd (bmap p t) (p v) (bmap p f) | _ => a end.

Lemma beval_bmap p s : forall a, beval s (bmap p a) = beval (fun x => s (p x)) a.
Proof. induction a as [| |t IHt v f IHf]; cbn [bmap beval]; auto. rewrite IHt, IHf. reflexivity. Qed.

Section Mono.
  Variable p : nat -> nat.
  Hypothesis p_mono : forall x y, x < y -> p x < p y.

  Lemma p_inj' x y : p x = p y -> x = y.
  Proof.
    intros H. destruct (Nat.lt_trichotomy x y) as [L|[E|L]]; auto; apply p_mono in L; lia.
  Qed.
  Lemma bmap_inj : forall a b, bmap p a = bmap p b -> a = b.
  Proof.
    induction a as [| |t IHt v f IHf]; destruct b as [| |t' v' f']; cbn [bmap]; try discriminate; auto.
    intros H. inversion H as [[H1 H2 H3]]. apply IHt in H1. apply IHf in H3. apply p_inj' in H2. subst. reflexivity.
  Qed.
  Lemma ord_bmap : forall a lo lo', (forall x, lo <= x -> lo' <= p x) -> ord lo a -> ord lo' (bmap p a).
  Proof.
    induction a as [| |t IHt v f IHf]; intros lo lo' Hlo; cbn [bmap ord]; auto.
    intros (Hv & Ht & Hf). split; [apply Hlo; exact Hv|].
    assert (Hs : forall x, S v <= x -> S (p v) <= p x) by (intros x Hx; apply p_mono; lia).
    split; [apply (IHt (S v)); auto|apply (IHf (S v)); auto].
  Qed.
  Lemma red_bmap : forall a, red a -> red (bmap p a).
  Proof.
    induction a as [| |t IHt v f IHf]; cbn [bmap red]; auto.
    intros (Hne & Ht & Hf). split; [intros E; apply Hne; apply bmap_inj; exact E|]. split; auto.
  Qed.
  Lemma robdd_bmap a : robdd a -> robdd (bmap p a).
  Proof. intros [Ho Hr]. split; [apply (ord_bmap a 0 0); auto; intros; lia|apply red_bmap; exact Hr]. Qed.

  (** a strictly increasing map on nat has a left inverse *)
  Fixpoint qinv_upto (n y : nat) : nat :=
    match n with 0 => 0 | S k => if Nat.eqb (p k) y then k else qinv_upto k y end.
  Definition qinv (y : nat) : nat := qinv_upto (S y) y.
  Lemma p_ge x : x <= p x.
  Proof. induction x as [|x IH]; [lia|]. pose proof (p_mono x (S x) ltac:(lia)). lia. Qed.
  Lemma qinv_upto_p : forall n x, x < n -> qinv_upto n (p x) = x.
  Proof.
    induction n as [|n IH]; intros x Hx; [lia|]. cbn [qinv_upto].
    destruct (Nat.eqb_spec (p n) (p x)) as [E|NE]; [apply p_inj'; exact E|].
    apply IH. destruct (Nat.eq_dec x n) as [->|]; [contradiction|lia].
  Qed.
  Lemma qinv_p x : qinv (p x) = x.
  Proof. unfold qinv. apply qinv_upto_p. pose proof (p_ge x). lia. Qed.

  (** the two evaluations give the same diagram up to the renaming *)
  Theorem C11_rank_iso n m f b1 b2 : nofsub f ->
    eval_f n f = Some b1 -> eval_f m (rename p f) = Some b2 -> b2 = bmap p b1.
  Proof.
    intros Hns E1 E2.
    destruct (sound n f b1 (nofsub_wf f Hns) E1) as [_ R1].
    destruct (sound m (rename p f) b2 (nofsub_wf _ (nofsub_rename p f Hns)) E2) as [_ R2].
    apply (proj2 (robdd_canonical b2 (bmap p b1) R2 (robdd_bmap b1 R1))).
    intros s. rewrite beval_bmap. exact (C11_rename p qinv qinv_p n m f b1 b2 Hns E1 E2 s).
  Qed.
End Mono.
Print Assumptions C11_rank_iso.

(** the same with monotonicity required only between variables of the diagram (and injectivity everywhere): enough for two
    runs of the tokenizer, whose id tables agree in order on the variables of the text and are unrelated elsewhere *)
Section MonoOn.
  Variable p q : nat -> nat.
  Hypothesis q_p : forall x, q (p x) = x.

  Lemma p_inj'' x y : p x = p y -> x = y.
  Proof. intros H. rewrite <- (q_p x), <- (q_p y), H. reflexivity. Qed.
  Lemma bmap_inj' : forall a b, bmap p a = bmap p b -> a = b.
  Proof.
    induction a as [| |t IHt v f IHf]; destruct b as [| |t' v' f']; cbn [bmap]; try discriminate; auto.
    intros H. inversion H as [[H1 H2 H3]]. apply IHt in H1. apply IHf in H3. apply p_inj'' in H2. subst. reflexivity.
  Qed.
  Lemma red_bmap' : forall a, red a -> red (bmap p a).
  Proof.
    induction a as [| |t IHt v f IHf]; cbn [bmap red]; auto.
    intros (Hne & Ht & Hf). split; [intros E; apply Hne; apply bmap_inj'; exact E|]. split; auto.
  Qed.
  (** ordered diagrams: every variable below a test is larger than the tested one *)
  Lemma ord_support : forall a lo x, ord lo a -> In x (support a) -> lo <= x.
  Proof.
    induction a as [| |t IHt v f IHf]; intros lo x H Hx; cbn [support] in Hx; [destruct Hx|destruct Hx|].
    cbn [ord] in H. destruct H as (Hv & Ht & Hf). destruct Hx as [->|Hx]; [exact Hv|].
    apply in_app_or in Hx. destruct Hx as [Hx|Hx]; [pose proof (IHt (S v) x Ht Hx)|pose proof (IHf (S v) x Hf Hx)]; lia.
  Qed.
  Lemma ord_bmap_on : forall a lo lo', ord lo a ->
    (forall x y, In x (support a) -> In y (support a) -> x < y -> p x < p y) ->
    (forall x, In x (support a) -> lo' <= p x) -> ord lo' (bmap p a).
  Proof.
    induction a as [| |t IHt v f IHf]; intros lo lo' Ho Hm Hlo; cbn [bmap ord]; auto.
    cbn [ord] in Ho. destruct Ho as (Hv & Ht & Hf).
    assert (Iv : In v (support (Nd t v f))) by (left; reflexivity).
    assert (It : forall x, In x (support t) -> In x (support (Nd t v f))) by (intros x Hx; right; apply in_or_app; auto).
    assert (If : forall x, In x (support f) -> In x (support (Nd t v f))) by (intros x Hx; right; apply in_or_app; auto).
    split; [apply Hlo; exact Iv|]. split.
    - apply (IHt (S v)); auto.
      intros x Hx. pose proof (ord_support t (S v) x Ht Hx). apply Hm; auto.
    - apply (IHf (S v)); auto.
      intros x Hx. pose proof (ord_support f (S v) x Hf Hx). apply Hm; auto.
  Qed.

  Theorem C11_rank_iso_on n m f b1 b2 : nofsub f ->
    eval_f n f = Some b1 -> eval_f m (rename p f) = Some b2 ->
    (forall x y, In x (support b1) -> In y (support b1) -> x < y -> p x < p y) -> b2 = bmap p b1.
  Proof.
    intros Hns E1 E2 Hm.
    destruct (sound n f b1 (nofsub_wf f Hns) E1) as [_ R1].
    destruct (sound m (rename p f) b2 (nofsub_wf _ (nofsub_rename p f Hns)) E2) as [_ R2].
    assert (R1' : robdd (bmap p b1)).
    { destruct R1 as [Ho Hr]. split; [apply (ord_bmap_on b1 0 0 Ho Hm); intros; lia|apply red_bmap'; exact Hr]. }
    apply (proj2 (robdd_canonical b2 (bmap p b1) R2 R1')).
    intros s. rewrite beval_bmap. exact (C11_rename p q q_p n m f b1 b2 Hns E1 E2 s).
  Qed.
End MonoOn.
Print Assumptions C11_rank_iso_on.
