(** C06 for bodies with inner fixed points.  A formula in which every fixed-point binder (inner ones
    included) binds a name that occurs only positively in its own body - nested and mixed lfp / gfp,
    shadowing, quantifiers and counting inside - is evaluated in finitely many steps ([posfix_total]);
    with [mono_posfix] its meaning is monotone in every positively occurring outer name, so [lfp X # T] /
    [gfp X # T] terminate at the least / greatest fixed point of the body for every such T. *)
From Coq Require Import List Arith Bool PeanoNat ZArith NArith Lia.
Import ListNotations.
From Rsbdd Require Import Core.Bdd Core.Ops Core.OpsFacts Core.Sem Core.Canon Core.Pres.
From Rsbdd Require Import Lang.Ast Lang.AstFacts Lang.Den Lang.DenFacts Lang.Eval Lang.EvalSound Lang.EvalComplete Lang.Free Lang.FSem
  Lang.FixLang Lang.FixFree Lang.Mono.

Lemma forallb_map {A B} (f : A -> B) (p : B -> bool) l : forallb p (map f l) = forallb (fun a => p (f a)) l.
Proof. induction l as [|a l IH]; cbn [map forallb]; [reflexivity|]. rewrite IH. reflexivity. Qed.
Lemma forallb_impl {A} (p q : A -> bool) l : Forall (fun a => p a = true -> q a = true) l -> forallb p l = true -> forallb q l = true.
Proof.
  induction 1 as [|a l Ha _ IH]; cbn [forallb]; [auto|]. intros H. apply andb_true_iff in H. destruct H as [H1 H2].
  rewrite (Ha H1), (IH H2). reflexivity.
Qed.

(** substituting a diagram for a name removes occurrences, so polarities are kept *)
Lemma pos_replace X b : forall t y p, pos y p t = true -> pos y p (replace_var X (FSub b) t) = true.
Proof.
  induction t as [| |v|g IH|q vs g IH|op fs n IH|op l rr IHl IHr|z i g IH|c t e IHc IHt IHe|op l rr IHl IHr|b0|] using form_ind';
    intros y p; cbn [replace_var]; auto.
  - destruct (Nat.eqb v X); auto.
  - cbn [pos]. apply IH.
  - destruct (mem_nat X vs); auto. cbn [pos]. destruct (mem_nat y vs); auto.
  - cbn [pos].
    assert (Hg : forall q0, forallb (pos y q0) fs = true -> forallb (pos y q0) (map (replace_var X (FSub b)) fs) = true).
    { intros q0. rewrite forallb_map. apply forallb_impl. rewrite Forall_forall in *. intros g Hg. apply IH. exact Hg. }
    destruct op; auto. intros H. apply andb_true_iff in H. destruct H as [H1 H2]. rewrite (Hg _ H1), (Hg _ H2). reflexivity.
  - cbn [pos].
    assert (Hl : forall q0, forallb (pos y q0) l = true -> forallb (pos y q0) (map (replace_var X (FSub b)) l) = true).
    { intros q0. rewrite forallb_map. apply forallb_impl. rewrite Forall_forall in *. intros g Hg. apply IHl. exact Hg. }
    assert (Hr : forall q0, forallb (pos y q0) rr = true -> forallb (pos y q0) (map (replace_var X (FSub b)) rr) = true).
    { intros q0. rewrite forallb_map. apply forallb_impl. rewrite Forall_forall in *. intros g Hg. apply IHr. exact Hg. }
    destruct op; intros H; repeat (apply andb_true_iff in H; destruct H as [H ?]);
      repeat (apply andb_true_iff; split); auto.
  - destruct (Nat.eqb z X); auto. cbn [pos]. destruct (Nat.eqb z y); auto.
  - cbn [pos]. intros H. repeat (apply andb_true_iff in H; destruct H as [H ?]).
    repeat (apply andb_true_iff; split); auto.
  - cbn [pos]. destruct op; intros H; repeat (apply andb_true_iff in H; destruct H as [H ?]);
      repeat (apply andb_true_iff; split); auto.
Qed.

Lemma posfix_replace X b : forall t, posfix t = true -> posfix (replace_var X (FSub b) t) = true.
Proof.
  induction t as [| |v|g IH|q vs g IH|op fs n IH|op l rr IHl IHr|z i g IH|c t e IHc IHt IHe|op l rr IHl IHr|b0|] using form_ind';
    cbn [replace_var]; auto.
  - destruct (Nat.eqb v X); auto.
  - destruct (mem_nat X vs); auto.
  - cbn [posfix]. rewrite forallb_map. apply forallb_impl. exact IH.
  - cbn [posfix]. intros H. apply andb_true_iff in H. destruct H as [H1 H2]. apply andb_true_iff. split.
    + rewrite forallb_map. revert H1. apply forallb_impl. exact IHl.
    + rewrite forallb_map. revert H2. apply forallb_impl. exact IHr.
  - destruct (Nat.eqb z X); auto. cbn [posfix]. intros H. apply andb_true_iff in H. destruct H as [H1 H2].
    apply andb_true_iff. split; [apply pos_replace; exact H1|apply IH; exact H2].
  - cbn [posfix]. intros H. repeat (apply andb_true_iff in H; destruct H as [H ?]).
    repeat (apply andb_true_iff; split); auto.
  - cbn [posfix]. intros H. apply andb_true_iff in H. destruct H as [H1 H2]. apply andb_true_iff. split; auto.
Qed.

(** a list of evaluable formulas is evaluable with one common amount of fuel *)
Lemma map_opt_total_ex fs : (forall g, In g fs -> exists n b, eval_f n g = Some b) ->
  exists n bs, forall m, n <= m -> map_opt (eval_f m) fs = Some bs.
Proof.
  induction fs as [|g fs IH]; intros H.
  - exists 0, []. reflexivity.
  - destruct (H g (or_introl eq_refl)) as (n1 & b & Hb).
    destruct IH as (n2 & bs & Hbs); [intros g' Hg'; apply H; right; exact Hg'|].
    exists (max n1 n2), (b :: bs). intros m Hm. cbn [map_opt].
    rewrite (eval_mono_le n1 m g b Hb) by lia. rewrite (Hbs m) by lia. reflexivity.
Qed.

(** evaluation terminates on every formula whose fixed-point binders are all positive *)
Theorem posfix_total : forall k f, size f <= k -> wf f -> posfix f = true -> exists n b, eval_f n f = Some b.
Proof.
  induction k as [|k IHk]; intros f Hsz Hwf Hpf; [pose proof (size_pos f); lia|].
  destruct f as [| |v|g|q vs g|op fs c|op l rr|X i g|c t e|op a b|b0|]; cbn [size] in Hsz; cbn [posfix] in Hpf.
  - exists 1. eexists; reflexivity.
  - exists 1. eexists; reflexivity.
  - exists 1. eexists; reflexivity.
  - destruct (IHk g ltac:(lia) Hwf Hpf) as (n & x & Hx). exists (S n). cbn [eval_f]. rewrite Hx. eexists; reflexivity.
  - destruct (IHk g ltac:(lia) Hwf Hpf) as (n & x & Hx). exists (S n). cbn [eval_f]. rewrite Hx. destruct q; eexists; reflexivity.
  - apply wf_countc, wfs_Forall in Hwf. rewrite Forall_forall in Hwf. rewrite forallb_forall in Hpf.
    destruct (map_opt_total_ex fs) as (n & bs & Hbs).
    { intros g Hg. apply IHk; auto. pose proof (size_in g fs Hg). unfold sizes in *. lia. }
    exists (S n). cbn [eval_f]. rewrite (Hbs n (le_n _)). eexists; reflexivity.
  - apply (proj1 (wf_countv op l rr)) in Hwf. destruct Hwf as [Wl Wr]. apply wfs_Forall in Wl. apply wfs_Forall in Wr.
    rewrite Forall_forall in Wl, Wr. apply andb_true_iff in Hpf. destruct Hpf as [Pl Pr]. rewrite forallb_forall in Pl, Pr.
    destruct (map_opt_total_ex l) as (n1 & xs & Hxs).
    { intros g Hg. apply IHk; auto. pose proof (size_in g l Hg). unfold sizes in *. lia. }
    destruct (map_opt_total_ex rr) as (n2 & ys & Hys).
    { intros g Hg. apply IHk; auto. pose proof (size_in g rr Hg). unfold sizes in *. lia. }
    exists (S (max n1 n2)). cbn [eval_f]. rewrite (Hxs (max n1 n2)) by lia. rewrite (Hys (max n1 n2)) by lia. eexists; reflexivity.
  - (* an inner fixed point: the iteration of FixLang applies, with totality of the body from the induction hypothesis
       and monotonicity from positivity *)
    apply andb_true_iff in Hpf. destruct Hpf as [HposX Hpg]. cbn [wf] in Hwf.
    assert (Htot : forall b, robdd b -> exists n b', eval_f n (replace_var X (FSub b) g) = Some b').
    { intros b Hb. apply IHk.
      - rewrite size_replace. lia.
      - apply wf_replace; auto.
      - apply posfix_replace. exact Hpg. }
    assert (Hmono : forall d1 d2 e1 e2, dle d1 d2 -> Den (bind empty X d1) g e1 -> Den (bind empty X d2) g e2 -> dle e1 e2).
    { intros d1 d2 e1 e2 Hd D1 D2. exact (mono_posfix X g Hpg true HposX empty d1 d2 e1 e2 Hd D1 D2). }
    destruct i.
    + destruct (C06_gfp X g Hwf Htot Hmono) as (n & r & Hr & _). exists n, r. exact Hr.
    + destruct (C06_lfp X g Hwf Htot Hmono) as (n & r & Hr & _). exists n, r. exact Hr.
  - cbn [wf] in Hwf. destruct Hwf as (Wc & Wt & We).
    apply andb_true_iff in Hpf. destruct Hpf as [Hpf Pe]. apply andb_true_iff in Hpf. destruct Hpf as [Pc Pt].
    destruct (IHk c ltac:(lia) Wc Pc) as (n1 & x & Hx). destruct (IHk t ltac:(lia) Wt Pt) as (n2 & y & Hy).
    destruct (IHk e ltac:(lia) We Pe) as (n3 & z & Hz).
    exists (S (max n1 (max n2 n3))). cbn [eval_f].
    rewrite (eval_mono_le n1 _ c x Hx) by lia. rewrite (eval_mono_le n2 _ t y Hy) by lia. rewrite (eval_mono_le n3 _ e z Hz) by lia.
    eexists; reflexivity.
  - cbn [wf] in Hwf. destruct Hwf as (Wa & Wb). apply andb_true_iff in Hpf. destruct Hpf as [Pa Pb].
    destruct (IHk a ltac:(lia) Wa Pa) as (n1 & x & Hx). destruct (IHk b ltac:(lia) Wb Pb) as (n2 & y & Hy).
    exists (S (max n1 n2)). cbn [eval_f].
    rewrite (eval_mono_le n1 _ a x Hx) by lia. rewrite (eval_mono_le n2 _ b y Hy) by lia. eexists; reflexivity.
  - exists 1. eexists; reflexivity.
  - exists 1. eexists; reflexivity.
Qed.

(** C06 for nested and mixed fixed points *)
Theorem C06_lfp_nested X T : nofsub T -> posfix T = true -> pos X true T = true ->
  exists n r, eval_f n (FFix X false T) = Some r /\ robdd r /\ Den (bind empty X (bden r)) T (bden r) /\
    forall d e, Den (bind empty X d) T e -> dle e d -> dle (bden r) d.
Proof.
  intros Hns Hpf Hp. apply C06_lfp.
  - apply nofsub_wf. exact Hns.
  - intros b Hb. apply (posfix_total (size T)).
    + rewrite size_replace. lia.
    + apply wf_replace; auto. apply nofsub_wf. exact Hns.
    + apply posfix_replace. exact Hpf.
  - intros d1 d2 e1 e2 Hd D1 D2. exact (mono_posfix X T Hpf true Hp empty d1 d2 e1 e2 Hd D1 D2).
Qed.
Theorem C06_gfp_nested X T : nofsub T -> posfix T = true -> pos X true T = true ->
  exists n r, eval_f n (FFix X true T) = Some r /\ robdd r /\ Den (bind empty X (bden r)) T (bden r) /\
    forall d e, Den (bind empty X d) T e -> dle d e -> dle d (bden r).
Proof.
  intros Hns Hpf Hp. apply C06_gfp.
  - apply nofsub_wf. exact Hns.
  - intros b Hb. apply (posfix_total (size T)).
    + rewrite size_replace. lia.
    + apply wf_replace; auto. apply nofsub_wf. exact Hns.
    + apply posfix_replace. exact Hpf.
  - intros d1 d2 e1 e2 Hd D1 D2. exact (mono_posfix X T Hpf true Hp empty d1 d2 e1 e2 Hd D1 D2).
Qed.

(** every formula of the positive fragment (no embedded diagram, every binder positive) has a value:
    the whole-formula version used for C01 *)
Corollary posfix_evaluates f : nofsub f -> posfix f = true -> exists n b, eval_f n f = Some b /\ Den empty f (bden b) /\ robdd b.
Proof.
  intros Hns Hpf. destruct (posfix_total (size f) f (le_n _) (nofsub_wf f Hns) Hpf) as (n & b & Hb).
  exists n, b. split; [exact Hb|]. exact (sound n f b (nofsub_wf f Hns) Hb).
Qed.
Print Assumptions C06_lfp_nested.
Print Assumptions posfix_evaluates.
