(** C06 (language level): for a body that is monotone in its bound name, [lfp X # T] is evaluated
    in finitely many steps, to the least fixed point of the body's meaning. *)
From Coq Require Import List Arith Bool PeanoNat ZArith NArith Lia.
Import ListNotations.
From Rsbdd Require Import Core.Bdd Core.Ops Core.OpsFacts Core.Sem Core.Canon Core.Pres Core.Quant Core.Essential Core.Lattice.
From Rsbdd Require Import Lang.Ast Lang.AstFacts Lang.Den Lang.DenFacts Lang.Eval Lang.EvalSound Lang.EvalComplete Lang.Free Lang.FreeGen.

(** Kleene iteration with a fuel-indexed transformer; the result satisfies every inductive
    invariant of the iteration (hence lies below every pre-fixed point). *)
Section Kleene.
  Variable U : list nat.
  Variable t : nat -> bdd -> option bdd.
  Hypothesis t_fuel : forall n m b x, t n b = Some x -> n <= m -> t m b = Some x.
  Hypothesis t_total : forall b, good U b -> exists n b', t n b = Some b' /\ good U b'.
  Hypothesis t_mono : forall n m a b a' b', good U a -> good U b -> ble a b ->
    t n a = Some a' -> t m b = Some b' -> ble a' b'.

  Lemma iterate_up : forall k b, good U b -> (forall n b', t n b = Some b' -> ble b b') ->
    length (all_asgs U) - cntb U b < k ->
    exists n r, fp_opt n b (t n) = Some r /\ good U r /\ t n r = Some r /\
      (forall P : bdd -> Prop, P b -> (forall x m x', good U x -> P x -> t m x = Some x' -> P x') -> P r).
  Proof.
    induction k as [|k IH]; intros b Hb Hup Hk; [lia|].
    destruct (t_total b Hb) as (n0 & b' & Eb & Hb').
    destruct (bdd_eqb_spec b' b) as [E|NE].
    - subst b'. exists (S n0), b. cbn [fp_opt]. rewrite (t_fuel _ (S n0) _ _ Eb) by lia. rewrite bdd_eqb_refl.
      split; [reflexivity|split; [exact Hb|split; [reflexivity|intros P Pb _; exact Pb]]].
    - assert (Hlt : cntb U b < cntb U b').
      { apply cntb_strict; try apply Hb; try apply Hb'; auto; eapply Hup; eauto. }
      pose proof (cntb_bound U b').
      destruct (IH b' Hb') as (n1 & r & Hn & Hr & Hfix & Hinv).
      + intros m b'' Eb''. eapply (t_mono n0 m b b'); eauto; eapply Hup; eauto.
      + lia.
      + exists (S (max n0 n1)), r.
        assert (Eb2 : t (S (max n0 n1)) b = Some b') by (apply (t_fuel _ _ _ _ Eb); lia).
        split; [|split; [exact Hr|split]].
        * cbn [fp_opt]. rewrite Eb2. destruct (bdd_eqb_spec b' b); [contradiction|].
          eapply fp_opt_mono_le; [| |exact Hn]; [lia|]. intros x y Hxy. apply (t_fuel _ _ _ _ Hxy). lia.
        * apply (t_fuel _ _ _ _ Hfix). lia.
        * intros P Pb Pstep. apply Hinv; [apply (Pstep b n0 b' Hb Pb Eb)|exact Pstep].
  Qed.

  Theorem lfp_iterates :
    exists n r, fp_opt n F (t n) = Some r /\ good U r /\ t n r = Some r /\
      (forall P : bdd -> Prop, P F -> (forall x m x', good U x -> P x -> t m x = Some x' -> P x') -> P r).
  Proof.
    assert (HF : good U F) by (split; [split; cbn; auto|intros x []]).
    apply (iterate_up (S (length (all_asgs U))) F HF).
    - intros n b' _ s Hs. discriminate.
    - lia.
  Qed.
End Kleene.

(** pointwise order on denotations *)
Definition dle (d e : den) : Prop := forall s, d s = true -> e s = true.

(** the free variables of the body other than the bound name, as a list *)
Fixpoint all_vars (f : form) : list nat :=
  match f with
  | FVar v => [v]
  | FNot g | FQuant _ _ g | FFix _ _ g => all_vars g
  | FCountC _ fs _ => flat_map all_vars fs
  | FCountV _ l r => flat_map all_vars l ++ flat_map all_vars r
  | FIte a b c => all_vars a ++ all_vars b ++ all_vars c
  | FBin _ a b => all_vars a ++ all_vars b
  | _ => []
  end.

Lemma vocc_all_vars : forall f x, vocc f x = true -> In x (all_vars f).
Proof.
  induction f as [| |v|g IH|q vs g IH|op fs n IH|op l rr IHl IHr|z i g IH|c t e IHc IHt IHe|op l rr IHl IHr|b0|] using form_ind';
    intros x; cbn [vocc all_vars]; try discriminate; auto.
  - intros H. apply Nat.eqb_eq in H. left. exact H.
  - destruct (negb (mem_nat x vs)); [auto|discriminate].
  - rewrite existsb_exists. intros (g & Hg & Hv). apply in_flat_map. exists g. split; auto.
    rewrite Forall_forall in IH. apply IH; auto.
  - rewrite orb_true_iff, !existsb_exists. rewrite !Forall_forall in *.
    intros [(g & Hg & Hv)|(g & Hg & Hv)]; apply in_or_app; [left|right]; apply in_flat_map; exists g; split; auto.
  - rewrite andb_true_iff. intros [_ H]. auto.
  - rewrite !orb_true_iff. intros [[H|H]|H]; apply in_or_app; auto; right; apply in_or_app; auto.
  - rewrite !orb_true_iff. intros [H|H]; apply in_or_app; auto.
Qed.

Lemma nofsub_submentions : forall f x, nofsub f -> submentions f x = false.
Proof.
  induction f as [| |v|g IH|q vs g IH|op fs n IH|op l rr IHl IHr|z i g IH|c t e IHc IHt IHe|op l rr IHl IHr|b0|] using form_ind';
    intros x; cbn [nofsub submentions]; auto.
  - intros H. apply nofsub_list in H. rewrite Forall_forall in *.
    destruct (existsb _ fs) eqn:E; auto. apply existsb_exists in E. destruct E as (g & Hg & Hs). rewrite (IH g Hg x (H g Hg)) in Hs. discriminate.
  - intros [H1 H2]. apply nofsub_list in H1. apply nofsub_list in H2. rewrite !Forall_forall in *.
    apply orb_false_iff. split.
    + destruct (existsb _ l) eqn:E; auto. apply existsb_exists in E. destruct E as (g & Hg & Hs). rewrite (IHl g Hg x (H1 g Hg)) in Hs. discriminate.
    + destruct (existsb _ rr) eqn:E; auto. apply existsb_exists in E. destruct E as (g & Hg & Hs). rewrite (IHr g Hg x (H2 g Hg)) in Hs. discriminate.
  - intros (H1 & H2 & H3). rewrite (IHc x H1), (IHt x H2), (IHe x H3). reflexivity.
  - intros (H1 & H2). rewrite (IHl x H1), (IHr x H2). reflexivity.
  - intros [].
Qed.

(** variables mentioned by embedded diagrams *)
Fixpoint sub_vars (f : form) : list nat :=
  match f with
  | FSub b => support b
  | FNot g | FQuant _ _ g | FFix _ _ g => sub_vars g
  | FCountC _ fs _ => flat_map sub_vars fs
  | FCountV _ l r => flat_map sub_vars l ++ flat_map sub_vars r
  | FIte a b c => sub_vars a ++ sub_vars b ++ sub_vars c
  | FBin _ a b => sub_vars a ++ sub_vars b
  | _ => []
  end.
Lemma submentions_sub_vars : forall f x, submentions f x = true -> In x (sub_vars f).
Proof.
  induction f as [| |v|g IH|q vs g IH|op fs n IH|op l rr IHl IHr|z i g IH|c t e IHc IHt IHe|op l rr IHl IHr|b0|] using form_ind';
    intros x; cbn [submentions sub_vars]; try discriminate; auto.
  - rewrite existsb_exists. intros (g & Hg & Hv). apply in_flat_map. exists g. split; auto.
    rewrite Forall_forall in IH. apply IH; auto.
  - rewrite orb_true_iff, !existsb_exists. rewrite !Forall_forall in *.
    intros [(g & Hg & Hv)|(g & Hg & Hv)]; apply in_or_app; [left|right]; apply in_flat_map; exists g; split; auto.
  - rewrite !orb_true_iff. intros [[H|H]|H]; apply in_or_app; auto; right; apply in_or_app; auto.
  - rewrite !orb_true_iff. intros [H|H]; apply in_or_app; auto.
  - intros H. apply mem_nat_In. exact H.
Qed.

Section LFP.
  Variable X : nat.
  Variable T : form.
  (** the body may contain embedded diagrams (it does when an enclosing fixed point is being iterated) *)
  Hypothesis T_wf : wf T.
  (** the body can be evaluated on every diagram (true for fixed-point-free bodies, and for bodies
      whose inner fixed points are themselves monotone) *)
  Hypothesis T_total : forall b, robdd b -> exists n b', eval_f n (replace_var X (FSub b) T) = Some b'.
  (** the body is monotone in X *)
  Hypothesis T_mono : forall d1 d2 e1 e2, dle d1 d2 ->
    Den (bind empty X d1) T e1 -> Den (bind empty X d2) T e2 -> dle e1 e2.

  Definition U := all_vars T ++ sub_vars T.
  Definition tr (n : nat) (b : bdd) : option bdd := eval_f n (replace_var X (FSub b) T).

  Lemma tr_good n b b' : good U b -> tr n b = Some b' -> good U b'.
  Proof.
    intros [Hr Hs] He. unfold tr in He.
    assert (Hwf : wf (replace_var X (FSub b) T)) by (apply wf_replace; auto).
    split; [apply (sound _ _ _ Hwf He)|].
    intros x Hx. destruct (eval_support _ _ _ Hwf He x Hx) as [H|H].
    - apply vocc_replace in H. destruct H as [H _]. apply in_or_app. left. apply vocc_all_vars. exact H.
    - apply submentions_replace in H. destruct H as [H|H]; [|apply Hs; exact H].
      apply in_or_app. right. apply submentions_sub_vars. exact H.
  Qed.

  Lemma tr_den n b b' : robdd b -> tr n b = Some b' -> Den (bind empty X (bden b)) T (bden b').
  Proof.
    intros Hr He. unfold tr in He.
    assert (Hwf : wf (replace_var X (FSub b) T)) by (apply wf_replace; auto).
    apply subst_den. apply (sound _ _ _ Hwf He).
  Qed.

  Theorem C06_lfp :
    exists n r, eval_f n (FFix X false T) = Some r /\ robdd r /\
      Den (bind empty X (bden r)) T (bden r) /\                                   (* a fixed point of the body *)
      forall d e, Den (bind empty X d) T e -> dle e d -> dle (bden r) d.           (* below every pre-fixed point *)
  Proof.
    destruct (lfp_iterates U tr) as (n & r & Hn & Hr & Hfix & Hinv).
    - intros n m b x H Hle. unfold tr in *. eapply eval_mono_le; eauto.
    - intros b Hb. destruct (T_total b (proj1 Hb)) as (n & b' & He). exists n, b'. split; auto. eapply tr_good; eauto.
    - intros n m a b a' b' Ha Hb Hab Ea Eb.
      pose proof (tr_den n a a' (proj1 Ha) Ea) as Da. pose proof (tr_den m b b' (proj1 Hb) Eb) as Db.
      intros s. apply (T_mono (bden a) (bden b) (bden a') (bden b')); auto.
    - exists (S n), r. split; [|split; [apply Hr|split]].
      + cbn [eval_f bconst].
        eapply fp_opt_mono_le; [| |exact Hn]; [lia|]. intros x y Hxy. exact Hxy.
      + apply (tr_den n r r (proj1 Hr) Hfix).
      + intros d e HD Hpre. apply (Hinv (fun x => dle (bden x) d)).
        * intros s Hs. discriminate.
        * intros x m x' Hx Px Ex. pose proof (tr_den m x x' (proj1 Hx) Ex) as Dx.
          intros s Hs. apply Hpre. apply (T_mono (bden x) d (bden x') e Px Dx HD s Hs).
  Qed.
End LFP.

(** ---- the dual: greatest fixed points, iterating downwards from [T] ---- *)
Section KleeneDown.
  Variable U : list nat.
  Variable t : nat -> bdd -> option bdd.
  Hypothesis t_fuel : forall n m b x, t n b = Some x -> n <= m -> t m b = Some x.
  Hypothesis t_total : forall b, good U b -> exists n b', t n b = Some b' /\ good U b'.
  Hypothesis t_mono : forall n m a b a' b', good U a -> good U b -> ble a b ->
    t n a = Some a' -> t m b = Some b' -> ble a' b'.

  Lemma iterate_down : forall k b, good U b -> (forall n b', t n b = Some b' -> ble b' b) ->
    cntb U b < k ->
    exists n r, fp_opt n b (t n) = Some r /\ good U r /\ t n r = Some r /\
      (forall P : bdd -> Prop, P b -> (forall x m x', good U x -> P x -> t m x = Some x' -> P x') -> P r).
  Proof.
    induction k as [|k IH]; intros b Hb Hdown Hk; [lia|].
    destruct (t_total b Hb) as (n0 & b' & Eb & Hb').
    destruct (bdd_eqb_spec b' b) as [E|NE].
    - subst b'. exists (S n0), b. cbn [fp_opt]. rewrite (t_fuel _ (S n0) _ _ Eb) by lia. rewrite bdd_eqb_refl.
      split; [reflexivity|split; [exact Hb|split; [reflexivity|intros P Pb _; exact Pb]]].
    - assert (Hlt : cntb U b' < cntb U b).
      { apply cntb_strict; try apply Hb; try apply Hb'; auto; eapply Hdown; eauto. }
      destruct (IH b' Hb') as (n1 & r & Hn & Hr & Hfix & Hinv).
      + intros m b'' Eb''. eapply (t_mono m n0 b' b); eauto; eapply Hdown; eauto.
      + lia.
      + exists (S (max n0 n1)), r.
        assert (Eb2 : t (S (max n0 n1)) b = Some b') by (apply (t_fuel _ _ _ _ Eb); lia).
        split; [|split; [exact Hr|split]].
        * cbn [fp_opt]. rewrite Eb2. destruct (bdd_eqb_spec b' b); [contradiction|].
          eapply fp_opt_mono_le; [| |exact Hn]; [lia|]. intros x y Hxy. apply (t_fuel _ _ _ _ Hxy). lia.
        * apply (t_fuel _ _ _ _ Hfix). lia.
        * intros P Pb Pstep. apply Hinv; [apply (Pstep b n0 b' Hb Pb Eb)|exact Pstep].
  Qed.

  Theorem gfp_iterates :
    exists n r, fp_opt n T (t n) = Some r /\ good U r /\ t n r = Some r /\
      (forall P : bdd -> Prop, P T -> (forall x m x', good U x -> P x -> t m x = Some x' -> P x') -> P r).
  Proof.
    assert (HT : good U T) by (split; [split; cbn; auto|intros x []]).
    apply (iterate_down (S (cntb U T)) T HT).
    - intros n b' _ s _. reflexivity.
    - lia.
  Qed.
End KleeneDown.

Section GFP.
  Variable X : nat.
  Variable T0 : form.
  Hypothesis T_wf : wf T0.
  Hypothesis T_total : forall b, robdd b -> exists n b', eval_f n (replace_var X (FSub b) T0) = Some b'.
  Hypothesis T_mono : forall d1 d2 e1 e2, dle d1 d2 ->
    Den (bind empty X d1) T0 e1 -> Den (bind empty X d2) T0 e2 -> dle e1 e2.

  Theorem C06_gfp :
    exists n r, eval_f n (FFix X true T0) = Some r /\ robdd r /\
      Den (bind empty X (bden r)) T0 (bden r) /\                                  (* a fixed point of the body *)
      forall d e, Den (bind empty X d) T0 e -> dle d e -> dle d (bden r).          (* above every post-fixed point *)
  Proof.
    destruct (gfp_iterates (U T0) (tr X T0)) as (n & r & Hn & Hr & Hfix & Hinv).
    - intros n m b x H Hle. unfold tr in *. eapply eval_mono_le; eauto.
    - intros b Hb. destruct (T_total b (proj1 Hb)) as (n & b' & He). exists n, b'. split; auto. eapply tr_good; eauto.
    - intros n m a b a' b' Ha Hb Hab Ea Eb.
      pose proof (tr_den X T0 T_wf n a a' (proj1 Ha) Ea) as Da. pose proof (tr_den X T0 T_wf m b b' (proj1 Hb) Eb) as Db.
      intros s. apply (T_mono (bden a) (bden b) (bden a') (bden b')); auto.
    - exists (S n), r. split; [|split; [apply Hr|split]].
      + cbn [eval_f bconst].
        eapply fp_opt_mono_le; [| |exact Hn]; [lia|]. intros x y Hxy. exact Hxy.
      + apply (tr_den X T0 T_wf n r r (proj1 Hr) Hfix).
      + intros d e HD Hpost. apply (Hinv (fun x => dle d (bden x))).
        * intros s _. reflexivity.
        * intros x m x' Hx Px Ex. pose proof (tr_den X T0 T_wf m x x' (proj1 Hx) Ex) as Dx.
          intros s Hs. apply (T_mono d (bden x) e (bden x') Px HD Dx s). apply Hpost. exact Hs.
  Qed.
End GFP.
Print Assumptions C06_lfp.
Print Assumptions C06_gfp.
