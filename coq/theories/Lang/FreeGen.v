(** C09/C06 support: the general form of semantic independence, for formulas that embed diagrams
    (the iterates substituted during fixed-point evaluation). *)
From Coq Require Import List Arith Bool PeanoNat ZArith NArith Lia.
Import ListNotations.
From Rsbdd Require Import Core.Bdd Core.Ops Core.OpsFacts Core.Sem Core.Canon Core.Pres Core.Quant Core.Essential.
From Rsbdd Require Import Lang.Ast Lang.AstFacts Lang.Den Lang.DenFacts Lang.Eval Lang.EvalSound Lang.Free.

(** variable occurrences not under a binder of the same name; embedded diagrams do not count *)
Fixpoint vocc (f : form) (x : nat) : bool :=
  match f with
  | FVar v => Nat.eqb v x
  | FQuant _ vs g => if negb (mem_nat x vs) then vocc g x else false
  | FIte a b c => vocc a x || vocc b x || vocc c x
  | FNot g => vocc g x
  | FBin _ a b => vocc a x || vocc b x
  | FCountC _ fs _ => existsb (fun g => vocc g x) fs
  | FCountV _ l r => existsb (fun g => vocc g x) l || existsb (fun g => vocc g x) r
  | FFix v _ g => negb (Nat.eqb v x) && vocc g x
  | _ => false
  end.
(** some embedded diagram mentions x (binders ignored: a conservative over-approximation) *)
Fixpoint submentions (f : form) (x : nat) : bool :=
  match f with
  | FSub b => mem_nat x (support b)
  | FNot g | FQuant _ _ g | FFix _ _ g => submentions g x
  | FCountC _ fs _ => existsb (fun g => submentions g x) fs
  | FCountV _ l r => existsb (fun g => submentions g x) l || existsb (fun g => submentions g x) r
  | FIte a b c => submentions a x || submentions b x || submentions c x
  | FBin _ a b => submentions a x || submentions b x
  | _ => false
  end.

Lemma existsb_false_Forall {A} (p : A -> bool) l : existsb p l = false -> Forall (fun a => p a = false) l.
Proof. induction l as [|a l IH]; cbn [existsb]; [constructor|]. intros H. apply orb_false_iff in H. destruct H. constructor; auto. Qed.

Lemma Den_indep_gen : forall f r d x, submentions f x = false -> env_respects r -> env_indep r x ->
  (vocc f x = true -> exists e, r x = Some e) -> Den r f d -> indep d x.
Proof.
  induction f as [| |v|g IH|q vs g IH|op fs n IH|op l rr IHl IHr|y i g IH|c t e IHc IHt IHe|op l rr IHl IHr|b0|] using form_ind';
    intros r d x Hns Hr Hi Hfv; cbn [submentions] in Hns.
  - cbn [Den]. intros H. apply (indep_deq _ _ _ (deq_sym _ _ H)). intros s v. reflexivity.
  - cbn [Den]. intros H. apply (indep_deq _ _ _ (deq_sym _ _ H)). intros s v. reflexivity.
  - cbn [Den]. intros H. apply (indep_deq _ _ _ (deq_sym _ _ H)). cbn [vocc] in Hfv.
    destruct (r v) as [e|] eqn:E; [apply (Hi v e E)|].
    intros s c. apply upd_other. intros ->. destruct (Hfv (Nat.eqb_refl _)) as (e & He). congruence.
  - cbn [Den]. intros (d1 & H1 & H2). apply (indep_deq _ _ _ (deq_sym _ _ H2)).
    intros s v. rewrite (IH _ _ x Hns Hr Hi Hfv H1 s v). reflexivity.
  - cbn [Den]. intros (d1 & H1 & H2). apply (indep_deq _ _ _ (deq_sym _ _ H2)).
    assert (Hr' : env_respects (unbind r vs)).
    { intros z e Hz. unfold unbind in Hz. destruct (mem_nat z vs); [discriminate|]. apply (Hr z e Hz). }
    apply fold_quant_indep; [apply (Den_respects g _ _ Hr' H1)|].
    destruct (mem_nat x vs) eqn:E; [left; apply mem_nat_In; exact E|right].
    apply (IH (unbind r vs) d1 x); auto.
    + intros z e Hz. unfold unbind in Hz. destruct (mem_nat z vs); [discriminate|]. apply (Hi z e Hz).
    + intros Hg. cbn [vocc] in Hfv. rewrite E in Hfv. cbn [negb] in Hfv. destruct (Hfv Hg) as (e & He).
      exists e. unfold unbind. rewrite E. exact He.
  - rewrite Den_countc. intros (ds & H1 & H2). apply (indep_deq _ _ _ (deq_sym _ _ H2)).
    assert (HF : Forall (fun d => indep d x) ds).
    { rewrite Dens_Forall2 in H1. clear H2. cbn [vocc] in Hfv. apply existsb_false_Forall in Hns.
      induction H1 as [|g e fs' ds' Hg Hrr IH']; constructor.
      - inversion IH; subst. inversion Hns; subst. eapply H1; eauto. intros Hg'. apply Hfv. cbn [existsb]. rewrite Hg'. reflexivity.
      - apply IH'; [inversion IH; auto|inversion Hns; auto|]. intros Hg'. apply Hfv. cbn [existsb]. rewrite Hg'. apply orb_true_r. }
    intros s v. rewrite (count_den_indep ds x HF s v). reflexivity.
  - rewrite Den_countv. intros (dl & dr & H1 & H2 & H3). apply (indep_deq _ _ _ (deq_sym _ _ H3)). cbn [vocc] in Hfv.
    apply orb_false_iff in Hns. destruct Hns as [Nl Nr]. apply existsb_false_Forall in Nl. apply existsb_false_Forall in Nr.
    assert (HFl : Forall (fun d => indep d x) dl).
    { rewrite Dens_Forall2 in H1. clear H2 H3.
      assert (Hfv' : existsb (fun g => vocc g x) l = true -> exists e, r x = Some e) by (intros E; apply Hfv; rewrite E; reflexivity).
      clear Hfv. induction H1 as [|g e fs' ds' Hg Hrr IH']; constructor.
      - inversion IHl; subst. inversion Nl; subst. eapply H1; eauto. intros Hg'. apply Hfv'. cbn [existsb]. rewrite Hg'. reflexivity.
      - apply IH'; [inversion IHl; auto|inversion Nl; auto|]. intros Hg'. apply Hfv'. cbn [existsb]. rewrite Hg'. apply orb_true_r. }
    assert (HFr : Forall (fun d => indep d x) dr).
    { rewrite Dens_Forall2 in H2. clear H1 H3.
      assert (Hfv' : existsb (fun g => vocc g x) rr = true -> exists e, r x = Some e) by (intros E; apply Hfv; rewrite E; apply orb_true_r).
      clear Hfv. induction H2 as [|g e fs' ds' Hg Hrr IH']; constructor.
      - inversion IHr; subst. inversion Nr; subst. eapply H1; eauto. intros Hg'. apply Hfv'. cbn [existsb]. rewrite Hg'. reflexivity.
      - apply IH'; [inversion IHr; auto|inversion Nr; auto|]. intros Hg'. apply Hfv'. cbn [existsb]. rewrite Hg'. apply orb_true_r. }
    intros s v. rewrite (count_den_indep dl x HFl s v), (count_den_indep dr x HFr s v). reflexivity.
  - cbn [Den]. intros (seq & n & H0 & Hs & Hne & Hst & Hd). apply (indep_deq _ _ _ (deq_sym _ _ Hd)).
    assert (Hall : forall j, j <= S n -> indep (seq j) x /\ respects (seq j)).
    { induction j as [|j IHj]; intros Hj.
      - split; [apply (indep_deq _ _ _ (deq_sym _ _ H0)); intros s v; reflexivity|].
        apply (respects_deq _ _ (deq_sym _ _ H0)). intros s s' _. reflexivity.
      - destruct IHj as [Ij Rj]; [lia|].
        assert (Hr' : env_respects (bind r y (seq j))).
        { intros z e Hz. unfold bind in Hz. destruct (Nat.eqb z y); [inversion Hz; subst; auto|apply (Hr z e Hz)]. }
        split; [|apply (Den_respects g _ _ Hr' (Hs j ltac:(lia)))].
        apply (IH (bind r y (seq j)) (seq (S j)) x); auto; [| |apply Hs; lia].
        + intros z e Hz. unfold bind in Hz. destruct (Nat.eqb z y); [inversion Hz; subst; auto|apply (Hi z e Hz)].
        + intros Hg. unfold bind. destruct (Nat.eqb_spec x y) as [->|Hxy]; [eexists; reflexivity|].
          apply Hfv. cbn [vocc]. rewrite Hg. destruct (Nat.eqb_spec y x); [congruence|reflexivity]. }
    apply Hall. lia.
  - cbn [Den]. intros (dc & dt & de & H1 & H2 & H3 & H4). apply (indep_deq _ _ _ (deq_sym _ _ H4)). cbn [vocc] in Hfv.
    apply orb_false_iff in Hns. destruct Hns as [Hns N3]. apply orb_false_iff in Hns. destruct Hns as [N1 N2]. intros s v.
    rewrite (IHc _ _ x N1 Hr Hi ltac:(intros E; apply Hfv; rewrite E; reflexivity) H1 s v).
    rewrite (IHt _ _ x N2 Hr Hi ltac:(intros E; apply Hfv; rewrite E, orb_true_r; reflexivity) H2 s v).
    rewrite (IHe _ _ x N3 Hr Hi ltac:(intros E; apply Hfv; rewrite E, orb_true_r; reflexivity) H3 s v). reflexivity.
  - cbn [Den]. intros (d1 & d2 & H1 & H2 & H3). apply (indep_deq _ _ _ (deq_sym _ _ H3)). cbn [vocc] in Hfv.
    apply orb_false_iff in Hns. destruct Hns as [N1 N2]. intros s v.
    rewrite (IHl _ _ x N1 Hr Hi ltac:(intros E; apply Hfv; rewrite E; reflexivity) H1 s v).
    rewrite (IHr _ _ x N2 Hr Hi ltac:(intros E; apply Hfv; rewrite E, orb_true_r; reflexivity) H2 s v). reflexivity.
  - cbn [Den]. intros H. apply (indep_deq _ _ _ (deq_sym _ _ H)).
    intros s v. apply beval_agree_support. intros z Hz. apply upd_other. intros ->.
    apply (proj2 (mem_nat_In _ _)) in Hz. congruence.
  - cbn [Den]. intros H. apply (indep_deq _ _ _ (deq_sym _ _ H)). intros s v. reflexivity.
Qed.


Theorem eval_support n f b : wf f -> eval_f n f = Some b ->
  forall x, In x (support b) -> vocc f x = true \/ submentions f x = true.
Proof.
  intros Hwf He x Hx. destruct (vocc f x) eqn:E1; auto. destruct (submentions f x) eqn:E2; auto. exfalso.
  destruct (sound n f b Hwf He) as [HD Hrb].
  assert (Hind : indep (bden b) x).
  { apply (Den_indep_gen f empty (bden b) x E2); auto.
    - intros y e Hy. discriminate. - intros y e Hy. discriminate. - rewrite E1. discriminate. }
  apply (independent_not_in_support b x Hrb); auto.
  intros s. unfold bden, indep in Hind. rewrite (Hind s true), (Hind s false). reflexivity.
Qed.

Lemma existsb_map {A B} (p : B -> bool) (g : A -> B) l : existsb p (map g l) = existsb (fun a => p (g a)) l.
Proof. induction l as [|a l IH]; cbn [map existsb]; auto. rewrite IH. reflexivity. Qed.

Lemma existsb_impl {A} (p q : A -> bool) l : Forall (fun a => p a = true -> q a = true) l -> existsb p l = true -> existsb q l = true.
Proof.
  induction 1 as [|a l Ha Hl IH]; cbn [existsb]; auto. rewrite !orb_true_iff. intros [H|H]; auto.
Qed.

Lemma vocc_replace X b : forall t y, vocc (replace_var X (FSub b) t) y = true -> vocc t y = true /\ y <> X.
Proof.
  induction t as [| |v|g IH|q vs g IH|op fs n IH|op l rr IHl IHr|z i g IH|c t e IHc IHt IHe|op l rr IHl IHr|b0|] using form_ind';
    intros y; cbn [replace_var vocc]; try discriminate.
  - destruct (Nat.eqb_spec v X) as [->|Hne]; cbn [vocc]; [discriminate|].
    intros H. split; auto. apply Nat.eqb_eq in H. congruence.
  - apply IH.
  - destruct (mem_nat X vs) eqn:EX; cbn [vocc].
    + destruct (mem_nat y vs) eqn:Ey; cbn [negb]; [discriminate|]. intros H. split; auto. intros ->. congruence.
    + destruct (mem_nat y vs) eqn:Ey; cbn [negb]; [discriminate|]. apply IH.
  - rewrite existsb_map. intros H.
    assert (Hex : existsb (fun g => vocc g y) fs = true /\ y <> X).
    { clear - IH H. induction IH as [|g fs Hg Hfs IH']; cbn [existsb] in *; [discriminate|].
      apply orb_true_iff in H. destruct H as [H|H].
      - destruct (Hg y H) as [H1 H2]. rewrite H1. auto.
      - destruct (IH' H) as [H1 H2]. rewrite H1, orb_true_r. auto. }
    exact Hex.
  - rewrite !existsb_map. intros H. apply orb_true_iff in H.
    assert (Hgen : forall l, Forall (fun t => forall y, vocc (replace_var X (FSub b) t) y = true -> vocc t y = true /\ y <> X) l ->
             existsb (fun a => vocc (replace_var X (FSub b) a) y) l = true -> existsb (fun g => vocc g y) l = true /\ y <> X).
    { clear. intros l IH H. induction IH as [|g fs Hg Hfs IH']; cbn [existsb] in *; [discriminate|].
      apply orb_true_iff in H. destruct H as [H|H].
      - destruct (Hg y H) as [H1 H2]. rewrite H1. auto.
      - destruct (IH' H) as [H1 H2]. rewrite H1, orb_true_r. auto. }
    destruct H as [H|H]; [destruct (Hgen l IHl H) as [H1 H2]|destruct (Hgen rr IHr H) as [H1 H2]]; rewrite H1, ?orb_true_r; auto.
  - destruct (Nat.eqb_spec z X) as [->|Hne]; cbn [vocc].
    + intros H. split; [exact H|]. apply andb_true_iff in H. destruct H as [H1 _].
      intros ->. rewrite Nat.eqb_refl in H1. discriminate.
    + rewrite !andb_true_iff. intros [H1 H2]. destruct (IH y H2). auto.
  - rewrite !orb_true_iff. intros [[H|H]|H]; [destruct (IHc y H)|destruct (IHt y H)|destruct (IHe y H)]; auto.
  - rewrite !orb_true_iff. intros [H|H]; [destruct (IHl y H)|destruct (IHr y H)]; auto.
Qed.

Lemma submentions_replace X b : forall t y, submentions (replace_var X (FSub b) t) y = true ->
  submentions t y = true \/ In y (support b).
Proof.
  induction t as [| |v|g IH|q vs g IH|op fs n IH|op l rr IHl IHr|z i g IH|c t e IHc IHt IHe|op l rr IHl IHr|b0|] using form_ind';
    intros y; cbn [replace_var submentions]; try discriminate; auto.
  - destruct (Nat.eqb v X); cbn [submentions]; [|discriminate]. intros H. right. apply mem_nat_In. exact H.
  - destruct (mem_nat X vs); cbn [submentions]; auto.
  - rewrite existsb_map. intros H.
    clear - IH H. induction IH as [|g fs Hg Hfs IH']; cbn [existsb] in *; [discriminate|].
    apply orb_true_iff in H. destruct H as [H|H].
    + destruct (Hg y H) as [H1|H1]; auto. rewrite H1. auto.
    + destruct (IH' H) as [H1|H1]; auto. rewrite H1, orb_true_r. auto.
  - rewrite !existsb_map. intros H. apply orb_true_iff in H.
    assert (Hgen : forall l, Forall (fun t => forall y, submentions (replace_var X (FSub b) t) y = true -> submentions t y = true \/ In y (support b)) l ->
             existsb (fun a => submentions (replace_var X (FSub b) a) y) l = true -> existsb (fun g => submentions g y) l = true \/ In y (support b)).
    { clear. intros l IH H. induction IH as [|g fs Hg Hfs IH']; cbn [existsb] in *; [discriminate|].
      apply orb_true_iff in H. destruct H as [H|H].
      - destruct (Hg y H) as [H1|H1]; auto. rewrite H1. auto.
      - destruct (IH' H) as [H1|H1]; auto. rewrite H1, orb_true_r. auto. }
    destruct H as [H|H]; [destruct (Hgen l IHl H) as [H1|H1]|destruct (Hgen rr IHr H) as [H1|H1]]; auto; rewrite H1, ?orb_true_r; auto.
  - destruct (Nat.eqb z X); cbn [submentions]; auto.
  - rewrite !orb_true_iff. intros [[H|H]|H]; [destruct (IHc y H)|destruct (IHt y H)|destruct (IHe y H)]; auto.
  - rewrite !orb_true_iff. intros [H|H]; [destruct (IHl y H)|destruct (IHr y H)]; auto.
Qed.
Print Assumptions eval_support.
