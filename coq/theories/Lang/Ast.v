(** L2: syntax trees of the rsbdd language ([SymbolicBDD], src/parser.rs:58-100) and the
    syntactic operations of [ParsedFormula].  Definitions only. *)
From Coq Require Import List Arith Bool PeanoNat NArith.
Import ListNotations.
From Rsbdd Require Import Core.Bdd.

Inductive binop : Type := BAnd | BOr | BXor | BNor | BNand | BImplies | BImpliesInv | BIff.
Inductive cop : Type := AtMost | LessThan | AtLeast | MoreThan | Exactly.
Inductive quant : Type := QExists | QForall.

Inductive form : Type :=
| FFalse
| FTrue
| FVar (v : nat)
| FNot (f : form)
| FQuant (q : quant) (vs : list nat) (f : form)
| FCountC (op : cop) (fs : list form) (n : N)          (* CountableConst; n is the usize literal *)
| FCountV (op : cop) (l r : list form)                  (* CountableVariable *)
| FFix (v : nat) (init : bool) (f : form)               (* FixedPoint: gfp = true, lfp = false *)
| FIte (c t e : form)
| FBin (op : binop) (l r : form)
| FSub (b : bdd)                                        (* Subtree: an already evaluated diagram *)
| FRef.                                                 (* Reference: never defined by the CLI *)

Definition mem_nat (x : nat) (l : list nat) : bool := existsb (Nat.eqb x) l.

(** [replace_var] (parser.rs:140-215) *)
Fixpoint replace_var (x : nat) (r : form) (f : form) : form :=
  match f with
  | FVar v => if Nat.eqb v x then r else f
  | FQuant q vs g => if mem_nat x vs then f else FQuant q vs (replace_var x r g)
  | FFix v i g => if Nat.eqb v x then f else FFix v i (replace_var x r g)
  | FIte a b c => FIte (replace_var x r a) (replace_var x r b) (replace_var x r c)
  | FNot g => FNot (replace_var x r g)
  | FBin op a b => FBin op (replace_var x r a) (replace_var x r b)
  | FCountC op fs n => FCountC op (map (replace_var x r) fs) n
  | FCountV op l rr => FCountV op (map (replace_var x r) l) (map (replace_var x r) rr)
  | FRef | FTrue | FFalse | FSub _ => f
  end.

(** [var_is_free] (parser.rs:282-316); [FSub] is [unimplemented!] in the source and never reached *)
Fixpoint var_is_free (f : form) (x : nat) : bool :=
  match f with
  | FVar v => Nat.eqb v x
  | FQuant _ vs g => if negb (mem_nat x vs) then var_is_free g x else false
  | FIte a b c => var_is_free a x || var_is_free b x || var_is_free c x
  | FNot g => var_is_free g x
  | FBin _ a b => var_is_free a x || var_is_free b x
  | FCountC _ fs _ => existsb (fun g => var_is_free g x) fs
  | FCountV _ l r => existsb (fun g => var_is_free g x) l || existsb (fun g => var_is_free g x) r
  | FFix v _ g => negb (Nat.eqb v x) && var_is_free g x
  | FSub _ => false
  | FTrue | FFalse => false
  | FRef => true
  end.

Fixpoint size (f : form) : nat :=
  match f with
  | FNot g => S (size g)
  | FQuant _ _ g => S (size g)
  | FCountC _ fs _ => S (fold_right (fun g acc => size g + acc) 0 fs)
  | FCountV _ l r => S (fold_right (fun g acc => size g + acc) 0 l + fold_right (fun g acc => size g + acc) 0 r)
  | FFix _ _ g => S (size g)
  | FIte a b c => S (size a + size b + size c)
  | FBin _ a b => S (size a + size b)
  | _ => 1
  end.

(** every embedded diagram is reduced and ordered *)
Fixpoint wf (f : form) : Prop :=
  match f with
  | FSub b => robdd b
  | FNot g => wf g
  | FQuant _ _ g => wf g
  | FCountC _ fs _ => (fix wfs (l : list form) : Prop := match l with [] => True | g :: r => wf g /\ wfs r end) fs
  | FCountV _ l r =>
      (fix wfs (l : list form) : Prop := match l with [] => True | g :: r => wf g /\ wfs r end) l /\
      (fix wfs (l : list form) : Prop := match l with [] => True | g :: r => wf g /\ wfs r end) r
  | FFix _ _ g => wf g
  | FIte a b c => wf a /\ wf b /\ wf c
  | FBin _ a b => wf a /\ wf b
  | _ => True
  end.
Fixpoint wfs (l : list form) : Prop := match l with [] => True | g :: r => wf g /\ wfs r end.
