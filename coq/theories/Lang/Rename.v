(** C11 (meaning is independent of the id assignment): renaming all variable ids of a formula
    by an injective map renames its denotation. *)
From Coq Require Import List Arith Bool PeanoNat ZArith NArith Lia.
Import ListNotations.
From Rsbdd Require Import Core.Bdd Core.Ops Core.OpsFacts Core.Sem Core.Canon Core.Pres Core.Quant Core.Essential.
From Rsbdd Require Import Lang.Ast Lang.AstFacts Lang.Den Lang.DenFacts Lang.Eval Lang.EvalSound Lang.EvalComplete Lang.Free.

Section Rename.
  Variable p q : nat -> nat.
  Hypothesis q_p : forall x, q (p x) = x.          (* p has a left inverse, hence is injective *)

  Lemma p_inj x y : p x = p y -> x = y.
  Proof. intros H. rewrite <- (q_p x), <- (q_p y), H. reflexivity. Qed.

  Fixpoint rename (f : form) : form :=
    match f with
    | FVar v => FVar (p v)
    | FNot g => FNot (rename g)
    | FQuant qq vs g => FQuant qq (map p vs) (rename g)
    | FCountC op fs n => FCountC op (map rename fs) n
    | FCountV op l r => FCountV op (map rename l) (map rename r)
    | FFix v i g => FFix (p v) i (rename g)
    | FIte a b c => FIte (rename a) (rename b) (rename c)
    | FBin op a b => FBin op (rename a) (rename b)
    | _ => f
    end.

  (** the renamed denotation: evaluate the old one under the pulled-back assignment *)
  Definition pull (d : den) : den := fun s => d (fun x => s (p x)).
  Definition orel (a b : option den) : Prop :=
    match a, b with Some d, Some d' => deq d' (pull d) | None, None => True | _, _ => False end.
  Definition erel (r r' : fenv) : Prop := forall x, orel (r x) (r' (p x)).

  Lemma mem_nat_map x vs : mem_nat (p x) (map p vs) = mem_nat x vs.
  Proof.
    unfold mem_nat. induction vs as [|v vs IH]; cbn [map existsb]; auto. rewrite IH. f_equal.
    destruct (Nat.eqb_spec (p x) (p v)) as [E|NE], (Nat.eqb_spec x v) as [E'|NE']; auto;
      try (apply p_inj in E; contradiction); try (subst; contradiction).
  Qed.

  Lemma erel_unbind r r' vs : erel r r' -> erel (unbind r vs) (unbind r' (map p vs)).
  Proof. intros H x. unfold unbind. rewrite mem_nat_map. destruct (mem_nat x vs); cbn; auto; apply H. Qed.
  Lemma erel_bind r r' X d d' : erel r r' -> deq d' (pull d) -> erel (bind r X d) (bind r' (p X) d').
  Proof.
    intros H Hd x. unfold bind.
    destruct (Nat.eqb_spec x X) as [->|NE]; [rewrite Nat.eqb_refl; cbn; exact Hd|].
    destruct (Nat.eqb_spec (p x) (p X)) as [E|_]; [apply p_inj in E; contradiction|]. apply H.
  Qed.

  Lemma pull_upd d v c s : respects d -> pull d (upd s (p v) c) = d (upd (fun x => s (p x)) v c).
  Proof.
    intros Hd. unfold pull. apply Hd. intros x. unfold upd.
    destruct (Nat.eqb_spec (p x) (p v)) as [E|NE], (Nat.eqb_spec x v) as [E'|NE']; auto;
      try (apply p_inj in E; contradiction); try (subst; contradiction).
  Qed.

  Lemma pull_quant qq d vs : respects d -> deq (fold_right (quant_sem qq) (pull d) (map p vs)) (pull (fold_right (quant_sem qq) d vs)).
  Proof.
    intros Hd. induction vs as [|v vs IH]; cbn [map fold_right]; [apply deq_refl|].
    assert (Hr : respects (fold_right (quant_sem qq) d vs)) by (apply respects_fold_quant; auto).
    intros s. destruct qq; cbn [quant_sem]; unfold ex1, all1; rewrite !IH, !(pull_upd _ _ _ _ Hr); reflexivity.
  Qed.

  Lemma deq_pull d e : deq d e -> deq (pull d) (pull e).
  Proof. intros H s. apply H. Qed.
  (** the pull-back loses nothing: every assignment is a pulled-back one (up to pointwise equality) *)
  Lemma pull_reflects d e : respects d -> respects e -> deq (pull d) (pull e) -> deq d e.
  Proof.
    intros Hd He H s. specialize (H (fun y => s (q y))). unfold pull in H.
    rewrite (Hd s (fun x => s (q (p x)))), (He s (fun x => s (q (p x)))); auto; intros x; rewrite q_p; reflexivity.
  Qed.

  Lemma count_pull ds ds' : Forall2 (fun d d' => deq d' (pull d)) ds ds' -> forall s, count_den ds' s = count_den ds (fun x => s (p x)).
  Proof. induction 1 as [|d d' l l' Hd Hl IH]; intros s; cbn [count_den]; auto. rewrite (Hd s), IH. reflexivity. Qed.

  Theorem Den_rename : forall f r r' d, nofsub f -> env_respects r -> erel r r' -> Den r f d -> Den r' (rename f) (pull d).
  Proof.
    induction f as [| |v|g IH|qq vs g IH|op fs n IH|op l rr IHl IHr|y i g IH|c t e IHc IHt IHe|op l rr IHl IHr|b0|] using form_ind';
      intros r r' d Hns Hres Hrel; cbn [rename]; cbn [nofsub] in Hns.
    - cbn [Den]. intros H s. apply H.
    - cbn [Den]. intros H s. apply H.
    - cbn [Den]. intros H. specialize (Hrel v). destruct (r v) as [e|], (r' (p v)) as [e'|]; cbn in Hrel; try contradiction.
      + eapply deq_trans; [apply deq_pull; exact H|apply deq_sym; exact Hrel].
      + intros s. unfold pull. rewrite H. reflexivity.
    - cbn [Den]. intros (d1 & H1 & H2). exists (pull d1). split; [apply (IH r r'); auto|].
      intros s. unfold pull. rewrite H2. reflexivity.
    - cbn [Den]. intros (d1 & H1 & H2). exists (pull d1). split.
      + apply (IH (unbind r vs)); auto; [|apply erel_unbind; auto].
        intros z e Hz. unfold unbind in Hz. destruct (mem_nat z vs); [discriminate|]. apply (Hres z e Hz).
      + eapply deq_trans; [apply deq_pull; exact H2|]. apply deq_sym. apply pull_quant.
        apply (Den_respects g (unbind r vs) d1); auto.
        intros z e Hz. unfold unbind in Hz. destruct (mem_nat z vs); [discriminate|]. apply (Hres z e Hz).
    - rewrite !Den_countc. intros (ds & H1 & H2). exists (map pull ds). split.
      + rewrite Dens_Forall2 in *. clear H2. apply nofsub_list in Hns. induction H1 as [|g e fs' ds' Hg Hr IH']; cbn [map]; constructor.
        * inversion IH; subst. inversion Hns; subst. match goal with H : forall r r' d, _ |- _ => apply (H r r'); auto end.
        * apply IH'; [inversion IH; auto|inversion Hns; auto].
      + intros s. unfold pull at 1. rewrite H2. f_equal.
        rewrite (count_pull ds (map pull ds)); auto. clear. induction ds; cbn [map]; constructor; auto. apply deq_refl.
    - rewrite !Den_countv. intros (dl & dr & H1 & H2 & H3). destruct Hns as [Nl Nr]. apply nofsub_list in Nl. apply nofsub_list in Nr.
      exists (map pull dl), (map pull dr). split; [|split].
      + rewrite Dens_Forall2 in *. clear H2 H3. induction H1 as [|g e fs' ds' Hg Hr IH']; cbn [map]; constructor.
        * inversion IHl; subst. inversion Nl; subst. match goal with H : forall r r' d, _ |- _ => apply (H r r'); auto end.
        * apply IH'; [inversion IHl; auto|inversion Nl; auto].
      + rewrite Dens_Forall2 in *. clear H1 H3. induction H2 as [|g e fs' ds' Hg Hr IH']; cbn [map]; constructor.
        * inversion IHr; subst. inversion Nr; subst. match goal with H : forall r r' d, _ |- _ => apply (H r r'); auto end.
        * apply IH'; [inversion IHr; auto|inversion Nr; auto].
      + intros s. unfold pull at 1. rewrite H3. f_equal.
        * rewrite (count_pull dl (map pull dl)); auto. clear. induction dl; cbn [map]; constructor; auto. apply deq_refl.
        * rewrite (count_pull dr (map pull dr)); auto. clear. induction dr; cbn [map]; constructor; auto. apply deq_refl.
    - cbn [Den]. intros (seq & n & H0 & Hs & Hne & Hst & Hd).
      assert (Hall : forall j, j <= S n -> respects (seq j)).
      { induction j as [|j IHj]; intros Hj.
        - apply (respects_deq _ _ (deq_sym _ _ H0)). intros s s' _. reflexivity.
        - apply (Den_respects g (bind r y (seq j)) (seq (S j))); [|apply Hs; lia].
          intros z e Hz. unfold bind in Hz. destruct (Nat.eqb z y); [inversion Hz; subst; apply IHj; lia|apply (Hres z e Hz)]. }
      exists (fun j => pull (seq j)), n. split; [|split; [|split; [|split]]].
      + intros s. unfold pull. rewrite H0. reflexivity.
      + intros j Hj. apply (IH (bind r y (seq j)) (bind r' (p y) (pull (seq j)))); auto.
        * intros z e Hz. unfold bind in Hz. destruct (Nat.eqb z y); [inversion Hz; subst; apply Hall; lia|apply (Hres z e Hz)].
        * apply erel_bind; auto. apply deq_refl.
      + intros j Hj E. apply (Hne j Hj). apply pull_reflects; auto; apply Hall; lia.
      + apply deq_pull. exact Hst.
      + apply deq_pull. exact Hd.
    - cbn [Den]. intros (dc & dt & de & H1 & H2 & H3 & H4). destruct Hns as (N1 & N2 & N3). exists (pull dc), (pull dt), (pull de). repeat split.
      + apply (IHc r r'); auto. + apply (IHt r r'); auto. + apply (IHe r r'); auto.
      + intros s. unfold pull. rewrite H4. reflexivity.
    - cbn [Den]. intros (d1 & d2 & H1 & H2 & H3). destruct Hns as (N1 & N2). exists (pull d1), (pull d2). repeat split.
      + apply (IHl r r'); auto. + apply (IHr r r'); auto.
      + intros s. unfold pull. rewrite H3. reflexivity.
    - destruct Hns.
    - cbn [Den]. intros H s. apply H.
  Qed.

  Lemma nofsub_rename : forall f, nofsub f -> nofsub (rename f).
  Proof.
    induction f as [| |v|g IH|qq vs g IH|op fs n IH|op l rr IHl IHr|y i g IH|c t e IHc IHt IHe|op l rr IHl IHr|b0|] using form_ind';
      cbn [rename nofsub]; auto.
    - intros H. apply nofsub_list in H. apply nofsub_list. rewrite Forall_forall in *. intros g Hg.
      apply in_map_iff in Hg. destruct Hg as (g0 & <- & Hin). auto.
    - intros [H1 H2]. apply nofsub_list in H1. apply nofsub_list in H2. split; apply nofsub_list; rewrite Forall_forall in *; intros g Hg;
        apply in_map_iff in Hg; destruct Hg as (g0 & <- & Hin); auto.
    - intros (? & ? & ?); auto.
    - intros (? & ?); auto.
  Qed.

  (** C11: evaluated under two id assignments related by p, the two answers denote the same
      function once assignments are pulled back along p *)
  Theorem C11_rename n m f b1 b2 : nofsub f ->
    eval_f n f = Some b1 -> eval_f m (rename f) = Some b2 ->
    forall s, beval s b2 = beval (fun x => s (p x)) b1.
  Proof.
    intros Hns E1 E2 s.
    destruct (sound n f b1 (nofsub_wf f Hns) E1) as [D1 _].
    destruct (sound m (rename f) b2 (nofsub_wf _ (nofsub_rename f Hns)) E2) as [D2 _].
    assert (D1' : Den empty (rename f) (pull (bden b1))).
    { apply (Den_rename f empty empty); auto.
      - intros y e Hy. discriminate. - intros x. cbn. exact I. }
    pose proof (EvalComplete.Den_fun _ _ _ _ D2 D1') as E. apply E.
  Qed.
End Rename.
Print Assumptions C11_rename.
