(** C01 (soundness): whatever the evaluator returns denotes the documented truth function,
    and is a reduced ordered diagram. *)
From Coq Require Import List Arith Bool PeanoNat ZArith NArith Lia.
Import ListNotations.
From Rsbdd Require Import Core.Bdd Core.Ops Core.OpsFacts Core.Sem Core.Canon Core.Pres Core.Quant.
From Rsbdd Require Import Lang.Ast Lang.AstFacts Lang.Den Lang.DenFacts Lang.Eval.

Definition bden (b : bdd) : den := fun s => beval s b.

Lemma count_true_den s bs : count_true s bs = count_den (map bden bs) s.
Proof. induction bs as [|x r IH]; cbn [count_true count_den map]; auto. rewrite IH. reflexivity. Qed.

Lemma count_true_range s bs : (0 <= count_true s bs <= Z.of_nat (length bs))%Z.
Proof. induction bs as [|x r IH]; cbn [count_true length]; [lia|]. destruct (beval s x); lia. Qed.

(** the clamp of the D3 repair does not change the meaning of any literal *)
Lemma eval_countc_sem s op bs n :
  beval s (eval_countc op bs n) = cop_sem op (count_true s bs) (Z.of_N n).
Proof.
  pose proof (count_true_range s bs) as Hc. unfold eval_countc, clamp, cop_sem.
  set (c := count_true s bs) in *. set (len := length bs) in *.
  assert (Hk : (Z.of_N (N.min n (N.of_nat len + 1)) = Z.min (Z.of_N n) (Z.of_nat len + 1))%Z) by lia.
  rewrite Hk. clear Hk.
  destruct op; rewrite ?amn_sem, ?aln_sem, ?exn_sem; fold c.
  - destruct (Z.leb_spec c (Z.min (Z.of_N n) (Z.of_nat len + 1))), (Z.leb_spec c (Z.of_N n)); auto; lia.
  - destruct (Z.leb_spec c (Z.min (Z.of_N n) (Z.of_nat len + 1) - 1)), (Z.ltb_spec c (Z.of_N n)); auto; lia.
  - destruct (Z.leb_spec (Z.min (Z.of_N n) (Z.of_nat len + 1)) c), (Z.leb_spec (Z.of_N n) c); auto; lia.
  - destruct (Z.leb_spec (Z.min (Z.of_N n) (Z.of_nat len + 1) + 1) c), (Z.ltb_spec (Z.of_N n) c); auto; lia.
  - destruct (Z.eqb_spec c (Z.min (Z.of_N n) (Z.of_nat len + 1))), (Z.eqb_spec c (Z.of_N n)); auto; lia.
Qed.

Lemma eval_countv_sem s op l r :
  beval s (eval_countv op l r) = cop_sem op (count_true s l) (count_true s r).
Proof.
  destruct op; cbn [eval_countv cop_sem].
  - apply count_leq_sem. - apply count_lt_sem. - apply count_geq_sem. - apply count_gt_sem. - apply count_eq_sem.
Qed.

Lemma eval_binop_sem s op x y : beval s (eval_binop op x y) = binop_sem op (beval s x) (beval s y).
Proof.
  destruct op; cbn [eval_binop binop_sem].
  - apply band_sem. - apply bor_sem. - apply bxor_sem. - apply bnor_sem. - apply bnand_sem.
  - apply bimplies_sem. - apply bimplies_sem. - apply beq_sem.
Qed.

Lemma shp_eval_binop op x y : robdd x -> robdd y -> robdd (eval_binop op x y).
Proof.
  intros. destruct op; cbn [eval_binop];
    [apply shp_band|apply shp_bor|apply shp_bxor|apply shp_bnor|apply shp_bnand|apply shp_bimplies|apply shp_bimplies|apply shp_beq]; auto.
Qed.
Lemma shp_eval_countc op bs n : Forall robdd bs -> robdd (eval_countc op bs n).
Proof. intros. unfold eval_countc. destruct op; apply shp_cmp_count; auto. Qed.
Lemma shp_eval_countv op l r : Forall robdd l -> Forall robdd r -> robdd (eval_countv op l r).
Proof.
  intros Hl Hr. destruct op; cbn [eval_countv]; unfold count_leq, count_lt, count_geq, count_gt, count_eq;
    try (apply shp_cmp_count_compare; [intros; apply shp_cmp_count; auto|auto]).
  apply shp_band; apply shp_cmp_count_compare; try (intros; apply shp_cmp_count; auto); auto.
Qed.

Lemma fp_opt_spec : forall k s t r, fp_opt k s t = Some r ->
  exists (seq : nat -> bdd) n, seq 0 = s /\ (forall i, i <= n -> t (seq i) = Some (seq (S i))) /\
     (forall i, i < n -> seq (S i) <> seq i) /\ seq (S n) = seq n /\ r = seq n.
Proof.
  induction k as [|k IH]; intros s t r H; cbn [fp_opt] in H; [discriminate|].
  destruct (t s) as [s'|] eqn:Ets; [|discriminate].
  destruct (bdd_eqb_spec s' s) as [E|NE].
  - inversion H; subst. exists (fun _ => r), 0. repeat split; auto. intros; lia.
  - apply IH in H. destruct H as (seq & n & H0 & Hs & Hne & Hst & Hr).
    exists (fun i => match i with 0 => s | S j => seq j end), (S n). repeat split; auto.
    + intros [|i] Hi; [rewrite H0; exact Ets|apply Hs; lia].
    + intros [|i] Hi; [rewrite H0; exact NE|apply Hne; lia].
Qed.

Lemma eeq_unbind_empty vs : eeq empty (unbind empty vs).
Proof. intros v. unfold unbind, empty. destruct (mem_nat v vs); cbn; auto. Qed.

Lemma fold_ex1_bex vs b : robdd b -> deq (bden (bex vs b)) (fold_right ex1 (bden b) vs).
Proof. intros Hb s. unfold bden. apply (bex_sem vs b 0 s Hb). Qed.
Lemma fold_all1_ball vs b : robdd b -> deq (bden (ball vs b)) (fold_right all1 (bden b) vs).
Proof. intros Hb s. unfold bden. apply (ball_sem vs b 0 s Hb). Qed.

Section Sound.
  Variable k : nat.
  Hypothesis IH : forall f b, wf f -> eval_f k f = Some b -> Den empty f (bden b) /\ robdd b.

  Lemma sound_list : forall fs bs, wfs fs -> map_opt (eval_f k) fs = Some bs ->
    Dens empty fs (map bden bs) /\ Forall robdd bs.
  Proof.
    induction fs as [|g fs IHl]; intros bs Hw H; cbn [map_opt] in H.
    - inversion H; subst. cbn. split; auto.
    - destruct (eval_f k g) as [x|] eqn:E1; [|discriminate].
      destruct (map_opt (eval_f k) fs) as [xs|] eqn:E2; [|discriminate]. inversion H; subst.
      cbn [wfs] in Hw. destruct Hw as [Wg Wr].
      destruct (IH g x Wg E1) as [D1 R1]. destruct (IHl xs Wr eq_refl) as [D2 R2].
      cbn [map Dens]. auto.
  Qed.
End Sound.

Theorem sound : forall n f b, wf f -> eval_f n f = Some b -> Den empty f (bden b) /\ robdd b.
Proof.
  induction n as [|n IH]; intros f b Hwf H; [discriminate|].
  destruct f as [| |v|g|q vs g|op fs c|op l r|x init t|c t e|op l r|b0|]; cbn [eval_f] in H.
  - inversion H; subst. split; [intros s; reflexivity|split; cbn; auto].
  - inversion H; subst. split; [intros s; reflexivity|split; cbn; auto].
  - inversion H; subst. split; [|apply shp_bvar; lia]. cbn [Den empty]. intros s. apply bvar_sem.
  - destruct (eval_f n g) as [y|] eqn:E; [|discriminate]. inversion H; subst.
    destruct (IH g y Hwf E) as [HD Hr]. split; [|apply shp_bnot; auto].
    cbn [Den]. exists (bden y). split; auto. intros s. apply bnot_sem.
  - destruct q.
    + destruct (eval_f n g) as [y|] eqn:E; [|discriminate]. inversion H; subst.
      destruct (IH g y Hwf E) as [HD Hr]. split; [|apply shp_bex; auto].
      cbn [Den]. exists (bden y). split; [eapply Den_ext; [apply eeq_unbind_empty|apply deq_refl|exact HD]|].
      apply fold_ex1_bex; auto.
    + destruct (eval_f n g) as [y|] eqn:E; [|discriminate]. inversion H; subst.
      destruct (IH g y Hwf E) as [HD Hr]. split; [|apply shp_ball; auto].
      cbn [Den]. exists (bden y). split; [eapply Den_ext; [apply eeq_unbind_empty|apply deq_refl|exact HD]|].
      apply fold_all1_ball; auto.
  - destruct (map_opt (eval_f n) fs) as [xs|] eqn:E; [|discriminate]. inversion H; subst.
    apply (proj1 (wf_countc _ _ _)) in Hwf. destruct (sound_list n IH fs xs Hwf E) as [HD HR].
    split; [|apply shp_eval_countc; auto].
    apply Den_countc. exists (map bden xs). split; auto.
    intros s. unfold bden at 1. rewrite eval_countc_sem, count_true_den. reflexivity.
  - destruct (map_opt (eval_f n) l) as [xs|] eqn:E1; [|discriminate].
    destruct (map_opt (eval_f n) r) as [ys|] eqn:E2; [|discriminate]. inversion H; subst.
    apply (proj1 (wf_countv _ _ _)) in Hwf. destruct Hwf as [Wl Wr].
    destruct (sound_list n IH l xs Wl E1) as [HD1 HR1]. destruct (sound_list n IH r ys Wr E2) as [HD2 HR2].
    split; [|apply shp_eval_countv; auto].
    apply Den_countv. exists (map bden xs), (map bden ys). repeat split; auto.
    intros s. unfold bden at 1. rewrite eval_countv_sem, !count_true_den. reflexivity.
  - (* fixed point *)
    apply fp_opt_spec in H. destruct H as (seq & m & H0 & Hs & Hne & Hst & Hr). subst b.
    cbn [wf] in Hwf.
    assert (Hrob : forall i, i <= S m -> robdd (seq i)).
    { induction i as [|i IHi]; intros Hi.
      - rewrite H0. apply shp_bconst.
      - assert (Hi' : i <= m) by lia. specialize (Hs i Hi').
        apply IH in Hs; [apply Hs|]. apply wf_replace; auto. }
    split; [|apply Hrob; lia].
    cbn [Den]. exists (fun i => bden (seq i)), m. split; [|split; [|split; [|split]]].
    + intros s. unfold bden. rewrite H0. apply bconst_sem.
    + intros i Hi. specialize (Hs i Hi). apply IH in Hs; [|apply wf_replace; auto; apply Hrob; lia].
      apply subst_den. apply Hs.
    + intros i Hi Hd. apply (Hne i Hi).
      destruct (Hrob (S i)) as [? ?]; [lia|]. destruct (Hrob i) as [? ?]; [lia|].
      apply (canon 0); auto.
    + intros s. unfold bden. rewrite Hst. reflexivity.
    + intros s. reflexivity.
  - destruct (eval_f n c) as [x|] eqn:E1; [|discriminate].
    destruct (eval_f n t) as [y|] eqn:E2; [|discriminate].
    destruct (eval_f n e) as [z|] eqn:E3; [|discriminate]. inversion H; subst.
    cbn [wf] in Hwf. destruct Hwf as (W1 & W2 & W3).
    destruct (IH _ _ W1 E1) as [D1 R1]. destruct (IH _ _ W2 E2) as [D2 R2]. destruct (IH _ _ W3 E3) as [D3 R3].
    split; [|apply shp_bite; auto].
    cbn [Den]. exists (bden x), (bden y), (bden z). repeat split; auto. intros s. apply bite_sem.
  - destruct (eval_f n l) as [x|] eqn:E1; [|discriminate].
    destruct (eval_f n r) as [y|] eqn:E2; [|discriminate]. inversion H; subst.
    cbn [wf] in Hwf. destruct Hwf as (W1 & W2).
    destruct (IH _ _ W1 E1) as [D1 R1]. destruct (IH _ _ W2 E2) as [D2 R2].
    split; [|apply shp_eval_binop; auto].
    cbn [Den]. exists (bden x), (bden y). repeat split; auto. intros s. apply eval_binop_sem.
  - inversion H; subst. split; [intros s; reflexivity|exact Hwf].
  - inversion H; subst. split; [intros s; reflexivity|split; cbn; auto].
Qed.
Print Assumptions sound.
