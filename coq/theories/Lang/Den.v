(** The documented meaning of the language (README "Syntax"), as a Prop-valued structural
    fixpoint.  Denotations are functions [asg -> bool] compared pointwise. *)
From Coq Require Import List Arith Bool PeanoNat ZArith NArith.
Import ListNotations.
From Rsbdd Require Import Core.Bdd Core.Quant Lang.Ast.

Definition den := asg -> bool.
Definition fenv := nat -> option den.                     (* fixed-point names currently bound *)
Definition empty : fenv := fun _ => None.
Definition bind (r : fenv) (x : nat) (d : den) : fenv := fun y => if Nat.eqb y x then Some d else r y.
Definition unbind (r : fenv) (vs : list nat) : fenv := fun y => if mem_nat y vs then None else r y.
Definition deq (d d' : den) : Prop := forall s, d s = d' s.

Definition binop_sem (op : binop) (x y : bool) : bool :=
  match op with
  | BAnd => x && y | BOr => x || y | BXor => xorb x y
  | BNor => negb (x || y) | BNand => negb (x && y)
  | BImplies => implb x y | BImpliesInv => implb y x | BIff => Bool.eqb x y
  end.
Definition cop_sem (op : cop) (c n : Z) : bool :=
  match op with
  | AtMost => (c <=? n)%Z | LessThan => (c <? n)%Z | AtLeast => (n <=? c)%Z
  | MoreThan => (n <? c)%Z | Exactly => (c =? n)%Z
  end.
Fixpoint count_den (ds : list den) (s : asg) : Z :=
  match ds with [] => 0%Z | d :: r => ((if d s then 1 else 0) + count_den r s)%Z end.
Definition quant_sem (q : quant) : nat -> den -> den := match q with QExists => ex1 | QForall => all1 end.

Fixpoint Den (r : fenv) (f : form) (d : den) {struct f} : Prop :=
  match f with
  | FFalse => deq d (fun _ => false)
  | FTrue => deq d (fun _ => true)
  | FVar v => deq d (match r v with Some e => e | None => fun s => s v end)
  | FNot g => exists d1, Den r g d1 /\ deq d (fun s => negb (d1 s))
  | FQuant q vs g => exists d1, Den (unbind r vs) g d1 /\ deq d (fold_right (quant_sem q) d1 vs)
  | FCountC op fs n => exists ds,
      (fix dens (fs : list form) (ds : list den) : Prop :=
         match fs, ds with [], [] => True | g :: fs', e :: ds' => Den r g e /\ dens fs' ds' | _, _ => False end) fs ds
      /\ deq d (fun s => cop_sem op (count_den ds s) (Z.of_N n))
  | FCountV op l rr => exists dl dr,
      (fix dens (fs : list form) (ds : list den) : Prop :=
         match fs, ds with [], [] => True | g :: fs', e :: ds' => Den r g e /\ dens fs' ds' | _, _ => False end) l dl
      /\ (fix dens (fs : list form) (ds : list den) : Prop :=
         match fs, ds with [], [] => True | g :: fs', e :: ds' => Den r g e /\ dens fs' ds' | _, _ => False end) rr dr
      /\ deq d (fun s => cop_sem op (count_den dl s) (count_den dr s))
  | FFix x init t => exists (seq : nat -> den) (n : nat),
      deq (seq 0) (fun _ => init) /\
      (forall i, i <= n -> Den (bind r x (seq i)) t (seq (S i))) /\
      (forall i, i < n -> ~ deq (seq (S i)) (seq i)) /\
      deq (seq (S n)) (seq n) /\ deq d (seq n)
  | FIte c t e => exists dc dt de, Den r c dc /\ Den r t dt /\ Den r e de /\
      deq d (fun s => if dc s then dt s else de s)
  | FBin op a b => exists d1 d2, Den r a d1 /\ Den r b d2 /\ deq d (fun s => binop_sem op (d1 s) (d2 s))
  | FSub b => deq d (fun s => beval s b)
  | FRef => deq d (fun _ => false)
  end.

(** the list version, as a standalone predicate convertible with the nested one *)
Fixpoint Dens (r : fenv) (fs : list form) (ds : list den) : Prop :=
  match fs, ds with [], [] => True | g :: fs', e :: ds' => Den r g e /\ Dens r fs' ds' | _, _ => False end.
