(** C09: free-variable analysis is exact, and the evaluated diagram mentions free variables only. *)
From Coq Require Import List Arith Bool PeanoNat ZArith NArith Lia.
Import ListNotations.
From Rsbdd Require Import Core.Bdd Core.Ops Core.OpsFacts Core.Sem Core.Canon Core.Pres Core.Quant Core.Essential.
From Rsbdd Require Import Lang.Ast Lang.AstFacts Lang.Den Lang.DenFacts Lang.Eval Lang.EvalSound.

(** every variable occurrence together with the binders that enclose it (innermost first) *)
Fixpoint occ (f : form) : list (list nat * nat) :=
  match f with
  | FVar v => [([], v)]
  | FNot g => occ g
  | FQuant _ vs g => map (fun p => (fst p ++ vs, snd p)) (occ g)
  | FCountC _ fs _ => flat_map occ fs
  | FCountV _ l r => flat_map occ l ++ flat_map occ r
  | FFix x _ g => map (fun p => (fst p ++ [x], snd p)) (occ g)
  | FIte a b c => occ a ++ occ b ++ occ c
  | FBin _ a b => occ a ++ occ b
  | _ => []
  end.

Fixpoint noref (f : form) : Prop :=
  match f with
  | FRef => False
  | FNot g | FQuant _ _ g | FFix _ _ g => noref g
  | FCountC _ fs _ => (fix go l := match l with [] => True | g :: r => noref g /\ go r end) fs
  | FCountV _ l r => (fix go l := match l with [] => True | g :: r => noref g /\ go r end) l /\
                     (fix go l := match l with [] => True | g :: r => noref g /\ go r end) r
  | FIte a b c => noref a /\ noref b /\ noref c
  | FBin _ a b => noref a /\ noref b
  | _ => True
  end.
Fixpoint norefs (l : list form) : Prop := match l with [] => True | g :: r => noref g /\ norefs r end.
Lemma noref_list l : (fix go l := match l with [] => True | g :: r => noref g /\ go r end) l <-> norefs l.
Proof. induction l as [|g r IH]; cbn [norefs]; [tauto|]. rewrite IH. tauto. Qed.
Lemma norefs_Forall l : norefs l <-> Forall noref l.
Proof. induction l as [|g r IH]; cbn [norefs]; [split; auto|]. rewrite IH. split; [intros [? ?]; constructor; auto|intros H; inversion H; auto]. Qed.

Lemma mem_nat_In x l : mem_nat x l = true <-> In x l.
Proof.
  unfold mem_nat. rewrite existsb_exists. split.
  - intros (y & Hy & E). apply Nat.eqb_eq in E. subst. exact Hy.
  - intros H. exists x. split; auto. apply Nat.eqb_refl.
Qed.

Definition free_occ (f : form) (x : nat) : Prop := exists bs, In (bs, x) (occ f) /\ ~ In x bs.

Lemma existsb_free (P : form -> nat -> bool) x l :
  Forall (fun g => P g x = true <-> free_occ g x) l ->
  (existsb (fun g => P g x) l = true <-> exists bs, In (bs, x) (flat_map occ l) /\ ~ In x bs).
Proof.
  intros H. rewrite existsb_exists. split.
  - intros (g & Hg & Hp). rewrite Forall_forall in H. apply (H g Hg) in Hp. destruct Hp as (bs & Hin & Hn).
    exists bs. split; auto. apply in_flat_map. exists g. auto.
  - intros (bs & Hin & Hn). apply in_flat_map in Hin. destruct Hin as (g & Hg & Hin).
    exists g. split; auto. rewrite Forall_forall in H. apply (H g Hg). exists bs. auto.
Qed.

Theorem C09_free : forall f x, noref f -> (var_is_free f x = true <-> free_occ f x).
Proof.
  unfold free_occ.
  induction f as [| |v|g IH|q vs g IH|op fs n IH|op l rr IHl IHr|y i g IH|c t e IHc IHt IHe|op l rr IHl IHr|b0|] using form_ind';
    intros x Hnr; cbn [var_is_free occ].
  - split; [discriminate|intros (bs & [] & _)].
  - split; [discriminate|intros (bs & [] & _)].
  - rewrite Nat.eqb_eq. split.
    + intros ->. exists []. split; [left; reflexivity|intros []].
    + intros (bs & [E|[]] & _). inversion E. reflexivity.
  - apply IH. exact Hnr.
  - cbn [noref] in Hnr. destruct (mem_nat x vs) eqn:E; cbn [negb].
    + split; [discriminate|]. intros (bs & Hin & Hn). apply in_map_iff in Hin. destruct Hin as ([bs0 v0] & Heq & Hin).
      inversion Heq; subst. exfalso. apply Hn. apply in_or_app. right. apply mem_nat_In. exact E.
    + rewrite (IH x Hnr). split.
      * intros (bs & Hin & Hn). exists (bs ++ vs). split.
        -- apply in_map_iff. exists (bs, x). auto.
        -- intros H. apply in_app_or in H. destruct H as [H|H]; [auto|]. apply mem_nat_In in H. congruence.
      * intros (bs & Hin & Hn). apply in_map_iff in Hin. destruct Hin as ([bs0 v0] & Heq & Hin). inversion Heq; subst.
        exists bs0. split; auto. intros H. apply Hn. apply in_or_app. auto.
  - cbn [noref] in Hnr. apply noref_list, norefs_Forall in Hnr. apply existsb_free.
    rewrite Forall_forall in *. intros g Hg. apply IH; auto.
  - cbn [noref] in Hnr. destruct Hnr as [Hl Hr]. apply noref_list, norefs_Forall in Hl. apply noref_list, norefs_Forall in Hr.
    rewrite orb_true_iff.
    rewrite (existsb_free var_is_free x l) by (rewrite Forall_forall in *; intros g Hg; apply IHl; auto).
    rewrite (existsb_free var_is_free x rr) by (rewrite Forall_forall in *; intros g Hg; apply IHr; auto).
    split.
    + intros [(bs & Hin & Hn)|(bs & Hin & Hn)]; exists bs; (split; [apply in_or_app; auto|auto]).
    + intros (bs & Hin & Hn). apply in_app_or in Hin. destruct Hin; [left|right]; exists bs; auto.
  - cbn [noref] in Hnr. destruct (Nat.eqb_spec y x) as [->|Hne]; cbn [negb andb].
    + split; [discriminate|]. intros (bs & Hin & Hn). apply in_map_iff in Hin. destruct Hin as ([bs0 v0] & Heq & Hin).
      inversion Heq; subst. exfalso. apply Hn. apply in_or_app. right. left. reflexivity.
    + rewrite (IH x Hnr). split.
      * intros (bs & Hin & Hn). exists (bs ++ [y]). split.
        -- apply in_map_iff. exists (bs, x). auto.
        -- intros H. apply in_app_or in H. destruct H as [H|[H|[]]]; [auto|congruence].
      * intros (bs & Hin & Hn). apply in_map_iff in Hin. destruct Hin as ([bs0 v0] & Heq & Hin). inversion Heq; subst.
        exists bs0. split; auto. intros H. apply Hn. apply in_or_app. auto.
  - cbn [noref] in Hnr. destruct Hnr as (N1 & N2 & N3). rewrite !orb_true_iff, (IHc x N1), (IHt x N2), (IHe x N3). split.
    + intros [[(bs & Hin & Hn)|(bs & Hin & Hn)]|(bs & Hin & Hn)]; exists bs; (split; [|auto]);
        apply in_or_app; auto; right; apply in_or_app; auto.
    + intros (bs & Hin & Hn). apply in_app_or in Hin. destruct Hin as [H|H]; [left; left; exists bs; auto|].
      apply in_app_or in H. destruct H; [left; right|right]; exists bs; auto.
  - cbn [noref] in Hnr. destruct Hnr as (N1 & N2). rewrite !orb_true_iff, (IHl x N1), (IHr x N2). split.
    + intros [(bs & Hin & Hn)|(bs & Hin & Hn)]; exists bs; (split; [apply in_or_app; auto|auto]).
    + intros (bs & Hin & Hn). apply in_app_or in Hin. destruct Hin; [left|right]; exists bs; auto.
  - split; [discriminate|intros (bs & [] & _)].
  - destruct Hnr.
Qed.

(** ---- the evaluated diagram depends on free variables only ---- *)

(** parser output contains no embedded diagram *)
Fixpoint nofsub (f : form) : Prop :=
  match f with
  | FSub _ => False
  | FNot g | FQuant _ _ g | FFix _ _ g => nofsub g
  | FCountC _ fs _ => (fix go l := match l with [] => True | g :: r => nofsub g /\ go r end) fs
  | FCountV _ l r => (fix go l := match l with [] => True | g :: r => nofsub g /\ go r end) l /\
                     (fix go l := match l with [] => True | g :: r => nofsub g /\ go r end) r
  | FIte a b c => nofsub a /\ nofsub b /\ nofsub c
  | FBin _ a b => nofsub a /\ nofsub b
  | _ => True
  end.
Lemma nofsub_list l : (fix go l := match l with [] => True | g :: r => nofsub g /\ go r end) l <-> Forall nofsub l.
Proof. induction l as [|g r IH]; [split; auto|]. rewrite IH. split; [intros [? ?]; constructor; auto|intros H; inversion H; auto]. Qed.

Lemma nofsub_wf : forall f, nofsub f -> wf f.
Proof.
  induction f as [| |v|g IH|q vs g IH|op fs n IH|op l rr IHl IHr|y i g IH|c t e IHc IHt IHe|op l rr IHl IHr|b0|] using form_ind';
    cbn [nofsub]; auto.
  - intros H. apply nofsub_list in H. apply wf_countc, wfs_Forall. rewrite Forall_forall in *. auto.
  - intros [H1 H2]. apply nofsub_list in H1. apply nofsub_list in H2. apply wf_countv. rewrite !wfs_Forall, !Forall_forall in *. auto.
  - cbn [wf]. intros (? & ? & ?); auto.
  - cbn [wf]. intros (? & ?); auto.
  - intros [].
Qed.

(** like [var_is_free], but embedded diagrams count with their support and references with nothing *)
Fixpoint fv (f : form) (x : nat) : bool :=
  match f with
  | FVar v => Nat.eqb v x
  | FQuant _ vs g => if negb (mem_nat x vs) then fv g x else false
  | FIte a b c => fv a x || fv b x || fv c x
  | FNot g => fv g x
  | FBin _ a b => fv a x || fv b x
  | FCountC _ fs _ => existsb (fun g => fv g x) fs
  | FCountV _ l r => existsb (fun g => fv g x) l || existsb (fun g => fv g x) r
  | FFix v _ g => negb (Nat.eqb v x) && fv g x
  | FSub b => mem_nat x (support b)
  | FTrue | FFalse | FRef => false
  end.

Definition indep (d : den) (x : nat) : Prop := forall s v, d (upd s x v) = d s.
Definition env_respects (r : fenv) : Prop := forall y e, r y = Some e -> respects e.
Definition env_indep (r : fenv) (x : nat) : Prop := forall y e, r y = Some e -> indep e x.

Lemma respects_deq d d' : deq d d' -> respects d -> respects d'.
Proof. intros E H s s' Hs. rewrite <- !E. apply H. exact Hs. Qed.
Lemma indep_deq d d' x : deq d d' -> indep d x -> indep d' x.
Proof. intros E H s v. rewrite <- !E. apply H. Qed.

Lemma respects_fold_quant q d vs : respects d -> respects (fold_right (quant_sem q) d vs).
Proof. destruct q; [apply respects_fold_ex1|apply respects_fold_all1]. Qed.

Lemma count_den_respects ds : Forall respects ds -> forall s s', (forall x, s x = s' x) -> count_den ds s = count_den ds s'.
Proof. induction 1 as [|d l Hd Hl IH]; intros s s' Hs; cbn [count_den]; auto. rewrite (Hd s s' Hs), (IH s s' Hs). reflexivity. Qed.
Lemma count_den_indep ds x : Forall (fun d => indep d x) ds -> forall s v, count_den ds (upd s x v) = count_den ds s.
Proof. induction 1 as [|d l Hd Hl IH]; intros s v; cbn [count_den]; auto. rewrite (Hd s v), (IH s v). reflexivity. Qed.

Lemma Den_respects : forall f r d, env_respects r -> Den r f d -> respects d.
Proof.
  induction f as [| |v|g IH|q vs g IH|op fs n IH|op l rr IHl IHr|y i g IH|c t e IHc IHt IHe|op l rr IHl IHr|b0|] using form_ind';
    intros r d Hr.
  - cbn [Den]. intros H. apply (respects_deq _ _ (deq_sym _ _ H)). intros s s' _. reflexivity.
  - cbn [Den]. intros H. apply (respects_deq _ _ (deq_sym _ _ H)). intros s s' _. reflexivity.
  - cbn [Den]. intros H. apply (respects_deq _ _ (deq_sym _ _ H)). destruct (r v) as [e|] eqn:E.
    + apply (Hr v e E). + intros s s' Hs. apply Hs.
  - cbn [Den]. intros (d1 & H1 & H2). apply (respects_deq _ _ (deq_sym _ _ H2)).
    intros s s' Hs. rewrite (IH _ _ Hr H1 s s' Hs). reflexivity.
  - cbn [Den]. intros (d1 & H1 & H2). apply (respects_deq _ _ (deq_sym _ _ H2)).
    apply respects_fold_quant. apply (IH (unbind r vs)); auto.
    intros z e Hz. unfold unbind in Hz. destruct (mem_nat z vs); [discriminate|]. apply (Hr z e Hz).
  - rewrite Den_countc. intros (ds & H1 & H2). apply (respects_deq _ _ (deq_sym _ _ H2)).
    assert (HF : Forall respects ds).
    { rewrite Dens_Forall2 in H1. clear H2. induction H1 as [|g e fs' ds' Hg Hrr IH']; constructor.
      - inversion IH; subst. eapply H1; eauto. - apply IH'. inversion IH; auto. }
    intros s s' Hs. rewrite (count_den_respects ds HF s s' Hs). reflexivity.
  - rewrite Den_countv. intros (dl & dr & H1 & H2 & H3). apply (respects_deq _ _ (deq_sym _ _ H3)).
    assert (HFl : Forall respects dl).
    { rewrite Dens_Forall2 in H1. clear H2 H3. induction H1 as [|g e fs' ds' Hg Hrr IH']; constructor.
      - inversion IHl; subst. eapply H1; eauto. - apply IH'. inversion IHl; auto. }
    assert (HFr : Forall respects dr).
    { rewrite Dens_Forall2 in H2. clear H1 H3. induction H2 as [|g e fs' ds' Hg Hrr IH']; constructor.
      - inversion IHr; subst. eapply H1; eauto. - apply IH'. inversion IHr; auto. }
    intros s s' Hs. rewrite (count_den_respects dl HFl s s' Hs), (count_den_respects dr HFr s s' Hs). reflexivity.
  - cbn [Den]. intros (seq & n & H0 & Hs & Hne & Hst & Hd). apply (respects_deq _ _ (deq_sym _ _ Hd)).
    assert (Hall : forall j, j <= S n -> respects (seq j)).
    { induction j as [|j IHj]; intros Hj.
      - apply (respects_deq _ _ (deq_sym _ _ H0)). intros s s' _. reflexivity.
      - apply (IH (bind r y (seq j)) (seq (S j))); [|apply Hs; lia].
        intros z e Hz. unfold bind in Hz. destruct (Nat.eqb z y); [inversion Hz; subst; apply IHj; lia|apply (Hr z e Hz)]. }
    apply Hall. lia.
  - cbn [Den]. intros (dc & dt & de & H1 & H2 & H3 & H4). apply (respects_deq _ _ (deq_sym _ _ H4)).
    intros s s' Hs. rewrite (IHc _ _ Hr H1 s s' Hs), (IHt _ _ Hr H2 s s' Hs), (IHe _ _ Hr H3 s s' Hs). reflexivity.
  - cbn [Den]. intros (d1 & d2 & H1 & H2 & H3). apply (respects_deq _ _ (deq_sym _ _ H3)).
    intros s s' Hs. rewrite (IHl _ _ Hr H1 s s' Hs), (IHr _ _ Hr H2 s s' Hs). reflexivity.
  - cbn [Den]. intros H. apply (respects_deq _ _ (deq_sym _ _ H)). apply beval_ext.
  - cbn [Den]. intros H. apply (respects_deq _ _ (deq_sym _ _ H)). intros s s' _. reflexivity.
Qed.

Lemma quant1_indep_same q x d : respects d -> indep (quant_sem q x d) x.
Proof.
  intros Hd s v. destruct q; cbn [quant_sem]; unfold ex1, all1; f_equal; apply Hd; intros z; unfold upd; destruct (Nat.eqb z x); reflexivity.
Qed.
Lemma quant1_indep_other q y x d : respects d -> indep d x -> indep (quant_sem q y d) x.
Proof.
  intros Hd Hi s v. destruct (Nat.eq_dec x y) as [->|Hne]; [apply quant1_indep_same; auto|].
  assert (E : forall c, d (upd (upd s x v) y c) = d (upd s y c)).
  { intros c. rewrite (Hd (upd (upd s x v) y c) (upd (upd s y c) x v)); [apply Hi|]. intros z. apply upd_comm. exact Hne. }
  destruct q; cbn [quant_sem]; unfold ex1, all1; rewrite !E; reflexivity.
Qed.
Lemma fold_quant_indep q vs d x : respects d -> (In x vs \/ indep d x) -> indep (fold_right (quant_sem q) d vs) x.
Proof.
  intros Hd. induction vs as [|v vs IH]; intros H; cbn [fold_right].
  - destruct H as [[]|H]; exact H.
  - destruct (Nat.eq_dec v x) as [->|Hne].
    + apply quant1_indep_same. apply respects_fold_quant; auto.
    + apply quant1_indep_other; [apply respects_fold_quant; auto|]. apply IH. destruct H as [[E|H]|H]; auto. congruence.
Qed.

Lemma Den_indep : forall f r d x, nofsub f -> env_respects r -> env_indep r x ->
  (fv f x = true -> exists e, r x = Some e) -> Den r f d -> indep d x.
Proof.
  induction f as [| |v|g IH|q vs g IH|op fs n IH|op l rr IHl IHr|y i g IH|c t e IHc IHt IHe|op l rr IHl IHr|b0|] using form_ind';
    intros r d x Hns Hr Hi Hfv; cbn [nofsub] in Hns.
  - cbn [Den]. intros H. apply (indep_deq _ _ _ (deq_sym _ _ H)). intros s v. reflexivity.
  - cbn [Den]. intros H. apply (indep_deq _ _ _ (deq_sym _ _ H)). intros s v. reflexivity.
  - cbn [Den]. intros H. apply (indep_deq _ _ _ (deq_sym _ _ H)). cbn [fv] in Hfv.
    destruct (r v) as [e|] eqn:E; [apply (Hi v e E)|].
    intros s c. apply upd_other. intros ->. destruct (Hfv (Nat.eqb_refl _)) as (e & He). congruence.
  - cbn [Den]. intros (d1 & H1 & H2). apply (indep_deq _ _ _ (deq_sym _ _ H2)).
    intros s v. rewrite (IH _ _ x Hns Hr Hi Hfv H1 s v). reflexivity.
  - cbn [Den]. intros (d1 & H1 & H2). apply (indep_deq _ _ _ (deq_sym _ _ H2)).
    assert (Hr' : env_respects (unbind r vs)).
    { intros z e Hz. unfold unbind in Hz. destruct (mem_nat z vs); [discriminate|]. apply (Hr z e Hz). }
    apply fold_quant_indep; [apply (Den_respects g _ _ Hr' H1)|].
    destruct (mem_nat x vs) eqn:E; [left; apply mem_nat_In; exact E|right].
    apply (IH (unbind r vs) d1 x); auto.
    + intros z e Hz. unfold unbind in Hz. destruct (mem_nat z vs); [discriminate|]. apply (Hi z e Hz).
    + intros Hg. cbn [fv] in Hfv. rewrite E in Hfv. cbn [negb] in Hfv. destruct (Hfv Hg) as (e & He).
      exists e. unfold unbind. rewrite E. exact He.
  - rewrite Den_countc. intros (ds & H1 & H2). apply (indep_deq _ _ _ (deq_sym _ _ H2)).
    assert (HF : Forall (fun d => indep d x) ds).
    { rewrite Dens_Forall2 in H1. clear H2. cbn [fv] in Hfv. apply nofsub_list in Hns.
      induction H1 as [|g e fs' ds' Hg Hrr IH']; constructor.
      - inversion IH; subst. inversion Hns; subst. eapply H1; eauto. intros Hg'. apply Hfv. cbn [existsb]. rewrite Hg'. reflexivity.
      - apply IH'; [inversion IH; auto|inversion Hns; auto|]. intros Hg'. apply Hfv. cbn [existsb]. rewrite Hg'. apply orb_true_r. }
    intros s v. rewrite (count_den_indep ds x HF s v). reflexivity.
  - rewrite Den_countv. intros (dl & dr & H1 & H2 & H3). apply (indep_deq _ _ _ (deq_sym _ _ H3)). cbn [fv] in Hfv.
    destruct Hns as [Nl Nr]. apply nofsub_list in Nl. apply nofsub_list in Nr.
    assert (HFl : Forall (fun d => indep d x) dl).
    { rewrite Dens_Forall2 in H1. clear H2 H3.
      assert (Hfv' : existsb (fun g => fv g x) l = true -> exists e, r x = Some e) by (intros E; apply Hfv; rewrite E; reflexivity).
      clear Hfv. induction H1 as [|g e fs' ds' Hg Hrr IH']; constructor.
      - inversion IHl; subst. inversion Nl; subst. eapply H1; eauto. intros Hg'. apply Hfv'. cbn [existsb]. rewrite Hg'. reflexivity.
      - apply IH'; [inversion IHl; auto|inversion Nl; auto|]. intros Hg'. apply Hfv'. cbn [existsb]. rewrite Hg'. apply orb_true_r. }
    assert (HFr : Forall (fun d => indep d x) dr).
    { rewrite Dens_Forall2 in H2. clear H1 H3.
      assert (Hfv' : existsb (fun g => fv g x) rr = true -> exists e, r x = Some e) by (intros E; apply Hfv; rewrite E; apply orb_true_r).
      clear Hfv. induction H2 as [|g e fs' ds' Hg Hrr IH']; constructor.
      - inversion IHr; subst. inversion Nr; subst. eapply H1; eauto. intros Hg'. apply Hfv'. cbn [existsb]. rewrite Hg'. reflexivity.
      - apply IH'; [inversion IHr; auto|inversion Nr; auto|]. intros Hg'. apply Hfv'. cbn [existsb]. rewrite Hg'. apply orb_true_r. }
    intros s v. rewrite (count_den_indep dl x HFl s v), (count_den_indep dr x HFr s v). reflexivity.
  - cbn [Den]. intros (seq & n & H0 & Hs & Hne & Hst & Hd). apply (indep_deq _ _ _ (deq_sym _ _ Hd)).
    assert (Hall : forall j, j <= S n -> indep (seq j) x /\ respects (seq j)).
    { induction j as [|j IHj]; intros Hj.
      - split; [apply (indep_deq _ _ _ (deq_sym _ _ H0)); intros s v; reflexivity|].
        apply (respects_deq _ _ (deq_sym _ _ H0)). intros s s' _. reflexivity.
      - destruct IHj as [Ij Rj]; [lia|].
        assert (Hr' : env_respects (bind r y (seq j))).
        { intros z e Hz. unfold bind in Hz. destruct (Nat.eqb z y); [inversion Hz; subst; auto|apply (Hr z e Hz)]. }
        split; [|apply (Den_respects g _ _ Hr' (Hs j ltac:(lia)))].
        apply (IH (bind r y (seq j)) (seq (S j)) x); auto; [| |apply Hs; lia].
        + intros z e Hz. unfold bind in Hz. destruct (Nat.eqb z y); [inversion Hz; subst; auto|apply (Hi z e Hz)].
        + intros Hg. unfold bind. destruct (Nat.eqb_spec x y) as [->|Hxy]; [eexists; reflexivity|].
          apply Hfv. cbn [fv]. rewrite Hg. destruct (Nat.eqb_spec y x); [congruence|reflexivity]. }
    apply Hall. lia.
  - cbn [Den]. intros (dc & dt & de & H1 & H2 & H3 & H4). apply (indep_deq _ _ _ (deq_sym _ _ H4)). cbn [fv] in Hfv.
    destruct Hns as (N1 & N2 & N3). intros s v.
    rewrite (IHc _ _ x N1 Hr Hi ltac:(intros E; apply Hfv; rewrite E; reflexivity) H1 s v).
    rewrite (IHt _ _ x N2 Hr Hi ltac:(intros E; apply Hfv; rewrite E, orb_true_r; reflexivity) H2 s v).
    rewrite (IHe _ _ x N3 Hr Hi ltac:(intros E; apply Hfv; rewrite E, orb_true_r; reflexivity) H3 s v). reflexivity.
  - cbn [Den]. intros (d1 & d2 & H1 & H2 & H3). apply (indep_deq _ _ _ (deq_sym _ _ H3)). cbn [fv] in Hfv.
    destruct Hns as (N1 & N2). intros s v.
    rewrite (IHl _ _ x N1 Hr Hi ltac:(intros E; apply Hfv; rewrite E; reflexivity) H1 s v).
    rewrite (IHr _ _ x N2 Hr Hi ltac:(intros E; apply Hfv; rewrite E, orb_true_r; reflexivity) H2 s v). reflexivity.
  - destruct Hns.
  - cbn [Den]. intros H. apply (indep_deq _ _ _ (deq_sym _ _ H)). intros s v. reflexivity.
Qed.

Lemma fv_le_free : forall f x, nofsub f -> fv f x = true -> var_is_free f x = true.
Proof.
  induction f as [| |v|g IH|q vs g IH|op fs n IH|op l rr IHl IHr|y i g IH|c t e IHc IHt IHe|op l rr IHl IHr|b0|] using form_ind';
    intros x Hns; cbn [fv var_is_free nofsub] in *; auto.
  - destruct (negb (mem_nat x vs)); auto.
  - apply nofsub_list in Hns. rewrite !existsb_exists. intros (g & Hg & Hf). exists g. split; auto.
    rewrite Forall_forall in *. apply IH; auto.
  - destruct Hns as [Nl Nr]. apply nofsub_list in Nl. apply nofsub_list in Nr.
    rewrite !orb_true_iff, !existsb_exists. rewrite !Forall_forall in *.
    intros [(g & Hg & Hf)|(g & Hg & Hf)]; [left|right]; exists g; split; auto; try (apply IHl; auto); try (apply IHr; auto).
  - rewrite !andb_true_iff. intros [? ?]. split; auto.
  - destruct Hns as (N1 & N2 & N3). rewrite !orb_true_iff. intros [[H|H]|H]; auto.
  - destruct Hns as (N1 & N2). rewrite !orb_true_iff. intros [H|H]; auto.
Qed.

(** C09: the answer never mentions a variable that is not free in the formula *)
Theorem C09_support n f b : nofsub f -> eval_f n f = Some b ->
  forall x, In x (support b) -> var_is_free f x = true.
Proof.
  intros Hns He x Hx. destruct (var_is_free f x) eqn:E; auto. exfalso.
  destruct (sound n f b (nofsub_wf f Hns) He) as [HD Hrb].
  assert (Hfv : fv f x = false).
  { destruct (fv f x) eqn:Ef; auto. rewrite (fv_le_free f x Hns Ef) in E. discriminate. }
  assert (Hind : indep (bden b) x).
  { apply (Den_indep f empty (bden b) x Hns); auto.
    - intros y e Hy. discriminate. - intros y e Hy. discriminate. - rewrite Hfv. discriminate. }
  apply (independent_not_in_support b x Hrb); auto.
  intros s. unfold bden, indep in Hind. rewrite (Hind s true), (Hind s false). reflexivity.
Qed.
Print Assumptions C09_support.

