(** The reference semantics as a total executable function on fixed-point-free formulas;
    used by the generator theorems and by the failing-input search. *)
From Coq Require Import List Arith Bool PeanoNat ZArith NArith Lia.
Import ListNotations.
From Rsbdd Require Import Core.Bdd Core.Quant Lang.Ast Lang.AstFacts Lang.Den Lang.DenFacts.

Fixpoint fsem (f : form) : den :=
  match f with
  | FFalse => fun _ => false
  | FTrue => fun _ => true
  | FVar v => fun s => s v
  | FNot g => fun s => negb (fsem g s)
  | FQuant q vs g => fold_right (quant_sem q) (fsem g) vs
  | FCountC op fs n => fun s => cop_sem op (count_den (map fsem fs) s) (Z.of_N n)
  | FCountV op l r => fun s => cop_sem op (count_den (map fsem l) s) (count_den (map fsem r) s)
  | FFix _ _ _ => fun _ => false            (* not in the fragment *)
  | FIte c t e => fun s => if fsem c s then fsem t s else fsem e s
  | FBin op a b => fun s => binop_sem op (fsem a s) (fsem b s)
  | FSub b => fun s => beval s b
  | FRef => fun _ => false
  end.

Fixpoint nofix (f : form) : Prop :=
  match f with
  | FFix _ _ _ => False
  | FNot g | FQuant _ _ g => nofix g
  | FCountC _ fs _ => (fix go l := match l with [] => True | g :: r => nofix g /\ go r end) fs
  | FCountV _ l r => (fix go l := match l with [] => True | g :: r => nofix g /\ go r end) l /\
                     (fix go l := match l with [] => True | g :: r => nofix g /\ go r end) r
  | FIte a b c => nofix a /\ nofix b /\ nofix c
  | FBin _ a b => nofix a /\ nofix b
  | _ => True
  end.
Lemma nofix_list l : (fix go l := match l with [] => True | g :: r => nofix g /\ go r end) l <-> Forall nofix l.
Proof. induction l as [|g r IH]; [split; auto|]. rewrite IH. split; [intros [? ?]; constructor; auto|intros H; inversion H; auto]. Qed.

Lemma eeq_unbind_empty' vs : eeq (unbind empty vs) empty.
Proof. intros v. unfold unbind, empty. destruct (mem_nat v vs); cbn; auto. Qed.

Theorem fsem_den : forall f, nofix f -> Den empty f (fsem f).
Proof.
  induction f as [| |v|g IH|q vs g IH|op fs n IH|op l rr IHl IHr|y i g IH|c t e IHc IHt IHe|op l rr IHl IHr|b0|] using form_ind';
    cbn [nofix]; intros Hn.
  - cbn. intros s; reflexivity.
  - cbn. intros s; reflexivity.
  - cbn. intros s; reflexivity.
  - cbn [Den fsem]. exists (fsem g). split; auto; apply deq_refl.
  - cbn [Den fsem]. exists (fsem g). split; [|apply deq_refl].
    eapply Den_ext; [apply eeq_sym, eeq_unbind_empty'|apply deq_refl|auto].
  - apply Den_countc. exists (map fsem fs). split; [|apply deq_refl].
    apply nofix_list in Hn. apply Dens_Forall2. clear - IH Hn.
    induction IH as [|g fs Hg Hfs IH']; cbn [map]; constructor; inversion Hn; subst; auto.
  - destruct Hn as [Nl Nr]. apply nofix_list in Nl. apply nofix_list in Nr.
    apply Den_countv. exists (map fsem l), (map fsem rr). split; [|split; [|apply deq_refl]]; apply Dens_Forall2.
    + clear - IHl Nl. induction IHl as [|g fs Hg Hfs IH']; cbn [map]; constructor; inversion Nl; subst; auto.
    + clear - IHr Nr. induction IHr as [|g fs Hg Hfs IH']; cbn [map]; constructor; inversion Nr; subst; auto.
  - destruct Hn.
  - destruct Hn as (N1 & N2 & N3). cbn [Den fsem]. exists (fsem c), (fsem t), (fsem e). repeat split; auto; apply deq_refl.
  - destruct Hn as (N1 & N2). cbn [Den fsem]. exists (fsem l), (fsem rr). repeat split; auto; apply deq_refl.
  - cbn. intros s; reflexivity.
  - cbn. intros s; reflexivity.
Qed.

(** right-nested conjunction chains, as the generators emit them *)
Fixpoint conj_chain (cs : list form) (last : form) : form :=
  match cs with [] => last | c :: r => FBin BAnd c (conj_chain r last) end.
Lemma fsem_conj_chain cs last s : fsem (conj_chain cs last) s = forallb (fun c => fsem c s) cs && fsem last s.
Proof. induction cs as [|c r IH]; cbn [conj_chain forallb fsem binop_sem]; auto. rewrite IH, andb_assoc. reflexivity. Qed.
Print Assumptions fsem_den.
