(** C06 for bodies without inner fixed points: the totality hypothesis is automatic. *)
From Coq Require Import List Arith Bool PeanoNat ZArith NArith Lia.
Import ListNotations.
From Rsbdd Require Import Core.Bdd Core.Ops Core.OpsFacts Core.Sem Core.Canon Core.Pres.
From Rsbdd Require Import Lang.Ast Lang.AstFacts Lang.Den Lang.DenFacts Lang.Eval Lang.EvalSound Lang.Free Lang.FSem Lang.FixLang.
From Rsbdd Require Import Cli.NoPanic.

Lemma nofix_replace X b : forall t, nofix t -> nofix (replace_var X (FSub b) t).
Proof.
  induction t as [| |v|g IH|q vs g IH|op fs c IH|op l rr IHl IHr|y i g IH|c t e IHc IHt IHe|op l rr IHl IHr|b0|] using form_ind';
    cbn [replace_var nofix]; auto.
  - destruct (Nat.eqb v X); cbn; auto.
  - destruct (mem_nat X vs); cbn [nofix]; auto.
  - intros H. apply nofix_list in H. apply nofix_list. rewrite Forall_forall in *. intros g Hg.
    apply in_map_iff in Hg. destruct Hg as (g0 & <- & Hin). auto.
  - intros [H1 H2]. apply nofix_list in H1. apply nofix_list in H2. split; apply nofix_list; rewrite Forall_forall in *; intros g Hg;
      apply in_map_iff in Hg; destruct Hg as (g0 & <- & Hin); auto.
  - intros [].
  - intros (? & ? & ?); auto.
  - intros (? & ?); auto.
Qed.

Theorem C06_lfp_fixfree X T : nofsub T -> nofix T ->
  (forall d1 d2 e1 e2, dle d1 d2 -> Den (bind empty X d1) T e1 -> Den (bind empty X d2) T e2 -> dle e1 e2) ->
  exists n r, eval_f n (FFix X false T) = Some r /\ robdd r /\
    Den (bind empty X (bden r)) T (bden r) /\
    forall d e, Den (bind empty X d) T e -> dle e d -> dle (bden r) d.
Proof.
  intros Hns Hnf Hmono. apply C06_lfp; auto; [apply nofsub_wf; exact Hns|].
  intros b _. destruct (nofix_total (replace_var X (FSub b) T) (size T) (nofix_replace X b T Hnf)) as (b' & Hb').
  - rewrite size_replace. lia.
  - eauto.
Qed.
Theorem C06_gfp_fixfree X T : nofsub T -> nofix T ->
  (forall d1 d2 e1 e2, dle d1 d2 -> Den (bind empty X d1) T e1 -> Den (bind empty X d2) T e2 -> dle e1 e2) ->
  exists n r, eval_f n (FFix X true T) = Some r /\ robdd r /\
    Den (bind empty X (bden r)) T (bden r) /\
    forall d e, Den (bind empty X d) T e -> dle d e -> dle d (bden r).
Proof.
  intros Hns Hnf Hmono. apply C06_gfp; auto; [apply nofsub_wf; exact Hns|].
  intros b _. destruct (nofix_total (replace_var X (FSub b) T) (size T) (nofix_replace X b T Hnf)) as (b' & Hb').
  - rewrite size_replace. lia.
  - eauto.
Qed.
Print Assumptions C06_lfp_fixfree.
