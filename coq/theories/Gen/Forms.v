(** The formulas the generators print (right-nested "&" chains ending in "true") mean their
    constraint sets (C15, C17). *)
From Coq Require Import List Arith Bool PeanoNat ZArith NArith Lia.
Import ListNotations.
From Rsbdd Require Import Core.Bdd Lang.Ast Lang.Den Lang.FSem.
From Rsbdd Require Gen.Queens Gen.Sudoku.

Lemma count_vars_cnt l s : count_den (map fsem (map FVar l)) s = Z.of_nat (Queens.cnt s l).
Proof.
  unfold Queens.cnt. induction l as [|v l IH]; cbn [map count_den fsem filter]; auto.
  rewrite IH. destruct (s v); cbn [length]; lia.
Qed.

Definition at_most1 (l : list nat) : form := FCountC AtMost (map FVar l) 1.
Definition exactly1 (l : list nat) : form := FCountC Exactly (map FVar l) 1.
Lemma at_most1_sem l s : fsem (at_most1 l) s = true <-> Queens.cnt s l <= 1.
Proof. unfold at_most1. cbn [fsem cop_sem]. rewrite count_vars_cnt. rewrite Z.leb_le. cbn. lia. Qed.
Lemma exactly1_sem l s : fsem (exactly1 l) s = true <-> Queens.cnt s l = 1.
Proof. unfold exactly1. cbn [fsem cop_sem]. rewrite count_vars_cnt. rewrite Z.eqb_eq. cbn. lia. Qed.

Lemma forallb_map_sem {A} (mk : A -> form) (P : A -> Prop) s (ls : list A) :
  (forall l, fsem (mk l) s = true <-> P l) -> (forallb (fun c => fsem c s) (map mk ls) = true <-> Forall P ls).
Proof.
  intros H. rewrite forallb_forall, Forall_forall. split.
  - intros Hall l Hl. apply H. apply Hall. apply in_map. exact Hl.
  - intros Hall c Hc. apply in_map_iff in Hc. destruct Hc as (l & <- & Hl). apply H. auto.
Qed.

(** n_queens_gen: the four diagonal families with "<= 1", rows and columns with "= 1", then "true" *)
Definition queens_form (n : nat) : form :=
  conj_chain (map at_most1 (Queens.d1a n ++ Queens.d1b n ++ Queens.d2a n ++ Queens.d2b n) ++
              map exactly1 (Queens.rows n ++ Queens.cols n)) FTrue.

Theorem C15_formula n s : 1 <= n -> (fsem (queens_form n) s = true <-> Queens.sol n s).
Proof.
  intros Hn. rewrite <- (Queens.C15 n s Hn). unfold queens_form, Queens.sat.
  rewrite fsem_conj_chain. cbn [fsem]. rewrite andb_true_r, forallb_app, andb_true_iff.
  rewrite (forallb_map_sem at_most1 (fun l => Queens.cnt s l <= 1) s) by (intros; apply at_most1_sem).
  rewrite (forallb_map_sem exactly1 (fun l => Queens.cnt s l = 1) s) by (intros; apply exactly1_sem).
  reflexivity.
Qed.

(** sudoku_gen: hints as single variables, then the "= 1" families, then "true" *)
Definition sudoku_form (r : nat) (hints : list (nat * nat)) : form :=
  conj_chain (map (fun h => FVar (Sudoku.vid r (fst h) (snd h))) hints ++
              map exactly1 (Sudoku.cell_lists r ++ Sudoku.rowcol_lists r ++ Sudoku.box_lists r)) FTrue.

Theorem C17_formula r hints s :
  (forall c d, In (c, d) hints -> c < (r * r) * (r * r) /\ 1 <= d <= r * r) ->
  (fsem (sudoku_form r hints) s = true <-> exists g, Sudoku.grid_ok r hints g /\ Sudoku.encodes r s g).
Proof.
  intros Hh. rewrite <- (Sudoku.C17 r hints Hh s). unfold sudoku_form, Sudoku.sat.
  rewrite fsem_conj_chain. cbn [fsem]. rewrite andb_true_r, forallb_app, andb_true_iff.
  rewrite (forallb_map_sem exactly1 (fun l => Queens.cnt s l = 1) s) by (intros; apply exactly1_sem).
  rewrite forallb_forall. split.
  - intros [H1 H2]. split; auto. intros c d Hin. apply (H1 (FVar (Sudoku.vid r c d))).
    apply in_map_iff. exists (c, d). auto.
  - intros [H1 H2]. split; auto. intros f Hf. apply in_map_iff in Hf. destruct Hf as ([c d] & <- & Hin). cbn. apply H2. exact Hin.
Qed.
Print Assumptions C15_formula.
Print Assumptions C17_formula.
