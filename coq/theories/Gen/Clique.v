(** C16: max_clique_gen.  Vertices are ids; [vs] is the (arbitrary) iteration order of the vertex
    set, [comp] the complement edge list the two nested loops build, [cp] the copy naming. *)
From Coq Require Import List Arith Bool PeanoNat ZArith NArith Lia.
Import ListNotations.
From Rsbdd Require Import Core.Bdd Core.Quant Lang.Ast Lang.AstFacts Lang.Den Lang.DenFacts Lang.FSem Lang.Free.

Section Clique.
  Variable vs : list nat.
  Variable adj : nat -> nat -> bool.
  Variable comp : list (nat * nat).
  Hypothesis comp_sound : forall a b, In (a, b) comp -> In a vs /\ In b vs /\ a <> b /\ adj a b = false.
  Hypothesis comp_complete : forall a b, In a vs -> In b vs -> a <> b -> adj a b = false -> In (a, b) comp \/ In (b, a) comp.
  Hypothesis adj_sym : forall a b, adj a b = adj b a.

  Definition nonedge (m : nat -> nat) (ab : nat * nat) : form := FNot (FBin BAnd (FVar (m (fst ab))) (FVar (m (snd ab)))).
  Definition constraints (m : nat -> nat) : list form := map (nonedge m) comp.

  Definition clique (s : asg) : Prop :=
    forall a b, In a vs -> In b vs -> a <> b -> s a = true -> s b = true -> adj a b = true.

  Lemma constraints_sem m s : forallb (fun c => fsem c s) (constraints m) = true <-> clique (fun v => s (m v)).
  Proof.
    unfold constraints. rewrite forallb_forall. split.
    - intros H a b Ha Hb Hne Sa Sb. destruct (adj a b) eqn:E; auto. exfalso.
      destruct (comp_complete a b Ha Hb Hne E) as [Hin|Hin].
      + specialize (H (nonedge m (a, b)) (in_map _ _ _ Hin)). cbn in H. rewrite Sa, Sb in H. discriminate.
      + specialize (H (nonedge m (b, a)) (in_map _ _ _ Hin)). cbn in H. rewrite Sa, Sb in H. discriminate.
    - intros H c Hc. apply in_map_iff in Hc. destruct Hc as ([a b] & <- & Hin). cbn.
      destruct (comp_sound a b Hin) as (Ha & Hb & Hne & E).
      destruct (s (m a)) eqn:Sa, (s (m b)) eqn:Sb; auto. rewrite (H a b Ha Hb Hne Sa Sb) in E. discriminate.
  Qed.

  (** --all: the constraints, then [true] *)
  Definition form_all : form := conj_chain (match constraints (fun v => v) with [] => [FTrue] | cs => cs end) FTrue.

  Theorem C16_all s : fsem form_all s = true <-> clique s.
  Proof.
    unfold form_all. rewrite fsem_conj_chain. cbn [fsem]. rewrite andb_true_r.
    rewrite <- (constraints_sem (fun v => v) s). destruct (constraints (fun v => v)); cbn; tauto.
  Qed.

  (** maximality: for all copies, if the copies form a clique then it is no larger *)
  Variable cp : nat -> nat.
  Hypothesis cp_inj : forall a b, In a vs -> In b vs -> cp a = cp b -> a = b.
  Hypothesis cp_fresh : forall a b, In a vs -> In b vs -> cp a <> b.

  Fixpoint conj_nolast (cs : list form) : form :=
    match cs with [] => FTrue | [c] => c | c :: r => FBin BAnd c (conj_nolast r) end.
  Lemma fsem_conj_nolast cs s : fsem (conj_nolast cs) s = forallb (fun c => fsem c s) cs.
  Proof.
    induction cs as [|c r IH]; cbn [conj_nolast forallb]; auto.
    destruct r as [|c' r']; [cbn; now rewrite andb_true_r|]. cbn [fsem binop_sem]. rewrite IH. reflexivity.
  Qed.

  Definition body : form :=
    FBin BImplies (conj_nolast (constraints cp)) (FCountV AtLeast (map FVar vs) (map FVar (map cp vs))).
  Definition form_max : form :=
    conj_chain (match constraints (fun v => v) with [] => [FTrue] | cs => cs end) (FQuant QForall (map cp vs) body).

  Definition cnt (s : asg) : Z := count_den (map (fun v => fun s => s v) vs) s.
  Lemma count_vars l s : count_den (map fsem (map FVar l)) s = count_den (map (fun v => fun s => s v) l) s.
  Proof. induction l as [|v l IH]; cbn [map count_den fsem]; auto. rewrite IH. reflexivity. Qed.
  Lemma count_agree l s s' : (forall v, In v l -> s v = s' v) ->
    count_den (map (fun v => fun s => s v) l) s = count_den (map (fun v => fun s => s v) l) s'.
  Proof.
    induction l as [|v l IH]; intros H; cbn [map count_den]; auto.
    rewrite (H v (or_introl eq_refl)), IH; auto. intros w Hw. apply H. right. exact Hw.
  Qed.
  Lemma count_cp_gen l s : count_den (map (fun v => fun s => s v) (map cp l)) s =
                           count_den (map (fun v => fun s => s v) l) (fun v => s (cp v)).
  Proof. induction l as [|v l IH]; cbn [map count_den]; auto. rewrite IH. reflexivity. Qed.
  Lemma count_cp s : count_den (map (fun v => fun s => s v) (map cp vs)) s = cnt (fun v => s (cp v)).
  Proof. apply count_cp_gen. Qed.

  Lemma body_sem s : fsem body s = true <->
    (clique (fun v => s (cp v)) -> (cnt (fun v => s (cp v)) <= cnt s)%Z).
  Proof.
    unfold body. cbn [fsem binop_sem cop_sem]. rewrite fsem_conj_nolast, !count_vars, count_cp. fold (cnt s).
    destruct (forallb (fun c => fsem c s) (constraints cp)) eqn:E; cbn [implb].
    - apply constraints_sem in E. rewrite Z.leb_le. tauto.
    - split; auto. intros _ Hc. apply constraints_sem in Hc. congruence.
  Qed.

  Lemma nofix_conj_nolast cs : Forall nofix cs -> nofix (conj_nolast cs).
  Proof.
    induction 1 as [|c r Hc Hr IH]; cbn [conj_nolast nofix]; auto.
    destruct r as [|c' r']; auto. cbn [nofix]. auto.
  Qed.
  Lemma nofix_body : nofix body.
  Proof.
    unfold body. cbn [nofix]. split.
    - apply nofix_conj_nolast. unfold constraints. apply Forall_forall. intros g Hg.
      apply in_map_iff in Hg. destruct Hg as (ab & <- & _). cbn. auto.
    - split; apply nofix_list; apply Forall_forall; intros g Hg; apply in_map_iff in Hg; destruct Hg as (v & <- & _); exact I.
  Qed.

  Theorem C16_max s : fsem form_max s = true <->
    clique s /\ forall t, clique t -> (cnt t <= cnt s)%Z.
  Proof.
    unfold form_max. rewrite fsem_conj_chain, andb_true_iff.
    assert (Hc : forallb (fun c => fsem c s) (match constraints (fun v => v) with [] => [FTrue] | cs => cs end) = true <-> clique s).
    { rewrite <- (constraints_sem (fun v => v) s). destruct (constraints (fun v => v)); cbn; tauto. }
    rewrite Hc. cbn [fsem quant_sem].
    assert (Hres : respects (fsem body)).
    { apply (Den_respects body empty); [intros y e Hy; discriminate|apply fsem_den, nofix_body]. }
    rewrite (fold_all1_spec _ Hres). split.
    - intros [Hcl Hall]. split; auto. intros t Ht.
      (* the assignment that gives the copies the values of t *)
      set (s' := fun y => match find (fun v => Nat.eqb (cp v) y) vs with Some v => t v | None => s y end).
      assert (Hcopy : forall a, In a vs -> s' (cp a) = t a).
      { intros a Ha. unfold s'. destruct (find (fun v => Nat.eqb (cp v) (cp a)) vs) as [v|] eqn:E.
        - apply find_some in E. destruct E as [Hv E]. apply Nat.eqb_eq in E. rewrite (cp_inj v a Hv Ha E). reflexivity.
        - pose proof (find_none _ _ E a Ha) as Hn. cbn in Hn. rewrite Nat.eqb_refl in Hn. discriminate. }
      assert (Horig : forall b, In b vs -> s' b = s b).
      { intros b Hb. unfold s'. destruct (find (fun v => Nat.eqb (cp v) b) vs) as [v|] eqn:E; auto.
        apply find_some in E. destruct E as [Hv E]. apply Nat.eqb_eq in E. exfalso. exact (cp_fresh v b Hv Hb E). }
      assert (Hag : agree_outside (map cp vs) s s').
      { intros y Hy. unfold s'. destruct (find (fun v => Nat.eqb (cp v) y) vs) as [v|] eqn:E; auto.
        apply find_some in E. destruct E as [Hv E]. apply Nat.eqb_eq in E. exfalso. apply Hy. rewrite <- E. apply in_map. exact Hv. }
      specialize (Hall s' Hag). apply body_sem in Hall.
      assert (E1 : cnt (fun v => s' (cp v)) = cnt t) by (unfold cnt; apply count_agree; intros v Hv; apply Hcopy; exact Hv).
      assert (E2 : cnt s' = cnt s) by (unfold cnt; apply count_agree; intros v Hv; apply Horig; exact Hv).
      rewrite E1, E2 in Hall. apply Hall.
      intros a b Ha Hb Hne Sa Sb. rewrite Hcopy in Sa, Sb by auto. apply (Ht a b); auto.
    - intros [Hcl Hmax]. split; auto. intros s' Hag. apply body_sem. intros Hcl'.
      assert (E2 : cnt s' = cnt s).
      { unfold cnt. apply count_agree. intros v Hv. symmetry. apply Hag. intros Hin. apply in_map_iff in Hin.
        destruct Hin as (u & Hu & Hin). exact (cp_fresh u v Hin Hv Hu). }
      rewrite E2. apply Hmax. exact Hcl'.
  Qed.
End Clique.
Print Assumptions C16_max.
