(** C16: the copy prefix chosen by the repaired max_clique_gen is fresh.
    [prefix := "v_"; while some vertex name starts with prefix { prefix.push('_') }] *)
From Coq Require Import List NArith Bool Arith Lia.
Import ListNotations.
Local Open Scope N_scope.

Definition name := list N.
Fixpoint starts_with (p w : name) : bool :=
  match p, w with
  | [], _ => true
  | x :: p', y :: w' => (x =? y) && starts_with p' w'
  | _ :: _, [] => false
  end.
Lemma starts_with_spec p w : starts_with p w = true <-> exists r, w = p ++ r.
Proof.
  revert w. induction p as [|x p IH]; intros w; cbn [starts_with].
  - split; [intros _; exists w; reflexivity|auto].
  - destruct w as [|y w]; [split; [discriminate|intros (r & H); discriminate]|].
    rewrite andb_true_iff, N.eqb_eq, IH. split.
    + intros [-> (r & ->)]. exists r. reflexivity.
    + intros (r & H). inversion H; subst. split; auto. exists r. reflexivity.
Qed.

Fixpoint choose (fuel : nat) (p : name) (vs : list name) : name :=
  match fuel with
  | O => p
  | S k => if existsb (starts_with p) vs then choose k (p ++ [95]) vs else p
  end.
Definition maxlen (vs : list name) : nat := fold_right (fun v m => Nat.max (length v) m) 0%nat vs.
Definition copy_prefix (vs : list name) : name := choose (S (maxlen vs)) [118; 95] vs.   (* "v_" *)

Lemma maxlen_ge vs v : In v vs -> (length v <= maxlen vs)%nat.
Proof.
  induction vs as [|x vs IH]; intros Hin; [destruct Hin|]. cbn [maxlen fold_right]. destruct Hin as [->|H]; [lia|].
  specialize (IH H). unfold maxlen in IH. lia.
Qed.

Lemma too_long p vs : (maxlen vs < length p)%nat -> existsb (starts_with p) vs = false.
Proof.
  intros H. destruct (existsb (starts_with p) vs) eqn:E; auto. apply existsb_exists in E. destruct E as (v & Hv & Hs).
  apply starts_with_spec in Hs. destruct Hs as (r & ->). pose proof (maxlen_ge vs _ Hv) as Hl. rewrite app_length in Hl. lia.
Qed.

Lemma choose_fresh vs : forall fuel p, (maxlen vs < length p + fuel)%nat -> existsb (starts_with (choose fuel p vs)) vs = false.
Proof.
  induction fuel as [|k IH]; intros p H; cbn [choose].
  - apply too_long. lia.
  - destruct (existsb (starts_with p) vs) eqn:E; auto. apply IH. rewrite app_length. cbn [length]. lia.
Qed.

Theorem copy_prefix_fresh vs : forall v, In v vs -> starts_with (copy_prefix vs) v = false.
Proof.
  intros v Hv. pose proof (choose_fresh vs (S (maxlen vs)) [118; 95] ltac:(cbn [length]; lia)) as H.
  destruct (starts_with (copy_prefix vs) v) eqn:E; auto.
  assert (existsb (starts_with (copy_prefix vs)) vs = true) by (apply existsb_exists; exists v; auto).
  unfold copy_prefix in *. congruence.
Qed.

(** hence the copies are new names, pairwise different *)
Theorem copies_fresh vs u v : In u vs -> In v vs -> copy_prefix vs ++ u <> v.
Proof.
  intros Hu Hv H. pose proof (copy_prefix_fresh vs v Hv) as Hf.
  assert (starts_with (copy_prefix vs) v = true) by (apply starts_with_spec; exists u; auto). congruence.
Qed.
Theorem copies_injective vs u v : copy_prefix vs ++ u = copy_prefix vs ++ v -> u = v.
Proof. apply app_inv_head. Qed.
Print Assumptions copies_fresh.
