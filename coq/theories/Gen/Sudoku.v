(** C17: sudoku_gen.  Variable "_c_is_d" is the id [vid c d]; constraints are "exactly one of". *)
From Coq Require Import List Arith Bool Lia PeanoNat.
Import ListNotations.
From Rsbdd Require Import Gen.Queens.

Section Sudoku.
  Variable r : nat.
  Let sq := r * r.
  Let nc := sq * sq.
  Definition vid (c d : nat) : nat := c * (sq + 1) + d.

  (** the loops of sudoku_gen/src/main.rs:82-132 *)
  Definition cell_lists : list (list nat) := map (fun c => map (fun d => vid c d) (seq 1 sq)) (seq 0 nc).
  Definition row_list (i k : nat) : list nat := map (fun j => vid (i * sq + j) k) (seq 0 sq).
  Definition col_list (i k : nat) : list nat := map (fun j => vid (j * sq + i) k) (seq 0 sq).
  Definition rowcol_lists : list (list nat) :=
    flat_map (fun i => flat_map (fun k => [row_list i k; col_list i k]) (seq 1 sq)) (seq 0 sq).
  Definition box_list (i j k : nat) : list nat :=
    map (fun l => vid ((i * r) * sq + (j * r) + ((l / r) * sq + (l mod r))) k) (seq 0 sq).
  Definition box_lists : list (list nat) :=
    flat_map (fun i => flat_map (fun j => map (fun k => box_list i j k) (seq 1 sq)) (seq 0 r)) (seq 0 r).
  (** hints: (cell, digit) pairs with the digit in range *)
  Variable hints : list (nat * nat).
  Hypothesis hints_ok : forall c d, In (c, d) hints -> c < nc /\ 1 <= d <= sq.

  Definition sat (s : asg) : Prop :=
    Forall (fun l => cnt s l = 1) (cell_lists ++ rowcol_lists ++ box_lists) /\
    (forall c d, In (c, d) hints -> s (vid c d) = true).

  (** the specification: a completed grid *)
  Definition box_cell (i j l : nat) : nat := (i * r + l / r) * sq + (j * r + l mod r).
  Definition once (m : nat) (P : nat -> Prop) : Prop := exists j, j < m /\ P j /\ forall j', j' < m -> P j' -> j' = j.
  Definition grid_ok (g : nat -> nat) : Prop :=
    (forall c, c < nc -> 1 <= g c <= sq) /\
    (forall i k, i < sq -> 1 <= k <= sq -> once sq (fun j => g (i * sq + j) = k)) /\
    (forall i k, i < sq -> 1 <= k <= sq -> once sq (fun j => g (j * sq + i) = k)) /\
    (forall i j k, i < r -> j < r -> 1 <= k <= sq -> once sq (fun l => g (box_cell i j l) = k)) /\
    (forall c d, In (c, d) hints -> g c = d).
  Definition encodes (s : asg) (g : nat -> nat) : Prop :=
    forall c d, c < nc -> 1 <= d <= sq -> s (vid c d) = Nat.eqb (g c) d.

  (** counting over 1..m *)
  Lemma cnt_eq1_from1 (s : asg) (f : nat -> nat) m :
    cnt s (map f (seq 1 m)) = 1 <-> exists d, 1 <= d <= m /\ s (f d) = true /\ forall d', 1 <= d' <= m -> s (f d') = true -> d' = d.
  Proof.
    rewrite <- seq_shift, map_map, cnt_eq1. split.
    - intros (j & Hj & Hs & Hu). exists (S j). repeat split; auto; try lia.
      intros d' Hd' Hs'. destruct d' as [|d']; [lia|]. rewrite (Hu d'); auto. lia.
    - intros (d & Hd & Hs & Hu). destruct d as [|d]; [lia|]. exists d. repeat split; auto; try lia.
      intros j' Hj' Hs'. specialize (Hu (S j') ltac:(lia) Hs'). lia.
  Qed.

  Lemma box_index i j l : (i * r) * sq + (j * r) + ((l / r) * sq + (l mod r)) = box_cell i j l.
  Proof. unfold box_cell. ring. Qed.

  Lemma div_mod_small l : r <> 0 -> l < sq -> l / r < r /\ l mod r < r.
  Proof.
    intros Hr Hl. split; [apply Nat.div_lt_upper_bound; auto|apply Nat.mod_upper_bound; auto].
  Qed.
  Lemma box_cell_bound i j l : i < r -> j < r -> l < sq -> box_cell i j l < nc.
  Proof.
    intros Hi Hj Hl. assert (Hr : r <> 0) by lia. destruct (div_mod_small l Hr Hl) as [Hd Hm].
    unfold box_cell, nc. unfold sq in *.
    assert (i * r + l / r < r * r) by nia. assert (j * r + l mod r < r * r) by nia. nia.
  Qed.
  Lemma rowcol_bound i j : i < sq -> j < sq -> i * sq + j < nc.
  Proof. unfold nc. nia. Qed.

  Section WithGrid.
    Variable s : asg.
    Variable g : nat -> nat.
    Hypothesis Henc : encodes s g.

    Lemma list_once (cells : nat -> nat) k : 1 <= k <= sq -> (forall j, j < sq -> cells j < nc) ->
      (cnt s (map (fun j => vid (cells j) k) (seq 0 sq)) = 1 <-> once sq (fun j => g (cells j) = k)).
    Proof.
      intros Hk Hb. rewrite cnt_eq1. unfold once. split.
      - intros (j & Hj & Hs & Hu). exists j. rewrite (Henc (cells j) k (Hb j Hj) Hk) in Hs. apply Nat.eqb_eq in Hs.
        repeat split; auto. intros j' Hj' Hg. apply Hu; auto. rewrite (Henc (cells j') k (Hb j' Hj') Hk). apply Nat.eqb_eq. exact Hg.
      - intros (j & Hj & Hg & Hu). exists j. repeat split; auto.
        + rewrite (Henc (cells j) k (Hb j Hj) Hk). apply Nat.eqb_eq. exact Hg.
        + intros j' Hj' Hs. apply Hu; auto. rewrite (Henc (cells j') k (Hb j' Hj') Hk) in Hs. apply Nat.eqb_eq. exact Hs.
    Qed.
  End WithGrid.

  (** from "every cell holds exactly one value" to a grid *)
  Definition grid_of (s : asg) (c : nat) : nat :=
    match find (fun d => s (vid c d)) (seq 1 sq) with Some d => d | None => 0 end.

  Lemma grid_of_spec s c : cnt s (map (fun d => vid c d) (seq 1 sq)) = 1 ->
    1 <= grid_of s c <= sq /\ forall d, 1 <= d <= sq -> s (vid c d) = Nat.eqb (grid_of s c) d.
  Proof.
    intros H. apply cnt_eq1_from1 in H. destruct H as (d0 & Hd0 & Hs0 & Hu). unfold grid_of.
    destruct (find (fun d => s (vid c d)) (seq 1 sq)) as [d1|] eqn:E.
    - apply find_some in E. destruct E as [Hin Hs1]. apply in_seq in Hin.
      assert (d1 = d0) by (apply Hu; auto; lia). subst d1. split; [lia|].
      intros d Hd. destruct (Nat.eqb_spec d0 d) as [->|Hne]; auto.
      destruct (s (vid c d)) eqn:Es; auto. exfalso. apply Hne. symmetry. apply Hu; auto.
    - exfalso. pose proof (find_none _ _ E d0 ltac:(apply in_seq; lia)) as Hn. cbn in Hn. congruence.
  Qed.

  Theorem C17 s : sat s <-> exists g, grid_ok g /\ encodes s g.
  Proof.
    unfold sat. rewrite !Forall_app. split.
    - intros [(Hcell & Hrc & Hbox) Hh].
      set (g := grid_of s).
      assert (Hcells : forall c, c < nc -> 1 <= g c <= sq /\ forall d, 1 <= d <= sq -> s (vid c d) = Nat.eqb (g c) d).
      { intros c Hc. apply grid_of_spec. rewrite Forall_forall in Hcell. apply Hcell.
        unfold cell_lists. apply in_map_iff. exists c. split; auto. apply in_seq. lia. }
      assert (Henc : encodes s g) by (intros c d Hc Hd; apply (Hcells c Hc); auto).
      exists g. split; auto. unfold grid_ok. split; [intros c Hc; apply (Hcells c Hc)|].
      rewrite Forall_forall in Hrc, Hbox. split; [|split; [|split]].
      + intros i k Hi Hk. apply (list_once s g Henc (fun j => i * sq + j) k Hk); [intros; apply rowcol_bound; auto|].
        apply Hrc. unfold rowcol_lists. apply in_flat_map. exists i. split; [apply in_seq; lia|].
        apply in_flat_map. exists k. split; [apply in_seq; lia|]. left. reflexivity.
      + intros i k Hi Hk. apply (list_once s g Henc (fun j => j * sq + i) k Hk); [intros; apply rowcol_bound; auto|].
        apply Hrc. unfold rowcol_lists. apply in_flat_map. exists i. split; [apply in_seq; lia|].
        apply in_flat_map. exists k. split; [apply in_seq; lia|]. right. left. reflexivity.
      + intros i j k Hi Hj Hk. apply (list_once s g Henc (box_cell i j) k Hk); [intros; apply box_cell_bound; auto|].
        assert (E : map (fun l => vid (box_cell i j l) k) (seq 0 sq) = box_list i j k).
        { unfold box_list. apply map_ext. intros l. rewrite box_index. reflexivity. }
        rewrite E. apply Hbox. unfold box_lists. apply in_flat_map. exists i. split; [apply in_seq; lia|].
        apply in_flat_map. exists j. split; [apply in_seq; lia|]. apply in_map_iff. exists k. split; auto. apply in_seq. lia.
      + intros c d Hin. destruct (hints_ok c d Hin) as [Hc Hd]. specialize (Hh c d Hin).
        rewrite (Henc c d Hc Hd) in Hh. apply Nat.eqb_eq. exact Hh.
    - intros (g & (Hrange & Hrow & Hcol & Hbx & Hhint) & Henc). split; [split; [|split]|].
      + apply Forall_forall. intros l Hl. unfold cell_lists in Hl. apply in_map_iff in Hl. destruct Hl as (c & <- & Hc).
        apply in_seq in Hc. apply cnt_eq1_from1. exists (g c). destruct (Hrange c ltac:(lia)) as [H1 H2].
        repeat split; auto.
        * rewrite (Henc c (g c)); [apply Nat.eqb_refl|lia|lia].
        * intros d' Hd' Hs'. rewrite (Henc c d') in Hs'; [|lia|lia]. apply Nat.eqb_eq in Hs'. auto.
      + apply Forall_forall. intros l Hl. unfold rowcol_lists in Hl. apply in_flat_map in Hl. destruct Hl as (i & Hi & Hl).
        apply in_seq in Hi. apply in_flat_map in Hl. destruct Hl as (k & Hk & Hl). apply in_seq in Hk.
        destruct Hl as [<-|[<-|[]]].
        * apply (list_once s g Henc (fun j => i * sq + j) k ltac:(lia)); [intros; apply rowcol_bound; lia|]. apply Hrow; lia.
        * apply (list_once s g Henc (fun j => j * sq + i) k ltac:(lia)); [intros; apply rowcol_bound; lia|]. apply Hcol; lia.
      + apply Forall_forall. intros l Hl. unfold box_lists in Hl. apply in_flat_map in Hl. destruct Hl as (i & Hi & Hl).
        apply in_seq in Hi. apply in_flat_map in Hl. destruct Hl as (j & Hj & Hl). apply in_seq in Hj.
        apply in_map_iff in Hl. destruct Hl as (k & <- & Hk). apply in_seq in Hk.
        assert (E : map (fun l => vid (box_cell i j l) k) (seq 0 sq) = box_list i j k).
        { unfold box_list. apply map_ext. intros l. rewrite box_index. reflexivity. }
        rewrite <- E. apply (list_once s g Henc (box_cell i j) k ltac:(lia)); [intros; apply box_cell_bound; lia|]. apply Hbx; lia.
      + intros c d Hin. destruct (hints_ok c d Hin) as [Hc Hd]. rewrite (Henc c d Hc Hd). apply Nat.eqb_eq. apply Hhint. exact Hin.
  Qed.

  (** the box enumeration really is the r x r block *)
  Lemma box_cell_block i j p q : r <> 0 -> p < r -> q < r -> box_cell i j (p * r + q) = (i * r + p) * sq + (j * r + q).
  Proof.
    intros Hr Hp Hq. unfold box_cell. rewrite Nat.div_add_l by auto. rewrite Nat.div_small by auto.
    rewrite Nat.add_comm with (n := p * r). rewrite Nat.mod_add by auto. rewrite Nat.mod_small by auto. rewrite Nat.add_0_r. reflexivity.
  Qed.
End Sudoku.
Print Assumptions C17.
