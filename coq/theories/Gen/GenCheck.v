(** Executable pieces for the generator suites: admissibility of a random_graph_gen output, the
    hint reader of sudoku_gen.  Definitions and their soundness lemmas. *)
From Coq Require Import List Arith Bool Lia PeanoNat Permutation NArith.
Import ListNotations.
From Rsbdd Require Import Gen.Graph Gen.Colors.

Fixpoint nodupb (l : list edge) : bool :=
  match l with [] => true | e :: r => negb (mem_edge e r) && nodupb r end.

(** [out] is an admissible answer to the request (V, E, u): E distinct candidate edges *)
Definition valid_output (V E : nat) (u : bool) (out : list edge) : bool :=
  Nat.eqb (length out) E && nodupb out && forallb (fun e => mem_edge e (candidates V u)) out.
Definition feasible (V E : nat) (u : bool) : bool := Nat.leb E (length (candidates V u)).

Lemma mem_edge_In e l : mem_edge e l = true <-> In e l.
Proof.
  unfold mem_edge. rewrite existsb_exists. split.
  - intros (x & Hx & E). destruct e, x. unfold edge_eqb in E. cbn in E. apply andb_true_iff in E. destruct E as [E1 E2].
    apply Nat.eqb_eq in E1, E2. subst. exact Hx.
  - intros H. exists e. split; auto. destruct e. unfold edge_eqb. cbn. now rewrite !Nat.eqb_refl.
Qed.
Lemma nodupb_NoDup l : nodupb l = true <-> NoDup l.
Proof.
  induction l as [|e r IH]; cbn [nodupb]; [split; [constructor|auto]|].
  rewrite andb_true_iff, negb_true_iff, IH. split.
  - intros [H1 H2]. constructor; auto. intros Hin. apply mem_edge_In in Hin. congruence.
  - intros H. inversion H; subst. split; auto. destruct (mem_edge e r) eqn:E; auto. apply mem_edge_In in E. contradiction.
Qed.

Theorem valid_output_sound V E u out : valid_output V E u out = true ->
  length out = E /\ NoDup out /\ (forall a b, In (a, b) out -> a <> b /\ a < V /\ b < V) /\
  (u = true -> forall a b, In (a, b) out -> ~ In (b, a) out).
Proof.
  unfold valid_output. rewrite !andb_true_iff. intros [[Hl Hn] Hc].
  apply Nat.eqb_eq in Hl. apply nodupb_NoDup in Hn. rewrite forallb_forall in Hc.
  assert (Hin : forall e, In e out -> In e (candidates V u)) by (intros e He; apply mem_edge_In; apply Hc; exact He).
  split; [exact Hl|]. split; [exact Hn|]. split.
  - intros a b Hab. specialize (Hin _ Hab). unfold candidates in Hin. destruct u.
    + apply in_cand_undirected in Hin. lia.
    + apply in_cand_directed in Hin. lia.
  - intros -> a b Hab Hba. pose proof (Hin _ Hab) as H1. pose proof (Hin _ Hba) as H2. cbn [candidates] in H1, H2.
    apply in_cand_undirected in H1, H2. lia.
Qed.

(** conversely every output the generator model can produce is admissible, whatever the shuffle *)
Theorem gen_graph_valid (shuffle : list edge -> list edge) : (forall l, Permutation (shuffle l) l) ->
  forall V E u out, gen_graph shuffle V E u = Some out -> valid_output V E u out = true.
Proof.
  intros Hp V E u out Hg. pose proof (Hp (candidates V u)) as HP.
  pose proof (C18_gen shuffle Hp V E u) as HC. rewrite Hg in HC. destruct HC as (Hl & Hn & _ & _).
  unfold gen_graph in Hg. cbv zeta in Hg.
  match type of Hg with context [if ?b then _ else _] => destruct b eqn:Hle end; [|discriminate Hg].
  injection Hg as <-. unfold valid_output. rewrite !andb_true_iff. repeat split.
  - apply Nat.eqb_eq. exact Hl.
  - apply nodupb_NoDup. exact Hn.
  - apply forallb_forall. intros e He. apply mem_edge_In. apply (Permutation_in _ HP). apply (firstn_incl E _ e He).
Qed.

(** sudoku_gen's hint reader (sudoku_gen/src/main.rs:51-74): whitespace is stripped, then for every
    cell i below the number of cells the i-th remaining character gives a hint iff it is an ASCII digit.
    [ws] classifies white space (Unicode White_Space; the ASCII part is fixed, the rest is supplied). *)
Local Open Scope N_scope.
Definition ascii_ws (c : N) : bool := (c =? 32) || ((9 <=? c) && (c <=? 13)).
Fixpoint hints_from (i : nat) (cells : nat) (l : list N) : list (nat * nat) :=
  match cells, l with
  | O, _ => []
  | _, [] => []
  | S n', c :: r =>
      (if (48 <=? c) && (c <=? 57) then [(i, N.to_nat (c - 48))] else []) ++ hints_from (S i) n' r
  end.
Definition hints_of_text (ws : N -> bool) (cells : nat) (txt : list N) : list (nat * nat) :=
  hints_from 0 cells (filter (fun c => negb (ws c)) txt).

Lemma hints_from_range : forall cells i l c d, In (c, d) (hints_from i cells l) -> (i <= c < i + cells)%nat /\ (d <= 9)%nat.
Proof.
  induction cells as [|n IH]; intros i l c d H; cbn [hints_from] in H; [destruct H|].
  destruct l as [|x r]; [destruct H|]. apply in_app_or in H. destruct H as [H|H].
  - destruct ((48 <=? x) && (x <=? 57)) eqn:E; [|destruct H]. destruct H as [H|[]]. inversion H; subst.
    apply andb_true_iff in E. destruct E as [E1 E2]. apply N.leb_le in E1, E2. split; lia.
  - destruct (IH (S i) r c d H). split; lia.
Qed.
