(** C15: n_queens_gen emits constraints whose models are exactly the n-queens solutions. *)
From Coq Require Import List Arith Bool Lia PeanoNat.
Import ListNotations.

Definition asg := nat -> bool.
Definition cnt (s : asg) (l : list nat) := length (filter s l).

(* the generator, loop by loop (n_queens_gen/src/main.rs) *)
Definition d1a n := map (fun i => map (fun j => i + j * (n + 1)) (seq 0 (n - i))) (seq 0 n).
Definition d1b n := map (fun i => map (fun j => i * n + j * (n + 1)) (seq 0 (n - i))) (seq 1 (n - 1)).
Definition d2a n := map (fun i => map (fun j => i + j * (n - 1)) (seq 0 (S i))) (seq 0 n).
Definition d2b n := map (fun i => map (fun j => n * (n - j) - (i - j)) (seq 0 i)) (seq 1 (n - 1)).
Definition rows n := map (fun i => map (fun j => j + i * n) (seq 0 n)) (seq 0 n).
Definition cols n := map (fun i => map (fun j => i + j * n) (seq 0 n)) (seq 0 n).
Definition sat n (s : asg) :=
  Forall (fun l => cnt s l <= 1) (d1a n ++ d1b n ++ d2a n ++ d2b n) /\
  Forall (fun l => cnt s l = 1) (rows n ++ cols n).

(* the specification, in coordinates *)
Definition cell n r c := r * n + c.
Definition q n (s : asg) r c := s (cell n r c) = true.
Definition sol n (s : asg) :=
  (forall r, r < n -> exists c, c < n /\ q n s r c /\ forall c', c' < n -> q n s r c' -> c' = c) /\
  (forall c, c < n -> exists r, r < n /\ q n s r c /\ forall r', r' < n -> q n s r' c -> r' = r) /\
  (forall r1 c1 r2 c2, r1 < n -> c1 < n -> r2 < n -> c2 < n -> q n s r1 c1 -> q n s r2 c2 ->
     (r1 + c2 = r2 + c1 \/ r1 + c1 = r2 + c2) -> r1 = r2 /\ c1 = c2).

(* counting over an indexed family *)
Lemma cnt_le1 (s : asg) (f : nat -> nat) : forall m a,
  (cnt s (map f (seq a m)) <= 1 <-> forall j1 j2, a <= j1 < a + m -> a <= j2 < a + m -> s (f j1) = true -> s (f j2) = true -> j1 = j2).
Proof.
  unfold cnt. induction m as [|m IH]; intros a; simpl.
  - split; [intros _ j1 j2 H; lia|lia].
  - destruct (s (f a)) eqn:E; simpl.
    + split.
      * intros H j1 j2 H1 H2 S1 S2.
        assert (Z : length (filter s (map f (seq (S a) m))) = 0) by lia.
        assert (forall j, S a <= j < S a + m -> s (f j) = false).
        { intros j Hj. destruct (s (f j)) eqn:Ej; auto. exfalso.
          assert (In (f j) (filter s (map f (seq (S a) m)))).
          { apply filter_In. split; auto. apply in_map. apply in_seq. lia. }
          destruct (filter s (map f (seq (S a) m))); [contradiction|discriminate]. }
        destruct (Nat.eq_dec j1 a), (Nat.eq_dec j2 a); subst; auto.
        -- rewrite H0 in S2 by lia. discriminate.
        -- rewrite H0 in S1 by lia. discriminate.
        -- rewrite H0 in S1 by lia. discriminate.
      * intros H. 
        assert (Z : filter s (map f (seq (S a) m)) = []).
        { destruct (filter s (map f (seq (S a) m))) as [|x l] eqn:Ef; auto. exfalso.
          assert (Hin : In x (filter s (map f (seq (S a) m)))) by (rewrite Ef; left; auto).
          apply filter_In in Hin. destruct Hin as [Hin Hs]. apply in_map_iff in Hin. destruct Hin as (j & <- & Hj).
          apply in_seq in Hj. assert (j = a) by (apply H; auto; lia). lia. }
        rewrite Z. simpl. lia.
    + rewrite IH. split; intros H j1 j2 H1 H2 S1 S2.
      * destruct (Nat.eq_dec j1 a), (Nat.eq_dec j2 a); subst; try congruence. apply H; auto; lia.
      * apply H; auto; lia.
Qed.

Lemma cell_inj n r c r' c' : c < n -> c' < n -> cell n r c = cell n r' c' -> r = r' /\ c = c'.
Proof. unfold cell. intros. assert (r = r') by nia. subst. lia. Qed.

(* every attacking pair on a falling diagonal (r1 + c2 = r2 + c1) lies in one list of d1a/d1b *)
Lemma falling_covered n s : Forall (fun l => cnt s l <= 1) (d1a n ++ d1b n) ->
  forall r1 c1 r2 c2, r1 < n -> c1 < n -> r2 < n -> c2 < n -> q n s r1 c1 -> q n s r2 c2 ->
  r1 + c2 = r2 + c1 -> r1 = r2 /\ c1 = c2.
Proof.
  intros H r1 c1 r2 c2 Hr1 Hc1 Hr2 Hc2 Q1 Q2 Hd. rewrite Forall_app in H. destruct H as [Ha Hb].
  rewrite Forall_forall in Ha, Hb. unfold q, cell in *.
  destruct (le_lt_dec r1 c1) as [Hle|Hgt].
  - (* on or above the main diagonal: list i = c1 - r1 of d1a, positions j = r *)
    set (i := c1 - r1).
    assert (Hin : In (map (fun j => i + j * (n + 1)) (seq 0 (n - i))) (d1a n)).
    { unfold d1a. apply in_map_iff. exists i. split; auto. apply in_seq. lia. }
    specialize (Ha _ Hin). rewrite cnt_le1 in Ha.
    assert (r1 = r2).
    { apply Ha; try lia.
      - replace (i + r1 * (n + 1)) with (r1 * n + c1) by lia. auto.
      - replace (i + r2 * (n + 1)) with (r2 * n + c2) by lia. auto. }
    lia.
  - set (i := r1 - c1).
    assert (Hin : In (map (fun j => i * n + j * (n + 1)) (seq 0 (n - i))) (d1b n)).
    { unfold d1b. apply in_map_iff. exists i. split; auto. apply in_seq. lia. }
    specialize (Hb _ Hin). rewrite cnt_le1 in Hb.
    assert (c1 = c2).
    { apply Hb; try lia.
      - replace (i * n + c1 * (n + 1)) with (r1 * n + c1) by nia. auto.
      - replace (i * n + c2 * (n + 1)) with (r2 * n + c2) by nia. auto. }
    lia.
Qed.

(* and conversely every list of d1a/d1b is a set of cells of one falling diagonal *)
Lemma falling_sound n s : 
  (forall r1 c1 r2 c2, r1 < n -> c1 < n -> r2 < n -> c2 < n -> q n s r1 c1 -> q n s r2 c2 ->
     r1 + c2 = r2 + c1 -> r1 = r2 /\ c1 = c2) ->
  Forall (fun l => cnt s l <= 1) (d1a n ++ d1b n).
Proof.
  intros H. rewrite Forall_app. split; rewrite Forall_forall; intros l Hl.
  - unfold d1a in Hl. apply in_map_iff in Hl. destruct Hl as (i & <- & Hi). apply in_seq in Hi.
    rewrite cnt_le1. intros j1 j2 H1 H2 S1 S2.
    assert (E1 : i + j1 * (n + 1) = cell n j1 (i + j1)) by (unfold cell; lia).
    assert (E2 : i + j2 * (n + 1) = cell n j2 (i + j2)) by (unfold cell; lia).
    rewrite E1 in S1. rewrite E2 in S2.
    destruct (H j1 (i + j1) j2 (i + j2)); auto; lia.
  - unfold d1b in Hl. apply in_map_iff in Hl. destruct Hl as (i & <- & Hi). apply in_seq in Hi.
    rewrite cnt_le1. intros j1 j2 H1 H2 S1 S2.
    assert (E1 : i * n + j1 * (n + 1) = cell n (i + j1) j1) by (unfold cell; nia).
    assert (E2 : i * n + j2 * (n + 1) = cell n (i + j2) j2) by (unfold cell; nia).
    rewrite E1 in S1. rewrite E2 in S2.
    destruct (H (i + j1) j1 (i + j2) j2); auto; lia.
Qed.

(* ---------- rising diagonals (r + c constant) ---------- *)
Lemma rising_covered n s : 1 <= n -> Forall (fun l => cnt s l <= 1) (d2a n ++ d2b n) ->
  forall r1 c1 r2 c2, r1 < n -> c1 < n -> r2 < n -> c2 < n -> q n s r1 c1 -> q n s r2 c2 ->
  r1 + c1 = r2 + c2 -> r1 = r2 /\ c1 = c2.
Proof.
  intros Hn H r1 c1 r2 c2 Hr1 Hc1 Hr2 Hc2 Q1 Q2 Hd. rewrite Forall_app in H. destruct H as [Ha Hb].
  rewrite Forall_forall in Ha, Hb. unfold q, cell in *.
  destruct (le_lt_dec n (r1 + c1)) as [Hge|Hlt].
  - (* lower right part: list i = 2n-1-(r+c) of d2b, position j = n-1-r *)
    set (i := 2 * n - 1 - (r1 + c1)).
    assert (Hin : In (map (fun j => n * (n - j) - (i - j)) (seq 0 i)) (d2b n)).
    { unfold d2b. apply in_map_iff. exists i. split; auto. apply in_seq. lia. }
    specialize (Hb _ Hin). rewrite cnt_le1 in Hb.
    assert (n - 1 - r1 = n - 1 - r2).
    { apply Hb; try lia.
      - replace (n * (n - (n - 1 - r1)) - (i - (n - 1 - r1))) with (r1 * n + c1) by nia. auto.
      - replace (n * (n - (n - 1 - r2)) - (i - (n - 1 - r2))) with (r2 * n + c2) by nia. auto. }
    lia.
  - set (i := r1 + c1).
    assert (Hin : In (map (fun j => i + j * (n - 1)) (seq 0 (S i))) (d2a n)).
    { unfold d2a. apply in_map_iff. exists i. split; auto. apply in_seq. lia. }
    specialize (Ha _ Hin). rewrite cnt_le1 in Ha.
    assert (r1 = r2).
    { apply Ha; try lia.
      - replace (i + r1 * (n - 1)) with (r1 * n + c1) by nia. auto.
      - replace (i + r2 * (n - 1)) with (r2 * n + c2) by nia. auto. }
    lia.
Qed.

Lemma rising_sound n s : 1 <= n ->
  (forall r1 c1 r2 c2, r1 < n -> c1 < n -> r2 < n -> c2 < n -> q n s r1 c1 -> q n s r2 c2 ->
     r1 + c1 = r2 + c2 -> r1 = r2 /\ c1 = c2) ->
  Forall (fun l => cnt s l <= 1) (d2a n ++ d2b n).
Proof.
  intros Hn H. rewrite Forall_app. split; rewrite Forall_forall; intros l Hl.
  - unfold d2a in Hl. apply in_map_iff in Hl. destruct Hl as (i & <- & Hi). apply in_seq in Hi.
    rewrite cnt_le1. intros j1 j2 H1 H2 S1 S2.
    assert (E1 : i + j1 * (n - 1) = cell n j1 (i - j1)) by (unfold cell; nia).
    assert (E2 : i + j2 * (n - 1) = cell n j2 (i - j2)) by (unfold cell; nia).
    rewrite E1 in S1. rewrite E2 in S2.
    destruct (H j1 (i - j1) j2 (i - j2)); auto; lia.
  - unfold d2b in Hl. apply in_map_iff in Hl. destruct Hl as (i & <- & Hi). apply in_seq in Hi.
    rewrite cnt_le1. intros j1 j2 H1 H2 S1 S2.
    assert (E1 : n * (n - j1) - (i - j1) = cell n (n - 1 - j1) (n - i + j1)) by (unfold cell; nia).
    assert (E2 : n * (n - j2) - (i - j2) = cell n (n - 1 - j2) (n - i + j2)) by (unfold cell; nia).
    rewrite E1 in S1. rewrite E2 in S2.
    destruct (H (n - 1 - j1) (n - i + j1) (n - 1 - j2) (n - i + j2)); auto; lia.
Qed.

(* ---------- exactly one ---------- *)
Lemma cnt_eq1 (s : asg) (f : nat -> nat) m :
  cnt s (map f (seq 0 m)) = 1 <->
  exists j, j < m /\ s (f j) = true /\ forall j', j' < m -> s (f j') = true -> j' = j.
Proof.
  split.
  - intros H.
    assert (Hle : cnt s (map f (seq 0 m)) <= 1) by lia. rewrite cnt_le1 in Hle.
    unfold cnt in H.
    destruct (filter s (map f (seq 0 m))) as [|x l] eqn:Ef; [discriminate|].
    assert (Hin : In x (filter s (map f (seq 0 m)))) by (rewrite Ef; left; auto).
    apply filter_In in Hin. destruct Hin as [Hin Hs]. apply in_map_iff in Hin. destruct Hin as (j & <- & Hj).
    apply in_seq in Hj. exists j. split; [lia|]. split; auto. intros j' Hj' Hs'. apply Hle; auto; lia.
  - intros (j & Hj & Hs & Hu).
    assert (Hle : cnt s (map f (seq 0 m)) <= 1).
    { rewrite cnt_le1. intros j1 j2 H1 H2 S1 S2. rewrite (Hu j1), (Hu j2); auto; lia. }
    assert (Hge : 1 <= cnt s (map f (seq 0 m))).
    { unfold cnt. assert (In (f j) (filter s (map f (seq 0 m)))).
      { apply filter_In. split; auto. apply in_map. apply in_seq. lia. }
      destruct (filter s (map f (seq 0 m))); [contradiction|simpl; lia]. }
    lia.
Qed.

Theorem C15 n s : 1 <= n -> (sat n s <-> sol n s).
Proof.
  intros Hn. unfold sat, sol. split.
  - intros [Hd Hrc].
    rewrite !Forall_app in Hd. destruct Hd as (D1a & D1b & D2a & D2b).
    rewrite Forall_app in Hrc. destruct Hrc as [HR HC]. rewrite Forall_forall in HR, HC.
    split; [|split].
    + intros r Hr.
      assert (Hin : In (map (fun j => j + r * n) (seq 0 n)) (rows n)).
      { unfold rows. apply in_map_iff. exists r. split; auto. apply in_seq. lia. }
      apply HR in Hin. apply cnt_eq1 in Hin. destruct Hin as (c & Hc & Hs & Hu).
      exists c. split; auto. unfold q, cell. rewrite Nat.add_comm. split; auto.
      intros c' Hc' Hq. apply Hu; auto. rewrite Nat.add_comm. exact Hq.
    + intros c Hc.
      assert (Hin : In (map (fun j => c + j * n) (seq 0 n)) (cols n)).
      { unfold cols. apply in_map_iff. exists c. split; auto. apply in_seq. lia. }
      apply HC in Hin. apply cnt_eq1 in Hin. destruct Hin as (r & Hr & Hs & Hu).
      exists r. split; auto. unfold q, cell. rewrite Nat.add_comm. split; auto.
      intros r' Hr' Hq. apply Hu; auto. rewrite Nat.add_comm. exact Hq.
    + intros r1 c1 r2 c2 Hr1 Hc1 Hr2 Hc2 Q1 Q2 [Hf|Hr].
      * eapply (falling_covered n s); eauto. rewrite Forall_app; auto.
      * eapply (rising_covered n s); eauto. rewrite Forall_app; auto.
  - intros (HR & HC & HD). split.
    + rewrite app_assoc. rewrite Forall_app. split.
      * apply falling_sound; intros; eapply HD; eauto.
      * apply rising_sound; auto; intros; eapply HD; eauto.
    + rewrite Forall_app. split; rewrite Forall_forall; intros l Hl.
      * unfold rows in Hl. apply in_map_iff in Hl. destruct Hl as (r & <- & Hr). apply in_seq in Hr.
        apply cnt_eq1. destruct (HR r) as (c & Hc & Hq & Hu); [lia|].
        exists c. split; auto. unfold q, cell in *. rewrite Nat.add_comm. split; auto.
        intros c' Hc' Hs. apply Hu; auto. rewrite Nat.add_comm. exact Hs.
      * unfold cols in Hl. apply in_map_iff in Hl. destruct Hl as (c & <- & Hc). apply in_seq in Hc.
        apply cnt_eq1. destruct (HC c) as (r & Hr & Hq & Hu); [lia|].
        exists r. split; auto. unfold q, cell in *. rewrite Nat.add_comm. split; auto.
        intros r' Hr' Hs. apply Hu; auto. rewrite Nat.add_comm. exact Hs.
Qed.
Print Assumptions C15.
