(** C15 / C16 / C17 at the level of the text: the token streams the generators print parse to exactly the formulas the theorems
    C15 / C16 / C17 are about.  n_queens_gen and sudoku_gen print one item per line - a hint variable, or a list of variables
    compared with 1 ("[v_0,v_5,] <= 1" with a comma after every element; "[a, b] = 1" joined by commas) - each followed by "&",
    and close with "true"; max_clique_gen prints "-(a & b) &" lines and closes with "true" or the maximality clause. *)
From Coq Require Import List NArith.
Import ListNotations.
From Rsbdd Require Import Lang.Ast Lang.FSem Syntax.Token Syntax.Grammar Syntax.Parser Syntax.ParserComplete Syntax.Printer.
From Rsbdd Require Import Gen.Queens Gen.Sudoku Gen.Forms Gen.Clique.

(** "a, b, c" *)
Fixpoint names (l : list nat) : list token :=
  match l with [] => [] | [v] => [TVar v] | v :: r => TVar v :: TComma :: names r end.
Lemma names_vars l : Gvars (names l) l.
Proof.
  induction l as [|v r IH]; cbn [names]; [constructor|]. destruct r as [|w r']; [constructor|]. apply Gv_cons. exact IH.
Qed.
Lemma names_items l : Gitems (names l ++ [TCloseSquare]) (map FVar l).
Proof.
  induction l as [|v r IH]; cbn [names map app]; [constructor|]. destruct r as [|w r'].
  - apply (Gi_one [TVar v]). apply Gs_closed. constructor.
  - change ((TVar v :: TComma :: names (w :: r')) ++ [TCloseSquare]) with ([TVar v] ++ TComma :: (names (w :: r') ++ [TCloseSquare])).
    apply Gi_cons; [apply Gs_closed; constructor|exact IH].
Qed.

(** an item of a generated chain: a variable, or a list of variables compared with 1; n_queens_gen writes a comma after every
    element ("[v_0,v_5,] <= 1"), sudoku_gen joins with ", " ("[a, b] = 1") *)
Inductive item : Type := IVar (v : nat) | ICount (trailing : bool) (op : cop) (cells : list nat).
Definition item_form (i : item) : form :=
  match i with IVar v => FVar v | ICount _ op l => FCountC op (map FVar l) 1 end.
Definition cells_tokens (l : list nat) : list token := flat_map (fun c => [TVar c; TComma]) l ++ [TCloseSquare].
Definition item_tokens (i : item) : list token :=
  match i with
  | IVar v => [TVar v]
  | ICount tr op l => TOpenSquare :: (if tr then cells_tokens l else names l ++ [TCloseSquare]) ++ [tok_of_cop op; TNum 1]
  end.
Fixpoint chain_tokens (is : list item) : list token :=
  match is with [] => [TTrue] | i :: r => item_tokens i ++ TAnd :: chain_tokens r end.

Lemma cells_items l : Gitems (cells_tokens l) (map FVar l).
Proof.
  induction l as [|c l IH]; cbn [cells_tokens flat_map map app]; [constructor|].
  change (TVar c :: TComma :: flat_map (fun c0 => [TVar c0; TComma]) l ++ [TCloseSquare]) with ([TVar c] ++ TComma :: cells_tokens l).
  apply Gi_cons; [apply Gs_closed; constructor|exact IH].
Qed.
Lemma item_closed i : Gclosed (item_tokens i) (item_form i).
Proof.
  destruct i as [v|tr op l]; cbn [item_tokens item_form]; [constructor|].
  apply Gc_countc; [destruct tr; [apply cells_items|apply names_items]|apply cop_of_tok].
Qed.
Lemma chain_sub is : Gsub (chain_tokens is) (conj_chain (map item_form is) FTrue).
Proof.
  induction is as [|i r IH]; cbn [chain_tokens map conj_chain]; [apply Gs_closed; constructor|].
  apply Gs_bin; [apply item_closed|reflexivity|exact IH].
Qed.
Theorem chain_parses is : parse (chain_tokens is ++ [TEof]) = Ok (conj_chain (map item_form is) FTrue) [].
Proof. apply C08_complete. exists (chain_tokens is). split; [reflexivity|apply chain_sub]. Qed.

(** n_queens_gen *)
Definition queens_items (n : nat) : list item :=
  map (ICount true AtMost) (Queens.d1a n ++ Queens.d1b n ++ Queens.d2a n ++ Queens.d2b n) ++ map (ICount true Exactly) (Queens.rows n ++ Queens.cols n).
Lemma queens_items_form n : conj_chain (map item_form (queens_items n)) FTrue = queens_form n.
Proof. unfold queens_items, queens_form. rewrite map_app, !map_map. reflexivity. Qed.
Theorem C15_text n : parse (chain_tokens (queens_items n) ++ [TEof]) = Ok (queens_form n) [].
Proof. rewrite <- queens_items_form. apply chain_parses. Qed.

(** sudoku_gen *)
Definition sudoku_items (r : nat) (hints : list (nat * nat)) : list item :=
  map (fun h => IVar (Sudoku.vid r (fst h) (snd h))) hints ++
  map (ICount false Exactly) (Sudoku.cell_lists r ++ Sudoku.rowcol_lists r ++ Sudoku.box_lists r).
Lemma sudoku_items_form r hints : conj_chain (map item_form (sudoku_items r hints)) FTrue = sudoku_form r hints.
Proof. unfold sudoku_items, sudoku_form. rewrite map_app, !map_map. reflexivity. Qed.
Theorem C17_tokens r hints : parse (chain_tokens (sudoku_items r hints) ++ [TEof]) = Ok (sudoku_form r hints) [].
Proof. rewrite <- sudoku_items_form. apply chain_parses. Qed.

(** max_clique_gen: one line "-(a & b) &" per complement pair (or "true &" when there is none), then "true" (--all) or
    "forall copies # ( -(a' & b') & .. ) => [vertices] >= [copies]" with comma-separated lists without trailing comma. *)
Section CliqueText.
  Variable vs : list nat.
  Variable comp : list (nat * nat).
  Variable cp : nat -> nat.
  Definition nonedge_tokens (m : nat -> nat) (ab : nat * nat) : list token :=
    [TNot; TOpenParen; TVar (m (fst ab)); TAnd; TVar (m (snd ab)); TCloseParen].
  Lemma nonedge_closed m ab : Gclosed (nonedge_tokens m ab) (nonedge m ab).
  Proof.
    unfold nonedge_tokens, nonedge. apply Gc_not.
    apply (Gc_paren [TVar (m (fst ab)); TAnd; TVar (m (snd ab))]).
    apply (Gs_bin [TVar (m (fst ab))] _ TAnd BAnd [TVar (m (snd ab))]); [constructor|reflexivity|apply Gs_closed; constructor].
  Qed.
  (** closed terms, each followed by "&", then a last part *)
  Fixpoint lines (cs : list (list token)) (last : list token) : list token :=
    match cs with [] => last | c :: r => c ++ TAnd :: lines r last end.
  Lemma lines_sub cs fs last flast :
    Forall2 Gclosed cs fs -> Gsub last flast -> Gsub (lines cs last) (conj_chain fs flast).
  Proof.
    induction 1 as [|c f cs fs Hc _ IH]; intros Hl; cbn [lines conj_chain]; [exact Hl|].
    apply Gs_bin; [exact Hc|reflexivity|apply IH; exact Hl].
  Qed.
  (** closed terms joined by "&" without a trailing one; "true" when there is none *)
  Fixpoint joined (cs : list (list token)) : list token :=
    match cs with [] => [TTrue] | [c] => c | c :: r => c ++ TAnd :: joined r end.
  Lemma joined_sub cs fs : Forall2 Gclosed cs fs -> Gsub (joined cs) (conj_nolast fs).
  Proof.
    induction 1 as [|c f cs fs Hc Hr IH]; cbn [joined conj_nolast]; [apply Gs_closed; constructor|].
    destruct Hr as [|c' f' cs' fs' Hc' Hr']; [apply Gs_closed; exact Hc|].
    apply Gs_bin; [exact Hc|reflexivity|exact IH].
  Qed.
  Lemma constraints_closed m : Forall2 Gclosed (map (nonedge_tokens m) comp) (constraints comp m).
  Proof. unfold constraints. induction comp as [|ab l IH]; cbn [map]; constructor; [apply nonedge_closed|exact IH]. Qed.
  Definition head_tokens : list (list token) :=
    match comp with [] => [[TTrue]] | _ => map (nonedge_tokens (fun v => v)) comp end.
  Lemma head_closed : Forall2 Gclosed head_tokens (match constraints comp (fun v => v) with [] => [FTrue] | cs => cs end).
  Proof.
    unfold head_tokens. pose proof (constraints_closed (fun v => v)) as H. unfold constraints in *.
    destruct comp as [|ab l]; cbn [map] in *; [repeat constructor|exact H].
  Qed.
  Definition all_tokens : list token := lines head_tokens [TTrue].
  Definition max_tokens : list token :=
    lines head_tokens
      (TForall :: names (map cp vs) ++ THash ::
         (TOpenParen :: joined (map (nonedge_tokens cp) comp) ++ [TCloseParen]) ++ TImplies ::
         TOpenSquare :: (names vs ++ [TCloseSquare]) ++ TGeq :: TOpenSquare :: names (map cp vs) ++ [TCloseSquare]).
  Theorem all_parses : parse (all_tokens ++ [TEof]) = Ok (form_all comp) [].
  Proof.
    apply C08_complete. exists all_tokens. split; [reflexivity|]. unfold all_tokens, form_all.
    apply lines_sub; [apply head_closed|apply Gs_closed; constructor].
  Qed.
  Theorem max_parses : parse (max_tokens ++ [TEof]) = Ok (form_max vs comp cp) [].
  Proof.
    apply C08_complete. exists max_tokens. split; [reflexivity|]. unfold max_tokens, form_max.
    apply lines_sub; [apply head_closed|]. apply Gs_open. apply Go_forall; [apply names_vars|]. unfold body.
    apply Gs_bin; [|reflexivity|].
    - apply Gc_paren. apply joined_sub. apply constraints_closed.
    - apply Gs_closed. apply Gc_countv; [apply names_items|reflexivity|]. apply names_items.
  Qed.
End CliqueText.
Print Assumptions C15_text. Print Assumptions C17_tokens. Print Assumptions max_parses.
