(** C16: the complement edge list built by the two nested loops of max_clique_gen
    (main.rs:59-79) has the two properties that Clique.v assumes. *)
From Coq Require Import List Arith Bool Lia PeanoNat.
Import ListNotations.
From Rsbdd Require Import Gen.Colors.

Section Comp.
  Variable vs : list nat.
  Variable E : list edge.
  Definition has (a b : nat) : bool := mem_edge (a, b) E.
  Definition allpairs : list edge := flat_map (fun v1 => map (pair v1) vs) vs.
  Lemma in_allpairs a b : In (a, b) allpairs <-> In a vs /\ In b vs.
  Proof.
    unfold allpairs. rewrite in_flat_map. split.
    - intros (v1 & H1 & H). apply in_map_iff in H. destruct H as (v2 & Heq & H2). inversion Heq; subst. auto.
    - intros [Ha Hb]. exists a. split; auto. apply in_map. exact Hb.
  Qed.

  (** without -u: a pair is in the complement unless the edge in that direction is present *)
  Definition comp_dir : list edge :=
    filter (fun p => negb (Nat.eqb (fst p) (snd p)) && negb (has (fst p) (snd p))) allpairs.
  Definition adj_dir (a b : nat) : bool := has a b && has b a.

  Theorem comp_dir_sound a b : In (a, b) comp_dir -> In a vs /\ In b vs /\ a <> b /\ adj_dir a b = false.
  Proof.
    unfold comp_dir. rewrite filter_In, in_allpairs. cbn [fst snd]. intros [[Ha Hb] H].
    apply andb_prop in H. destruct H as [H1 H2]. repeat split; auto.
    - intros ->. rewrite Nat.eqb_refl in H1. discriminate.
    - unfold adj_dir. destruct (has a b); [discriminate|reflexivity].
  Qed.
  Theorem comp_dir_complete a b : In a vs -> In b vs -> a <> b -> adj_dir a b = false ->
    In (a, b) comp_dir \/ In (b, a) comp_dir.
  Proof.
    intros Ha Hb Hne H. unfold adj_dir in H. unfold comp_dir. rewrite !filter_In, !in_allpairs. cbn [fst snd].
    destruct (Nat.eqb_spec a b); [contradiction|]. destruct (Nat.eqb_spec b a); [congruence|]. cbn [negb andb].
    destruct (has a b) eqn:E1; [|left; auto]. destruct (has b a) eqn:E2; [discriminate|right; auto].
  Qed.

  (** with -u: a pair is pushed unless an edge in either direction is present or the reverse pair
      is already in the complement *)
  Fixpoint comp_acc (acc ps : list edge) : list edge :=
    match ps with
    | [] => acc
    | (a, b) :: r =>
        if negb (Nat.eqb a b) && negb (has a b || has b a || mem_edge (b, a) acc)
        then comp_acc (acc ++ [(a, b)]) r else comp_acc acc r
    end.
  Definition comp_undir : list edge := comp_acc [] allpairs.
  Definition adj_undir (a b : nat) : bool := has a b || has b a.

  Lemma comp_acc_spec : forall ps acc,
    (forall e, In e acc -> In e (comp_acc acc ps)) /\
    (forall a b, In (a, b) (comp_acc acc ps) -> In (a, b) acc \/ (In (a, b) ps /\ a <> b /\ adj_undir a b = false)) /\
    (forall a b, In (a, b) ps -> a <> b -> adj_undir a b = false -> In (a, b) (comp_acc acc ps) \/ In (b, a) (comp_acc acc ps)).
  Proof.
    induction ps as [|[a b] r IH]; intros acc; cbn [comp_acc].
    - repeat split; auto. intros a b [].
    - destruct (negb (Nat.eqb a b) && negb (has a b || has b a || mem_edge (b, a) acc)) eqn:T.
      + destruct (IH (acc ++ [(a, b)])) as (H1 & H2 & H3).
        apply andb_prop in T. destruct T as [T1 T2]. apply negb_true_iff in T2. apply orb_false_iff in T2. destruct T2 as [T2 _].
        assert (Hne : a <> b) by (intros ->; rewrite Nat.eqb_refl in T1; discriminate).
        split; [|split].
        * intros e He. apply H1. apply in_or_app. auto.
        * intros x y Hin. destruct (H2 x y Hin) as [Hacc|(Hr & Hn & Hadj)].
          -- apply in_app_or in Hacc. destruct Hacc as [Hacc|[Heq|[]]]; auto. inversion Heq; subst.
             right. split; [left; reflexivity|]. split; auto.
          -- right. split; [right; exact Hr|]. auto.
        * intros x y [Heq|Hin] Hn Hadj.
          -- inversion Heq; subst. left. apply H1. apply in_or_app. right. left. reflexivity.
          -- apply H3; auto.
      + destruct (IH acc) as (H1 & H2 & H3). split; [|split]; auto.
        * intros x y Hin. destruct (H2 x y Hin) as [Hacc|(Hr & Hn & Hadj)]; auto. right. split; [right; exact Hr|]. auto.
        * intros x y [Heq|Hin] Hn Hadj; [|apply H3; auto].
          inversion Heq; subst. right. apply H1.
          destruct (Nat.eqb_spec x y); [contradiction|]. cbn [negb andb] in T. apply negb_false_iff in T.
          unfold adj_undir in Hadj. rewrite Hadj in T. cbn [orb] in T. apply mem_edge_In in T. exact T.
  Qed.

  Theorem comp_undir_sound a b : In (a, b) comp_undir -> In a vs /\ In b vs /\ a <> b /\ adj_undir a b = false.
  Proof.
    unfold comp_undir. intros H. destruct (comp_acc_spec allpairs []) as (_ & H2 & _).
    destruct (H2 a b H) as [[]|(Hin & Hn & Hadj)]. apply in_allpairs in Hin. tauto.
  Qed.
  Theorem comp_undir_complete a b : In a vs -> In b vs -> a <> b -> adj_undir a b = false ->
    In (a, b) comp_undir \/ In (b, a) comp_undir.
  Proof.
    intros Ha Hb Hne Hadj. unfold comp_undir. destruct (comp_acc_spec allpairs []) as (_ & _ & H3).
    apply H3; auto. apply in_allpairs. auto.
  Qed.
  Lemma adj_undir_sym a b : adj_undir a b = adj_undir b a. Proof. unfold adj_undir. apply orb_comm. Qed.
  Lemma adj_dir_sym a b : adj_dir a b = adj_dir b a. Proof. unfold adj_dir. apply andb_comm. Qed.
End Comp.
Print Assumptions comp_undir_complete.
