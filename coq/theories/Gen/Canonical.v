(** Why the generator suites may compare formulas as multisets (DESIGN.md §4 "canonical forms"):
    the meaning of a right-nested "&"-chain depends only on the multiset of its conjuncts, and the
    meaning of a counting constraint only on the multiset of its operands. *)
From Coq Require Import List Arith Bool ZArith Lia Permutation.
Import ListNotations.
From Rsbdd Require Import Core.Bdd Lang.Ast Lang.Den Lang.FSem.

Lemma forallb_perm {A} (p : A -> bool) l l' : Permutation l l' -> forallb p l = forallb p l'.
Proof.
  induction 1; cbn [forallb]; auto.
  - rewrite IHPermutation. reflexivity.
  - rewrite !andb_assoc, (andb_comm (p y)). reflexivity.
  - congruence.
Qed.

Theorem conj_chain_perm cs cs' last s : Permutation cs cs' ->
  fsem (conj_chain cs last) s = fsem (conj_chain cs' last) s.
Proof. intros H. rewrite !fsem_conj_chain, (forallb_perm _ _ _ H). reflexivity. Qed.

Lemma count_den_perm ds ds' s : Permutation ds ds' -> count_den ds s = count_den ds' s.
Proof. induction 1; cbn [count_den]; lia. Qed.

Theorem countc_perm op fs fs' n s : Permutation fs fs' -> fsem (FCountC op fs n) s = fsem (FCountC op fs' n) s.
Proof. intros H. cbn [fsem]. rewrite (count_den_perm _ _ s (Permutation_map fsem H)). reflexivity. Qed.
Theorem countv_perm op l l' r r' s : Permutation l l' -> Permutation r r' ->
  fsem (FCountV op l r) s = fsem (FCountV op l' r') s.
Proof.
  intros H1 H2. cbn [fsem]. rewrite (count_den_perm _ _ s (Permutation_map fsem H1)), (count_den_perm _ _ s (Permutation_map fsem H2)). reflexivity.
Qed.
Print Assumptions conj_chain_perm.
