(** C18: random_graph_gen.  The shuffle is an arbitrary permutation (section variable). *)
From Coq Require Import List Arith Bool Lia PeanoNat Permutation.
Import ListNotations.

Definition edge := (nat * nat)%type.                       (* vertex i is printed as "v<i>" *)

(** [generate_graph] (random_graph_gen/src/main.rs:137-179): all candidate edges *)
Definition cand_directed (V : nat) : list edge :=
  flat_map (fun i => flat_map (fun j => if Nat.eqb i j then [] else [(i, j)]) (seq 0 V)) (seq 0 V).
Definition cand_undirected (V : nat) : list edge :=
  flat_map (fun i => map (fun j => (i, j)) (seq (S i) (V - S i))) (seq 0 V).
Definition candidates (V : nat) (u : bool) : list edge := if u then cand_undirected V else cand_directed V.

Section Gen.
  Variable shuffle : list edge -> list edge.
  Hypothesis shuffle_perm : forall l, Permutation (shuffle l) l.

  (** shuffle, then take the first E, or fail ([edges.get(0..num_edges)]) *)
  Definition gen_graph (V E : nat) (u : bool) : option (list edge) :=
    let c := shuffle (candidates V u) in
    if Nat.leb E (length c) then Some (firstn E c) else None.

  Lemma in_cand_directed V a b : In (a, b) (cand_directed V) <-> a < V /\ b < V /\ a <> b.
  Proof.
    unfold cand_directed. rewrite in_flat_map. split.
    - intros (i & Hi & H). apply in_seq in Hi. apply in_flat_map in H. destruct H as (j & Hj & H). apply in_seq in Hj.
      destruct (Nat.eqb_spec i j); [destruct H|]. destruct H as [H|[]]. inversion H; subst. lia.
    - intros (Ha & Hb & Hne). exists a. split; [apply in_seq; lia|]. apply in_flat_map. exists b. split; [apply in_seq; lia|].
      destruct (Nat.eqb_spec a b); [contradiction|left; reflexivity].
  Qed.
  Lemma in_cand_undirected V a b : In (a, b) (cand_undirected V) <-> a < b /\ b < V.
  Proof.
    unfold cand_undirected. rewrite in_flat_map. split.
    - intros (i & Hi & H). apply in_seq in Hi. apply in_map_iff in H. destruct H as (j & H & Hj). apply in_seq in Hj.
      inversion H; subst. lia.
    - intros (Hab & Hb). exists a. split; [apply in_seq; lia|]. apply in_map_iff. exists b. split; auto. apply in_seq. lia.
  Qed.

  Lemma NoDup_app_intro {A} (a b : list A) : NoDup a -> NoDup b -> (forall x, In x a -> ~ In x b) -> NoDup (a ++ b).
  Proof.
    induction 1 as [|x a Hx Ha IH]; intros Hb Hd; cbn [app]; auto.
    constructor.
    - intros H. apply in_app_or in H. destruct H as [H|H]; [contradiction|]. apply (Hd x); [left; reflexivity|exact H].
    - apply IH; auto. intros y Hy. apply Hd. right. exact Hy.
  Qed.

  Lemma NoDup_flat_map {A B} (f : A -> list B) l :
    NoDup l -> (forall a, In a l -> NoDup (f a)) ->
    (forall a a' b, In a l -> In a' l -> In b (f a) -> In b (f a') -> a = a') -> NoDup (flat_map f l).
  Proof.
    induction 1 as [|x l Hx Hl IH]; intros Hf Hdis; cbn [flat_map]; [constructor|].
    apply NoDup_app_intro.
    - apply Hf. left. reflexivity.
    - apply IH; [intros a Ha; apply Hf; right; exact Ha|].
      intros a a' b Ha Ha'. apply Hdis; right; assumption.
    - intros b Hb Hin. apply in_flat_map in Hin. destruct Hin as (a' & Ha' & Hb').
      assert (x = a') by (apply (Hdis x a' b); auto; [left; reflexivity|right; exact Ha']). subst. contradiction.
  Qed.

  Lemma NoDup_map_inj {A B} (f : A -> B) l : (forall x y, f x = f y -> x = y) -> NoDup l -> NoDup (map f l).
  Proof.
    intros Hinj. induction 1 as [|x l Hx Hl IH]; cbn [map]; constructor; auto.
    intros H. apply in_map_iff in H. destruct H as (y & Hy & Hin). apply Hinj in Hy. subst. contradiction.
  Qed.

  Lemma NoDup_candidates V u : NoDup (candidates V u).
  Proof.
    destruct u; cbn [candidates].
    - unfold cand_undirected. apply NoDup_flat_map; [apply seq_NoDup| |].
      + intros i _. apply NoDup_map_inj; [intros x y H; inversion H; reflexivity|apply seq_NoDup].
      + intros i i' [a b] _ _ H1 H2. apply in_map_iff in H1. apply in_map_iff in H2.
        destruct H1 as (j & E1 & _). destruct H2 as (j' & E2 & _). inversion E1; inversion E2; subst. congruence.
    - unfold cand_directed. apply NoDup_flat_map; [apply seq_NoDup| |].
      + intros i _. apply NoDup_flat_map; [apply seq_NoDup| |].
        * intros j _. destruct (Nat.eqb i j); constructor; [intros []|constructor].
        * intros j j' [a b] _ _ H1 H2. destruct (Nat.eqb i j); [destruct H1|]. destruct (Nat.eqb i j'); [destruct H2|].
          destruct H1 as [E1|[]]. destruct H2 as [E2|[]]. inversion E1; inversion E2; subst. congruence.
      + intros i i' [a b] _ _ H1 H2. apply in_flat_map in H1. apply in_flat_map in H2.
        destruct H1 as (j & _ & H1). destruct H2 as (j' & _ & H2).
        destruct (Nat.eqb i j); [destruct H1|]. destruct (Nat.eqb i' j'); [destruct H2|].
        destruct H1 as [E1|[]]. destruct H2 as [E2|[]]. inversion E1; inversion E2; subst. congruence.
  Qed.

  Lemma NoDup_firstn {A} n (l : list A) : NoDup l -> NoDup (firstn n l).
  Proof.
    revert l. induction n as [|n IH]; intros l H; cbn [firstn]; [constructor|].
    destruct l as [|x l]; [constructor|]. inversion H; subst. constructor; auto.
    intros Hin. apply H2. revert Hin. clear. revert l. induction n as [|n IH]; intros l; cbn [firstn]; [intros []|].
    destruct l as [|y l]; [intros []|]. intros [->|Hin]; [left; reflexivity|right; apply IH; exact Hin].
  Qed.
  Lemma firstn_incl {A} n (l : list A) x : In x (firstn n l) -> In x l.
  Proof.
    revert l. induction n as [|n IH]; intros l; cbn [firstn]; [intros []|].
    destruct l as [|y l]; [intros []|]. intros [->|Hin]; [left; reflexivity|right; apply IH; exact Hin].
  Qed.

  (** C18: a request that can be met yields exactly E distinct edges between distinct vertices below V
      (and under -u no pair in both orientations); a request that cannot be met is refused *)
  Theorem C18_gen V E u :
    match gen_graph V E u with
    | Some out =>
        length out = E /\ NoDup out /\
        (forall a b, In (a, b) out -> a <> b /\ a < V /\ b < V) /\
        (u = true -> forall a b, In (a, b) out -> ~ In (b, a) out)
    | None => length (candidates V u) < E
    end.
  Proof.
    unfold gen_graph. pose proof (shuffle_perm (candidates V u)) as Hp.
    rewrite (Permutation_length Hp).
    destruct (Nat.leb_spec E (length (candidates V u))) as [Hle|Hgt]; [|exact Hgt].
    assert (Hnd : NoDup (shuffle (candidates V u))) by (eapply Permutation_NoDup; [apply Permutation_sym; exact Hp|apply NoDup_candidates]).
    assert (Hin : forall e, In e (firstn E (shuffle (candidates V u))) -> In e (candidates V u)).
    { intros e He. eapply Permutation_in; [exact Hp|]. eapply firstn_incl; eauto. }
    split; [apply firstn_length_le; rewrite (Permutation_length Hp); exact Hle|].
    split; [apply NoDup_firstn; exact Hnd|]. split.
    - intros a b H. apply Hin in H. destruct u; cbn [candidates] in H.
      + apply in_cand_undirected in H. lia.
      + apply in_cand_directed in H. lia.
    - intros -> a b H1 H2. apply Hin in H1. apply Hin in H2. cbn [candidates] in *.
      apply in_cand_undirected in H1. apply in_cand_undirected in H2. lia.
  Qed.

  (** --complete: all pairs *)
  Lemma length_cand_undirected V : 2 * length (cand_undirected V) = V * (V - 1).
  Proof.
    unfold cand_undirected.
    assert (H : forall k, k <= V -> 2 * length (flat_map (fun i => map (fun j => (i, j)) (seq (S i) (V - S i))) (seq (V - k) k)) = k * (k - 1)).
    { induction k as [|k IH]; intros Hk; [reflexivity|].
      replace (V - S k) with (V - S k) by reflexivity. cbn [seq flat_map]. rewrite app_length, map_length, seq_length.
      replace (S (V - S k)) with (V - k) by lia. specialize (IH ltac:(lia)). nia. }
    specialize (H V (le_n _)). rewrite Nat.sub_diag in H. exact H.
  Qed.
End Gen.
Print Assumptions C18_gen.
