(** The loop nests of the generators as they stand in the SOURCE.  A translator (lib/vlib/srcloops.py) re-reads the `for`
    loops of n_queens_gen/src/main.rs from /repo on every run - ranges, index expressions, the comparison written after each
    list - and emits them as Gallina list comprehensions over [seq]; the lemmas here are what its generated proofs apply.
    Rust's [a..b] is [seq a (b - a)], [a..=b] is [seq a (S b - a)]; usize subtraction is modelled by truncated subtraction
    and every subtraction of the source gets its own no-underflow obligation in the generated file. *)
From Coq Require Import List Arith Lia PeanoNat.
Import ListNotations.
From Rsbdd Require Import Lang.Ast Gen.Queens Gen.Forms Gen.GenText.

Definition rng (a b : nat) : list nat := seq a (b - a).            (* a..b *)
Definition rngi (a b : nat) : list nat := seq a (S b - a).         (* a..=b *)

Lemma fam_ext {A} (f g : nat -> A) a b a' b' :
  a = a' -> b = b' -> (forall i, a <= i < a + b -> f i = g i) -> map f (seq a b) = map g (seq a' b').
Proof. intros <- <- H. apply map_ext_in. intros i Hi. apply in_seq in Hi. apply H. exact Hi. Qed.

(** the six families in the order and with the comparisons the generator writes them *)
Lemma queens_items_six n f1 f2 f3 f4 f5 f6 :
  f1 = Queens.d1a n -> f2 = Queens.d1b n -> f3 = Queens.d2a n -> f4 = Queens.d2b n -> f5 = Queens.rows n -> f6 = Queens.cols n ->
  map (ICount true AtMost) f1 ++ map (ICount true AtMost) f2 ++ map (ICount true AtMost) f3 ++ map (ICount true AtMost) f4 ++
  map (ICount true Exactly) f5 ++ map (ICount true Exactly) f6 ++ [] = queens_items n.
Proof. intros -> -> -> -> -> ->. unfold queens_items. rewrite !map_app, app_nil_r, <- !app_assoc. reflexivity. Qed.

(** ---- nests of any depth with several lists per iteration (sudoku_gen) ---- *)
From Rsbdd Require Import Gen.Sudoku.
Lemma flatmap_ext {A} (f g : nat -> list A) a b a' b' :
  a = a' -> b = b' -> (forall i, a <= i < a + b -> f i = g i) -> flat_map f (seq a b) = flat_map g (seq a' b').
Proof.
  intros <- <- H. revert a H. induction b as [|b IH]; intros a H; cbn [seq flat_map]; [reflexivity|].
  rewrite (H a) by lia. f_equal. apply IH. intros i Hi. apply H. lia.
Qed.
Lemma flat_map_single {A B} (f : A -> B) l : flat_map (fun x => [f x]) l = map f l.
Proof. induction l as [|x l IH]; cbn [flat_map map app]; [reflexivity|]. rewrite IH. reflexivity. Qed.

(** equality of two comprehensions over [seq], by extensionality down to arithmetic on the indices *)
Ltac fam :=
  cbv zeta;
  lazymatch goal with
  | |- map _ (seq _ _) = map _ (seq _ _) => apply fam_ext; [first [reflexivity | lia | nia] | first [reflexivity | lia | nia] | intros ? ?; fam]
  | |- flat_map _ (seq _ _) = flat_map _ (seq _ _) => apply flatmap_ext; [first [reflexivity | lia | nia] | first [reflexivity | lia | nia] | intros ? ?; fam]
  | |- flat_map (fun _ => [_]) (seq _ _) = map _ (seq _ _) => rewrite flat_map_single; fam
  | |- _ :: _ = _ :: _ => f_equal; fam
  | |- @nil _ = @nil _ => reflexivity
  | |- Sudoku.vid _ _ _ = Sudoku.vid _ _ _ => first [reflexivity | f_equal; first [reflexivity | lia | nia]]
  | |- @eq nat _ _ => first [reflexivity | lia | nia]
  end.

Lemma sudoku_items_three r hints f1 f2 f3 :
  f1 = Sudoku.cell_lists r -> f2 = Sudoku.rowcol_lists r -> f3 = Sudoku.box_lists r ->
  map (fun h => IVar (Sudoku.vid r (fst h) (snd h))) hints ++
  map (ICount false Exactly) f1 ++ map (ICount false Exactly) f2 ++ map (ICount false Exactly) f3 ++ [] = sudoku_items r hints.
Proof. intros -> -> ->. unfold sudoku_items. rewrite !map_app, app_nil_r. reflexivity. Qed.
