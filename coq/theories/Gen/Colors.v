(** C18 (--convert and --colors): read_graph and augment_colors of random_graph_gen. *)
From Coq Require Import List Arith Bool Lia PeanoNat.
Import ListNotations.

Definition edge := (nat * nat)%type.
Definition edge_eqb (x y : edge) : bool := Nat.eqb (fst x) (fst y) && Nat.eqb (snd x) (snd y).
Lemma edge_eqb_spec x y : reflect (x = y) (edge_eqb x y).
Proof.
  destruct x as [a b], y as [c d]. unfold edge_eqb. cbn [fst snd].
  destruct (Nat.eqb_spec a c), (Nat.eqb_spec b d); cbn; constructor; congruence.
Qed.
Definition mem_edge (e : edge) (l : list edge) : bool := existsb (edge_eqb e) l.
Lemma mem_edge_In e l : mem_edge e l = true <-> In e l.
Proof.
  unfold mem_edge. rewrite existsb_exists. split.
  - intros (y & Hy & E). destruct (edge_eqb_spec e y); [subst; auto|discriminate].
  - intros H. exists e. split; auto. destruct (edge_eqb_spec e e); [reflexivity|contradiction].
Qed.

(** [read_graph] (main.rs:117-135): under -u an edge is skipped when its reverse was kept before *)
Fixpoint read_acc (u : bool) (acc l : list edge) : list edge :=
  match l with
  | [] => acc
  | (a, b) :: r => if u && mem_edge (b, a) acc then read_acc u acc r else read_acc u (acc ++ [(a, b)]) r
  end.
Definition read_graph (u : bool) (l : list edge) : list edge := read_acc u [] l.

Lemma read_acc_directed : forall l acc, read_acc false acc l = acc ++ l.
Proof. induction l as [|[a b] r IH]; intros acc; cbn [read_acc andb]; [now rewrite app_nil_r|]. rewrite IH, <- app_assoc. reflexivity. Qed.
Theorem C18_convert_directed l : read_graph false l = l.
Proof. apply read_acc_directed. Qed.

Lemma read_acc_spec u : forall l acc,
  (forall e, In e acc -> In e (read_acc u acc l)) /\
  (forall e, In e (read_acc u acc l) -> In e acc \/ In e l) /\
  (forall a b, In (a, b) l -> In (a, b) (read_acc u acc l) \/ In (b, a) (read_acc u acc l)) /\
  ((forall a b, a <> b -> In (a, b) acc -> ~ In (b, a) acc) -> u = true ->
   forall a b, a <> b -> In (a, b) (read_acc u acc l) -> ~ In (b, a) (read_acc u acc l)).
Proof.
  induction l as [|[a b] r IH]; intros acc; cbn [read_acc].
  - repeat split; auto. intros a b [].
  - destruct (u && mem_edge (b, a) acc) eqn:E.
    + destruct (IH acc) as (H1 & H2 & H3 & H4). apply andb_prop in E. destruct E as [Eu Em]. apply mem_edge_In in Em.
      repeat split; auto.
      * intros e He. destruct (H2 e He); auto. right. right. auto.
      * intros x y [Heq|Hin]; [inversion Heq; subst; right; apply H1; exact Em|apply H3; exact Hin].
    + destruct (IH (acc ++ [(a, b)])) as (H1 & H2 & H3 & H4).
      repeat split.
      * intros e He. apply H1. apply in_or_app. auto.
      * intros e He. destruct (H2 e He) as [Hacc|Hr]; [|right; right; exact Hr].
        apply in_app_or in Hacc. destruct Hacc as [Hacc|[<-|[]]]; [left; exact Hacc|right; left; reflexivity].
      * intros x y [Heq|Hin]; [inversion Heq; subst; left; apply H1; apply in_or_app; right; left; reflexivity|apply H3; exact Hin].
      * intros Hacc Hu. apply H4; auto. intros x y Hne Hin Hrev.
        apply in_app_or in Hin. apply in_app_or in Hrev. subst u. cbn [andb] in E.
        destruct Hin as [Hin|[Heq|[]]], Hrev as [Hrev|[Heq'|[]]].
        -- exact (Hacc x y Hne Hin Hrev).
        -- inversion Heq'; subst. apply mem_edge_In in Hin. congruence.
        -- inversion Heq; subst. apply mem_edge_In in Hrev. 
           (* (y,x) = (b,a) in acc would have made the test succeed *) congruence.
        -- inversion Heq; inversion Heq'; subst. contradiction.
Qed.

(** C18 (--convert -u): every given edge survives in some orientation, nothing is invented, and
    no pair of distinct vertices is kept in both orientations *)
Theorem C18_convert_undirected l :
  (forall e, In e (read_graph true l) -> In e l) /\
  (forall a b, In (a, b) l -> In (a, b) (read_graph true l) \/ In (b, a) (read_graph true l)) /\
  (forall a b, a <> b -> In (a, b) (read_graph true l) -> ~ In (b, a) (read_graph true l)).
Proof.
  unfold read_graph. destruct (read_acc_spec true l []) as (H1 & H2 & H3 & H4). split; [|split].
  - intros e He. destruct (H2 e He) as [[]|H]; exact H.
  - exact H3.
  - apply H4; auto; intros a b _ [].
Qed.

(** ---- augment_colors (main.rs:181-232) ---- *)
Section Colors.
  Variable V : list nat.                         (* the vertices that occur in an edge *)
  Variable es : list edge.
  Variable k : nat.
  Variable order : list (nat * nat).             (* the (vertex, colour) pairs in hash-map order *)
  Hypothesis order_spec : forall v c, In (v, c) order <-> In v V /\ c < k.
  Hypothesis order_nd : NoDup order.

  Definition adj0 (a b : nat) : bool := mem_edge (a, b) es || mem_edge (b, a) es.
  Definition new_edge (x y : nat * nat) : bool :=
    negb (Nat.eqb (fst x) (fst y)) && (negb (Nat.eqb (snd x) (snd y)) || negb (adj0 (fst x) (fst y))).
  Fixpoint pairs {A} (l : list A) : list (A * A) := match l with [] => [] | x :: r => map (pair x) r ++ pairs r end.
  Definition aug : list ((nat * nat) * (nat * nat)) := filter (fun p => new_edge (fst p) (snd p)) (pairs order).
  Definition oadj (x y : nat * nat) : Prop := In (x, y) aug \/ In (y, x) aug.

  Lemma adj0_sym a b : adj0 a b = adj0 b a.
  Proof. unfold adj0. apply orb_comm. Qed.
  Lemma new_edge_sym x y : new_edge x y = new_edge y x.
  Proof. unfold new_edge. rewrite (Nat.eqb_sym (fst x)), (Nat.eqb_sym (snd x)), adj0_sym. reflexivity. Qed.

  Lemma in_pairs {A} (l : list A) x y : In (x, y) (pairs l) -> In x l /\ In y l.
  Proof.
    induction l as [|a r IH]; cbn [pairs]; [intros []|]. intros H. apply in_app_or in H. destruct H as [H|H].
    - apply in_map_iff in H. destruct H as (z & E & Hz). inversion E; subst. split; [left|right]; auto.
    - destruct (IH H). split; right; auto.
  Qed.
  Lemma pairs_total {A} (l : list A) x y : In x l -> In y l -> x <> y -> In (x, y) (pairs l) \/ In (y, x) (pairs l).
  Proof.
    induction l as [|a r IH]; intros Hx Hy Hne; [destruct Hx|]. cbn [pairs].
    destruct Hx as [->|Hx], Hy as [->|Hy].
    - contradiction.
    - left. apply in_or_app. left. apply in_map. exact Hy.
    - right. apply in_or_app. left. apply in_map. exact Hx.
    - destruct (IH Hx Hy Hne); [left|right]; apply in_or_app; right; auto.
  Qed.

  Lemma oadj_spec x y : In x order -> In y order -> x <> y -> (oadj x y <-> new_edge x y = true).
  Proof.
    intros Hx Hy Hne. unfold oadj, aug. rewrite !filter_In. cbn [fst snd]. split.
    - intros [[_ H]|[_ H]]; auto. rewrite new_edge_sym. exact H.
    - intros H. destruct (pairs_total order x y Hx Hy Hne); [left|right]; split; auto. rewrite new_edge_sym. exact H.
  Qed.

  Definition colourable : Prop :=
    exists col, (forall v, In v V -> col v < k) /\ forall a b, In a V -> In b V -> a <> b -> adj0 a b = true -> col a <> col b.
  Definition covering_clique : Prop :=
    exists C, (forall x, In x C -> In x order) /\ (forall x y, In x C -> In y C -> x <> y -> oadj x y) /\
              (forall v, In v V -> exists c, In (v, c) C).

  Theorem C18_colors : covering_clique <-> colourable.
  Proof.
    split.
    - intros (C & Hsub & Hcl & Hcov).
      exists (fun v => match find (fun x => Nat.eqb (fst x) v) C with Some x => snd x | None => 0 end).
      assert (Hpick : forall v, In v V -> exists c, find (fun x => Nat.eqb (fst x) v) C = Some (v, c) /\ In (v, c) C).
      { intros v Hv. destruct (Hcov v Hv) as (c & Hc).
        destruct (find (fun x => Nat.eqb (fst x) v) C) as [[v' c']|] eqn:E.
        - apply find_some in E. destruct E as [Hin E]. cbn in E. apply Nat.eqb_eq in E. subst v'. exists c'. auto.
        - pose proof (find_none _ _ E (v, c) Hc) as Hn. cbn in Hn. rewrite Nat.eqb_refl in Hn. discriminate. }
      split.
      + intros v Hv. destruct (Hpick v Hv) as (c & -> & Hc). cbn. apply (order_spec v c). apply Hsub. exact Hc.
      + intros a b Ha Hb Hne Hadj. destruct (Hpick a Ha) as (ca & -> & Hca). destruct (Hpick b Hb) as (cb & -> & Hcb). cbn.
        intros Heq. subst cb.
        assert (Hxy : (a, ca) <> (b, ca)) by congruence.
        pose proof (Hcl _ _ Hca Hcb Hxy) as Ho. apply (oadj_spec _ _ (Hsub _ Hca) (Hsub _ Hcb) Hxy) in Ho.
        unfold new_edge in Ho. cbn [fst snd] in Ho. rewrite Nat.eqb_refl, Hadj in Ho. cbn in Ho.
        rewrite andb_false_r in Ho. discriminate.
    - intros (col & Hrange & Hproper). exists (map (fun v => (v, col v)) V). split; [|split].
      + intros x Hx. apply in_map_iff in Hx. destruct Hx as (v & <- & Hv). apply order_spec. auto.
      + intros x y Hx Hy Hne. apply in_map_iff in Hx. apply in_map_iff in Hy.
        destruct Hx as (a & <- & Ha). destruct Hy as (b & <- & Hb).
        apply oadj_spec; auto; try (apply order_spec; auto).
        assert (Hab : a <> b) by congruence.
        unfold new_edge. cbn [fst snd]. destruct (Nat.eqb_spec a b); [contradiction|]. cbn [negb andb].
        destruct (adj0 a b) eqn:E; [|rewrite orb_true_r; reflexivity].
        pose proof (Hproper a b Ha Hb Hab E) as Hc. destruct (Nat.eqb_spec (col a) (col b)); [contradiction|reflexivity].
      + intros v Hv. exists (col v). apply in_map_iff. exists v. auto.
  Qed.
End Colors.
Print Assumptions C18_convert_undirected.
Print Assumptions C18_colors.
