(** C11 at the level of texts: two variable orderings give renamings of one another.
    1. the tokens of a text are a function of the FINAL id table ([render]), whatever the ordering;
    2. hence under two orderings the token lists differ by a renaming of variable ids that respects names;
    3. the grammar is closed under such renamings, so the two parse trees are renamings of one another;
    4. by C11_rename the two answers denote the same function of the NAMED variables. *)
From Coq Require Import List Arith Bool PeanoNat NArith Lia Permutation.
Import ListNotations.
From Rsbdd Require Import Core.Bdd Core.Ops Core.Quant Lang.Ast Lang.Eval Lang.Free Lang.Rename.
From Rsbdd Require Import Syntax.Token Syntax.Lexer Syntax.Tokenize Syntax.Parser Syntax.Grammar Syntax.ParserSound Syntax.ParserComplete.
From Rsbdd Require Import Cli.Pipeline Cli.PipelineFacts.

(** ---- 1. tokens as a function of the final table ---- *)
Definition lookup_id (m : idmap) (w : name) : nat := match assoc w m with Some i => i | None => 0 end.

Fixpoint render (mf : idmap) (rs : list rtok) : option (list token) :=
  match rs with
  | [] => Some [TEof]
  | RSym s :: r => option_map (cons (token_of_sym s)) (render mf r)
  | RNumber ds :: r => match parse_usize ds with Some n => option_map (cons (TNum n)) (render mf r) | None => None end
  | RRef _ :: r => option_map (cons TRefT) (render mf r)
  | RIdent w :: r =>
      match assoc w keywords with
      | Some t => option_map (cons t) (render mf r)
      | None => option_map (cons (TVar (lookup_id mf w))) (render mf r)
      end
  end.

(** the table only grows: a name that has an id keeps it *)
Lemma number_names_keeps ws : forall m ctr w i, assoc w m = Some i -> assoc w (number_names m ctr ws) = Some i.
Proof.
  induction ws as [|x ws IH]; intros m ctr w i H; cbn [number_names]; auto.
  destruct (assoc x m) eqn:E; [apply IH; exact H|]. apply IH.
  destruct (name_eqb_spec x w) as [->|Hne]; [congruence|]. rewrite assoc_cons_ne by auto. exact H.
Qed.

Lemma number_names_inv ws : forall m ctr, idinv m ctr -> exists c', idinv (number_names m ctr ws) c'.
Proof.
  induction ws as [|x ws IH]; intros m ctr H; cbn [number_names]; [eauto|].
  destruct (assoc x m) eqn:E; [apply IH; exact H|]. apply IH. apply idinv_fresh; auto.
Qed.

Theorem classify_render : forall rs m ctr ts, classify m ctr rs = Some ts ->
  render (number_names m ctr (ident_names rs)) rs = Some ts.
Proof.
  induction rs as [|t rs IH]; intros m ctr ts H; cbn [classify] in H; cbn [render ident_names].
  - exact H.
  - destruct t as [s|ds|w|w]; cbn [render ident_names].
    + destruct (classify m ctr rs) as [ts'|] eqn:E; [|discriminate]. rewrite (IH _ _ _ E). exact H.
    + destruct (parse_usize ds); [|discriminate]. destruct (classify m ctr rs) as [ts'|] eqn:E; [|discriminate]. rewrite (IH _ _ _ E). exact H.
    + destruct (classify m ctr rs) as [ts'|] eqn:E; [|discriminate]. rewrite (IH _ _ _ E). exact H.
    + destruct (assoc w keywords) as [k|] eqn:Ek; cbv iota beta.
      * destruct (classify m ctr rs) as [ts'|] eqn:E; [|discriminate]. rewrite (IH _ _ _ E). exact H.
      * cbn [number_names]. destruct (assoc w m) as [id|] eqn:Em; cbv iota beta.
        -- destruct (classify m ctr rs) as [ts'|] eqn:E; [|discriminate]. rewrite (IH _ _ _ E).
           unfold lookup_id. rewrite (number_names_keeps _ m ctr w id Em). exact H.
        -- destruct (classify ((w, ctr) :: m) (S ctr) rs) as [ts'|] eqn:E; [|discriminate].
           pose proof (IH _ _ _ E) as R.
           pose proof (number_names_keeps (ident_names rs) ((w, ctr) :: m) (S ctr) w ctr (assoc_cons_eq w ctr m)) as K.
           unfold lookup_id. cbv [name idmap] in R, K |- *. rewrite R, K. exact H.
Qed.

(** every non-keyword identifier of the text has an id in the final table *)
Lemma number_names_covers ws : forall m ctr w, In w ws -> exists i, assoc w (number_names m ctr ws) = Some i.
Proof.
  induction ws as [|x ws IH]; intros m ctr w Hin; [destruct Hin|]. cbn [number_names].
  destruct Hin as [->|Hin].
  - destruct (assoc w m) as [i|] eqn:E.
    + exists i. apply number_names_keeps. exact E.
    + exists ctr. apply number_names_keeps. apply assoc_cons_eq.
  - destruct (assoc x m); apply IH; exact Hin.
Qed.

(** ---- 2. the table invariant: all ids in the table are distinct and below the counter ---- *)
Definition tinv (m : idmap) (c : nat) : Prop := NoDup (map snd m) /\ forall w i, In (w, i) m -> i < c.

Lemma assoc_In {B} w (m : list (name * B)) v : assoc w m = Some v -> In (w, v) m.
Proof.
  induction m as [|[k x] m IH]; cbn [assoc]; [discriminate|]. destruct (name_eqb_spec k w) as [->|Hne].
  - intros H. inversion H. left. reflexivity.
  - intros H. right. auto.
Qed.

Lemma name_of_In m c w i : tinv m c -> In (w, i) m -> name_of m i = w.
Proof.
  intros [Hnd _]. induction m as [|[w0 i0] m IH]; intros Hin; [destruct Hin|]. cbn [name_of].
  cbn [map snd] in Hnd. inversion Hnd as [|? ? Hni Hnd']; subst.
  destruct Hin as [E|Hin].
  - inversion E; subst. rewrite Nat.eqb_refl. reflexivity.
  - destruct (Nat.eqb_spec i0 i) as [->|Hne]; [|apply IH; auto].
    exfalso. apply Hni. apply in_map_iff. exists (w, i). split; auto.
Qed.
Lemma name_of_assoc m c w i : tinv m c -> assoc w m = Some i -> name_of m i = w.
Proof. intros H E. apply (name_of_In m c); auto. apply assoc_In. exact E. Qed.

Lemma tinv_fresh m c w : tinv m c -> tinv ((w, c) :: m) (S c).
Proof.
  intros [Hnd Hlt]. split.
  - cbn [map snd]. constructor; auto. intros Hin. apply in_map_iff in Hin. destruct Hin as ([w' i] & E & Hin). cbn in E. subst i.
    specialize (Hlt _ _ Hin). lia.
  - intros w' i [E|Hin]; [inversion E; lia|]. specialize (Hlt _ _ Hin). lia.
Qed.
Lemma number_names_tinv ws : forall m c, tinv m c -> exists c', tinv (number_names m c ws) c'.
Proof.
  induction ws as [|x ws IH]; intros m c H; cbn [number_names]; [eauto|].
  destruct (assoc x m); [apply IH; exact H|]. apply IH. apply tinv_fresh. exact H.
Qed.

(** preloading an ordering whose ids are pairwise distinct establishes the invariant *)
Lemma preload_tinv o : NoDup (map snd o) -> tinv (fst (preload o)) (snd (preload o)).
Proof.
  unfold preload. intros Hnd.
  assert (G : forall l m c, NoDup (map snd l ++ map snd m) -> (forall w i, In (w, i) m -> i < c) ->
            tinv (fst (fold_left (fun st e => ((fst e, snd e) :: fst st, Nat.max (snd st) (S (snd e)))) l (m, c)))
                 (snd (fold_left (fun st e => ((fst e, snd e) :: fst st, Nat.max (snd st) (S (snd e)))) l (m, c)))).
  { induction l as [|[w i] l IH]; intros m c Hn Hlt; cbn [fold_left fst snd].
    - split; [exact Hn|exact Hlt].
    - apply IH.
      + cbn [map snd app] in *. apply NoDup_cons_iff in Hn. destruct Hn as [Hni Hn].
        apply (Permutation.Permutation_NoDup (Permutation.Permutation_middle _ _ _)). constructor; auto.
      + intros w' i' [E|Hin]; [inversion E; lia|]. specialize (Hlt _ _ Hin). lia. }
  apply (G o [] 0); [rewrite app_nil_r; exact Hnd|intros w i []].
Qed.

(** ---- 3. two tables, one text: the token lists differ by a renaming that respects names ---- *)
Definition rt (pi : nat -> nat) (t : token) : token := match t with TVar v => TVar (pi v) | t => t end.

(** the renaming between two final tables: the id of the same name in the other table *)
Definition pi_of (m1 m2 : idmap) (i : nat) : nat := lookup_id m2 (name_of m1 i).

Lemma render_rename m1 m2 c1 c2 rs ts1 ts2 : tinv m1 c1 -> tinv m2 c2 ->
  (forall w, In w (ident_names rs) -> exists i, assoc w m1 = Some i) ->
  render m1 rs = Some ts1 -> render m2 rs = Some ts2 -> ts2 = map (rt (pi_of m1 m2)) ts1.
Proof.
  intros I1 I2. revert ts1 ts2. induction rs as [|t rs IH]; intros ts1 ts2 Hcov H1 H2; cbn [render] in H1, H2.
  - inversion H1; inversion H2; subst. reflexivity.
  - destruct t as [s|ds|w|w].
    + destruct (render m1 rs) as [a|] eqn:E1; [|discriminate]. destruct (render m2 rs) as [b|] eqn:E2; [|discriminate].
      inversion H1; inversion H2; subst. cbn [map]. rewrite (IH a b Hcov eq_refl eq_refl). destruct s; reflexivity.
    + destruct (parse_usize ds); [|discriminate].
      destruct (render m1 rs) as [a|] eqn:E1; [|discriminate]. destruct (render m2 rs) as [b|] eqn:E2; [|discriminate].
      inversion H1; inversion H2; subst. cbn [map rt]. rewrite (IH a b Hcov eq_refl eq_refl). reflexivity.
    + destruct (render m1 rs) as [a|] eqn:E1; [|discriminate]. destruct (render m2 rs) as [b|] eqn:E2; [|discriminate].
      inversion H1; inversion H2; subst. cbn [map rt]. rewrite (IH a b Hcov eq_refl eq_refl). reflexivity.
    + cbn [ident_names] in Hcov. destruct (assoc w keywords) as [k|] eqn:Ek.
      * destruct (render m1 rs) as [a|] eqn:E1; [|discriminate]. destruct (render m2 rs) as [b|] eqn:E2; [|discriminate].
        inversion H1; inversion H2; subst. cbn [map]. rewrite (IH a b Hcov eq_refl eq_refl).
        assert (Hk : rt (pi_of m1 m2) k = k).
        { clear - Ek. unfold keywords in Ek. cbn [assoc] in Ek.
          repeat match type of Ek with (if ?b then _ else _) = _ => destruct b; [inversion Ek; reflexivity|] end. discriminate. }
        rewrite Hk. reflexivity.
      * destruct (render m1 rs) as [a|] eqn:E1; [|discriminate]. destruct (render m2 rs) as [b|] eqn:E2; [|discriminate].
        inversion H1; inversion H2; subst. cbn [map rt].
        rewrite (IH a b (fun w' Hw' => Hcov w' (or_intror Hw')) eq_refl eq_refl). f_equal. f_equal.
        destruct (Hcov w (or_introl eq_refl)) as (i & Hi). unfold pi_of.
        assert (E : lookup_id m1 w = i) by (unfold lookup_id; cbv [name idmap] in Hi |- *; rewrite Hi; reflexivity).
        rewrite E, (name_of_assoc m1 c1 w i I1 Hi). reflexivity.
Qed.

Lemma render_vars mf : forall rs ts x, render mf rs = Some ts -> In x (tok_vars ts) ->
  exists w, In w (ident_names rs) /\ x = lookup_id mf w.
Proof.
  induction rs as [|t rs IH]; intros ts x H Hx; cbn [render] in H.
  - inversion H; subst. destruct Hx.
  - destruct t as [s|ds|w|w]; cbn [ident_names].
    + destruct (render mf rs) as [a|] eqn:E; [|discriminate]. inversion H; subst. cbn [tok_vars] in Hx.
      assert (Hx' : In x (tok_vars a)) by (destruct s; exact Hx). exact (IH a x eq_refl Hx').
    + destruct (parse_usize ds); [|discriminate]. destruct (render mf rs) as [a|] eqn:E; [|discriminate]. inversion H; subst. exact (IH a x eq_refl Hx).
    + destruct (render mf rs) as [a|] eqn:E; [|discriminate]. inversion H; subst. exact (IH a x eq_refl Hx).
    + destruct (assoc w keywords) as [k|] eqn:Ek.
      * destruct (render mf rs) as [a|] eqn:E; [|discriminate]. inversion H; subst.
        assert (Hk : tok_vars (k :: a) = tok_vars a).
        { clear - Ek. unfold keywords in Ek. cbn [assoc] in Ek.
          repeat match type of Ek with (if ?b then _ else _) = _ => destruct b; [inversion Ek; reflexivity|] end. discriminate. }
        rewrite Hk in Hx. exact (IH a x eq_refl Hx).
      * destruct (render mf rs) as [a|] eqn:E; [|discriminate]. inversion H; subst. cbn [tok_vars] in Hx.
        destruct Hx as [<-|Hx]; [exists w; split; [left|]; reflexivity|].
        destruct (IH a x eq_refl Hx) as (w' & Hw' & E'). exists w'. split; [right|]; auto.
Qed.

(** ---- 4. the grammar is closed under renaming of variable ids ---- *)
Section GrammarRename.
  Variable p : nat -> nat.
  Notation rtp := (rt p).
  Notation ren := (rename p).

  Lemma binop_rt t : binop_of (rtp t) = binop_of t. Proof. destruct t; reflexivity. Qed.
  Lemma cop_rt t : cop_of (rtp t) = cop_of t. Proof. destruct t; reflexivity. Qed.

  Lemma Gvars_rename s vs : Gvars s vs -> Gvars (map rtp s) (map p vs).
  Proof. induction 1; cbn [map rt]; constructor; auto. Qed.

  Lemma grammar_rename :
    (forall s f, Gsub s f -> Gsub (map rtp s) (ren f)) /\
    (forall s f, Gclosed s f -> Gclosed (map rtp s) (ren f)) /\
    (forall s f, Gopen s f -> Gopen (map rtp s) (ren f)) /\
    (forall s l, Gitems s l -> Gitems (map rtp s) (map ren l)).
  Proof.
    apply G_mutind; intros; cbn [map rt rename]; rewrite ?map_app; cbn [map rt rename]; rewrite ?map_app; cbn [map rt].
    - apply Gs_closed; auto.
    - apply Gs_bin; auto. rewrite binop_rt. exact e.
    - apply Gs_open; auto.
    - apply Gc_paren; auto.
    - replace (rtp t) with t by (destruct t; try reflexivity; discriminate e). apply Gc_countc; auto.
    - replace (rtp t) with t by (destruct t; try reflexivity; discriminate e). apply Gc_countv; auto.
    - constructor. - constructor. - constructor. - constructor.
    - apply Gc_not; auto.
    - apply Go_exists; auto. apply Gvars_rename; auto.
    - apply Go_forall; auto. apply Gvars_rename; auto.
    - apply Go_gfp; auto.
    - apply Go_lfp; auto.
    - apply Go_ite; auto.
    - apply Go_not; auto.
    - constructor.
    - apply Gi_one; auto.
    - apply Gi_cons; auto.
  Qed.

  Lemma G_formula_rename ts f : G_formula ts f -> G_formula (map rtp ts) (ren f).
  Proof.
    intros (s & -> & H). exists (map rtp s). split; [rewrite map_app; reflexivity|]. apply (proj1 grammar_rename); exact H.
  Qed.
End GrammarRename.

(** ---- 5. a total renaming with a left inverse that extends the correspondence of two tables ---- *)
Definition ext_p (m1 m2 : idmap) (k : nat) (i : nat) : nat :=
  let w := name_of m1 i in
  match assoc w m1, assoc w m2 with
  | Some i', Some i2 => if Nat.eqb i' i then i2 else i + k
  | _, _ => i + k
  end.
Definition ext_q (m1 m2 : idmap) (k : nat) (j : nat) : nat :=
  if Nat.ltb j k then
    let w := name_of m2 j in
    match assoc w m2, assoc w m1 with
    | Some j', Some i => if Nat.eqb j' j then i else 0
    | _, _ => 0
    end
  else j - k.

Lemma ext_q_p m1 m2 c1 c2 : tinv m1 c1 -> tinv m2 c2 -> forall i, ext_q m1 m2 c2 (ext_p m1 m2 c2 i) = i.
Proof.
  intros I1 I2 i. unfold ext_p.
  destruct (assoc (name_of m1 i) m1) as [i'|] eqn:E1; [|unfold ext_q; replace (i + c2 <? c2) with false by (symmetry; apply Nat.ltb_ge; lia); lia].
  destruct (assoc (name_of m1 i) m2) as [i2|] eqn:E2; [|unfold ext_q; replace (i + c2 <? c2) with false by (symmetry; apply Nat.ltb_ge; lia); lia].
  destruct (Nat.eqb_spec i' i) as [->|Hne]; [|unfold ext_q; replace (i + c2 <? c2) with false by (symmetry; apply Nat.ltb_ge; lia); lia].
  unfold ext_q. destruct I2 as [Hnd2 Hlt2]. pose proof (Hlt2 _ _ (assoc_In _ _ _ E2)) as Hlt.
  replace (i2 <? c2) with true by (symmetry; apply Nat.ltb_lt; exact Hlt).
  rewrite (name_of_assoc m2 c2 _ i2 (conj Hnd2 Hlt2) E2). rewrite E2, E1, Nat.eqb_refl. reflexivity.
Qed.

Lemma ext_p_lookup m1 m2 c1 k w i : tinv m1 c1 -> assoc w m1 = Some i -> (exists j, assoc w m2 = Some j) ->
  ext_p m1 m2 k i = lookup_id m2 w.
Proof.
  intros I1 E1 (j & E2). unfold ext_p. rewrite (name_of_assoc m1 c1 w i I1 E1). cbv [name idmap] in *. rewrite E1, E2, Nat.eqb_refl.
  unfold lookup_id. cbv [name idmap] in *. rewrite E2. reflexivity.
Qed.

(** ---- 6. C11 over texts ---- *)
Lemma parsed_tokens ts p : parsed_of_tokens ts = Done p -> parse ts = Ok (pf_form p) [].
Proof.
  unfold parsed_of_tokens. destruct (parse ts) as [f r| |] eqn:Hpar; try discriminate. intros H. inversion H; subst p. cbn [pf_form].
  assert (Hr : r = []). { unfold parse, parse_f in Hpar. destruct (p_sub _ ts) as [g [|t rest]| |]; try discriminate. destruct t; try discriminate. inversion Hpar; reflexivity. }
  subst r. reflexivity.
Qed.

Theorem C11_text uc o1 o2 txt p1 p2 n1 n2 b1 b2 :
  NoDup (map snd o1) -> NoDup (map snd o2) ->
  parsed_formula uc o1 txt = Done p1 -> parsed_formula uc o2 txt = Done p2 ->
  eval_f n1 (pf_form p1) = Some b1 -> eval_f n2 (pf_form p2) = Some b2 ->
  forall sigma : name -> bool,
    beval (fun i => sigma (name_of (name_table uc o1 txt) i)) b1 =
    beval (fun i => sigma (name_of (name_table uc o2 txt) i)) b2.
Proof.
  intros Hd1 Hd2 Hp1 Hp2 He1 He2 sigma.
  unfold parsed_formula, tokenize, name_table in *.
  pose proof (preload_tinv o1 Hd1) as T1. pose proof (preload_tinv o2 Hd2) as T2.
  destruct (preload o1) as [m1 c1]. destruct (preload o2) as [m2 c2]. cbn [fst snd] in T1, T2.
  set (rs := lex_raw uc txt) in *.
  destruct (classify m1 c1 rs) as [ts1|] eqn:C1; [|discriminate]. destruct (classify m2 c2 rs) as [ts2|] eqn:C2; [|discriminate].
  set (mf1 := number_names m1 c1 (ident_names rs)) in *. set (mf2 := number_names m2 c2 (ident_names rs)) in *.
  pose proof (classify_render rs m1 c1 ts1 C1) as R1. pose proof (classify_render rs m2 c2 ts2 C2) as R2. fold mf1 in R1. fold mf2 in R2.
  destruct (number_names_tinv (ident_names rs) m1 c1 T1) as (d1 & F1). destruct (number_names_tinv (ident_names rs) m2 c2 T2) as (d2 & F2).
  fold mf1 in F1. fold mf2 in F2.
  assert (Cov1 : forall w, In w (ident_names rs) -> exists i, assoc w mf1 = Some i) by (intros w Hw; apply number_names_covers; exact Hw).
  assert (Cov2 : forall w, In w (ident_names rs) -> exists i, assoc w mf2 = Some i) by (intros w Hw; apply number_names_covers; exact Hw).
  pose proof (render_rename mf1 mf2 d1 d2 rs ts1 ts2 F1 F2 Cov1 R1 R2) as Hts.
  set (pp := ext_p mf1 mf2 d2). set (qq := ext_q mf1 mf2 d2).
  assert (Hqp : forall x, qq (pp x) = x) by (apply (ext_q_p mf1 mf2 d1 d2 F1 F2)).
  (* on the ids that occur in the tokens the total renaming is the table correspondence *)
  assert (Hagree : forall x, In x (tok_vars ts1) -> pp x = pi_of mf1 mf2 x /\ name_of mf2 (pp x) = name_of mf1 x).
  { intros x Hx. destruct (render_vars mf1 rs ts1 x R1 Hx) as (w & Hw & ->).
    destruct (Cov1 w Hw) as (i & Ei). destruct (Cov2 w Hw) as (j & Ej).
    assert (El : lookup_id mf1 w = i) by (unfold lookup_id; cbv [name idmap] in *; rewrite Ei; reflexivity). rewrite El.
    unfold pp. rewrite (ext_p_lookup mf1 mf2 d1 d2 w i F1 Ei (ex_intro _ j Ej)).
    unfold pi_of. rewrite (name_of_assoc mf1 d1 w i F1 Ei). split; [reflexivity|].
    assert (El2 : lookup_id mf2 w = j) by (unfold lookup_id; cbv [name idmap] in *; rewrite Ej; reflexivity). rewrite El2.
    apply (name_of_assoc mf2 d2 w j F2 Ej). }
  assert (Hts' : ts2 = map (rt pp) ts1).
  { rewrite Hts. apply map_ext_in. intros t Ht. destruct t; try reflexivity. cbn [rt]. f_equal. symmetry. apply Hagree.
    clear - Ht. induction ts1 as [|u ts IH]; [destruct Ht|]. destruct Ht as [->|Ht]; [left; reflexivity|].
    cbn [tok_vars]. destruct u; try (apply IH; exact Ht). right. apply IH. exact Ht. }
  pose proof (parsed_tokens ts1 p1 Hp1) as Par1. pose proof (parsed_tokens ts2 p2 Hp2) as Par2.
  (* the two trees are renamings of one another *)
  assert (Hren : pf_form p2 = rename pp (pf_form p1)).
  { assert (G1 : G_formula ts1 (pf_form p1)).
    { apply (C08_sound_lexed (3 * length ts1 + 3) ts1 _); [|exact Par1]. destruct (classify_eof_last _ _ _ _ C1) as (body & -> & Hn). intros s r E. eapply split_at_first_eof; eauto. }
    pose proof (G_formula_rename pp ts1 _ G1) as G2. rewrite <- Hts' in G2.
    pose proof (C08_complete ts2 _ G2) as Par2'. rewrite Par2 in Par2'. inversion Par2'. reflexivity. }
  destruct (parse_vars ts1 _ _ Par1) as [Hns1 Hfv1].
  rewrite Hren in He2.
  rewrite (C11_rename pp qq Hqp n1 n2 (pf_form p1) b1 b2 Hns1 He1 He2 (fun i => sigma (name_of mf2 i))).
  apply beval_agree_support. intros x Hx. cbn beta.
  pose proof (support_fv n1 _ b1 Hns1 He1 x Hx) as Hf. destruct (Hagree x (Hfv1 x Hf)) as [_ Hn]. rewrite Hn. reflexivity.
Qed.
Print Assumptions C11_text.

(** the orderings the binary reads from a file carry the ids 0, 1, ...: pairwise distinct *)
Lemma number_from_ids : forall ws k, map snd (number_from k ws) = seq k (length ws).
Proof. induction ws as [|w ws IH]; intros k; cbn [number_from map snd length seq]; [reflexivity|]. rewrite IH. reflexivity. Qed.
Theorem ordering_of_file_distinct uc t o : ordering_of_file uc t = Done o -> NoDup (map snd o).
Proof.
  unfold ordering_of_file. destruct (tokenize uc [] t); [|discriminate]. intros H. inversion H; subst o.
  rewrite number_from_ids. apply seq_NoDup.
Qed.

(** "variables listed in the file are ordered as in the file": the ordering read from a file is the list of its
    distinct names in order of first appearance, numbered by position; the id of the name at position a is a *)
Lemma dedup_names_NoDup : forall ws seen, NoDup (dedup_names seen ws) /\ forall w, In w (dedup_names seen ws) -> ~ In w seen.
Proof.
  induction ws as [|w ws IH]; intros seen; cbn [dedup_names]; [split; [constructor|intros w []]|].
  destruct (existsb (name_eqb w) seen) eqn:E.
  - apply IH.
  - destruct (IH (w :: seen)) as [Hnd Hnot]. split.
    + constructor; auto. intros Hin. apply (Hnot w Hin). left. reflexivity.
    + intros x [<-|Hx].
      * intros Hin. assert (existsb (name_eqb w) seen = true); [|congruence].
        apply existsb_exists. exists w. split; auto. destruct (name_eqb_spec w w); [reflexivity|contradiction].
      * intros Hin. apply (Hnot x Hx). right. exact Hin.
Qed.
Lemma assoc_number_from : forall ws k a w, NoDup ws -> nth_error ws a = Some w -> assoc w (number_from k ws) = Some (k + a).
Proof.
  induction ws as [|x ws IH]; intros k a w Hnd Ha; [destruct a; discriminate|].
  inversion Hnd as [|? ? Hx Hnd']; subst. cbn [number_from assoc].
  destruct a as [|a]; cbn [nth_error] in Ha.
  - inversion Ha; subst. destruct (name_eqb_spec w w); [|contradiction]. f_equal. lia.
  - destruct (name_eqb_spec x w) as [->|Hne]; [exfalso; apply Hx; eapply nth_error_In; eauto|].
    rewrite (IH (S k) a w Hnd' Ha). f_equal. lia.
Qed.
Theorem C11_file_order uc t o : ordering_of_file uc t = Done o ->
  exists ws, NoDup ws /\ o = number_from 0 ws /\ ws = dedup_names [] (ident_names (lex_raw uc t)) /\
    forall a w, nth_error ws a = Some w -> assoc w o = Some a.
Proof.
  unfold ordering_of_file. destruct (tokenize uc [] t); [|discriminate]. intros H. inversion H; subst o.
  exists (dedup_names [] (ident_names (lex_raw uc t))). destruct (dedup_names_NoDup (ident_names (lex_raw uc t)) []) as [Hnd _].
  split; [exact Hnd|]. split; [reflexivity|]. split; [reflexivity|].
  intros a w Ha. rewrite (assoc_number_from _ 0 a w Hnd Ha). reflexivity.
Qed.
