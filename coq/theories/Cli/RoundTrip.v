(** C11: exporting the variable order with -r and feeding it back with -o reproduces the identical table.
    The second run numbers the variables 0, 1, ... in the exported order, which is order-isomorphic to the first run's ids
    on the variables of the text; hence the evaluated diagram is the first one renamed (RankIso), and retain, model and
    both table printers commute with such a renaming. *)
From Coq Require Import List Arith Bool Lia PeanoNat NArith Sorting.Sorted.
Import ListNotations.
From Rsbdd Require Import Core.Bdd Core.Ops Core.OpsFacts Core.Sem Core.Canon Core.Pres Core.Cube Core.Retain.
From Rsbdd Require Import Lang.Ast Lang.AstFacts Lang.Eval Lang.EvalSound Lang.Free Lang.Rename Lang.RankIso.
From Rsbdd Require Import Cli.Table Cli.TableFilter Cli.Pipeline.

Section Commute.
  Variable p q : nat -> nat.
  Hypothesis q_p : forall x, q (p x) = x.
  Let pinj := p_inj'' p q q_p.

  Lemma bmap_F a : bmap p a = F <-> a = F. Proof. destruct a; cbn; split; congruence. Qed.
  Lemma bmap_is_const a : is_const (bmap p a) = is_const a. Proof. destruct a; reflexivity. Qed.
  Lemma bmap_is_true a : is_true (bmap p a) = is_true a. Proof. destruct a; reflexivity. Qed.
  Lemma bmap_eqb a b : bdd_eqb (bmap p a) (bmap p b) = bdd_eqb a b.
  Proof.
    destruct (bdd_eqb_spec a b) as [->|NE]; [apply bdd_eqb_refl|].
    destruct (bdd_eqb_spec (bmap p a) (bmap p b)) as [E|_]; [|reflexivity]. exfalso. apply NE. exact (bmap_inj' p q q_p a b E).
  Qed.
  Lemma bmap_eqb_F a : bdd_eqb (bmap p a) F = bdd_eqb a F. Proof. exact (bmap_eqb a F). Qed.
  Lemma bmap_mk x v y : bmap p (mk x v y) = mk (bmap p x) (p v) (bmap p y).
  Proof. unfold mk. rewrite bmap_eqb. destruct (bdd_eqb x y); reflexivity. Qed.

  Lemma retain_go_bmap filt : forall d, retain_go filt (bmap p d) = bmap p (retain_go filt d).
  Proof.
    induction d as [| |l IHl v r IHr]; cbn [bmap retain_go]; auto.
    rewrite IHl, IHr, !bmap_is_const, !bmap_is_true.
    destruct (is_const (retain_go filt l) && negb (is_const (retain_go filt r))).
    - destruct (negb (Bool.eqb (is_true (retain_go filt l)) filt)); [reflexivity|symmetry; apply bmap_mk].
    - destruct (is_const (retain_go filt r) && negb (is_const (retain_go filt l))).
      + destruct (negb (Bool.eqb (is_true (retain_go filt r)) filt)); [reflexivity|symmetry; apply bmap_mk].
      + symmetry; apply bmap_mk.
  Qed.
  Lemma retain_bmap d f : retain (bmap p d) f = bmap p (retain d f).
  Proof. destruct f; cbn [retain]; auto; apply retain_go_bmap. Qed.

  (** model: on reduced ordered diagrams, when p keeps the order of the variables of the diagram *)
  Lemma bmodel_bmap : forall d lo, shp lo d ->
    (forall x y, In x (support d) -> In y (support d) -> x < y -> p x < p y) ->
    bmodel (bmap p d) = bmap p (bmodel d).
  Proof.
    induction d as [| |t IHt v f IHf]; intros lo Hs Hm; cbn [bmap bmodel]; auto.
    destruct Hs as [Ho Hr]. cbn [ord red] in Ho, Hr. destruct Ho as (Hv & Ht & Hf), Hr as (Hn & Hrt & Hrf).
    assert (It : forall x, In x (support t) -> In x (support (Nd t v f))) by (intros x Hx; right; apply in_or_app; auto).
    assert (If : forall x, In x (support f) -> In x (support (Nd t v f))) by (intros x Hx; right; apply in_or_app; auto).
    assert (Iv : In v (support (Nd t v f))) by (left; reflexivity).
    rewrite (IHt (S v) (conj Ht Hrt)) by (intros x y Hx Hy; apply Hm; auto).
    rewrite (IHf (S v) (conj Hf Hrf)) by (intros x y Hx Hy; apply Hm; auto).
    destruct (bmodel_shape t (S v) (conj Ht Hrt)) as [_ St]. destruct (bmodel_shape f (S v) (conj Hf Hrf)) as [_ Sf].
    destruct (shp_bmodel t (S v) (conj Ht Hrt)) as [Omt _]. destruct (shp_bmodel f (S v) (conj Hf Hrf)) as [Omf _].
    (* the renamed models are ordered above p v *)
    assert (Obt : ord (S (p v)) (bmap p (bmodel t))).
    { apply (ord_bmap_on p (bmodel t) (S v) (S (p v)) Omt).
      - intros x y Hx Hy. apply Hm; auto.
      - intros x Hx. pose proof (ord_support (bmodel t) (S v) x Omt Hx). apply Hm; auto. }
    assert (Obf : ord (S (p v)) (bmap p (bmodel f))).
    { apply (ord_bmap_on p (bmodel f) (S v) (S (p v)) Omf).
      - intros x y Hx Hy. apply Hm; auto.
      - intros x Hx. pose proof (ord_support (bmodel f) (S v) x Omf Hx). apply Hm; auto. }
    rewrite !bmap_eqb_F.
    destruct (bdd_eqb_spec (bmodel t) F) as [Et|Et]; cbn [negb].
    - destruct (bdd_eqb_spec (bmodel f) F) as [Ef|Ef]; cbn [negb]; [reflexivity|].
      rewrite band_notvar_cube by (auto; intros E; apply Ef; apply bmap_F; exact E).
      rewrite band_notvar_cube by auto. reflexivity.
    - rewrite band_cube_var by (auto; intros E; apply Et; apply bmap_F; exact E).
      rewrite band_cube_var by auto. reflexivity.
  Qed.

  (** the table printers *)
  Lemma index_of_map v FV : index_of (p v) (map p FV) = index_of v FV.
  Proof.
    induction FV as [|x FV IH]; cbn [map index_of]; [reflexivity|]. rewrite IH.
    destruct (Nat.eqb_spec (p x) (p v)) as [E|NE], (Nat.eqb_spec x v) as [E'|NE']; auto.
    - apply pinj in E. contradiction.
    - subst. contradiction.
  Qed.
  Lemma tt_rows_bmap FV : forall d vals, tt_rows (map p FV) (bmap p d) vals = tt_rows FV d vals.
  Proof.
    induction d as [| |t IHt v f IHf]; intros vals; cbn [bmap tt_rows]; auto.
    rewrite index_of_map. destruct (index_of v FV) as [i|]; [|reflexivity]. rewrite IHt, IHf. reflexivity.
  Qed.
  Lemma tt_rows_f_bmap FV filt d vals : tt_rows_f (map p FV) filt (bmap p d) vals = tt_rows_f FV filt d vals.
  Proof. rewrite !C10_filter, tt_rows_bmap. reflexivity. Qed.
  Lemma tv_rows_bmap FV d vals : tv_rows (map p FV) (bmap p d) vals = tv_rows FV d vals.
  Proof. rewrite !C10_vars, tt_rows_bmap. reflexivity. Qed.
End Commute.

(** ---- lists: variables of renamed tokens, de-duplication, sorting, free-variable filter ---- *)
From Rsbdd Require Import Syntax.Token Syntax.Lexer Syntax.Tokenize Syntax.Parser Syntax.Grammar Syntax.ParserSound Syntax.ParserComplete.
From Rsbdd Require Import Cli.PipelineFacts Cli.Ordering.

Section Lists.
  Variable p q : nat -> nat.
  Hypothesis q_p : forall x, q (p x) = x.
  Let pinj := p_inj'' p q q_p.

  Lemma tok_vars_rt ts : tok_vars (map (rt p) ts) = map p (tok_vars ts).
  Proof. induction ts as [|t ts IH]; [reflexivity|]. destruct t; cbn [map rt tok_vars]; rewrite ?IH; reflexivity. Qed.

  Lemma dedup_acc_map : forall l seen, dedup_acc (map p seen) (map p l) = map p (dedup_acc seen l).
  Proof.
    induction l as [|x l IH]; intros seen; cbn [map dedup_acc]; [reflexivity|].
    rewrite (mem_nat_map p q q_p x seen). destruct (mem_nat x seen); [apply IH|].
    cbn [map]. f_equal. exact (IH (x :: seen)).
  Qed.
  Lemma dedup_map l : dedup (map p l) = map p (dedup l).
  Proof. exact (dedup_acc_map l []). Qed.

  Definition mono_on (l : list nat) : Prop := forall x y, In x l -> In y l -> x < y -> p x < p y.
  Lemma leb_mono l x y : mono_on l -> In x l -> In y l -> Nat.leb (p x) (p y) = Nat.leb x y.
  Proof.
    intros Hm Hx Hy. destruct (Nat.leb_spec x y) as [Hle|Hgt].
    - apply Nat.leb_le. destruct (Nat.eq_dec x y) as [->|Hne]; [lia|]. pose proof (Hm x y Hx Hy ltac:(lia)). lia.
    - apply Nat.leb_gt. exact (Hm y x Hy Hx Hgt).
  Qed.
  Lemma insert_sorted_map all x l : mono_on all -> In x all -> incl l all ->
    insert_sorted (p x) (map p l) = map p (insert_sorted x l).
  Proof.
    intros Hm Hx. induction l as [|y l IH]; intros Hl; cbn [map insert_sorted]; [reflexivity|].
    rewrite (leb_mono all x y Hm Hx (Hl y (or_introl eq_refl))). destruct (Nat.leb x y); [reflexivity|].
    cbn [map]. f_equal. apply IH. intros z Hz. apply Hl. right. exact Hz.
  Qed.
  Lemma sort_ids_map l : mono_on l -> sort_ids (map p l) = map p (sort_ids l).
  Proof.
    intros Hm. assert (G : forall k, incl k l -> sort_ids (map p k) = map p (sort_ids k)).
    { induction k as [|x k IH]; intros Hk; cbn [map sort_ids fold_right]; [reflexivity|].
      fold (sort_ids (map p k)). fold (sort_ids k). rewrite IH by (intros z Hz; apply Hk; right; exact Hz).
      apply (insert_sorted_map l); [exact Hm|apply Hk; left; reflexivity|].
      intros z Hz. apply Hk. right. exact (proj1 (sort_ids_In k z) Hz). }
    apply G. apply incl_refl.
  Qed.

  Lemma existsb_map' {A B} (g : A -> B) (h : B -> bool) l : existsb h (map g l) = existsb (fun a => h (g a)) l.
  Proof. induction l as [|a l IH]; cbn [map existsb]; [reflexivity|]. rewrite IH. reflexivity. Qed.
  Lemma existsb_ext' {A} (g h : A -> bool) l : (forall a, In a l -> g a = h a) -> existsb g l = existsb h l.
  Proof. induction l as [|a l IH]; intros H; cbn [existsb]; [reflexivity|]. rewrite (H a (or_introl eq_refl)), IH; auto. intros b Hb. apply H. right. exact Hb. Qed.
  Lemma var_is_free_rename : forall f x, var_is_free (rename p f) (p x) = var_is_free f x.
  Proof.
    induction f as [| |v|g IH|qq vs g IH|op fs n IH|op l rr IHl IHr|y i g IH|c t e IHc IHt IHe|op l rr IHl IHr|b0|] using AstFacts.form_ind';
      intros x; cbn [rename var_is_free]; auto.
    - destruct (Nat.eqb_spec (p v) (p x)) as [E|NE], (Nat.eqb_spec v x) as [E'|NE']; auto; try (apply pinj in E; contradiction); try (subst; contradiction).
    - rewrite (mem_nat_map p q q_p x vs), IH. reflexivity.
    - rewrite existsb_map'. apply existsb_ext'. rewrite Forall_forall in IH. intros g Hg. apply IH. exact Hg.
    - rewrite !existsb_map'. rewrite Forall_forall in IHl, IHr. f_equal; apply existsb_ext'; intros g Hg; auto.
    - rewrite IH. f_equal. f_equal.
      destruct (Nat.eqb_spec (p y) (p x)) as [E|NE], (Nat.eqb_spec y x) as [E'|NE']; auto; try (apply pinj in E; contradiction); try (subst; contradiction).
    - rewrite IHc, IHt, IHe. reflexivity.
    - rewrite IHl, IHr. reflexivity.
  Qed.
  Lemma free_of_map vars f : free_of (map p vars) (rename p f) = map p (free_of vars f).
  Proof.
    unfold free_of. induction vars as [|x vars IH]; cbn [map filter]; [reflexivity|].
    rewrite var_is_free_rename. destruct (var_is_free f x); cbn [map]; rewrite IH; reflexivity.
  Qed.
End Lists.

(** ---- two runs of the tokenizer / parser on one text (extracted from the proof of C11_text) ---- *)
Lemma runs_related uc o1 o2 txt p1 p2 :
  NoDup (map snd o1) -> NoDup (map snd o2) ->
  parsed_formula uc o1 txt = Done p1 -> parsed_formula uc o2 txt = Done p2 ->
  exists (pp qq : nat -> nat) ts1 ts2,
    (forall x, qq (pp x) = x) /\
    tokenize uc o1 txt = Some ts1 /\ tokenize uc o2 txt = Some ts2 /\ ts2 = map (rt pp) ts1 /\
    pf_form p2 = rename pp (pf_form p1) /\ nofsub (pf_form p1) /\
    (forall x, fv (pf_form p1) x = true -> In x (tok_vars ts1)) /\
    forall x, In x (tok_vars ts1) ->
      pp x = lookup_id (name_table uc o2 txt) (name_of (name_table uc o1 txt) x) /\
      name_of (name_table uc o2 txt) (pp x) = name_of (name_table uc o1 txt) x /\
      exists w, In w (ident_names (lex_raw uc txt)) /\ x = lookup_id (name_table uc o1 txt) w /\ name_of (name_table uc o1 txt) x = w.
Proof.
  intros Hd1 Hd2 Hp1 Hp2.
  unfold parsed_formula, tokenize, name_table in *.
  pose proof (preload_tinv o1 Hd1) as T1. pose proof (preload_tinv o2 Hd2) as T2.
  destruct (preload o1) as [m1 c1]. destruct (preload o2) as [m2 c2]. cbn [fst snd] in T1, T2.
  set (rs := lex_raw uc txt) in *.
  destruct (classify m1 c1 rs) as [ts1|] eqn:C1; [|discriminate]. destruct (classify m2 c2 rs) as [ts2|] eqn:C2; [|discriminate].
  set (mf1 := number_names m1 c1 (ident_names rs)) in *. set (mf2 := number_names m2 c2 (ident_names rs)) in *.
  pose proof (classify_render rs m1 c1 ts1 C1) as R1. pose proof (classify_render rs m2 c2 ts2 C2) as R2. fold mf1 in R1. fold mf2 in R2.
  destruct (number_names_tinv (ident_names rs) m1 c1 T1) as (d1 & F1). destruct (number_names_tinv (ident_names rs) m2 c2 T2) as (d2 & F2).
  fold mf1 in F1. fold mf2 in F2.
  assert (Cov1 : forall w, In w (ident_names rs) -> exists i, assoc w mf1 = Some i) by (intros w Hw; apply number_names_covers; exact Hw).
  assert (Cov2 : forall w, In w (ident_names rs) -> exists i, assoc w mf2 = Some i) by (intros w Hw; apply number_names_covers; exact Hw).
  pose proof (render_rename mf1 mf2 d1 d2 rs ts1 ts2 F1 F2 Cov1 R1 R2) as Hts.
  set (pp := ext_p mf1 mf2 d2). set (qq := ext_q mf1 mf2 d2).
  assert (Hqp : forall x, qq (pp x) = x) by (apply (ext_q_p mf1 mf2 d1 d2 F1 F2)).
  assert (Hagree : forall x, In x (tok_vars ts1) -> pp x = lookup_id mf2 (name_of mf1 x) /\ name_of mf2 (pp x) = name_of mf1 x /\
            exists w, In w (ident_names rs) /\ x = lookup_id mf1 w /\ name_of mf1 x = w).
  { intros x Hx. destruct (render_vars mf1 rs ts1 x R1 Hx) as (w & Hw & ->).
    destruct (Cov1 w Hw) as (i & Ei). destruct (Cov2 w Hw) as (j & Ej).
    assert (El : lookup_id mf1 w = i) by (unfold lookup_id; cbv [name idmap] in *; rewrite Ei; reflexivity). rewrite El.
    unfold pp. rewrite (ext_p_lookup mf1 mf2 d1 d2 w i F1 Ei (ex_intro _ j Ej)).
    rewrite (name_of_assoc mf1 d1 w i F1 Ei). split; [reflexivity|].
    assert (El2 : lookup_id mf2 w = j) by (unfold lookup_id; cbv [name idmap] in *; rewrite Ej; reflexivity). rewrite El2.
    split; [apply (name_of_assoc mf2 d2 w j F2 Ej)|]. exists w. split; [exact Hw|]. split; [symmetry; exact El|reflexivity]. }
  assert (Hts' : ts2 = map (rt pp) ts1).
  { rewrite Hts. apply map_ext_in. intros t Ht. destruct t; try reflexivity. cbn [rt]. f_equal. symmetry.
    apply Hagree.
    clear - Ht. induction ts1 as [|u ts IH]; [destruct Ht|]. destruct Ht as [->|Ht]; [left; reflexivity|].
    cbn [tok_vars]. destruct u; try (apply IH; exact Ht). right. apply IH. exact Ht. }
  pose proof (parsed_tokens ts1 p1 Hp1) as Par1. pose proof (parsed_tokens ts2 p2 Hp2) as Par2.
  assert (Hren : pf_form p2 = rename pp (pf_form p1)).
  { assert (G1 : G_formula ts1 (pf_form p1)).
    { apply (C08_sound_lexed (3 * length ts1 + 3) ts1 _); [|exact Par1]. destruct (classify_eof_last _ _ _ _ C1) as (body & -> & Hn). intros s r E. eapply split_at_first_eof; eauto. }
    pose proof (G_formula_rename pp ts1 _ G1) as G2. rewrite <- Hts' in G2.
    pose proof (C08_complete ts2 _ G2) as Par2'. rewrite Par2 in Par2'. inversion Par2'. reflexivity. }
  destruct (parse_vars ts1 _ _ Par1) as [Hns1 Hfv1].
  exists pp, qq, ts1, ts2. split; [exact Hqp|]. split; [reflexivity|]. split; [reflexivity|]. split; [exact Hts'|].
  split; [exact Hren|]. split; [exact Hns1|]. split; [exact Hfv1|]. exact Hagree.
Qed.

(** ---- association lists with distinct keys; preloading an ordering ---- *)
Lemma In_assoc {B} (l : list (name * B)) w v : NoDup (map fst l) -> In (w, v) l -> assoc w l = Some v.
Proof.
  induction l as [|[k u] l IH]; intros Hnd Hin; [destruct Hin|]. cbn [assoc map fst] in *. inversion Hnd as [|? ? Hk Hnd']; subst.
  destruct Hin as [E|Hin].
  - inversion E; subst. destruct (name_eqb_spec w w); [reflexivity|congruence].
  - destruct (name_eqb_spec k w) as [->|NE]; [|apply IH; auto].
    exfalso. apply Hk. apply in_map_iff. exists (w, v). auto.
Qed.
Lemma preload_fst : forall (o : list (name * nat)) (acc : idmap) (c : nat),
  fst (fold_left (fun (st : idmap * nat) (e : name * nat) => ((fst e, snd e) :: fst st, Nat.max (snd st) (S (snd e)))) o (acc, c)) = rev o ++ acc.
Proof.
  induction o as [|[w i] o IH]; intros acc c; cbn [fold_left rev fst snd]; [reflexivity|].
  rewrite IH. rewrite <- app_assoc. reflexivity.
Qed.
Lemma assoc_preload o w v : NoDup (map fst o) -> In (w, v) o -> assoc w (fst (preload o)) = Some v.
Proof.
  intros Hnd Hin. unfold preload. rewrite preload_fst, app_nil_r. apply In_assoc.
  - rewrite map_rev. apply NoDup_rev. exact Hnd.
  - apply in_rev in Hin. exact Hin.
Qed.
Lemma number_from_fst : forall ws k, map fst (number_from k ws) = ws.
Proof. induction ws as [|w ws IH]; intros k; cbn [number_from map fst]; [reflexivity|]. rewrite IH. reflexivity. Qed.
Lemma number_from_In : forall ws k a w, nth_error ws a = Some w -> In (w, k + a) (number_from k ws).
Proof.
  induction ws as [|x ws IH]; intros k a w Ha; [destruct a; discriminate|]. destruct a as [|a]; cbn [nth_error number_from] in *.
  - inversion Ha; subst. left. f_equal. lia.
  - right. replace (k + S a) with (S k + a) by lia. apply IH. exact Ha.
Qed.

(** positions in a sorted duplicate-free list follow the order of the elements *)
Lemma sorted_positions l : Sorted le l -> NoDup l -> forall a b x y, nth_error l a = Some x -> nth_error l b = Some y -> x < y -> a < b.
Proof.
  intros Hs Hnd. apply Sorted_StronglySorted in Hs; [|intros u v w' H1 H2; lia].
  induction Hs as [|z l Hs IH Hall]; intros a b x y Ha Hb Hlt; [destruct a; discriminate|].
  inversion Hnd as [|? ? Hz Hnd']; subst. rewrite Forall_forall in Hall.
  destruct a as [|a], b as [|b]; cbn [nth_error] in Ha, Hb.
  - inversion Ha; inversion Hb; subst. lia.
  - lia.
  - inversion Hb; subst. apply nth_error_In in Ha. pose proof (Hall x Ha). lia.
  - pose proof (IH Hnd' a b x y Ha Hb Hlt). lia.
Qed.

(** ---- the round trip ---- *)
Theorem C11_roundtrip fuel fuel' uc o ordfile1 txt out1 otxt2 out2 :
  cli fuel uc o ordfile1 txt = CliOk out1 ->
  ordering_of_file uc otxt2 = Done (number_from 0 (out_order out1)) ->      (* the exported list, read back as an ordering file *)
  cli fuel' uc o (Some otxt2) txt = CliOk out2 ->
  out_header out2 = out_header out1 /\ out_rows out2 = out_rows out1 /\ out_true out2 = out_true out1 /\ out_order out2 = out_order out1.
Proof.
  intros H1 Hord H2.
  (* run 1 *)
  unfold cli in H1.
  destruct (match ordfile1 with None => Done [] | Some otxt => ordering_of_file uc otxt end) as [ord1| |] eqn:Ho1; try discriminate.
  assert (Hd1 : NoDup (map snd ord1)).
  { destruct ordfile1 as [otxt|]; [exact (ordering_of_file_distinct uc otxt ord1 Ho1)|]. inversion Ho1; subst. constructor. }
  destruct (parsed_formula uc ord1 txt) as [p1| |] eqn:Hp1; try discriminate.
  destruct (printed_diagram fuel o p1) as [d1| |] eqn:Hpd1; try discriminate.
  set (names1 := name_table uc ord1 txt) in *.
  destruct (tt_rows_f (pf_free p1) (o_filter o) d1 (all_any (pf_free p1))) as [rows1|] eqn:Hr1; try discriminate.
  destruct (tv_rows (pf_free p1) d1 (all_any (pf_free p1))) as [tv1|] eqn:Hv1; try discriminate.
  injection H1 as <-. cbn [out_order out_header out_rows out_true] in *.
  set (ws := map (name_of names1) (pf_vars p1)) in *.
  (* run 2 *)
  unfold cli in H2. rewrite Hord in H2.
  set (ord2 := number_from 0 ws) in *.
  assert (Hd2 : NoDup (map snd ord2)) by (unfold ord2; rewrite number_from_ids; apply seq_NoDup).
  destruct (parsed_formula uc ord2 txt) as [p2| |] eqn:Hp2; try discriminate.
  destruct (printed_diagram fuel' o p2) as [d2| |] eqn:Hpd2; try discriminate.
  set (names2 := name_table uc ord2 txt) in *.
  destruct (tt_rows_f (pf_free p2) (o_filter o) d2 (all_any (pf_free p2))) as [rows2|] eqn:Hr2; try discriminate.
  destruct (tv_rows (pf_free p2) d2 (all_any (pf_free p2))) as [tv2|] eqn:Hv2; try discriminate.
  injection H2 as <-. cbn [out_order out_header out_rows out_true].
  (* the two runs *)
  destruct (runs_related uc ord1 ord2 txt p1 p2 Hd1 Hd2 Hp1 Hp2) as (pp & qq & ts1 & ts2 & Hqp & Ht1 & Ht2 & Hts & Hren & Hns1 & Hfv1 & Hagree).
  fold names1 names2 in Hagree.
  unfold parsed_formula in Hp1, Hp2. rewrite Ht1 in Hp1. rewrite Ht2 in Hp2.
  destruct (pf_vars_spec ts1 p1 Hp1) as (Hnd1 & Hs1 & Hin1 & Hfree1 & _).
  assert (Hp1' := Hp1). assert (Hp2' := Hp2).
  unfold parsed_of_tokens in Hp1', Hp2'.
  destruct (parse ts1) as [f1 r1| |] eqn:Par1; try discriminate. destruct (parse ts2) as [f2 r2| |] eqn:Par2; try discriminate.
  injection Hp1' as E1. injection Hp2' as E2.
  assert (Ev1 : pf_vars p1 = sort_ids (dedup (tok_vars ts1))) by (rewrite <- E1; reflexivity).
  assert (Ev2 : pf_vars p2 = sort_ids (dedup (tok_vars ts2))) by (rewrite <- E2; reflexivity).
  assert (Ef2 : pf_free p2 = free_of (pf_vars p2) (pf_form p2)) by (rewrite <- E2; reflexivity).
  assert (Ef1 : pf_free p1 = free_of (pf_vars p1) (pf_form p1)) by (rewrite <- E1; reflexivity).
  (* names of distinct variables of the text are distinct *)
  assert (Hvt : forall x, In x (pf_vars p1) -> In x (tok_vars ts1)) by (intros x Hx; apply Hin1; exact Hx).
  assert (Hname_inj : forall x y, In x (pf_vars p1) -> In y (pf_vars p1) -> name_of names1 x = name_of names1 y -> x = y).
  { intros x y Hx Hy E. destruct (Hagree x (Hvt x Hx)) as (_ & _ & wx & _ & Ex & Nx). destruct (Hagree y (Hvt y Hy)) as (_ & _ & wy & _ & Ey & Ny).
    rewrite Ex, Ey. rewrite <- Nx, <- Ny, E. reflexivity. }
  assert (Hndw : NoDup ws).
  { unfold ws. clear - Hnd1 Hname_inj. induction (pf_vars p1) as [|x l IH]; cbn [map]; constructor.
    - intros Hin. apply in_map_iff in Hin. destruct Hin as (y & Ey & Hy). inversion Hnd1; subst.
      assert (y = x) by (apply Hname_inj; [right; exact Hy|left; reflexivity|exact Ey]). subst. contradiction.
    - inversion Hnd1; subst. apply IH; auto. intros a b Ha Hb. apply Hname_inj; right; auto. }
  (* the second run numbers the variables of the text by their position in the first run's order *)
  assert (Hpos : forall a x, nth_error (pf_vars p1) a = Some x -> pp x = a).
  { intros a x Ha. destruct (Hagree x (Hvt x (nth_error_In _ _ Ha))) as (Epp & _ & _). rewrite Epp.
    assert (Hw : nth_error ws a = Some (name_of names1 x)) by (unfold ws; rewrite nth_error_map, Ha; reflexivity).
    assert (Hin2 : In (name_of names1 x, a) ord2) by (exact (number_from_In ws 0 a _ Hw)).
    assert (Ha2 : assoc (name_of names1 x) (fst (preload ord2)) = Some a).
    { apply assoc_preload; [|exact Hin2]. unfold ord2. rewrite number_from_fst. exact Hndw. }
    unfold names2, name_table. destruct (preload ord2) as [m2 c2] eqn:Epl. cbn [fst] in Ha2.
    unfold lookup_id. rewrite (number_names_keeps _ m2 c2 _ a Ha2). reflexivity. }
  assert (Hmono : mono_on pp (pf_vars p1)).
  { intros x y Hx Hy Hlt. apply In_nth_error in Hx. apply In_nth_error in Hy. destruct Hx as (a & Ha), Hy as (b & Hb).
    rewrite (Hpos a x Ha), (Hpos b y Hb). exact (sorted_positions (pf_vars p1) Hs1 Hnd1 a b x y Ha Hb Hlt). }
  (* variables, free variables *)
  assert (Hvars2 : pf_vars p2 = map pp (pf_vars p1)).
  { rewrite Ev2, Ev1, Hts, tok_vars_rt, (dedup_map pp qq Hqp). apply sort_ids_map.
    intros x y Hx Hy. apply Hmono; rewrite Ev1; apply sort_ids_In; assumption. }
  assert (Hfree2 : pf_free p2 = map pp (pf_free p1)).
  { rewrite Ef2, Ef1, Hvars2, Hren. apply (free_of_map pp qq Hqp). }
  assert (Hfsub : forall x, In x (pf_free p1) -> In x (pf_vars p1)) by (intros x Hx; rewrite Hfree1 in Hx; apply filter_In in Hx; tauto).
  (* the diagrams *)
  unfold printed_diagram in Hpd1, Hpd2. rewrite Hren in Hpd2.
  destruct (eval_f fuel (pf_form p1)) as [b1|] eqn:He1; [|discriminate].
  destruct (eval_f fuel' (rename pp (pf_form p1))) as [b2|] eqn:He2; [|discriminate].
  destruct (sound fuel _ b1 (nofsub_wf _ Hns1) He1) as [_ Hrb1].
  assert (Hsup1 : forall x, In x (support b1) -> In x (pf_vars p1)).
  { intros x Hx. apply Hin1. apply Hfv1. exact (support_fv fuel _ b1 Hns1 He1 x Hx). }
  assert (Hb2 : b2 = bmap pp b1).
  { apply (C11_rank_iso_on pp qq Hqp fuel fuel' (pf_form p1) b1 b2 Hns1 He1 He2). intros x y Hx Hy. apply Hmono; auto. }
  set (c1 := match o_retain o with TAny => b1 | f => retain b1 f end) in *.
  assert (Hc1 : robdd c1 /\ incl (support c1) (support b1)).
  { unfold c1. destruct (o_retain o); try (apply C20_shape; exact Hrb1). split; [exact Hrb1|apply incl_refl]. }
  assert (Hc2 : match o_retain o with TAny => b2 | f => retain b2 f end = bmap pp c1).
  { unfold c1. rewrite Hb2. destruct (o_retain o); try (apply (retain_bmap pp qq Hqp)). reflexivity. }
  rewrite Hc2 in Hpd2.
  assert (Hd : d2 = bmap pp d1).
  { injection Hpd1 as <-. injection Hpd2 as <-. destruct (o_model o); [|reflexivity].
    apply (bmodel_bmap pp qq Hqp c1 0 (proj1 Hc1)). intros x y Hx Hy. apply Hmono; apply Hsup1; apply (proj2 Hc1); assumption. }
  (* header, -r list, rows *)
  assert (Hnames : forall l, (forall x, In x l -> In x (pf_vars p1)) -> map (name_of names2) (map pp l) = map (name_of names1) l).
  { intros l Hl. rewrite map_map. apply map_ext_in. intros x Hx. destruct (Hagree x (Hvt x (Hl x Hx))) as (_ & En & _). exact En. }
  assert (Hany : all_any (pf_free p2) = all_any (pf_free p1)) by (unfold all_any; rewrite Hfree2, map_map; reflexivity).
  rewrite Hany, Hfree2, Hd in Hr2, Hv2.
  rewrite (tt_rows_f_bmap pp qq Hqp) in Hr2. rewrite (tv_rows_bmap pp qq Hqp) in Hv2.
  rewrite Hr1 in Hr2. rewrite Hv1 in Hv2. injection Hr2 as <-. injection Hv2 as <-.
  rewrite Hfree2, Hvars2. rewrite (Hnames (pf_free p1) Hfsub), (Hnames (pf_vars p1) (fun x H => H)).
  repeat split; reflexivity.
Qed.
Print Assumptions C11_roundtrip.
