(** C10: the header of the printed table is the list of free variables, by name, in variable order; the -r list is the
    list of all variables in variable order. *)
From Coq Require Import List NArith Sorting.Sorted.
Import ListNotations.
From Rsbdd Require Import Core.Bdd Lang.Ast Lang.Free Syntax.Lexer Syntax.Tokenize Cli.Table Cli.TableFilter Cli.Pipeline Cli.PipelineFacts.

Theorem C10_cli_header fuel uc o ordfile txt out : cli fuel uc o ordfile txt = CliOk out ->
  exists ord p,
    (match ordfile with None => ord = [] | Some otxt => ordering_of_file uc otxt = Done ord end) /\
    parsed_formula uc ord txt = Done p /\
    let names := name_table uc ord txt in
    out_header out = map (name_of names) (pf_free p) /\
    out_order out = map (name_of names) (pf_vars p) /\
    pf_free p = filter (var_is_free (pf_form p)) (pf_vars p) /\
    Sorted le (pf_vars p) /\ NoDup (pf_vars p) /\ NoDup (pf_free p).
Proof.
  unfold cli.
  destruct ordfile as [otxt|].
  - destruct (ordering_of_file uc otxt) as [ord| |] eqn:Ho; try discriminate.
    destruct (parsed_formula uc ord txt) as [p| |] eqn:Hp; try discriminate.
    destruct (printed_diagram fuel o p) as [d| |]; try discriminate.
    destruct (tt_rows_f _ _ _ _) as [rows|]; try discriminate. destruct (tv_rows _ _ _) as [tv|]; try discriminate.
    intros H. injection H as <-. exists ord, p. split; [reflexivity|]. split; [exact Hp|]. cbn.
    unfold parsed_formula in Hp. destruct (tokenize uc ord txt) as [ts|]; [|discriminate].
    destruct (pf_vars_spec ts p Hp) as (Hnd & Hs & _ & Hfree & Hndf). repeat split; auto.
  - destruct (parsed_formula uc [] txt) as [p| |] eqn:Hp; try discriminate.
    destruct (printed_diagram fuel o p) as [d| |]; try discriminate.
    destruct (tt_rows_f _ _ _ _) as [rows|]; try discriminate. destruct (tv_rows _ _ _) as [tv|]; try discriminate.
    intros H. injection H as <-. exists [], p. split; [reflexivity|]. split; [exact Hp|]. cbn.
    unfold parsed_formula in Hp. destruct (tokenize uc [] txt) as [ts|]; [|discriminate].
    destruct (pf_vars_spec ts p Hp) as (Hnd & Hs & _ & Hfree & Hndf). repeat split; auto.
Qed.
Print Assumptions C10_cli_header.
