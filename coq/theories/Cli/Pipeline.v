(** L4: the pipeline of [ParsedFormula::new_with_env] (src/parser.rs:239-275) and of the rsbdd binary's
    [main] (src/bin/rsbdd.rs:79-216) as far as it is logic: ordering file -> tokens -> variables ->
    syntax tree -> free variables -> evaluation -> retain -> model -> header, rows, -v lines, -r list.
    Definitions only (facts are in PipelineFacts.v). *)
From Coq Require Import List Arith Bool PeanoNat NArith.
Import ListNotations.
From Rsbdd Require Import Core.Bdd Core.Ops Lang.Ast Lang.Eval Syntax.Token Syntax.Lexer Syntax.Tokenize Syntax.Parser
  Cli.Table Cli.TableFilter.

(** [extract_vars] (221-230): every Var token, unique by id, in order of first appearance *)
Fixpoint tok_vars (ts : list token) : list nat :=
  match ts with [] => [] | TVar v :: r => v :: tok_vars r | _ :: r => tok_vars r end.
Fixpoint dedup_acc (seen : list nat) (l : list nat) : list nat :=
  match l with
  | [] => []
  | x :: r => if mem_nat x seen then dedup_acc seen r else x :: dedup_acc (x :: seen) r
  end.
Definition dedup (l : list nat) : list nat := dedup_acc [] l.

(** [vars.sort_by(id)] (247): insertion sort; the list has no repetitions *)
Fixpoint insert_sorted (x : nat) (l : list nat) : list nat :=
  match l with [] => [x] | y :: r => if Nat.leb x y then x :: l else y :: insert_sorted x r end.
Definition sort_ids (l : list nat) : list nat := fold_right insert_sorted [] l.

(** the free variables: those of [vars] for which [var_is_free] holds, in the order of [vars] (261-272) *)
Definition free_of (vars : list nat) (f : form) : list nat := filter (var_is_free f) vars.

Record parsed : Type := mkParsed { pf_vars : list nat; pf_free : list nat; pf_form : form }.

Inductive outcome (A : Type) : Type := Done (a : A) | Error | Diverged.
Arguments Done {A} a. Arguments Error {A}. Arguments Diverged {A}.

Definition parsed_of_tokens (ts : list token) : outcome parsed :=
  match parse ts with
  | Ok f _ => let vars := sort_ids (dedup (tok_vars ts)) in Done (mkParsed vars (free_of vars f) f)
  | _ => Error
  end.
Definition parsed_formula (uc : N -> ucls) (ordering : list (name * nat)) (txt : list N) : outcome parsed :=
  match tokenize uc ordering txt with
  | Some ts => parsed_of_tokens ts
  | None => Error
  end.

(** names: the non-keyword identifiers of a text in order of appearance *)
Fixpoint ident_names (rs : list rtok) : list name :=
  match rs with
  | [] => []
  | RIdent w :: r => match assoc w keywords with Some _ => ident_names r | None => w :: ident_names r end
  | _ :: r => ident_names r
  end.

(** the id table after tokenizing: the preloaded ordering, then new names numbered by first appearance *)
Fixpoint number_names (m : idmap) (ctr : nat) (ws : list name) : idmap :=
  match ws with
  | [] => m
  | w :: r => match assoc w m with Some _ => number_names m ctr r | None => number_names ((w, ctr) :: m) (S ctr) r end
  end.
Definition name_table (uc : N -> ucls) (ordering : list (name * nat)) (txt : list N) : idmap :=
  let '(m, ctr) := preload ordering in number_names m ctr (ident_names (lex_raw uc txt)).
Fixpoint name_of (m : idmap) (id : nat) : name :=
  match m with [] => [] | (w, i) :: r => if Nat.eqb i id then w else name_of r id end.

(** the ordering read from a file (rsbdd.rs:98-106): the file is tokenized without ordering; its
    variables, unique, in order of first appearance, carry the ids 0, 1, ... *)
Fixpoint dedup_names (seen : list name) (ws : list name) : list name :=
  match ws with
  | [] => []
  | w :: r => if existsb (name_eqb w) seen then dedup_names seen r else w :: dedup_names (w :: seen) r
  end.
Fixpoint number_from (k : nat) (ws : list name) : list (name * nat) :=
  match ws with [] => [] | w :: r => (w, k) :: number_from (S k) r end.
Definition ordering_of_file (uc : N -> ucls) (txt : list N) : outcome (list (name * nat)) :=
  match tokenize uc [] txt with
  | Some _ => Done (number_from 0 (dedup_names [] (ident_names (lex_raw uc txt))))
  | None => Error
  end.

(** options of the binary that matter for the printed result *)
Record options : Type := mkOptions {
  o_filter : Ops.tte;        (* -f *)
  o_retain : Ops.tte;        (* -c *)
  o_model : bool;            (* -m *)
  o_repeat : nat             (* -b N, default 1 *)
}.

(** the diagram that gets printed (rsbdd.rs:118-149): eval, then retain, then model *)
Definition printed_diagram (fuel : nat) (o : options) (p : parsed) : outcome bdd :=
  match eval_f fuel (pf_form p) with
  | None => Diverged
  | Some b =>
      let b1 := match o_retain o with Ops.TAny => b | f => retain b f end in
      Done (if o_model o then bmodel b1 else b1)
  end.

Definition all_any (FV : list nat) : list cell := map (fun _ => TA) FV.

Record output : Type := mkOutput {
  out_header : list name;                  (* -t: free variable names in id order (the trailing "*" is implicit) *)
  out_rows : list row;                     (* -t rows *)
  out_true : list (list cell);             (* -v lines *)
  out_order : list name;                   (* -r: all variable names in id order *)
  out_diagram : bdd
}.

(** [None] inside [Done] cannot happen: a lookup failure in the printers is the panic of to_free_index *)
Inductive cli_result : Type := CliOk (o : output) | CliError | CliDiverged | CliPanic.

Definition cli (fuel : nat) (uc : N -> ucls) (o : options) (ordfile : option (list N)) (txt : list N) : cli_result :=
  let ordering := match ordfile with
                  | None => Done []
                  | Some otxt => ordering_of_file uc otxt
                  end in
  match ordering with
  | Error | Diverged => CliError
  | Done ord =>
      match parsed_formula uc ord txt with
      | Error | Diverged => CliError
      | Done p =>
          match printed_diagram fuel o p with
          | Diverged | Error => CliDiverged
          | Done d =>
              let names := name_table uc ord txt in
              let FV := pf_free p in
              match tt_rows_f FV (o_filter o) d (all_any FV), tv_rows FV d (all_any FV) with
              | Some rows, Some tv =>
                  CliOk (mkOutput (map (name_of names) FV) rows tv (map (name_of names) (pf_vars p)) d)
              | _, _ => CliPanic
              end
          end
      end
  end.
