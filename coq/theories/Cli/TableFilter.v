(** C10 (filters and -v): the filtered table and the -v listing are selections of the full table. *)
From Coq Require Import List Arith Bool Lia PeanoNat.
Import ListNotations.
From Rsbdd Require Import Core.Bdd Core.Ops Cli.Table.

(** the leaf test of print_truth_table_recursive (rsbdd.rs:380-386) *)
Definition agrees (filt : Ops.tte) (res : bool) : bool :=
  match filt with TAny => true | TTrue => res | TFalse => negb res end.

Fixpoint tt_rows_f (FV : list nat) (filt : Ops.tte) (d : bdd) (vals : list cell) : option (list row) :=
  match d with
  | F => Some (if agrees filt false then [(vals, false)] else [])
  | T => Some (if agrees filt true then [(vals, true)] else [])
  | Nd t v f =>
      match index_of v FV with
      | None => None
      | Some i =>
          match tt_rows_f FV filt f (set_nth i TF vals), tt_rows_f FV filt t (set_nth i TT vals) with
          | Some r0, Some r1 => Some (r0 ++ r1) | _, _ => None end
      end
  end.

(** print_true_vars_recursive (rsbdd.rs:325-356): one line per path to the true leaf *)
Fixpoint tv_rows (FV : list nat) (d : bdd) (vals : list cell) : option (list (list cell)) :=
  match d with
  | F => Some []
  | T => Some [vals]
  | Nd t v f =>
      match index_of v FV with
      | None => None
      | Some i =>
          match tv_rows FV f (set_nth i TF vals), tv_rows FV t (set_nth i TT vals) with
          | Some r0, Some r1 => Some (r0 ++ r1) | _, _ => None end
      end
  end.

Theorem C10_filter FV filt : forall d vals,
  tt_rows_f FV filt d vals = option_map (filter (fun r : row => agrees filt (snd r))) (tt_rows FV d vals).
Proof.
  induction d as [| |t IHt v f IHf]; intros vals; cbn [tt_rows_f tt_rows option_map filter snd].
  - destruct (agrees filt false); reflexivity.
  - destruct (agrees filt true); reflexivity.
  - destruct (index_of v FV) as [i|]; [|reflexivity].
    rewrite IHf, IHt. destruct (tt_rows FV f (set_nth i TF vals)), (tt_rows FV t (set_nth i TT vals)); cbn [option_map]; auto.
    rewrite filter_app. reflexivity.
Qed.

Theorem C10_vars FV : forall d vals,
  tv_rows FV d vals = option_map (fun rows => map fst (filter (fun r : row => snd r) rows)) (tt_rows FV d vals).
Proof.
  induction d as [| |t IHt v f IHf]; intros vals; cbn [tv_rows tt_rows option_map filter snd map fst]; auto.
  destruct (index_of v FV) as [i|]; [|reflexivity].
  rewrite IHf, IHt. destruct (tt_rows FV f (set_nth i TF vals)), (tt_rows FV t (set_nth i TT vals)); cbn [option_map]; auto.
  rewrite filter_app, map_app. reflexivity.
Qed.

(** with -b k (k >= 1) the formula is evaluated k times in the same environment; evaluation is a
    function, so the printed diagram is the same *)
Fixpoint repeat_eval {A} (k : nat) (ev : unit -> A) (last : A) : A :=
  match k with 0 => last | S j => repeat_eval j ev (ev tt) end.
Theorem C10_bench {A} (ev : unit -> A) k d0 : 1 <= k -> repeat_eval k ev d0 = ev tt.
Proof.
  intros Hk. destruct k as [|k]; [lia|]. cbn [repeat_eval]. clear Hk. induction k as [|k IH]; cbn [repeat_eval]; auto.
Qed.
Print Assumptions C10_filter.
