(** C12 (the logical core): on the answer of a parsed formula, the column lookup of the table
    printer never fails, so the printer never panics; and fixed-point-free formulas always evaluate. *)
From Coq Require Import List Arith Bool PeanoNat ZArith NArith Lia.
Import ListNotations.
From Rsbdd Require Import Core.Bdd Core.Ops Core.OpsFacts Core.Sem Core.Canon Core.Pres.
From Rsbdd Require Import Lang.Ast Lang.AstFacts Lang.Den Lang.DenFacts Lang.Eval Lang.EvalSound Lang.Free Lang.FSem.
From Rsbdd Require Import Cli.Table.

(** [free_vars]: the variables of [vars] (all identifier ids, sorted, without repetition) that
    [var_is_free] accepts (parser.rs:261-272) *)
Definition free_vars (vars : list nat) (f : form) : list nat := filter (var_is_free f) vars.

Lemma NoDup_filter {A} (p : A -> bool) l : NoDup l -> NoDup (filter p l).
Proof.
  induction 1 as [|x l Hx Hl IH]; cbn [filter]; [constructor|].
  destruct (p x); auto. constructor; auto. intros H. apply filter_In in H. tauto.
Qed.

Theorem C12_table_total vars f n b :
  nofsub f -> NoDup vars -> (forall x, var_is_free f x = true -> In x vars) ->
  eval_f n f = Some b ->
  exists rows, tt_rows (free_vars vars f) b (map (fun _ => TA) (free_vars vars f)) = Some rows.
Proof.
  intros Hns Hnd Hvars He.
  destruct (sound n f b (nofsub_wf f Hns) He) as [_ [Ho Hr]].
  destruct (tt_partition (free_vars vars f) (NoDup_filter _ _ Hnd) b 0 (map (fun _ => TA) (free_vars vars f)) Ho) as (rows & Hrows & _).
  - intros x Hx. unfold free_vars. apply filter_In. pose proof (C09_support n f b Hns He x Hx) as Hf. split; auto.
  - apply map_length.
  - intros i v Hi _. rewrite nth_error_map, Hi. reflexivity.
  - exists rows. exact Hrows.
Qed.

(** evaluation of a formula without fixed points cannot diverge *)
Lemma map_opt_total {A B} (f : A -> option B) l : Forall (fun a => exists b, f a = Some b) l -> exists bs, map_opt f l = Some bs.
Proof.
  induction 1 as [|a l (b & Hb) Hl (bs & IH)]; cbn [map_opt]; [eexists; reflexivity|].
  rewrite Hb, IH. eexists; reflexivity.
Qed.

Theorem nofix_total : forall f n, nofix f -> size f <= n -> exists b, eval_f n f = Some b.
Proof.
  induction f as [| |v|g IH|q vs g IH|op fs c IH|op l rr IHl IHr|y i g IH|c t e IHc IHt IHe|op l rr IHl IHr|b0|] using form_ind';
    intros n Hn Hsz; (destruct n as [|n]; [pose proof (size_pos FFalse); cbn [size] in Hsz; lia|]); cbn [eval_f]; cbn [nofix size] in *.
  - eexists; reflexivity.
  - eexists; reflexivity.
  - eexists; reflexivity.
  - destruct (IH n Hn ltac:(lia)) as (x & ->). eexists; reflexivity.
  - destruct (IH n Hn ltac:(lia)) as (x & ->). destruct q; eexists; reflexivity.
  - apply nofix_list in Hn.
    destruct (map_opt_total (eval_f n) fs) as (bs & ->); [|eexists; reflexivity].
    rewrite Forall_forall in *. intros g Hg. apply IH; auto. pose proof (size_in g fs Hg). unfold sizes in *. lia.
  - destruct Hn as [Nl Nr]. apply nofix_list in Nl. apply nofix_list in Nr.
    destruct (map_opt_total (eval_f n) l) as (xs & ->).
    { rewrite Forall_forall in *. intros g Hg. apply IHl; auto. pose proof (size_in g l Hg). unfold sizes in *. lia. }
    destruct (map_opt_total (eval_f n) rr) as (ys & ->); [|eexists; reflexivity].
    rewrite Forall_forall in *. intros g Hg. apply IHr; auto. pose proof (size_in g rr Hg). unfold sizes in *. lia.
  - destruct Hn.
  - destruct Hn as (N1 & N2 & N3).
    destruct (IHc n N1 ltac:(lia)) as (x & ->). destruct (IHt n N2 ltac:(lia)) as (y' & ->). destruct (IHe n N3 ltac:(lia)) as (z & ->).
    eexists; reflexivity.
  - destruct Hn as (N1 & N2). destruct (IHl n N1 ltac:(lia)) as (x & ->). destruct (IHr n N2 ltac:(lia)) as (y' & ->). eexists; reflexivity.
  - eexists; reflexivity.
  - eexists; reflexivity.
Qed.
Print Assumptions C12_table_total.
Print Assumptions nofix_total.
