(** Facts about the pipeline of Cli/Pipeline.v.  Main results:
    - [parse_vars]: every variable of a parsed tree is the id of an identifier token, and the tree
      contains no embedded diagram;
    - [pf_vars_spec]: [vars] is duplicate-free, sorted, and holds exactly the ids of the identifier tokens;
    - [C12_no_panic]: for EVERY fuel, classification of non-ASCII code points, option set, ordering file
      and formula text, [cli] never returns [CliPanic] (the column lookup of both printers succeeds on
      the diagram that gets printed, whether it is the answer, its retained form, or a model of either);
    - [C10_cli_table]: when [cli] prints, the rows are the filter of a partition of the assignment space
      over the header's variables whose result column is the value of the printed diagram. *)
From Coq Require Import List Arith Bool PeanoNat NArith Lia Sorted.
Import ListNotations.
From Rsbdd Require Import Core.Bdd Core.Ops Core.OpsFacts Core.Sem Core.Canon Core.Pres Core.Cube Core.Retain Core.Essential.
From Rsbdd Require Import Lang.Ast Lang.AstFacts Lang.Den Lang.DenFacts Lang.Eval Lang.EvalSound Lang.Free Lang.FixLang.
From Rsbdd Require Import Syntax.Token Syntax.Lexer Syntax.Tokenize Syntax.Parser Syntax.Grammar Syntax.ParserSound.
From Rsbdd Require Import Cli.Table Cli.TableFilter Cli.Pipeline.

(** ---- variables of a parsed tree ---- *)
Lemma tok_vars_app a b : tok_vars (a ++ b) = tok_vars a ++ tok_vars b.
Proof.
  induction a as [|t a IH]; cbn [app tok_vars]; auto. destruct t; cbn [app]; rewrite ?IH; auto.
Qed.

Lemma Gvars_toks s vs : Gvars s vs -> incl vs (tok_vars s).
Proof.
  induction 1 as [|v|v s vs _ IH]; cbn [tok_vars]; intros x Hx; auto.
  destruct Hx as [->|Hx]; [left; reflexivity|right; apply IH; exact Hx].
Qed.

Lemma grammar_vars :
  (forall s f, Gsub s f -> nofsub f /\ incl (all_vars f) (tok_vars s)) /\
  (forall s f, Gclosed s f -> nofsub f /\ incl (all_vars f) (tok_vars s)) /\
  (forall s f, Gopen s f -> nofsub f /\ incl (all_vars f) (tok_vars s)) /\
  (forall s l, Gitems s l -> Forall nofsub l /\ incl (flat_map all_vars l) (tok_vars s)).
Proof.
  apply G_mutind; intros.
  - (* Gs_closed *) auto.
  - (* Gs_bin *) destruct H as [N1 I1], H0 as [N2 I2]. cbn [nofsub all_vars]. split; [split; auto|].
    rewrite tok_vars_app. intros x Hx. apply in_app_or in Hx. apply in_or_app. destruct Hx as [Hx|Hx]; [left; auto|].
    right. destruct t; cbn [tok_vars]; try (apply I2; exact Hx). discriminate e.
  - (* Gs_open *) auto.
  - (* Gc_paren *) destruct H as [N I]. split; auto. cbn [tok_vars]. rewrite tok_vars_app. intros x Hx. apply in_or_app. left. auto.
  - (* Gc_countc *) destruct H as [N I]. cbn [nofsub all_vars]. split; [apply nofsub_list; exact N|].
    cbn [tok_vars]. rewrite tok_vars_app. intros x Hx. apply in_or_app. left. auto.
  - (* Gc_countv *) destruct H as [N1 I1], H0 as [N2 I2]. cbn [nofsub all_vars]. split; [split; apply nofsub_list; auto|].
    cbn [tok_vars]. rewrite tok_vars_app. intros x Hx. apply in_app_or in Hx. apply in_or_app. destruct Hx as [Hx|Hx]; [left; auto|].
    right. destruct t; cbn [tok_vars]; try (apply I2; exact Hx); discriminate e.
  - split; [exact I|intros x []].
  - split; [exact I|intros x []].
  - split; [exact I|intros x []].
  - split; [exact I|]. cbn. intros x Hx. exact Hx.
  - (* Gc_not *) destruct H as [N I]. split; auto.
  - (* Go_exists *) destruct H as [N I]. cbn [nofsub all_vars]. split; auto. cbn [tok_vars]. rewrite tok_vars_app. cbn [tok_vars].
    intros x Hx. apply in_or_app. right. auto.
  - destruct H as [N I]. cbn [nofsub all_vars]. split; auto. cbn [tok_vars]. rewrite tok_vars_app. cbn [tok_vars].
    intros x Hx. apply in_or_app. right. auto.
  - destruct H as [N I]. cbn [nofsub all_vars tok_vars]. split; auto. intros x Hx. right. auto.
  - destruct H as [N I]. cbn [nofsub all_vars tok_vars]. split; auto. intros x Hx. right. auto.
  - (* Go_ite *) destruct H as [N1 I1], H0 as [N2 I2], H1 as [N3 I3]. cbn [nofsub all_vars]. split; [auto|].
    cbn [tok_vars]. rewrite tok_vars_app. cbn [tok_vars]. rewrite tok_vars_app. cbn [tok_vars].
    intros x Hx. apply in_app_or in Hx. destruct Hx as [Hx|Hx]; [apply in_or_app; left; auto|].
    apply in_app_or in Hx. apply in_or_app. right. apply in_or_app. destruct Hx; [left|right]; auto.
  - (* Go_not *) destruct H as [N I]. split; auto.
  - (* Gi_nil *) split; [constructor|intros x []].
  - (* Gi_one *) destruct H as [N I]. split; [constructor; auto|]. cbn [flat_map]. rewrite app_nil_r, tok_vars_app.
    intros x Hx. apply in_or_app. left. auto.
  - (* Gi_cons *) destruct H as [N1 I1], H0 as [N2 I2]. split; [constructor; auto|]. cbn [flat_map]. rewrite tok_vars_app. cbn [tok_vars].
    intros x Hx. apply in_app_or in Hx. apply in_or_app. destruct Hx; [left|right]; auto.
Qed.

(** [fv]: free occurrences proper (a reference counts for nothing; [var_is_free] makes every variable free
    in a formula that contains an undefined reference, parser.rs:305-313) *)
Lemma fv_in_all_vars : forall f x, nofsub f -> fv f x = true -> In x (all_vars f).
Proof.
  induction f as [| |v|g IH|q vs g IH|op fs n IH|op l rr IHl IHr|y i g IH|c t e IHc IHt IHe|op l rr IHl IHr|b0|] using form_ind';
    intros x Hns; cbn [fv all_vars nofsub] in *; try (intros H; discriminate H).
  - intros H. apply Nat.eqb_eq in H. subst. left. reflexivity.
  - auto.
  - destruct (mem_nat x vs); [intros H; discriminate H|]. cbn [negb]. auto.
  - apply nofsub_list in Hns. intros H. apply existsb_exists in H. destruct H as (g & Hg & Hf). apply in_flat_map. exists g. split; auto.
    rewrite Forall_forall in *. apply IH; auto.
  - destruct Hns as [Nl Nr]. apply nofsub_list in Nl. apply nofsub_list in Nr. rewrite Forall_forall in *.
    intros H. apply orb_true_iff in H. apply in_or_app.
    destruct H as [H|H]; apply existsb_exists in H; destruct H as (g & Hg & Hf); [left|right]; apply in_flat_map; exists g; split; auto.
  - intros H. apply andb_true_iff in H. destruct H as [_ H]. auto.
  - destruct Hns as (N1 & N2 & N3). intros H. apply orb_true_iff in H. destruct H as [H|H]; [|apply in_or_app; right; apply in_or_app; right; auto].
    apply orb_true_iff in H. destruct H as [H|H]; apply in_or_app; [left; auto|right; apply in_or_app; left; auto].
  - destruct Hns as (N1 & N2). intros H. apply orb_true_iff in H. apply in_or_app. destruct H; [left|right]; auto.
  - destruct Hns.
Qed.

(** the support of the answer consists of proper free occurrences (C09_support with [fv] for [var_is_free]) *)
Theorem support_fv n f b : nofsub f -> eval_f n f = Some b -> forall x, In x (support b) -> fv f x = true.
Proof.
  intros Hns He x Hx. destruct (fv f x) eqn:Hfv; auto. exfalso.
  destruct (sound n f b (nofsub_wf f Hns) He) as [HD Hrb].
  assert (Hind : indep (bden b) x).
  { apply (Den_indep f empty (bden b) x Hns); auto.
    - intros y e Hy. discriminate. - intros y e Hy. discriminate. - rewrite Hfv. discriminate. }
  apply (independent_not_in_support b x Hrb); auto.
  intros s. unfold bden, indep in Hind. rewrite (Hind s true), (Hind s false). reflexivity.
Qed.

Theorem parse_vars ts f r : parse ts = Ok f r ->
  nofsub f /\ forall x, fv f x = true -> In x (tok_vars ts).
Proof.
  unfold parse. intros H.
  assert (Hr : r = []). { unfold parse_f in H. destruct (p_sub _ ts) as [g [|t rest]| |]; try discriminate. destruct t; try discriminate. inversion H; reflexivity. }
  subst r. destruct (C08_sound _ ts f H) as (s & r & -> & HG).
  destruct (proj1 grammar_vars s f HG) as [N I]. split; [exact N|].
  intros x Hx. rewrite tok_vars_app. apply in_or_app. left. apply I. apply fv_in_all_vars; auto.
Qed.

(** ---- vars: duplicate-free, sorted, exactly the identifier ids ---- *)
Lemma dedup_acc_In seen l x : In x (dedup_acc seen l) <-> In x l /\ ~ In x seen.
Proof.
  revert seen. induction l as [|y l IH]; intros seen; cbn [dedup_acc]; [tauto|].
  destruct (mem_nat y seen) eqn:E; unfold mem_nat in E.
  - apply existsb_exists in E. destruct E as (z & Hz & Ez). apply Nat.eqb_eq in Ez. subst z.
    rewrite IH. split; [intros [? ?]; split; auto; right; auto|]. intros [[->|H] Hn]; [contradiction|auto].
  - cbn [In]. rewrite IH. cbn [In]. split.
    + intros [->|[Hl Hn]].
      * split; [left; reflexivity|]. intros Hin. assert (existsb (Nat.eqb x) seen = true) by (apply existsb_exists; exists x; split; auto; apply Nat.eqb_refl). congruence.
      * split; [right; auto|tauto].
    + intros [[->|Hl] Hn]; [left; reflexivity|]. destruct (Nat.eq_dec y x) as [->|Hne]; [left; reflexivity|right]. split; auto. intros [H|H]; auto.
Qed.
Lemma dedup_acc_NoDup seen l : NoDup (dedup_acc seen l).
Proof.
  revert seen. induction l as [|y l IH]; intros seen; cbn [dedup_acc]; [constructor|].
  destruct (mem_nat y seen); auto. constructor; auto. intros H. apply dedup_acc_In in H. destruct H as [_ H]. apply H. left. reflexivity.
Qed.
Lemma insert_sorted_In x l y : In y (insert_sorted x l) <-> y = x \/ In y l.
Proof.
  induction l as [|z l IH]; cbn [insert_sorted]; [cbn; intuition|]. destruct (Nat.leb x z); cbn [In]; [intuition|]. rewrite IH. intuition.
Qed.
Lemma sort_ids_In l y : In y (sort_ids l) <-> In y l.
Proof. unfold sort_ids. induction l as [|x l IH]; cbn [fold_right]; [tauto|]. rewrite insert_sorted_In, IH. cbn [In]. intuition. Qed.
Lemma insert_sorted_NoDup x l : NoDup l -> ~ In x l -> NoDup (insert_sorted x l).
Proof.
  induction l as [|z l IH]; intros Hnd Hx; cbn [insert_sorted]; [constructor; auto|].
  destruct (Nat.leb x z); [constructor; auto|]. inversion Hnd; subst. constructor.
  - rewrite insert_sorted_In. intros [->|H]; [apply Hx; left; reflexivity|contradiction].
  - apply IH; auto. intros H. apply Hx. right. exact H.
Qed.
Lemma sort_ids_NoDup l : NoDup l -> NoDup (sort_ids l).
Proof.
  unfold sort_ids. induction 1 as [|x l Hx Hl IH]; cbn [fold_right]; [constructor|].
  apply insert_sorted_NoDup; auto. fold (sort_ids l). rewrite sort_ids_In. exact Hx.
Qed.
Lemma insert_sorted_sorted x l : Sorted le l -> Sorted le (insert_sorted x l).
Proof.
  induction l as [|z l IH]; intros Hs; cbn [insert_sorted]; [repeat constructor|].
  destruct (Nat.leb_spec x z).
  - constructor; auto.
  - inversion Hs as [|? ? Hs' Hhd]; subst. constructor; [apply IH; exact Hs'|].
    destruct l as [|w l]; cbn [insert_sorted]; [constructor; lia|].
    destruct (Nat.leb_spec x w); constructor; try lia. inversion Hhd; subst. lia.
Qed.
Lemma sort_ids_sorted l : Sorted le (sort_ids l).
Proof. unfold sort_ids. induction l as [|x l IH]; cbn [fold_right]; [constructor|]. apply insert_sorted_sorted. exact IH. Qed.

Lemma NoDup_filter' {A} (q : A -> bool) l : NoDup l -> NoDup (filter q l).
Proof.
  induction 1 as [|x l Hx Hl IH]; cbn [filter]; [constructor|].
  destruct (q x); auto. constructor; auto. intros H. apply filter_In in H. tauto.
Qed.

Theorem pf_vars_spec ts p : parsed_of_tokens ts = Done p ->
  NoDup (pf_vars p) /\ Sorted le (pf_vars p) /\ (forall x, In x (pf_vars p) <-> In x (tok_vars ts)) /\
  pf_free p = filter (var_is_free (pf_form p)) (pf_vars p) /\ NoDup (pf_free p).
Proof.
  unfold parsed_of_tokens. destruct (parse ts) as [f r| |]; try discriminate. intros H. inversion H; subst p. cbn [pf_vars pf_free pf_form].
  assert (Hnd : NoDup (sort_ids (dedup (tok_vars ts)))) by (apply sort_ids_NoDup, dedup_acc_NoDup).
  split; [exact Hnd|]. split; [apply sort_ids_sorted|]. split.
  - intros x. rewrite sort_ids_In. unfold dedup. rewrite dedup_acc_In. cbn [In]. tauto.
  - split; [reflexivity|]. unfold free_of. apply NoDup_filter'. exact Hnd.
Qed.

(** ---- the printers never fail on the printed diagram ---- *)
Lemma tt_rows_total FV d : NoDup FV -> robdd d -> incl (support d) FV ->
  exists rows, tt_rows FV d (all_any FV) = Some rows.
Proof.
  intros Hnd [Ho _] Hs.
  destruct (tt_partition FV Hnd d 0 (all_any FV) Ho) as (rows & Hrows & _).
  - intros v Hv. apply Hs. exact Hv.
  - unfold all_any. apply map_length.
  - intros i v Hi _. unfold all_any. rewrite nth_error_map, Hi. reflexivity.
  - exists rows. exact Hrows.
Qed.

Lemma printed_shape fuel o p d : nofsub (pf_form p) -> printed_diagram fuel o p = Done d ->
  robdd d /\ forall x, In x (support d) -> fv (pf_form p) x = true.
Proof.
  intros Hns. unfold printed_diagram. destruct (eval_f fuel (pf_form p)) as [b|] eqn:He; [|discriminate].
  intros H. injection H as <-.
  destruct (sound fuel _ b (nofsub_wf _ Hns) He) as [_ Hrb].
  pose proof (support_fv fuel _ b Hns He) as Hsup.
  set (b1 := match o_retain o with TAny => b | f => retain b f end).
  assert (H1 : robdd b1 /\ incl (support b1) (support b)).
  { unfold b1. destruct (o_retain o); try (apply C20_shape; exact Hrb). split; [exact Hrb|apply incl_refl]. }
  destruct H1 as [Hr1 Hi1].
  destruct (o_model o).
  - split; [apply (shp_bmodel b1 0 Hr1)|]. intros x Hx. apply Hsup, Hi1.
    destruct (bmodel_shape b1 0 Hr1) as [_ Hinc]. apply Hinc. exact Hx.
  - split; [exact Hr1|]. intros x Hx. apply Hsup, Hi1. exact Hx.
Qed.

Theorem C12_no_panic fuel uc o ordfile txt : cli fuel uc o ordfile txt <> CliPanic.
Proof.
  unfold cli.
  destruct (match ordfile with None => Done [] | Some otxt => ordering_of_file uc otxt end) as [ord| |]; try discriminate.
  unfold parsed_formula. destruct (tokenize uc ord txt) as [ts|]; [|discriminate].
  destruct (parsed_of_tokens ts) as [p| |] eqn:Hp; try discriminate.
  destruct (printed_diagram fuel o p) as [d| |] eqn:Hd; try discriminate.
  destruct (pf_vars_spec ts p Hp) as (_ & _ & Hvars & Hfree & Hndf).
  assert (Hparse : exists f r, parse ts = Ok f r /\ pf_form p = f).
  { unfold parsed_of_tokens in Hp. destruct (parse ts) as [f r| |]; try discriminate. inversion Hp; subst p. eauto. }
  destruct Hparse as (f & r & Hpar & Hf). destruct (parse_vars ts f r Hpar) as [Hns Hfv]. rewrite <- Hf in Hns, Hfv.
  destruct (printed_shape fuel o p d Hns Hd) as [Hrd Hsd].
  assert (Hinc : incl (support d) (pf_free p)).
  { intros x Hx. rewrite Hfree. apply filter_In. split; [apply Hvars, Hfv, Hsd, Hx|apply fv_le_free; [exact Hns|apply Hsd, Hx]]. }
  destruct (tt_rows_total (pf_free p) d Hndf Hrd Hinc) as (rows & Hrows).
  rewrite C10_filter, C10_vars, Hrows. cbn [option_map]. discriminate.
Qed.

(** what the printed table means: the unfiltered rows partition the assignment space over the header's
    variables, every row carries the value of the printed diagram, and the printed rows are the filter of them *)
Theorem C10_cli_table fuel uc o ordfile txt out : cli fuel uc o ordfile txt = CliOk out ->
  exists FV rows, NoDup FV /\ tt_rows FV (out_diagram out) (all_any FV) = Some rows /\
    out_rows out = filter (fun r : row => agrees (o_filter o) (snd r)) rows /\
    out_true out = map fst (filter (fun r : row => snd r) rows) /\
    length (out_header out) = length FV /\
    forall s, exists r, In r rows /\ matches FV s (fst r) /\ snd r = beval s (out_diagram out) /\
                        forall r', In r' rows -> matches FV s (fst r') -> r' = r.
Proof.
  unfold cli.
  destruct (match ordfile with None => Done [] | Some otxt => ordering_of_file uc otxt end) as [ord| |]; try discriminate.
  unfold parsed_formula. destruct (tokenize uc ord txt) as [ts|]; [|discriminate].
  destruct (parsed_of_tokens ts) as [p| |] eqn:Hp; try discriminate.
  destruct (printed_diagram fuel o p) as [d| |] eqn:Hd; try discriminate.
  destruct (pf_vars_spec ts p Hp) as (_ & _ & Hvars & Hfree & Hndf).
  assert (Hparse : exists f r, parse ts = Ok f r /\ pf_form p = f).
  { unfold parsed_of_tokens in Hp. destruct (parse ts) as [f r| |]; try discriminate. inversion Hp; subst p. eauto. }
  destruct Hparse as (f & r & Hpar & Hf). destruct (parse_vars ts f r Hpar) as [Hns Hfv]. rewrite <- Hf in Hns, Hfv.
  destruct (printed_shape fuel o p d Hns Hd) as [Hrd Hsd].
  assert (Hinc : forall v, In v (support d) -> In v (pf_free p)).
  { intros x Hx. rewrite Hfree. apply filter_In. split; [apply Hvars, Hfv, Hsd, Hx|apply fv_le_free; [exact Hns|apply Hsd, Hx]]. }
  destruct Hrd as [Ho Hr].
  destruct (tt_partition (pf_free p) Hndf d 0 (all_any (pf_free p)) Ho Hinc) as (rows & Hrows & _ & Hpart).
  { unfold all_any. apply map_length. }
  { intros i v Hi _. unfold all_any. rewrite nth_error_map, Hi. reflexivity. }
  rewrite C10_filter, C10_vars, Hrows. cbn [option_map]. intros H. injection H as <-. cbn [out_diagram out_rows out_true out_header].
  exists (pf_free p), rows. split; [exact Hndf|]. split; [exact Hrows|]. split; [reflexivity|]. split; [reflexivity|].
  split; [apply map_length|]. intros s. apply Hpart.
  unfold matches, all_any. clear. induction (pf_free p) as [|v l IH]; cbn [map]; constructor; auto. exact I.
Qed.

(** ---- C01 / C08 / C09 composed over a text ---- *)
Theorem C01_text uc ord txt p n b :
  parsed_formula uc ord txt = Done p -> eval_f n (pf_form p) = Some b ->
  exists ts, tokenize uc ord txt = Some ts /\ G_formula ts (pf_form p) /\      (* the tree is the grammar's (C08) *)
    Den empty (pf_form p) (bden b) /\ robdd b /\                               (* the answer is its meaning (C01), canonical (C02) *)
    (forall x, In x (support b) -> In x (pf_free p)) /\                        (* and mentions free variables only (C09) *)
    (b = T <-> forall s, beval s b = true) /\ (b = F <-> forall s, beval s b = false).
Proof.
  unfold parsed_formula. destruct (tokenize uc ord txt) as [ts|] eqn:Ht; [|discriminate].
  intros Hp He. exists ts. split; [reflexivity|].
  destruct (pf_vars_spec ts p Hp) as (_ & _ & Hvars & Hfree & _).
  assert (Hparse : exists f r, parse ts = Ok f r /\ pf_form p = f).
  { unfold parsed_of_tokens in Hp. destruct (parse ts) as [f r| |]; try discriminate. inversion Hp; subst p. eauto. }
  destruct Hparse as (f & r & Hpar & Hf). destruct (parse_vars ts f r Hpar) as [Hns Hfv]. rewrite <- Hf in Hns, Hfv.
  assert (Hr : r = []). { unfold parse, parse_f in Hpar. destruct (p_sub _ ts) as [g [|t rest]| |]; try discriminate. destruct t; try discriminate. inversion Hpar; reflexivity. }
  subst r.
  destruct (sound n _ b (nofsub_wf _ Hns) He) as [HD Hrb].
  split.
  { rewrite Hf. exact (C08_sound_lexed _ ts f (tokenize_eof_last uc ord txt ts Ht) Hpar). }
  split; [exact HD|]. split; [exact Hrb|]. split.
  { intros x Hx. rewrite Hfree. apply filter_In. pose proof (support_fv n _ b Hns He x Hx) as Hx'. split; [apply Hvars, Hfv, Hx'|apply fv_le_free; auto]. }
  split.
  - split; [intros ->; reflexivity|apply robdd_valid; exact Hrb].
  - split; [intros ->; reflexivity|apply robdd_unsat; exact Hrb].
Qed.
